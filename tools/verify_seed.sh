#!/bin/bash
# Confirm a seeded change produced by a sub-agent: suite passes with it, demo fails with it, demo passes without it.
# usage: verify_seed.sh <id> [worktree]    (default worktree /tmp/seed/<id>)
id=$1; wt=${2:-/tmp/seed/$id}
out=/verif/seeded/$id; mkdir -p $out
export CARGO_NET_OFFLINE=true
cd $wt || exit 2
cp -r seed/patch.diff seed/meta.json $out/ 2>/dev/null
rm -rf $out/demo; cp -r seed/demo $out/demo
demo_cmd=$(python3 -c "import json;print(json.load(open('$wt/seed/meta.json')).get('demo_cmd',''))")
demo_file=$(ls seed/demo/*.rs | head -1); demo_name=$(basename $demo_file .rs)
# clean state, apply patch
git checkout -q -- src c-api/src 2>/dev/null; rm -f tests/$demo_name.rs examples/$demo_name.rs
git apply seed/patch.diff || { echo "PATCH DOES NOT APPLY" > $out/confirm.txt; exit 1; }
suite=$(cargo test --workspace --no-fail-fast --offline 2>&1 | grep -E "^test result|FAILED|failed" | tr '\n' ';')
suite_ok=$(cargo test --workspace --no-fail-fast --offline >/dev/null 2>&1 && echo true || echo false)
cp $demo_file tests/
with=$(cargo test --offline --test $demo_name 2>&1 | grep -E "^test result" | tr '\n' ';')
with_ok=$(cargo test --offline --test $demo_name >/dev/null 2>&1 && echo pass || echo fail)
git apply -R seed/patch.diff
without=$(cargo test --offline --test $demo_name 2>&1 | grep -E "^test result" | tr '\n' ';')
without_ok=$(cargo test --offline --test $demo_name >/dev/null 2>&1 && echo pass || echo fail)
rm -f tests/$demo_name.rs
cat > $out/confirm.txt <<EOT
confirmed_by: tools/verify_seed.sh in scratch worktree $wt (base $(git rev-parse --short HEAD))
suite_with_change_all_pass: $suite_ok   [$suite]
demo_with_change: $with_ok   [$with]
demo_without_change: $without_ok   [$without]
EOT
cat $out/confirm.txt
