def kv(line):
    d = {}
    for t in line.split(' '):
        if '=' in t:
            k, v = t.split('=', 1); d[k] = v
    return d
def ops_of(line):
    o = kv(line).get('ops', 'E')
    return [('E', b'') if x == 'E' else ('W', bytes.fromhex(x[1:])) for x in o.split(',') if x]
def input_bytes(line):
    return b''.join(d for k, d in ops_of(line) if k == 'W')
def flag(d, k): return d.get(k, '0') == '1'
