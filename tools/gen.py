#!/usr/bin/env python3
"""Seeded case generator for the correspondence run.  One PRNG (random.Random(seed)) drives every choice.

usage: gen.py <family> <seed> <count>      -> case lines on stdout
"""
import random, sys, re

FRAGS = [b"<", b">", b"/", b"!", b"-", b"--", b"=", b'"', b"'", b" ", b"\n", b"a", b"b", b"X", b"1", b"?", b"]", b"[", b"\0",
    b"<div", b"</div>", b"<div>", b"<script>", b"</script>", b"</SCRIPT ", b"<style>", b"</style>", b"<title>", b"</title>",
    b"<textarea>", b"</textarea>", b"<xmp>", b"</xmp>", b"<plaintext>", b"<!--", b"-->", b"--!>", b"<!DOCTYPE", b"<!doctype html",
    b" PUBLIC ", b" SYSTEM ", b'"x"', b"'y'", b"<![CDATA[", b"]]>", b"<a href=", b"<b c=d e>", b"<p/>", b"<br/", b"</", b"<!",
    b"<?", b"<!-", b"<scr", b"<script", b"&amp;", b"text", b"<svg>", b"</svg>", b"<SVG ", b"<math>", b"</math>", b"<mi>", b"</mi>",
    b"<font color=x>", b"<font>", b"<font SIZE", b"<foreignObject>", b"</foreignObject>", b"<desc/>", b"<desc>", b"</desc>",
    b'<annotation-xml encoding="text/html">', b"<annotation-xml>", b"</annotation-xml>", b"<p>", b"</p>", b"<br>", b"</br>",
    b"<g/>", b"<path d=1 />", b"<select>", b"</select>", b"<template>", b"</template>", b"<frameset>", b"<noframes>", b"</noframes>",
    b"<input>", b"<option>", b"<table>", b"<tr><td>", b"<!-->", b"<!--->", b"<!--x--!>", b"<a b='c' D=\"e\" f=g h>", b"<img src=x/>",
    b"<iframe>", b"</iframe>", b"<noscript>", b"</noscript>", b"<!-- <script> -->", b"<script><!--", b"<script><!--<script>",
    b"</script>-->", b"<scripts", b"<script_count", b"<scriptx>", b"<script><!--", b"<script\t", b"</scriptx", b"<textarea a=>", b"<script x=>", b"<title y= >", b"<style z=>", b"<xmp q=>", b"<div a=>", b"<li class=x id=y>", b"<span>", b"</span>", b"<h1>", b"</h1>", b"<ul>", b"</ul>"]

def doc(rng, maxfrags=10):
    k = 1 + rng.randrange(maxfrags)
    return b"".join(rng.choice(FRAGS) for _ in range(k))

def wellformed(rng, depth=0):
    """mostly-valid nested document"""
    tags = ["div", "span", "p", "a", "ul", "li", "b", "h1", "section", "em"]
    voids = ["br", "img", "hr", "input"]
    out = b""
    for _ in range(rng.randrange(1, 4)):
        c = rng.randrange(10)
        if c < 4 and depth < 4:
            t = rng.choice(tags).encode()
            attrs = b""
            for _ in range(rng.randrange(3)):
                attrs += b" " + rng.choice([b"class", b"id", b"href", b"data-x", b"TITLE"]) + rng.choice([b"", b"=v", b'="a b"', b"='q'"])
            out += b"<" + t + attrs + b">" + wellformed(rng, depth + 1) + (b"</" + t + b">" if rng.randrange(8) else b"")
        elif c < 5:
            out += b"<" + rng.choice(voids).encode() + rng.choice([b"", b"/", b" x=y"]) + b">"
        elif c < 8:
            out += rng.choice([b"hello", b"some text ", b"x&amp;y", b"1 < 2", b"\n  "])
        elif c < 9:
            out += b"<!--" + rng.choice([b"c", b" a-b ", b""]) + b"-->"
        else:
            out += rng.choice([b"<script>var x='<b>';</script>", b"<style>a>b{}</style>", b"<title>T&lt;</title>", b"<svg><g/><path d=1 /></svg>"])
    return out

def chunkings(rng, data):
    mode = rng.randrange(5)
    if mode == 0 or len(data) == 0:
        return [data]
    if mode == 1:
        return [data[i:i+1] for i in range(len(data))]
    if mode == 2:
        c = rng.randrange(len(data) + 1)
        return [data[:c], data[c:]]
    chunks, i = [], 0
    while i < len(data):
        step = rng.randrange(7) if mode == 3 else rng.randrange(1, 40)
        chunks.append(data[i:i+step]); i += step
    return chunks or [b""]

def ops_of(chunks):
    return ",".join(["W" + c.hex() for c in chunks] + ["E"])

def deep_doc(rng):
    """nesting counters at and beyond 255 / 256: templates in select (the guard's depth), foreign roots (namespace stack), plain elements"""
    k = rng.choice([254, 255, 256, 257, 300])
    c = rng.randrange(4)
    if c == 0: return b"<select>" + b"<template>" * k + rng.choice([b"", b"</template>" * k + b"</select><p>x</p>", b"<title>"])
    if c == 1: return (b"<svg>" * k) + b"<g/>" + (b"</svg>" * rng.choice([0, k, k + 1])) + b"<p>x</p>"
    if c == 2: return (b"<math><mi>" * (k // 2)) + b"x" + b"<p>y</p>"
    return (b"<div>" * k) + b"x" + (b"</div>" * rng.choice([0, k]))
def gen_l1(rng, n, prefix="a"):
    for i in range(n):
        data = doc(rng) if rng.randrange(4) else wellformed(rng)
        if rng.randrange(40) == 0: data = deep_doc(rng)
        seed = rng.choice([21, 0, 1, 5, 9, 13]) + 32 * rng.randrange(3)
        kv = dict(seed=seed, strict=rng.randrange(4) == 0 and 1 or 0)
        if data.startswith(b"<select><template><template>"): kv["strict"] = 1
        r = rng.randrange(10)
        if r == 0:
            kv.update(fail=1 + rng.randrange(6), bh=rng.randrange(2), bail=rng.choice(["-", b"<!--bail-->".hex()]))
        elif r == 1:
            kv.update(remove=1)
        elif r == 2:
            kv.update(mem=rng.randrange(0, 40), prealloc=rng.choice([0, 0, 4, 16]), bm=rng.randrange(2), bail=rng.choice(["-", b"[B]".hex()]))
        elif r == 3:
            kv.update(endt=b"<!--end-->".hex())
        yield "L1 %s%d %s ops=%s" % (prefix, i, " ".join("%s=%s" % x for x in kv.items()), ops_of(big_chunkings(rng, data) if len(data) > 5000 else chunkings(rng, data)))

def big_chunkings(rng, data):
    """a very long tag: whole, or cut once (re-lexing a buffered tag for every small chunk is quadratic in model and implementation)"""
    if rng.randrange(2): return [data]
    c = rng.randrange(1, len(data)); return [data[:c], data[c:]]

RUN_UNITS = [b"x ", b"x\t", b"/ ", b"x/", b"x= ", b"<", b"-", b"]", b"--!", b"<!", b"</", b"x='' ", b'"', b"'", b"&", b"\t", b"<a ", b"?", b"<!-", b"</ ", b"-->", b"=", b"<x", b"</x", b"]]", b"\n", b"<s", b"</s"]
RUN_CTX = [(b"<p>", b"<p>y</p>"), (b"<p><a ", b">t</a>"), (b"<p></a ", b">t"), (b"<!--", b"--><p>"), (b"<svg><![CDATA[", b"]]></svg>"), (b"<script>", b"</script><p>"),
           (b"<script><!--<script>", b"</script>--></script>"), (b"<!doctype ", b"><p>"), (b"<!doctype html public ", b"><p>"), (b"<title>", b"</title>"), (b"<a b=", b">"), (b"<a b='", b"'>"), (b"<style>", b"</style>")]
def gen_runs(rng, n):
    """stack depth (C15): one construct repeated thousands of times (on a 512 KiB stack, see harness run_line) inside every tokenizer context, whole or cut once, with the tag
    scanner (no handlers) and the lexer (capture everything).  Direct `--> #[inline]` calls between state functions must not nest per repetition."""
    k = 0
    # the valueless-attribute run first (two states that hand over to each other per attribute), then the random combinations
    fixed = [(b"<p><a ", b"x ", b">t</a>"), (b"<p><a ", b"x ", b"")]
    while k < n:
        pre, unit, post = fixed[k] if k < len(fixed) else ((lambda c: (c[0], rng.choice(RUN_UNITS), c[1]))(rng.choice(RUN_CTX)))
        reps = rng.choice([5000, 6000])
        data = pre + unit * reps + rng.choice([post, post, b""])
        yield "L1 rn%d stack=512 seed=%d strict=0 ops=%s" % (k, rng.choice([0, 21]) if k >= len(fixed) else (0, 21)[k % 2], ops_of(big_chunkings(rng, data)))
        k += 1

def gen_l1fail(rng, n, prefix="f"):
    """failure-heavy histories: a handler failure or a memory failure at a random point, more calls afterwards"""
    for i in range(n):
        data = doc(rng, 14) if rng.randrange(3) else wellformed(rng)
        seed = rng.choice([0, 1, 5, 9, 13, 4, 7]) + 32 * rng.randrange(3)
        kv = dict(seed=seed, strict=0)
        if rng.randrange(2):
            kv.update(fail=1 + rng.randrange(10), bh=rng.randrange(2), bm=rng.randrange(2))
        else:
            kv.update(mem=rng.randrange(0, 30), prealloc=0, bm=rng.randrange(2), bh=rng.randrange(2))
        if rng.randrange(2): kv['bail'] = b"<!--bail-->".hex()
        if rng.randrange(4) == 0: kv['endt'] = b"<!--end-->".hex()
        ch = chunkings(rng, data)
        extra = rng.randrange(3)
        ops = ["W" + c.hex() for c in ch] + ["E"] + ["W" + b"<p>".hex()] * extra
        yield "L1 %s%d %s ops=%s" % (prefix, i, " ".join("%s=%s" % x for x in kv.items()), ",".join(ops))

# ------------------------------------------------------------------------------------------------
# level 2: real HtmlRewriter; selectors (string for Rust + structure for the model) and handler scripts
TAGS = ["a", "b", "div", "p", "span", "ul", "li", "h1", "em", "section", "my-el", "x1"]
VOIDS = ["br", "img", "input", "hr", "link", "col"]
ATTRN = ["id", "class", "title", "href", "data-x", "foo", "type", "lang", "TITLE", "Class", "onclick"]
ATTRV = ["", "a", "b", "x", "a b", "b  a", "a-b", "ab", "A", "x y z", "en-US", "en"]
CI_ATTRS = {"type", "lang"}          # on the selectors crate's ASCII-case-insensitive HTML attribute list

def hx(b): return (b if isinstance(b, bytes) else b.encode()).hex()
def flip(rng, v):
    """random ASCII case changes (case-insensitive operators: operand and value that differ only in case)"""
    return "".join((ch.upper() if rng.randrange(2) else ch.lower()) if ch.isalpha() else ch for ch in v)
def zi(v): return ("m%d" % -v) if v < 0 else str(v)

def css_ident(s):
    return s
FULL = {"on": False}
def gen_not_arg_full(rng, depth):
    """an argument of :not() from the full grammar: a compound of 1..3 simples, possibly nested negations"""
    k = rng.choice([1, 1, 2, 2, 3])
    ty = gen_type(rng) if rng.randrange(2) else ("", "")
    parts = [gen_simple(rng, depth + 1) for _ in range(k - (1 if ty[0] else 0))]
    parts = [q for q in parts if not q[1].startswith("T")]
    if not ty[0] and not parts: return ("*", "A")
    return (ty[0] + "".join(q[0] for q in parts), ".".join(([ty[1]] if ty[1] else []) + [q[1] for q in parts]))
def gen_simple(rng, depth=0):
    """returns (css string, structure string)"""
    c = rng.randrange(100)
    if FULL["on"] and c >= 80 and c < 92 and depth < 3:
        args = [gen_not_arg_full(rng, depth) for _ in range(rng.choice([1, 1, 2, 3]))]
        return (":not(%s)" % ", ".join(a[0] for a in args), "X(%s)" % "!".join(a[1] for a in args))
    if c < 14:
        v = rng.choice(["a", "b", "x", "y", "A"]); return ("#" + v, "I" + hx(v))
    if c < 30:
        v = rng.choice(["a", "b", "x", "ab"]); return ("." + v, "C" + hx(v))
    if c < 40:
        n = rng.choice(ATTRN); return ("[%s]" % n, "E" + hx(n.lower()))
    if c < 66:
        n = rng.choice(ATTRN); v = rng.choice(ATTRV + ["a", "b", "x"]); op = rng.choice(["=", "~=", "|=", "^=", "*=", "$="])
        if v == "" and op in ("~=", "^=", "$=") and rng.randrange(4) and not FULL["on"]: v = "a"
        flag = rng.choice(["", "", "", " i", " s"])
        if rng.randrange(5) == 0:
            v = flip(rng, rng.choice(["a", "b", "ab", "a b", "en-us", "x y z", "a-b"])); flag = rng.choice([" i", " i", "", " s"])
            if rng.randrange(3) == 0: n = rng.choice(["type", "lang", "TYPE"])
            if rng.randrange(2): op = "*="
        opc = {"=": "e", "~=": "i", "|=": "d", "^=": "p", "*=": "s", "$=": "x"}[op]
        cs = "i" if flag == " i" else ("s" if flag == " s" else ("h" if n.lower() in CI_ATTRS else "s"))
        return ('[%s%s"%s"%s]' % (n, op, v, flag), "V%s%s:%s:%s" % (opc, cs, hx(n), hx(v)))
    if c < 80:
        kind = rng.choice(["nth-child", "nth-of-type", "first-child", "first-of-type"])
        if kind.startswith("first"):
            return (":" + kind, ("N" if kind == "first-child" else "O") + "0:1")
        a = rng.choice([0, 0, 1, 2, 3, -1, -2]); b = rng.choice([0, 1, 2, 3, -1])
        if rng.randrange(12) == 0:        # offsets at the edge of i32: index - b must not overflow (wrapping arithmetic in has_index)
            b = rng.choice([-2147483647, -2147483648, 2147483647, -2147483646, 2147483646]); a = rng.choice([0, 1, 1, -1, 2, 2147483647, -2147483648])
        txt = "%dn%+d" % (a, b)
        return (":%s(%s)" % (kind, txt), ("N" if kind == "nth-child" else "O") + "%s:%s" % (zi(a), zi(b)))
    if c < 92 and depth < 2:
        # :not() with a simple argument, or a list of simple arguments (compound / nested arguments are the
        # known finding class C04/NotCompoundArg and are generated only by the dedicated family)
        k = 1 + (rng.randrange(3) == 0)
        args = [gen_simple_no_not(rng) for _ in range(k)]
        return (":not(%s)" % ", ".join(a[0] for a in args), "X(%s)" % "!".join(a[1] for a in args))
    t = rng.choice(TAGS + VOIDS + ["svg", "g", "path"]); return (t, "T" + hx(t))
def gen_simple_no_not(rng):
    while True:
        s = gen_simple(rng, 9)
        if not s[0].startswith(":not") : return s
def gen_type(rng):
    if FULL["on"] and rng.randrange(25) == 0:
        t = rng.choice(["1a", "1h1", "2b", "6"]); return ("\\3%s %s" % (t[0], t[1:]), "T" + hx(t))      # digit-initial names need a CSS escape
    c = rng.randrange(10)
    if c < 6:
        t = rng.choice(TAGS + VOIDS + ["svg", "g", "path", "DIV", "Span"]); return (t, "T" + hx(t))
    if c < 8: return ("*", "A")
    return ("", "")
def gen_compound(rng):
    ty = gen_type(rng)
    k = rng.randrange(3) if ty[0] else 1 + rng.randrange(2)
    parts = [gen_simple(rng) for _ in range(k)]
    parts = [p for p in parts if not p[1].startswith("T")]       # a type selector may only come first
    if not ty[0] and not parts: return ("*", "A")
    css = ty[0] + "".join(p[0] for p in parts)
    st = ".".join(([ty[1]] if ty[1] else []) + [p[1] for p in parts])
    return (css, st)
def gen_complex(rng):
    css, st = gen_compound(rng)
    for _ in range(rng.choice([0, 0, 1, 1, 2])):
        c2 = gen_compound(rng)
        if rng.randrange(2): css += " > " + c2[0]; st += ">" + c2[1]
        else: css += " " + c2[0]; st += "_" + c2[1]
    return css, st
def gen_selector(rng):
    items = [gen_complex(rng) for _ in range(rng.choice([1, 1, 1, 2]))]
    return ", ".join(i[0] for i in items), "|".join(i[1] for i in items)

CONTENT = ["<i>x</i>", "A&B", "<", "1>2", "plain", "<!--c-->", "\"q\"", ""]
def gen_chunk(rng):
    return rng.choice("ht") + hx(rng.choice(CONTENT))
def _fmt_combo(rng):
    t = rng.choice(["af:%s,rm", "af:%s,rp:%s", "bf:%s,af:%s,rm", "sf:%s,rm", "af:%s,rk", "bf:%s,rp:%s", "af:%s,si:%s", "pp:%s,ap:%s,rk"])
    while "%s" in t: t = t.replace("%s", gen_chunk(rng), 1)
    return t
def gen_el_ops(rng, observe=False):
    if observe: return ""
    if rng.randrange(15) == 0:
        # only calls that are refused (bad names): the token must stay byte-identical
        return ",".join(rng.choice(["sa:%s:%s" % (hx(rng.choice(["a=b", "", "x y", "a>b", "a/b"])), hx("v")), "tn:" + hx(rng.choice(["1a", "", "a b", "a>b", "-x"]))]) for _ in range(rng.randrange(1, 3)))
    if rng.randrange(12) == 0:
        # insert-then-remove combinations (content placed outside an element must survive its removal, also for void elements)
        return rng.choice(["af:%s,rm", "af:%s,rp:%s", "bf:%s,af:%s,rm", "sf:%s,rm", "af:%s,rk", "bf:%s,rp:%s", "af:%s,si:%s", "pp:%s,ap:%s,rk"]).replace("%s", "{}").format(*[gen_chunk(rng) for _ in range(3)][: 3]) if False else \
               _fmt_combo(rng)
    ops = []
    for _ in range(rng.choice([1, 1, 2, 3])):
        c = rng.randrange(20)
        if c < 2: ops.append("bf:" + gen_chunk(rng))
        elif c < 4: ops.append("af:" + gen_chunk(rng))
        elif c < 6: ops.append("pp:" + gen_chunk(rng))
        elif c < 8: ops.append("ap:" + gen_chunk(rng))
        elif c < 9: ops.append("si:" + gen_chunk(rng))
        elif c < 10: ops.append("rp:" + gen_chunk(rng))
        elif c < 11: ops.append("rm")
        elif c < 12: ops.append("rk")
        elif c < 15: ops.append("sa:%s:%s" % (hx(rng.choice(ATTRN + ["new", "a=b", "", "x y"])), hx(rng.choice(ATTRV + ['say "hi"', "<>&"]))))
        elif c < 16: ops.append("ra:" + hx(rng.choice(ATTRN + ["class", "id", "title", "href", "CLASS", "Id"])))
        elif c < 18: ops.append("tn:" + hx(rng.choice(["b", "section", "X", "b", "span", "1a", "a b", "", "my-x", "\u00e9l", "\u0434\u0438\u0432", "x\u00e9", "a>b", "-x"])))
        elif c < 19: ops.append("oe:(%s)" % "+".join(gen_et_op(rng) for _ in range(rng.choice([0, 1, 2]))))
        else: ops.append(rng.choice(["sb:" + gen_chunk(rng), "sf:" + gen_chunk(rng), "sr:" + gen_chunk(rng), "sx"]))
    return ",".join(ops)
def gen_et_op(rng):
    c = rng.randrange(6)
    if c < 2: return "bf:" + gen_chunk(rng)
    if c < 4: return "af:" + gen_chunk(rng)
    if c < 5: return rng.choice(["rm", "rp:" + gen_chunk(rng)])
    return "sn:" + hx(rng.choice(["b", "zz", "DIV"]))
def gen_tok_ops(rng, comment, observe=False):
    if observe: return ""
    ops = []
    for _ in range(rng.choice([1, 1, 2])):
        c = rng.randrange(8)
        if c < 2: ops.append("bf:" + gen_chunk(rng))
        elif c < 4: ops.append("af:" + gen_chunk(rng))
        elif c < 5: ops.append("rp:" + gen_chunk(rng))
        elif c < 6: ops.append("rm")
        elif comment: ops.append("st:" + hx(rng.choice(["new", "", "a-->b", "--!>", ">x", "->", "a--b", "-", "ok - ok", "a --->b", "--->", "x---!>y", "----->", "a-- >", "--", "a->b", "<!--"])))
        else: ops.append("bf:" + gen_chunk(rng))
    return ",".join(ops)

def math_doc(rng, depth=0):
    """MathML with text integration points containing HTML, unhashable names, annotation-xml"""
    out = b"<math>"
    for _ in range(rng.randrange(1, 4)):
        ip = rng.choice([b"mi", b"mo", b"mn", b"ms", b"mtext"])
        inner = b""
        for _ in range(rng.randrange(1, 4)):
            inner += rng.choice([b"<b>z</b>", b"t", b"</my-el>", b"</annotation-xml>", b"<my-el>", b"<b class=x>", b"<style><b>1</b></style>", b"</x-y>", b"<span>", b"<p>w"])
        out += b"<" + ip + b">" + inner + b"</" + ip + b">"
        if rng.randrange(3) == 0:
            out += b"<annotation-xml encoding=\"" + rng.choice([b"text/html", b"application/xhtml+xml", b"x"]) + b"\">" + rng.choice([b"<b>y</b>", b"x", b"<style><b>1</b></style>"]) + b"</annotation-xml>" + rng.choice([b"", b"<b>after</b>", b"<mtext><i>k</i></mtext>"])
    return out + rng.choice([b"</math>", b"</math>", b""])

def l2_doc(rng, depth=0, foreign=False):
    out = b""
    for _ in range(rng.randrange(1, 5)):
        c = rng.randrange(20)
        if c < 8 and depth < 5:
            t = rng.choice(TAGS + (["g", "path", "link", "col", "font-face", "linearGradient", "feGaussianBlur", "svg", "svg"] if foreign else []))
            if rng.randrange(12) == 0: t = t.upper()
            attrs = b""
            for _ in range(rng.choice([0, 0, 1, 1, 2, 3])):
                n = rng.choice(ATTRN); v = rng.choice(ATTRV)
                if rng.randrange(6) == 0: v = flip(rng, v)
                attrs += b" " + n.encode() + rng.choice([b"", b"=" + (v.replace(" ", "_") or "x").encode(), b'="' + v.encode() + b'"', b"='" + v.encode() + b"'"])
            if rng.randrange(5) == 0:
                # the same attribute name again (another spelling, another value): lookups take the first, removal takes all
                dn = rng.choice(["class", "id", "title", "href"])
                attrs += b" " + flip(rng, dn).encode() + b"=" + rng.choice([b"one", b"'two'", b'"a b"']) + b" x=1 " + flip(rng, dn).encode() + rng.choice([b"", b"=dup", b"='z'"])
            if rng.randrange(10) == 0:
                # attribute names that are parse errors but still attributes (quotes, '<', leading '=' inside names; a stray quote after a value)
                attrs += rng.choice([b' alt="foo""', b' b"c=2', b" it's=ok", b" d'=\"M0 0\"", b" =x", b" a=b=c", b" x<y=1", b' "', b" '=1", b' id="k"\' class=a'])
            sc = b"/" if foreign and rng.randrange(3) == 0 else b""
            deco = b" /" if (not foreign and rng.randrange(5) == 0) else b""      # '/>' on an HTML element is ignored: it still has content and an end tag
            close = rng.randrange(10)
            out += b"<" + t.encode() + attrs + sc + deco + b">"
            if not sc:
                out += l2_doc(rng, depth + 1, foreign)
                if close < 7: out += b"</" + t.encode() + b">"
                elif close < 8: out += b"</" + rng.choice(TAGS).encode() + b">"     # stray / mis-nested end tag
        elif c < 10:
            out += b"<" + rng.choice(VOIDS).encode() + rng.choice([b"", b"/", b" class=a", b" id=x title=y"]) + b">"
        elif c < 14:
            out += rng.choice([b"hello", b"some text ", b"x&amp;y", b"1 < 2", b"\n  ", b"t"])
        elif c < 15:
            out += b"<!--" + rng.choice([b"c", b" a-b ", b"", b"x"]) + b"-->"
        elif c < 16 and not foreign and depth < 4:
            out += b"<svg>" + l2_doc(rng, depth + 1, True) + rng.choice([b"</svg>", b"</svg>", b""])
        elif c < 17 and not foreign:
            out += rng.choice([b"<script>var x='<b>';</script>", b"<style>a>b{}</style>", b"<title>T&lt;</title>", b"<textarea><a></textarea>",
                               b"<math><mi>x</mi><annotation-xml encoding='text/html'><b>y</b></annotation-xml></math>",
                               b"<script>document.write(\"<div>x</div>\"); var y = 1; more script text</script>",
                               b"<script>a</b>c d e f g h i j k</script>", b"<style>x</p> y z { }</style>", b"<textarea>q</div> r s t</textarea>",
                               b"<script><!-- </b> x y z --></script>"])
            if rng.randrange(3) == 0: out += math_doc(rng)
        elif c < 18:
            out += b"</" + rng.choice(TAGS).encode() + b">"
        else:
            out += rng.choice([b"<!DOCTYPE html>", b"<p>", b"<li>", b"<?pi?>", b"<![CDATA[x]]>"])
    return out

def tagsoup(rng):
    """flat random tag sequence: mis-nesting, stray end tags, voids, case variants, duplicate attributes, foreign self-closing"""
    out = b""
    names = ["a", "b", "div", "p", "span", "li", "h1", "x1", "my-el", "A", "DIV", "Span"]
    for _ in range(rng.randrange(2, 14)):
        c = rng.randrange(20)
        if c < 9:
            t = rng.choice(names + VOIDS + ["svg", "g", "path", "math", "mi"])
            attrs = b""
            for _ in range(rng.choice([0, 0, 1, 1, 2, 3])):
                nm = rng.choice(ATTRN); v = rng.choice(ATTRV)
                if rng.randrange(6) == 0: v = flip(rng, v)
                attrs += b" " + nm.encode() + rng.choice([b"", b"=" + (v.replace(" ", "_") or "x").encode(), b'="' + v.encode() + b'"', b"='" + v.encode() + b"'"])
            out += b"<" + t.encode() + attrs + rng.choice([b"", b"", b"", b"/", b" /"]) + b">"
        elif c < 15:
            out += b"</" + rng.choice(names + ["svg", "g", "math", "br", "p"]).encode() + rng.choice([b"", b" ", b" x=y"]) + b">"
        elif c < 18:
            out += rng.choice([b"t", b"some text", b"<!--c-->", b"\n"])
        else:
            out += rng.choice([b"<title>a<b></title>", b"<script>1<a>2</script>", b"<textarea><p></textarea>", b"<!DOCTYPE html>"])
    return out

def pad_selectors(rng, toks, mk):
    """many registered selectors (match-id sets beyond one machine word: 33..130 ids): the given selector tokens are spread
    over random positions between filler selectors, some of which match common elements"""
    total = rng.choice([33, 40, 63, 64, 65, 66, 70, 96, 97, 100, 129, 130])
    fill = []
    for k in range(total - len(toks)):
        c = rng.randrange(10)
        if c < 6: css, st = ("zz%d" % k, "T" + hx("zz%d" % k))
        elif c < 7: css, st = ("*", "A")
        elif c < 8: css, st = rng.choice([("div", "T" + hx("div")), ("p", "T" + hx("p")), ("a", "T" + hx("a")), ("span", "T" + hx("span"))])
        elif c < 9: css, st = ("[class]", "E" + hx("class"))
        else: css, st = ("zz%d *" % k, "T%s_A" % hx("zz%d" % k))
        fill.append(mk(css, st))
    pos = sorted(rng.sample(range(total), len(toks)))
    out, it, fi = [], iter(toks), iter(fill)
    for k in range(total): out.append(next(it) if k in pos else next(fi))
    return out

def widgets_doc(rng):
    """many distinct custom element names of one length under one parent (per-type sibling counters keyed by names that have no hash)"""
    k = rng.choice([40, 160, 200]); names = ["x-widget-%03d" % j for j in range(k)]
    rng.shuffle(names)
    body = b"".join(("<%s>%s</%s>" % (nm, "t" if rng.randrange(3) == 0 else "", nm)).encode() for nm in names + rng.sample(names, min(10, k)))
    return b"<section>" + body + b"</section>"
WIDGET_SELS = [("*:first-of-type", "A.O0:1"), ("section > :nth-of-type(2)", "T%s>O0:2" % "73656374696f6e"), (":not(:first-of-type)", "X(O0:1)")]
def gen_c04(rng, n, prefix="s"):
    FULL["on"] = True
    try:
        isz = 104
        for i in range(n):
            r = rng.randrange(10)
            data = l2_doc(rng) if r < 5 else (tagsoup(rng) if r < 9 else doc(rng, 8))
            toks = []
            for _ in range(rng.choice([1, 2, 3, 4, 6])):
                css, st = gen_selector(rng)
                toks.append("sel=%s~%s~~-~-" % (hx(css), st))
            if rng.randrange(60) == 0:
                data = widgets_doc(rng); css, st = rng.choice(WIDGET_SELS); toks.append("sel=%s~%s~~-~-" % (hx(css), st))
            if rng.randrange(12) == 0:
                # one end tag closes several open levels that each had children of the same name; siblings of that name follow
                nm = rng.choice(["p", "li", "b", "span"]); outer = rng.choice(["section", "div", "ul"])
                lv = [rng.choice(["div", "span", "em", "a"]) for _ in range(rng.randrange(2, 5))]
                data = ("<%s>" % outer).encode() + ("<%s id=a></%s>" % (nm, nm)).encode() * rng.randrange(0, 3)
                for x in lv: data += ("<%s>" % x).encode() + ("<%s></%s>" % (nm, nm)).encode() * rng.randrange(1, 3)
                data += ("</%s>" % rng.choice(lv[:2] + [outer])).encode() + ("<%s id=d>t</%s>" % (nm, nm)).encode() * rng.randrange(1, 4) + ("</%s>" % outer).encode() + ("<%s></%s>" % (nm, nm)).encode()
                k = rng.randrange(1, 4)
                css, st = rng.choice([("%s:nth-of-type(%d)" % (nm, k), "T%s.O0:%d" % (hx(nm), k)), ("%s > %s:first-of-type" % (outer, nm), "T%s>T%s.O0:1" % (hx(outer), hx(nm))),
                                      (":nth-of-type(2n+1)", "O2:1"), ("%s:not(:first-of-type)" % nm, "T%s.X(O0:1)" % hx(nm))])
                toks.append("sel=%s~%s~~-~-" % (hx(css), st))
            if rng.randrange(25) == 0: toks = pad_selectors(rng, toks, lambda css, st: "sel=%s~%s~~-~-" % (hx(css), st))
            ch = chunkings(rng, data)
            yield "L2 %s%d isz=%d strict=0 %s ops=%s" % (prefix, i, isz, " ".join(toks), ",".join(["W" + c.hex() for c in ch] + ["E"]))
        # ASCII-case-insensitive attribute operators where operand and value differ in case only, at every position of the value (a fixed share, own PRNG:
        # independent of the stream above)
        r2 = random.Random(n * 7919 + 17)
        for i in range(max(4, n // 40)):
            word = r2.choice(["ab", "abc", "en-us", "xyz"]); cased = flip(r2, word)
            if cased == word: cased = word[0].upper() + word[1:]
            val = r2.choice(["", "xx", "q ", "zz-"]) + (cased[0].swapcase() + flip(r2, word[1:])) + r2.choice(["", "yy", " r", "-w"])
            n_ = r2.choice(["data-k", "title", "type", "lang", "class"])
            op = r2.choice(["*=", "*=", "^=", "$=", "~=", "|=", "="]); flag = r2.choice([" i", " i", "", " s"])
            opc = {"=": "e", "~=": "i", "|=": "d", "^=": "p", "*=": "s", "$=": "x"}[op]
            cs = "i" if flag == " i" else ("s" if flag == " s" else ("h" if n_.lower() in CI_ATTRS else "s"))
            data = ('<div><p %s="%s">t</p><span %s="%s">u</span><input %s=\'%s\'></div>' % (n_, val, n_.upper(), val.swapcase(), n_, cased)).encode()
            css = '[%s%s"%s"%s]' % (n_, op, cased, flag)
            yield "L2 %sci%d isz=%d strict=0 sel=%s~V%s%s:%s:%s~~-~- ops=%s" % (prefix, i, isz, hx(css), opc, cs, hx(n_), hx(cased), ",".join(["W" + c.hex() for c in chunkings(r2, data)] + ["E"]))
    finally:
        FULL["on"] = False

def gen_c05(rng, n, prefix="d"):
    """observing handlers of every kind (element handlers attaching end-tag handlers, comment/text handlers per selector and per document)"""
    for i in range(n):
        r = rng.randrange(10)
        data = l2_doc(rng) if r < 6 else (tagsoup(rng) if r < 9 else doc(rng, 8))
        toks = []
        for _ in range(rng.choice([1, 2, 3, 4])):
            css, st = gen_selector(rng)
            if rng.randrange(3) == 0: css, st = rng.choice([("*", "A"), ("div", "T" + hx("div")), ("p", "T" + hx("p")), ("span, a", "T%s|T%s" % (hx("span"), hx("a"))), ("div *", "T%s_A" % hx("div"))])
            el = rng.choice(["-", "", "oe:()", "oe:(),oe:()", "oe:()"])
            cm = rng.choice(["-", "", ""]); tx = rng.choice(["-", "a:", "l:", "n:"])
            if el == "-" and cm == "-" and tx == "-": tx = "a:"
            toks.append("sel=%s~%s~%s~%s~%s" % (hx(css), st, el, cm, tx))
        if rng.randrange(20) == 0:
            toks = pad_selectors(rng, toks, lambda css, st: ("sel=%s~%s~%s~%s~%s" % (hx(css), st, rng.choice(["", "", "oe:()", "-"]), rng.choice(["-", "-", ""]), rng.choice(["a:", "-", "-"]))).replace("~-~-~-", "~~-~-"))
        for _ in range(rng.choice([0, 1, 1, 2])):
            toks.append("doc=%s~%s~%s~%s" % (rng.choice(["-", ""]), rng.choice(["-", ""]), rng.choice(["-", "a:"]), rng.choice(["-", "", "h" + hx("<!--e-->")])))
        ch = chunkings(rng, data)
        yield "L2 %s%d isz=104 strict=0 %s ops=%s" % (prefix, i, " ".join(toks), ",".join(["W" + c.hex() for c in ch] + ["E"]))

ENC_CODECS = ["big5", "euc_jp", "euc_kr", "gb18030", "gbk", "cp866", "iso8859_2", "iso8859_3", "iso8859_4", "iso8859_5", "iso8859_6", "iso8859_7", "iso8859_8",
    "iso8859_8", "iso8859_10", "iso8859_13", "iso8859_14", "iso8859_15", "iso8859_16", "koi8_r", "koi8_u", "mac_roman", "shift_jis", "utf_8", "cp874", "cp1250", "cp1251",
    "cp1252", "cp1253", "cp1254", "cp1255", "cp1256", "cp1257", "cp1258", "mac_cyrillic", None]
ENC_LABELS = ["big5", "euc-jp", "euc-kr", "gb18030", "gbk", "ibm866", "iso-8859-2", "iso-8859-3", "iso-8859-4", "iso-8859-5", "iso-8859-6", "iso-8859-7", "iso-8859-8",
    "iso-8859-8-i", "iso-8859-10", "iso-8859-13", "iso-8859-14", "iso-8859-15", "iso-8859-16", "koi8-r", "koi8-u", "macintosh", "shift_jis", "utf-8", "windows-874",
    "windows-1250", "windows-1251", "windows-1252", "windows-1253", "windows-1254", "windows-1255", "windows-1256", "windows-1257", "windows-1258", "x-mac-cyrillic", "x-user-defined"]
SAMPLES = ["\u6f22\u5b57\u30c6\u30b9\u30c8\u65e5\u672c\u8a9e", "\ud55c\uad6d\uc5b4 \ud14c\uc2a4\ud2b8", "\u4e2d\u6587\u6d4b\u8bd5\u7e41\u9ad4", "\u041f\u0440\u0438\u0432\u0435\u0442 \u044e\u044f \u044f\u044e \u043c\u0438\u0440",
    "caf\u00e9 \u00f1\u00fc \u00ef\u00bb\u00bf \u00ff\u00fe \u00fe\u00ff \u0153\u20ac", "\u03b1\u03b2\u03b3 \u03b4\u03ad\u03bb\u03c4\u03b1", "\u05e9\u05dc\u05d5\u05dd \u05e2\u05d5\u05dc\u05dd", "\u0645\u0631\u062d\u0628\u0627", "\u0e2a\u0e27\u0e31\u0e2a\u0e14\u0e35",
    "\ufeffbom", "\U0001f600 emoji \U00010348", "z\u00fcrich \u017e\u0161\u010d \u0142\u00f3d\u017a", "\u20ac\u201c\u201d\u2026"]
def enc_text(rng, idx, long=False):
    """bytes for a text run in encoding idx: valid characters where python has the codec, raw high bytes, malformed / truncated sequences, BOM look-alikes"""
    out = b""
    codec = ENC_CODECS[idx]
    for _ in range(rng.randrange(1, 5) + (60 if long else 0)):
        c = rng.randrange(20)
        if c < 9 and codec:
            out += rng.choice(SAMPLES).encode(codec, errors="ignore")
        elif c < 12:
            out += bytes(rng.randrange(0x80, 0x100) for _ in range(rng.randrange(1, 5)))
        elif c < 14:
            out += rng.choice([b"\xef\xbb\xbf", b"\xff\xfe", b"\xfe\xff", b"\xe4\xb8", b"\xf0\x9f\x98", b"\xc3", b"\x81", b"\x8e", b"\xa1", b"\xed\xa0\x80", b"\xc0\xaf", b"\xf8\x88\x80\x80\x80"])
        else:
            out += rng.choice([b"plain ascii ", b"x", b"&amp;", b"1 > 0 ", b"words and more words ", b"\n"])
    return out
def codec_of(idx): return ENC_CODECS[idx]
def gen_enc(rng, n, prefix="e"):
    for i in range(n):
        idx = rng.randrange(36) if rng.randrange(4) else 23
        meta = 1 if rng.randrange(4) == 0 else 0
        cur = idx
        parts = []
        if rng.randrange(3) == 0: parts.append(rng.choice([b"\xef\xbb\xbf", b"\xff\xfe", b"\xfe\xff"]) + enc_text(rng, cur))        # text node starting with BOM look-alike bytes
        for _ in range(rng.randrange(2, 9)):
            c = rng.randrange(20)
            if c < 6: parts.append(enc_text(rng, cur, long=(rng.randrange(8) == 0)))
            elif c < 7: parts.append(b"long ascii text " * rng.randrange(60, 90) + (enc_text(rng, cur) if rng.randrange(2) else b""))
            elif c < 11:
                t = rng.choice([b"p", b"div", b"span", b"a", b"b"]); v = enc_text(rng, cur).replace(b'"', b"").replace(b">", b"")
                nm = re.sub(rb"[\x00-\x20\"'>/=<]", b"", enc_text(rng, cur))[:12] or b"n"
                # characters whose trail byte is an ASCII letter (byte-wise case folding must not break by-name lookups)
                TRAIL = {"shift_jis": "\u30a2\u30a4\u30ab\u30bd", "big5": "\u4e59\u4e01\u4e03", "gbk": "\u4e02\u4e04\u4e05", "gb18030": "\u4e02\u4e04"}
                if codec_of(cur) in TRAIL and rng.randrange(3) == 0: nm = "".join(rng.choice(TRAIL[codec_of(cur)]) for _ in range(rng.randrange(1, 4))).encode(codec_of(cur))
                probe = b""
                if codec_of(cur) and rng.randrange(5) == 0:
                    try: probe = b" " + rng.choice(["na\u00efve", "Na\u00efVE"]).encode(codec_of(cur)) + rng.choice([b"", b"=1"])
                    except UnicodeEncodeError: probe = b""
                parts.append(b"<" + t + b' title="' + v + b'" ' + rng.choice([b"", b"x=y", b"data-" + bytes(rng.randrange(0x80, 0x100) for _ in range(2)) + b"=1", b"D" + nm + b"=2", nm + b"A=3"]) + probe + b">")
            elif c < 13: parts.append(b"</" + rng.choice([b"p", b"div", b"span", b"a"]) + b">")
            elif c < 15: parts.append(b"<!--" + enc_text(rng, cur).replace(b"--", b"-").replace(b">", b"") + b"-->")
            elif c < 16: parts.append(b"<" + rng.choice([b"my-\xc3\xa9l", b"x\xe4\xb8\xad", b"t\xff"]) + b">")
            elif c < 17: parts.append(rng.choice([b"<script>", b"<style>", b"<title>"]) + enc_text(rng, cur).replace(b"<", b"") + rng.choice([b"</script>", b"</style>", b"</title>"]))
            elif c < 19 and meta:
                new = rng.randrange(36)
                label = rng.choice([ENC_LABELS[new].encode(), ENC_LABELS[new].upper().encode(), b"bogus", b"utf-16", b"iso-2022-jp", b"utf-16le", b"replacement"])
                if rng.randrange(3) == 0:
                    parts.append(b'<meta http-equiv="' + rng.choice([b"Content-Type", b"content-type", b"refresh"]) + b'" content="text/html; charset=' + label + b'">')
                else:
                    parts.append(b"<meta " + rng.choice([b"charset=", b'CHARSET="', b"charset='"]) + label)
                    q = parts[-1].split(b"=", 1)[1][:1]
                    parts[-1] += (q if q in (b'"', b"'") else b"") + b">"
                if ENC_LABELS[new].encode() in parts[-1].lower() and cur == idx: cur = new
            else: parts.append(b"<br>")
        data = b"".join(parts)
        ins = rng.choice(["-", "-", hx("<i>\u00e9\u4e2d\u044f\U0001f600</i>"), hx("caf\u00e9"), hx("\u20ac&")])
        ch = chunkings(rng, data)
        endins = rng.choice(["-", "-", hx("\u00e9bauche"), hx("\u044f\u4e2d" * 40), hx("end<!--\u00e9-->"), hx("ascii end")])
        sparse = 1 if rng.randrange(5) == 0 else 0        # no text / comment handlers: tags only
        medit = rng.choice([1, 2, 3, 4, 9]) if meta and rng.randrange(3) == 0 else 0
        yield "L3 %s%d nomodel=1 enc=%d meta=%d sparse=%d%s ins=%s endins=%s ops=%s" % (prefix, i, idx, meta, sparse, " medit=%d" % medit if medit else "", ins, endins, ",".join(["W" + c.hex() for c in ch] + ["E"]))

def gen_td(rng, n, prefix="t"):
    """text-only UTF-8 documents (no '<'): valid multi-byte characters, malformed and truncated sequences, long runs, every kind of split"""
    for i in range(n):
        data = b""
        for _ in range(rng.randrange(1, 6)):
            c = rng.randrange(20)
            if c < 7: data += rng.choice(SAMPLES).encode("utf-8")
            elif c < 10: data += bytes(rng.randrange(0x80, 0x100) for _ in range(rng.randrange(1, 4)))
            elif c < 13: data += rng.choice([b"\xef\xbb\xbf", b"\xe4\xb8", b"\xf0\x9f\x98", b"\xc3", b"\xed\xa0\x80", b"\xc0\xaf", b"\xf4\x90\x80\x80", b"\xe0\x80\x80", b"\xf8\x88\x80\x80\x80", b"\xf0\x9f", b"\xc2\xc2\xa9"])
            elif c < 15: data += b"ascii text &amp; more " * rng.choice([1, 1, 3, 60, 120])
            elif c < 16: data += ("\u4e2d\u6587" * rng.choice([10, 200, 400])).encode("utf-8")
            else: data += rng.choice([b"x", b"plain", b"\n", b" > "])
        ch = chunkings(rng, data)
        yield "TD %s%d ops=%s" % (prefix, i, ",".join(["W" + c.hex() for c in ch] + ["E"]))

C03_EXTRA = [b"--->", b"---->", b"<script><!-- a --->", b"<script><!--<script> a --->", b"<script><!--x-----> <script>y</script>", b" <script> x </script><b>bold</b>", b"<select>", b"</select>", b"<template>", b"</template>", b"<frameset>", b"</frameset>", b"<option>", b"<input>", b"<keygen>", b"<table>", b"<tr>", b"<td>",
    b"<TEXTAREA>", b"</TextArea>", b"<TITLE>", b"</title >", b"</title/>", b"<noscript>", b"</noscript>", b"<noembed>", b"</noembed>", b"<plaintext>",
    b"<!DOCTYPE html PUBLIC \"-//W3C//DTD HTML 4.01//EN\" \"http://www.w3.org/TR/html4/strict.dtd\">", b"<!doctype html SYSTEM 'about:legacy-compat'>", b"<!DOCTYPE>", b"<!DOCTYPE html PUBLIC>",
    b"<!doctype a b>", b"<!DOCTYPE html PUBLIC \"x\">", b"<!DOCTYPE html PUBLIC 'x' 'y' z>", b"<!--", b"-->", b"--!>", b"<!-->", b"<!--->", b"<!--<!-->", b"<!--<!--x-->", b"<!-- a--b -->", b"<!--a---->",
    b"<a b=c d = 'e' f=\"g\"h i/j>", b"<a =x>", b"<a b==c>", b"<a b='>'>", b"<p/ >", b"<br/>", b"</p attr=x>", b"</ p>", b"</>", b"<?php ?>", b"<![CDATA[x]]>", b"<!x>", b"<1>", b"< p>", b"<a/b>",
    b"<script>", b"</script>", b"<!--", b"<script", b"</script", b"</scriptx>", b"-->", b"<SCRIPT >", b"</SCRIPT\n>", b"<style>", b"</style>", b"</styl>", b"<xmp>", b"</xmp>", b"<iframe>", b"</iframe>"]
def c03_soup(rng):
    pool = [f for f in FRAGS if b"svg" not in f.lower() and b"math" not in f.lower() and b"\0" not in f and b"foreignObject" not in f and b"desc" not in f and b"annotation" not in f
            and b"<mi>" not in f and b"</mi>" not in f and b"<g/>" not in f and b"<path" not in f and b"<font" not in f] + C03_EXTRA
    return b"".join(rng.choice(pool) for _ in range(1 + rng.randrange(10)))
def c03_island(rng, ns, depth=0):
    """well-nested foreign content: explicitly closed elements, self-closing syntax, CDATA, integration points with HTML inside"""
    out = b""
    for _ in range(rng.randrange(1, 4)):
        c = rng.randrange(14)
        if c < 3: out += rng.choice([b"text", b"a &amp; b", b" ", b"x < y", b"1<2"]) if c else b"t"
        elif c < 4: out += b"<![CDATA[" + rng.choice([b"x", b"<b>not a tag</b>", b"]] >", b""]) + b"]]>"
        elif c < 5: out += b"<!--" + rng.choice([b"c", b""]) + b"-->"
        elif c < 7:
            if rng.randrange(3): out += b"<" + rng.choice([b"g", b"path d=1", b"circle r='2'", b"mrow", b"mspace"]) + b"/>"
            else:
                # a SELF-CLOSING integration point opens nothing: what follows is still foreign content (CDATA is CDATA, <style> is an ordinary element)
                out += (rng.choice([b"<foreignObject/>", b"<desc/>", b"<title/>", b"<desc id=d />"]) if ns == "svg" else
                        rng.choice([b'<annotation-xml encoding="text/html"/>', b"<annotation-xml encoding='application/xhtml+xml' />", b'<annotation-xml ENCODING="Text/HTML"/>', b"<mi/>", b"<mtext/>", b"<ms x=y/>"]))
                out += rng.choice([b"<![CDATA[><p>x</p>]]>", b"<![CDATA[<b>]]>", b"<style>s</style>", b"<title>t</title>", b"<![CDATA[a]]><g/>", b"<textarea>q</textarea>"])
        elif c < 10 and depth < 4:
            # (a root element of the same namespace nested directly: <svg> in SVG content, <math> in MathML content)
            t = rng.choice([b"g", b"a", b"text", b"defs", b"svg", b"svg"] if ns == "svg" else [b"mrow", b"mfrac", b"semantics", b"mstyle", b"math", b"math"])
            out += b"<" + t + rng.choice([b"", b" id=x", b" CLASS='y'"]) + b">" + c03_island(rng, ns, depth + 1) + b"</" + t + b">"
        elif c < 12 and depth < 4:
            # integration points: HTML inside
            if ns == "svg": t = rng.choice([b"foreignObject", b"desc", b"title"]); open_ = b"<" + t + b">"
            else:
                t = rng.choice([b"mi", b"mo", b"mn", b"ms", b"mtext", b"annotation-xml"])
                open_ = b"<" + t + (rng.choice([b' encoding="text/html"', b" encoding='application/xhtml+xml'", b' ENCODING="TEXT/HTML"']) if t == b"annotation-xml" else b"") + b">"
            inner = b""
            for _ in range(rng.randrange(1, 4)):
                k = rng.randrange(8)
                if k < 2: inner += b"<b>bold</b>"
                elif k < 3: inner += b"<style>a<b>{}</style>"
                elif k < 4: inner += b"<title>x<y></title>" if ns != "svg" or t != b"title" else b"plain"
                elif k < 5: inner += b"<p>para</p>"
                elif k < 6: inner += b"<script>1<2</script>"
                elif k < 7 and depth < 3: inner += b"<svg>" + c03_island(rng, "svg", depth + 2) + b"</svg>"
                elif k < 8 and rng.randrange(2): inner += rng.choice([b"<x-y>q</x-y><title>t<b></title>", b"</x-y><style>s<i></style>", b"<a-b>q</a-b><textarea><u></textarea>", b"</my-element-0><b>b</b><script>1<2</script>"])
                else: inner += b"words"
            out += open_ + inner + b"</" + t + b">"
            if ns != "svg" and rng.randrange(2):
                # right after the end tag of an integration point: another integration point whose HTML content is text-mode sensitive
                out += rng.choice([b"<mi><style>a<b>c</style></mi>", b"<mtext><title>a<b></title>t</mtext>", b"<annotation-xml encoding='text/html'><textarea><b></textarea></annotation-xml>",
                                   b"<mo><xmp><i></xmp></mo>", b"<ms><script>1<2</script></ms>"])
        elif c < 13: out += b"<" + rng.choice([b"style", b"script", b"title", b"textarea"] if ns == "svg" else [b"mi", b"mn"]) + b">" + rng.choice([b"x", b"<g/>", b"a<b"]) + b"</" + (b"x" if False else b"") + b">" if False else b""
        else: out += b"<font>" + b"f" + b"</font>"
    return out
def gen_c03(rng, n, prefix="w"):
    for i in range(n // 2 + 1):
        if rng.randrange(5) < 3:
            data = c03_soup(rng)
            if rng.randrange(12) == 0:      # the input stops inside a text-mode-switching start tag in select / after frameset
                data += rng.choice([b"<select>", b"<select><template>", b"<frameset>", b"<select><option>x"]) + rng.choice([b"<style ", b"<textarea", b"<title a=b", b"<xmp x='", b"<script ", b"<iframe\n"])
        else:
            ns = rng.choice(["svg", "math"])
            data = rng.choice([b"", b"<!DOCTYPE html>", b"<p>before"]) + b"<" + ns.encode() + rng.choice([b"", b" viewBox='0 0 1 1'"]) + b">" + c03_island(rng, "svg" if ns == "svg" else "mathml") + b"</" + ns.encode() + b">" + rng.choice([b"", b"<p>after</p>", b"<textarea><b></textarea>"])
        if rng.randrange(25) == 0:
            # a breakout tag inside directly nested foreign roots leaves ALL of them (13.2.6.5): what follows is HTML content
            r = rng.choice([b"svg", b"math"]); k = rng.randrange(1, 4)
            wrap = rng.choice([b"", b"<g>", b"<mrow id=x>", b"<title/>"])
            brk = rng.choice([b"<i>t</i>", b"<p>t", b"<b>", b"</p>", b"</br>", b"<font color=red>f</font>", b"<div>d</div>", b"<u>q</u>"])
            data = rng.choice([b"", b"<p>before"]) + (b"<" + r + b">") * k + wrap + brk + rng.choice([b"<![CDATA[y]]>", b"<style><b>1</b></style>", b"<![CDATA[<b>]]>x", b"<title><i></title>"]) + (b"</" + r + b">") * rng.choice([0, k])
        ch = chunkings(rng, data)
        ops = ",".join(["W" + c.hex() for c in ch] + ["E"])
        seed = 2000 if rng.randrange(3) else rng.randrange(1, 900)       # capture everything, or a sparse capture policy
        yield "L1 %s%d.s seed=%d strict=1 ops=%s" % (prefix, i, seed, ops)
        yield "L1 %s%d.n seed=%d strict=0 ops=%s" % (prefix, i, seed, ops)

def gen_l2(rng, n, profile, prefix):
    isz = int(open('/verif/build/itemsize.txt').read().strip()) if __import__('os').path.exists('/verif/build/itemsize.txt') else 104
    for i in range(n):
        data = l2_doc(rng) if rng.randrange(5) else doc(rng, 8)
        kv = dict(isz=isz, strict=1 if rng.randrange(8) == 0 else 0)
        observe = profile in ("match", "fail") or (profile == "mixed" and rng.randrange(3) == 0)
        toks = []
        nsel = rng.choice([0, 1, 1, 2, 2, 3, 4]) if profile != "match" else rng.choice([1, 2, 3, 5])
        if rng.randrange(80) == 0:
            data = widgets_doc(rng); css, st = rng.choice(WIDGET_SELS); toks.append("sel=%s~%s~~-~-" % (hx(css), st))
        for _ in range(nsel):
            css, st = gen_selector(rng)
            el = gen_el_ops(rng, observe) if rng.randrange(5) else "-"
            cm = gen_tok_ops(rng, True, observe) if rng.randrange(4) == 0 else "-"
            tx = (rng.choice("aln") + ":" + gen_tok_ops(rng, False, observe)) if rng.randrange(4) == 0 else "-"
            if el == "-" and cm == "-" and tx == "-": el = ""
            toks.append("sel=%s~%s~%s~%s~%s" % (hx(css), st, el, cm, tx))
        for _ in range(rng.choice([0, 0, 1, 1, 2])):
            dt = gen_tok_ops(rng, False, True) if rng.randrange(3) == 0 else "-"
            if dt != "-" and not observe and rng.randrange(2): dt = "rm"
            cm = gen_tok_ops(rng, True, observe) if rng.randrange(3) == 0 else "-"
            tx = (rng.choice("aln") + ":" + gen_tok_ops(rng, False, observe)) if rng.randrange(3) == 0 else "-"
            en = ";".join(gen_chunk(rng) for _ in range(rng.choice([0, 1, 2]))) if rng.randrange(3) == 0 else "-"
            toks.append("doc=%s~%s~%s~%s" % (dt, cm, tx, en))
        if profile == "fail" or (profile == "mixed" and rng.randrange(6) == 0):
            if rng.randrange(3):
                kv.update(fail=1 + rng.randrange(12), bh=rng.randrange(2), bm=rng.randrange(2))
            else:
                kv.update(mem=rng.choice([0, 50, 100, 200, 400, 832, 900, 1000, 1700, 2000]) + rng.randrange(40), bm=rng.randrange(2), bh=rng.randrange(2))
            for _ in range(rng.choice([0, 1, 2])):
                toks.append("bail=" + ";".join(gen_chunk(rng) for _ in range(rng.choice([1, 2]))))
        if profile == "fail" and rng.randrange(8) == 0:
            # the document-end handler is the one that fails, on a document that stops in the middle of a token
            toks = [t for t in toks if not t.startswith("doc=")] if rng.randrange(2) else []
            toks.append("doc=-~-~-~" + rng.choice(["", "", gen_chunk(rng)]))
            if toks[:-1] == []: kv.pop("mem", None); kv.update(fail=1, bh=rng.randrange(4) != 0, bm=rng.randrange(2))
            kv["bh"] = int(kv.get("bh", 0)); 
            if rng.randrange(4): data = data[:rng.randrange(1, len(data) + 1)] + rng.choice([b"<di", b"</di", b"<img alt=\"abc def", b"<!-- c", b"<a b", b"", b"<"])
            if rng.randrange(2): toks.append("bail=" + gen_chunk(rng))
        ch = chunkings(rng, data)
        ops = ["W" + c.hex() for c in ch] + ["E"]
        if profile == "fail" and rng.randrange(2): ops += ["W" + b"<p>".hex()] * rng.randrange(1, 3)
        yield "L2 %s%d %s %s ops=%s" % (prefix, i, " ".join("%s=%s" % x for x in kv.items()), " ".join(toks), ",".join(ops))

def regroup(line, newid, chunks, extra_tokens=()):
    toks = [t for t in line.split(' ') if not t.startswith('ops=')]
    toks[1] = newid
    return " ".join(toks + list(extra_tokens)) + " ops=" + ",".join(["W" + c.hex() for c in chunks] + ["E"])
def data_of(line):
    ops = [t for t in line.split(' ') if t.startswith('ops=')][0][4:]
    return b"".join(bytes.fromhex(o[1:]) for o in ops.split(',') if o.startswith('W'))
def all_chunkings(rng, data, k):
    out = [[data], [data[i:i+1] for i in range(len(data))] or [b""]]
    if len(data) > 1:
        c = rng.randrange(1, len(data)); out.append([data[:c], data[c:]])
        c1 = rng.randrange(0, len(data)); c2 = rng.randrange(c1, len(data) + 1); out.append([data[:c1], b"", data[c1:c2], data[c2:]])
    while len(out) < k:
        ch, i = [], 0
        while i < len(data):
            step = rng.randrange(0, 9); ch.append(data[i:i+step]); i += step
        out.append(ch or [b""])
    return out[:k]
def gen_groups(rng, n, base_family, k):
    """the same configuration and input under k different chunkings: ids <base>.<j>"""
    gens = {'l1': lambda: gen_l1(rng, n, 'g'), 'l2match': lambda: gen_l2(rng, n, 'match', 'gm'), 'l2edit': lambda: gen_l2(rng, n, 'edit', 'ge'),
            'l2mixed': lambda: gen_l2(rng, n, 'mixed', 'gx')}
    for line in gens[base_family]():
        if any(t.split('=')[0] in ('fail', 'mem') for t in line.split(' ')): continue    # failures are chunking dependent by nature
        data = data_of(line); cid = line.split(' ')[1]
        for j, ch in enumerate(all_chunkings(rng, data, k)):
            yield regroup(line, "%s.%d" % (cid, j), ch)
OBSERVERS = ["doc=~-~-~-", "doc=-~~-~-", "doc=-~-~a:~-", "sel=2a~A~~-~-", "sel=" + "6c692c20615b687265665d" + "~T6c69|T61.E68726566~~-~-",
             "sel=" + "2a" + "~A~-~~-", "sel=" + "64697620*".replace("*", "2a") + "~T646976_A~-~-~a:"]
def gen_pairs(rng, n):
    """C06: configuration H and H plus a set O of observing handlers: ids <base>.0 (H) and <base>.j (H u O_j).
    H comes from the matching profile and from the scoped-dispatch profile (element handlers that attach end-tag handlers)"""
    import itertools
    def nested_roots():
        # a foreign root nested directly in a root of the same namespace; H watches the end tag of the inner root (end-tag hint -> lexer)
        # and every element (namespace, self-closing flag, CDATA handling after the inner end tag)
        for i in range(max(1, n // 8)):
            root = rng.choice(["svg", "svg", "math"])
            inner = l2_doc(rng, 3, True); after = rng.choice([b"<circle r=1/>", b"<![CDATA[><p id=x>]]>", b"<title><b>x</b></title>", b"<p>para</p><g/>", b"<g><path/></g>"]) + l2_doc(rng, 3, True)
            data = rng.choice([b"", b"<div>"]) + ("<%s>" % root).encode() + rng.choice([b"", b"<g>"]) + ("<%s a=b>" % root).encode() + inner + ("</%s>" % root).encode() + after + ("</%s>" % root).encode() + b"<p>tail</p>"
            toks = ["sel=%s~T%s~oe:()~-~-" % (hx(root), hx(root)), "sel=2a~A~~-~-"]
            if rng.randrange(2): toks.append("sel=70~T70~~-~-")
            yield "L2 prn%d isz=104 strict=0 %s ops=%s" % (i, " ".join(toks), ",".join(["W" + c.hex() for c in chunkings(rng, data)] + ["E"]))
    def inner_removed():
        # H replaces the inner content of an element (no end-tag handler) whose ancestor has the same tag name; H also watches a descendant of that
        # ancestor AFTER the inner element and the ancestor's end tag: the inner end tag must close the inner element only, with and without observers
        for i in range(max(2, n // 8)):
            t = rng.choice(["div", "section", "ul", "b", "span"]); d = rng.choice(["span", "i", "em"])
            junk = rng.choice([b"junk", b"<b>x</b>", b"a<i>b</i>c", b"<!--c-->", b"", b"<%s>deep</%s>" % (t.encode(), t.encode())])
            data = (rng.choice([b"", b"<p>lead</p>", b"text "]) + b"<" + t.encode() + b" class=outer>" + rng.choice([b"", b"x", b"<hr>"]) + b"<" + t.encode() + b" class=inner>" + junk + b"</" + t.encode() + b">" +
                    b"<" + d.encode() + b">s</" + d.encode() + b">" + rng.choice([b"", b"t", b"<" + d.encode() + b" id=z>u</" + d.encode() + b">"]) + b"</" + t.encode() + b">" + rng.choice([b"", b"<p>tail</p>"]))
            inner_ops = rng.choice(["si:" + gen_chunk(rng), "si:" + gen_chunk(rng), "sb:" + gen_chunk(rng) if False else "si:" + gen_chunk(rng) + ",sa:%s:%s" % (hx("k"), hx("v"))])
            toks = ["sel=%s~T%s.C%s~%s~-~-" % (hx(t + ".inner"), hx(t), hx("inner"), inner_ops),
                    "sel=%s~T%s.C%s_T%s~~-~-" % (hx(t + ".outer " + d), hx(t), hx("outer"), hx(d))]
            if rng.randrange(2): toks.append("sel=%s~T%s.C%s~oe:()~-~-" % (hx(t + ".outer"), hx(t), hx("outer")))
            if rng.randrange(3) == 0: toks.append("sel=%s~T%s.C%s>T%s~~-~-" % (hx(t + ".outer > " + d), hx(t), hx("outer"), hx(d)))
            yield "L2 pri%d isz=104 strict=0 %s ops=%s" % (i, " ".join(toks), ",".join(["W" + c.hex() for c in chunkings(rng, data)] + ["E"]))
    for line in itertools.chain(gen_l2(rng, n - n // 3, 'match', 'pr'), gen_c05(rng, n // 3, 'prd'), nested_roots(), inner_removed()):
        if any(t.split('=')[0] in ('fail', 'mem') for t in line.split(' ')): continue
        data = data_of(line); cid = line.split(' ')[1]
        ch = chunkings(rng, data)
        yield regroup(line, cid + ".0", ch)
        for j in range(1, 4):
            obs = rng.sample(OBSERVERS, rng.choice([1, 1, 2, 3]))
            yield regroup(line, "%s.%d" % (cid, j), ch, obs)
def gen_mem(rng, n):
    """C10/C11: inputs that grow each buffer x a sweep of limits: ids <base>.<limit>"""
    growers = [b"<a href='" + b"x" * 60, b"<!--" + b"c" * 70, b"<" + b"t" * 50, b"<div " + b"a=b " * 20,
               b"".join(b"<div>" for _ in range(30)), b"<ul>" + b"<li>x" * 12 + b"</ul>", b"text " * 10 + b"<b title=\"" + b"y" * 40 + b"\">z</b>"]
    isz = int(open('/verif/build/itemsize.txt').read().strip()) if __import__('os').path.exists('/verif/build/itemsize.txt') else 104
    for i in range(n):
        data = rng.choice(growers) + (doc(rng, 4) if rng.randrange(2) else b"")
        deep = rng.randrange(6) == 0
        if deep:
            # the open-element stack past its second growth step, then input that has to be buffered (an unfinished tag whose
            # attributes a selector needs): both charge the same allowance
            data = b"<div>" * rng.choice([17, 20, 33, 40]) + b'<span title="' + b"a" * rng.choice([200, 600, 1500])
        sels = [rng.choice(["sel=" + hx("span.never") + "~T7370616e.C6e65766572~~-~-", "sel=" + hx("div span[title]") + "~T646976_T7370616e.E7469746c65~~-~-"])] if deep else rng.choice([["sel=2a~A~~-~-"], ["sel=2a~A~~~a:"], [], ["sel=" + hx("div div") + "~T646976_T646976~~-~-", "doc=-~~-~-"], ["doc=~~a:~-"], ["doc=~~a:~-"], ["doc=-~~-~-"]])
        prealloc = rng.choice([0, 0, 16, 64])
        ch = [c for c in chunkings(rng, data)]
        if len(ch) < 4 and len(data) > 12:
            k = rng.randrange(4, 9); a = max(1, len(data) // k); ch = [data[j:j+a] for j in range(0, len(data), a)]
        need = len(data) + 8 * isz * 4 + prealloc
        if deep: prealloc = 0
        limits = sorted(set([0, 1, prealloc, prealloc + 1] + [rng.randrange(0, need) for _ in range(14 if deep else 6)] + [len(data), need + 10]))
        bm = rng.randrange(2)
        for lim in limits:
            if lim < prealloc and i % 10 != 0: continue   # preallocation above the limit: known finding C10/PreallocAboveLimit, kept in a few groups
            toks = ["L2", "mm%d.%d" % (i, lim), "isz=%d" % isz, "strict=0", "mem=%d" % lim, "prealloc=%d" % prealloc, "bm=%d" % bm] + sels
            if bm and rng.randrange(2): toks.append("bail=h5b425d")
            yield " ".join(toks) + " ops=" + ",".join(["W" + c.hex() for c in ch] + ["E"])

UTEXT = ["caf\u00e9 ", "\ufeffbom", "\u6587\u5b57", "\U0001f408", "\u00fc", "\ufeff", "na\u00efve \ufeff x", "\u0416\u0416", "a\u0301"]
def gen_utf8(rng, n):
    """valid UTF-8 documents with multi-byte characters (incl. U+FEFF) under observing handlers, split anywhere,
    also inside characters.  Not run through the model (the model's text codec is the identity): oracles only."""
    for i in range(n):
        parts = []
        for _ in range(rng.randrange(2, 9)):
            c = rng.randrange(10)
            if c < 5: parts.append(rng.choice(UTEXT).encode())
            elif c < 7: parts.append(rng.choice([b"<p>", b"</p>", b"<b class=x>", b"</b>", b"<br>", b"<!--c-->"]))
            elif c < 8: parts.append(("<i title=\"%s\">" % rng.choice(UTEXT)).encode())
            elif c < 9: parts.append(("<!--%s-->" % rng.choice(UTEXT)).encode())
            else: parts.append(b"plain text " * rng.randrange(1, 4))
        if rng.randrange(6) == 0: parts.insert(rng.randrange(len(parts) + 1), ("x" * rng.choice([1020, 1023, 1024, 1030]) + rng.choice(UTEXT)).encode())
        data = b"".join(parts)
        toks = rng.choice([["doc=-~-~a:~-"], ["sel=2a~A~~~a:"], ["sel=70~T70~-~-~a:", "doc=-~~-~-"], ["doc=~~a:~-"], []])
        for j, ch in enumerate(all_chunkings(rng, data, 4)):
            yield "L2 u%d.%d nomodel=1 isz=104 strict=0 %s ops=%s" % (i, j, " ".join(toks), ",".join(["W" + c.hex() for c in ch] + ["E"]))

MALF = [b"\xff", b"\xc0\xaf", b"\xe4\xb8", b"\xf0\x9f\x98", b"\xed\xa0\x80", b"\xc3", b"\xf8\x88\x80\x80\x80", b"\x80", b"\xfe\xff"]
def gen_utf8m(rng, n):
    """UTF-8 documents with malformed sequences in text, inside and outside elements matched by selector-scoped observing
    handlers (nested matches of one selector, siblings, unmatched tails).  Not run through the model (identity codec):
    oracle only -- text no handler captured must pass through byte for byte, captured text is normalised through decode/encode."""
    def text():
        out = b""
        for _ in range(rng.randrange(1, 4)):
            c = rng.randrange(10)
            if c < 4: out += rng.choice(MALF)
            elif c < 6: out += rng.choice(UTEXT).encode()
            else: out += rng.choice([b"plain ", b"x", b"text &amp; more ", b"\n"])
        return out
    def tree(depth):
        out = b""
        for _ in range(rng.randrange(1, 4)):
            c = rng.randrange(10)
            if c < 5 and depth < 4:
                t = rng.choice([b"div", b"div", b"p", b"span", b"b"])
                out += b"<" + t + rng.choice([b"", b" class=a", b" id=x"]) + b">" + tree(depth + 1) + (b"</" + t + b">" if rng.randrange(6) else b"")
            elif c < 9: out += text()
            else: out += rng.choice([b"<!--c-->", b"<br>", b"<!--" + rng.choice(MALF) + b"-->"])
        return out
    for i in range(n):
        data = tree(0) + (text() if rng.randrange(2) else b"")
        toks = []
        for _ in range(rng.choice([1, 1, 2])):
            css, st = rng.choice([("div", "T" + hx("div")), ("p", "T" + hx("p")), ("span", "T" + hx("span")), ("div div", "T%s_T%s" % (hx("div"), hx("div"))), (".a", "C" + hx("a")), ("div > *", "T%s>A" % hx("div")), ("*", "A")])
            toks.append("sel=%s~%s~%s~%s~%s" % (hx(css), st, rng.choice(["-", "-", ""]), rng.choice(["-", "-", ""]), rng.choice(["a:", "a:", "l:", "-"])))
        if all(t.endswith("~-~-~-") for t in toks): toks[0] = toks[0][:-1] + "a:"
        chs = all_chunkings(rng, data, 5)
        # a cut right after a byte >= 0x80 that is preceded by ordinary text in the same write (a character split with decoded text before it)
        hi = [k for k in range(2, len(data)) if data[k - 1] >= 0x80 and data[k - 2] < 0x80]
        if hi: k = rng.choice(hi); c0 = rng.randrange(0, k - 1); chs.append([data[:c0], data[c0:k], data[k:]])
        for j, ch in enumerate(chs):
            yield "L2 um%d.%d nomodel=1 isz=104 strict=0 %s ops=%s" % (i, j, " ".join(toks), ",".join(["W" + c.hex() for c in ch] + ["E"]))

def gen_sk(rng, n):
    """streaming sink scripts: a UTF-8 string cut into fragments anywhere (also inside characters), with an error or a truncation
    somewhere in some, strings written between fragments (a dangling fragment becomes U+FFFD), empty fragments"""
    for i in range(n):
        s_ = "".join(rng.choice(UTEXT + ["a", "<b>", "&", "x y", "\U0001f600", "\u00e9", "\u20ac", "1>2"]) for _ in range(rng.randrange(1, 6))).encode()
        mode = rng.randrange(10)
        if mode < 6: data = s_
        elif mode < 8: k = rng.randrange(len(s_) + 1); data = s_[:k] + rng.choice(MALF) + s_[k:]
        else: data = s_[:rng.randrange(len(s_) + 1)]
        cuts = sorted(rng.randrange(len(data) + 1) for _ in range(rng.randrange(0, 7)))
        frags = [data[a:b] for a, b in zip([0] + cuts, cuts + [len(data)])]
        ops = []
        for f in frags:
            ops.append("u" + f.hex())
            if rng.randrange(8) == 0: ops.append("s" + rng.choice(["", "ok", "<i>", "\u00e9", "a&b"]).encode().hex())
        yield "SK k%d ct=%s ops=%s" % (i, rng.choice("ht"), ",".join(ops))

def gen_leak(rng, n):
    """C18: a rewriter that fails right after it found a <meta charset> declaration (its own handler on that tag fails), immediately followed -- on the same
    thread in the sequential run -- by an unrelated rewriter on non-ASCII text: nothing of the first may reach the second"""
    for i in range(max(1, n // 2)):
        utf8 = ENC_LABELS.index("utf-8")
        idx_a = rng.choice([utf8, ENC_LABELS.index("windows-1252")])
        label = rng.choice([b"windows-1251", b"koi8-r", b"shift_jis", b"iso-8859-2", b"gbk"])
        a = b"<html><head>" + rng.choice([b"<meta charset=" + label + b">", b'<meta http-equiv="Content-Type" content="text/html; charset=' + label + b'">']) + b"</head><body><p>x</p>"
        yield "L3 lk%da nomodel=1 enc=%d meta=1 sparse=0 medit=9 ins=- endins=- ops=%s" % (i, idx_a, ",".join(["W" + c.hex() for c in chunkings(rng, a)] + ["E"]))
        idx_b = rng.choice([utf8, ENC_LABELS.index("windows-1252"), ENC_LABELS.index("windows-1250")])
        b = b"<div><p>" + enc_text(rng, idx_b) + "na\u00efve caf\u00e9 \u00fc".encode(ENC_CODECS[idx_b] or "utf-8", errors="ignore") + b"</p><b>" + enc_text(rng, idx_b) + b"</b></div>"
        yield "L3 lk%db nomodel=1 enc=%d meta=%d sparse=0 ins=%s endins=- ops=%s" % (i, idx_b, rng.randrange(2), rng.choice(["-", "\u2713ok".encode().hex()]), ",".join(["W" + c.hex() for c in chunkings(rng, b)] + ["E"]))

def gen_twins(rng, n):
    """pairs of cases whose selectors differ only in ASCII case where case matters (ids, classes, case-sensitive attribute values):
    anything remembered from one rewriter (a cache keyed too coarsely) shows in the other"""
    for i in range(n // 2):
        data = l2_doc(rng)
        v = rng.choice(["a", "b", "x", "ab", "a b", "en-us"])
        kind = rng.randrange(4)
        def sel(val):
            if kind == 0: return ("#" + val.replace(" ", ""), "I" + hx(val.replace(" ", "")))
            if kind == 1: return ("." + val.replace(" ", ""), "C" + hx(val.replace(" ", "")))
            if kind == 2: return ('[title="%s"]' % val, "Ves:%s:%s" % (hx("title"), hx(val)))
            return ('[class~="%s" s]' % val.split(" ")[0], "Vis:%s:%s" % (hx("class"), hx(val.split(" ")[0])))
        ch = chunkings(rng, data)
        for tag, val in (("a", v), ("b", v.upper())):
            css, st = sel(val)
            yield "L2 tw%d%s isz=104 strict=0 sel=%s~%s~~-~- ops=%s" % (i, tag, hx(css), st, ",".join(["W" + c.hex() for c in ch] + ["E"]))

def gen_nohandlers(rng, n):
    """no handlers at all: the tag scanner alone; written byte by byte so that pending is observed at every prefix"""
    for i in range(n):
        data = rng.choice([lambda: l2_doc(rng), lambda: doc(rng, 10), lambda: wellformed(rng)])()
        data = data[:120]
        if rng.randrange(4) == 0:
            # foreign content in which the scanner asked for a lexeme (integration-point / breakout names), then constructs that stay foreign:
            # whatever is unfinished afterwards is still held back as "<" + name only
            root, asks = rng.choice([(b"<svg>", [b"<font>", b"<title/>", b"<desc/>", b"<foreignObject/>", b"<font/>", b"<b-c>"]),
                                     (b"<math>", [b"<annotation-xml>", b"<mi/>", b"<foo-bar>", b"<mtext/>", b"<semantics><annotation-xml>", b"<annotation-xml encoding=x>"])])
            rest = b"".join(rng.choice([b"<!-- still streaming -->", b'<mrow class="a b c" id="x">', b"<g fill='red' stroke=blue>", b"text ", b"<![CDATA[ x<y ]]>", b"</g>", b"<path d='M0 0'/>", b"<!doctype x>", b"<a b=c>", b"<font-face font-family=x>", b"<linearGradient id=g>", b"<feGaussianBlur in=a>"]) for _ in range(rng.randrange(2, 6)))
            data = rng.choice([b"", b"<p>"]) + root + rng.choice(asks) + rest
        if rng.randrange(3) == 0: data = rng.choice([b"</ x>", b"</>", b"<?x?>", b"<!x>", b"</ y z>text after", b"<script><!-- </b-c script text goes on and on", b"<script><!--</x1 a b c d e f",
                                                       b"<script><!--<scripts more text and more text", b"<script><!-- x <script_count = 1; y = 2 and so on", b"<script><!--<script-x text text text"]) + data
        chunks = [data[j:j+1] for j in range(len(data))] or [b""]
        yield "L2 nh%d isz=104 strict=%d ops=%s" % (i, 1 if rng.randrange(5) == 0 else 0, ",".join(["W" + c.hex() for c in chunks] + ["E"]))

def main():
    fam, seed, n = sys.argv[1], int(sys.argv[2]), int(sys.argv[3])
    rng = random.Random(seed)
    if fam == "l1":
        for l in gen_l1(rng, n): print(l)
    elif fam in ("l2match", "l2edit", "l2fail", "l2mixed"):
        for l in gen_l2(rng, n, fam[2:], fam[2] + fam[3]): print(l)
    elif fam.startswith("grp-"):
        for l in gen_groups(rng, max(1, n // 5), fam[4:], 5): print(l)
    elif fam == "nohandlers":
        for l in gen_nohandlers(rng, max(1, n // 3)): print(l)
    elif fam == "utf8":
        for l in gen_utf8(rng, max(1, n // 4)): print(l)
    elif fam == "utf8m":
        for l in gen_utf8m(rng, max(1, n // 3)): print(l)
    elif fam == "pairs":
        for l in gen_pairs(rng, max(1, n // 4)): print(l)
    elif fam == "mem":
        for l in gen_mem(rng, max(1, n // 10)): print(l)
    elif fam == "c05":
        for l in gen_c05(rng, n): print(l)
    elif fam == "td":
        for l in gen_td(rng, n): print(l)
    elif fam == "sk":
        for l in gen_sk(rng, n): print(l)
    elif fam == "leak":
        for l in gen_leak(rng, n): print(l)
    elif fam == "twins":
        for l in gen_twins(rng, n): print(l)
    elif fam == "capis":
        # streaming content handlers (outside the Coq model): C API run vs Rust API run only
        UT = ["\u00e9", "\u4e2d\u6587", "\U0001f600", "a&b<c>", "plain", "x\u00e9y"]
        for i in range(n):
            data = l2_doc(rng)
            toks = []
            for _ in range(rng.choice([1, 1, 2])):
                css, st = rng.choice([("div", "T" + hx("div")), ("p", "T" + hx("p")), ("*", "A"), ("span, a", "T%s|T%s" % (hx("span"), hx("a"))), ("b", "T" + hx("b"))])
                ops = []
                for _ in range(rng.choice([1, 1, 2])):
                    frags = []
                    for _ in range(rng.randrange(1, 4)):
                        b = rng.choice(UT).encode("utf-8")
                        c = rng.randrange(10)
                        if c < 4: frags.append("u" + b.hex())
                        elif c < 8:
                            k = rng.randrange(0, len(b) + 1); frags.append("u" + b[:k].hex())
                            if rng.randrange(3) == 0: frags.append(rng.choice(["u", "s", "s" + b"ok".hex(), "u" + b"ascii".hex()]))     # something while a character is incomplete
                            if rng.randrange(6): frags.append("u" + b[k:].hex())
                        elif c < 9: frags.append("s" + b.hex())
                        else: frags.append("u" + bytes([rng.randrange(0x80, 0x100)]).hex())
                    ops.append("ss:%s%s:%s" % (rng.choice("bapeir"), rng.choice("ht"), ";".join(f for f in frags if len(f) > 0)))
                toks.append("sel=%s~%s~%s~-~-" % (hx(css), st, ",".join(ops)))
            ch = chunkings(rng, data)
            print("L2 ks%d nomodel=1 isz=104 strict=0 %s ops=%s" % (i, " ".join(toks), ",".join(["W" + c.hex() for c in ch] + ["E"])))
    elif fam == "capi":
        import re as _re
        for prof, share in (("mixed", 4), ("edit", 3), ("fail", 2), ("match", 1)):
            k = 0
            for l in gen_l2(rng, 3 * n, prof, "k" + prof[0]):
                if " bail=" in l or " bh=1" in l or _re.search(r"(sb:|sf:|sr:|[~,]sx|[(+]rp:)", l): continue
                print(l); k += 1
                if k >= max(1, n * share // 10): break
        # a setter that fails (bad attribute name) whose error is not collected, then an injected Stop in the same write call:
        # the error reported for the write must be the Stop, not the stale one
        isz = int(open('/verif/build/itemsize.txt').read().strip()) if __import__('os').path.exists('/verif/build/itemsize.txt') else 104
        for i in range(max(1, n // 8)):
            data = l2_doc(rng)
            ops = ["sa:%s:%s" % (hx(rng.choice(["a=b", "", "x y", "a>b"])), hx(rng.choice(ATTRV)))]
            for _ in range(rng.randrange(0, 3)): ops.insert(rng.randrange(len(ops) + 1), rng.choice(["sa:%s:%s" % (hx(rng.choice(ATTRN)), hx(rng.choice(ATTRV))), "ra:" + hx(rng.choice(ATTRN)), "bf:" + gen_chunk(rng), "tn:" + hx(rng.choice(["b", "1a", ""]))]))
            ch = [data] if rng.randrange(3) else chunkings(rng, data)
            print("L2 kx%d fail=%d isz=%d strict=0 sel=2a~A~%s~-~- ops=%s" % (i, rng.randrange(2, 7), isz, ",".join(ops), ",".join(["W" + c.hex() for c in ch] + ["E"])))
    elif fam == "c03":
        for l in gen_c03(rng, n): print(l)
    elif fam == "enc":
        for l in gen_enc(rng, n): print(l)
    elif fam == "c04":
        for l in gen_c04(rng, n): print(l)
    elif fam == "l1fail":
        for l in gen_l1fail(rng, n): print(l)
    elif fam == "runs":
        for l in gen_runs(rng, n): print(l)
    else:
        sys.exit("unknown family " + fam)

if __name__ == "__main__":
    main()
