#!/usr/bin/env python3
"""Seeded case generator for the correspondence run.  One PRNG (random.Random(seed)) drives every choice.

usage: gen.py <family> <seed> <count>      -> case lines on stdout
"""
import random, sys

FRAGS = [b"<", b">", b"/", b"!", b"-", b"--", b"=", b'"', b"'", b" ", b"\n", b"a", b"b", b"X", b"1", b"?", b"]", b"[", b"\0",
    b"<div", b"</div>", b"<div>", b"<script>", b"</script>", b"</SCRIPT ", b"<style>", b"</style>", b"<title>", b"</title>",
    b"<textarea>", b"</textarea>", b"<xmp>", b"</xmp>", b"<plaintext>", b"<!--", b"-->", b"--!>", b"<!DOCTYPE", b"<!doctype html",
    b" PUBLIC ", b" SYSTEM ", b'"x"', b"'y'", b"<![CDATA[", b"]]>", b"<a href=", b"<b c=d e>", b"<p/>", b"<br/", b"</", b"<!",
    b"<?", b"<!-", b"<scr", b"<script", b"&amp;", b"text", b"<svg>", b"</svg>", b"<SVG ", b"<math>", b"</math>", b"<mi>", b"</mi>",
    b"<font color=x>", b"<font>", b"<font SIZE", b"<foreignObject>", b"</foreignObject>", b"<desc/>", b"<desc>", b"</desc>",
    b'<annotation-xml encoding="text/html">', b"<annotation-xml>", b"</annotation-xml>", b"<p>", b"</p>", b"<br>", b"</br>",
    b"<g/>", b"<path d=1 />", b"<select>", b"</select>", b"<template>", b"</template>", b"<frameset>", b"<noframes>", b"</noframes>",
    b"<input>", b"<option>", b"<table>", b"<tr><td>", b"<!-->", b"<!--->", b"<!--x--!>", b"<a b='c' D=\"e\" f=g h>", b"<img src=x/>",
    b"<iframe>", b"</iframe>", b"<noscript>", b"</noscript>", b"<!-- <script> -->", b"<script><!--", b"<script><!--<script>",
    b"</script>-->", b"<li class=x id=y>", b"<span>", b"</span>", b"<h1>", b"</h1>", b"<ul>", b"</ul>"]

def doc(rng, maxfrags=10):
    k = 1 + rng.randrange(maxfrags)
    return b"".join(rng.choice(FRAGS) for _ in range(k))

def wellformed(rng, depth=0):
    """mostly-valid nested document"""
    tags = ["div", "span", "p", "a", "ul", "li", "b", "h1", "section", "em"]
    voids = ["br", "img", "hr", "input"]
    out = b""
    for _ in range(rng.randrange(1, 4)):
        c = rng.randrange(10)
        if c < 4 and depth < 4:
            t = rng.choice(tags).encode()
            attrs = b""
            for _ in range(rng.randrange(3)):
                attrs += b" " + rng.choice([b"class", b"id", b"href", b"data-x", b"TITLE"]) + rng.choice([b"", b"=v", b'="a b"', b"='q'"])
            out += b"<" + t + attrs + b">" + wellformed(rng, depth + 1) + (b"</" + t + b">" if rng.randrange(8) else b"")
        elif c < 5:
            out += b"<" + rng.choice(voids).encode() + rng.choice([b"", b"/", b" x=y"]) + b">"
        elif c < 8:
            out += rng.choice([b"hello", b"some text ", b"x&amp;y", b"1 < 2", b"\n  "])
        elif c < 9:
            out += b"<!--" + rng.choice([b"c", b" a-b ", b""]) + b"-->"
        else:
            out += rng.choice([b"<script>var x='<b>';</script>", b"<style>a>b{}</style>", b"<title>T&lt;</title>", b"<svg><g/><path d=1 /></svg>"])
    return out

def chunkings(rng, data):
    mode = rng.randrange(5)
    if mode == 0 or len(data) == 0:
        return [data]
    if mode == 1:
        return [data[i:i+1] for i in range(len(data))]
    if mode == 2:
        c = rng.randrange(len(data) + 1)
        return [data[:c], data[c:]]
    chunks, i = [], 0
    while i < len(data):
        step = rng.randrange(7) if mode == 3 else rng.randrange(1, 40)
        chunks.append(data[i:i+step]); i += step
    return chunks or [b""]

def ops_of(chunks):
    return ",".join(["W" + c.hex() for c in chunks] + ["E"])

def gen_l1(rng, n, prefix="a"):
    for i in range(n):
        data = doc(rng) if rng.randrange(4) else wellformed(rng)
        seed = rng.choice([21, 0, 1, 5, 9, 13]) + 32 * rng.randrange(3)
        kv = dict(seed=seed, strict=rng.randrange(4) == 0 and 1 or 0)
        r = rng.randrange(10)
        if r == 0:
            kv.update(fail=1 + rng.randrange(6), bh=rng.randrange(2), bail=rng.choice(["-", b"<!--bail-->".hex()]))
        elif r == 1:
            kv.update(remove=1)
        elif r == 2:
            kv.update(mem=rng.randrange(0, 40), prealloc=rng.choice([0, 0, 4, 16]), bm=rng.randrange(2), bail=rng.choice(["-", b"[B]".hex()]))
        elif r == 3:
            kv.update(endt=b"<!--end-->".hex())
        yield "L1 %s%d %s ops=%s" % (prefix, i, " ".join("%s=%s" % x for x in kv.items()), ops_of(chunkings(rng, data)))

def gen_l1fail(rng, n, prefix="f"):
    """failure-heavy histories: a handler failure or a memory failure at a random point, more calls afterwards"""
    for i in range(n):
        data = doc(rng, 14) if rng.randrange(3) else wellformed(rng)
        seed = rng.choice([0, 1, 5, 9, 13, 4, 7]) + 32 * rng.randrange(3)
        kv = dict(seed=seed, strict=0)
        if rng.randrange(2):
            kv.update(fail=1 + rng.randrange(10), bh=rng.randrange(2), bm=rng.randrange(2))
        else:
            kv.update(mem=rng.randrange(0, 30), prealloc=0, bm=rng.randrange(2), bh=rng.randrange(2))
        if rng.randrange(2): kv['bail'] = b"<!--bail-->".hex()
        if rng.randrange(4) == 0: kv['endt'] = b"<!--end-->".hex()
        ch = chunkings(rng, data)
        extra = rng.randrange(3)
        ops = ["W" + c.hex() for c in ch] + ["E"] + ["W" + b"<p>".hex()] * extra
        yield "L1 %s%d %s ops=%s" % (prefix, i, " ".join("%s=%s" % x for x in kv.items()), ",".join(ops))

def main():
    fam, seed, n = sys.argv[1], int(sys.argv[2]), int(sys.argv[3])
    rng = random.Random(seed)
    if fam == "l1":
        for l in gen_l1(rng, n): print(l)
    elif fam == "l1fail":
        for l in gen_l1fail(rng, n): print(l)
    else:
        sys.exit("unknown family " + fam)

if __name__ == "__main__":
    main()
