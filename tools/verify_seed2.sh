#!/bin/bash
# Confirm a second-round seeded change: usage verify_seed2.sh <id>   (worktree /tmp/seed2/<id>, stored as /verif/seeded/<id>-2)
id=$1; wt=/tmp/seed2/$id; out=/verif/seeded/$id-2
mkdir -p $out; export CARGO_NET_OFFLINE=true
cd $wt || exit 2
cp seed/patch.diff seed/meta.json $out/; rm -rf $out/demo; cp -r seed/demo $out/demo
git checkout -q -- src c-api/src 2>/dev/null; rm -f tests/seed_demo.rs
git apply seed/patch.diff || { echo "PATCH DOES NOT APPLY" > $out/confirm.txt; cat $out/confirm.txt; exit 1; }
files=$(git status --short | grep -v "^??" | awk '{print $2}' | tr '\n' ' ')
suite=$(cargo test --workspace --no-fail-fast --offline 2>&1 | grep -E "^test result|FAILED|failed" | tr '\n' ';')
suite_ok=$(echo "$suite" | grep -qE "FAILED|[1-9][0-9]* failed" && echo false || echo true)
cp seed/demo/seed_demo.rs tests/
with=$(cargo test --offline --test seed_demo 2>&1 | grep -E "^test result" | tr '\n' ';')
git apply -R seed/patch.diff
without=$(cargo test --offline --test seed_demo 2>&1 | grep -E "^test result" | tr '\n' ';')
rm -f tests/seed_demo.rs
cat > $out/confirm.txt <<EOT
confirmed_by: tools/verify_seed2.sh in scratch worktree $wt (base $(git rev-parse --short HEAD)); files changed by the patch: $files
suite_with_change: all_pass=$suite_ok   [$suite]
demo_with_change:   [$with]
demo_without_change:   [$without]
EOT
cat $out/confirm.txt
