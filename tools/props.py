"""Per-property definitions used by ./check: Coq targets, case families, correspondence projections,
and the executable oracle that is run on the implementation's observations (the search for a failing input)."""
import obslog

TRUSTED_BASE = [
    'Coq 8.16.1 kernel incl. vm_compute (no native_compute); no axioms (Print Assumptions: closed under the global context)',
    'translator/translate.py (syntactic translation of the state-machine DSL, tag lists, constants, globals)',
    'Gallina interpreter of the DSL and hand-written model of dispatcher/stream (coq/model), tied to the code by the correspondence run',
    'extraction: ExtrOcamlBasic only (Extract Inductive bool/option/unit/list/prod/sumbool/sumor, Extract Inlined Constant andb/orb/fst/snd as that module declares); OCaml 4.13.1; runner/driver.ml (parsing/printing)',
    'Rust harness (harness/src) incl. its policy TransformController, tools/gen.py, tools/obslog.py (normalisation: adjacent data chunks merged, text chunks of one node merged)',
    'not modelled: encoding_rs, cssparser/selectors, memchr, hashbrown, allocator, threads, FFI',
]

from props_util import *
from oracles import *

# ------------------------------------------------------------------------------------------------
def oracle_c12(line, case, stats, allc=None, lines=None):
    """sink protocol + fail-stop, checked on the implementation's own log"""
    if line.startswith('L3 '):
        stats['encoded_cases'] = stats.get('encoded_cases', 0) + 1
        return oracle_c12_l3(case)
    errs = []
    ops = ops_of(line); calls = case['calls']
    stats['cases'] = stats.get('cases', 0) + 1
    if not calls: return errs
    seq = []
    for k, c in enumerate(calls):
        for s in c['sink']: seq.append((k, s))
    if seq and not seq[0][1].startswith('e'):
        errs.append('first sink call is not set_encoding: %s' % seq[0][1])
    failed_at = None
    for k, c in enumerate(calls):
        r = obslog.norm_res(c['res'])
        if r == 'use-after-end':      # end(self) consumed the rewriter: the call is not expressible; nothing may happen
            if c['sink']: errs.append('output after end()')
            continue
        if failed_at is not None:
            stats['calls_after_error'] = stats.get('calls_after_error', 0) + 1
            if c['sink']: errs.append('call %d after the error at call %d still produced output' % (k, failed_at))
            if r != 'panic:poisoned': errs.append('call %d after an error returned %s instead of panicking' % (k, r))
            continue
        is_end = k < len(ops) and ops[k][0] == 'E'
        empties = [i for i, s in enumerate(c['sink']) if s == 'c']
        if r == 'ok' and is_end:
            stats['successful_end'] = stats.get('successful_end', 0) + 1
            if empties != [len(c['sink']) - 1]:
                errs.append('successful end(): zero-length chunk positions %s, expected exactly one, last (of %d calls)' % (empties, len(c['sink'])))
        elif empties:
            errs.append('zero-length chunk during call %d (%s, result %s)' % (k, 'end' if is_end else 'write', r))
        if r != 'ok':
            failed_at = k; stats['errors'] = stats.get('errors', 0) + 1
    return errs

C10_TEXT = ('Theorem C10_limit_after_successful_writes: for every configuration of the level-2 model (selectors, handlers, failure injection), every limit M that '
            'admits the preallocation and every sequence of successful writes, accounted usage (parsing buffer + open-element stack) <= M and retained not-yet-emitted '
            'input <= M; one-step invariant C10_write_keeps_limit; the stack is charged before it grows. The failing call returns MemoryLimitExceeded in the model by construction. '
            'C10_buffer_growth_is_monotone_in_the_limit / C10_stack_growth_is_monotone_in_the_limit: an arena append or stack push admitted under limit M is admitted, with the same result, under every M\' >= M. Partial: whole-run monotonicity in M and determinism are checked by the correspondence run / sweep oracle only. Known finding PreallocAboveLimit (witness lemma in props/C10.v).')
TILING = ('Coq proof: tiling invariant sink = chunk[0..remaining_content_start) through lexer, tag scanner, bookmark hand-offs, dispatcher and stream '
          '(proofs/Tiling.v, generic in the table) + side conditions decided by vm_compute on the regenerated table (proofs/TableFacts.v); extraction-based correspondence run')
COROLL = 'Coq proof: corollary of the tiling theorem (proofs/Tiling.v, Corollaries.v) + extraction-based correspondence run; oracle on the implementation'
LAWS = 'Coq proof: algebraic laws of the executable model of tokens/mutations/escaping (proofs/TokenLaws.v) + extraction-based correspondence run with random operation scripts'
PROPS = {
    'C02': dict(coq=['props/C02.vo'], families=[('grp-l1', 700, 15000), ('grp-l2mixed', 900, 20000), ('grp-l2edit', 500, 10000), ('utf8', 300, 6000), ('utf8m', 400, 8000)], projections=['full'], oracle=oracle_c02,
        technique=COROLL,
        level_text='Theorem C02_output_is_chunking_invariant_for_observers: for every observer controller and any two splits of the same bytes (incl. one-byte and empty writes) both successful runs emit the same bytes. '
                   'Partial: invariance of the handler-visible events and of mutating configurations (C02_full_statement is kept visible, not proved) is decided by the correspondence run on chunking groups '
                   '(the model is executed under every chunking of a group and must agree with the implementation call by call) plus the group oracle on the implementation.',
        level_note='Trusted as C01. Group oracle: same configuration and input under 5 chunkings must give identical normalised events (text chunks of a node merged, exactly one last_in_text_node) and output.'),
    'C06': dict(coq=['props/C06.vo'], families=[('pairs', 1600, 30000)], projections=['full'], oracle=oracle_c06, classify=classify_c06,
        technique=COROLL,
        level_text='Theorem C06_output_independent_of_observers: any two observer controllers (H and H u O drive completely different scan/lex switching) emit the same bytes for the same input under any chunkings. '
                   'Partial: equality of the events H itself receives (scanner simulates lexer) is decided by the correspondence run on (H, H u O) pairs and the pair oracle.',
        level_note='Trusted as C01.'),
    'C09': dict(coq=['props/C09.vo'], families=[('grp-l1', 500, 10000), ('grp-l2mixed', 600, 15000), ('nohandlers', 900, 20000)], projections=['pending'], oracle=oracle_c09, classify=classify_c09,
        technique=COROLL,
        level_text='Theorem C09_pending_is_the_buffered_tail: for every observer controller and chunking, after successful writes sink ++ buffered tail = bytes written, so exactly the unconsumed tail is held back. '
                   'Partial: that the tail length is a function of the prefix alone and the per-state bounds (<= "<"+name or a look-ahead with no handlers) are decided by the correspondence run (pending bytes after every write) '
                   'and by oracle_c09 (same prefix under different chunkings; absolute bound with no handlers). Known finding RequestLexemePending.',
        level_note='Trusted as C01.'),
    'C14': dict(coq=['props/C14.vo'], families=[('l2match', 700, 20000), ('l2mixed', 700, 20000), ('grp-l2mixed', 600, 10000), ('utf8', 300, 6000), ('enc', 500, 10000), ('td', 300, 6000)], projections=['events'], oracle=oracle_c14, classify=classify_c14,
        technique='Coq proof of the absolute-range lemma + extraction-based correspondence run on every source_location() value; oracle slices the original input',
        level_text='Theorem C14_absolute_range_denotes_the_lexeme: the absolute range attached to a token denotes, in the whole document, exactly the bytes of the lexeme in the parse buffer, for every prefix/buffer/range. '
                   'Partial: monotonicity, disjointness and attribute ranges are decided by the correspondence run (all source locations incl. attribute name/value) and by oracle_c14 on the implementation.',
        level_note='Trusted as C01. A genuine defect (valueless attribute locations) was repaired, see known_findings.txt.'),
    'C07': dict(coq=['props/C07.vo'], families=[('l2edit', 1200, 30000), ('l2mixed', 800, 20000)], projections=['out_bytes', 'handlers'], oracle=oracle_c07, classify=classify_c07,
        technique=LAWS + '; reference editor = the Coq model modulo re-tokenisation; independent untouched-tags-survive invariant on the implementation',
        level_text='Theorems C07_*: token-level laws for every token and operation sequence: serialisation = before ++ (self | replacement) ++ after; before appends, after prepends, replace overwrites, remove keeps insertions; '
                   'untouched tokens and untouched attributes are emitted verbatim. Partial: the stream-level statement (content removal, deferred end-tag edits, exact output = reference edit) is decided by the correspondence run: '
                   'the model of Element/StartTag/EndTag/Comment/TextChunk/Doctype/DocumentEnd mutations is executed on random operation scripts and must produce the same bytes and the same handler observations.',
        level_note='Trusted as C01 plus the hand model of rewritable units (coq/model/Rewriter.v).'),
    'C08': dict(coq=['props/C08.vo'], families=[('l2edit', 1500, 30000)], projections=['out_bytes', 'handlers'], oracle=oracle_c08,
        technique=LAWS,
        level_text='Theorems C08_*: for every byte string, escaped text content has no < or > and decodes back; escaped attribute values have no double quote; accepted comment text has none of the four closing shapes; '
                   'rejected setters leave the token unchanged. Partial: re-tokenisation of the output and the cross-encoding clause (encoding_rs external) are not proved; validators are compared with the implementation on biased strings.',
        level_note='Trusted as C07.'),
    'C16': dict(coq=['props/C16.vo'], families=[('l2edit', 800, 20000), ('l2match', 800, 20000), ('enc', 400, 8000)], projections=['handlers', 'events'], oracle=oracle_c16,
        technique=LAWS,
        level_text='Theorems C16_*: get_attribute returns the value of the first attribute whose name matches ASCII case-insensitively and None iff there is none (every attribute list, duplicates included); set_attribute rewrites that first match in place or appends, keeps order and the other attributes; remove_attribute deletes every match and keeps the order; invalid names are refused and change nothing; get(set n v) n = v; get after remove = None. Partial: agreement of the attribute outline with the '
                   'WHATWG attribute grammar for every chunking is decided by correspondence (all getters, before and after edits) and an independent reference attribute parser (oracle_c16).',
        level_note='Trusted as C07.'),
    'C01': dict(coq=['props/C01.vo'], families=[('l1', 1200, 30000), ('l2match', 600, 15000), ('grp-l1', 400, 8000), ('utf8', 400, 8000), ('utf8m', 400, 8000), ('enc', 400, 8000)], projections=['out_bytes'], oracle=oracle_c01,
        technique=TILING,
        level_text='Theorem C01_pass_through: for EVERY observer transform controller (arbitrary capture-flag policy at every tag = every set of observing handlers and every '
                   'lexer/scanner switching pattern), configuration (strict or not, any limits), byte string and split into writes: if all calls succeed, sink bytes = bytes written; '
                   'C01_prefix_on_failure: a failing run (e.g. ParsingAmbiguity) has emitted a prefix. Table side conditions re-proved on the regenerated table every run. '
                   'Partial: text is modelled with the identity codec (ASCII / valid UTF-8 fast path); the decode/encode normalisation clause and the other 35 encodings are only '
                   'exercised on the implementation (non-ASCII cases are outside the model); rewrite_controller itself is tied to the theorem by the correspondence run (levels 1 and 2).',
        level_note='Trusted: Coq kernel; translator; hand model of dispatcher/lexer/scanner/stream validated by the correspondence run (output bytes + results, L1 policy controller and real HtmlRewriter with observer handlers); extraction; harness.'),
    'C11': dict(coq=['props/C11.vo'], families=[('l1fail', 800, 15000), ('l2fail', 800, 15000), ('mem', 600, 15000)], projections=['out_bytes', 'sink_protocol'], oracle=oracle_c11,
        technique=TILING,
        level_text='Theorem C11_bail_out_conserves_bytes: for every observer controller, configuration, chunking and failure point (any handler invocation, any limiter charge, arena append, '
                   'first buffering of a tail): with the matching graceful flag the sink holds prefix ++ bail-out content ++ rest with prefix ++ rest = bytes received; without it a prefix and nothing flushed; '
                   'C11_flags_are_independent. Partial: stated for the first failing write() (end() is covered by the correspondence run and oracle); handler-mutating configurations, '
                   'bail-out handler ordering/once-only are checked by correspondence + oracle.',
        level_note='Trusted as C01. Failure injection in the harness: k-th handler invocation fails / memory limit sweep; correspondence on output bytes and sink call sequence.'),
    'C15': dict(coq=['props/C15.vo'], families=[('l1', 600, 20000), ('l2mixed', 600, 20000), ('l1fail', 300, 5000), ('mem', 300, 5000), ('enc', 500, 10000), ('runs', 14, 80)], projections=['results'], oracle=oracle_c15, classify=classify_c15,
        technique=TILING + '; harness built with debug assertions and overflow checks, every call under catch_unwind; long-run inputs on a 512 KiB stack (an abnormal end of the process is reported with the unfinished case as the replay)',
        level_text='Theorem C15_no_offset_panic: in the model every slice of the chunk and the end-of-chunk cursor rewind is a checked operation; for every observer controller, input and chunking '
                   'they never fail (the debug_assert! in Bytes::slice and the usize underflow in break_on_end_of_input are unreachable); C15_wrap32_in_range (i32 arithmetic of nth-child); C15_inline_transitions_form_no_cycle (on the regenerated state table the `--> #[inline]` edges, which are direct calls, form no cycle: nested state-function calls are bounded by the number of states for every input); C15_namespace_stack_never_empty (the namespace stack of the tree builder simulator is never empty for every protocol-following call sequence: the debug_assert in leave_ns is unreachable). '
                   'Partial: termination/linear work is by fuel in the model (fuel exhaustion would show as a model panic in the correspondence run, never observed); code outside the model '
                   '(cssparser, encoding_rs, Debug impls), stack exhaustion and allocation failure are not covered. Known finding PreallocAboveLimit.',
        level_note='Trusted as C01; the correspondence run compares call results incl. panics caught by catch_unwind in a debug-assertion + overflow-check build.'),
    'C10': dict(coq=['props/C10.vo'], families=[('mem', 1500, 30000), ('l2fail', 600, 10000)], projections=['results', 'usage', 'out_bytes'], oracle=oracle_c10, classify=classify_c10,
        technique='Coq proof: success-path invariant theorem (OkPath) instantiated with the limiter invariant + arena lemmas; extraction-based correspondence incl. accounted usage (hook)',
        level_text=C10_TEXT,
        level_note='Trusted: Coq kernel, translator (LimitedVec constants), hand model of Arena/LimitedVec/SharedMemoryLimiter accounting (Vec::try_reserve_exact assumed exact), '
                   'size_of::<StackItem> measured through the limiter hook at run time and passed to the model; correspondence on results, usage after every write and output.'),
    'C04': dict(coq=['props/C04.vo'], families=[('c04', 2500, 60000), ('l2match', 500, 10000), ('grp-l2mixed', 300, 6000), ('enc', 300, 6000)], projections=['handlers', 'events'], oracle=oracle_c04, classify=classify_c04, prepare=prepare_c04,
        technique='Coq proofs about the pieces of selector matching against an independent Coq reference semantics (spec/CssSem.v); the extracted reference semantics is the oracle for the '
                  'implementation\'s element-handler invocations; extraction-based correspondence run of the AST/compiler/VM/stack model',
        level_text='Theorems (props/C04.v): names (hash or bytes comparison = ASCII case-insensitive equality), all six attribute operators, An+B under wrapping i32 arithmetic, '
                   'C04_predicate_decides_compound, C04_vm_stack_and_counters_follow_the_tree (stack, sibling and typed counters = the tag-induced tree), '
                   'C04_attribute_bailout_and_recovery_equal_one_phase_execution, C04_ast_denotes_the_selector_list, C04_left_to_right_matching_is_css_matching, '
                   'C04_compiled_program_represents_the_ast, C04_stack_items_hold_the_ast_frontier and the end-to-end C04_selector_vm_is_css_matching: for every selector list, every sequence of '
                   'start/end tags through the controller model and every further start tag, the ids handed to start_matching are exactly the selectors CssSem.selector_matches selects for the new element '
                   'in the induced tree (hypotheses: no element with 2^31-1 children; :not() arguments that flatten exactly, non-empty class names); C04_selector_vm_is_css_matching_for_checked_selectors states it with the decidable check sel_okb on the selector list. '
                   'Partial: this is a theorem about the model of the controller; selector parsing (cssparser/selectors crates) and the tag stream that reaches the controller are outside it. '
                   'On the implementation the property is decided by running the extracted reference semantics '
                   '(tree induced by explicit tags, right-to-left matching over the ancestor chain) on the model\'s tag stream and comparing with the handler invocations of the real rewriter, '
                   'for selectors from the full grammar, plus the correspondence run of the VM model. Known finding NotCompoundArg.',
        level_note='Trusted as C01 plus: the pairing of selector strings with their structure in tools/gen.py (cssparser / selectors crate parsing is not modelled), spec/CssSem.v as the meaning of "CSS semantics".'),
    'C05': dict(coq=['props/C05.vo'], families=[('c05', 2500, 60000), ('l2mixed', 600, 12000), ('grp-l2mixed', 300, 6000)], projections=['handlers'], oracle=oracle_c05, prepare=prepare_c05,
        technique='Coq proof: invariant over every reachable state of the level-2 model (generic success-path lifting OkWrite + handler-count invariant, proofs/Scope.v); '
                  'extracted reference scope model (spec/CssSem.v scope_events) as oracle for the implementation\'s handler invocation log; extraction-based correspondence run',
        level_text='Theorems C05_handler_counts_track_open_matched_elements and C05_scoped_handler_active_iff_matched_element_open: for every selector set, handler scripts, failure point, configuration, document and chunking, '
                   'in every state reached through successful writes the activation count of each comment/text handler = its initial count + the number of (open element, matched selector) pairs that own it, so a selector-scoped '
                   'handler is active exactly while a matched element is on the open-element stack. C05_end_tag_pops_exactly_the_closed_elements / C05_end_tag_stops_exactly_the_closed_elements: on every stack that follows the tag-induced tree (every reachable one, C04) an end tag deactivates exactly the open elements it closes in the tree, each once, and a stray end tag nothing; with C04_stack_items_hold_the_ast_frontier each open element\'s matched set is its CSS match set, and C05_scoped_handlers_follow_css_matching_on_the_tree (proofs/ScopeCss.v) puts the two together at the controller: after every sequence of start/end tags a selector-scoped text/comment handler is active exactly when some open element of the induced tree is matched (CssSem) by a selector that owns it (C05_scoped_handlers_follow_css_matching_for_checked_selectors: same with the decidable selector check). Partial: that the end-tag handler then runs at that end tag token, registration order and the '
                   'end handler are decided by comparing the complete handler-invocation sequence of the real rewriter with the extracted reference scope model (text chunks collapsed per node; end-tag handlers of one end tag and '
                   'end handlers compared as sets) and by the correspondence run.',
        level_note='Trusted as C04.'),
    'C13': dict(coq=['props/C13.vo'], families=[('td', 1200, 30000), ('enc', 1500, 40000), ('utf8', 300, 6000), ('sk', 800, 20000)], projections=['events', 'results', 'out_bytes'], oracle=oracle_c13,
        technique='Coq proof about the executable model of TextDecoder for an arbitrary streaming decoder satisfying recorded laws (proofs/TextDecoderProof.v); extraction-based correspondence run of the '
                  'model instantiated with an executable UTF-8 decoder; for all 36 encodings the harness compares what handlers read / what the sink receives with encoding_rs whole-buffer decode / encode',
        level_text='Theorem C13_text_chunks_are_the_whole_buffer_decode: for every streaming decoder obeying decoder_laws (assumed behaviour of encoding_rs, satisfiable: C13_laws_are_satisfiable), every text node and every split into '
                   'lexemes (cuts inside multi-byte characters, buffer refills), the chunks handed to text handlers concatenate to the whole-buffer decode of the node, their ranges tile the node and exactly the final chunk is last_in_text_node. '
                   'C13_utf8_fragments_written_to_a_sink_are_the_string / C13_sink_refuses_only_invalid_utf8: content a handler writes to a StreamingHandlerSink as UTF-8 byte fragments cut anywhere is accepted and reaches the output as that string, and a write is refused only for bytes that do not continue the stream validly (model StreamSink.v, tied by SK correspondence cases and an independent validator oracle). '
                   'Partial: encoding_rs itself (the 36 codecs), the encoder side for non-UTF-8 documents (numeric character references), names/attribute values/comment text, and the meta-charset switch are outside the model; they are decided on the implementation '
                   'by the level-3 harness oracle (strings read vs Encoding::decode_without_bom_handling of the token bytes, sink bytes vs Encoding::encode, set_encoding positions, refusal of non-ASCII-compatible encodings is by type). '
                   'The model of TextDecoder is tied to the code by the correspondence run on text-only UTF-8 documents (chunk text merged per node, ranges, last flags).',
        level_note='Trusted as C01 plus: decoder_laws as the contract of encoding_rs::Decoder::decode_to_str; harness/src/l3.rs (reference computations with encoding_rs one-shot decode/encode); the Coq UTF-8 decoder instance is a model of encoding_rs validated only by the correspondence run.'),
    'C18': dict(coq=['props/C18.vo'], families=[('mem', 900, 20000), ('l2mixed', 400, 8000), ('l1', 300, 6000), ('l2fail', 200, 4000), ('enc', 100, 2000), ('twins', 200, 4000), ('leak', 40, 400)], projections=['full'], oracle=oracle_c18, prepare=prepare_c18,
        technique='Coq proof by computation over the inventory of global state that the translator regenerates from the source (no process-wide mutable state, one allowed thread-local); '
                  'extraction-based correspondence run against the model (a pure function); thread-schedule differential runs of the implementation (fresh thread / shared thread / 16 and 3 concurrent workers / migrating send::HtmlRewriter)',
        level_text='Theorems C18_no_shared_mutable_state and C18_c_api_last_error_is_thread_local: every static / thread_local / lazy_static item in src/ and c-api/src/ (inventory regenerated from the source each run) is immutable, '
                   'except the C API last-error slot, which is thread-local. Partial: state reachable through heap sharing (Arc/Rc handed to two instances) is not covered by the inventory, and thread interleavings cannot be exhibited by a '
                   'Gallina model; they are explored on the implementation: every case is run on a fresh thread, on a shared thread after other instances, on 16 and 3 concurrent worker threads, and with a send::HtmlRewriter moved to a new thread '
                   'for every call while other threads parse selectors; logs (output, events, errors, accounted memory) must be identical, and the sequential run must equal the model (a pure function of configuration and input).',
        level_note='Trusted as C01 plus the translator\'s global-state inventory (regular expressions over the source) and the OS scheduler actually interleaving the worker threads (16 cores).'),
    'C17': dict(coq=['props/C17.vo'], families=[('capi', 1500, 30000), ('capis', 700, 15000)], projections=['capi'], oracle=oracle_c17, prepare=prepare_c17, impl_mode='capi',
        technique='Coq proofs by computation over the inventory of exported C entry points regenerated from c-api/src (panic containment, error reporting) and of the last-error protocol; '
                  'extraction-based correspondence run in which the implementation is driven through the extern "C" entry points and compared with the Coq model; differential run against the Rust API',
        level_text='Theorems C17_rewriting_entry_points_catch_panics, C17_fallible_setters_report_errors (over the entry-point inventory regenerated from the source each run) and C17_last_error_protocol (all call histories of one thread). '
                   'Partial: "same sink bytes and handler-visible values as the Rust configuration" is decided by running every level-2 case (selectors, element/comment/text/doctype/end handlers with mutation scripts, end-tag handlers, '
                   'streaming handlers with split UTF-8 fragments, Stop injected at every handler index, tiny memory limits, builder freed before the rewriter is used) through the exported extern "C" functions and comparing the log with the '
                   'Coq model and with the Rust-API run; return codes and the last-error string are checked after every call; unwinding out of an entry point is detected. Memory safety (leaks, double free, use after free) is outside any Gallina model: '
                   'a sample of the C-driven cases (50 quick / 400 thorough) runs under valgrind memcheck (invalid accesses, double frees, definite leaks).',
        level_note='Trusted as C01 plus harness/src/capi.rs (a Rust program calling the rlib\'s extern "C" functions exactly as the header describes, not a C compiler build of lol_html.h) and the translator\'s entry-point inventory.'),
    'C03': dict(coq=['props/C03.vo'], families=[('c03', 3000, 60000), ('l1', 300, 6000)], projections=['full'], oracle=oracle_c03, classify=classify_c03,
        technique='Coq proofs about the ambiguity guard and the simulator tables (regenerated from the source) against WHATWG lists written from the standard; extraction-based correspondence run; '
                  'independent WHATWG reference tokenizer (tools/whatwg_ref.py) as oracle for the captured token stream; strict / non-strict pair runs',
        level_text='Theorems C03_tables_are_the_whatwg_lists, C03_tag_constants_are_name_hashes, C03_strict_fails_only_when_ambiguous, C03_ambiguity_is_refused_in_{select,template_in_select,frameset}, '
                   'C03_strict_and_non_strict_feedback_agree_on_{start,end}_tags; C03_strict_run_without_ambiguity_is_the_non_strict_run / C03_successful_strict_run_equals_the_non_strict_run (proofs/StrictErase.v): for every controller, configuration, input and chunking a strict run in which no call reports ParsingAmbiguity is call for call the non-strict run (same results, sink calls, controller state). Partial: "the token stream is the WHATWG tokenizer\'s" is not a theorem (no formal WHATWG tokenizer + tree builder); it is decided by comparing every token '
                   '(names, attributes, self-closing flag, comment text, doctype fields, text ranges) of successful strict runs with capture-everything policy against an independent reference tokenizer written from the standard and driven by the '
                   'tree-construction rules that matter on the claimed domain (HTML tag soup without svg/math; well-nested foreign islands with integration points and CDATA), for random chunkings; whole-run equality of a successful strict run '
                   'and the non-strict run is decided on pairs of runs. Known finding IntegrationPointNameReuse.',
        level_note='Trusted as C01 plus spec/Whatwg.v and tools/whatwg_ref.py as renderings of the standard.'),
    #'C01': dict(coq=['props/C01.vo'], families=[('l1', 1500, 40000)], projections=['out_bytes'], oracle=oracle_c01),
    'C12': dict(coq=['props/C12.vo'], families=[('l1', 800, 20000), ('l1fail', 500, 10000), ('l2fail', 500, 10000), ('l2edit', 500, 10000), ('enc', 500, 10000)], projections=['sink_protocol'], oracle=oracle_c12,
        technique='Coq proof: generic frame theorem over the executable model + invariant over call histories; extraction-based correspondence run',
        level_text='Theorems C12_sink_protocol / C12_finalizing_chunk_iff_successful_end / C12_error_poisons / C12_poisoned_is_inert hold for EVERY transform controller '
                   '(any handlers, failing anywhere), configuration, input and write*/end history of the model: set_encoding first, then only non-empty chunks, one zero-length '
                   'chunk as the very last call iff an end() succeeded, nothing after an error. The model (dispatcher, lexer, tag scanner, parser, stream, arena, guard) is executed '
                   'against the real TransformStream on generated histories incl. injected handler and memory failures; the sink call sequences must agree. Partial: the prefix '
                   'clause is proved for observer controllers (C12_prefix_before_failure) and checked by the correspondence run otherwise; meta-charset set_encoding is not in the model yet.',
        level_note='Trusted: Coq kernel, translator, the hand-written Gallina model (validated by the correspondence run on the sink-protocol projection), extraction (ExtrOcamlBasic), '
                   'the harness. The poisoning wrapper (guarded!) is replicated in the level-1 harness around TransformStream.'),
}
