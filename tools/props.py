"""Per-property definitions used by ./check: Coq targets, case families, correspondence projections,
and the executable oracle that is run on the implementation's observations (the search for a failing input)."""
import obslog

TRUSTED_BASE = [
    'Coq 8.16.1 kernel incl. vm_compute (no native_compute); no axioms (Print Assumptions: closed under the global context)',
    'translator/translate.py (syntactic translation of the state-machine DSL, tag lists, constants, globals)',
    'Gallina interpreter of the DSL and hand-written model of dispatcher/stream (coq/model), tied to the code by the correspondence run',
    'extraction: ExtrOcamlBasic only (Extract Inductive bool/option/unit/list/prod/sumbool/sumor, Extract Inlined Constant andb/orb/fst/snd as that module declares); OCaml 4.13.1; runner/driver.ml (parsing/printing)',
    'Rust harness (harness/src) incl. its policy TransformController, tools/gen.py, tools/obslog.py (normalisation: adjacent data chunks merged, text chunks of one node merged)',
    'not modelled: encoding_rs, cssparser/selectors, memchr, hashbrown, allocator, threads, FFI',
]

def kv(line):
    d = {}
    for t in line.split(' '):
        if '=' in t:
            k, v = t.split('=', 1); d[k] = v
    return d
def ops_of(line):
    o = kv(line).get('ops', 'E')
    return [('E', b'') if x == 'E' else ('W', bytes.fromhex(x[1:])) for x in o.split(',') if x]
def input_bytes(line):
    return b''.join(d for k, d in ops_of(line) if k == 'W')
def flag(d, k): return d.get(k, '0') == '1'

# ------------------------------------------------------------------------------------------------
def oracle_c12(line, case, stats, allc=None):
    """sink protocol + fail-stop, checked on the implementation's own log"""
    errs = []
    ops = ops_of(line); calls = case['calls']
    stats['cases'] = stats.get('cases', 0) + 1
    if not calls: return errs
    seq = []
    for k, c in enumerate(calls):
        for s in c['sink']: seq.append((k, s))
    if seq and not seq[0][1].startswith('e'):
        errs.append('first sink call is not set_encoding: %s' % seq[0][1])
    failed_at = None
    for k, c in enumerate(calls):
        r = obslog.norm_res(c['res'])
        if r == 'use-after-end':      # end(self) consumed the rewriter: the call is not expressible; nothing may happen
            if c['sink']: errs.append('output after end()')
            continue
        if failed_at is not None:
            stats['calls_after_error'] = stats.get('calls_after_error', 0) + 1
            if c['sink']: errs.append('call %d after the error at call %d still produced output' % (k, failed_at))
            if r != 'panic:poisoned': errs.append('call %d after an error returned %s instead of panicking' % (k, r))
            continue
        is_end = k < len(ops) and ops[k][0] == 'E'
        empties = [i for i, s in enumerate(c['sink']) if s == 'c']
        if r == 'ok' and is_end:
            stats['successful_end'] = stats.get('successful_end', 0) + 1
            if empties != [len(c['sink']) - 1]:
                errs.append('successful end(): zero-length chunk positions %s, expected exactly one, last (of %d calls)' % (empties, len(c['sink'])))
        elif empties:
            errs.append('zero-length chunk during call %d (%s, result %s)' % (k, 'end' if is_end else 'write', r))
        if r != 'ok':
            failed_at = k; stats['errors'] = stats.get('errors', 0) + 1
    return errs

def oracle_c01(line, case, stats, allc=None):
    errs = []
    d = kv(line)
    if any(k in d for k in ('fail', 'remove', 'endt', 'mem')): return errs   # not a pure observer / failure configuration
    stats['observer_cases'] = stats.get('observer_cases', 0) + 1
    data = input_bytes(line).hex()
    res = obslog.p_results(case)
    out = ''.join(obslog.sink_bytes(c['sink']) for c in case['calls'])
    if all(r == 'ok' for r in res):
        if out != data: errs.append('output differs from input: in=%s out=%s' % (data[:200], out[:200]))
        stats['identity_checked'] = stats.get('identity_checked', 0) + 1
    elif 'err:amb' in res and flag(d, 'strict'):
        stats['ambiguity'] = stats.get('ambiguity', 0) + 1
        if not data.startswith(out): errs.append('output after ParsingAmbiguity is not a prefix of the input')
    else:
        errs.append('unexpected results %s for an observer configuration' % res)
    return errs

PROPS = {
    #'C01': dict(coq=['props/C01.vo'], families=[('l1', 1500, 40000)], projections=['out_bytes'], oracle=oracle_c01),
    'C12': dict(coq=['props/C12.vo'], families=[('l1', 1500, 40000), ('l1fail', 600, 10000)], projections=['sink_protocol'], oracle=oracle_c12,
        technique='Coq proof: generic frame theorem over the executable model + invariant over call histories; extraction-based correspondence run',
        level_text='Theorems C12_sink_protocol / C12_finalizing_chunk_iff_successful_end / C12_error_poisons / C12_poisoned_is_inert hold for EVERY transform controller '
                   '(any handlers, failing anywhere), configuration, input and write*/end history of the model: set_encoding first, then only non-empty chunks, one zero-length '
                   'chunk as the very last call iff an end() succeeded, nothing after an error. The model (dispatcher, lexer, tag scanner, parser, stream, arena, guard) is executed '
                   'against the real TransformStream on generated histories incl. injected handler and memory failures; the sink call sequences must agree. Partial: the prefix '
                   'clause (output before a failure is a prefix of the complete run) is checked by the correspondence run only; meta-charset set_encoding is not in the model yet.',
        level_note='Trusted: Coq kernel, translator, the hand-written Gallina model (validated by the correspondence run on the sink-protocol projection), extraction (ExtrOcamlBasic), '
                   'the harness. The poisoning wrapper (guarded!) is replicated in the level-1 harness around TransformStream.'),
}
