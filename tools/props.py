"""Per-property definitions used by ./check: Coq targets, case families, correspondence projections,
and the executable oracle that is run on the implementation's observations (the search for a failing input)."""
import obslog

TRUSTED_BASE = [
    'Coq 8.16.1 kernel incl. vm_compute (no native_compute); no axioms (Print Assumptions: closed under the global context)',
    'translator/translate.py (syntactic translation of the state-machine DSL, tag lists, constants, globals)',
    'Gallina interpreter of the DSL and hand-written model of dispatcher/stream (coq/model), tied to the code by the correspondence run',
    'extraction: ExtrOcamlBasic only (Extract Inductive bool/option/unit/list/prod/sumbool/sumor, Extract Inlined Constant andb/orb/fst/snd as that module declares); OCaml 4.13.1; runner/driver.ml (parsing/printing)',
    'Rust harness (harness/src) incl. its policy TransformController, tools/gen.py, tools/obslog.py (normalisation: adjacent data chunks merged, text chunks of one node merged)',
    'not modelled: encoding_rs, cssparser/selectors, memchr, hashbrown, allocator, threads, FFI',
]

from props_util import *
from oracles import *

# ------------------------------------------------------------------------------------------------
def oracle_c12(line, case, stats, allc=None, lines=None):
    """sink protocol + fail-stop, checked on the implementation's own log"""
    errs = []
    ops = ops_of(line); calls = case['calls']
    stats['cases'] = stats.get('cases', 0) + 1
    if not calls: return errs
    seq = []
    for k, c in enumerate(calls):
        for s in c['sink']: seq.append((k, s))
    if seq and not seq[0][1].startswith('e'):
        errs.append('first sink call is not set_encoding: %s' % seq[0][1])
    failed_at = None
    for k, c in enumerate(calls):
        r = obslog.norm_res(c['res'])
        if r == 'use-after-end':      # end(self) consumed the rewriter: the call is not expressible; nothing may happen
            if c['sink']: errs.append('output after end()')
            continue
        if failed_at is not None:
            stats['calls_after_error'] = stats.get('calls_after_error', 0) + 1
            if c['sink']: errs.append('call %d after the error at call %d still produced output' % (k, failed_at))
            if r != 'panic:poisoned': errs.append('call %d after an error returned %s instead of panicking' % (k, r))
            continue
        is_end = k < len(ops) and ops[k][0] == 'E'
        empties = [i for i, s in enumerate(c['sink']) if s == 'c']
        if r == 'ok' and is_end:
            stats['successful_end'] = stats.get('successful_end', 0) + 1
            if empties != [len(c['sink']) - 1]:
                errs.append('successful end(): zero-length chunk positions %s, expected exactly one, last (of %d calls)' % (empties, len(c['sink'])))
        elif empties:
            errs.append('zero-length chunk during call %d (%s, result %s)' % (k, 'end' if is_end else 'write', r))
        if r != 'ok':
            failed_at = k; stats['errors'] = stats.get('errors', 0) + 1
    return errs

C10_TEXT = ('Theorem C10_limit_after_successful_writes: for every configuration of the level-2 model (selectors, handlers, failure injection), every limit M that '
            'admits the preallocation and every sequence of successful writes, accounted usage (parsing buffer + open-element stack) <= M and retained not-yet-emitted '
            'input <= M; one-step invariant C10_write_keeps_limit; the stack is charged before it grows. The failing call returns MemoryLimitExceeded in the model by construction. '
            'Partial: monotonicity in M and determinism are checked by the correspondence run / sweep oracle only. Known finding PreallocAboveLimit (witness lemma in props/C10.v).')
PROPS = {
    'C10': dict(coq=['props/C10.vo'], families=[('mem', 1500, 30000), ('l2fail', 600, 10000)], projections=['results', 'usage', 'out_bytes'], oracle=oracle_c10, classify=classify_c10,
        technique='Coq proof: success-path invariant theorem (OkPath) instantiated with the limiter invariant + arena lemmas; extraction-based correspondence incl. accounted usage (hook)',
        level_text=C10_TEXT,
        level_note='Trusted: Coq kernel, translator (LimitedVec constants), hand model of Arena/LimitedVec/SharedMemoryLimiter accounting (Vec::try_reserve_exact assumed exact), '
                   'size_of::<StackItem> measured through the limiter hook at run time and passed to the model; correspondence on results, usage after every write and output.'),
    #'C01': dict(coq=['props/C01.vo'], families=[('l1', 1500, 40000)], projections=['out_bytes'], oracle=oracle_c01),
    'C12': dict(coq=['props/C12.vo'], families=[('l1', 1500, 40000), ('l1fail', 600, 10000)], projections=['sink_protocol'], oracle=oracle_c12,
        technique='Coq proof: generic frame theorem over the executable model + invariant over call histories; extraction-based correspondence run',
        level_text='Theorems C12_sink_protocol / C12_finalizing_chunk_iff_successful_end / C12_error_poisons / C12_poisoned_is_inert hold for EVERY transform controller '
                   '(any handlers, failing anywhere), configuration, input and write*/end history of the model: set_encoding first, then only non-empty chunks, one zero-length '
                   'chunk as the very last call iff an end() succeeded, nothing after an error. The model (dispatcher, lexer, tag scanner, parser, stream, arena, guard) is executed '
                   'against the real TransformStream on generated histories incl. injected handler and memory failures; the sink call sequences must agree. Partial: the prefix '
                   'clause (output before a failure is a prefix of the complete run) is checked by the correspondence run only; meta-charset set_encoding is not in the model yet.',
        level_note='Trusted: Coq kernel, translator, the hand-written Gallina model (validated by the correspondence run on the sink-protocol projection), extraction (ExtrOcamlBasic), '
                   'the harness. The poisoning wrapper (guarded!) is replicated in the level-1 harness around TransformStream.'),
}
