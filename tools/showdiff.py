import sys, binascii; sys.path.insert(0,'/verif/tools')
import obslog
tag=sys.argv[1]; proj=sys.argv[2] if len(sys.argv)>2 else 'full'; N=int(sys.argv[3]) if len(sys.argv)>3 else 5
res,A,B=obslog.compare('/verif/build/%s.impl.log'%tag,'/verif/build/%s.model.log'%tag)
print(res['cases'], len(res['missing_in_model']), {k:len(v) for k,v in res['diff'].items()})
cases={l.split(' ')[1]:l for l in open('/verif/build/%s.cases'%tag) if l.strip()}
f=obslog.PROJECTIONS[proj]
for i in res['diff'][proj][:N]:
    line=cases[i].strip()
    sels=[binascii.unhexlify(t[4:].split('~')[0]).decode() for t in line.split(' ') if t.startswith('sel=')]
    print('----',i,sels,[t for t in line.split(' ') if not t.startswith('ops=')][2:])
    data=b''.join(bytes.fromhex(o[1:]) for o in line.split('ops=')[1].split(',') if o.startswith('W'))
    print('   input',data[:300], 'nchunks', line.count(',W')+1)
    for k,(ca,cb) in enumerate(zip(A[i]['calls'],B[i]['calls'])):
        if f({'calls':[ca]})!=f({'calls':[cb]}):
            print(k,' impl ',ca['res'],ca['sink'][:10],ca['usage'],ca.get('handlers',[])[:6],ca['events'][:6]); print(k,' model',cb['res'],cb['sink'][:10],cb['usage'],cb.get('handlers',[])[:6],cb['events'][:6]); break
    if A[i]['extra'] or B[i]['extra']: print('  extra',A[i]['extra'][:2],B[i]['extra'][:2])
