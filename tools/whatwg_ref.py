"""Reference tokenizer for property C03, written from the WHATWG HTML standard (13.2.5 Tokenization) and driven by the
part of tree construction that can change tokenization on the property's input domain:
  * HTML-namespace tag soup: a start tag of title/textarea (RCDATA), style/xmp/iframe/noembed/noframes/noscript (RAWTEXT,
    scripting enabled), script, plaintext switches the tokenizer state (outside select/frameset, which strict mode refuses);
  * well-nested SVG/MathML islands: an explicit stack of the island's open elements gives the adjusted current node, hence
    whether CDATA sections are allowed, whether a start tag breaks out of foreign content, and where HTML integration
    points (svg foreignObject/desc/title, annotation-xml[encoding=text/html|application/xhtml+xml]) and MathML text
    integration points (mi mo mn ms mtext) put the tokenizer back under HTML rules.
Character references are not decoded and NUL / CR are not preprocessed (the inputs of the C03 family contain neither),
names are ASCII-lowercased, duplicate attributes are kept out (first one wins) as the standard says.
Independent of lol-html's code and of the Coq model; used only as an oracle."""

WS = b"\t\n\x0c "
RCDATA = {b"title", b"textarea"}
RAWTEXT = {b"style", b"xmp", b"iframe", b"noembed", b"noframes", b"noscript"}
BREAKOUT = set(b"b big blockquote body br center code dd div dl dt em embed h1 h2 h3 h4 h5 h6 head hr i img li listing menu meta nobr ol p pre ruby s small span strong strike sub sup table tt u ul var".split())
MATHML_TEXT_IP = {b"mi", b"mo", b"mn", b"ms", b"mtext"}
SVG_HTML_IP = {b"foreignobject", b"desc", b"title"}

def lower(b): return bytes(c + 32 if 65 <= c <= 90 else c for c in b)
def is_alpha(c): return 65 <= c <= 90 or 97 <= c <= 122

class Ref:
    def __init__(self, data):
        self.d = data; self.n = len(data); self.tokens = []
        self.state = 'data'; self.last_start = None
        self.stack = []          # open elements of the current foreign island: (name, ns, is_html_integration_point)
        self.text_start = None
        self.cdata_in_ip = False
        self.ip_name_reuse = False   # an HTML element inside an integration point is named like an integration point element
    # ---- tree construction feedback -------------------------------------------------------------
    def adjusted_ns(self):
        return self.stack[-1][1] if self.stack else 'html'
    def in_html_rules(self, is_start, name):
        """does the tree builder process this token with HTML rules (13.2.6 'tree construction dispatcher')?"""
        if not self.stack: return True
        nm, ns, html_ip = self.stack[-1]
        if ns == 'html': return True
        if ns == 'mathml' and nm in MATHML_TEXT_IP and is_start and name not in (b"mglyph", b"malignmark"): return True
        if ns == 'mathml' and nm == b"annotation-xml" and is_start and name == b"svg": return True
        if html_ip and is_start: return True
        return False
    def on_start(self, name, attrs, sc):
        html = self.in_html_rules(True, name)
        if html:
            if name == b"svg" or name == b"math":
                ns = 'svg' if name == b"svg" else 'mathml'
                if not sc: self.stack.append((name, ns, False))
                return
            if self.stack:   # an HTML element inside an integration point of an island
                if name in SVG_HTML_IP or name in MATHML_TEXT_IP or name == b"annotation-xml": self.ip_name_reuse = True
                if name not in VOID: self.stack.append((name, 'html', False))
            if name in RCDATA: self.state = 'rcdata'; self.last_start = name
            elif name in RAWTEXT: self.state = 'rawtext'; self.last_start = name
            elif name == b"script": self.state = 'script'; self.last_start = name
            elif name == b"plaintext": self.state = 'plaintext'
            return
        # foreign content rules
        ns = self.adjusted_ns()
        if name in BREAKOUT or (name == b"font" and any(a in (b"color", b"face", b"size") for a, _ in attrs)):
            # pop until an integration point or an HTML element, then reprocess under HTML rules
            while self.stack and not (self.stack[-1][1] == 'html' or self.stack[-1][2] or (self.stack[-1][1] == 'mathml' and self.stack[-1][0] in MATHML_TEXT_IP)):
                self.stack.pop()
            self.on_start(name, attrs, sc)
            return
        if not sc:
            ip = False
            if ns == 'svg' and name in SVG_HTML_IP: ip = True
            if ns == 'mathml' and name == b"annotation-xml":
                enc = [v for a, v in attrs if a == b"encoding"]
                if enc and lower(enc[0]) in (b"text/html", b"application/xhtml+xml"): ip = True
            self.stack.append((name, ns, ip))
        # (script in svg with the self-closing flag is the only tokenizer-relevant case; well-nested islands close it explicitly)
    def on_end(self, name):
        if not self.stack: return
        # well-nested islands: the end tag closes the nearest open element of that name, if any
        for i in range(len(self.stack) - 1, -1, -1):
            if self.stack[i][0] == name:
                # HTML rules cannot close past an island boundary element of another namespace unless names match
                del self.stack[i:]
                return
            if self.stack[i][1] != 'html' and self.in_html_rules(False, name) and name not in (b"p", b"br"):
                return
        if name in (b"p", b"br") and self.adjusted_ns() != 'html':
            # </p> and </br> in foreign content break out like their start tags
            while self.stack and not (self.stack[-1][1] == 'html' or self.stack[-1][2] or (self.stack[-1][1] == 'mathml' and self.stack[-1][0] in MATHML_TEXT_IP)):
                self.stack.pop()
    # ---- emission -------------------------------------------------------------------------------
    def text(self, a, b):
        if b > a:
            if self.tokens and self.tokens[-1][0] == 'T' and self.tokens[-1][2] == a: self.tokens[-1] = ('T', self.tokens[-1][1], b)
            else: self.tokens.append(('T', a, b))
    def emit_tag(self, a, b, is_end, name, attrs, sc):
        if is_end:
            self.tokens.append(('E', a, b, name)); self.state = 'data'; self.on_end(name)
        else:
            seen, uniq = set(), []
            for k, v in attrs:
                if k not in seen: seen.add(k); uniq.append((k, v))
            self.tokens.append(('S', a, b, name, tuple(uniq), sc)); self.state = 'data'; self.on_start(name, uniq, sc)
    # ---- tokenizer ------------------------------------------------------------------------------
    def run(self):
        d, n = self.d, self.n
        i = 0
        while i < n:
            st = self.state
            if st == 'plaintext': self.text(i, n); i = n
            elif st == 'data': i = self.data(i)
            elif st in ('rcdata', 'rawtext'): i = self.raw(i)
            elif st == 'script': i = self.script(i)
            elif st == 'cdata':
                j = d.find(b"]]>", i)
                if j < 0: self.text(i, n); i = n
                else: self.text(i, j); i = j + 3; self.state = 'data'
            else: raise AssertionError(st)
        return self.tokens
    def data(self, i):
        d, n = self.d, self.n
        j = d.find(b"<", i)
        if j < 0: self.text(i, n); return n
        self.text(i, j)
        return self.tag_open(j)
    def tag_open(self, lt):
        """after '<' at position lt in the data state"""
        d, n = self.d, self.n
        i = lt + 1
        if i >= n: self.text(lt, n); return n                                   # eof-before-tag-name: '<' is text
        c = d[i]
        if c == 0x21: return self.markup_decl(lt)
        if c == 0x2f:
            i += 1
            if i >= n: self.text(lt, n); return n                               # '</' at EOF is text
            if is_alpha(d[i]): return self.tag(lt, i, True)
            if d[i] == 0x3e: return i + 1                                       # '</>' : nothing at all
            return self.bogus_comment(lt, i)
        if is_alpha(c): return self.tag(lt, i, False)
        if c == 0x3f: return self.bogus_comment(lt, i)
        self.text(lt, lt + 1); return lt + 1                                    # invalid-first-character: '<' is text
    def tag(self, lt, i, is_end):
        d, n = self.d, self.n
        j = i
        while j < n and d[j] not in WS and d[j] not in b"/>": j += 1
        name = lower(d[i:j])
        attrs = []; sc = False
        i = j
        state = 'before_name'
        while True:
            if i >= n: return n                                                 # eof-in-tag: the tag is dropped
            c = d[i]
            if state == 'before_name':
                if c in WS: i += 1
                elif c == 0x2f:
                    if i + 1 < n and d[i + 1] == 0x3e: sc = True; self.emit_tag(lt, i + 2, is_end, name, attrs, sc); return i + 2
                    if i + 1 >= n: return n
                    i += 1                                                      # unexpected-solidus-in-tag
                elif c == 0x3e: self.emit_tag(lt, i + 1, is_end, name, attrs, sc); return i + 1
                else:
                    j = i + 1 if c == 0x3d else i                               # a leading '=' is part of the name
                    while j < n and d[j] not in WS and d[j] not in b"/>=": j += 1
                    aname = lower(d[i:j]); i = j; state = 'after_name'; attrs.append([aname, b""])
            elif state == 'after_name':
                if c in WS: i += 1
                elif c == 0x3d: i += 1; state = 'before_value'
                else: state = 'before_name'
            elif state == 'before_value':
                if c in WS: i += 1
                elif c in b"\"'":
                    j = d.find(bytes([c]), i + 1)
                    if j < 0: return n
                    attrs[-1][1] = d[i + 1:j]; i = j + 1; state = 'after_quoted'
                elif c == 0x3e: self.emit_tag(lt, i + 1, is_end, name, attrs, sc); return i + 1   # missing-attribute-value
                else:
                    j = i
                    while j < n and d[j] not in WS and d[j] != 0x3e: j += 1
                    attrs[-1][1] = d[i:j]; i = j; state = 'before_name'
            elif state == 'after_quoted':
                state = 'before_name'                                           # (missing whitespace is only a parse error)
    def bogus_comment(self, lt, i):
        d, n = self.d, self.n
        j = d.find(b">", i)
        if j < 0: self.tokens.append(('C', lt, n, d[i:])); return n
        self.tokens.append(('C', lt, j + 1, d[i:j])); return j + 1
    def markup_decl(self, lt):
        d, n = self.d, self.n
        i = lt + 2
        if d[i:i + 2] == b"--": return self.comment(lt, i + 2)
        if lower(d[i:i + 7]) == b"doctype": return self.doctype(lt, i + 7)
        if d[i:i + 7] == b"[CDATA[":
            if self.adjusted_ns() != 'html':
                # (a CDATA section whose parent is the integration point element itself: MathML mi/mo/mn/ms/mtext, SVG foreignObject/desc/title,
                #  annotation-xml with an HTML encoding -- the adjusted current node is still a foreign element, so it IS a CDATA section)
                nm, ns, html_ip = self.stack[-1]
                if html_ip or (ns == 'mathml' and nm in MATHML_TEXT_IP): self.cdata_in_ip = True
                self.state = 'cdata'; return i + 7
            return self.bogus_comment(lt, i)
        return self.bogus_comment(lt, i)
    def comment(self, lt, i):
        d, n = self.d, self.n
        data = bytearray(); st = 'start'
        def emit(end): self.tokens.append(('C', lt, end, bytes(data)))
        while True:
            if i >= n: emit(n); return n
            c = d[i]
            if st == 'start':
                if c == 0x2d: st = 'start_dash'; i += 1
                elif c == 0x3e: emit(i + 1); return i + 1
                else: st = 'comment'
            elif st == 'start_dash':
                if c == 0x2d: st = 'end'; i += 1
                elif c == 0x3e: emit(i + 1); return i + 1
                else: data += b"-"; st = 'comment'
            elif st == 'comment':
                if c == 0x3c: data.append(c); st = 'lt'; i += 1
                elif c == 0x2d: st = 'end_dash'; i += 1
                else: data.append(c); i += 1
            elif st == 'lt':
                if c == 0x21: data.append(c); st = 'lt_bang'; i += 1
                elif c == 0x3c: data.append(c); i += 1
                else: st = 'comment'
            elif st == 'lt_bang':
                if c == 0x2d: st = 'lt_bang_dash'; i += 1
                else: st = 'comment'
            elif st == 'lt_bang_dash':
                if c == 0x2d: st = 'lt_bang_dash_dash'; i += 1
                else: st = 'end_dash'
            elif st == 'lt_bang_dash_dash':
                st = 'end'
            elif st == 'end_dash':
                if c == 0x2d: st = 'end'; i += 1
                else: data += b"-"; st = 'comment'
            elif st == 'end':
                if c == 0x3e: emit(i + 1); return i + 1
                elif c == 0x21: st = 'end_bang'; i += 1
                elif c == 0x2d: data += b"-"; i += 1
                else: data += b"--"; st = 'comment'
            elif st == 'end_bang':
                if c == 0x2d: data += b"--!"; st = 'end_dash'; i += 1
                elif c == 0x3e: emit(i + 1); return i + 1
                else: data += b"--!"; st = 'comment'
    def doctype(self, lt, i):
        d, n = self.d, self.n
        name = None; pub = None; sys_ = None; fq = False
        def done(j): self.tokens.append(('D', lt, j, name, pub, sys_, fq))
        def skip_ws(j):
            while j < n and d[j] in WS: j += 1
            return j
        def bogus(j):
            k = d.find(b">", j)
            if k < 0: done(n); return n
            done(k + 1); return k + 1
        i = skip_ws(i)
        if i >= n: fq = True; done(n); return n
        if d[i] == 0x3e: fq = True; done(i + 1); return i + 1
        j = i
        while j < n and d[j] not in WS and d[j] != 0x3e: j += 1
        name = lower(d[i:j]); i = j
        if i >= n: fq = True; done(n); return n
        i = skip_ws(i)
        if i >= n: fq = True; done(n); return n
        if d[i] == 0x3e: done(i + 1); return i + 1
        kw = lower(d[i:i + 6])
        def quoted(j):
            """j at a quote; returns (value, next index, abrupt, eof)"""
            q = d[j]; k = j + 1
            while k < n and d[k] != q and d[k] != 0x3e: k += 1
            if k >= n: return d[j + 1:], n, False, True
            if d[k] == 0x3e: return d[j + 1:k], k + 1, True, False
            return d[j + 1:k], k + 1, False, False
        if kw == b"public":
            i += 6
            j = skip_ws(i)
            if j >= n: fq = True; done(n); return n
            if d[j] in b"\"'":
                pub, j, abrupt, eof = quoted(j)
                if eof: fq = True; done(n); return n
                if abrupt: fq = True; done(j); return j
            elif d[j] == 0x3e: fq = True; done(j + 1); return j + 1
            else: fq = True; return bogus(j)
            # after public identifier / between
            k = skip_ws(j)
            if k >= n: fq = True; done(n); return n
            if d[k] == 0x3e: done(k + 1); return k + 1
            if d[k] in b"\"'":
                sys_, k, abrupt, eof = quoted(k)
                if eof: fq = True; done(n); return n
                if abrupt: fq = True; done(k); return k
                k = skip_ws(k)
                if k >= n: fq = True; done(n); return n
                if d[k] == 0x3e: done(k + 1); return k + 1
                return bogus(k)
            fq = True; return bogus(k)
        if kw == b"system":
            i += 6
            j = skip_ws(i)
            if j >= n: fq = True; done(n); return n
            if d[j] in b"\"'":
                sys_, j, abrupt, eof = quoted(j)
                if eof: fq = True; done(n); return n
                if abrupt: fq = True; done(j); return j
                j = skip_ws(j)
                if j >= n: fq = True; done(n); return n
                if d[j] == 0x3e: done(j + 1); return j + 1
                return bogus(j)
            if d[j] == 0x3e: fq = True; done(j + 1); return j + 1
            fq = True; return bogus(j)
        fq = True; return bogus(i)
    def raw(self, i):
        """RCDATA / RAWTEXT: text up to the appropriate end tag"""
        d, n = self.d, self.n
        j = i
        while True:
            k = d.find(b"</", j)
            if k < 0: self.text(i, n); return n
            m = k + 2
            e = m
            while e < n and is_alpha(d[e]): e += 1
            if e > m and lower(d[m:e]) == self.last_start and e < n and (d[e] in WS or d[e] in b"/>"):
                self.text(i, k)
                return self.tag(k, m, True)
            j = k + 2
    def script(self, i):
        d, n = self.d, self.n
        mode = 'plain'         # plain | escaped | double
        j = i
        def end_tag_at(k):
            m = k + 2; e = m
            while e < n and is_alpha(d[e]): e += 1
            return e > m and lower(d[m:e]) == b"script" and e < n and (d[e] in WS or d[e] in b"/>"), m, e
        while j < n:
            c = d[j]
            if mode == 'plain':
                if d[j:j + 4] == b"<!--":
                    mode = 'escaped'; j += 4
                    # '<!--' then '>' : the two dashes are escape start dash / escaped dash dash -> '>' returns to script data
                    if d[j:j + 1] == b">": mode = 'plain'; j += 1
                    elif d[j:j + 2] == b"->": mode = 'plain'; j += 2
                    continue
                if d[j:j + 2] == b"</":
                    ok, m, e = end_tag_at(j)
                    if ok:
                        self.text(i, j)
                        return self.tag(j, m, True)
                j += 1
            elif mode == 'escaped':
                if d[j:j + 3] == b"-->": mode = 'plain'; j += 3; continue
                if c == 0x2d:
                    # a run of dashes followed by '>' closes the escape
                    e = j
                    while e < n and d[e] == 0x2d: e += 1
                    if e - j >= 2 and e < n and d[e] == 0x3e: mode = 'plain'; j = e + 1; continue
                    j = e if e > j else j + 1; continue
                if d[j:j + 2] == b"</":
                    ok, m, e = end_tag_at(j)
                    if ok:
                        self.text(i, j)
                        return self.tag(j, m, True)
                    j += 2; continue
                if c == 0x3c and j + 1 < n and is_alpha(d[j + 1]):
                    e = j + 1
                    while e < n and is_alpha(d[e]): e += 1
                    if lower(d[j + 1:e]) == b"script" and e < n and (d[e] in WS or d[e] in b"/>"): mode = 'double'; j = e + 1; continue
                    j = e; continue
                j += 1
            else:  # double escaped
                if c == 0x2d:
                    e = j
                    while e < n and d[e] == 0x2d: e += 1
                    if e - j >= 2 and e < n and d[e] == 0x3e: mode = 'plain'; j = e + 1; continue
                    j = e; continue
                if d[j:j + 2] == b"</":
                    e = j + 2
                    while e < n and is_alpha(d[e]): e += 1
                    if lower(d[j + 2:e]) == b"script" and e < n and (d[e] in WS or d[e] in b"/>"): mode = 'escaped'; j = e + 1; continue
                    j = e if e > j + 2 else j + 2; continue
                j += 1
        self.text(i, n); return n

VOID = set(b"area base basefont bgsound br col embed hr img input keygen link meta param source track wbr".split())

def tokenize(data):
    return Ref(data).run()
def analyse(data):
    r = Ref(data); toks = r.run(); return toks, r
