#!/bin/bash
# apply a seeded mutation to /repo, run the given checks, undo.  usage: test_seed.sh <seed-id> <check-id>...
seed=$1; shift
git -C /repo apply /verif/seeded/$seed/patch.diff || { echo "cannot apply"; exit 2; }
for c in "$@"; do
  out=$(cd /verif && ./check $c quick 2>&1 | grep -E "VIOLATION|quick:|ERROR" | cut -c1-260)
  echo "seed=$seed check=$c :: $out"
done
git -C /repo checkout -- .
rm -f /verif/replays/*.json
