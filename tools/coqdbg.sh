#!/bin/bash
# usage: coqdbg.sh <file.v> <line>  -- compiles a copy truncated before <line> with "Show." appended (scratch only)
f=$1; n=$2
head -n $((n-1)) $f > /tmp/dbg_$$.v
echo "Show. " >> /tmp/dbg_$$.v
cd /verif/coq && coqc -Q gen LolGen -Q model LolModel -Q spec LolSpec -Q proofs LolProofs -Q props LolProps /tmp/dbg_$$.v 2>&1 | head -${3:-80}
rm -f /tmp/dbg_$$.*
