#!/usr/bin/env python3
"""Regenerates /verif/MANIFEST.json from tools/props.py (claimed properties) and the texts below."""
import json, sys, os
sys.path.insert(0, os.path.dirname(__file__))
import props

HOOK_COMMITS = ['9d61331']
ALL = ['C%02d' % i for i in range(1, 19)]

NOT_YET = {
 'C01': 'model and correspondence exist (tokenizer/dispatcher/stream), the tiling theorem is not finished yet; not claimed until a theorem decides it',
 'C02': 'schedule-independence theorem not yet proved; not claimed until it is',
 'C03': 'WHATWG list/guard theorems not yet written; tree builder is not formalised',
 'C04': 'selector compiler/VM model and CssSem spec not yet written',
 'C05': 'handler-dispatch model not yet written',
 'C06': 'scanner/lexer simulation theorem not yet proved',
 'C07': 'token/mutation/serialisation model not yet written',
 'C08': 'escaping theorems not yet written',
 'C09': 'latency theorems not yet written',
 'C10': 'limiter/arena invariants not yet proved',
 'C11': 'conservation theorem not yet proved',
 'C13': 'decoder model (UTF-8) not yet written; 34 of 36 codecs are external to any Gallina model',
 'C14': 'absolute-range theorems not yet proved',
 'C15': 'no-panic / fuel theorems not yet proved',
 'C16': 'attribute API model not yet written',
 'C17': 'C API wrapper model not yet written; allocator hygiene and unwinding are not expressible in an executable Gallina model',
 'C18': 'product/frame theorem not yet written; hardware thread interleavings are not expressible in an executable Gallina model',
}

def main():
    root = os.path.dirname(os.path.dirname(os.path.abspath(__file__)))
    claimed = [p for p in ALL if p in props.PROPS]
    m = {
     "version": 1,
     "setup_cmd": "./setup.sh",
     "hooks": {"guard": "_verif_hooks",
               "enable": "cargo feature: lol_html = { path = \"/repo\", features = [\"_integration_test\", \"_verif_hooks\"] } (harness/Cargo.toml)",
               "baseline_off_cmd": "cd /repo && cargo test --workspace --no-fail-fast --offline",
               "source_commits": HOOK_COMMITS, "add_only": True},
     "engines": [
       {"name": "coq-development", "path": "coq", "serves_properties": claimed,
        "kind_free_text": "Coq 8.16.1: executable Gallina model (coq/model), tables regenerated from /repo on every run (coq/gen), proofs (coq/proofs), property theorems (coq/props), extraction to OCaml (runner/)"},
       {"name": "translator", "path": "translator/translate.py", "serves_properties": claimed,
        "kind_free_text": "syntactic translator of the tokenizer DSL, tag tables, constants and global-state inventory into Coq"},
       {"name": "harness", "path": "harness", "serves_properties": claimed,
        "kind_free_text": "Rust harness linking /repo (features _integration_test,_verif_hooks); correspondence run against the extracted model; property oracles in tools/props.py"}],
     "checks": [],
     "not_applicable": [{"property_id": p, "reason": NOT_YET.get(p, 'not claimed')} for p in ALL if p not in claimed],
     "notes": "See DESIGN.md. Every check = ./check <id> <tier>: translate /repo -> build the Coq proofs of the property against the regenerated tables -> hygiene (no Admitted/Axiom; Print Assumptions closed) -> correspondence run extracted model vs implementation -> property oracle on the implementation (search for a failing input). known_findings.txt lists recorded deviations.",
    }
    for p in claimed:
        s = props.PROPS[p]
        m["checks"].append({
          "property_id": p,
          "quick_cmd": "./check %s quick" % p,
          "thorough_cmd": "./check %s thorough" % p,
          "evidence_file": "/verif/evidence/%s.json" % p,
          "replay_cmd_template": "./check %s --replay {path}" % p,
          "engine": "coq-development",
          "technique": s.get('technique', 'machine-checked proof in Coq over an executable model + checked model/code correspondence'),
          "level_claimed": {"category": "proof", "text": s['level_text'], "design_ref": s.get('design_ref', 'DESIGN.md section 5, ' + p)},
          "level_note": s['level_note'],
        })
    json.dump(m, open(os.path.join(root, 'MANIFEST.json'), 'w'), indent=1)
    print('manifest: claimed', claimed)

main()
