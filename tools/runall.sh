#!/bin/bash
# run every claimed check (quick) on the current tree; print the summary lines
cd /verif
for id in $(python3 -c "import json;print(' '.join(c['property_id'] for c in json.load(open('MANIFEST.json'))['checks']))"); do
  ./check $id ${1:-quick} 2>&1 | grep -E "VIOLATION|quick:|thorough:|ERROR" | cut -c1-200
done
python3 - <<'PY'
import json,glob
for f in sorted(glob.glob('/verif/evidence/*.json')):
    e=json.load(open(f)); c=e['coverage']
    if c['obligations']!=c['discharged'] or e['violations']: print('STALE/BAD evidence', f, c['obligations'], c['discharged'], e['violations'])
PY
