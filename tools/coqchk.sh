#!/bin/bash
# independent re-check of every compiled props file and everything it depends on (coqchk), with the axiom summary
cd /verif/coq && coqchk -silent -o -Q gen LolGen -Q model LolModel -Q spec LolSpec -Q proofs LolProofs -Q props LolProps \
  $(ls props/C*.v | sed 's#props/\(C[0-9]*\)\.v#LolProps.\1#') 2>&1 | tail -14
