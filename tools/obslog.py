"""Parsing, normalisation and per-property projections of observation logs (same format from the
Rust harness and from the extracted Coq model)."""
import re

def parse(path):
    cases, cur, call = {}, None, None
    order = []
    for line in open(path, errors='replace'):
        line = line.rstrip('\n')
        if line.startswith('C '):
            cur = {'id': line[2:], 'calls': [], 'extra': []}
            call = {'sink': [], 'events': [], 'res': None, 'usage': None}
        elif cur is None:
            continue
        elif line == '.':
            cases[cur['id']] = cur; order.append(cur['id']); cur = None
        elif line.startswith('S '):
            call['sink'].append(line[2:])
        elif line.startswith('E '):
            call['events'].append(line[2:])
        elif line.startswith('H '):
            # level-2 handler invocation: "H <kind> <idx> r=<results> a=<after> | <token>"
            head, _, tok = line[2:].partition(' | ')
            call['events'].append(tok if tok != '-' else 'X')
            call.setdefault('handlers', []).append(head)
        elif line.startswith('R '):
            _, k, res = line.split(' ', 2)
            call['res'] = res
            cur['calls'].append(call)
            call = {'sink': [], 'events': [], 'res': None, 'usage': None}
        elif line.startswith('X '):
            cur['extra'].append(line)
        elif line.startswith('U '):
            if cur['calls']:
                cur['calls'][-1]['usage'] = int(line.split(' ')[2])
        else:
            cur['extra'].append(line)
    return cases, order

def norm_res(r):
    if r is None: return None
    if r.startswith('panic:poisoned'): return 'panic:poisoned'
    if r.startswith('panic'): return 'panic'
    return r

def norm_sink(sink):
    """merge adjacent non-empty data chunks (fragmentation of data is not part of any property)"""
    out = []
    for s in sink:
        if s.startswith('c') and len(s) > 1 and out and out[-1].startswith('c') and len(out[-1]) > 1:
            out[-1] += s[1:]
        else:
            out.append(s)
    return out

def sink_bytes(sink):
    return ''.join(s[1:] for s in sink if s.startswith('c'))

_T = re.compile(r'^T (\d+)\.\.(\d+) (\w+) ([0-9a-f]*) (true|false)$')
def norm_events(events):
    """merge the chunks of one text node (fragmentation may vary); keep whether a last chunk was seen"""
    out = []
    for e in events:
        m = _T.match(e)
        if m:
            a, b, ty, hx, last = int(m.group(1)), int(m.group(2)), m.group(3), m.group(4), m.group(5) == 'true'
            if out and isinstance(out[-1], list) and out[-1][0] == 'T' and out[-1][3] == ty and out[-1][2] == a and not out[-1][5]:
                out[-1][2] = b; out[-1][4] += hx; out[-1][5] = last
            else:
                out.append(['T', a, b, ty, hx, last])
        else:
            out.append(e)
    return [tuple(x) if isinstance(x, list) else x for x in out]

def all_events(case):
    ev = []
    for c in case['calls']: ev += c['events']
    return norm_events(ev)

def strip_locs(ev):
    """events without source locations (for properties that are not about locations)"""
    out = []
    for e in ev:
        if isinstance(e, tuple): out.append(('T', e[3], e[4], e[5]))
        else:
            e2 = re.sub(r'^(\w) \d+\.\.\d+ ', r'\1 ', e)
            e2 = re.sub(r'@[0-9.\-]+/[0-9.\-]+', '', e2)
            out.append(e2)
    return out

# ---- projections: name -> function(case) -> comparable value ----
def p_results(case): return [norm_res(c['res']) for c in case['calls']]
def p_out_bytes(case):
    return (p_results(case), ''.join(sink_bytes(c['sink']) for c in case['calls']))
def p_sink_protocol(case):
    return [(norm_res(c['res']), norm_sink(c['sink'])) for c in case['calls']]
def p_events(case): return (p_results(case), all_events(case))
def p_events_noloc(case): return (p_results(case), strip_locs(all_events(case)))
def p_pending(case):
    tot, out = 0, []
    for c in case['calls']:
        tot += len(sink_bytes(c['sink'])) // 2
        out.append((norm_res(c['res']), tot))
    return out
def p_usage(case): return [(norm_res(c['res']), c['usage']) for c in case['calls']]
def p_handlers(case):
    """which handler ran on which token with which op results / post-state (text chunks not merged here:
    handler invocations are per chunk; fragmentation is identical on both sides for the same chunking)"""
    return [(norm_res(c['res']), list(zip(c.get('handlers', []), [e for e in c['events']]))) for c in case['calls']]
def p_full(case):
    return [(norm_res(c['res']), norm_sink(c['sink']), norm_events(c['events']), c.get('handlers', []), c['usage']) for c in case['calls']]

PROJECTIONS = {
    'results': p_results, 'out_bytes': p_out_bytes, 'sink_protocol': p_sink_protocol, 'events': p_events,
    'events_noloc': p_events_noloc, 'pending': p_pending, 'usage': p_usage, 'handlers': p_handlers, 'full': p_full,
}

def _capi_tok(t):
    """what the C API can observe of a token: no attribute locations, no text type, no force-quirks flag"""
    t = re.sub(r'@[0-9.\-?]+/[0-9.\-?]+', '', t)
    t = re.sub(r'^(T \d+\.\.\d+) \S+ ', r'\1 ? ', t)
    t = re.sub(r'^(D .*) \S+$', r'\1 ?', t)
    return t
def _capi_res(r):
    """through C every failure is a return code of -1 plus a message.  The message is mapped to the error kind by
    harness/src/capi.rs::classify (stopped / memory limit / ambiguity / use after a fatal error); the kind must be the
    one the Rust configuration reports.  A message of no known kind (e.g. a stale error of an earlier call) stays distinct."""
    if r is None or r == 'ok' or r == 'use-after-end': return r
    if r.startswith('panic:construct') or r.startswith('new'): return r
    if r.startswith('err:other'): return 'fail-other'
    return r
def p_capi(case):
    out = []
    for c in case['calls']:
        chunks = [x[1:] for x in c['sink'] if x.startswith('c')]
        out.append((_capi_res(norm_res(c['res'])), ''.join(chunks), [x == '' for x in chunks][-1:] , list(zip(c.get('handlers', []), [_capi_tok(e) for e in c['events']]))))
    return out
PROJECTIONS['capi'] = p_capi

def compare(impl_path, model_path, projections=None):
    A, order = parse(impl_path)
    B, _ = parse(model_path)
    res = {'cases': len(order), 'missing_in_model': [i for i in order if i not in B], 'diff': {}}
    for name in (projections or PROJECTIONS):
        f = PROJECTIONS[name]
        bad = []
        for i in order:
            if i in B and f(A[i]) != f(B[i]):
                bad.append(i)
        res['diff'][name] = bad
    return res, A, B
