import sys; sys.path.insert(0,'/verif/tools')
import obslog, oracles, props
name=sys.argv[1]; tags=sys.argv[2:]
f=getattr(oracles,'oracle_'+name,None) or getattr(props,'oracle_'+name)
cl=getattr(oracles,'classify_'+name,lambda *a: None)
for tag in tags:
    A,order=obslog.parse('/verif/build/%s.impl.log'%tag)
    lines={l.split(' ')[1]:l.rstrip('\n') for l in open('/verif/build/%s.cases'%tag) if l.strip()}
    stats={}; bad=[]
    for cid in order:
        for m in f(lines[cid],A[cid],stats,A,lines): bad.append((cid,m,cl(lines[cid],A[cid],m)))
    from collections import Counter
    print(tag,'cases',len(order),'fail',len(bad),stats, Counter(b[2] for b in bad))
    for cid,m,c in bad[:int(__import__('os').environ.get('SHOW','3'))]: print('   ',cid,c,m[:300]); 
