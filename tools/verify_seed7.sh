#!/bin/bash
# Confirm a seventh-round seeded change: usage verify_seed4.sh <id>   (worktree /tmp/seed3/<id>, stored as /verif/seeded/<id>-3)
id=$1; wt=/tmp/seed7/$id; out=/verif/seeded/$id-7
mkdir -p $out; export CARGO_NET_OFFLINE=true
cd $wt || exit 2
cp seed/patch.diff seed/meta.json $out/; rm -rf $out/demo; cp -r seed/demo $out/demo
git checkout -q -- src c-api/src 2>/dev/null; rm -f tests/seed_demo.rs; rm -rf c-api/seed_demo
git apply seed/patch.diff || { echo "PATCH DOES NOT APPLY" > $out/confirm.txt; cat $out/confirm.txt; exit 1; }
files=$(git status --short | grep -v "^??" | awk '{print $2}' | tr '\n' ' ')
suite=$(cargo test --workspace --no-fail-fast --offline 2>&1 | grep -E "^test result|FAILED" | tr '\n' ';')
suite_ok=$(echo "$suite" | grep -qE "FAILED|[1-9][0-9]* failed" && echo false || echo true)
if [ -d seed/demo/seed_demo ]; then
  cp -r seed/demo/seed_demo c-api/seed_demo
  with=$(cd c-api/seed_demo && cargo test --offline 2>&1 | grep -E "^test result" | tr '\n' ';')
  git apply -R seed/patch.diff
  without=$(cd c-api/seed_demo && cargo test --offline 2>&1 | grep -E "^test result" | tr '\n' ';')
  rm -rf c-api/seed_demo
else
  cp seed/demo/seed_demo.rs tests/
  with=$(cargo test --offline --test seed_demo 2>&1 | grep -E "^test result" | tr '\n' ';')
  git apply -R seed/patch.diff
  without=$(cargo test --offline --test seed_demo 2>&1 | grep -E "^test result" | tr '\n' ';')
  rm -f tests/seed_demo.rs
fi
cat > $out/confirm.txt <<EOT
confirmed_by: tools/verify_seed4.sh in scratch worktree $wt (base $(git rev-parse --short HEAD)); files changed by the patch: $files
suite_with_change: all_pass=$suite_ok   [$suite]
demo_with_change:   [$with]
demo_without_change:   [$without]
EOT
cat $out/confirm.txt
