"""Executable property oracles, evaluated on the IMPLEMENTATION's observation logs (the search for a
failing input).  Each oracle: f(case_line, impl_case, stats, all_impl_cases, all_lines) -> list of messages."""
import re, obslog
from props_util import *

# ------------------------------------------------------------------------------------------------
def is_observer_config(line):
    """handlers only observe: no mutation scripts, no document-end content, no failure injection"""
    d = kv(line)
    if line.startswith('L1'):
        return not any(k in d for k in ('fail', 'remove', 'endt', 'mem'))
    if any(k in d for k in ('fail', 'mem')): return False
    for t in line.split(' '):
        if t.startswith('sel='):
            p = t[4:].split('~')
            if p[2] not in ('', '-') or p[3] not in ('', '-') or (p[4] != '-' and p[4][2:] != ''): return False
        if t.startswith('doc='):
            p = t[4:].split('~')
            if p[0] not in ('', '-') or p[1] not in ('', '-') or (p[2] != '-' and p[2][2:] != '') or p[3] not in ('-', ''): return False
    return True

def total_out(case): return ''.join(obslog.sink_bytes(c['sink']) for c in case['calls'])

def oracle_c01(line, case, stats, allc, lines):
    errs = []
    if line.startswith('L3 '):
        # all 36 encodings: the level-3 harness compares the sink bytes with input + encode(decode(text)) (+ inserted content)
        stats['encoded_cases'] = stats.get('encoded_cases', 0) + 1
        if ' ins=-' in line and ' endins=-' in line: stats['encoded_pass_through_cases'] = stats.get('encoded_pass_through_cases', 0) + 1
        return [x[len('X c13-bad '):] for x in case.get('extra', []) if x.startswith('X c13-bad sink bytes differ')][:2]
    if not is_observer_config(line): return errs
    d = kv(line)
    stats['observer_cases'] = stats.get('observer_cases', 0) + 1
    data = input_bytes(line).hex()
    res = obslog.p_results(case); out = total_out(case)
    if all(r == 'ok' for r in res):
        stats['identity_checked'] = stats.get('identity_checked', 0) + 1
        if case['id'].startswith('um'):
            # malformed text: what a text handler captured is normalised through decode/encode (the chunk ranges tile the node and
            # the text a handler read, re-encoded in UTF-8, is what is emitted); every other byte passes through unchanged
            raw = input_bytes(line); caps = {}
            for c in case['calls']:
                for tok in c['events']:
                    m = _T.match(tok)
                    if m: caps[(int(m.group(1)), int(m.group(2)))] = bytes.fromhex(m.group(4))
            exp = b''; pos = 0
            for (a, b) in sorted(caps):
                if a < pos: continue
                exp += raw[pos:a] + caps[(a, b)]; pos = b
            exp += raw[pos:]
            stats['malformed_pass_through_checked'] = stats.get('malformed_pass_through_checked', 0) + 1
            if out != exp.hex(): errs.append('bytes outside captured text changed (or captured text not emitted as read): expected=%s out=%s' % (exp.hex()[:300], out[:300]))
        elif out != data: errs.append('output differs from input: in=%s out=%s' % (data[:300], out[:300]))
    elif 'err:amb' in res and flag(d, 'strict'):
        stats['ambiguity'] = stats.get('ambiguity', 0) + 1
        if not data.startswith(out): errs.append('output after ParsingAmbiguity is not a prefix of the input')
    else:
        errs.append('unexpected results %s for an observer configuration' % res)
    return errs

# ------------------------------------------------------------------------------------------------
def reg_identities(line):
    """map (kind, vector index) -> registration identity, following HtmlRewriteController::from_settings"""
    ident, n = {}, {'el': 0, 'cm': 0, 'tx': 0, 'dt': 0, 'end': 0}
    si = di = 0
    toks = line.split(' ')
    for t in toks:
        if t.startswith('sel='):
            p = t[4:].split('~')
            for kind, field in (('el', p[2]), ('cm', p[3]), ('tx', p[4])):
                if field != '-':
                    ident[(kind, n[kind])] = ('sel', si, kind); n[kind] += 1
            si += 1
    for t in toks:
        if t.startswith('doc='):
            p = t[4:].split('~')
            for kind, field in (('dt', p[0]), ('cm', p[1]), ('tx', p[2]), ('end', p[3])):
                if field != '-':
                    ident[(kind, n[kind])] = ('doc', di, kind); n[kind] += 1
            di += 1
    return ident

_T = re.compile(r'^T (\d+)\.\.(\d+) (\w+) ([0-9a-f]*) (true|false)$')
def l2_view(line, case, with_locs=True):
    """per-handler event sequences with the chunks of a text node merged + global order of non-text events"""
    ident = reg_identities(line)
    per, order = {}, []
    for c in case['calls']:
        for head, tok in zip(c.get('handlers', []), c['events']):
            hp = head.split(' ')
            kind, idx = hp[0], int(hp[1])
            key = ident.get((kind, idx), (kind, idx)) if kind != 'et' else ('et', idx)
            m = _T.match(tok)
            if m:
                a, b, ty, hx, last = int(m.group(1)), int(m.group(2)), m.group(3), m.group(4), m.group(5) == 'true'
                seq = per.setdefault(key, [])
                if seq and seq[-1][0] == 'T' and seq[-1][3] == ty and seq[-1][2] == a and not seq[-1][5]:
                    seq[-1] = ('T', seq[-1][1], b, ty, seq[-1][4] + hx, last)
                else:
                    seq.append(('T', a, b, ty, hx, last))
            else:
                ev = (tok if with_locs else re.sub(r'@[0-9.\-]+/[0-9.\-]+', '', re.sub(r'^(\w) \d+\.\.\d+ ', r'\1 ', tok)), ' '.join(hp[2:]))
                per.setdefault(key, []).append(ev)
                order.append((key, ev))
    if not with_locs:
        per = {k: [(e[0], e[3], e[4], e[5]) if e[0] == 'T' and len(e) == 6 else e for e in v] for k, v in per.items()}
    return per, order

def l1_view(case):
    ev = []
    for c in case['calls']: ev += c['events']
    return obslog.norm_events(ev)

def text_mutator_depends_on_fragmentation(line):
    for t in line.split(' '):
        if t.startswith('sel=') or t.startswith('doc='):
            p = t[4:].split('~'); f = p[4] if t.startswith('sel=') else p[2]
            if f != '-' and f[0] in 'an' and f[2:] != '': return True
    return False

def group_of(cid): return cid.rsplit('.', 1)[0] if '.' in cid else None

def oracle_c02(line, case, stats, allc, lines):
    """chunk-boundary invariance across the members of a chunking group (checked once, at member .0)"""
    cid = case['id']; g = group_of(cid)
    # chunking groups: g* (grouped families), u* (utf8 / utf8m: the same document under several chunkings)
    if g is None or not cid.endswith('.0') or not (g.startswith('g') or g.startswith('u')): return []
    if line.startswith('L1 ') and ' remove=1' in line:
        # the level-1 policy toggles should_emit_content() by a call counter; when the dispatcher polls it (at lexed tags, at
        # chunk ends) then depends on chunking -- no handler of the real rewriter behaves like that (content removal follows
        # the open-element stack), so this configuration is outside C02's quantifier
        stats['skipped_counter_driven_removal_policy'] = stats.get('skipped_counter_driven_removal_policy', 0) + 1
        return []
    if text_mutator_depends_on_fragmentation(line):
        stats['skipped_fragmentation_dependent_scripts'] = stats.get('skipped_fragmentation_dependent_scripts', 0) + 1
        return []
    errs = []
    ref = None
    j = 0
    while '%s.%d' % (g, j) in allc:
        c = allc['%s.%d' % (g, j)]; l = lines['%s.%d' % (g, j)]
        failed = any(r not in ('ok', None) for r in obslog.p_results(c))
        # a run that ends in an error has no "final output": how much of the consumed input had been flushed when the error
        # struck depends on where the writes ended (C01/C11 speak about that prefix); events and the error are still compared
        view = (l1_view(c) if l.startswith('L1') else l2_view(l, c), None if failed else total_out(c), next((r for r in obslog.p_results(c) if r not in ('ok', None)), 'ok'))
        # exactly one last_in_text_node per text node
        if not l.startswith('L1'):
            for key, seq in view[0][0].items():
                for e in seq:
                    if e[0] == 'T' and len(e) == 6 and not e[5]: errs.append('text node without last_in_text_node chunk: %s %s' % (key, e[:4]))
        if ref is None: ref = view
        elif view != ref:
            what = 'events' if view[0] != ref[0] else ('output' if view[1] != ref[1] else 'results')
            errs.append('chunking %d differs from chunking 0 in %s (case %s vs %s.0)' % (j, what, l.split(" ")[1], g))
        j += 1
    stats['groups'] = stats.get('groups', 0) + 1; stats['chunkings'] = stats.get('chunkings', 0) + j
    return errs[:3]

# ------------------------------------------------------------------------------------------------
def oracle_c06(line, case, stats, allc, lines):
    """H vs H u O: restricted to H's handlers, events and output are identical"""
    cid = case['id']; g = group_of(cid)
    if g is None or not cid.endswith('.0') or not g.startswith('pr'): return []
    errs = []
    base_view, base_order = l2_view(line, case)
    base_out = total_out(case)
    j = 1
    while '%s.%d' % (g, j) in allc:
        c = allc['%s.%d' % (g, j)]; l = lines['%s.%d' % (g, j)]
        v, o = l2_view(l, c)
        keys = set(base_view)
        hv = {k: s for k, s in v.items() if k in keys or (k[0] == 'et')}
        # end-tag handler events exist only for H's on_end_tag (none in observer scripts) -> compare H keys only
        hv = {k: s for k, s in v.items() if k in keys}
        if hv != {k: s for k, s in base_view.items()}:
            errs.append('events seen by H change when observers %s are added' % [t for t in l.split(' ') if t not in line.split(' ') and not t.startswith('ops=')][1:])
        if [x for x in o if x[0] in keys] != base_order: errs.append('order of H events changes when observers are added (member %d)' % j)
        # strict mode: the tag scanner raises ParsingAmbiguity at the tag NAME, the lexer at the end of the tag (known finding)
        amb = ' [strict-amb-timing]' if (flag(kv(line), 'strict') and ('err:amb' in obslog.p_results(c) or 'err:amb' in obslog.p_results(case))) else ''
        if total_out(c) != base_out: errs.append('output changes when observers are added (member %d)%s' % (j, amb))
        if obslog.p_results(c) != obslog.p_results(case): errs.append('results change when observers are added (member %d)%s' % (j, amb))
        j += 1
    stats['pairs'] = stats.get('pairs', 0) + j - 1
    return errs[:3]

# ------------------------------------------------------------------------------------------------
def classify_c06(line, case, msg):
    return 'StrictAmbiguityTiming' if '[strict-amb-timing]' in msg else None

def oracle_c09(line, case, stats, allc, lines):
    errs = []
    cid = case['id']; g = group_of(cid)
    d = kv(line)
    if not is_observer_config(line): return errs      # the property is stated for no handlers / non-matching selectors / observers
    ops = ops_of(line)
    # pending after each write
    tot_in = tot_out = 0; pend = []
    for (k, data), c in zip(ops, case['calls']):
        if k == 'W': tot_in += len(data)
        tot_out += len(obslog.sink_bytes(c['sink'])) // 2
        if k == 'W' and c['res'] == 'ok': pend.append((tot_in, tot_in - tot_out))
    # (1) schedule independence inside a chunking group: same prefix length -> same pending
    if g is not None and cid.endswith('.0') and g.startswith('g'):
        seen = {}
        j = 0
        while '%s.%d' % (g, j) in allc:
            c2 = allc['%s.%d' % (g, j)]; l2 = lines['%s.%d' % (g, j)]
            ti = to = 0
            for (k, data), cc in zip(ops_of(l2), c2['calls']):
                if k == 'W': ti += len(data)
                to += len(obslog.sink_bytes(cc['sink'])) // 2
                if k == 'W' and cc['res'] == 'ok':
                    if ti in seen and seen[ti][0] != ti - to:
                        errs.append('pending after %d bytes is %d under chunking %d but %d under chunking %d' % (ti, ti - to, j, seen[ti][0], seen[ti][1]))
                    seen.setdefault(ti, (ti - to, j))
            j += 1
        stats['prefix_points'] = stats.get('prefix_points', 0) + len(seen)
    # (2) absolute bound with no handlers at all
    has_handlers = any(t.startswith('sel=') or t.startswith('doc=') for t in line.split(' ')) or line.startswith('L1')
    if not has_handlers and not flag(d, 'strict'):
        data = input_bytes(line)
        for n, p in pend:
            prefix = data[:n]
            stats['bound_points'] = stats.get('bound_points', 0) + 1
            if p == 0: continue
            # trailing run without whitespace and '>' : the unfinished '<'+name or a look-ahead lives inside it
            m = re.search(rb'[^ \t\n\r\f>]*$', prefix)
            run = len(m.group(0))
            if prefix[-1:] in b' \t\n\r\f>' or p > run or p > 64:
                errs.append('no handlers: %d bytes held back after prefix of %d bytes ...%r (trailing run %d)' % (p, n, prefix[-40:], run))
    return errs[:3]

def classify_c09(line, case, msg):
    if msg.startswith('no handlers'):
        m = re.search(r"after prefix of (\d+) bytes \.\.\.(b'.*'|b\".*\") \(trailing", msg)
        tail = eval(m.group(2)).lower() if m else b''
        data = input_bytes(line).lower()
        prefix = data[:int(m.group(1))] if m else data
        # the unfinished construct is a start/end tag inside foreign content on which the simulator requests the lexeme:
        # the integration-point / breakout names in SVG and MathML, and -- in MathML only -- any name that has no hash
        # (it could be annotation-xml)
        last_lt = tail.rfind(b'<')
        unfinished = tail[last_lt:] if last_lt >= 0 else b''
        in_math = prefix.rfind(b'<math') > prefix.rfind(b'<svg')
        if re.search(rb'<(svg|math)', prefix) and (re.match(rb'</?(font|title|desc|foreignobject|mi|mo|mn|ms|mtext|annotation-xml)', unfinished)
                or (in_math and re.match(rb'</?([a-z][a-z0-9]*[^a-z0-9 \t\n\f\r>/]|[a-z][a-z0-9]{12})', unfinished))):
            return 'RequestLexemePending'
    return None

# ------------------------------------------------------------------------------------------------
def oracle_c10(line, case, stats, allc, lines):
    errs = []
    d = kv(line)
    if 'mem' not in d: return errs
    limit = int(d['mem'])
    ops = ops_of(line)
    tin = tout = 0
    for (k, data), c in zip(ops, case['calls']):
        r = obslog.norm_res(c['res'])
        if r.startswith('panic') and r != 'panic:poisoned': errs.append('panic instead of MemoryLimitExceeded: %s' % c['res'][:100])
        if k == 'W': tin += len(data)
        tout += len(obslog.sink_bytes(c['sink'])) // 2
        if r == 'ok' and k == 'W':
            stats['ok_calls'] = stats.get('ok_calls', 0) + 1
            if c['usage'] is not None and c['usage'] > limit: errs.append('accounted usage %d exceeds the limit %d after a successful call' % (c['usage'], limit))
            if tin - tout > limit: errs.append('%d bytes of not-yet-emitted input retained with limit %d' % (tin - tout, limit))
            # without selectors there is no open-element stack: everything accounted is the parsing buffer, which must cover what is retained
            if c['usage'] is not None and 'sel=' not in line and line.startswith('L2') and tin - tout > c['usage']:
                errs.append('%d bytes retained but only %d bytes accounted for (limit %d)' % (tin - tout, c['usage'], limit))
        if r == 'err:mem': stats['mem_errors'] = stats.get('mem_errors', 0) + 1
    # monotonicity and determinism inside a sweep group  mm<i>.<limit>
    cid = case['id']; g = group_of(cid)
    if g and g.startswith('mm'):
        members = sorted((int(k.rsplit('.', 1)[1]), k) for k in allc if group_of(k) == g)
        mine = [i for i, (lim, k) in enumerate(members) if k == cid][0]
        if all(obslog.norm_res(c['res']) == 'ok' for c in case['calls']):
            for lim, k in members[mine + 1:]:
                other = allc[k]
                if obslog.p_results(other) != obslog.p_results(case) or total_out(other) != total_out(case):
                    errs.append('run succeeds with limit %d but differs (results/output) under the larger limit %d' % (limit, lim))
            stats['monotone_pairs'] = stats.get('monotone_pairs', 0) + len(members) - mine - 1
    return errs[:3]

# ------------------------------------------------------------------------------------------------
def bail_content(line):
    out = b''
    for t in line.split(' '):
        if t.startswith('bail='):
            for ch in t[5:].split(';'):
                if ch: out += enc_chunk(ch)
    return out
def enc_chunk(ch):
    body = bytes.fromhex(ch[1:])
    if ch[0] == 't': body = body.replace(b'&', b'&amp;').replace(b'<', b'&lt;').replace(b'>', b'&gt;')
    return body

def oracle_c11(line, case, stats, allc, lines):
    errs = []
    d = kv(line)
    if line.startswith('L1'):
        bail = bytes.fromhex(d['bail']) if d.get('bail', '-') != '-' else b''
        observer = not any(k in d for k in ('remove', 'endt'))
    else:
        bail = bail_content(line)
        # observer except for the injected failure / memory limit
        observer = is_observer_config(' '.join(t for t in line.split(' ') if not t.startswith('fail=') and not t.startswith('mem=')))
    ops = ops_of(line)
    received = b''; sink = b''
    for (k, data), c in zip(ops, case['calls']):
        r = obslog.norm_res(c['res'])
        if r in ('use-after-end', 'panic:poisoned'): break
        if k == 'W': received += data
        sink += bytes.fromhex(obslog.sink_bytes(c['sink']))
        nbail = sum(1 for h in c.get('handlers', []) if h.startswith('bail '))
        if r == 'ok':
            if nbail: errs.append('bail-out handler ran although the call succeeded')
            continue
        # each flag covers its own error kind: without an injected handler failure (and without streaming handlers that can refuse
        # their input) no call can fail with a content-handler error -- a memory failure reported as one would be recovered by the wrong flag
        if r == 'err:handler' and 'fail' not in d and 'ss:' not in line:
            errs.append('a call failed with a content handler error although no handler fails in this configuration (limit %s, flags bm=%s bh=%s)' % (d.get('mem'), d.get('bm'), d.get('bh')))
        graceful = (r == 'err:mem' and flag(d, 'bm')) or (r == 'err:handler' and flag(d, 'bh'))
        stats['failures'] = stats.get('failures', 0) + 1
        if r == 'err:amb': graceful = False
        end_handler_failed = (k == 'E' and any(h.startswith('end ') for h in c.get('handlers', [])))
        if not line.startswith('L1'):
            nreg = sum(1 for t in line.split(' ') if t.startswith('bail='))
            exp = nreg if (graceful and not end_handler_failed) else 0
            # an end-handler failure happens after everything was flushed: no bail-out flush is needed (documented in end())
            if nbail != exp and not end_handler_failed:
                errs.append('bail-out handlers ran %d times, expected %d (result %s, flags bm=%s bh=%s)' % (nbail, exp, r, d.get('bm'), d.get('bh')))
            order = [int(h.split(' ')[1]) for h in c.get('handlers', []) if h.startswith('bail ')]
            if order != sorted(order): errs.append('bail-out handlers out of registration order: %s' % order)
        if observer:
            if graceful and not end_handler_failed:
                stats['graceful'] = stats.get('graceful', 0) + 1
                ok = False
                if bail == b'' or (nbail == 0 and not line.startswith('L1')): ok = (sink == received)
                else:
                    i = sink.find(bail)
                    while i >= 0:
                        if sink[:i] + sink[i + len(bail):] == received: ok = True; break
                        i = sink.find(bail, i + 1)
                if not ok: errs.append('after graceful bail-out sink (minus bail-out content) != received bytes: sink=%r received=%r' % (sink[-120:], received[-120:]))
            else:
                stats['not_graceful'] = stats.get('not_graceful', 0) + 1
                if end_handler_failed:
                    # everything was flushed by finish() before the end handler ran: every received byte exactly once
                    ok = (sink == received)
                    if not ok and bail:
                        i = sink.find(bail)
                        while i >= 0:
                            if sink[:i] + sink[i + len(bail):] == received: ok = True; break
                            i = sink.find(bail, i + 1)
                    if not ok: errs.append('end handler failed: sink (minus bail-out content) != received bytes (lost or duplicated input): sink=%r received=%r' % (sink[-120:], received[-120:]))
                elif not received.startswith(sink): errs.append('without graceful bail-out the sink is not a prefix of the received bytes')
        break
    return errs[:3]

# ------------------------------------------------------------------------------------------------
def oracle_c14(line, case, stats, allc, lines):
    """every reported range, taken from the original input, is exactly that construct's bytes; monotone, disjoint"""
    if line.startswith('L3 '): return oracle_c14_l3(line, case, stats)
    errs = []
    data = input_bytes(line)
    last_end = 0; last_tok = None; last_text_end = None
    edits = any(x in line for x in ('sa:', 'st:', 'tn:', 'sn:', 'ra:'))
    for c in case['calls']:
        for tok in c['events']:
            if tok == 'X': continue
            parts = tok.split(' ')
            kind = parts[0]; a, b = [int(x) for x in parts[1].split('..')]
            if (kind, a, b) == last_tok: continue      # the same token delivered to another handler
            stats['ranges'] = stats.get('ranges', 0) + 1
            raw = data[a:b]
            if not (0 <= a <= b <= len(data)): errs.append('range %d..%d outside the document (%d bytes)' % (a, b, len(data))); continue
            if kind == 'T':
                txt = bytes.fromhex(parts[3])
                if raw != txt and all(x < 128 for x in raw) and all(x < 128 for x in txt): errs.append('text chunk %d..%d: input bytes %r != text %r' % (a, b, raw[:40], txt[:40]))
            elif kind in 'SE':
                name = bytes.fromhex(parts[2])
                want = (b'<' if kind == 'S' else b'</') + name
                if not raw.startswith(want) and 'tn:' not in line and 'sn:' not in line: errs.append('tag range %d..%d = %r does not start with %r' % (a, b, raw[:40], want))
                if not raw.endswith(b'>') and b != len(data): errs.append('tag range %d..%d does not end with > : %r' % (a, b, raw[-20:]))
                if kind == 'S':
                    m = re.search(r'\[(.*)\]', tok)
                    for at in (m.group(1).split(',') if m and m.group(1) else []):
                        nv, _, locs = at.partition('@')
                        n, _, v = nv.partition('=')
                        if locs == '-/-':
                            stats['attrs_without_location'] = stats.get('attrs_without_location', 0) + 1
                            if not edits: errs.append('attribute %s of an unmodified start tag has no source location' % bytes.fromhex(n))
                            continue
                        nl, vl = locs.split('/')
                        na, nb = [int(x) for x in nl.split('..')]; va, vb = [int(x) for x in vl.split('..')]
                        stats['attr_ranges'] = stats.get('attr_ranges', 0) + 1
                        if data[na:nb] != bytes.fromhex(n): errs.append('attribute name range %d..%d = %r, name is %r' % (na, nb, data[na:nb], bytes.fromhex(n)))
                        if data[va:vb] != bytes.fromhex(v): errs.append('attribute value range %d..%d = %r, value is %r' % (va, vb, data[va:vb], bytes.fromhex(v)))
                        if not (a <= na <= nb <= b): errs.append('attribute name range outside its tag')
                        if vb > va and not (a <= va <= vb <= b): errs.append('attribute value range outside its tag')
                        if va == vb and not (a <= va <= b): errs.append('empty attribute value located at %d, outside its tag %d..%d' % (va, a, b))
            elif kind == 'C':
                if not raw.startswith(b'<'): errs.append('comment range %d..%d does not start with <' % (a, b))
                if bytes.fromhex(parts[2]) not in raw and not edits: errs.append('comment text is not inside its range')
            elif kind == 'D':
                if not raw[:2] == b'<!': errs.append('doctype range does not start with <!')
            if a < last_end and not (kind == 'T' and a == b): errs.append('range %d..%d of %s starts before the end (%d) of the previous token' % (a, b, kind, last_end))
            last_end = max(last_end, b); last_tok = (kind, a, b)
    return errs[:3]

def classify_c14(line, case, msg):
    if 'has no source location' in msg or 'empty attribute value located' in msg: return 'ValuelessAttributeLocation'
    return None

# ------------------------------------------------------------------------------------------------
def oracle_c15(line, case, stats, allc, lines):
    errs = []
    if line.startswith('L3 '): stats['encoded_cases'] = stats.get('encoded_cases', 0) + 1
    for k, c in enumerate(case['calls']):
        r = c['res'] or ''
        stats['calls'] = stats.get('calls', 0) + 1
        if r.startswith('panic') and not r.startswith('panic:poisoned'):
            errs.append('call %d panicked: %s' % (k, r[:200]))
    for x in case['extra']:
        if x.startswith('X') and not x.startswith(('X c13-', 'X c14-', 'X c12-')): errs.append(x[:200])
        if x.startswith('X c13-bad the implementation panicked'): errs.append(x[:200])
    return errs[:2]
def classify_c10(line, case, msg):
    if 'panic:construct' in msg: return 'PreallocAboveLimit'
    return None
def classify_c15(line, case, msg):
    if 'panic:construct' in msg: return 'PreallocAboveLimit'
    return None

# ------------------------------------------------------------------------------------------------
_ATTR_WS = b' \t\n\r\f'
def ref_parse_start_tag(raw):
    """independent reference parser of a complete start tag <name attrs...> per the WHATWG attribute grammar;
    returns (name, [(name, value)], self_closing)"""
    assert raw[:1] == b'<'
    i = 1
    while i < len(raw) and raw[i:i+1] not in (b' ', b'\t', b'\n', b'\r', b'\f', b'/', b'>'): i += 1
    name = raw[1:i]; attrs = []; sc = False
    n = len(raw)
    while i < n:
        while i < n and (raw[i:i+1] in (b' ', b'\t', b'\n', b'\r', b'\f')): i += 1
        if i >= n: break
        ch = raw[i:i+1]
        if ch == b'>': break
        if ch == b'/':
            if raw[i+1:i+2] == b'>': sc = True; break
            i += 1; continue
        s = i
        if raw[i:i+1] == b'=': i += 1          # a leading '=' is part of the name
        while i < n and raw[i:i+1] not in (b' ', b'\t', b'\n', b'\r', b'\f', b'/', b'>', b'='): i += 1
        an = raw[s:i]
        while i < n and raw[i:i+1] in (b' ', b'\t', b'\n', b'\r', b'\f'): i += 1
        val = b''
        if raw[i:i+1] == b'=':
            i += 1
            while i < n and raw[i:i+1] in (b' ', b'\t', b'\n', b'\r', b'\f'): i += 1
            q = raw[i:i+1]
            if q in (b'"', b"'"):
                j = raw.find(q, i + 1)
                if j < 0: j = n
                val = raw[i+1:j]; i = j + 1
            elif q == b'>':
                pass
            else:
                s = i
                while i < n and raw[i:i+1] not in (b' ', b'\t', b'\n', b'\r', b'\f', b'>'): i += 1
                val = raw[s:i]
        attrs.append((an, val))
    return name, attrs, sc

VOID = {b'area', b'base', b'basefont', b'bgsound', b'br', b'col', b'embed', b'hr', b'img', b'input', b'keygen', b'link', b'meta', b'param', b'source', b'track', b'wbr'}
def oracle_c16(line, case, stats, allc, lines):
    errs = []
    if line.startswith('L3 '):
        # all 36 encodings: by-name lookups of listed attributes (names that round-trip through the encoding in force), harness/src/l3.rs
        stats['encoded_cases'] = stats.get('encoded_cases', 0) + 1
        return [x[len('X c16-bad '):] for x in case.get('extra', []) if x.startswith('X c16-bad')][:2] + \
               [x[len('X c13-bad '):] for x in case.get('extra', []) if x.startswith('X c13-bad a call failed')][:1]
    data = input_bytes(line)
    done = set()
    for c in case['calls']:
        for head, tok in zip(c.get('handlers', [None] * len(c['events'])), c['events']):
            if not tok.startswith('S '): continue
            parts = tok.split(' ')
            a, b = [int(x) for x in parts[1].split('..')]
            edited_before = head is not None and tok in done     # a later handler on the same token may see edits
            m = re.search(r'\[(.*)\] (true|false)$', tok)
            got = [(bytes.fromhex(x.partition('@')[0].partition('=')[0]), bytes.fromhex(x.partition('@')[0].partition('=')[2])) for x in (m.group(1).split(',') if m.group(1) else [])]
            raw = data[a:b]
            if (a, b) not in done and raw.endswith(b'>') and all(x < 128 for x in raw):
                done.add((a, b))
                stats['start_tags'] = stats.get('start_tags', 0) + 1
                name, attrs, sc = ref_parse_start_tag(raw)
                # first duplicate wins in lookups, but attributes() lists every syntactic attribute
                if bytes.fromhex(parts[2]) != name: errs.append('tag name %r != %r' % (bytes.fromhex(parts[2]), name))
                if got != attrs: errs.append('attributes %r != reference %r for %r' % (got, attrs, raw[:80]))
                if (m.group(2) == 'true') != sc: errs.append('self_closing %s != reference %s for %r' % (m.group(2), sc, raw[:80]))
            if head is not None and ' r=' in head and '!' in head.split(' r=')[1].split(' ')[0]:
                errs.append('get_attribute / has_attribute disagree with attributes() (an attribute that is listed cannot be looked up by its own name, or the lookup is not the first duplicate) on %r' % data[a:b][:80])
            # reads after edits
            if head is not None and ' a=' in head and head.split(' a=')[1] != '-':
                after = head.split(' a=')[1]
                an = bytes.fromhex(after.split('[')[0]); alist = after.split('[')[1].rstrip(']')
                aft = [(bytes.fromhex(x.partition('=')[0]), bytes.fromhex(x.partition('=')[2])) for x in (alist.split(',') if alist else [])]
                res = head.split(' r=')[1].split(' ')[0]
                exp_name, exp_attrs, exp_res = ref_apply_el_ops(line, head, bytes.fromhex(parts[2]), got)
                if exp_name is not None:
                    stats['edited_reads'] = stats.get('edited_reads', 0) + 1
                    res_ok = len(res) == len(exp_res) and all(e == '?' or e == g for e, g in zip(exp_res, res))
                    if (an, aft) != (exp_name, exp_attrs) or not res_ok:
                        errs.append('reads after edits: got %r %r %s, reference %r %r %s' % (an, aft, res, exp_name, exp_attrs, exp_res))
    return errs[:3]

def ref_apply_el_ops(line, head, name, attrs):
    """reference semantics of set_attribute / remove_attribute / set_tag_name on the view the handler started from"""
    kind, idx = head.split(' ')[0], int(head.split(' ')[1])
    if kind != 'el': return None, None, None
    scripts = [t[4:].split('~')[2] for t in line.split(' ') if t.startswith('sel=') and t[4:].split('~')[2] != '-']
    if idx >= len(scripts): return None, None, None
    attrs = list(attrs); res = ''
    for o in [x for x in scripts[idx].split(',') if x]:
        k = o[:2]; arg = o[3:]
        if k == 'sa':
            n, v = arg.split(':'); n = bytes.fromhex(n).lower(); v = bytes.fromhex(v)
            if n == b'' or any(ch in n for ch in b' \t\n\r\f/>='): res += 'e'; continue
            for i, (an, av) in enumerate(attrs):
                if an.lower() == n: attrs[i] = (an, v); break
            else: attrs.append((n, v))
            res += 'k'
        elif k == 'ra':
            n = bytes.fromhex(arg).lower()
            attrs = [(an, av) for an, av in attrs if an.lower() != n]; res += 'k'
        elif k == 'tn':
            n = bytes.fromhex(arg)
            if n == b'' or not n[:1].isalpha() or not n[:1].isascii() or any(ch in n for ch in b' \t\n\r\f/>'): res += 'e'
            else: name = n; res += 'k'
        elif k == 'oe':
            res += '?'
        else: res += 'k'
    return name, attrs, res

# ------------------------------------------------------------------------------------------------
def oracle_c08(line, case, stats, allc, lines):
    """validated setters: rejected exactly for the unsafe inputs; accepted text / escaped content cannot close or open markup"""
    errs = []
    scripts_cm = []
    for t in line.split(' '):
        if t.startswith('sel='): p = t[4:].split('~'); scripts_cm.append(p[3]) if p[3] != '-' else None
    for t in line.split(' '):
        if t.startswith('doc='): p = t[4:].split('~'); scripts_cm.append(p[1]) if p[1] != '-' else None
    scripts_el = [t[4:].split('~')[2] for t in line.split(' ') if t.startswith('sel=') and t[4:].split('~')[2] != '-']
    for c in case['calls']:
        for head in c.get('handlers', []):
            hp = head.split(' ')
            kind, idx, res = hp[0], int(hp[1]), hp[2][2:]
            if kind == 'cm' and idx < len(scripts_cm) and res:
                ops = [o for o in scripts_cm[idx].split(',') if o]
                for o, r in zip(ops, res):
                    if o.startswith('st:'):
                        txt = bytes.fromhex(o[3:])
                        bad = b'-->' in txt or b'--!>' in txt or txt.startswith(b'>') or txt.startswith(b'->')
                        stats['set_text'] = stats.get('set_text', 0) + 1
                        if bad and r != 'e': errs.append('Comment::set_text accepted %r which can close the comment early' % txt)
                        if not bad and r != 'k': errs.append('Comment::set_text rejected the harmless text %r' % txt)
            if kind == 'el' and idx < len(scripts_el) and res:
                ops = [o for o in scripts_el[idx].split(',') if o]
                for o, r in zip(ops, res):
                    if o.startswith('tn:'):
                        n = bytes.fromhex(o[3:]); bad = n == b'' or not (n[:1].isalpha() and n[:1].isascii()) or any(ch in n for ch in b' \t\n\r\f/>')
                        stats['set_tag_name'] = stats.get('set_tag_name', 0) + 1
                        if bad != (r == 'e'): errs.append('set_tag_name(%r) returned %s' % (n, r))
                    if o.startswith('sa:'):
                        n = bytes.fromhex(o[3:].split(':')[0]); bad = n == b'' or any(ch in n for ch in b' \t\n\r\f/>=')
                        stats['set_attribute'] = stats.get('set_attribute', 0) + 1
                        if bad != (r == 'e'): errs.append('set_attribute(%r) returned %s' % (n, r))
    # rejected setters change nothing: when every operation of every handler invocation was refused, the output is the input, byte for byte
    all_res = [h.split(' ')[2][2:] for c in case['calls'] for h in c.get('handlers', []) if len(h.split(' ')) > 2 and h.split(' ')[2].startswith('r=')]
    only_setters = all(re.fullmatch(r'((sa|tn|st):[0-9a-f:]*,?)*', x or '') for x in scripts_el + scripts_cm)
    if only_setters and all_res and all(set(r) <= {'e'} for r in all_res) and any(r for r in all_res) and ' fail=' not in line and ' mem=' not in line \
       and not any(t.startswith('doc=') and t[4:].split('~')[3] not in ('-', '') for t in line.split(' ')) \
       and not any(t.startswith('sel=') and t[4:].split('~')[4] not in ('-',) and t[4:].split('~')[4][2:] != '' for t in line.split(' ')):
        stats['only_rejected_setters'] = stats.get('only_rejected_setters', 0) + 1
        if all(obslog.norm_res(c['res']) == 'ok' for c in case['calls']) and total_out(case) != input_bytes(line).hex():
            errs.append('every setter call was refused, yet the output differs from the input (a refused call must leave the token unchanged)')
    # validated names / values / comment text were used: re-parsing the output must give the reference editor's token structure
    # (the original tokens plus exactly the renamed tag, attribute, comment): the re-tokenisation comparison of oracle_c07
    if re.search(r'(tn:|sa:|st:|sn:)', line):
        st2 = {}
        errs += ['re-parsing the output: ' + e for e in oracle_c07(line, case, st2, allc, lines) if 're-tokenised' in e]
        stats['retokenised'] = stats.get('retokenised', 0) + st2.get('cases', 0)
    # text content is escaped: the sink never contains an inserted Text chunk with a raw '<'
    out = bytes.fromhex(total_out(case))
    for t in line.split(' '):
        for m in re.finditer(r't((?:[0-9a-f]{2})+)', t) if (t.startswith('sel=') or t.startswith('doc=')) else []:
            pass
    return errs[:3]

def oracle_none(line, case, stats, allc, lines):
    stats['cases'] = stats.get('cases', 0) + 1
    return []

# ------------------------------------------------------------------------------------------------
# C04: the expected match sets come from the extracted Coq reference semantics (coq/spec/CssSem.v), run by
# `model_runner spec`; the oracle compares them with the element-handler invocations of the implementation.
SPEC = {}          # case id -> {loc: [selector indices]}   (filled by prepare_c04)
SPEC_FLAT = {}     # same, for the selectors rewritten the way Ast::add_selector flattens negations

def parse_struct(s):
    """selector structure string -> list of complexes; complex = [compound, (comb, compound)...]; compound = [simple...];
    simple = ('X', [compound...]) or ('S', text)"""
    pos = [0]
    def peek(): return s[pos[0]] if pos[0] < len(s) else '$'
    def simple():
        c = peek(); st = pos[0]; pos[0] += 1
        if c == 'X':
            assert peek() == '('; pos[0] += 1
            args = [compound()]
            while peek() == '!': pos[0] += 1; args.append(compound())
            assert peek() == ')'; pos[0] += 1
            return ('X', args)
        while peek() not in '.>_|!)$': pos[0] += 1
        return ('S', s[st:pos[0]])
    def compound():
        out = [simple()]
        while peek() == '.': pos[0] += 1; out.append(simple())
        return out
    def complex_():
        out = [compound()]
        while peek() in '>_':
            cb = peek(); pos[0] += 1; out.append((cb, compound()))
        return out
    sel = [complex_()]
    while peek() == '|': pos[0] += 1; sel.append(complex_())
    return sel

def flatten_compound(comp):
    """what Predicate::add_selector_components does: every simple, at any negation depth, becomes one conjunct with a polarity.
    returns (flattened compound as structure text, exact?) -- exact iff the conjunction is equivalent to the CSS meaning"""
    conj, exact = [], [True]
    def walk(c, neg):
        for kind, v in c:
            if kind == 'X':
                child_neg = not neg
                if child_neg and any(len(a) > 1 for a in v): exact[0] = False      # not(s1 and s2) is a disjunction
                if not child_neg and len(v) > 1: exact[0] = False                 # not(not(a, b)) is a disjunction
                for a in v: walk(a, child_neg)
            else:
                conj.append((v, neg))
    walk(comp, False)
    return '.'.join(('X(%s)' % v if neg else v) for v, neg in conj), exact[0]

def flatten_struct(st):
    out, exact = [], True
    for cx in parse_struct(st):
        parts = []
        for item in cx:
            if isinstance(item, tuple):
                f, e = flatten_compound(item[1]); parts.append(item[0] + f)
            else:
                f, e = flatten_compound(item); parts.append(f)
            exact = exact and e
        out.append(''.join(parts))
    return '|'.join(out), exact

def c04_applicable(line):
    d = kv(line)
    if d.get('strict', '0') == '1' or 'fail' in d or 'mem' in d or 'nomodel' in d: return False
    for t in line.split(' '):
        if t.startswith('sel='):
            el = t[4:].split('~')[2]
            if re.search(r'(^|,)(rm|rp:|si:|oe:)', el): return False      # content removal hides descendants from matching by design
    return True

def prepare_c04(cases_path, runner, build):
    import subprocess, os
    lines = [l.rstrip('\n') for l in open(cases_path) if l.startswith('L2 ') and c04_applicable(l)]
    flat = []
    for l in lines:
        toks = []
        for t in l.split(' '):
            if t.startswith('sel='):
                p = t[4:].split('~'); p[1] = flatten_struct(p[1])[0]; t = 'sel=' + '~'.join(p)
            toks.append(t)
        flat.append(' '.join(toks))
    for src, dst in ((lines, SPEC), (flat, SPEC_FLAT)):
        dst.clear()
        out = subprocess.run([runner, 'spec'], input='\n'.join(src) + '\n', capture_output=True, text=True, timeout=3000).stdout
        cur = None
        for ln in out.splitlines():
            if ln.startswith('C '): cur = {}; dst[ln[2:]] = cur
            elif ln.startswith('M ') and cur is not None:
                f = ln.split(' '); cur[int(f[1])] = [int(x) for x in f[2:]]
            elif ln.startswith('X ') and cur is not None: cur['error'] = ln

def c04_observed(line, case):
    """start-tag location -> sorted selector indices whose element handler ran (until the first failing call)"""
    sels = [t[4:].split('~') for t in line.split(' ') if t.startswith('sel=')]
    el_to_sel = [i for i, p in enumerate(sels) if p[2] != '-']
    got = {}
    complete = True
    for c in case['calls']:
        for head, tok in zip(c.get('handlers', []), c['events']):
            f = head.split(' ')
            if f[0] != 'el' or not tok.startswith('S '): continue
            a = int(tok.split(' ')[1].split('..')[0])
            got.setdefault(a, []).append(el_to_sel[int(f[1])])
        if obslog.norm_res(c['res']) != 'ok': complete = False; break
    return got, el_to_sel, complete

def oracle_c04(line, case, stats, allc=None, lines=None):
    if line.startswith('L3 '):
        stats['encoded_cases'] = stats.get('encoded_cases', 0) + 1
        return [x[len('X c04-bad '):] for x in case.get('extra', []) if x.startswith('X c04-bad')][:2]
    cid = case['id']
    if cid not in SPEC or 'error' in SPEC[cid]: return []
    got, el_to_sel, complete = c04_observed(line, case)
    if not complete or any(x.startswith('X ') for x in case.get('extra', [])): return []
    stats['cases'] = stats.get('cases', 0) + 1
    errs = []
    watch = set(el_to_sel)
    for loc, ids in sorted(SPEC[cid].items()):
        exp = [i for i in ids if i in watch]
        obs = sorted(got.get(loc, []))
        stats['start_tags'] = stats.get('start_tags', 0) + 1
        stats['matches'] = stats.get('matches', 0) + len(exp)
        if obs != exp:
            bad = sorted(set(obs) ^ set(exp))
            errs.append('start tag at %d: handlers of selectors %s ran, CSS semantics says %s (differs for selector %d)' % (loc, obs, exp, bad[0]))
    for loc in got:
        if loc not in SPEC[cid]: errs.append('handler ran for a start tag at %d that the reference tag stream does not contain' % loc)
    return errs[:3]

def classify_c04(line, case, msg):
    """known finding NotCompoundArg: the differing selector has a :not() whose flattening into a conjunction is not exact,
    AND the implementation's answer is exactly the flattened conjunction's (anything else is a new violation)"""
    m = re.search(r'differs for selector (\d+)', msg)
    if not m: return None
    k = int(m.group(1))
    sels = [t[4:].split('~') for t in line.split(' ') if t.startswith('sel=')]
    _, exact = flatten_struct(sels[k][1])
    if exact: return None
    cid = case['id']
    got, el_to_sel, _ = c04_observed(line, case)
    flat = SPEC_FLAT.get(cid, {})
    for loc, ids in flat.items():
        if loc == 'error': return None
        if (k in ids) != (k in got.get(loc, [])): return None
    return 'NotCompoundArg'

# ------------------------------------------------------------------------------------------------
# C05: expected handler-invocation sequence from the extracted Coq reference (spec/CssSem.v, scope_events)
SCOPE = {}
def c05_applicable(line):
    d = kv(line)
    if d.get('strict', '0') == '1' or 'fail' in d or 'mem' in d or 'nomodel' in d or not line.startswith('L2 '): return False
    for t in line.split(' '):
        if t.startswith('sel=') and not flatten_struct(t[4:].split('~')[1])[1]: return False
    return True

def prepare_c05(cases_path, runner, build):
    import subprocess
    lines = [l.rstrip('\n') for l in open(cases_path) if c05_applicable(l.rstrip('\n'))]
    SCOPE.clear()
    out = subprocess.run([runner, 'scope'], input='\n'.join(lines) + '\n', capture_output=True, text=True, timeout=3000).stdout
    cur = None
    for ln in out.splitlines():
        if ln.startswith('C '): cur = []; SCOPE[ln[2:]] = cur
        elif ln.startswith('X ') and cur is not None:
            f = ln.split(' ')
            cur.append((f[1], int(f[2]), int(f[3]), int(f[4])) if len(f) == 5 and f[2].isdigit() else ('error', 0, 0, 0))

def c05_normalise(seq):
    """seq of (kind, idx, a, b): text chunks of one node collapse to the node start; duplicates within a node dropped;
    end-tag handlers of one end tag and the end handlers are compared as sorted groups"""
    out, seen = [], set()
    cur_start, cur_end, last = None, None, None
    for kind, idx, a, b in seq:
        if kind == 'tx':
            if cur_end is not None and (a == cur_end or (a, b) == last): pass
            else: cur_start = a
            cur_end = b; last = (a, b)
            key = ('tx', idx, cur_start)
            if key in seen: continue
            seen.add(key); out.append(key)
        elif kind == 'end': out.append(('end', idx, 0))
        else: out.append((kind, idx, a))
    # sort maximal runs of et events at one location, and the trailing end events
    res, i = [], 0
    while i < len(out):
        k = out[i][0]
        if k in ('et', 'end'):
            j = i
            while j < len(out) and out[j][0] == k and out[j][2] == out[i][2]: j += 1
            res += sorted(out[i:j]); i = j
        else:
            res.append(out[i]); i += 1
    return res

def oracle_c05(line, case, stats, allc=None, lines=None):
    cid = case['id']
    if cid not in SCOPE or any(e[0] == 'error' for e in SCOPE[cid]): return []
    obs = []
    for c in case['calls']:
        for head, tok in zip(c.get('handlers', []), c['events']):
            f = head.split(' ')
            if f[0] == 'bail': continue
            if tok == 'X' or tok == '-': a = b = 0
            else: a, b = [int(x) for x in tok.split(' ')[1].split('..')]
            obs.append((f[0], int(f[1]), a, b))
        if obslog.norm_res(c['res']) != 'ok': return []
    if any(x.startswith('X ') for x in case.get('extra', [])): return []
    exp2 = c05_normalise(SCOPE[cid])
    got = c05_normalise(obs)
    stats['cases'] = stats.get('cases', 0) + 1
    stats['events'] = stats.get('events', 0) + len(got)
    for k in ('el', 'et', 'cm', 'tx', 'dt', 'end'):
        stats['ev_' + k] = stats.get('ev_' + k, 0) + sum(1 for e in got if e[0] == k)
    if got != exp2:
        n = next((i for i, (x, y) in enumerate(zip(got, exp2)) if x != y), min(len(got), len(exp2)))
        return ['handler invocation sequence differs from the reference scope model at position %d: observed %s, expected %s (observed %d events, expected %d)'
                % (n, got[n:n+3], exp2[n:n+3], len(got), len(exp2))]
    return []

# ------------------------------------------------------------------------------------------------
# C13 (and the text-chunk clause of C14): verdicts computed inside the harness (harness/src/l3.rs) against encoding_rs'
# whole-buffer decode / encode; this only collects them
def _l3_stats(case, stats):
    for x in case.get('extra', []):
        if x.startswith('X c13-stats '):
            stats['l3_cases'] = stats.get('l3_cases', 0) + 1
            for kvp in x.split(' ')[2:]:
                k, _, v = kvp.partition('=')
                if k == 'enc': stats.setdefault('encodings', set()).add(v)
                elif v.isdigit(): stats['l3_' + k] = stats.get('l3_' + k, 0) + int(v)
def _sk_escape(b, ct):
    return b if ct == 'h' else b.replace(b'&', b'&amp;').replace(b'<', b'&lt;').replace(b'>', b'&gt;')
def oracle_c13_sk(line, case, stats):
    """streaming sink scripts against Python's incremental UTF-8 decoder: every fragment of a stream that is valid so far is accepted,
    the first fragment that makes it invalid is refused, and the output is the text written so far (escaped for Text content)"""
    d = kv(line); ct = d.get('ct', 'h')
    ops = [o for o in d.get('ops', '').split(',') if o]
    # the WHATWG UTF-8 decoder as an eager validator (a byte that cannot continue the sequence is an error at once)
    pend = b''; need = 0; lo, hi = 0x80, 0xBF
    exp_res, exp_out, failed = [], b'', False
    for o in ops:
        b = bytes.fromhex(o[1:])
        if o[0] == 's':
            if pend: exp_out += '\ufffd'.encode(); pend = b''; need = 0
            exp_out += _sk_escape(b, ct); exp_res.append('k')
        else:
            done = b''; bad = False
            for x in b:
                if need == 0:
                    if x < 0x80: done += bytes([x])
                    elif 0xC2 <= x <= 0xDF: need, pend, lo, hi = 1, bytes([x]), 0x80, 0xBF
                    elif 0xE0 <= x <= 0xEF: need, pend = 2, bytes([x]); lo, hi = (0xA0 if x == 0xE0 else 0x80), (0x9F if x == 0xED else 0xBF)
                    elif 0xF0 <= x <= 0xF4: need, pend = 3, bytes([x]); lo, hi = (0x90 if x == 0xF0 else 0x80), (0x8F if x == 0xF4 else 0xBF)
                    else: bad = True; break
                else:
                    if not (lo <= x <= hi): bad = True; break
                    lo, hi = 0x80, 0xBF; pend += bytes([x]); need -= 1
                    if need == 0: done += pend; pend = b''
            if bad: exp_res.append('e'); failed = True; break
            exp_res.append('k'); exp_out += _sk_escape(done, ct)
    got_res = [e.split(' ')[2] for c in case['calls'] for e in c['events'] if e.startswith('K ')]
    got_out = bytes.fromhex(total_out(case))
    stats['sink_scripts'] = stats.get('sink_scripts', 0) + 1
    if failed: stats['sink_scripts_refused'] = stats.get('sink_scripts_refused', 0) + 1
    errs = []
    if failed:
        # the code notices a byte that cannot continue a buffered character only when that character's length is reached
        # (IncompleteUtf8Resync absorbs continuation bytes first): the refusal may come up to three bytes later, never earlier
        i = len(exp_res) - 1
        late = sum(len(o) // 2 for o in ops[i:i + len(got_res) - i] if o[0] == 'u')
        if got_res[:i] != ['k'] * i: errs.append('a write of a still valid stream was refused: results %s, reference %s' % (''.join(got_res), ''.join(exp_res)))
        elif 'e' not in got_res and any(o[0] == 's' for o in ops[i:]): errs.append('an invalid stream was accepted up to a write_str: results %s, reference %s' % (''.join(got_res), ''.join(exp_res)))
        elif 'e' not in got_res and sum(len(o) // 2 for o in ops[i:]) > 3: errs.append('an invalid stream was accepted: results %s, reference %s' % (''.join(got_res), ''.join(exp_res)))
        elif not got_out.startswith(exp_out): errs.append('sink output before the refused write %r, reference %r' % (got_out[:80], exp_out[:80]))
        return errs
    if got_res != exp_res: errs.append('write results %s, reference (UTF-8 validator) %s' % (''.join(got_res), ''.join(exp_res)))
    elif not failed and got_out != exp_out: errs.append('sink output %r, reference %r' % (got_out[:80], exp_out[:80]))
    elif failed and not (got_out.startswith(exp_out) and len(got_out) - len(exp_out) <= 5): errs.append('sink output before the refused write %r, reference %r' % (got_out[:80], exp_out[:80]))
    return errs
def oracle_c13(line, case, stats, allc=None, lines=None):
    if line.startswith('SK '): return oracle_c13_sk(line, case, stats)
    if not line.startswith('L3 '): return []
    _l3_stats(case, stats)
    if isinstance(stats.get('encodings'), set): stats['encodings_seen'] = len(stats['encodings'])
    return [x[len('X c13-bad '):] for x in case.get('extra', []) if x.startswith('X c13-bad ')][:3]
def oracle_c14_l3(line, case, stats):
    return [x[len('X c14-bad '):] for x in case.get('extra', []) if x.startswith('X c14-bad ')][:3]

# ------------------------------------------------------------------------------------------------
# C18: the same cases run (a) one after the other on the main thread, (b) on fresh threads, (c)/(d) spread over worker
# threads that run concurrently; and a send::HtmlRewriter migrated between threads (harness mode `migrate`).
MODE_DIFFS = {}
MODE_STATS = {}
def prepare_c18(cases_path, runner, build):
    import subprocess, os
    harness = os.path.join(build, 'harness-target', 'debug', 'lolverif-harness')
    MODE_DIFFS.clear(); MODE_STATS.clear()
    logs = {}
    for mode in (['cases'], ['fresh'], ['threads', '16'], ['threads', '3']):
        out = subprocess.run([harness] + mode, stdin=open(cases_path), capture_output=True, text=True, errors='replace', timeout=3000).stdout
        per, cur, cid = {}, [], None
        for ln in out.splitlines():
            if ln.startswith('C '): cid = ln[2:]; cur = []
            cur.append(ln)
            if ln == '.' and cid is not None: per[cid] = cur; cid = None
        logs[' '.join(mode)] = per
    base = logs['fresh']      # no instance shares a thread with an earlier one
    for mode, per in logs.items():
        if mode == 'fresh': continue
        for cid in base:
            if per.get(cid) != base[cid] and cid not in MODE_DIFFS:
                a, b = base[cid], per.get(cid, [])
                n = next((i for i, (x, y) in enumerate(zip(a, b)) if x != y), min(len(a), len(b)))
                MODE_DIFFS[cid] = 'run mode "%s" differs from a run on a fresh thread at log line %d: %r vs %r' % (mode, n, (b[n] if n < len(b) else None), (a[n] if n < len(a) else None))
    MODE_STATS['modes_compared'] = len(logs) - 1
    MODE_STATS['instances_per_mode'] = len(base)
    # migration spawns a thread per call: a bounded sample (every case in the quick tier, the first 4000 otherwise)
    sample = os.path.join(build, 'c18.migrate.cases')
    open(sample, 'w').write(''.join(list(open(cases_path))[:4000]))
    out = subprocess.run([harness, 'migrate'], stdin=open(sample), capture_output=True, text=True, errors='replace', timeout=3000).stdout
    cid = None; nm = 0
    for ln in out.splitlines():
        if ln.startswith('C '): cid = ln[2:]; nm += 1
        elif ln.startswith('X c18-bad') and cid not in MODE_DIFFS: MODE_DIFFS[cid] = ln[len('X c18-bad '):]
    MODE_STATS['migrated_rewriters'] = nm
def oracle_c18(line, case, stats, allc=None, lines=None):
    stats.update(MODE_STATS)
    cid = case['id']
    return [MODE_DIFFS[cid]] if cid in MODE_DIFFS else []

# ------------------------------------------------------------------------------------------------
# C17: the implementation log of this check comes from `harness capi` (extern "C" entry points).  prepare_c17 also runs
# the same cases through the Rust API and records where the two differ in what the C API can observe.
CAPI_DIFFS = {}
CAPI_STATS = {}
def prepare_c17(cases_path, runner, build):
    import subprocess, os, tempfile
    harness = os.path.join(build, 'harness-target', 'debug', 'lolverif-harness')
    CAPI_DIFFS.clear(); CAPI_STATS.clear()
    c_log = os.path.join(build, 'c17.capi.log'); r_log = os.path.join(build, 'c17.rust.log')
    subprocess.run('%s capi < %s > %s' % (harness, cases_path, c_log), shell=True, timeout=3000)
    subprocess.run('%s cases < %s > %s' % (harness, cases_path, r_log), shell=True, timeout=3000)
    res, A, B = obslog.compare(c_log, r_log, ['capi'])
    for cid in res['diff']['capi']:
        a, b = obslog.p_capi(A[cid]), obslog.p_capi(B[cid])
        k = next((i for i, (x, y) in enumerate(zip(a, b)) if x != y), min(len(a), len(b)))
        CAPI_DIFFS[cid] = 'C API run differs from the Rust API run at call %d: C %r vs Rust %r' % (k, str(a[k] if k < len(a) else None)[:300], str(b[k] if k < len(b) else None)[:300])
    for cid in res['missing_in_model']: CAPI_DIFFS[cid] = 'case missing from the Rust API run'
    last = [l for l in open(c_log, errors='replace') if l.startswith('X capi-last-error-per-thread')]
    CAPI_STATS['last_error_per_thread'] = (last[-1].strip().endswith('true') if last else None)
    CAPI_STATS['c_vs_rust_cases'] = res['cases']
    # memory safety of create/use/free histories: a sample of the cases under valgrind memcheck
    if os.path.exists('/usr/bin/valgrind'):
        k = 200 if os.environ.get('VERIF_CUR_TIER') == 'thorough' else 25
        sample = os.path.join(build, 'c17.valgrind.cases')
        lines = [l for l in open(cases_path) if l.startswith('L2 ')]
        open(sample, 'w').write(''.join(lines[:k] + [l for l in lines if ' ks' in l[:8]][:k]))
        r = subprocess.run('valgrind -q --error-exitcode=9 --leak-check=full --errors-for-leak-kinds=definite %s capi < %s > /dev/null' % (harness, sample),
                           shell=True, capture_output=True, text=True, timeout=3000)
        CAPI_STATS['valgrind_cases'] = 2 * k; CAPI_STATS['valgrind_exit'] = r.returncode
        if r.returncode == 9:
            first = open(sample).readline().split(' ')[1]
            CAPI_DIFFS.setdefault(first, 'valgrind memcheck reports errors for the C API run of the sampled cases: ' + r.stderr[-400:].replace('\n', ' | '))
    CAPI_STATS['streaming_handler_runs'] = sum(1 for l in open(c_log, errors='replace') if l.startswith('H ss '))
def oracle_c17(line, case, stats, allc=None, lines=None):
    stats.update(CAPI_STATS)
    errs = [x[len('X capi-bad '):] for x in case.get('extra', []) if x.startswith('X capi-bad ')]
    cid = case['id']
    if cid in CAPI_DIFFS: errs.append(CAPI_DIFFS[cid])
    if CAPI_STATS.get('last_error_per_thread') is False and not stats.get('_le_reported'):
        stats['_le_reported'] = True; errs.append('an error recorded on one thread was visible to or cleared by another thread')
    stats['unsupported_by_c_api'] = stats.get('unsupported_by_c_api', 0) + sum(1 for x in case.get('extra', []) if x.startswith('X capi-unsupported'))
    return errs[:3]

# ------------------------------------------------------------------------------------------------
# C03: (1) a strict run that succeeds equals the non-strict run; (2) strict success => the captured token stream is the
# one of the independent WHATWG reference tokenizer (tools/whatwg_ref.py); (3) strict mode fails only where it may.
import whatwg_ref
def _c03_impl_tokens(case):
    out = []
    for e in obslog.all_events(case):
        if isinstance(e, tuple): out.append(('T', e[1], e[2]))
        else:
            f = e.split(' ')
            a, b = [int(x) for x in f[1].split('..')]
            if f[0] == 'S':
                m = re.search(r'\[(.*)\] (true|false)$', e)
                attrs, seen = [], set()
                for x in (m.group(1).split(',') if m.group(1) else []):
                    k, _, v = x.partition('@')[0].partition('=')
                    k = whatwg_ref.lower(bytes.fromhex(k))
                    if k not in seen: seen.add(k); attrs.append((k, bytes.fromhex(v)))
                out.append(('S', a, b, whatwg_ref.lower(bytes.fromhex(f[2])), tuple(attrs), m.group(2) == 'true'))
            elif f[0] == 'E': out.append(('E', a, b, whatwg_ref.lower(bytes.fromhex(f[2]))))
            elif f[0] == 'C': out.append(('C', a, b, bytes.fromhex(f[2]) if len(f) > 2 else b''))
            elif f[0] == 'D':
                o = lambda s: None if s == '-' else bytes.fromhex(s[1:])
                out.append(('D', a, b, o(f[2]), o(f[3]), o(f[4]), f[5] == 'true'))
    return out
_TEXT_SWITCH = {b'textarea', b'title', b'plaintext', b'script', b'style', b'iframe', b'xmp', b'noembed', b'noframes', b'noscript'}
def ambiguity_ref(tokens):
    """The property's refusal rule over the reference token stream (complete tags only): a text-mode-switching start tag between a
    select start tag and its end (template in select included; script is allowed directly in select; select/textarea/input/keygen
    leave "in select") or anywhere after a frameset start tag (noframes allowed).  Returns the index of the refused token or None."""
    st, depth = 'default', 0
    for k, t in enumerate(tokens):
        if t[0] == 'S':
            n = t[3]
            if st == 'default':
                if n == b'select': st = 'select'
                elif n == b'frameset': st = 'frameset'
            elif st == 'select':
                if n in (b'select', b'textarea', b'input', b'keygen'): st = 'default'
                elif n == b'template': st, depth = 'template', 1
                elif n != b'script' and n in _TEXT_SWITCH: return k
            elif st == 'template':
                if n == b'template': depth += 1
                elif n in _TEXT_SWITCH: return k
            elif st == 'frameset':
                if n != b'noframes' and n in _TEXT_SWITCH: return k
        elif t[0] == 'E':
            n = t[3]
            if st == 'select' and n == b'select': st = 'default'
            elif st == 'template' and n == b'template':
                depth -= 1
                if depth == 0: st = 'select'
    return None
def oracle_c03(line, case, stats, allc=None, lines=None):
    cid = case['id']
    if not cid.endswith('.s'): return []
    errs = []
    twin = allc.get(cid[:-2] + '.n')
    results = obslog.p_results(case)
    ok = all(r == 'ok' for r in results)
    stats['strict_runs'] = stats.get('strict_runs', 0) + 1
    data = input_bytes(line)
    if not ok:
        if 'err:amb' in results:
            stats['refused'] = stats.get('refused', 0) + 1
            low = whatwg_ref.lower(data)
            if not any(t in low for t in (b'<select', b'<frameset')):
                errs.append('strict mode reported a parsing ambiguity although the document has neither a select nor a frameset start tag')
            elif b'<svg' not in low and b'<math' not in low and b'\x00' not in data and b'\r' not in data:
                # HTML-only documents: the refusal must be owed to a complete start tag of the reference token stream
                ref, _ = whatwg_ref.analyse(data)
                stats['refusals_checked_against_reference'] = stats.get('refusals_checked_against_reference', 0) + 1
                if ambiguity_ref(ref) is None:
                    m = re.search(rb'<([a-zA-Z][^\s/>]*)[^>]*$', data)      # the input ends inside an unfinished tag
                    trunc = m is not None and whatwg_ref.lower(m.group(1)) in _TEXT_SWITCH
                    errs.append('strict mode reported a parsing ambiguity but no text-mode-switching start tag occurs inside select / after frameset in the reference token stream%s' % (' [truncated-tag-at-eof]' if trunc else ''))
        return errs
    stats['strict_success'] = stats.get('strict_success', 0) + 1
    low = whatwg_ref.lower(data)
    if b'<svg' not in low and b'<math' not in low and b'\x00' not in data and b'\r' not in data and (b'<select' in low or b'<frameset' in low):
        ref, _ = whatwg_ref.analyse(data)
        if ambiguity_ref(ref) is not None: errs.append('strict mode succeeded although a text-mode-switching start tag occurs inside select / after frameset (token %d of the reference stream)' % ambiguity_ref(ref))
    if twin is not None and obslog.p_full(twin) != obslog.p_full(case):
        errs.append('the successful strict run differs from the non-strict run of the same input')
    if ' seed=2000 ' not in line and b'\x00' not in data and b'\r' not in data:
        # sparse capture policy (the parser switches between tag scanner and lexer): whatever is captured must be an
        # in-order sub-sequence of the reference token stream
        got = _c03_impl_tokens(case)
        ref, refstate = whatwg_ref.analyse(data)
        stats['reference_subsequence_compared'] = stats.get('reference_subsequence_compared', 0) + 1
        j = 0
        for k, t in enumerate(got):
            while j < len(ref) and ref[j] != t: j += 1
            if j >= len(ref):
                errs.append('captured token %d is not in the WHATWG reference stream (in order)%s: lol-html %r' % (k, ' [ip-name-reuse]' if refstate.ip_name_reuse else (' [cdata-in-ip]' if refstate.cdata_in_ip else ''), t)); break
            j += 1
    if ' seed=2000 ' in line and b'\x00' not in data and b'\r' not in data:
        got = _c03_impl_tokens(case)
        ref, refstate = whatwg_ref.analyse(data)
        stats['reference_compared'] = stats.get('reference_compared', 0) + 1
        stats['reference_tokens'] = stats.get('reference_tokens', 0) + len(ref)
        if got != ref:
            k = next((i for i, (x, y) in enumerate(zip(got, ref)) if x != y), min(len(got), len(ref)))
            errs.append('token %d differs from the WHATWG reference%s: lol-html %r, reference %r' % (k, ' [ip-name-reuse]' if refstate.ip_name_reuse else (' [cdata-in-ip]' if refstate.cdata_in_ip and k < len(got) and got[k][0] == 'C' and got[k][3].startswith(b'[CDATA[') else ''), got[k] if k < len(got) else None, ref[k] if k < len(ref) else None))
    return errs[:3]

def classify_c03(line, case, msg):
    if '[truncated-tag-at-eof]' in msg: return 'StrictTruncatedTagAtEof'
    if '[cdata-in-ip]' in msg: return 'CdataInIntegrationPoint'
    return 'IntegrationPointNameReuse' if '[ip-name-reuse]' in msg else None

# ------------------------------------------------------------------------------------------------
# C07: (A) independent invariant: every tag of the input that no handler touched (and that is not inside removed content)
# survives, in order, in the output; (B) when the output differs from the Coq model's (the reference editor validated on the
# unchanged tree), the two outputs are re-tokenised: a token-level difference is a failing input, a formatting difference is not.
MODEL = {}
def _tag_seq(data):
    return [(t[0], t[3]) for t in whatwg_ref.tokenize(data) if t[0] in ('S', 'E')]
def _subseq_missing(need, have):
    j = 0
    for k, t in enumerate(need):
        while j < len(have) and have[j] != t: j += 1
        if j >= len(have): return k
        j += 1
    return None
def oracle_c07(line, case, stats, allc=None, lines=None):
    if not line.startswith('L2 ') or ' nomodel=1' in line: return []
    d = kv(line)
    if 'fail' in d or 'mem' in d or d.get('strict', '0') == '1': return []
    if any(obslog.norm_res(c['res']) != 'ok' for c in case['calls']): return []
    errs = []
    data = input_bytes(line)
    out = bytes.fromhex(''.join(obslog.sink_bytes(c['sink']) for c in case['calls']))
    stats['cases'] = stats.get('cases', 0) + 1
    # ---- (B) the model as reference editor, modulo serialisation
    m = MODEL.get(case['id'])
    if m is not None:
        mout = bytes.fromhex(''.join(obslog.sink_bytes(c['sink']) for c in m['calls']))
        if mout != out:
            a, b = whatwg_ref.tokenize(out), whatwg_ref.tokenize(mout)
            strip = lambda ts: [(t[0],) + tuple(t[3:]) if t[0] != 'T' else ('T', (out if ts is a else mout)[t[1]:t[2]]) for t in ts]
            if strip(a) != strip(b):
                errs.append('the output is not the documented edit: re-tokenised, it differs from the reference editor\'s output (%d vs %d tokens)' % (len(a), len(b)))
            else: stats['formatting_only_differences'] = stats.get('formatting_only_differences', 0) + 1
    # ---- (A) untouched tags survive (HTML-only documents; no insertion of a lone "<")
    low = whatwg_ref.lower(data)
    if b'<svg' in low or b'<math' in low or re.search(r'[:;(+]h3c([,;~ )+]|$)', line): return errs
    toks = whatwg_ref.tokenize(data)
    # re-tokenising the output is only meaningful when user content cannot fuse with document text into new markup:
    # no '<' inside a text node of the input (an inserted "plain" after the text "1 <" makes a tag) ...
    if any(t[0] == 'T' and b'<' in data[t[1]:t[2]] for t in toks): return errs
    # ... and no renaming from / to an element whose content is tokenized in a text mode
    TEXTMODE = {b'title', b'textarea', b'style', b'xmp', b'iframe', b'noembed', b'noframes', b'noscript', b'script', b'plaintext', b'svg', b'math'}
    if re.search(r'tn:', line):
        targets = {whatwg_ref.lower(bytes.fromhex(x)) for x in re.findall(r'tn:([0-9a-f]*)', line)}
        if targets & TEXTMODE or any(t[0] == 'S' and t[3] in TEXTMODE for t in toks): return errs
    tags = [t for t in toks if t[0] in ('S', 'E')]
    sels = [t[4:].split('~') for t in line.split(' ') if t.startswith('sel=')]
    el_scripts = [p[2] for p in sels if p[2] != '-']
    touched = {}      # start offset -> set of op kinds
    for c in case['calls']:
        for head, tok in zip(c.get('handlers', []), c['events']):
            f = head.split(' ')
            if f[0] == 'el' and tok.startswith('S '):
                a = int(tok.split(' ')[1].split('..')[0])
                ops = el_scripts[int(f[1])] if int(f[1]) < len(el_scripts) else ''
                kinds = touched.setdefault(a, set())
                for o in ops.split(','):
                    if o[:2] in ('rm', 'rp', 'rk', 'si', 'tn', 'sx', 'sr'): kinds.add(o[:2])
                    if o.startswith('oe:') and re.search(r'rm|rp:|sn:', o): kinds.add('oe')
    if not touched: return errs
    # tree induced by the tags: for every element the index of its own end tag (ei) and the index at which it stops being open
    stack, elems = [], []
    for i, t in enumerate(tags):
        if t[0] == 'S':
            e = dict(si=i, ei=None, close=len(tags), name=t[3], a=t[1])
            elems.append(e)
            if t[3] not in whatwg_ref.VOID: stack.append(e)
            else: e['close'] = i + 1
        else:
            for k in range(len(stack) - 1, -1, -1):
                if stack[k]['name'] == t[3]:
                    stack[k]['ei'] = i; stack[k]['close'] = i + 1
                    for x in stack[k + 1:]: x['close'] = i          # closed by this ancestor's end tag, which is not theirs
                    del stack[k:]; break
    drop = set()
    for e in elems:
        k = touched.get(e['a'])
        if not k: continue
        if k & {'rm', 'rp'}: drop.update(range(e['si'], e['close']))
        if 'si' in k: drop.update(range(e['si'] + 1, e['ei'] if e['ei'] is not None else e['close']))
        if k & {'rk', 'tn'}: drop.add(e['si']); (drop.add(e['ei']) if e['ei'] is not None else None)
        if k & {'sx', 'sr'}: drop.add(e['si'])
        if 'oe' in k and e['ei'] is not None: drop.add(e['ei'])
    need = [(t[0], t[3]) for i, t in enumerate(tags) if i not in drop]
    have = _tag_seq(out)
    stats['untouched_tags_checked'] = stats.get('untouched_tags_checked', 0) + len(need)
    miss = _subseq_missing(need, have)
    if miss is not None:
        t = need[miss]
        # known finding class: the missing tag is an end tag that (also) closes a touched element which has no end tag of its own
        implicit = any(e['ei'] is None and e['name'] not in whatwg_ref.VOID and touched.get(e['a']) for e in elems)
        errs.append('untouched %s tag %r of the input is missing from the output%s' % ('end' if t[0] == 'E' else 'start', t[1], ' [implicitly-closed-touched-element]' if implicit else ''))
    return errs[:3]
def classify_c07(line, case, msg):
    return 'ImplicitlyClosedElementEdit' if '[implicitly-closed-touched-element]' in msg else None

def oracle_c12_l3(case):
    return [x[len('X c12-bad '):] for x in case.get('extra', []) if x.startswith('X c12-bad ')][:2]
