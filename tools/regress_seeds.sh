#!/bin/bash
# Re-run every stored seeded change against the quick check of its own property; prints one line per seed.
# (uses /repo: nothing else may run meanwhile).  usage: regress_seeds.sh [seed-dir-names...]
cd /verif
seeds=${@:-$(ls seeded)}
for s in $seeds; do
  pid=${s%%-*}
  git -C /repo apply /verif/seeded/$s/patch.diff 2>/dev/null || { echo "$s $pid PATCH-DOES-NOT-APPLY"; continue; }
  out=$(./check $pid quick 2>&1 | grep -E "VIOLATION|quick:" | tr '\n' ' ' | cut -c1-220)
  git -C /repo checkout -- .
  if echo "$out" | grep -q "VIOLATION"; then
    if echo "$out" | grep -q "no-failing-input-found"; then echo "$s $pid CORR-ONLY :: $out"; else echo "$s $pid REPLAY"; fi
  else echo "$s $pid MISSED :: $out"; fi
done
rm -f /verif/replays/*.json
