#!/bin/bash
# Build the Coq development (model + proofs + extraction) and the OCaml runner.
set -e
cd /verif/coq
[ -f Makefile ] || coq_makefile -f _CoqProject -o Makefile >/dev/null 2>&1
timeout 3000 make -j16 2>&1 | grep -v "^Warning\|^COQDEP\|^COQC" || true
test -f model.ml
cd /verif/runner
cp ../coq/model.ml ../coq/model.mli .
ocamlfind ocamlopt -O2 -w -a -o model_runner model.mli model.ml driver.ml
