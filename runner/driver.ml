(* Driver for the extracted Coq model: reads case lines on stdin, prints observation logs.
   No logic beyond parsing/printing lives here. *)
open Model

let rec pos_of_int i = if i = 1 then XH else if i land 1 = 1 then XI (pos_of_int (i lsr 1)) else XO (pos_of_int (i lsr 1))
let n_of_int i = if i = 0 then N0 else Npos (pos_of_int i)
let rec int_of_pos = function XH -> 1 | XO p -> 2 * int_of_pos p | XI p -> 2 * int_of_pos p + 1
let int_of_n = function N0 -> 0 | Npos p -> int_of_pos p
let rec int_of_nat = function O -> 0 | S n -> 1 + int_of_nat n
let nat_of_int i = let rec go acc i = if i = 0 then acc else go (S acc) (i - 1) in go O i
let hex l = String.concat "" (List.map (fun n -> Printf.sprintf "%02x" (int_of_n n)) l)
let unhex s = List.init (String.length s / 2) (fun i -> n_of_int (int_of_string ("0x" ^ String.sub s (2*i) 2)))
let lower_hex l = hex (List.map (fun n -> let i = int_of_n n in n_of_int (if i >= 65 && i <= 90 then i + 32 else i)) l)

let tt = function Data -> "Data" | PlainText -> "PlainText" | RCData -> "RCData" | RawText -> "RawText" | ScriptData -> "ScriptData" | CDataSection -> "CDataSection"
let nss = function Html -> "Html" | Svg -> "Svg" | MathML -> "MathML"
let rng r = Printf.sprintf "%d..%d" (int_of_nat r.rs) (int_of_nat r.re)
let optl = function None -> "-" | Some l -> "=" ^ hex l
let optl_lower = function None -> "-" | Some l -> "=" ^ lower_hex l

let print_token t =
  match t with
  | TStart (name, _, n, attrs, sc, _, loc) ->
      Printf.printf "E S %s %s %s [%s] %b\n" (rng loc) (hex name) (nss n)
        (String.concat "," (List.map (fun a -> Printf.sprintf "%s=%s@%s" (hex a.av_name) (hex a.av_value)
           (match a.av_locs with None -> "-/-" | Some (n, v) -> rng n ^ "/" ^ rng v)) attrs)) sc
  | TEnd (name, _, _, loc) -> Printf.printf "E E %s %s\n" (rng loc) (hex name)
  | TText (ty, text, last, loc) -> Printf.printf "E T %s %s %s %b\n" (rng loc) (tt ty) (hex text) last
  | TComment (text, _, loc) -> Printf.printf "E C %s %s\n" (rng loc) (hex text)
  | TDoctype (n, p, s, fq, _, loc) -> Printf.printf "E D %s %s %s %s %b\n" (rng loc) (optl_lower n) (optl p) (optl s) fq

let print_res k r =
  Printf.printf "R %d %s\n" k
    (match r with
     | ROk -> "ok"
     | RErr MemoryLimitExceeded -> "err:mem"
     | RErr (ParsingAmbiguity _) -> "err:amb"
     | RErr (ContentHandlerError _) -> "err:handler"
     | RPanicPoisoned -> "panic:poisoned"
     | RPanic k -> Printf.sprintf "panic:model-%d" (int_of_nat k)
     | RUseAfterEnd -> "use-after-end")

let print_sink = function
  | SkEncoding e -> Printf.printf "S e%d\n" (int_of_nat e)
  | SkChunk b -> Printf.printf "S c%s\n" (hex b)

let kv line =
  let tbl = Hashtbl.create 16 in
  List.iter (fun tok ->
    match String.index_opt tok '=' with
    | Some i -> Hashtbl.replace tbl (String.sub tok 0 i) (String.sub tok (i+1) (String.length tok - i - 1))
    | None -> ()) (String.split_on_char ' ' line);
  tbl
let get tbl k d = try Hashtbl.find tbl k with Not_found -> d
let geti tbl k d = int_of_string (get tbl k (string_of_int d))
let getb tbl k = get tbl k "0" = "1"
let hexopt s = if s = "-" then [] else unhex s
let parse_ops s =
  List.filter_map (fun o ->
    if o = "" then None
    else if o = "E" then Some End
    else Some (Write (unhex (String.sub o 1 (String.length o - 1))))) (String.split_on_char ',' s)

let run_l1 id tbl =
  let cfg = { st_strict = getb tbl "strict"; st_max_mem = n_of_int (geti tbl "mem" 1048576);
              st_prealloc = nat_of_int (geti tbl "prealloc" 0); st_bail_mem = getb tbl "bm";
              st_bail_handler = getb tbl "bh"; st_encoding = O } in
  let fail = let f = get tbl "fail" "-" in if f = "-" then None else Some (nat_of_int (int_of_string f)) in
  let obs = l1_case cfg (nat_of_int (geti tbl "seed" 0)) fail (getb tbl "remove")
              (hexopt (get tbl "bail" "-")) (hexopt (get tbl "endt" "-")) (parse_ops (get tbl "ops" "E")) in
  Printf.printf "C %s\n" id;
  (match obs with
   | None -> print_endline "R new panic:construct"
   | Some obs ->
     List.iteri (fun k o ->
       List.iter print_sink o.o_sink;
       List.iter print_token o.o_events;
       print_res k o.o_res;
       Printf.printf "U %d %d\n" k (int_of_n o.o_usage)) obs);
  print_endline "."

let () =
  try while true do
    let line = input_line stdin in
    match String.split_on_char ' ' line with
    | "L1" :: id :: _ -> run_l1 id (kv line)
    | _ -> ()
  done with End_of_file -> ()
