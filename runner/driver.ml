(* Driver for the extracted Coq model: reads case lines on stdin, prints observation logs.
   No logic beyond parsing/printing lives here. *)
open Model

let rec pos_of_int i = if i = 1 then XH else if i land 1 = 1 then XI (pos_of_int (i lsr 1)) else XO (pos_of_int (i lsr 1))
let n_of_int i = if i = 0 then N0 else Npos (pos_of_int i)
let rec int_of_pos = function XH -> 1 | XO p -> 2 * int_of_pos p | XI p -> 2 * int_of_pos p + 1
let int_of_n = function N0 -> 0 | Npos p -> int_of_pos p
let rec int_of_nat = function O -> 0 | S n -> 1 + int_of_nat n
let nat_of_int i = let rec go acc i = if i = 0 then acc else go (S acc) (i - 1) in go O i
let hex l = String.concat "" (List.map (fun n -> Printf.sprintf "%02x" (int_of_n n)) l)
let unhex s = List.init (String.length s / 2) (fun i -> n_of_int (int_of_string ("0x" ^ String.sub s (2*i) 2)))
let lower_hex l = hex (List.map (fun n -> let i = int_of_n n in n_of_int (if i >= 65 && i <= 90 then i + 32 else i)) l)

let tt = function Data -> "Data" | PlainText -> "PlainText" | RCData -> "RCData" | RawText -> "RawText" | ScriptData -> "ScriptData" | CDataSection -> "CDataSection"
let nss = function Html -> "Html" | Svg -> "Svg" | MathML -> "MathML"
let rng r = Printf.sprintf "%d..%d" (int_of_nat r.rs) (int_of_nat r.re)
let optl = function None -> "-" | Some l -> "=" ^ hex l
let optl_lower = function None -> "-" | Some l -> "=" ^ lower_hex l

let print_token_s t =
  match t with
  | TStart (name, _, n, attrs, sc, _, loc) ->
      Printf.sprintf "S %s %s %s [%s] %b" (rng loc) (hex name) (nss n)
        (String.concat "," (List.map (fun a -> Printf.sprintf "%s=%s@%s" (hex a.av_name) (hex a.av_value)
           (match a.av_locs with None -> "-/-" | Some (n, v) -> rng n ^ "/" ^ rng v)) attrs)) sc
  | TEnd (name, _, _, loc) -> Printf.sprintf "E %s %s" (rng loc) (hex name)
  | TText (ty, text, last, loc) -> Printf.sprintf "T %s %s %s %b" (rng loc) (tt ty) (hex text) last
  | TComment (text, _, loc) -> Printf.sprintf "C %s %s" (rng loc) (hex text)
  | TDoctype (n, p, s, fq, _, loc) -> Printf.sprintf "D %s %s %s %s %b" (rng loc) (optl_lower n) (optl p) (optl s) fq

let print_token t = print_endline ("E " ^ print_token_s t)

let print_res k r =
  Printf.printf "R %d %s\n" k
    (match r with
     | ROk -> "ok"
     | RErr MemoryLimitExceeded -> "err:mem"
     | RErr (ParsingAmbiguity _) -> "err:amb"
     | RErr (ContentHandlerError _) -> "err:handler"
     | RPanicPoisoned -> "panic:poisoned"
     | RPanic k -> Printf.sprintf "panic:model-%d" (int_of_nat k)
     | RUseAfterEnd -> "use-after-end")

let print_sink = function
  | SkEncoding e -> Printf.printf "S e%d\n" (int_of_nat e)
  | SkChunk b -> Printf.printf "S c%s\n" (hex b)

let kv line =
  let tbl = Hashtbl.create 16 in
  List.iter (fun tok ->
    match String.index_opt tok '=' with
    | Some i -> Hashtbl.replace tbl (String.sub tok 0 i) (String.sub tok (i+1) (String.length tok - i - 1))
    | None -> ()) (String.split_on_char ' ' line);
  tbl
let get tbl k d = try Hashtbl.find tbl k with Not_found -> d
let geti tbl k d = int_of_string (get tbl k (string_of_int d))
let getb tbl k = get tbl k "0" = "1"
let hexopt s = if s = "-" then [] else unhex s
let parse_ops s =
  List.filter_map (fun o ->
    if o = "" then None
    else if o = "E" then Some End
    else Some (Write (unhex (String.sub o 1 (String.length o - 1))))) (String.split_on_char ',' s)

let run_l1 id tbl =
  let cfg = { st_strict = getb tbl "strict"; st_max_mem = n_of_int (geti tbl "mem" 1048576);
              st_prealloc = nat_of_int (geti tbl "prealloc" 0); st_bail_mem = getb tbl "bm";
              st_bail_handler = getb tbl "bh"; st_encoding = O } in
  let fail = let f = get tbl "fail" "-" in if f = "-" then None else Some (nat_of_int (int_of_string f)) in
  let obs = l1_case cfg (nat_of_int (geti tbl "seed" 0)) fail (getb tbl "remove")
              (hexopt (get tbl "bail" "-")) (hexopt (get tbl "endt" "-")) (parse_ops (get tbl "ops" "E")) in
  Printf.printf "C %s\n" id;
  (match obs with
   | None -> print_endline "R new panic:construct"
   | Some obs ->
     List.iteri (fun k o ->
       List.iter print_sink o.o_sink;
       List.iter print_token o.o_events;
       print_res k o.o_res;
       Printf.printf "U %d %d\n" k (int_of_n o.o_usage)) obs);
  print_endline "."


(* ---------------- level 2 parsing ---------------- *)
let rec z_of_int i = if i = 0 then Z0 else if i > 0 then Zpos (pos_of_int i) else Zneg (pos_of_int (-i))
let split c s = if s = "" then [] else String.split_on_char c s
let chunk_of s = let body = unhex (String.sub s 1 (String.length s - 1)) in
  if s.[0] = 'h' then (body, CtHtml) else (body, CtText)
let strip_prefix p s = String.sub s (String.length p) (String.length s - String.length p)
let et_op_of s =
  match String.sub s 0 2 with
  | "bf" -> EtBefore (chunk_of (strip_prefix "bf:" s))
  | "af" -> EtAfter (chunk_of (strip_prefix "af:" s))
  | "rp" -> EtReplace (chunk_of (strip_prefix "rp:" s))
  | "rm" -> EtRemove
  | "sn" -> EtSetName (unhex (strip_prefix "sn:" s))
  | _ -> failwith ("et_op " ^ s)
let el_op_of s =
  let arg () = String.sub s 3 (String.length s - 3) in
  match String.sub s 0 2 with
  | "bf" -> ElBefore (chunk_of (arg ())) | "af" -> ElAfter (chunk_of (arg ())) | "pp" -> ElPrepend (chunk_of (arg ()))
  | "ap" -> ElAppend (chunk_of (arg ())) | "si" -> ElSetInner (chunk_of (arg ())) | "rp" -> ElReplace (chunk_of (arg ()))
  | "rm" -> ElRemove | "rk" -> ElRemoveKeep
  | "sa" -> (match String.split_on_char ':' (arg ()) with [n; v] -> ElSetAttr (unhex n, unhex v) | _ -> failwith "sa")
  | "ra" -> ElRemoveAttr (unhex (arg ())) | "tn" -> ElSetTagName (unhex (arg ()))
  | "oe" -> let a = arg () in ElOnEndTag (List.map et_op_of (split '+' (String.sub a 1 (String.length a - 2))))
  | "sb" -> ElStartBefore (chunk_of (arg ())) | "sf" -> ElStartAfter (chunk_of (arg ())) | "sr" -> ElStartReplace (chunk_of (arg ()))
  | "sx" -> ElStartRemove
  | _ -> failwith ("el_op " ^ s)
let tok_op_of s =
  match String.sub s 0 2 with
  | "bf" -> TkBefore (chunk_of (strip_prefix "bf:" s)) | "af" -> TkAfter (chunk_of (strip_prefix "af:" s))
  | "rp" -> TkReplace (chunk_of (strip_prefix "rp:" s)) | "rm" -> TkRemove | "st" -> TkSetText (unhex (strip_prefix "st:" s))
  | _ -> failwith ("tok_op " ^ s)
let opt_of f s = if s = "-" then None else Some (f s)
let el_ops s = List.map el_op_of (split ',' s)
let tok_ops s = List.map tok_op_of (split ',' s)
let tx_of s = let w = match s.[0] with 'a' -> TwAlways | 'l' -> TwLast | _ -> TwNotLast in
  (w, tok_ops (String.sub s 2 (String.length s - 2)))
(* selector structure *)
let parse_selector (s : Stdlib.String.t) : selector =
  let n = String.length s in
  let pos = ref 0 in
  let peek () = if !pos < n then s.[!pos] else '$' in
  let adv () = incr pos in
  let is_hex c = (c >= '0' && c <= '9') || (c >= 'a' && c <= 'f') in
  let hexs () = let st = !pos in while is_hex (peek ()) do adv () done; unhex (String.sub s st (!pos - st)) in
  let int_ () = let neg = (peek () = 'm') in if neg then adv ();
    let st = !pos in while peek () >= '0' && peek () <= '9' do adv () done;
    let v = int_of_string (String.sub s st (!pos - st)) in z_of_int (if neg then -v else v) in
  let expect c = if peek () <> c then failwith (Printf.sprintf "selector: expected %c at %d in %s" c !pos s); adv () in
  let rec simple () =
    let c = peek () in adv ();
    match c with
    | 'T' -> SType (hexs ()) | 'A' -> SAny | 'U' -> SUnmatchable
    | 'I' -> SId (hexs ()) | 'C' -> SClass (hexs ()) | 'E' -> SAttrExists (hexs ())
    | 'V' -> let op = (match peek () with 'e' -> OpEq | 'i' -> OpIncludes | 'd' -> OpDash | 'p' -> OpPrefix | 's' -> OpSubstring | _ -> OpSuffix) in adv ();
             let cs = (match peek () with 's' -> CsSensitive | 'i' -> CsInsensitive | _ -> CsInsensitiveIfHtml) in adv ();
             expect ':'; let nm = hexs () in expect ':'; let v = hexs () in SAttr (nm, v, cs, op)
    | 'N' -> let a = int_ () in expect ':'; let b = int_ () in SNthChild (a, b)
    | 'O' -> let a = int_ () in expect ':'; let b = int_ () in SNthOfType (a, b)
    | 'X' -> expect '('; let first = compound () in let rest = ref [] in
             while peek () = '!' do adv (); rest := compound () :: !rest done; expect ')'; SNot (first :: List.rev !rest)
    | _ -> failwith (Printf.sprintf "selector: bad simple %c in %s" c s)
  and compound () = let first = simple () in let rest = ref [] in
    while peek () = '.' do adv (); rest := simple () :: !rest done; first :: List.rev !rest in
  let complex () = let first = compound () in let rest = ref [] in
    while peek () = '>' || peek () = '_' do
      let cb = if peek () = '>' then Child else Descendant in adv (); rest := (cb, compound ()) :: !rest done;
    { cx_first = first; cx_rest = List.rev !rest } in
  let first = complex () in let rest = ref [] in
  while peek () = '|' do adv (); rest := complex () :: !rest done;
  first :: List.rev !rest

let hk = function HkElement -> "el" | HkEndTag -> "et" | HkComment -> "cm" | HkText -> "tx" | HkDoctype -> "dt" | HkEnd -> "end" | HkBailOut -> "bail"
let print_event e =
  Printf.printf "H %s %d r=%s a=%s | " (hk e.ev_kind) (int_of_nat e.ev_handler)
    (String.concat "" (List.map (function OpOk -> "k" | OpErr -> "e") e.ev_results))
    (match e.ev_after with None -> "-" | Some (nm, attrs) -> hex nm ^ "[" ^ String.concat "," (List.map (fun (k, v) -> hex k ^ "=" ^ hex v) attrs) ^ "]");
  (match e.ev_token with Some t -> print_endline (print_token_s t) | None -> print_endline "-")

let values tokens key =
  List.filter_map (fun tok -> let p = key ^ "=" in
    if String.length tok > String.length p && String.sub tok 0 (String.length p) = p then Some (strip_prefix p tok) else None) tokens

let run_l2 id line =
  let tbl = kv line in
  let tokens = String.split_on_char ' ' line in
  let cfg = { st_strict = getb tbl "strict"; st_max_mem = n_of_int (geti tbl "mem" 1048576);
              st_prealloc = nat_of_int (geti tbl "prealloc" 0); st_bail_mem = getb tbl "bm";
              st_bail_handler = getb tbl "bh"; st_encoding = O } in
  let fail = let f = get tbl "fail" "-" in if f = "-" then None else Some (nat_of_int (int_of_string f)) in
  let sels = List.map (fun v -> match String.split_on_char '~' v with
      | [_; st; el; cm; tx] -> { sh_selector = parse_selector st; sh_element = opt_of el_ops el; sh_comments = opt_of tok_ops cm; sh_text = opt_of tx_of tx }
      | _ -> failwith "sel") (values tokens "sel") in
  let docs = List.map (fun v -> match String.split_on_char '~' v with
      | [dt; cm; tx; en] -> { dh_doctype = opt_of tok_ops dt; dh_comments = opt_of tok_ops cm; dh_text = opt_of tx_of tx;
                              dh_end = opt_of (fun s -> List.map chunk_of (split ';' s)) en }
      | _ -> failwith "doc") (values tokens "doc") in
  let bail = List.map (fun v -> List.map chunk_of (split ';' v)) (values tokens "bail") in
  let ops = parse_ops (get tbl "ops" "E") in
  let obs = l2_case cfg sels docs bail fail (n_of_int (geti tbl "isz" 0)) ops in
  Printf.printf "C %s\n" id;
  (match obs with
   | None -> print_endline "R new panic:construct"
   | Some obs ->
     List.iteri (fun k o ->
       List.iter print_sink o.o2_sink;
       List.iter print_event o.o2_events;
       print_res k o.o2_res;
       (match List.nth ops k, o.o2_res with Write _, (ROk | RErr _) -> Printf.printf "U %d %d\n" k (int_of_n o.o2_usage) | _ -> ())) obs);
  print_endline "."

let run_spec id line =
  let tokens = String.split_on_char ' ' line in
  let tbl = kv line in
  let sels = List.map (fun v -> match String.split_on_char '~' v with
      | _ :: st :: _ -> parse_selector st | _ -> failwith "sel") (values tokens "sel") in
  let doc = List.concat (List.filter_map (function Write b -> Some b | End -> None) (parse_ops (get tbl "ops" "E"))) in
  Printf.printf "C %s\n" id;
  List.iter (fun (loc, ids) ->
    Printf.printf "M %d%s\n" (int_of_nat loc) (String.concat "" (List.map (fun i -> " " ^ string_of_int (int_of_nat i)) ids)))
    (css_expected sels doc);
  print_endline "."

let count_oe (el : Stdlib.String.t) =
  List.length (List.filter (fun o -> String.length o >= 3 && String.sub o 0 3 = "oe:") (split ',' el))
let run_scope id line =
  let tokens = String.split_on_char ' ' line in
  let tbl = kv line in
  let sels = List.map (fun v -> match String.split_on_char '~' v with
      | [_; st; el; cm; tx] -> { sf_sel = parse_selector st; sf_el = (if el = "-" then None else Some (nat_of_int (count_oe el))); sf_cm = (cm <> "-"); sf_tx = (tx <> "-") }
      | _ -> failwith "sel") (values tokens "sel") in
  let docs = List.map (fun v -> match String.split_on_char '~' v with
      | [dt; cm; tx; en] -> { df_dt = (dt <> "-"); df_cm = (cm <> "-"); df_tx = (tx <> "-"); df_end = (en <> "-") }
      | _ -> failwith "doc") (values tokens "doc") in
  let doc = List.concat (List.filter_map (function Write b -> Some b | End -> None) (parse_ops (get tbl "ops" "E"))) in
  Printf.printf "C %s\n" id;
  List.iter (fun x ->
    Printf.printf "X %s %d %d %d\n" (match x.x_kind with XEl -> "el" | XEt -> "et" | XCm -> "cm" | XTx -> "tx" | XDt -> "dt" | XEnd -> "end")
      (int_of_nat x.x_idx) (int_of_nat x.x_loc) (int_of_nat x.x_end)) (scope_expected sels docs doc);
  print_endline "."

let () =
  if Array.length Sys.argv > 1 && Sys.argv.(1) = "scope" then
    (try while true do
      let line = input_line stdin in
      match String.split_on_char ' ' line with
      | "L2" :: id :: _ -> (try run_scope id line with Failure m -> Printf.printf "C %s\nX scope-driver-failure %s\n.\n" id m)
      | _ -> ()
    done with End_of_file -> ())
  else
  if Array.length Sys.argv > 1 && Sys.argv.(1) = "spec" then
    (try while true do
      let line = input_line stdin in
      match String.split_on_char ' ' line with
      | "L2" :: id :: _ -> (try run_spec id line with Failure m -> Printf.printf "C %s\nX spec-driver-failure %s\n.\n" id m)
      | _ -> ()
    done with End_of_file -> ())
  else
  try while true do
    let line = input_line stdin in
    match String.split_on_char ' ' line with
    | "L1" :: id :: _ -> run_l1 id (kv line)
    | "L2" :: id :: _ -> (try run_l2 id line with Failure m -> Printf.printf "C %s\nX model-driver-failure %s\n.\n" id m)
    | "SK" :: id :: _ ->
        (* streaming sink: ops = u<hex> (write_utf8_chunk) | s<hex> (write_str), content type ct=h|t *)
        let tbl = kv line in
        let ct = if get tbl "ct" "h" = "h" then CtHtml else CtText in
        let ops = List.filter (fun o -> o <> "") (String.split_on_char ',' (get tbl "ops" "")) in
        let ops = List.map (fun o -> let b = unhex (String.sub o 1 (String.length o - 1)) in if o.[0] = 'u' then SkUtf8 (b, ct) else SkStr (b, ct)) ops in
        let res = sink_run [] ops in
        Printf.printf "C %s\nS e0\n" id;
        List.iteri (fun k (ok, _) -> Printf.printf "E K %d %s\n" k (if ok then "k" else "e")) res;
        Printf.printf "S c%s\n" (hex (List.concat (List.map snd res)));
        Printf.printf "R 0 %s\n." (if List.exists (fun (ok, _) -> not ok) res then "err:handler" else "ok");
        print_newline ()
    | "TD" :: id :: _ ->
        let ops = parse_ops (get (kv line) "ops" "E") in
        let pieces = List.filter_map (function Write b -> Some b | End -> None) ops in
        let calls = utf8_node_calls pieces in
        Printf.printf "C %s\nS e0\n" id;
        List.iteri (fun k cs ->
          List.iter (fun c -> Printf.printf "E T %d..%d Data %s %b\n" (int_of_nat c.tc_a) (int_of_nat c.tc_b) (hex c.tc_text) c.tc_last) cs;
          Printf.printf "R %d ok\n" k) calls;
        print_endline "."
    | _ -> ()
  done with End_of_file -> ()
