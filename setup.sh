#!/bin/bash
# One-time offline build after a fresh restore: translate, build the whole Coq development,
# the extracted OCaml runner and the Rust harness (debug).  Everything lands under /verif/build,
# /verif/coq (.vo) and /verif/runner; nothing under /tmp is needed afterwards.
set -e
cd /verif
export CARGO_NET_OFFLINE=true CARGO_TARGET_DIR=/verif/build/harness-target
mkdir -p build evidence replays
python3 translator/translate.py /repo coq/gen
(cd coq && coq_makefile -f _CoqProject -o Makefile >/dev/null 2>&1 && timeout 7000 make -j16 2>&1 | grep -v "^Warning\|^COQDEP" | tail -40)
test -f coq/model.ml
(cd runner && cp ../coq/model.ml ../coq/model.mli . && ocamlfind ocamlopt -O2 -w -a -o model_runner model.mli model.ml driver.ml)
cp /repo/Cargo.lock harness/Cargo.lock
(cd harness && cargo build --offline 2>&1 | tail -3)
test -x build/harness-target/debug/lolverif-harness
echo "setup ok"
