(* C04: the :nth-of-type counters (TypedChildCounterMap).  For every sequence of tags the counter the VM reads for an
   element is its 1-based position among the siblings of the same name in the tag-induced tree. *)
From LolModel Require Import Base TreeBuilder Selectors.
From LolSpec Require Import CssSem.
From LolProofs Require Import Css CssPred StackTree.
From Coq Require Import ZArith Lia Bool List.
Import ListNotations.
Open Scope nat_scope.

(* ---------- the abstract view of one counter list: its entries, oldest (shallowest) first ---------- *)
Definition entries (cl : counter_list) : list (Z * nat) := cl_items cl ++ [cl_cur cl].
Definition keep (i : nat) (l : list (Z * nat)) : list (Z * nat) := filter (fun e => snd e <=? i) l.
(* depths strictly increase *)
Fixpoint ascending (l : list (Z * nat)) : Prop :=
  match l with
  | [] => True
  | e :: r => (match r with [] => True | e' :: _ => snd e < snd e' end) /\ ascending r
  end.
Lemma ascending_app_inv l1 : forall l2, ascending (l1 ++ l2) -> ascending l1 /\ ascending l2.
Proof.
  induction l1 as [|e r IH]; intros l2 H; cbn in *; [auto|].
  destruct H as [H1 H2]. destruct (IH l2 H2) as [A B]. split; [|exact B]. split; [|exact A].
  destruct r; [exact I|]. exact H1.
Qed.
Lemma ascending_last_max l x : ascending (l ++ [x]) -> forall e, In e l -> snd e < snd x.
Proof.
  induction l as [|a r IH]; intros H e Hin; [destruct Hin|].
  cbn [app] in H. destruct H as [H1 H2]. destruct Hin as [<-|Hin].
  - destruct r as [|b r']; [exact H1|]. cbn [app] in H1. specialize (IH H2 b (or_introl eq_refl)). lia.
  - exact (IH H2 e Hin).
Qed.
Lemma keep_app i l1 l2 : keep i (l1 ++ l2) = keep i l1 ++ keep i l2.
Proof. unfold keep. apply filter_app. Qed.
Lemma keep_all i l : (forall e, In e l -> snd e <= i) -> keep i l = l.
Proof.
  intros H. unfold keep. induction l as [|e r IH]; [reflexivity|]. cbn.
  replace (snd e <=? i) with true by (symmetry; apply Nat.leb_le; apply H; left; reflexivity).
  rewrite IH; [reflexivity|]. intros x Hx. apply H. right. exact Hx.
Qed.

(* cl_pop_to drops the entries deeper than the index; None iff nothing is left *)
Lemma cl_pop_to_spec : forall fuel cl i, length (cl_items cl) < fuel -> ascending (entries cl) ->
  match cl_pop_to fuel cl i with
  | Some cl' => entries cl' = keep i (entries cl) /\ keep i (entries cl) <> []
  | None => keep i (entries cl) = []
  end.
Proof.
  induction fuel as [|f IH]; intros cl i Hf Ha; [lia|]. cbn [cl_pop_to].
  unfold entries in *. destruct (Nat.ltb_spec i (snd (cl_cur cl))) as [Hlt|Hge].
  - (* the current entry is too deep *)
    rewrite keep_app. cbn [keep filter]. replace (snd (cl_cur cl) <=? i) with false by (symmetry; apply Nat.leb_gt; exact Hlt). rewrite app_nil_r.
    destruct (cl_items cl) as [|x l] eqn:Ei using rev_ind.
    + cbn. reflexivity.
    + clear IHl. rewrite rev_app_distr. cbn [rev app]. rewrite rev_involutive.
      assert (Ha' : ascending (l ++ [x])) by (rewrite <- app_assoc in Ha; exact (proj1 (ascending_app_inv (l ++ [x]) [cl_cur cl] ltac:(rewrite <- app_assoc; exact Ha)))).
      specialize (IH (mkCL l x) i). cbn [cl_items cl_cur] in IH. rewrite app_length in Hf. cbn in Hf.
      exact (IH ltac:(lia) Ha').
  - (* everything is shallow enough *)
    assert (Hall : forall e, In e (cl_items cl ++ [cl_cur cl]) -> snd e <= i).
    { intros e Hin. apply in_app_iff in Hin. destruct Hin as [Hin|[<-|[]]]; [|exact Hge].
      pose proof (ascending_last_max _ _ Ha e Hin). lia. }
    rewrite (keep_all i _ Hall). split; [reflexivity | destruct (cl_items cl); discriminate].
Qed.

(* ---------- the specification side: per level of the open-element chain, how many children are called n ---------- *)
Definition level_kids (t : tree_state) : list (list bytes) := t_root_children t :: rev (map o_children (t_open t)).
Fixpoint lv (n : bytes) (d : nat) (ks : list (list bytes)) : list (Z * nat) :=
  match ks with
  | [] => []
  | k :: r => (if count_same n k =? 0 then [] else [(Z.of_nat (count_same n k), d)]) ++ lv n (S d) r
  end.
Definition levels (t : tree_state) (n : bytes) : list (Z * nat) := lv n 0 (level_kids t).

Lemma lv_app n a : forall d b, lv n d (a ++ b) = lv n d a ++ lv n (d + length a) b.
Proof.
  induction a as [|k r IH]; intros d b; cbn [app lv length]; [rewrite Nat.add_0_r; reflexivity|].
  rewrite IH, <- app_assoc. replace (S d + length r) with (d + S (length r)) by lia. reflexivity.
Qed.
Lemma lv_depths n ks : forall d e, In e (lv n d ks) -> d <= snd e < d + length ks.
Proof.
  induction ks as [|k r IH]; intros d e H; cbn [lv] in H; [destruct H|].
  apply in_app_iff in H. destruct H as [H|H].
  - destruct (count_same n k =? 0); [destruct H|]. destruct H as [<-|[]]. cbn. lia.
  - specialize (IH (S d) e H). cbn [length]. lia.
Qed.
Lemma lv_ascending n ks : forall d, ascending (lv n d ks).
Proof.
  induction ks as [|k r IH]; intros d; cbn [lv]; [exact I|].
  destruct (count_same n k =? 0); cbn [app]; [apply IH|].
  split; [|apply IH]. destruct (lv n (S d) r) as [|e' l] eqn:E; [exact I|].
  assert (Hin : In e' (lv n (S d) r)) by (rewrite E; left; reflexivity). pose proof (lv_depths n r (S d) e' Hin). cbn. lia.
Qed.
Lemma keep_lv n i : forall ks d, keep i (lv n d ks) = lv n d (firstn (S i - d) ks).
Proof.
  induction ks as [|k r IH]; intros d; cbn [lv]; [destruct (S i - d); reflexivity|].
  rewrite keep_app, IH.
  destruct (Nat.leb_spec d i) as [Hle|Hgt].
  - replace (S i - d) with (S (i - d)) by lia. cbn [firstn lv]. replace (S i - S d) with (i - d) by lia. f_equal.
    destruct (count_same n k =? 0); [reflexivity|]. cbn. replace (d <=? i) with true by (symmetry; apply Nat.leb_le; exact Hle). reflexivity.
  - replace (S i - d) with 0 by lia. replace (S i - S d) with 0 by lia. cbn [firstn lv]. rewrite app_nil_r.
    destruct (count_same n k =? 0); [reflexivity|]. cbn. replace (d <=? i) with false by (symmetry; apply Nat.leb_gt; exact Hgt). reflexivity.
Qed.

(* name equality is an equivalence, and counting respects it *)
Lemma eic_refl a : eq_ignore_case a a = true.
Proof. induction a as [|x a IH]; [reflexivity|]. cbn. rewrite N.eqb_refl. exact IH. Qed.
Lemma eic_sym a : forall b, eq_ignore_case a b = eq_ignore_case b a.
Proof. induction a as [|x a IH]; intros [|y b]; try reflexivity. cbn. rewrite N.eqb_sym, IH. reflexivity. Qed.
Lemma eic_trans a : forall b c, eq_ignore_case a b = true -> eq_ignore_case b c = true -> eq_ignore_case a c = true.
Proof.
  induction a as [|x a IH]; intros [|y b] [|z c] H1 H2; try discriminate; [reflexivity|]. cbn in *.
  apply andb_true_iff in H1. apply andb_true_iff in H2. destruct H1 as [A1 B1], H2 as [A2 B2].
  apply N.eqb_eq in A1. apply N.eqb_eq in A2. rewrite A1, A2, N.eqb_refl. exact (IH _ _ B1 B2).
Qed.
Lemma name_eq_congr a b x : name_eq a b = true -> name_eq a x = name_eq b x.
Proof.
  unfold name_eq. intros H. destruct (eq_ignore_case a x) eqn:E1, (eq_ignore_case b x) eqn:E2; try reflexivity.
  - rewrite eic_sym in H. rewrite (eic_trans _ _ _ H E1) in E2. discriminate.
  - rewrite (eic_trans _ _ _ H E2) in E1. discriminate.
Qed.
Lemma count_same_congr a b l : name_eq a b = true -> count_same a l = count_same b l.
Proof. intros H. unfold count_same. f_equal. induction l as [|x l IH]; [reflexivity|]. cbn. rewrite (name_eq_congr a b x H), IH. reflexivity. Qed.
Lemma lv_congr a b ks : name_eq a b = true -> forall d, lv a d ks = lv b d ks.
Proof. intros H. induction ks as [|k r IH]; intros d; cbn [lv]; [reflexivity|]. rewrite (count_same_congr a b k H), IH. reflexivity. Qed.
Lemma count_same_snoc n l x : count_same n (l ++ [x]) = count_same n l + (if name_eq n x then 1 else 0).
Proof. unfold count_same. rewrite filter_app, app_length. cbn. destruct (name_eq n x); reflexivity. Qed.

(* ---------- one counter list under "a child named like this key appears at depth D" ---------- *)
Definition cl_add (cl : counter_list) (D : nat) : counter_list :=
  if snd cl.(cl_cur) =? D then mkCL cl.(cl_items) (inc32 (fst cl.(cl_cur)), D) else mkCL (cl.(cl_items) ++ [cl.(cl_cur)]) (1%Z, D).

Lemma lv_last n pre last : lv n 0 (pre ++ [last]) = lv n 0 pre ++ (if count_same n last =? 0 then [] else [(Z.of_nat (count_same n last), length pre)]).
Proof. rewrite lv_app. cbn [lv Nat.add]. rewrite app_nil_r. reflexivity. Qed.

Lemma entries_add n name pre last cl :
  name_eq n name = true -> small (count_same n last) ->
  entries cl = lv n 0 (pre ++ [last]) ->
  entries (cl_add cl (length pre)) = lv n 0 (pre ++ [last ++ [name]]).
Proof.
  intros Hn Hs He. rewrite lv_last in He. rewrite lv_last, count_same_snoc, Hn.
  replace (count_same n last + 1 =? 0) with false by (symmetry; apply Nat.eqb_neq; lia).
  unfold cl_add, entries in *.
  destruct (Nat.eqb_spec (count_same n last) 0) as [Hz|Hnz].
  - (* first child of that name at this depth *)
    rewrite app_nil_r in He. rewrite Hz. cbn [Nat.add].
    assert (Hd : snd (cl_cur cl) < length pre).
    { assert (Hin : In (cl_cur cl) (lv n 0 pre)) by (rewrite <- He; apply in_or_app; right; left; reflexivity).
      pose proof (lv_depths n pre 0 _ Hin). lia. }
    replace (snd (cl_cur cl) =? length pre) with false by (symmetry; apply Nat.eqb_neq; lia).
    cbn [cl_items cl_cur]. rewrite He. reflexivity.
  - apply app_inj_tail in He. destruct He as [Hi Hc]. rewrite Hc. cbn [snd fst]. rewrite Nat.eqb_refl. cbn [cl_items cl_cur].
    rewrite Hi. f_equal. f_equal. f_equal. rewrite inc32_small by exact Hs. lia.
Qed.
Lemma levels_add_other n name pre last : name_eq n name = false -> lv n 0 (pre ++ [last ++ [name]]) = lv n 0 (pre ++ [last]).
Proof. intros Hn. rewrite !lv_last, count_same_snoc, Hn, Nat.add_0_r. reflexivity. Qed.
Lemma levels_add_new n name pre last : name_eq n name = true -> lv n 0 (pre ++ [last]) = [] ->
  lv n 0 (pre ++ [last ++ [name]]) = [(1%Z, length pre)].
Proof.
  intros Hn He. rewrite lv_last in He. apply app_eq_nil in He. destruct He as [H1 H2].
  rewrite lv_last, count_same_snoc, Hn, H1.
  destruct (Nat.eqb_spec (count_same n last) 0) as [Hz|Hnz]; [|discriminate]. rewrite Hz. reflexivity.
Qed.

(* ---------- the whole map ---------- *)
Definition K (n : bytes) : lname := lname_of_str n.
Lemma K_eqb a b : lname_eqb (K a) (K b) = name_eq a b.
Proof. apply local_name_eq_is_case_insensitive_name_eq. Qed.
Lemma name_eq_sym a b : name_eq a b = name_eq b a. Proof. apply eic_sym. Qed.
Lemma name_eq_refl a : name_eq a a = true. Proof. apply eic_refl. Qed.

Fixpoint nodup_keys (m : list (lname * counter_list)) : Prop :=
  match m with [] => True | e :: r => (forall e', In e' r -> lname_eqb (fst e') (fst e) = false) /\ nodup_keys r end.
Record Minv (m : list (lname * counter_list)) (ks : list (list bytes)) : Prop := {
  mi_entries : forall k cl, In (k, cl) m -> exists n0, k = K n0 /\ entries cl = lv n0 0 ks /\ lv n0 0 ks <> [];
  mi_nodup : nodup_keys m;
  mi_complete : forall n, lv n 0 ks <> [] -> exists k cl, In (k, cl) m /\ lname_eqb k (K n) = true
}.

Lemma find_in m q k cl : nodup_keys m -> (forall k cl, In (k, cl) m -> exists n0, k = K n0) -> In (k, cl) m -> lname_eqb k q = true ->
  (exists nq, q = K nq) -> find (fun e => lname_eqb (fst e) q) m = Some (k, cl).
Proof.
  intros Hnd Hk Hin Hq [nq ->]. induction m as [|e r IH]; [destruct Hin|]. cbn [find].
  destruct Hnd as [Hd Hr]. destruct Hin as [->|Hin].
  - cbn [fst]. rewrite Hq. reflexivity.
  - destruct (lname_eqb (fst e) (K nq)) eqn:Ee.
    + exfalso. destruct e as [ke cle]. cbn [fst] in *. destruct (Hk ke cle (or_introl eq_refl)) as [ne ->]. destruct (Hk k cl (or_intror Hin)) as [nk ->].
      specialize (Hd (K nk, cl) Hin). cbn [fst] in Hd. rewrite K_eqb in *.
      rewrite (name_eq_congr nk nq ne Hq) in Hd. rewrite name_eq_sym in Hd. rewrite Ee in Hd. discriminate.
    + apply IH; [exact Hr | intros k0 cl0 H0; apply (Hk k0 cl0); right; exact H0 | exact Hin].
Qed.
Lemma find_none (m : list (lname * counter_list)) q : (forall k cl, In (k, cl) m -> lname_eqb k q = false) -> find (fun e => lname_eqb (fst e) q) m = None.
Proof. intros H. induction m as [|[k cl] r IH]; [reflexivity|]. cbn [find fst]. rewrite (H k cl (or_introl eq_refl)). apply IH. intros k0 cl0 H0. apply (H k0 cl0). right. exact H0. Qed.

(* pushing a new (empty) level changes nothing *)
Lemma Minv_push m ks : Minv m ks -> Minv m (ks ++ [[]]).
Proof.
  assert (E : forall n, lv n 0 (ks ++ [[]]) = lv n 0 ks) by (intros n; rewrite lv_last; cbn; apply app_nil_r).
  intros [H1 H2 H3]. constructor; [|exact H2|].
  - intros k cl Hin. destruct (H1 k cl Hin) as [n0 [A [B C]]]. exists n0. rewrite E. auto.
  - intros n Hn. rewrite E in Hn. exact (H3 n Hn).
Qed.

(* popping to depth i *)
Lemma Minv_pop m ks i : Minv m ks -> Minv (typed_pop_to m i) (firstn (S i) ks).
Proof.
  assert (E : forall n, keep i (lv n 0 ks) = lv n 0 (firstn (S i) ks)) by (intros n; rewrite keep_lv, Nat.sub_0_r; reflexivity).
  intros [H1 H2 H3].
  assert (Hin : forall k cl', In (k, cl') (typed_pop_to m i) -> exists cl, In (k, cl) m /\ entries cl' = keep i (entries cl) /\ keep i (entries cl) <> []).
  { intros k cl' H. unfold typed_pop_to in H. apply in_flat_map in H. destruct H as [[k0 cl] [Hm Hx]]. cbn [fst snd] in Hx.
    destruct (H1 k0 cl Hm) as [n0 [_ [He _]]].
    pose proof (cl_pop_to_spec (S (length (cl_items cl))) cl i ltac:(lia) ltac:(rewrite He; apply lv_ascending)) as Hs.
    destruct (cl_pop_to _ cl i) as [c2|]; [|destruct Hx]. destruct Hx as [Hx|[]]. inversion Hx; subst. exists cl. tauto. }
  constructor.
  - intros k cl' H. destruct (Hin k cl' H) as [cl [Hm [He Hne]]]. destruct (H1 k cl Hm) as [n0 [A [B C]]].
    exists n0. rewrite He, B, E in *. auto.
  - clear Hin H1 H3. induction m as [|[k cl] r IH]; [exact I|]. destruct H2 as [Hd Hr]. unfold typed_pop_to. cbn [flat_map fst snd].
    destruct (cl_pop_to _ cl i) as [c2|]; cbn [app]; [|apply IH; exact Hr].
    split; [|apply IH; exact Hr]. intros e' He'. apply in_flat_map in He'. destruct He' as [[k0 cl0] [Hm Hx]]. cbn [fst snd] in Hx.
    destruct (cl_pop_to _ cl0 i); [|destruct Hx]. destruct Hx as [<-|[]]. cbn [fst]. exact (Hd (k0, cl0) Hm).
  - intros n Hn. rewrite <- E in Hn.
    assert (Hn0 : lv n 0 ks <> []) by (intro Z; rewrite Z in Hn; apply Hn; reflexivity).
    destruct (H3 n Hn0) as [k [cl [Hm Hk]]]. destruct (H1 k cl Hm) as [n0 [-> [He _]]].
    rewrite K_eqb in Hk. rewrite <- (lv_congr n0 n ks Hk 0) in Hn. rewrite <- He in Hn.
    pose proof (cl_pop_to_spec (S (length (cl_items cl))) cl i ltac:(lia) ltac:(rewrite He; apply lv_ascending)) as Hs.
    destruct (cl_pop_to (S (length (cl_items cl))) cl i) as [c2|] eqn:Ec; [|contradiction].
    exists (K n0), c2. split; [|rewrite K_eqb; exact Hk].
    unfold typed_pop_to. apply in_flat_map. exists (K n0, cl). split; [exact Hm|]. cbn [fst snd]. rewrite Ec. left. reflexivity.
Qed.

(* ---------- adding a child ---------- *)
Definition kform (m : list (lname * counter_list)) : Prop := forall k cl, In (k, cl) m -> exists n0, k = K n0.
Lemma typed_add_cons_match n cl r q D : lname_eqb n q = true -> typed_add ((n, cl) :: r) q D = (n, cl_add cl D) :: r.
Proof. intros H. cbn [typed_add]. rewrite H. reflexivity. Qed.
Lemma typed_add_cons_other n cl r q D : lname_eqb n q = false -> typed_add ((n, cl) :: r) q D = (n, cl) :: typed_add r q D.
Proof. intros H. cbn [typed_add]. rewrite H. reflexivity. Qed.

Lemma typed_add_spec m nq D : kform m -> nodup_keys m ->
  let q := K nq in let m' := typed_add m q D in
  (forall k' c', In (k', c') m' ->
      (In (k', c') m /\ lname_eqb k' q = false) \/ (exists c, In (k', c) m /\ lname_eqb k' q = true /\ c' = cl_add c D)
      \/ ((forall k c, In (k, c) m -> lname_eqb k q = false) /\ k' = q /\ c' = mkCL [] (1%Z, D)))
  /\ (forall k c, In (k, c) m -> lname_eqb k q = false -> In (k, c) m')
  /\ (forall k c, In (k, c) m -> lname_eqb k q = true -> In (k, cl_add c D) m')
  /\ ((forall k c, In (k, c) m -> lname_eqb k q = false) -> In (q, mkCL [] (1%Z, D)) m')
  /\ nodup_keys m' /\ kform m'.
Proof.
  intros Hk Hnd. cbn zeta. induction m as [|[n cl] r IH].
  - cbn [typed_add]. repeat split.
    + intros k' c' [E|[]]. inversion E; subst. right. right. split; [intros ? ? []|split; reflexivity].
    + intros ? ? [].
    + intros ? ? [].
    + intros _. left. reflexivity.
    + intros ? [].
    + intros k cl [E|[]]. inversion E; subst. exists nq. reflexivity.
  - destruct Hnd as [Hd Hr].
    assert (Hkr : kform r) by (intros k c H; apply (Hk k c); right; exact H).
    destruct (Hk n cl (or_introl eq_refl)) as [nn ->].
    destruct (lname_eqb (K nn) (K nq)) eqn:Em.
    + (* the head is the entry for this name; nothing else matches *)
      rewrite typed_add_cons_match by exact Em.
      assert (Hothers : forall k c, In (k, c) r -> lname_eqb k (K nq) = false).
      { intros k c Hin. destruct (Hkr k c Hin) as [nk ->]. specialize (Hd (K nk, c) Hin). cbn [fst] in Hd. rewrite K_eqb in *.
        destruct (name_eq nk nq) eqn:E; [|reflexivity]. rewrite (name_eq_congr nk nq nn E) in Hd. rewrite name_eq_sym in Hd. rewrite Em in Hd. discriminate. }
      repeat split.
      * intros k' c' [E|Hin]; [inversion E; subst; right; left; exists cl; repeat split; [left; reflexivity | exact Em] | left; split; [right; exact Hin | exact (Hothers k' c' Hin)]].
      * intros k c [E|Hin] Hf; [inversion E; subst; rewrite Em in Hf; discriminate | right; exact Hin].
      * intros k c [E|Hin] Ht; [inversion E; subst; left; reflexivity | rewrite (Hothers k c Hin) in Ht; discriminate].
      * intros Hno. specialize (Hno (K nn) cl (or_introl eq_refl)). rewrite Em in Hno. discriminate.
      * exact Hd.
      * exact Hr.
      * intros k c [E|Hin]; [inversion E; subst; exists nn; reflexivity | exact (Hkr k c Hin)].
    + rewrite typed_add_cons_other by exact Em.
      destruct (IH Hkr Hr) as [I1 [I2 [I3 [I4 [I5 I6]]]]].
      repeat split.
      * intros k' c' [E|Hin]; [inversion E; subst; left; split; [left; reflexivity | exact Em]|].
        destruct (I1 k' c' Hin) as [[A B]|[[c [A [B C]]]|[A [B C]]]].
        -- left. split; [right; exact A | exact B].
        -- right. left. exists c. repeat split; [right; exact A | exact B | exact C].
        -- right. right. split; [|split; assumption]. intros k c [E|Hc]; [inversion E; subst; exact Em | exact (A k c Hc)].
      * intros k c [E|Hin] Hf; [inversion E; subst; left; reflexivity | right; exact (I2 k c Hin Hf)].
      * intros k c [E|Hin] Ht; [inversion E; subst; rewrite Em in Ht; discriminate | right; exact (I3 k c Hin Ht)].
      * intros Hno. right. apply I4. intros k c Hc. apply (Hno k c). right. exact Hc.
      * intros e' He'. destruct e' as [k' c']. cbn [fst]. destruct (I1 k' c' He') as [[A B]|[[c [A [B C]]]|[A [B C]]]].
        -- exact (Hd (k', c') A).
        -- exact (Hd (k', c) A).
        -- subst k'. rewrite K_eqb, name_eq_sym, <- K_eqb. exact Em.
      * exact I5.
      * intros k c [E|Hin]; [inversion E; subst; exists nn; reflexivity | exact (I6 k c Hin)].
Qed.

Lemma classic_find (m : list (lname * counter_list)) name :
  (exists k cl, In (k, cl) m /\ lname_eqb k (K name) = true) \/ (forall k cl, In (k, cl) m -> lname_eqb k (K name) = false).
Proof.
  induction m as [|[k cl] r IH]; [right; intros ? ? []|].
  destruct (lname_eqb k (K name)) eqn:E; [left; exists k, cl; split; [left; reflexivity | exact E]|].
  destruct IH as [[k' [cl' [H1 H2]]]|H]; [left; exists k', cl'; split; [right; exact H1 | exact H2]|].
  right. intros k0 c0 [E0|H0]; [inversion E0; subst; exact E | exact (H k0 c0 H0)].
Qed.
Lemma Minv_add m pre last name : Minv m (pre ++ [last]) -> small (count_same name last) ->
  Minv (typed_add m (K name) (length pre)) (pre ++ [last ++ [name]]).
Proof.
  intros [H1 H2 H3] Hs.
  assert (Hk : kform m) by (intros k cl H; destruct (H1 k cl H) as [n0 [E _]]; exists n0; exact E).
  destruct (typed_add_spec m name (length pre) Hk H2) as [S1 [S2 [S3 [S4 [S5 S6]]]]]. cbn zeta in *.
  constructor; [| exact S5 |].
  - intros k' c' Hin. destruct (S1 k' c' Hin) as [[A B]|[[c [A [B C]]]|[A [B C]]]].
    + destruct (H1 k' c' A) as [n0 [-> [He Hne]]]. exists n0. rewrite K_eqb in B.
      rewrite (levels_add_other n0 name pre last B). auto.
    + destruct (H1 k' c A) as [n0 [-> [He Hne]]]. exists n0. rewrite K_eqb in B. subst c'.
      assert (Hs0 : small (count_same n0 last)) by (rewrite (count_same_congr n0 name last B); exact Hs).
      split; [reflexivity|]. split; [exact (entries_add n0 name pre last c B Hs0 He)|].
      rewrite <- (entries_add n0 name pre last c B Hs0 He). unfold entries. destruct (cl_items (cl_add c (length pre))); discriminate.
    + subst k' c'. exists name. split; [reflexivity|].
      assert (Hnil : lv name 0 (pre ++ [last]) = []).
      { destruct (lv name 0 (pre ++ [last])) eqn:E; [reflexivity|]. exfalso.
        destruct (H3 name ltac:(rewrite E; discriminate)) as [k [cl [Hm Hq]]]. rewrite (A k cl Hm) in Hq. discriminate. }
      rewrite (levels_add_new name name pre last (name_eq_refl name) Hnil). split; [reflexivity | discriminate].
  - intros n Hn. destruct (name_eq n name) eqn:En.
    + (* the name that was added: its entry exists now *)
      destruct (classic_find m name) as [[k [cl [Hm Hq]]]|Hno].
      * exists k, (cl_add cl (length pre)). split; [exact (S3 k cl Hm Hq)|].
        destruct (H1 k cl Hm) as [n0 [-> _]]. rewrite K_eqb in *. rewrite (name_eq_congr n0 name n Hq). rewrite name_eq_sym. exact En.
      * exists (K name), (mkCL [] (1%Z, length pre)). split; [exact (S4 Hno)|]. rewrite K_eqb, name_eq_sym. exact En.
    + rewrite (levels_add_other n name pre last En) in Hn. destruct (H3 n Hn) as [k [cl [Hm Hq]]].
      exists k, cl. split; [|exact Hq]. apply S2; [exact Hm|].
      destruct (H1 k cl Hm) as [n0 [-> _]]. rewrite K_eqb in *.
      destruct (name_eq n0 name) eqn:E0; [|reflexivity]. rewrite (name_eq_congr n0 n name Hq) in E0. rewrite E0 in En. discriminate.
Qed.

Lemma typed_get_after_add m pre last name : Minv m (pre ++ [last ++ [name]]) ->
  typed_get m (K name) (length pre) = Some (Z.of_nat (S (count_same name last))).
Proof.
  intros [H1 H2 H3].
  assert (Hlv : lv name 0 (pre ++ [last ++ [name]]) = lv name 0 pre ++ [(Z.of_nat (S (count_same name last)), length pre)]).
  { rewrite lv_last, count_same_snoc, name_eq_refl. replace (count_same name last + 1 =? 0) with false by (symmetry; apply Nat.eqb_neq; lia).
    rewrite Nat.add_1_r. reflexivity. }
  destruct (H3 name ltac:(rewrite Hlv; destruct (lv name 0 pre); discriminate)) as [k [cl [Hm Hq]]].
  assert (Hk : forall k cl, In (k, cl) m -> exists n0, k = K n0) by (intros k0 c0 H; destruct (H1 k0 c0 H) as [n0 [E _]]; exists n0; exact E).
  unfold typed_get. rewrite (find_in m (K name) k cl H2 Hk Hm Hq (ex_intro _ name eq_refl)).
  destruct (H1 k cl Hm) as [n0 [-> [He _]]]. rewrite K_eqb in Hq. rewrite (lv_congr n0 name _ Hq 0), Hlv in He.
  unfold entries in He. apply app_inj_tail in He. destruct He as [_ ->]. cbn [snd fst]. rewrite Nat.eqb_refl. reflexivity.
Qed.

Lemma filter_len_le {A} (f : A -> bool) l : length (filter f l) <= length l.
Proof. induction l as [|x l IH]; [apply le_n|]. cbn. destruct (f x); cbn; lia. Qed.

(* ---------- the stack with its counters against the tree ---------- *)
Definition Rfull (s : vstack) (t : tree_state) : Prop :=
  shape s = tshape t /\ match vs_typed s with Some m => Minv m (level_kids t) | None => True end.

Lemma shape_length s t : shape s = tshape t -> length (vs_items s) = length (t_open t).
Proof. rewrite shape_eq, tshape_eq. intros E. injection E as _ Ei. apply (f_equal (@length _)) in Ei. rewrite map_length, rev_length, map_length in Ei. exact Ei. Qed.
Lemma level_kids_split t : exists pre, level_kids t = pre ++ [siblings t] /\ length pre = length (t_open t) /\
  forall name, level_kids (add_child_tree t name) = pre ++ [siblings t ++ [name]].
Proof.
  unfold level_kids, siblings, add_child_tree. destruct (t_open t) as [|o r].
  - exists []. cbn. auto.
  - exists (t_root_children t :: rev (map o_children r)). cbn [map rev t_open t_root_children o_children length].
    rewrite rev_length, map_length. split; [reflexivity|]. split; [reflexivity|]. intros name. reflexivity.
Qed.
Lemma typed_of_add_child s ln : vs_typed (stack_add_child s ln) = option_map (fun m => typed_add m ln (length (vs_items s))) (vs_typed s).
Proof.
  unfold stack_add_child. destruct (vs_items s) as [|i0 rest] eqn:E.
  - cbn [vs_typed vs_items]. destruct (vs_typed s); reflexivity.
  - cbn [vs_typed vs_items]. destruct (vs_typed s); cbn [option_map vs_typed]; [|reflexivity].
    f_equal. f_equal. unfold Selectors.map_last. destruct (rev (i0 :: rest)) eqn:Er; [apply (f_equal (@length _)) in Er; rewrite rev_length in Er; discriminate|].
    rewrite rev_length. cbn [length]. apply (f_equal (@length _)) in Er. rewrite rev_length in Er. cbn [length] in Er. lia.
Qed.

Lemma full_add_child s t name : Rfull s t -> small (length (siblings t)) ->
  Rfull (stack_add_child s (K name)) (add_child_tree t name) /\
  ss_cumulative (build_state (stack_add_child s (K name)) (K name)) = e_index (fst (on_start t name Html [] false)) /\
  (vs_typed s <> None -> ss_typed (build_state (stack_add_child s (K name)) (K name)) = Some (e_type_index (fst (on_start t name Html [] false)))).
Proof.
  intros [Hsh Ht] Hs. destruct (shape_add_child s t (K name) name Hsh Hs) as [A B].
  destruct (level_kids_split t) as [pre [Elk [Elen Eadd]]].
  assert (Hcs : small (count_same name (siblings t))).
  { unfold small in *. unfold count_same. pose proof (filter_len_le (name_eq name) (siblings t)). lia. }
  assert (Hlen : length (vs_items s) = length pre) by (rewrite Elen; exact (shape_length s t Hsh)).
  split; [|split].
  - split; [exact A|]. rewrite typed_of_add_child. destruct (vs_typed s) as [m|]; cbn [option_map]; [|exact I].
    rewrite Eadd, Hlen. rewrite Elk in Ht. exact (Minv_add m pre (siblings t) name Ht Hcs).
  - rewrite B. unfold on_start, siblings. cbn [fst e_index]. destruct (t_open t); reflexivity.
  - intros Hty. unfold build_state. cbn [ss_typed]. rewrite typed_of_add_child. destruct (vs_typed s) as [m|]; [|contradiction]. cbn [option_map].
    assert (Hitems : length (vs_items (stack_add_child s (K name))) = length pre).
    { rewrite (shape_length _ _ A). unfold add_child_tree. destruct (t_open t); cbn [t_open length] in *; lia. }
    rewrite Hitems, Hlen. rewrite Elk in Ht.
    rewrite (typed_get_after_add _ pre (siblings t) name (Minv_add m pre (siblings t) name Ht Hcs)).
    unfold on_start, siblings. cbn [fst e_type_index]. destruct (t_open t); reflexivity.
Qed.

Lemma full_push s t it name el isz mi other mx s' ch :
  Rfull s t -> si_name it = K name -> si_children it = 0%Z -> e_name el = name ->
  stack_push s it isz mi other mx = (s', ch, true) ->
  Rfull s' (mkTree (mkOpen el [] :: t_open t) (t_root_children t)).
Proof.
  intros [Hsh Ht] Hn Hc He Hp. split; [exact (shape_push s t it name el isz mi other mx s' ch Hsh Hn Hc He Hp)|].
  assert (Hty : vs_typed s' = vs_typed s).
  { unfold stack_push in Hp. destruct (length (vs_items s) <? vs_cap s); [inversion Hp; reflexivity|]. destruct (_ <=? _)%N; inversion Hp; reflexivity. }
  rewrite Hty. destruct (vs_typed s) as [m|]; [|exact I].
  replace (level_kids (mkTree (mkOpen el [] :: t_open t) (t_root_children t))) with (level_kids t ++ [[]]).
  - apply Minv_push. exact Ht.
  - unfold level_kids. cbn [t_open t_root_children map rev o_children]. reflexivity.
Qed.

Lemma close_to_suffix name l : match close_to name l with Some rest => exists pre o, l = pre ++ o :: rest | None => True end.
Proof.
  induction l as [|o r IH]; cbn [close_to]; [exact I|].
  destruct (name_eq (e_name (o_el o)) name); [exists [], o; reflexivity|].
  destruct (close_to name r) as [rest|]; [|exact I]. destruct IH as [pre [o' E]]. exists (o :: pre), o'. rewrite E. reflexivity.
Qed.
Lemma full_pop s t name s' popped : Rfull s t -> stack_pop_up_to s (K name) = (s', popped) -> Rfull s' (on_end t name).
Proof.
  intros [Hsh Ht] Hp. split; [exact (shape_pop s t (K name) name s' popped Hsh eq_refl Hp)|].
  rewrite shape_eq, tshape_eq in Hsh. injection Hsh as Er Ei.
  pose proof (pop_matches_close (vs_items s) (t_open t) (K name) name Ei eq_refl) as H.
  unfold stack_pop_up_to in Hp. unfold on_end. pose proof (close_to_suffix name (t_open t)) as Hsuf.
  destruct (close_to name (t_open t)) as [rest|].
  - destruct H as [H1 _]. rewrite H1 in Hp. inversion Hp; subst s' popped; clear Hp. cbn [vs_typed].
    destruct (vs_typed s) as [m|]; cbn [option_map]; [|exact I].
    destruct Hsuf as [pre [o E]].
    replace (level_kids (mkTree rest (t_root_children t))) with (firstn (S (length rest)) (level_kids t)).
    + apply Minv_pop. exact Ht.
    + unfold level_kids. cbn [t_open t_root_children firstn]. f_equal. rewrite E, map_app, rev_app_distr. cbn [map rev].
      rewrite <- app_assoc. rewrite firstn_app. rewrite rev_length, map_length, Nat.sub_diag. cbn [firstn]. rewrite app_nil_r.
      apply firstn_all2. rewrite rev_length, map_length. apply le_n.
  - rewrite H in Hp. inversion Hp; subst. exact Ht.
Qed.

(* ---------- the controller level ---------- *)
From LolModel Require Import Machine Rewriter.

Lemma finish_exec_full c ext ec c' f t name el :
  Rfull (r_stack c) t -> si_name (ec_item ec) = K name -> si_children (ec_item ec) = 0%Z -> e_name el = name ->
  finish_exec c ext ec = (c', FOk f) ->
  Rfull (r_stack c') (if ec_with_content ec then mkTree (mkOpen el [] :: t_open t) (t_root_children t) else t) /\ r_prog c' = r_prog c.
Proof.
  intros Hsh Hn Hc He. unfold finish_exec.
  destruct (start_matching_stack (ed_matched (si_data (ec_item ec))) c (ec_with_content ec)) as [S1 S2].
  destruct (ec_with_content ec).
  - destruct (stack_push _ _ _ _ _ _) as [[s' charged] ok] eqn:Ep. destruct ok; intro E; [|discriminate E]. injection E as <- _.
    cbn [rset_vm r_stack r_prog]. split; [|exact S2]. rewrite S1 in Ep. exact (full_push _ _ _ name el _ _ _ _ _ _ Hsh Hn Hc He Ep).
  - intro E. injection E as <- _. rewrite S1. split; [exact Hsh | exact S2].
Qed.

(* what the VM reads for the element of a start tag: its two sibling indices *)
Definition indices_ok (s : vstack) (t : tree_state) (name : bytes) : Prop :=
  let s1 := stack_add_child s (K name) in let el := fst (on_start t name Html [] false) in
  ss_cumulative (build_state s1 (K name)) = e_index el /\ (vs_typed s <> None -> ss_typed (build_state s1 (K name)) = Some (e_type_index el)).

Theorem start_tag_keeps_stack_and_counters c ext name n attrs sc c' t :
  r_prog c <> None -> Rfull (r_stack c) t -> small (length (siblings t)) ->
  vm_on_start c ext name n attrs sc = Some c' ->
  Rfull (r_stack c') (after_start t name n sc) /\ r_prog c' <> None /\ indices_ok (r_stack c) t name.
Proof.
  intros Hp Hsh Hsm. destruct (full_add_child (r_stack c) t name Hsh Hsm) as [Hs1 [Hidx Hty]].
  unfold vm_on_start, rw_start_tag.
  destruct (r_prog c) as [prog|] eqn:Eprog; [|contradiction].
  change (lname_of name (hash_of name)) with (K name).
  set (s1 := stack_add_child (r_stack c) (K name)) in *.
  set (c1 := rset_vm c s1 (r_vm_charged c)).
  assert (Hc1 : Rfull (r_stack c1) (add_child_tree t name)) by exact Hs1.
  assert (Hp1 : r_prog c1 = Some prog) by exact Eprog.
  intro Hrun. assert (G : Rfull (r_stack c') (after_start t name n sc) /\ r_prog c' <> None); [|destruct G as [G1 G2]; split; [exact G1|split; [exact G2|exact (conj Hidx Hty)]]].
  revert Hrun. rewrite after_start_eq. cbn zeta.
  set (el := fst (on_start t name n [] sc)).
  set (ec0 := mkEC (mkSI (K name) (mkED [] None false) [] [] 0%Z) true n).
  unfold get_stack_directive, stays_open. change (is_void (K name)) with (is_void (lname_of_str name)). rewrite is_void_is_void_name.
  destruct (ns_eqb n Html) eqn:Ens.
  - set (wc := negb (is_void_name name)).
    set (ec := mkEC (ec_item ec0) wc n).
    assert (Hgo : match exec_without_attrs prog s1 ec with
                  | WoPanic => True
                  | WoBail ec' a r =>
                      forall c'', (match rw_aux_info (rset_pending c1 (Some (ec', Some (a, r)))) ext attrs sc with (c2, FOk _) => Some c2 | _ => None end) = Some c'' ->
                      Rfull (r_stack c'') (if wc then mkTree (mkOpen el [] :: t_open (add_child_tree t name)) (t_root_children (add_child_tree t name)) else add_child_tree t name) /\ r_prog c'' <> None
                  | WoDone ec' =>
                      forall c'' f, finish_exec c1 ext ec' = (c'', FOk f) ->
                      Rfull (r_stack c'') (if wc then mkTree (mkOpen el [] :: t_open (add_child_tree t name)) (t_root_children (add_child_tree t name)) else add_child_tree t name) /\ r_prog c'' <> None
                  end).
    { pose proof (exec_without_attrs_sig prog s1 ec) as Hsig.
      destruct (exec_without_attrs prog s1 ec) as [ec'|ec' a r|]; [| |exact I].
      - intros c'' f Ef. unfold esig in Hsig. injection Hsig as H1 H2 H3 H4.
        destruct (finish_exec_full c1 ext ec' c'' f (add_child_tree t name) name el Hc1 H1 H2 eq_refl Ef) as [A B].
        rewrite H3 in A. split; [exact A | rewrite B, Hp1; discriminate].
      - intros c''. unfold rw_aux_info. cbn [rset_pending r_prog r_pending]. rewrite Hp1.
        destruct (recover prog _ ec' a r attrs) as [ec''|] eqn:Er; [|discriminate].
        pose proof (recover_sig _ _ _ _ _ _ _ Er) as Hs2. unfold esig in Hsig, Hs2. rewrite Hsig in Hs2. injection Hs2 as H1 H2 H3 H4.
        destruct (finish_exec _ ext ec'') as [c2 fr] eqn:Ef. destruct fr; [|discriminate]. intro E; inversion E; subst c2.
        destruct (finish_exec_full (rset_pending (rset_pending c1 (Some (ec', Some (a, r)))) None) ext ec'' c'' f (add_child_tree t name) name el Hc1 H1 H2 eq_refl Ef) as [A B].
        rewrite H3 in A. split; [exact A | rewrite B; cbn [rset_pending r_prog]; rewrite Hp1; discriminate]. }
    destruct (is_void_name name) eqn:Ev; cbn [negb] in *; unfold wc, ec in Hgo; rewrite ?Ev in Hgo; cbn [negb] in Hgo.
    + destruct (exec_without_attrs prog s1 _) as [ec'|ec' a r|]; [| |discriminate].
      * destruct (finish_exec c1 ext ec') as [c2 fr] eqn:Ef. destruct fr; [|discriminate]. intro E; inversion E; subst. exact (Hgo c' f eq_refl).
      * intro E. exact (Hgo c' E).
    + destruct (exec_without_attrs prog s1 _) as [ec'|ec' a r|]; [| |discriminate].
      * destruct (finish_exec c1 ext ec') as [c2 fr] eqn:Ef. destruct fr; [|discriminate]. intro E; inversion E; subst. exact (Hgo c' f eq_refl).
      * intro E. exact (Hgo c' E).
  - unfold rw_aux_info. cbn [rset_pending r_prog r_pending]. rewrite Hp1.
    destruct (exec_all_with_attrs prog _ _ attrs) as [ec'|] eqn:Ee; [|discriminate].
    pose proof (exec_all_with_attrs_sig _ _ _ _ _ Ee) as Hsig. unfold esig in Hsig. cbn [ec_item ec_with_content ec_ns ec0 si_name si_children] in Hsig. injection Hsig as H1 H2 H3 H4.
    destruct (finish_exec _ ext ec') as [c2 fr] eqn:Ef. destruct fr; [|discriminate]. intro E; inversion E; subst c2.
    destruct (finish_exec_full (rset_pending (rset_pending c1 (Some (ec0, None))) None) ext ec' c' f (add_child_tree t name) name el Hc1 H1 H2 eq_refl Ef) as [A B].
    rewrite H3 in A. split; [exact A | rewrite B; cbn [rset_pending r_prog]; rewrite Hp1; discriminate].
Qed.

Theorem end_tag_keeps_stack_and_counters c name c' f t :
  r_prog c <> None -> Rfull (r_stack c) t -> rw_end_tag c name (hash_of name) = (c', f) ->
  Rfull (r_stack c') (on_end t name) /\ r_prog c' <> None.
Proof.
  intros Hp Hsh. unfold rw_end_tag. destruct (r_prog c) as [prog|] eqn:Eprog; [|contradiction].
  change (lname_of name (hash_of name)) with (K name).
  destruct (stack_pop_up_to (r_stack c) (K name)) as [s' popped] eqn:Epop. intro E; inversion E; subst; clear E.
  assert (Hst : forall l c0, r_stack (fold_left stop_matching l c0) = r_stack c0 /\ r_prog (fold_left stop_matching l c0) = r_prog c0).
  { induction l as [|d l IH]; intros c0; cbn [fold_left]; [split; reflexivity|].
    destruct (IH (stop_matching c0 d)) as [A B]. destruct (stop_matching_stack c0 d) as [X Y]. rewrite A, B, X, Y. split; reflexivity. }
  destruct (Hst popped (rset_vm c s' (r_vm_charged c))) as [A B]. rewrite A, B. cbn [rset_vm r_stack r_prog].
  split; [exact (full_pop _ _ name s' popped Hsh Epop) | rewrite Eprog; discriminate].
Qed.

(* every sequence of tags: the stack, the child counters and the per-type counters follow the tag-induced tree *)
Theorem vm_stack_and_counters_follow_the_tree ops : forall c ext t c',
  r_prog c <> None -> Rfull (r_stack c) t -> never_wraps t ops -> vm_run c ext ops = Some c' -> Rfull (r_stack c') (tree_run t ops).
Proof.
  induction ops as [|op r IH]; intros c ext t c' Hp Hsh Hw Hrun; cbn [vm_run tree_run never_wraps] in *.
  - inversion Hrun; subst. exact Hsh.
  - destruct op as [name n attrs sc|name].
    + destruct Hw as [Hs Hw]. destruct (vm_on_start c ext name n attrs sc) as [c1|] eqn:E; [|discriminate].
      destruct (start_tag_keeps_stack_and_counters c ext name n attrs sc c1 t Hp Hsh Hs E) as [A [B _]].
      exact (IH c1 ext _ c' B A Hw Hrun).
    + destruct (rw_end_tag c name (hash_of name)) as [c1 f] eqn:E.
      destruct (end_tag_keeps_stack_and_counters c name c1 f t Hp Hsh E) as [A B].
      exact (IH c1 ext _ c' B A Hw Hrun).
Qed.
(* the initial state *)
Lemma new_vstack_full b : Rfull (new_vstack b) (mkTree [] []).
Proof.
  split; [reflexivity|]. unfold new_vstack. destruct b; cbn [vs_typed]; [|exact I].
  constructor; [intros ? ? [] | exact I | intros n H; exfalso; apply H; reflexivity].
Qed.
