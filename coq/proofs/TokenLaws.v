(* Token-level laws of the level-2 model: mutations and serialisation (C07), escaping (C08), attribute API (C16). *)
From LolModel Require Import Machine Selectors Rewriter.
From Coq Require Import Lia.
Open Scope nat_scope.

(* ---------------- C08: escaping ---------------- *)
Lemma escape_body_text_app a b : escape_body_text (a ++ b) = escape_body_text a ++ escape_body_text b.
Proof. induction a as [|c r IH]; cbn; [reflexivity|]. rewrite IH, app_assoc. reflexivity. Qed.
Definition is_lt_gt (c : N) : bool := ((c =? 60) || (c =? 62))%N.
Theorem escape_body_text_no_markup s : forallb (fun c => negb (is_lt_gt c)) (escape_body_text s) = true.
Proof.
  induction s as [|c r IH]; cbn; [reflexivity|]. rewrite forallb_app, IH, andb_true_r.
  destruct (N.eqb_spec c 60); [subst; reflexivity|]. destruct (N.eqb_spec c 62); [subst; reflexivity|].
  destruct (N.eqb_spec c 38); [subst; reflexivity|]. cbn. unfold is_lt_gt.
  destruct (N.eqb_spec c 60); [contradiction|]. destruct (N.eqb_spec c 62); [contradiction|]. reflexivity.
Qed.
(* the inverse: decoding the three character references gives the text back *)
Fixpoint unescape (fuel : nat) (s : bytes) : bytes :=
  match fuel with
  | O => s
  | S f =>
      match s with
      | [] => []
      | 38%N :: 108%N :: 116%N :: 59%N :: r => 60%N :: unescape f r            (* &lt; *)
      | 38%N :: 103%N :: 116%N :: 59%N :: r => 62%N :: unescape f r            (* &gt; *)
      | 38%N :: 97%N :: 109%N :: 112%N :: 59%N :: r => 38%N :: unescape f r    (* &amp; *)
      | c :: r => c :: unescape f r
      end
  end.
Theorem unescape_escape_body_text s : forall fuel, length s <= fuel -> unescape fuel (escape_body_text s) = s.
Proof.
  induction s as [|c r IH]; intros fuel Hf; [destruct fuel; reflexivity|].
  destruct fuel as [|f]; [cbn in Hf; lia|]. cbn in Hf. cbn [escape_body_text].
  destruct (N.eqb_spec c 60); [subst; cbn; rewrite IH by lia; reflexivity|].
  destruct (N.eqb_spec c 62); [subst; cbn; rewrite IH by lia; reflexivity|].
  destruct (N.eqb_spec c 38); [subst; cbn; rewrite IH by lia; reflexivity|].
  cbn [app unescape].
  assert (Hc : c <> 38%N) by assumption.
  destruct c as [|p]; [rewrite IH by lia; reflexivity|].
  (* c is not '&', so no reference starts here *)
  destruct p as [[[[[[p|p|]|[p|p|]|]|[[p|p|]|[p|p|]|]|]|[[[p|p|]|[p|p|]|]|[[p|p|]|[p|p|]|]|]|]|[[[[p|p|]|[p|p|]|]|[[p|p|]|[p|p|]|]|]|[[[p|p|]|[p|p|]|]|[[p|p|]|[p|p|]|]|]|]|]|[[[[[p|p|]|[p|p|]|]|[[p|p|]|[p|p|]|]|]|[[[p|p|]|[p|p|]|]|[[p|p|]|[p|p|]|]|]|]|[[[[p|p|]|[p|p|]|]|[[p|p|]|[p|p|]|]|]|[[[p|p|]|[p|p|]|]|[[p|p|]|[p|p|]|]|]|]|]|];
    try (rewrite IH by lia; reflexivity); try (exfalso; apply Hc; reflexivity).
Qed.
Theorem escape_double_quotes_no_quote s : forallb (fun c => negb (c =? 34)%N) (escape_double_quotes s) = true.
Proof.
  induction s as [|c r IH]; cbn; [reflexivity|]. rewrite forallb_app, IH, andb_true_r.
  destruct (N.eqb_spec c 34); [subst; reflexivity|]. cbn. destruct (N.eqb_spec c 34); [contradiction | reflexivity].
Qed.

(* ---------------- C07: mutations ---------------- *)
Theorem serialize_with_shape m self :
  serialize_with (Some m) self = encode_chunks m.(mu_before) ++ (if m.(mu_removed) then encode_chunks m.(mu_repl) else self) ++ encode_chunks m.(mu_after).
Proof. reflexivity. Qed.
Theorem serialize_unmutated self : serialize_with None self = self.
Proof. reflexivity. Qed.
(* before() appends, after() prepends, replace() overwrites and removes, remove() keeps insertions *)
Theorem before_accumulates m c1 c2 : mu_before (mget (m_before (m_before m c1) c2)) = mu_before (mget m) ++ [c1; c2].
Proof. destruct m; cbn; rewrite <- ?app_assoc; reflexivity. Qed.
Theorem after_accumulates m c1 c2 : mu_after (mget (m_after (m_after m c1) c2)) = c2 :: c1 :: mu_after (mget m).
Proof. destruct m; reflexivity. Qed.
Theorem replace_overwrites m c1 c2 :
  mu_repl (mget (m_replace (m_replace m c1) c2)) = [c2] /\ mu_removed (mget (m_replace (m_replace m c1) c2)) = true
  /\ mu_before (mget (m_replace m c1)) = mu_before (mget m) /\ mu_after (mget (m_replace m c1)) = mu_after (mget m).
Proof. destruct m; cbn; auto. Qed.
Theorem remove_keeps_insertions m :
  mu_removed (mget (m_remove m)) = true /\ mu_before (mget (m_remove m)) = mu_before (mget m) /\ mu_after (mget (m_remove m)) = mu_after (mget m).
Proof. destruct m; cbn; auto. Qed.
(* an untouched start tag is emitted verbatim; a modified one keeps every untouched attribute byte for byte *)
Theorem start_tag_verbatim t raw : stt_raw t = Some raw -> stt_mut t = None -> serialize_start_tag t = [raw].
Proof. intros H1 H2. unfold serialize_start_tag. rewrite H1, H2. reflexivity. Qed.
Theorem untouched_attribute_verbatim a raw : at_raw a = Some raw -> serialize_attr a = raw.
Proof. intro H. unfold serialize_attr. rewrite H. reflexivity. Qed.
Lemma set_attr_keeps_others_raw t n v t' :
  stt_set_attr t n v = inl t' ->
  forall a, In a (stt_attrs t) -> attr_matches (lower_bytes n) a = false -> In a (stt_attrs t').
Proof.
  unfold stt_set_attr. destruct (attr_name_check (lower_bytes n)); [discriminate|].
  match goal with |- context [let (l', found) := ?f (stt_attrs t) in _] => set (upd := f) end.
  assert (H : forall l a, In a l -> attr_matches (lower_bytes n) a = false -> In a (fst (upd l))).
  { induction l as [|x l IH]; intros a Hin Hm; [destruct Hin|]. cbn.
    destruct (attr_matches (lower_bytes n) x) eqn:Ex.
    - cbn. destruct Hin as [->|Hin]; [congruence | right; exact Hin].
    - specialize (IH a). destruct (upd l) as [r' f]. cbn in *. destruct Hin as [->|Hin]; [left; reflexivity | right; apply IH; assumption]. }
  intros E a Hin Hm. specialize (H (stt_attrs t) a Hin Hm). destruct (upd (stt_attrs t)) as [l' found].
  inversion E; subst; clear E. cbn in *. destruct found; [exact H | apply in_or_app; left; exact Hin].
Qed.

(* ---------------- C16: attribute API algebra ---------------- *)
Lemma eq_ci_lower_refl n : eq_ci (lower_bytes n) (lower_bytes n) = true.
Proof.
  unfold lower_bytes. induction n as [|c r IH]; cbn [map eq_ci]; [reflexivity|]. rewrite IH, andb_true_r.
  unfold lower at 1. destruct (is_upper (lower c)) eqn:E; [|apply N.eqb_refl].
  unfold lower in E. destruct (is_upper c) eqn:E2; unfold is_upper in *; [|congruence].
  apply andb_true_iff in E as [E3 E4]. apply andb_true_iff in E2 as [E5 E6].
  apply N.leb_le in E3, E4, E5, E6. lia.
Qed.
Lemma find_app_none {A} (f : A -> bool) l1 l2 : find f l1 = None -> find f (l1 ++ l2) = find f l2.
Proof. induction l1 as [|x l IH]; cbn; [reflexivity|]. destruct (f x); [discriminate | exact IH]. Qed.
Theorem get_after_set t n v t' :
  stt_set_attr t n v = inl t' -> stt_get_attr t' n = Some v.
Proof.
  unfold stt_set_attr, stt_get_attr. destruct (attr_name_check (lower_bytes n)) eqn:Ec; [discriminate|].
  match goal with |- context [let (l', found) := ?f (stt_attrs t) in _] => set (upd := f) end.
  assert (H : forall l, (snd (upd l) = true -> option_map at_value (find (attr_matches (lower_bytes n)) (fst (upd l))) = Some v)
                        /\ (snd (upd l) = false -> find (attr_matches (lower_bytes n)) l = None)).
  { induction l as [|x l [IH1 IH2]]; cbn; [split; [discriminate | reflexivity]|].
    destruct (attr_matches (lower_bytes n) x) eqn:Ex; cbn.
    - split; [|discriminate]. intros _. unfold attr_matches in *. cbn. rewrite Ex. reflexivity.
    - destruct (upd l) as [r' f]. cbn in *. rewrite Ex. split; assumption. }
  destruct (H (stt_attrs t)) as [H1 H2]. destruct (upd (stt_attrs t)) as [l' found]. cbn in *.
  intro E; inversion E; subst; clear E. cbn. destruct found.
  - apply H1; reflexivity.
  - rewrite find_app_none by (apply H2; reflexivity). cbn. unfold attr_matches. cbn. rewrite eq_ci_lower_refl. reflexivity.
Qed.
Lemma filter_len_le {A} (f : A -> bool) l : length (filter f l) <= length l.
Proof. induction l as [|x l IH]; cbn; [lia|]. destruct (f x); cbn; lia. Qed.
Lemma filter_same_length {A} (f : A -> bool) l : length (filter f l) = length l -> filter f l = l.
Proof.
  induction l as [|x l IH]; cbn; [reflexivity|]. destruct (f x); cbn; intro El.
  - f_equal. apply IH. lia.
  - pose proof (filter_len_le f l). lia.
Qed.
Theorem has_after_remove t n : attr_name_check (lower_bytes n) = None -> stt_get_attr (stt_remove_attr t n) n = None.
Proof.
  intro Hc. unfold stt_get_attr, stt_remove_attr. rewrite Hc.
  assert (H : find (attr_matches (lower_bytes n)) (filter (fun a => negb (attr_matches (lower_bytes n) a)) (stt_attrs t)) = None).
  { induction (stt_attrs t) as [|x l IH]; cbn; [reflexivity|]. destruct (attr_matches (lower_bytes n) x) eqn:Ex; cbn; [exact IH | rewrite Ex; exact IH]. }
  destruct (_ =? _) eqn:El.
  - (* nothing removed: no attribute matched *)
    assert (H2 : filter (fun a => negb (attr_matches (lower_bytes n) a)) (stt_attrs t) = stt_attrs t) by (apply filter_same_length, Nat.eqb_eq; exact El).
    rewrite <- H2, H. reflexivity.
  - cbn. rewrite H. reflexivity.
Qed.
