(* C03: the ambiguity guard and the tree-builder simulator's tables against the WHATWG lists. *)
From LolModel Require Import Base TreeBuilder.
From LolSpec Require Import Whatwg.
From Coq Require Import List String Bool NArith Lia.
Import ListNotations.

Definition h (s : string) : N := hash_of (bs s).
Definition same_set (a b : list N) : bool := forallb (fun x => one_of x b) a && forallb (fun x => one_of x a) b.
Definition list_of (t : list tag_test) (k : nat) : list N := match nth_error t k with Some (TT_list l) | Some (TT_eq l) | Some (TT_ne l) => l | None => [] end.

(* every Tag constant of src/html/tag.rs is the hash of its own name *)
Lemma tag_constants_are_hashes : forallb (fun p => (h (fst p) =? snd p)%N) all_tags = true.
Proof. vm_compute. reflexivity. Qed.

Definition text_mode_tags : list N := map h (whatwg_rcdata ++ whatwg_rawtext ++ whatwg_script ++ whatwg_plaintext).
Lemma tables_match_whatwg :
  same_set (list_of tt_get_text_type_adjustment 0) (map h whatwg_rcdata) &&
  same_set (list_of tt_get_text_type_adjustment 1) (map h whatwg_plaintext) &&
  same_set (list_of tt_get_text_type_adjustment 2) (map h whatwg_script) &&
  same_set (list_of tt_get_text_type_adjustment 3) (map h whatwg_rawtext) &&
  same_set (list_of tt_causes_foreign_content_exit 0) (map h whatwg_foreign_breakout) &&
  same_set (list_of tt_is_text_integration_point_in_math_ml 0) (map h whatwg_mathml_text_ip) &&
  same_set (list_of tt_is_html_integration_point_in_svg 0) (map h whatwg_svg_html_ip) &&
  same_set (list_of tt_is_void_element 1) (map h whatwg_void) &&
  same_set tt_assert_not_ambiguous text_mode_tags = true.
Proof. vm_compute. reflexivity. Qed.

(* the guard refuses only a text-mode-switching start tag, and only inside select / template-in-select / frameset *)
Lemma guard_refuses_only g t : guard_track_start g t = None ->
  one_of t tt_assert_not_ambiguous = true /\ (g = GInSelect \/ (exists d, g = GInTemplateInSelect d) \/ g = GInOrAfterFrameset).
Proof.
  unfold guard_track_start, assert_not_ambiguous. destruct g as [| |d|].
  - destruct (tt_at tt_track_start_tag 0 t); [discriminate|]. destruct (tt_at tt_track_start_tag 1 t); discriminate.
  - destruct (tt_at tt_track_start_tag 2 t); [discriminate|]. destruct (tt_at tt_track_start_tag 3 t); [discriminate|].
    destruct (tt_at tt_track_start_tag 4 t); [|discriminate].
    destruct (one_of t tt_assert_not_ambiguous) eqn:E; cbn; [intros _; auto | discriminate].
  - destruct (tt_at tt_track_start_tag 5 t); [discriminate|].
    destruct (one_of t tt_assert_not_ambiguous) eqn:E; cbn; [intros _; split; [reflexivity|]; right; left; eauto | discriminate].
  - destruct (tt_at tt_track_start_tag 6 t); [|discriminate].
    destruct (one_of t tt_assert_not_ambiguous) eqn:E; cbn; [intros _; auto | discriminate].
Qed.
(* ... and in those contexts it does refuse every text-mode tag whose handling by a real tree builder differs from the
   simulator's: all of them inside template-in-select; all but script (processed "in head") and textarea (closes the select)
   inside select; all but noframes in / after frameset *)
Lemma guard_refuses_in_select t : one_of t tt_assert_not_ambiguous = true -> t <> h "script" -> t <> h "textarea" ->
  guard_track_start GInSelect t = None.
Proof.
  intros Hin Hs Ht. unfold tt_assert_not_ambiguous, one_of in Hin. cbn [existsb] in Hin.
  repeat (apply orb_true_iff in Hin; destruct Hin as [Hin|Hin]); try discriminate;
    apply N.eqb_eq in Hin; subst t; try (exfalso; apply Hs; reflexivity); try (exfalso; apply Ht; reflexivity); vm_compute; reflexivity.
Qed.
Lemma guard_refuses_in_template_in_select t d : one_of t tt_assert_not_ambiguous = true -> guard_track_start (GInTemplateInSelect d) t = None.
Proof.
  intros Hin. unfold guard_track_start, assert_not_ambiguous. rewrite Hin. cbn [negb].
  unfold tt_assert_not_ambiguous, one_of in Hin. cbn [existsb] in Hin.
  repeat (apply orb_true_iff in Hin; destruct Hin as [Hin|Hin]); try discriminate; apply N.eqb_eq in Hin; subst t; vm_compute; reflexivity.
Qed.
Lemma guard_refuses_in_frameset t : one_of t tt_assert_not_ambiguous = true -> t <> h "noframes" -> guard_track_start GInOrAfterFrameset t = None.
Proof.
  intros Hin Hn. unfold tt_assert_not_ambiguous, one_of in Hin. cbn [existsb] in Hin.
  repeat (apply orb_true_iff in Hin; destruct Hin as [Hin|Hin]); try discriminate;
    apply N.eqb_eq in Hin; subst t; try (exfalso; apply Hn; reflexivity); vm_compute; reflexivity.
Qed.

(* strictness does not change the simulator's answer: where the strict simulator answers at all, the non-strict one gives
   the same feedback and the same namespace state *)
Definition same_ns (a b : sim) : Prop := ns_stack a = ns_stack b /\ cur_ns a = cur_ns b.
Ltac split_ifs := repeat (match goal with |- context [if ?c then _ else _] => destruct c end; cbn [fst snd ns_stack cur_ns guard strict]); repeat split; try reflexivity.
Lemma fb_start_strict_agrees s s' t r : same_ns s s' -> strict s' = false ->
  fb_start s t = Some r -> exists r', fb_start s' t = Some r' /\ snd r' = snd r /\ same_ns (fst r) (fst r').
Proof.
  intros [Hn Hc] Hs'. destruct s as [stk cur g st], s' as [stk' cur' g' st']. cbn in Hn, Hc, Hs'. subst stk' cur' st'.
  unfold fb_start. cbn [strict guard ns_stack cur_ns].
  destruct (if st then guard_track_start g t else Some g) as [g1|]; [|discriminate].
  intro E. inversion E; subst r; clear E.
  eexists. split; [reflexivity|].
  unfold same_ns, enter_ns, fb_start_foreign, leave_foreign, leave_ns, is_ip_enter, text_type_adjust. cbn [ns_stack cur_ns guard strict].
  destruct (tt_at tt_get_feedback_for_start_tag 0 t); [cbn; repeat split; reflexivity|].
  destruct (tt_at tt_get_feedback_for_start_tag 1 t); [cbn; repeat split; reflexivity|].
  destruct (negb (ns_eqb cur Html)); [|cbn; repeat split; reflexivity].
  destruct (causes_foreign_content_exit t); [destruct (tl (drop_foreign stk)); cbn; repeat split; reflexivity|].
  split_ifs.
Qed.
Lemma fb_end_strict_agrees s s' t : same_ns s s' -> snd (fb_end s t) = snd (fb_end s' t) /\ same_ns (fst (fb_end s t)) (fst (fb_end s' t)).
Proof.
  intros [Hn Hc]. destruct s as [stk cur g st], s' as [stk' cur' g' st']. cbn in Hn, Hc. subst stk' cur'.
  unfold fb_end, same_ns, check_ip_exit, should_leave_ns, leave_foreign, leave_ns. cbn [strict guard ns_stack cur_ns].
  destruct st, st'; cbn [ns_stack cur_ns guard strict];
    (destruct (ns_eqb cur Html);
     [ destruct stk as [|x [|prev r]]; cbn [fst snd ns_stack cur_ns tl]; try (repeat split; reflexivity);
       destruct (_ || _); [destruct r; cbn; repeat split; reflexivity|]; destruct (_ && _); cbn; repeat split; reflexivity
     | destruct (_ || _); [|cbn; repeat split; reflexivity]; destruct (tt_at tt_should_leave_ns 2 t);
       [destruct (tl (drop_foreign stk))|destruct (tl stk)]; cbn; repeat split; reflexivity ]).
Qed.
