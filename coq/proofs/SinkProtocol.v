(* C12: sink protocol and fail-stop, for every controller, input, chunking and call history. *)
From LolModel Require Import Machine.
From LolProofs Require Import Frame.
Open Scope nat_scope.

Definition data_chunk (c : sink_call) : Prop := exists b, c = SkChunk b /\ b <> [].

Section SinkProtocol.
Context {C : Type} (ctl : controller C).
Notation disp := (@disp C).

(* the sink log (newest first) only grows, and only by non-empty data chunks *)
Definition grows (d d' : disp) : Prop := exists l, d_sink d' = l ++ d_sink d /\ Forall data_chunk l.

Lemma grows_refl d : grows d d. Proof. exists []; split; [reflexivity | constructor]. Qed.
Lemma grows_trans a b c : grows a b -> grows b c -> grows a c.
Proof.
  intros [l1 [E1 F1]] [l2 [E2 F2]]. exists (l2 ++ l1). split.
  - rewrite E2, E1, app_assoc. reflexivity.
  - apply Forall_app; split; assumption.
Qed.
Lemma grows_same d d' : d_sink d' = d_sink d -> grows d d'.
Proof. intro E. exists []; split; [exact E | constructor]. Qed.
Lemma grows_push d b : b <> [] -> grows d (sink_push d b).
Proof. intro H. exists [SkChunk b]; split; [reflexivity|]. constructor; [exists b; auto | constructor]. Qed.

Local Ltac same := intros; apply grows_same; reflexivity.

Lemma write_grows s data : grows (sdisp s) (sdisp (fst (write ctl s data))).
Proof. apply (write_R ctl grows); first [exact grows_refl | exact grows_trans | exact grows_push | same]. Qed.

Lemma finish_grows s :
  match finish ctl s with
  | (s', COk) => exists d, grows (sdisp s) d /\ sdisp s' = sink_push d []
  | (s', _) => grows (sdisp s) (sdisp s')
  end.
Proof. apply (finish_R ctl grows); first [exact grows_refl | exact grows_trans | exact grows_push | same]. Qed.

(* ---- protocol invariant over call histories ---- *)
(* fin = a successful end() has happened *)
Definition proto (r : @rewriter C) (e : nat) (fin : bool) : Prop :=
  exists body, d_sink (sdisp (rw_stream r)) = (if fin then [SkChunk []] else []) ++ body ++ [SkEncoding e]
               /\ Forall data_chunk body
               /\ (fin = true -> rw_ended r = true).

Definition step_fin (fin : bool) (op : api_call) (res : api_res) : bool :=
  fin || match op, res with End, ROk => true | _, _ => false end.

Lemma proto_init cfg c0 : proto (new_rewriter ctl cfg c0) (st_encoding cfg) false.
Proof. exists []. cbn. repeat split; [constructor | discriminate]. Qed.

Lemma proto_step r e fin op :
  proto r e fin ->
  let '(r', res) := api_step ctl r op in proto r' e (step_fin fin op res).
Proof.
  intros [body [E [F Hf]]]. unfold api_step.
  destruct (rw_ended r) eqn:Een.
  { (* already ended: nothing happens *)
    unfold step_fin. replace (fin || match op with Write _ | End => false end) with fin by (destruct fin, op; reflexivity).
    exists body; repeat split; auto. }
  assert (fin = false) as -> by (destruct fin; [specialize (Hf eq_refl); congruence | reflexivity]).
  destruct (rw_poisoned r).
  { unfold step_fin. cbn. replace (match op with Write _ | End => false end) with false by (destruct op; reflexivity).
    exists body. split; [exact E|]. split; [exact F | discriminate]. }
  destruct op as [data|].
  - pose proof (write_grows (rw_stream r) data) as [l [El Fl]].
    destruct (write ctl (rw_stream r) data) as [s' res]. cbn in El.
    assert (P : exists body', d_sink (sdisp s') = body' ++ [SkEncoding e] /\ Forall data_chunk body').
    { exists (l ++ body). rewrite El. cbn in E. rewrite E, app_assoc. split; [reflexivity | apply Forall_app; auto]. }
    destruct P as [b' [Eb Fb]].
    destruct res; cbn; exists b'; cbn; repeat split; auto; discriminate.
  - pose proof (finish_grows (rw_stream r)) as H.
    destruct (finish ctl (rw_stream r)) as [s' res]. cbn in E.
    destruct res; cbn.
    + destruct H as [d [[l [El Fl]] Es]]. exists (l ++ body). cbn. rewrite Es. cbn. rewrite El, E.
      split; [rewrite app_assoc; reflexivity|]. split; [apply Forall_app; auto | reflexivity].
    + destruct H as [l [El Fl]]. exists (l ++ body). cbn. rewrite El, E, app_assoc.
      split; [reflexivity|]. split; [apply Forall_app; auto | discriminate].
    + destruct H as [l [El Fl]]. exists (l ++ body). cbn. rewrite El, E, app_assoc.
      split; [reflexivity|]. split; [apply Forall_app; auto | discriminate].
Qed.

Fixpoint fin_of (fin : bool) (ops : list api_call) (res : list api_res) : bool :=
  match ops, res with
  | o :: ops', x :: res' => fin_of (step_fin fin o x) ops' res'
  | _, _ => fin
  end.

Lemma proto_run ops : forall r e fin,
  proto r e fin ->
  let '(r', res) := api_run ctl r ops in proto r' e (fin_of fin ops res).
Proof.
  induction ops as [|o ops IH]; intros r e fin H; cbn; [exact H|].
  pose proof (proto_step r e fin o H) as H1.
  destruct (api_step ctl r o) as [r1 x].
  specialize (IH r1 e _ H1). destruct (api_run ctl r1 ops) as [r2 xs]. cbn. exact IH.
Qed.

(* The user-facing statement: the sequence of sink calls, oldest first. *)
Theorem sink_protocol cfg c0 ops :
  let '(r, res) := api_run ctl (new_rewriter ctl cfg c0) ops in
  exists body,
    rw_sink r = SkEncoding (st_encoding cfg) :: body ++ (if fin_of false ops res then [SkChunk []] else [])
    /\ Forall data_chunk body.
Proof.
  pose proof (proto_run ops _ _ _ (proto_init cfg c0)) as H.
  destruct (api_run ctl (new_rewriter ctl cfg c0) ops) as [r res].
  destruct H as [body [E [F _]]]. exists (rev body). unfold rw_sink. unfold sdisp in E. rewrite E.
  rewrite !rev_app_distr. cbn. split.
  - destruct (fin_of false ops res); cbn; [reflexivity | rewrite app_nil_r; reflexivity].
  - apply Forall_rev. exact F.
Qed.

(* fin_of is true exactly when some End call returned ROk *)
Lemma fin_of_true_iff ops : forall fin res, length res = length ops ->
  fin_of fin ops res = true <-> fin = true \/ exists i, nth_error ops i = Some End /\ nth_error res i = Some ROk.
Proof.
  induction ops as [|o ops IH]; intros fin res Hl; destruct res as [|x res]; try discriminate; cbn.
  - split; [auto | intros [H|[i [H _]]]; [exact H | destruct i; discriminate]].
  - cbn in Hl. rewrite IH by congruence. unfold step_fin. split.
    + intros [H|[i [H1 H2]]].
      * apply orb_true_iff in H as [H|H]; [auto|]. right. exists 0. destruct o, x; try discriminate; auto.
      * right. exists (S i). auto.
    + intros [H|[i [H1 H2]]]; [left; rewrite H; reflexivity|].
      destruct i as [|i]; cbn in *.
      * left. inversion H1; inversion H2; subst. apply orb_true_r.
      * right. exists i; auto.
Qed.

(* Fail-stop: a poisoned (or finished) rewriter changes nothing and emits nothing *)
Theorem poisoned_is_inert r op : rw_poisoned r = true -> rw_ended r = false ->
  exists ended, api_step ctl r op = (mkRw (rw_stream r) true ended, RPanicPoisoned).
Proof. intros H1 H2. unfold api_step. rewrite H1, H2. eexists; reflexivity. Qed.
Theorem error_poisons r op r' e : rw_ended r = false -> rw_poisoned r = false -> api_step ctl r op = (r', RErr e) -> rw_poisoned r' = true.
Proof.
  intros H1 H2. unfold api_step. rewrite H1, H2.
  destruct op; [destruct (write ctl (rw_stream r) data) as [s' res] | destruct (finish ctl (rw_stream r)) as [s' res]];
    destruct res; intro H; inversion H; reflexivity.
Qed.
End SinkProtocol.
