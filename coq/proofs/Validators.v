(* C08/C16: the setters' validators as read from the source (gen/Constants.v) are exactly the delimiter sets of the
   HTML syntax that would change the token structure of a re-serialised tag or comment. *)
From LolModel Require Import Base Machine Selectors Rewriter.
From Coq Require Import Bool List NArith Lia.
Import ListNotations.
Local Open Scope N_scope.

(* written from the HTML standard (13.1.2 start tags / attributes, 13.6 comments), not from the code *)
Definition spec_tag_name_delimiter (c : N) : bool := is_ws c || (c =? 47) || (c =? 62).          (* whitespace, '/', '>' *)
Definition spec_attr_name_delimiter (c : N) : bool := spec_tag_name_delimiter c || (c =? 61).   (* ... and '=' *)
Definition spec_comment_bad_infix : list bytes := [bs "-->"; bs "--!>"].
Definition spec_comment_bad_prefix : list bytes := [bs ">"; bs "->"].

Lemma existsb_eqb_in c l : existsb (N.eqb c) l = true <-> In c l.
Proof. rewrite existsb_exists. split; [intros [x [H E]]; apply N.eqb_eq in E; subst; exact H | intros H; exists c; split; [exact H | apply N.eqb_refl]]. Qed.

Theorem attr_name_validator_is_the_delimiter_set c : existsb (N.eqb c) ATTR_NAME_FORBIDDEN = spec_attr_name_delimiter c.
Proof.
  apply eq_true_iff_eq. rewrite existsb_eqb_in. unfold spec_attr_name_delimiter, spec_tag_name_delimiter, is_ws.
  rewrite !orb_true_iff, !N.eqb_eq. unfold ATTR_NAME_FORBIDDEN. cbn [In]. intuition congruence.
Qed.
Theorem tag_name_validator_is_the_delimiter_set c : existsb (N.eqb c) TAG_NAME_FORBIDDEN = spec_tag_name_delimiter c.
Proof.
  apply eq_true_iff_eq. rewrite existsb_eqb_in. unfold spec_tag_name_delimiter, is_ws.
  rewrite !orb_true_iff, !N.eqb_eq. unfold TAG_NAME_FORBIDDEN. cbn [In]. intuition congruence.
Qed.
Theorem comment_validator_shapes : COMMENT_BAD_INFIX = spec_comment_bad_infix /\ COMMENT_BAD_PREFIX = spec_comment_bad_prefix.
Proof. split; reflexivity. Qed.
Theorem accepted_comment_text t : comment_text_bad t = false ->
  has_infix t (bs "-->") = false /\ has_infix t (bs "--!>") = false /\ starts_with t (bs ">") = false /\ starts_with t (bs "->") = false.
Proof.
  unfold comment_text_bad. destruct comment_validator_shapes as [-> ->]. unfold spec_comment_bad_infix, spec_comment_bad_prefix. cbn [existsb].
  intros H. repeat (apply orb_false_iff in H as [H ?]). rewrite ?orb_false_r in *.
  repeat match goal with H : _ || _ = false |- _ => apply orb_false_iff in H as [? ?] end. auto.
Qed.
(* accepted names contain no delimiter *)
Theorem accepted_attr_name_has_no_delimiter n : attr_name_check n = None -> n <> [] /\ forallb (fun c => negb (spec_attr_name_delimiter c)) n = true.
Proof.
  unfold attr_name_check. destruct n as [|x n]; [discriminate|]. destruct (find _ (x :: n)) eqn:Ef; [discriminate|]. intros _. split; [discriminate|].
  apply forallb_forall. intros c Hc. rewrite <- attr_name_validator_is_the_delimiter_set. apply negb_true_iff.
  apply (find_none _ _ Ef c Hc).
Qed.
Theorem accepted_tag_name_has_no_delimiter n : tag_name_check n = None ->
  (exists c r, n = c :: r /\ is_alpha c = true) /\ forallb (fun c => negb (spec_tag_name_delimiter c)) n = true.
Proof.
  unfold tag_name_check. destruct n as [|x n]; [discriminate|]. destruct (is_alpha x) eqn:Ea; cbn [negb]; [|discriminate].
  destruct (find _ (x :: n)) eqn:Ef; [discriminate|]. intros _. split; [exists x, n; auto|].
  apply forallb_forall. intros c Hc. rewrite <- tag_name_validator_is_the_delimiter_set. apply negb_true_iff.
  apply (find_none _ _ Ef c Hc).
Qed.
