(* C10: the two places where the limit is consulted are monotone in it: what fits under M fits, with the same result, under M' >= M. *)
From LolModel Require Import Base Selectors Machine Rewriter.
From Coq Require Import Lia Bool List NArith.
Import ListNotations.
Open Scope nat_scope.

Lemma limiter_ok_mono M M' x : (M <= M')%N -> limiter_ok M x = true -> limiter_ok M' x = true.
Proof. unfold limiter_ok. intros H E. apply N.leb_le in E. apply N.leb_le. lia. Qed.
Theorem arena_append_mono a other M M' slice a' : (M <= M')%N ->
  arena_append a other M slice = (a', true) -> arena_append a other M' slice = (a', true).
Proof.
  unfold arena_append. intros H. destruct (_ <? _); [|exact (fun E => E)].
  destruct (limiter_ok M _) eqn:E; [|discriminate]. rewrite (limiter_ok_mono _ _ _ H E). exact (fun E => E).
Qed.
Theorem arena_init_with_mono a other M M' slice a' : (M <= M')%N ->
  arena_init_with a other M slice = (a', true) -> arena_init_with a other M' slice = (a', true).
Proof. unfold arena_init_with. apply arena_append_mono. Qed.
Theorem stack_push_mono s it isz mi other M M' s' ch : (M <= M')%N ->
  stack_push s it isz mi other M = (s', ch, true) -> stack_push s it isz mi other M' = (s', ch, true).
Proof.
  unfold stack_push. intros H. destruct (length (vs_items s) <? vs_cap s); [exact (fun E => E)|].
  destruct (other + N.of_nat (Nat.max (vs_cap s) mi) * isz <=? M)%N eqn:E.
  - apply N.leb_le in E. assert (E' : (other + N.of_nat (Nat.max (vs_cap s) mi) * isz <=? M')%N = true) by (apply N.leb_le; lia).
    rewrite E'. exact (fun X => X).
  - discriminate.
Qed.
