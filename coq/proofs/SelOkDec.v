(* C04: the side conditions of the end-to-end theorem are syntactic and decidable: a boolean check on the selector list
   (class names non-empty; :not() arguments that flatten exactly) implies sel_ok on every chain of elements. *)
From LolModel Require Import Base Selectors Machine Rewriter.
From LolSpec Require Import CssSem.
From LolProofs Require Import Css CssPred StackTree TypedCounters AstSem SelLR VmRun.
From Coq Require Import Lia Bool List ZArith.
Import ListNotations.
Open Scope nat_scope.

Fixpoint simple_wfb (fuel : nat) (s : simple) : bool :=
  match s with
  | SClass v => match v with [] => false | _ => true end
  | SNot args => match fuel with O => true | S f => forallb (forallb (simple_wfb f)) args end
  | _ => true
  end.
Lemma simple_wfb_ok : forall fuel s e, simple_wfb fuel s = true -> simple_wf fuel e s.
Proof.
  induction fuel as [|f IH]; intros s e H; destruct s; cbn [simple_wfb simple_wf] in *; try exact I.
  - destruct v; [discriminate | discriminate].
  - destruct v; [discriminate | discriminate].
  - rewrite forallb_forall in H. apply Forall_forall. intros cmp Hc. specialize (H cmp Hc). rewrite forallb_forall in H.
    apply Forall_forall. intros s Hs. apply IH. apply H. exact Hs.
Qed.
Definition compound_okb (c : compound) : bool :=
  forallb (fun s => simple_wfb (S (simple_depth s)) s && exact_simple (S (simple_depth s)) s false) c.
Lemma compound_okb_ok c e : compound_okb c = true -> compound_ok e c.
Proof.
  unfold compound_okb, compound_ok. rewrite forallb_forall. intros H. apply Forall_forall. intros s Hs.
  specialize (H s Hs). apply andb_true_iff in H. destruct H as [H1 H2]. split; [apply simple_wfb_ok; exact H1 | exact H2].
Qed.
Definition sel_okb (sel : selector) : bool :=
  forallb (fun cx => compound_okb (cx_first cx) && forallb (fun kc => compound_okb (snd kc)) (cx_rest cx)) sel.
Lemma sel_okb_ok sel : sel_okb sel = true -> forall chain, sel_ok sel chain.
Proof.
  unfold sel_okb, sel_ok. rewrite forallb_forall. intros H chain. apply Forall_forall. intros cx Hcx.
  specialize (H cx Hcx). apply andb_true_iff in H. destruct H as [H1 H2]. rewrite forallb_forall in H2.
  unfold all_ok. apply Forall_forall. intros e _. split; [apply compound_okb_ok; exact H1|].
  apply Forall_forall. intros kc Hk. apply compound_okb_ok. apply H2. exact Hk.
Qed.

(* the end-to-end theorem with the decidable side condition *)
Theorem selector_vm_is_css_dec sels docs bail fa isz mx ext ops c name n avs sc c' :
  sels <> [] -> forallb (fun sh => sel_okb (sh_selector sh)) sels = true ->
  never_wraps_a (mkTree [] []) (ops ++ [OpStart name n avs sc]) ->
  vm_run (new_rwc sels docs bail fa isz mx) ext ops = Some c -> vm_on_start c ext name n avs sc = Some c' ->
  let t := tree_run_a (mkTree [] []) ops in
  let el := fst (on_start t name n (pairs avs) sc) in
  let anc := map o_el (t_open t) in
  exists c1 ec' f, finish_exec c1 ext ec' = (c', FOk f) /\ r_locators c1 = r_locators c /\ ec_with_content ec' = stays_open name n sc /\
    forall i, In i (ed_matched (si_data (ec_item ec'))) <->
              exists sh, nth_error sels i = Some sh /\ selector_matches (sh_selector sh) el anc = true.
Proof.
  intros Hne Hb Hw Hrun Hst t el anc.
  apply (selector_vm_is_css sels docs bail fa isz mx ext ops c name n avs sc c' Hne Hw Hrun Hst).
  apply Forall_forall. intros sel Hs. apply in_map_iff in Hs. destruct Hs as [sh [<- Hin]].
  rewrite forallb_forall in Hb. apply sel_okb_ok. apply Hb. exact Hin.
Qed.

From LolProofs Require Import Scope ScopeCss.
Theorem scoped_handlers_follow_css_dec sels docs bail fa isz mx ext ops c :
  sels <> [] -> forallb (fun sh => sel_okb (sh_selector sh)) sels = true ->
  never_wraps_a (mkTree [] []) ops ->
  vm_run (new_rwc sels docs bail fa isz mx) ext ops = Some c ->
  let c0 := new_rwc sels docs bail fa isz mx in
  let chain := chain_of (tree_run_a (mkTree [] []) ops) in
  forall k l, nth_error (r_locators c0) k = Some l ->
  let opened (own : nat -> bool) := exists j e id sh, nth_error chain j = Some e /\ own id = true /\ nth_error sels id = Some sh /\
                                     selector_matches (sh_selector sh) e (rev (firstn j chain)) = true in
  (forall i, lc_cm l = Some i -> (0 < cnt (r_comment c) i <-> opened (owns (r_locators c0) lc_cm i))) /\
  (forall i, lc_tx l = Some i -> (0 < cnt (r_text c) i <-> opened (owns (r_locators c0) lc_tx i))).
Proof.
  intros Hne Hb Hw Hrun c0 chain. apply (scoped_handlers_follow_css sels docs bail fa isz mx ext ops c Hne Hw Hrun).
  intros j _. apply Forall_forall. intros sel Hs. apply in_map_iff in Hs. destruct Hs as [sh [<- Hin]].
  rewrite forallb_forall in Hb. apply sel_okb_ok. apply Hb. exact Hin.
Qed.
