(* C05: the activation counts of selector-scoped comment/text handlers track exactly the open matched elements.
   Invariant over every reachable state of the level-2 model (any document, chunking, selector set, handler scripts). *)
From LolModel Require Import Machine Selectors Rewriter.
From LolProofs Require Import OkPath OkWrite Memory.
From Coq Require Import Lia ZifyBool ZifyNat ZifyN.
Open Scope nat_scope.

(* ---------- handler-vector counts ---------- *)
Definition cnt {A} (v : hvec A) (i : nat) : nat := match nth_error v i with Some it => hi_count it | None => 0 end.

Fixpoint inc_from {A} (l : hvec A) (k idx : nat) : hvec A :=
  match l with [] => [] | i :: r => if k =? idx then mkHI i.(hi_h) (S i.(hi_count)) :: r else i :: inc_from r (S k) idx end.
Fixpoint dec_from {A} (l : hvec A) (k idx : nat) : hvec A :=
  match l with [] => [] | i :: r => if k =? idx then mkHI i.(hi_h) (i.(hi_count) - 1) :: r else i :: dec_from r (S k) idx end.
Lemma hv_inc_eq {A} (v : hvec A) idx : hv_inc v idx = inc_from v 0 idx.
Proof. unfold hv_inc. generalize 0. induction v as [|i r IH]; intros k; cbn; [reflexivity|]. destruct (k =? idx); [reflexivity|]. f_equal. apply IH. Qed.
Lemma hv_dec_eq {A} (v : hvec A) idx : hv_dec v idx = dec_from v 0 idx.
Proof. unfold hv_dec. generalize 0 at 2 3. induction v as [|i r IH]; intros k; cbn; [reflexivity|]. destruct (k =? idx); [reflexivity|]. f_equal. apply IH. Qed.

Lemma cnt_inc_from {A} (v : hvec A) : forall k idx i, k <= idx -> idx - k < length v ->
  cnt (inc_from v k idx) i = cnt v i + (if i =? idx - k then 1 else 0).
Proof.
  induction v as [|x r IH]; intros k idx i Hk Hl; cbn in Hl; [lia|]. cbn [inc_from].
  destruct (Nat.eqb_spec k idx) as [->|Hne].
  - rewrite Nat.sub_diag. destruct i; cbn; [lia|]. unfold cnt. cbn. lia.
  - destruct i as [|i]; unfold cnt; cbn [nth_error].
    + destruct (Nat.eqb_spec 0 (idx - k)); lia.
    + specialize (IH (S k) idx i ltac:(lia) ltac:(lia)). unfold cnt in IH. rewrite IH.
      replace (idx - S k) with (idx - k - 1) by lia.
      destruct (Nat.eqb_spec i (idx - k - 1)), (Nat.eqb_spec (S i) (idx - k)); lia.
Qed.
Lemma cnt_dec_from {A} (v : hvec A) : forall k idx i, k <= idx ->
  cnt (dec_from v k idx) i = cnt v i - (if i =? idx - k then 1 else 0).
Proof.
  induction v as [|x r IH]; intros k idx i Hk; cbn [dec_from]; [unfold cnt; destruct i; cbn; lia|].
  destruct (Nat.eqb_spec k idx) as [->|Hne].
  - rewrite Nat.sub_diag. destruct i; unfold cnt; cbn; lia.
  - destruct i as [|i]; unfold cnt; cbn [nth_error].
    + destruct (Nat.eqb_spec 0 (idx - k)); lia.
    + specialize (IH (S k) idx i ltac:(lia)). unfold cnt in IH. rewrite IH.
      replace (idx - S k) with (idx - k - 1) by lia.
      destruct (Nat.eqb_spec i (idx - k - 1)), (Nat.eqb_spec (S i) (idx - k)); lia.
Qed.
Lemma length_inc_from {A} (v : hvec A) : forall k idx, length (inc_from v k idx) = length v.
Proof. induction v as [|x r IH]; intros k idx; cbn; [reflexivity|]. destruct (k =? idx); cbn; [reflexivity|]. rewrite IH. reflexivity. Qed.
Lemma length_dec_from {A} (v : hvec A) : forall k idx, length (dec_from v k idx) = length v.
Proof. induction v as [|x r IH]; intros k idx; cbn; [reflexivity|]. destruct (k =? idx); cbn; [reflexivity|]. rewrite IH. reflexivity. Qed.
Lemma cnt_hv_inc {A} (v : hvec A) idx i : idx < length v -> cnt (hv_inc v idx) i = cnt v i + (if i =? idx then 1 else 0).
Proof. intros H. rewrite hv_inc_eq, cnt_inc_from by lia. rewrite Nat.sub_0_r. reflexivity. Qed.
Lemma cnt_hv_dec {A} (v : hvec A) idx i : cnt (hv_dec v idx) i = cnt v i - (if i =? idx then 1 else 0).
Proof. rewrite hv_dec_eq, cnt_dec_from by lia. rewrite Nat.sub_0_r. reflexivity. Qed.
Lemma length_hv_inc {A} (v : hvec A) idx : length (hv_inc v idx) = length v.
Proof. rewrite hv_inc_eq. apply length_inc_from. Qed.
Lemma length_hv_dec {A} (v : hvec A) idx : length (hv_dec v idx) = length v.
Proof. rewrite hv_dec_eq. apply length_dec_from. Qed.

(* ---------- uses: how many matched ids of the open elements own handler i ---------- *)
Section Scope.
Variable locs : list locator.
Variable ncm ntx : nat.
Hypothesis locs_cm : forall id l i, nth_error locs id = Some l -> lc_cm l = Some i -> i < ncm.
Hypothesis locs_tx : forall id l i, nth_error locs id = Some l -> lc_tx l = Some i -> i < ntx.

Definition owns (sel : locator -> option nat) (i id : nat) : bool :=
  match nth_error locs id with Some l => match sel l with Some j => j =? i | None => false end | None => false end.
Definition uses (sel : locator -> option nat) (i : nat) (ids : list nat) : nat := length (filter (owns sel i) ids).
Definition all_ids (items : list stack_item) : list nat := flat_map (fun it => ed_matched (si_data it)) items.
Lemma uses_app sel i a b : uses sel i (a ++ b) = uses sel i a + uses sel i b.
Proof. unfold uses. rewrite filter_app, app_length. reflexivity. Qed.
Lemma all_ids_app a b : all_ids (a ++ b) = all_ids a ++ all_ids b.
Proof. unfold all_ids. apply flat_map_app. Qed.

Variable bcm btx : nat -> nat.     (* base counts: 1 for document-level handlers, 0 for selector-scoped ones *)
Record SInv (c : rwc) : Prop := {
  si_locs : r_locators c = locs;
  si_ncm : length (r_comment c) = ncm;
  si_ntx : length (r_text c) = ntx;
  si_cm : forall i, cnt (r_comment c) i = bcm i + uses lc_cm i (all_ids (vs_items (r_stack c)));
  si_tx : forall i, cnt (r_text c) i = btx i + uses lc_tx i (all_ids (vs_items (r_stack c)))
}.

(* ---------- start_matching / stop_matching on the counts ---------- *)
Definition sm_step (wc : bool) (c : rwc) (id : nat) : rwc :=
  match nth_error c.(r_locators) id with
  | None => c
  | Some l =>
      let cm := if wc then match l.(lc_cm) with Some i => hv_inc c.(r_comment) i | None => c.(r_comment) end else c.(r_comment) in
      let tx := if wc then match l.(lc_tx) with Some i => hv_inc c.(r_text) i | None => c.(r_text) end else c.(r_text) in
      let el := match l.(lc_el) with Some i => hv_inc c.(r_element) i | None => c.(r_element) end in
      rset_handlers c c.(r_doctype) cm tx c.(r_endtag) el c.(r_end) wc c.(r_removed_count)
  end.
Lemma start_matching_fold c ids wc : start_matching c ids wc = fold_left (sm_step wc) ids c.
Proof. reflexivity. Qed.

Lemma uses_cons sel i id ids : uses sel i (id :: ids) = (if owns sel i id then 1 else 0) + uses sel i ids.
Proof. unfold uses. cbn. destruct (owns sel i id); reflexivity. Qed.

Lemma start_matching_counts ids : forall c wc,
  r_locators c = locs -> length (r_comment c) = ncm -> length (r_text c) = ntx ->
  let c' := start_matching c ids wc in
  r_locators c' = locs /\ length (r_comment c') = ncm /\ length (r_text c') = ntx /\ r_stack c' = r_stack c /\
  (forall i, cnt (r_comment c') i = cnt (r_comment c) i + (if wc then uses lc_cm i ids else 0)) /\
  (forall i, cnt (r_text c') i = cnt (r_text c) i + (if wc then uses lc_tx i ids else 0)).
Proof.
  induction ids as [|id ids IH]; intros c wc Hl Hc Ht; cbn zeta.
  - cbn. repeat split; try assumption; intros i; destruct wc; unfold uses; cbn; lia.
  - rewrite start_matching_fold. cbn [fold_left]. rewrite <- start_matching_fold.
    assert (Hstep : r_locators (sm_step wc c id) = locs /\ length (r_comment (sm_step wc c id)) = ncm /\ length (r_text (sm_step wc c id)) = ntx
                    /\ r_stack (sm_step wc c id) = r_stack c
                    /\ (forall i, cnt (r_comment (sm_step wc c id)) i = cnt (r_comment c) i + (if wc then if owns lc_cm i id then 1 else 0 else 0))
                    /\ (forall i, cnt (r_text (sm_step wc c id)) i = cnt (r_text c) i + (if wc then if owns lc_tx i id then 1 else 0 else 0))).
    { unfold sm_step, owns. rewrite Hl. destruct (nth_error locs id) as [l|] eqn:El.
      - cbn. split; [exact Hl|]. destruct wc.
        + split; [destruct (lc_cm l); [rewrite length_hv_inc|]; exact Hc|].
          split; [destruct (lc_tx l); [rewrite length_hv_inc|]; exact Ht|].
          split; [reflexivity|]. split; intros i.
          * destruct (lc_cm l) as [j|] eqn:Ej; [|lia]. rewrite cnt_hv_inc by (rewrite Hc; eapply locs_cm; eassumption).
            rewrite (Nat.eqb_sym i j). reflexivity.
          * destruct (lc_tx l) as [j|] eqn:Ej; [|lia]. rewrite cnt_hv_inc by (rewrite Ht; eapply locs_tx; eassumption).
            rewrite (Nat.eqb_sym i j). reflexivity.
        + repeat split; try assumption; intros i; lia.
      - repeat split; try assumption; intros i; destruct wc; lia. }
    destruct Hstep as [Hl1 [Hc1 [Ht1 [Hs1 [Hcm1 Htx1]]]]].
    destruct (IH (sm_step wc c id) wc Hl1 Hc1 Ht1) as [Hl2 [Hc2 [Ht2 [Hs2 [Hcm2 Htx2]]]]].
    split; [exact Hl2|]. split; [exact Hc2|]. split; [exact Ht2|]. split; [rewrite Hs2; exact Hs1|].
    split; intros i; [rewrite Hcm2, Hcm1 | rewrite Htx2, Htx1]; rewrite uses_cons; destruct wc; lia.
Qed.

Definition st_step (c : rwc) (id : nat) : rwc :=
  match nth_error c.(r_locators) id with
  | None => c
  | Some l =>
      let cm := match l.(lc_cm) with Some i => hv_dec c.(r_comment) i | None => c.(r_comment) end in
      let tx := match l.(lc_tx) with Some i => hv_dec c.(r_text) i | None => c.(r_text) end in
      rset_handlers c c.(r_doctype) cm tx c.(r_endtag) c.(r_element) c.(r_end) c.(r_next_chc) c.(r_removed_count)
  end.
Lemma st_fold_counts ids : forall c,
  r_locators c = locs -> length (r_comment c) = ncm -> length (r_text c) = ntx ->
  let c' := fold_left st_step ids c in
  r_locators c' = locs /\ length (r_comment c') = ncm /\ length (r_text c') = ntx /\ r_stack c' = r_stack c /\
  (forall i, cnt (r_comment c') i = cnt (r_comment c) i - uses lc_cm i ids) /\
  (forall i, cnt (r_text c') i = cnt (r_text c) i - uses lc_tx i ids).
Proof.
  induction ids as [|id ids IH]; intros c Hl Hc Ht; cbn zeta.
  - cbn. repeat split; try assumption; intros i; unfold uses; cbn; lia.
  - cbn [fold_left].
    assert (Hstep : r_locators (st_step c id) = locs /\ length (r_comment (st_step c id)) = ncm /\ length (r_text (st_step c id)) = ntx
                    /\ r_stack (st_step c id) = r_stack c
                    /\ (forall i, cnt (r_comment (st_step c id)) i = cnt (r_comment c) i - (if owns lc_cm i id then 1 else 0))
                    /\ (forall i, cnt (r_text (st_step c id)) i = cnt (r_text c) i - (if owns lc_tx i id then 1 else 0))).
    { unfold st_step, owns. rewrite Hl. destruct (nth_error locs id) as [l|] eqn:El.
      - cbn. split; [exact Hl|].
        split; [destruct (lc_cm l); [rewrite length_hv_dec|]; exact Hc|].
        split; [destruct (lc_tx l); [rewrite length_hv_dec|]; exact Ht|].
        split; [reflexivity|]. split; intros i.
        + destruct (lc_cm l) as [j|]; [|lia]. rewrite cnt_hv_dec, (Nat.eqb_sym i j). reflexivity.
        + destruct (lc_tx l) as [j|]; [|lia]. rewrite cnt_hv_dec, (Nat.eqb_sym i j). reflexivity.
      - repeat split; try assumption; intros i; lia. }
    destruct Hstep as [Hl1 [Hc1 [Ht1 [Hs1 [Hcm1 Htx1]]]]].
    destruct (IH (st_step c id) Hl1 Hc1 Ht1) as [Hl2 [Hc2 [Ht2 [Hs2 [Hcm2 Htx2]]]]].
    split; [exact Hl2|]. split; [exact Hc2|]. split; [exact Ht2|]. split; [rewrite Hs2; exact Hs1|].
    split; intros i; [rewrite Hcm2, Hcm1 | rewrite Htx2, Htx1]; rewrite uses_cons; lia.
Qed.
Lemma stop_matching_counts c d :
  r_locators c = locs -> length (r_comment c) = ncm -> length (r_text c) = ntx ->
  let c' := stop_matching c d in
  r_locators c' = locs /\ length (r_comment c') = ncm /\ length (r_text c') = ntx /\ r_stack c' = r_stack c /\
  (forall i, cnt (r_comment c') i = cnt (r_comment c) i - uses lc_cm i (ed_matched d)) /\
  (forall i, cnt (r_text c') i = cnt (r_text c) i - uses lc_tx i (ed_matched d)).
Proof.
  intros Hl Hc Ht. unfold stop_matching. fold st_step.
  destruct (st_fold_counts (ed_matched d) c Hl Hc Ht) as [Hl2 [Hc2 [Ht2 [Hs2 [Hcm2 Htx2]]]]].
  cbn. repeat split; assumption.
Qed.
Lemma fold_stop_counts ds : forall c,
  r_locators c = locs -> length (r_comment c) = ncm -> length (r_text c) = ntx ->
  let c' := fold_left stop_matching ds c in
  r_locators c' = locs /\ length (r_comment c') = ncm /\ length (r_text c') = ntx /\ r_stack c' = r_stack c /\
  (forall i, cnt (r_comment c') i = cnt (r_comment c) i - uses lc_cm i (flat_map ed_matched ds)) /\
  (forall i, cnt (r_text c') i = cnt (r_text c) i - uses lc_tx i (flat_map ed_matched ds)).
Proof.
  induction ds as [|d ds IH]; intros c Hl Hc Ht; cbn zeta.
  - cbn. repeat split; try assumption; intros i; unfold uses; cbn; lia.
  - cbn [fold_left flat_map].
    destruct (stop_matching_counts c d Hl Hc Ht) as [Hl1 [Hc1 [Ht1 [Hs1 [Hcm1 Htx1]]]]].
    destruct (IH (stop_matching c d) Hl1 Hc1 Ht1) as [Hl2 [Hc2 [Ht2 [Hs2 [Hcm2 Htx2]]]]].
    split; [exact Hl2|]. split; [exact Hc2|]. split; [exact Ht2|]. split; [rewrite Hs2; exact Hs1|].
    split; intros i; [rewrite Hcm2, Hcm1 | rewrite Htx2, Htx1]; rewrite uses_app; lia.
Qed.

(* ---------- the fields the invariant reads are not touched by token handling ---------- *)
Definition ssig (c : rwc) := (r_comment c, r_text c, r_locators c, all_ids (vs_items (r_stack c))).

Lemma map_last_ids (f : stack_item -> stack_item) items :
  (forall it, ed_matched (si_data (f it)) = ed_matched (si_data it)) -> all_ids (map_last f items) = all_ids items.
Proof.
  intros Hf. unfold map_last. destruct items as [|x l] using rev_ind; [reflexivity|].
  rewrite rev_app_distr. cbn [rev app]. rewrite rev_involutive. rewrite !all_ids_app. cbn. rewrite Hf. reflexivity.
Qed.
Lemma set_top_data_ids s f : (forall d, ed_matched (f d) = ed_matched d) -> all_ids (vs_items (set_top_data s f)) = all_ids (vs_items s).
Proof. intros Hf. unfold set_top_data. cbn. apply map_last_ids. intros it. cbn. apply Hf. Qed.
Lemma stack_add_child_ids s n : all_ids (vs_items (stack_add_child s n)) = all_ids (vs_items s).
Proof.
  unfold stack_add_child. destruct (vs_items s) eqn:E.
  - cbn [vs_typed vs_items vs_root_children vs_cap vs_active_hj]. destruct (vs_typed s); reflexivity.
  - cbn [vs_typed vs_items vs_root_children vs_cap vs_active_hj].
    destruct (vs_typed s); cbn [vs_items]; apply map_last_ids; intros it; reflexivity.
Qed.

Lemma run_element_handlers_ssig v : forall k e c tok, ssig (snd (fst (run_element_handlers v k e c tok))) = ssig c.
Proof.
  induction v as [|i r IH]; intros k e c tok; cbn [run_element_handlers]; [reflexivity|].
  destruct (0 <? hi_count i).
  - rewrite invoke_eq. destruct (fails c); [reflexivity|].
    destruct (run_el_ops e (hi_h i)) as [e' res].
    match goal with |- context [run_element_handlers r (S k) e' ?c2 tok] =>
      specialize (IH (S k) e' c2 tok); destruct (run_element_handlers r (S k) e' c2 tok) as [[[r' e''] c3] f] end.
    cbn in *. exact IH.
  - specialize (IH (S k) e c tok). destruct (run_element_handlers r (S k) e c tok) as [[[r' e'] c'] f]. cbn in *. exact IH.
Qed.
Lemma run_tok_handlers_ssig kind v : forall last t c tok, ssig (snd (fst (run_tok_handlers kind v last t c tok))) = ssig c.
Proof.
  induction v as [|[k i] r IH]; intros last t c tok; cbn [run_tok_handlers]; [reflexivity|].
  destruct (0 <? hi_count i); [|apply IH].
  rewrite invoke_eq. destruct (fails c); [reflexivity|].
  match goal with |- context [if ?b then run_tok_ops ?x ?y ?z else ?w] => destruct (if b then run_tok_ops x y z else w) as [t' res] end.
  rewrite IH. reflexivity.
Qed.
Lemma run_user_endtag_ssig k users : forall t c tok, ssig (snd (fst (run_user_endtag k users t c tok))) = ssig c.
Proof.
  induction users as [|ops r IH]; intros t c tok; cbn [run_user_endtag]; [reflexivity|].
  rewrite invoke_eq. destruct (fails c); [reflexivity|]. rewrite IH. reflexivity.
Qed.
Lemma run_endtag_items_ssig items : forall t c tok, ssig (snd (fst (run_endtag_items items t c tok))) = ssig c.
Proof.
  induction items as [|[k i] r IH]; intros t c tok; cbn [run_endtag_items]; [reflexivity|].
  destruct (0 <? hi_count i); [|apply IH].
  match goal with |- context [run_user_endtag ?a ?b ?t' c tok] => pose proof (run_user_endtag_ssig a b t' c tok) as H; destruct (run_user_endtag a b t' c tok) as [[t3 c1] failed] end.
  cbn in H. destruct failed; [exact H|]. rewrite IH. exact H.
Qed.

Lemma rw_token_ssig c tok : ssig (fst (rw_token c tok)) = ssig c.
Proof.
  destruct tok; cbn [rw_token].
  - unfold handle_start_tag.
    match goal with |- context [run_element_handlers ?v 0 ?e c ?tk] => pose proof (run_element_handlers_ssig v 0 e c tk) as H; destruct (run_element_handlers v 0 e c tk) as [[[elv e1] c1] failed] end.
    cbn [fst snd] in H. destruct failed; cbn [fst]; [exact H|].
    cbn [r_next_chc rset_handlers r_prog r_stack].
    destruct (r_next_chc c1); cbn [fst]; [|exact H].
    destruct (r_prog c1); cbn [fst]; [|exact H].
    destruct (vs_items (r_stack c1)) eqn:Ei; cbn [fst]; [exact H|].
    rewrite <- H. unfold ssig.
    destruct (el_remove_content e1);
      (destruct (el_end_mut e1); [|destruct (el_end_name e1); [|destruct (el_end_handlers e1)]]);
      cbn [r_comment r_text r_locators r_stack rset_handlers rset_vm vs_items]; rewrite ?set_top_data_ids by (intros; reflexivity); reflexivity.
  - unfold handle_end_tag_token. destruct (first_active (r_endtag c) 0); cbn [fst]; [|reflexivity].
    match goal with |- context [run_endtag_items ?it ?t ?c0 ?tk] => pose proof (run_endtag_items_ssig it t c0 tk) as H; destruct (run_endtag_items it t c0 tk) as [[t1 c1] failed] end.
    cbn in H. destruct failed; cbn; exact H.
  - match goal with |- context [run_tok_handlers ?k ?v ?l ?t c ?tk] => pose proof (run_tok_handlers_ssig k v l t c tk) as H; destruct (run_tok_handlers k v l t c tk) as [[t1 c1] failed] end.
    cbn in H. destruct failed; cbn; exact H.
  - match goal with |- context [run_tok_handlers ?k ?v ?l ?t c ?tk] => pose proof (run_tok_handlers_ssig k v l t c tk) as H; destruct (run_tok_handlers k v l t c tk) as [[t1 c1] failed] end.
    cbn in H. destruct failed; cbn; exact H.
  - match goal with |- context [run_tok_handlers ?k ?v ?l ?t c ?tk] => pose proof (run_tok_handlers_ssig k v l t c tk) as H; destruct (run_tok_handlers k v l t c tk) as [[t1 c1] failed] end.
    cbn in H. destruct failed; cbn; exact H.
Qed.

Lemma SInv_of_ssig c c' : ssig c' = ssig c -> SInv c -> SInv c'.
Proof.
  unfold ssig. intros E [H1 H2 H3 H4 H5]. inversion E as [[Ec Et El Ei]].
  constructor; rewrite ?Ec, ?Et, ?El, ?Ei; assumption.
Qed.

(* ---------- the VM-driven operations ---------- *)
Lemma stack_push_items s it isz mi other mx s' ch : stack_push s it isz mi other mx = (s', ch, true) -> vs_items s' = vs_items s ++ [it].
Proof.
  unfold stack_push.
  destruct (length (vs_items s) <? vs_cap s).
  - intro E; inversion E; subst; reflexivity.
  - destruct (_ <=? _)%N; intro E; inversion E; subst; reflexivity.
Qed.
Lemma all_ids_single it : all_ids [it] = ed_matched (si_data it).
Proof. unfold all_ids. cbn. apply app_nil_r. Qed.

Lemma finish_exec_SInv c ext ec c' f : SInv c -> finish_exec c ext ec = (c', FOk f) -> SInv c'.
Proof.
  intros [Hl Hc Ht Hcm Htx]. unfold finish_exec.
  destruct (start_matching_counts (ed_matched (si_data (ec_item ec))) c (ec_with_content ec) Hl Hc Ht) as [Hl1 [Hc1 [Ht1 [Hs1 [Hcm1 Htx1]]]]].
  set (c1 := start_matching c (ed_matched (si_data (ec_item ec))) (ec_with_content ec)) in *.
  destruct (ec_with_content ec).
  - destruct (stack_push _ _ _ _ _ _) as [[s' charged] ok] eqn:Ep. destruct ok; intro E; inversion E; subst; clear E.
    apply stack_push_items in Ep.
    constructor; cbn [rset_vm r_locators r_comment r_text r_stack]; try assumption.
    + intros i. rewrite Ep, Hs1, all_ids_app, uses_app, all_ids_single, Hcm1, Hcm. lia.
    + intros i. rewrite Ep, Hs1, all_ids_app, uses_app, all_ids_single, Htx1, Htx. lia.
  - intro E; inversion E; subst; clear E.
    constructor; try assumption.
    + intros i. rewrite Hs1, Hcm1, Hcm. lia.
    + intros i. rewrite Hs1, Htx1, Htx. lia.
Qed.

Lemma SInv_vm c s ch : SInv c -> all_ids (vs_items s) = all_ids (vs_items (r_stack c)) -> SInv (rset_vm c s ch).
Proof. intros [H1 H2 H3 H4 H5] E. constructor; cbn [rset_vm r_locators r_comment r_text r_stack]; try assumption; intros i; rewrite E; auto. Qed.
Lemma SInv_pending c p : SInv c -> SInv (rset_pending c p).
Proof. intros [H1 H2 H3 H4 H5]. constructor; assumption. Qed.

Lemma rw_start_tag_SInv c ext n h x c' r : SInv c -> rw_start_tag c ext n h x = (c', r) -> match r with SErr _ => True | _ => SInv c' end.
Proof.
  intros Hi. unfold rw_start_tag. destruct (r_prog c) as [prog|]; [|intro E; inversion E; subst; exact Hi].
  set (ln := lname_of n h).
  assert (H1 : SInv (rset_vm c (stack_add_child (r_stack c) ln) (r_vm_charged c))) by (apply SInv_vm; [exact Hi | apply stack_add_child_ids]).
  destruct (get_stack_directive ln x).
  2: { intro E; inversion E; subst. apply SInv_pending. exact H1. }
  all: match goal with |- context [exec_without_attrs ?p ?s ?e] => destruct (exec_without_attrs p s e) as [ec'|ec' a rr|] end.
  all: try (intro E; inversion E; subst; exact I).
  all: try (intro E; inversion E; subst; apply SInv_pending; exact H1).
  all: match goal with |- context [finish_exec ?cc ?ee ?xx] => destruct (finish_exec cc ee xx) as [c2 fr] eqn:Ef end;
       intro E; inversion E; subst; destruct fr; [eapply finish_exec_SInv; eassumption | exact I].
Qed.
Lemma rw_aux_info_SInv c ext a sc c' f : SInv c -> rw_aux_info c ext a sc = (c', FOk f) -> SInv c'.
Proof.
  intros Hi. unfold rw_aux_info. destruct (r_prog c) as [prog|]; [|intro E; inversion E].
  destruct (r_pending c) as [[ec how]|]; [|intro E; inversion E].
  match goal with |- context [match ?r with Some _ => _ | None => _ end = _] => destruct r as [ec'|] end; [|intro E; inversion E].
  intro E. eapply finish_exec_SInv; [|exact E]. apply SInv_pending. exact Hi.
Qed.
Lemma pop_ids s n s' popped : stack_pop_up_to s n = (s', popped) ->
  all_ids (vs_items s) = all_ids (vs_items s') ++ flat_map ed_matched popped.
Proof.
  unfold stack_pop_up_to. destruct (rposition (vs_items s) n 0 None) as [idx|]; intro E; inversion E; subst; clear E.
  - cbn [vs_items]. rewrite <- (firstn_skipn idx (vs_items s)) at 1. rewrite all_ids_app. f_equal.
    unfold all_ids. rewrite flat_map_concat_map, flat_map_concat_map, map_map. reflexivity.
  - cbn. rewrite app_nil_r. reflexivity.
Qed.
Lemma rw_end_tag_SInv c n h c' f : SInv c -> rw_end_tag c n h = (c', f) -> SInv c'.
Proof.
  intros [Hl Hc Ht Hcm Htx]. unfold rw_end_tag. destruct (r_prog c) as [prog|]; [|intro E; inversion E; subst; constructor; assumption].
  destruct (stack_pop_up_to (r_stack c) (lname_of n h)) as [s' popped] eqn:Ep. intro E; inversion E; subst; clear E.
  apply pop_ids in Ep.
  destruct (fold_stop_counts popped (rset_vm c s' (r_vm_charged c)) Hl Hc Ht) as [Hl2 [Hc2 [Ht2 [Hs2 [Hcm2 Htx2]]]]].
  constructor; try assumption.
  - intros i. rewrite Hcm2, Hs2. cbn [rset_vm r_comment r_stack]. rewrite Hcm, Ep, uses_app. lia.
  - intros i. rewrite Htx2, Hs2. cbn [rset_vm r_text r_stack]. rewrite Htx, Ep, uses_app. lia.
Qed.
Lemma rw_token_SInv c t c' ps : SInv c -> rw_token c t = (c', OOk ps) -> SInv c'.
Proof. intros Hi E. apply (SInv_of_ssig c); [|exact Hi]. pose proof (rw_token_ssig c t) as H. rewrite E in H. exact H. Qed.

(* ---------- every state reached through successful writes ---------- *)
Theorem scope_counts_after_successful_writes cfg c0 chunks r res :
  SInv c0 ->
  api_run rc (new_rewriter rc cfg c0) (map Write chunks) = (r, res) -> Forall (fun x => x = ROk) res ->
  SInv (d_ctl (c_disp (s_ctx (rw_stream r)))).
Proof.
  intros H0 Er Hall.
  apply (J_after_successful_writes rc SInv) with (chunks := chunks) (r0 := new_rewriter rc cfg c0) (res := res); auto.
  - intros c ext n h x c' r0 Hc E. exact (rw_start_tag_SInv c ext n h x c' r0 Hc E).
  - intros c ext a sc c' f Hc E. exact (rw_aux_info_SInv c ext a sc c' f Hc E).
  - intros c n h c' f Hc E. exact (rw_end_tag_SInv c n h c' f Hc E).
  - intros c t c' ps Hc E. exact (rw_token_SInv c t c' ps Hc E).
Qed.
End Scope.

(* ---------- the initial state built by HtmlRewriteController::from_settings ---------- *)
Definition sel_step (acc : list ast_node * hvec (list el_op) * hvec (list tok_op) * hvec (tx_when * list tok_op) * list locator) (sh : sel_handlers) :=
  let '(ast, el, cm, tx, locs) := acc in
  let id := length locs in
  let (el', li) := opt_push el sh.(sh_element) false in
  let (cm', lc) := opt_push cm sh.(sh_comments) false in
  let (tx', lt) := opt_push tx sh.(sh_text) false in
  (add_selector ast sh.(sh_selector) id, el', cm', tx', locs ++ [mkLoc li lc lt]).
Definition doc_step (acc : hvec (list tok_op) * hvec (list tok_op) * hvec (tx_when * list tok_op) * hvec (list chunk)) (dh : doc_handlers) :=
  let '(dt, cm, tx, en) := acc in
  (fst (opt_push dt dh.(dh_doctype) true), fst (opt_push cm dh.(dh_comments) true), fst (opt_push tx dh.(dh_text) true), fst (opt_push en dh.(dh_end) true)).

Definition locs_ok (locs : list locator) (ncm ntx : nat) : Prop :=
  forall id l, nth_error locs id = Some l -> (forall i, lc_cm l = Some i -> i < ncm) /\ (forall i, lc_tx l = Some i -> i < ntx).
Definition zero_counts {A} (v : hvec A) : Prop := forall i, cnt v i = 0.

Lemma cnt_app_l {A} (v w : hvec A) i : i < length v -> cnt (v ++ w) i = cnt v i.
Proof. intros H. unfold cnt. rewrite nth_error_app1 by exact H. reflexivity. Qed.
Lemma cnt_snoc {A} (v : hvec A) x i : cnt (v ++ [x]) i = if i =? length v then hi_count x else cnt v i.
Proof.
  unfold cnt. destruct (Nat.eqb_spec i (length v)) as [->|Hne].
  - rewrite nth_error_app2, Nat.sub_diag by lia. reflexivity.
  - destruct (Nat.lt_ge_cases i (length v)).
    + rewrite nth_error_app1 by assumption. reflexivity.
    + rewrite nth_error_app2 by assumption. destruct (i - length v) as [|k] eqn:E; [lia|]. cbn.
      replace (nth_error v i) with (@None (hitem A)) by (symmetry; apply nth_error_None; lia). destruct k; reflexivity.
Qed.

Lemma opt_push_spec {A} (v : hvec A) h a : 
  let '(v', loc) := opt_push v h a in
  length v <= length v' /\ (forall i, loc = Some i -> i < length v') /\
  (forall i, cnt v' i = if (i =? length v) && (length v <? length v') then (if a then 1 else 0) else cnt v i).
Proof.
  unfold opt_push. destruct h as [x|].
  - rewrite app_length. cbn [length]. split; [lia|]. split; [intros i E; inversion E; lia|].
    intros i. rewrite cnt_snoc. cbn [hi_count]. destruct (Nat.eqb_spec i (length v)); [|reflexivity].
    replace (length v <? length v + 1) with true by lia. destruct a; reflexivity.
  - split; [lia|]. split; [intros i E; inversion E|]. intros i. rewrite Nat.ltb_irrefl, andb_false_r. reflexivity.
Qed.

Lemma sel_fold_ok sels : forall acc,
  (let '(_, _, cm, tx, locs) := acc in locs_ok locs (length cm) (length tx) /\ zero_counts cm /\ zero_counts tx) ->
  let '(_, _, cm, tx, locs) := fold_left sel_step sels acc in locs_ok locs (length cm) (length tx) /\ zero_counts cm /\ zero_counts tx.
Proof.
  induction sels as [|sh sels IH]; intros acc H; [exact H|]. cbn [fold_left]. apply IH. clear IH.
  destruct acc as [[[[ast el] cm] tx] locs]. destruct H as [Hl [Hzc Hzt]]. unfold sel_step.
  destruct (opt_push el (sh_element sh) false) as [el' li].
  pose proof (opt_push_spec cm (sh_comments sh) false) as Pc. destruct (opt_push cm (sh_comments sh) false) as [cm' lc]. destruct Pc as [Pc1 [Pc2 Pc3]].
  pose proof (opt_push_spec tx (sh_text sh) false) as Pt. destruct (opt_push tx (sh_text sh) false) as [tx' lt]. destruct Pt as [Pt1 [Pt2 Pt3]].
  split; [|split].
  - intros id l E. destruct (Nat.lt_ge_cases id (length locs)) as [Hlt|Hge].
    + rewrite nth_error_app1 in E by exact Hlt. destruct (Hl id l E) as [A B]. split; intros i Ei; [specialize (A i Ei) | specialize (B i Ei)]; lia.
    + rewrite nth_error_app2 in E by exact Hge. destruct (id - length locs) as [|k]; [|destruct k; discriminate]. cbn in E. inversion E; subst. cbn. split; auto.
  - intros i. rewrite Pc3. destruct ((i =? length cm) && (length cm <? length cm')); [reflexivity | apply Hzc].
  - intros i. rewrite Pt3. destruct ((i =? length tx) && (length tx <? length tx')); [reflexivity | apply Hzt].
Qed.
Lemma doc_fold_ok docs : forall acc n m,
  (let '(_, cm, tx, _) := acc in n <= length cm /\ m <= length tx) ->
  let '(_, cm, tx, _) := fold_left doc_step docs acc in n <= length cm /\ m <= length tx.
Proof.
  induction docs as [|dh docs IH]; intros acc n m H; [exact H|]. cbn [fold_left]. apply IH. clear IH.
  destruct acc as [[[dt cm] tx] en]. destruct H as [H1 H2]. unfold doc_step.
  pose proof (opt_push_spec cm (dh_comments dh) true) as Pc. destruct (opt_push cm (dh_comments dh) true) as [cm' lc]. destruct Pc as [Pc1 _].
  pose proof (opt_push_spec tx (dh_text dh) true) as Pt. destruct (opt_push tx (dh_text dh) true) as [tx' lt]. destruct Pt as [Pt1 _].
  cbn. lia.
Qed.

(* the initial controller state satisfies the invariant with its own counts as the base and nothing open *)
Lemma new_rwc_SInv sels docs bail fail isz mx :
  let c0 := new_rwc sels docs bail fail isz mx in
  SInv (r_locators c0) (length (r_comment c0)) (length (r_text c0)) (cnt (r_comment c0)) (cnt (r_text c0)) c0
  /\ locs_ok (r_locators c0) (length (r_comment c0)) (length (r_text c0)).
Proof.
  unfold new_rwc. fold sel_step. fold doc_step.
  pose proof (sel_fold_ok sels ([], [], [], [], [])) as Hs.
  destruct (fold_left sel_step sels ([], [], [], [], [])) as [[[[ast el] cm] tx] locs].
  assert (H0 : locs_ok [] (length (@nil (hitem (list tok_op)))) (length (@nil (hitem (tx_when * list tok_op)))) /\ zero_counts (@nil (hitem (list tok_op))) /\ zero_counts (@nil (hitem (tx_when * list tok_op)))).
  { split; [intros id l E; destruct id; discriminate|]. split; intros i; unfold cnt; destruct i; reflexivity. }
  specialize (Hs H0). destruct Hs as [Hl _].
  pose proof (doc_fold_ok docs ([], cm, tx, []) (length cm) (length tx)) as Hd.
  destruct (fold_left doc_step docs ([], cm, tx, [])) as [[[dt cm2] tx2] en].
  specialize (Hd (conj (le_n _) (le_n _))). destruct Hd as [Hd1 Hd2].
  cbn zeta. split.
  - constructor; cbn [r_locators r_comment r_text r_stack new_vstack vs_items]; try reflexivity; intros i; unfold uses, all_ids; cbn [flat_map filter length]; lia.
  - cbn. intros id l E. destruct (Hl id l E) as [A B]. split; intros i Ei; [specialize (A i Ei) | specialize (B i Ei)]; lia.
Qed.

(* selector-scoped handlers start inactive *)
Lemma new_rwc_selector_scoped_inactive sels docs bail fail isz mx id l :
  let c0 := new_rwc sels docs bail fail isz mx in
  nth_error (r_locators c0) id = Some l ->
  (forall i, lc_cm l = Some i -> cnt (r_comment c0) i = 0) /\ (forall i, lc_tx l = Some i -> cnt (r_text c0) i = 0).
Proof.
  unfold new_rwc. fold sel_step. fold doc_step.
  pose proof (sel_fold_ok sels ([], [], [], [], [])) as Hs.
  destruct (fold_left sel_step sels ([], [], [], [], [])) as [[[[ast el] cm] tx] locs].
  assert (H0 : locs_ok [] (length (@nil (hitem (list tok_op)))) (length (@nil (hitem (tx_when * list tok_op)))) /\ zero_counts (@nil (hitem (list tok_op))) /\ zero_counts (@nil (hitem (tx_when * list tok_op)))).
  { split; [intros id0 l0 E; destruct id0; discriminate|]. split; intros i; unfold cnt; destruct i; reflexivity. }
  specialize (Hs H0). destruct Hs as [Hl [Hzc Hzt]].
  assert (Hd : forall docs acc, let '(_, cm0, tx0, _) := acc in
                 let '(_, cm2, tx2, _) := fold_left doc_step docs acc in
                 (forall i, i < length cm0 -> cnt cm2 i = cnt cm0 i) /\ (forall i, i < length tx0 -> cnt tx2 i = cnt tx0 i)).
  { induction docs0 as [|dh ds IH]; intros [[[dt0 cm0] tx0] en0]; [cbn; auto|].
    cbn [fold_left]. unfold doc_step at 2.
    pose proof (opt_push_spec cm0 (dh_comments dh) true) as Pc. destruct (opt_push cm0 (dh_comments dh) true) as [cm' lc]. destruct Pc as [Pc1 [_ Pc3]].
    pose proof (opt_push_spec tx0 (dh_text dh) true) as Pt. destruct (opt_push tx0 (dh_text dh) true) as [tx' lt]. destruct Pt as [Pt1 [_ Pt3]].
    cbn [fst]. specialize (IH (fst (opt_push dt0 (dh_doctype dh) true), cm', tx', fst (opt_push en0 (dh_end dh) true))).
    destruct (fold_left doc_step ds _) as [[[dt2 cm2] tx2] en2]. destruct IH as [I1 I2].
    split; intros i Hi.
    - rewrite I1 by lia. rewrite Pc3. replace (i =? length cm0) with false by lia. reflexivity.
    - rewrite I2 by lia. rewrite Pt3. replace (i =? length tx0) with false by lia. reflexivity. }
  specialize (Hd docs ([], cm, tx, [])). cbn beta iota in Hd.
  destruct (fold_left doc_step docs ([], cm, tx, [])) as [[[dt cm2] tx2] en]. destruct Hd as [D1 D2].
  cbn. intros E. destruct (Hl id l E) as [A B]. split; intros i Ei.
  - rewrite D1 by (apply A; exact Ei). apply Hzc.
  - rewrite D2 by (apply B; exact Ei). apply Hzt.
Qed.

(* ---------- the statement for the real initial state ---------- *)
Theorem handler_counts_track_open_matched_elements sels docs bail fail isz cfg chunks r res :
  let c0 := new_rwc sels docs bail fail isz (st_max_mem cfg) in
  api_run rc (new_rewriter rc cfg c0) (map Write chunks) = (r, res) -> Forall (fun x => x = ROk) res ->
  let c := d_ctl (c_disp (s_ctx (rw_stream r))) in
  forall i,
    cnt (r_comment c) i = cnt (r_comment c0) i + uses (r_locators c0) lc_cm i (all_ids (vs_items (r_stack c))) /\
    cnt (r_text c) i = cnt (r_text c0) i + uses (r_locators c0) lc_tx i (all_ids (vs_items (r_stack c))).
Proof.
  intros c0 Er Hall c i.
  destruct (new_rwc_SInv sels docs bail fail isz (st_max_mem cfg)) as [H0 Hok]. fold c0 in H0, Hok.
  assert (Hcm : forall id l j, nth_error (r_locators c0) id = Some l -> lc_cm l = Some j -> j < length (r_comment c0)) by (intros id l j E Ej; exact (proj1 (Hok id l E) j Ej)).
  assert (Htx : forall id l j, nth_error (r_locators c0) id = Some l -> lc_tx l = Some j -> j < length (r_text c0)) by (intros id l j E Ej; exact (proj2 (Hok id l E) j Ej)).
  pose proof (scope_counts_after_successful_writes (r_locators c0) (length (r_comment c0)) (length (r_text c0)) Hcm Htx
                (cnt (r_comment c0)) (cnt (r_text c0)) cfg c0 chunks r res H0 Er Hall) as [_ _ _ Hc Ht].
  split; [apply Hc | apply Ht].
Qed.

(* a selector-scoped comment / text handler is active exactly while an element matched by its selector is open *)
Lemma uses_pos locs sel i ids : 0 < uses locs sel i ids <-> exists id, In id ids /\ owns locs sel i id = true.
Proof.
  unfold uses. split.
  - intros H. destruct (filter (owns locs sel i) ids) as [|id r] eqn:E; [cbn in H; lia|].
    assert (Hin : In id (filter (owns locs sel i) ids)) by (rewrite E; left; reflexivity).
    apply filter_In in Hin. exists id. exact Hin.
  - intros [id [Hin Ho]]. assert (Hf : In id (filter (owns locs sel i) ids)) by (apply filter_In; split; assumption).
    destruct (filter (owns locs sel i) ids); [destruct Hf | cbn; lia].
Qed.
Theorem scoped_handler_active_iff_matched_element_open sels docs bail fail isz cfg chunks r res :
  let c0 := new_rwc sels docs bail fail isz (st_max_mem cfg) in
  api_run rc (new_rewriter rc cfg c0) (map Write chunks) = (r, res) -> Forall (fun x => x = ROk) res ->
  let c := d_ctl (c_disp (s_ctx (rw_stream r))) in
  forall k l, nth_error (r_locators c0) k = Some l ->
    (forall i, lc_cm l = Some i ->
       (0 < cnt (r_comment c) i <-> exists it id, In it (vs_items (r_stack c)) /\ In id (ed_matched (si_data it)) /\ owns (r_locators c0) lc_cm i id = true)) /\
    (forall i, lc_tx l = Some i ->
       (0 < cnt (r_text c) i <-> exists it id, In it (vs_items (r_stack c)) /\ In id (ed_matched (si_data it)) /\ owns (r_locators c0) lc_tx i id = true)).
Proof.
  intros c0 Er Hall c k l El.
  pose proof (handler_counts_track_open_matched_elements sels docs bail fail isz cfg chunks r res Er Hall) as H. fold c0 c in H.
  destruct (new_rwc_selector_scoped_inactive sels docs bail fail isz (st_max_mem cfg) k l El) as [Zc Zt]. fold c0 in Zc, Zt.
  assert (Hflat : forall sel i, (exists id, In id (all_ids (vs_items (r_stack c))) /\ owns (r_locators c0) sel i id = true) <->
                               (exists it id, In it (vs_items (r_stack c)) /\ In id (ed_matched (si_data it)) /\ owns (r_locators c0) sel i id = true)).
  { intros sel i. unfold all_ids. split.
    - intros [id [Hin Ho]]. apply in_flat_map in Hin. destruct Hin as [it [H1 H2]]. exists it, id. auto.
    - intros [it [id [H1 [H2 Ho]]]]. exists id. split; [apply in_flat_map; exists it; auto | exact Ho]. }
  split; intros i Ei.
  - destruct (H i) as [Hc _]. rewrite Hc, (Zc i Ei), Nat.add_0_l, uses_pos. apply Hflat.
  - destruct (H i) as [_ Ht]. rewrite Ht, (Zt i Ei), Nat.add_0_l, uses_pos. apply Hflat.
Qed.
