(* Corollaries of the tiling theorem used by C02, C06, C09, C14. *)
From LolModel Require Import Machine.
From LolProofs Require Import Tiling TableFacts.
From Coq Require Import Lia.
Open Scope nat_scope.

Section Cor.
Context {C : Type} (ctl : controller C).
Hypothesis obs_token : forall c t c' ps, c_token ctl c t = (c', OOk ps) -> List.concat ps = token_bytes t.
Hypothesis obs_emit : forall c, c_should_emit ctl c = true.

(* what is held back after successful writes is exactly the buffered tail of the input *)
Theorem pending_is_buffered cfg c0 chunks r res :
  api_run ctl (new_rewriter ctl cfg c0) (map Write chunks) = (r, res) -> Forall (fun x => x = ROk) res ->
  sink_bytes (rw_sink r) ++ buffered (rw_stream r) = List.concat chunks
  /\ length (List.concat chunks) - length (sink_bytes (rw_sink r)) = length (buffered (rw_stream r)).
Proof.
  intros E Hall.
  destruct (writes_G ctl obs_token obs_emit table_ok_current chunks (new_rewriter ctl cfg c0) [] (G_init ctl cfg c0) eq_refl eq_refl r res E Hall) as ((Hsb & _) & _ & _).
  cbn in Hsb. split; [exact Hsb|]. rewrite <- Hsb, app_length. unfold rw_sink, sd_, sb in *. lia.
Qed.
End Cor.

(* two runs (any two observer controllers, e.g. H and H plus observers; any two chunkings of the same bytes) emit the same bytes *)
Theorem observers_agree {C1 C2} (ctl1 : controller C1) (ctl2 : controller C2) cfg1 cfg2 c1 c2 chunks1 chunks2 r1 res1 r2 res2 :
  (forall c t c' ps, c_token ctl1 c t = (c', OOk ps) -> List.concat ps = token_bytes t) -> (forall c, c_should_emit ctl1 c = true) -> (forall c, snd (fst (c_end ctl1 c)) = []) ->
  (forall c t c' ps, c_token ctl2 c t = (c', OOk ps) -> List.concat ps = token_bytes t) -> (forall c, c_should_emit ctl2 c = true) -> (forall c, snd (fst (c_end ctl2 c)) = []) ->
  List.concat chunks1 = List.concat chunks2 ->
  api_run ctl1 (new_rewriter ctl1 cfg1 c1) (map Write chunks1 ++ [End]) = (r1, res1) -> Forall (fun x => x = ROk) res1 ->
  api_run ctl2 (new_rewriter ctl2 cfg2 c2) (map Write chunks2 ++ [End]) = (r2, res2) -> Forall (fun x => x = ROk) res2 ->
  sink_bytes (rw_sink r1) = sink_bytes (rw_sink r2).
Proof.
  intros A1 A2 A3 B1 B2 B3 Hc E1 H1 E2 H2.
  rewrite (pass_through ctl1 A1 A2 table_ok_current cfg1 c1 chunks1 r1 res1 A3 E1 H1).
  rewrite (pass_through ctl2 B1 B2 table_ok_current cfg2 c2 chunks2 r2 res2 B3 E2 H2). exact Hc.
Qed.

(* absolute ranges: a range relative to the chunk, shifted by the number of bytes consumed before, slices the
   whole document to the same bytes *)
Lemma slice_abs (pre chunk : bytes) (r : range) :
  rs r <= re r -> re r <= length chunk ->
  slice (pre ++ chunk) (abs_range (length pre) r) = slice chunk r.
Proof.
  intros H1 H2. unfold slice, abs_range. cbn.
  replace (length pre + re r - (length pre + rs r)) with (re r - rs r) by lia.
  rewrite skipn_app. rewrite skipn_all2 by lia. cbn.
  replace (length pre + rs r - length pre) with (rs r) by lia. reflexivity.
Qed.
