(* C17: the error-reporting protocol of the C layer (c-api/src/errors.rs, the unwrap_or_ret* macros): a failing entry point
   stores its message in the calling thread's slot and returns an error code; lol_html_take_last_error moves the message
   out.  Model of one thread's slot over an arbitrary history of calls. *)
From Coq Require Import List Bool String ZArith.
Import ListNotations.

Inductive c_event := CallOk | CallFail (msg : string) | Take.
Definition slot := option string.
(* one step: the new slot and what the C caller sees (return code, or the taken message) *)
Inductive c_seen := RetCode (rc : Z) | Taken (m : option string).
Definition c_step (s : slot) (e : c_event) : slot * c_seen :=
  match e with
  | CallOk => (s, RetCode 0)
  | CallFail m => (Some m, RetCode (-1))
  | Take => (None, Taken s)
  end.
Fixpoint c_run (s : slot) (h : list c_event) : slot * list c_seen :=
  match h with [] => (s, []) | e :: r => let (s1, o) := c_step s e in let (s2, os) := c_run s1 r in (s2, o :: os) end.

(* the message of the most recent failure that no later Take has consumed *)
Fixpoint pending (acc : slot) (h : list c_event) : slot :=
  match h with [] => acc | CallOk :: r => pending acc r | CallFail m :: r => pending (Some m) r | Take :: r => pending None r end.
Lemma c_run_slot h : forall s, fst (c_run s h) = pending s h.
Proof.
  induction h as [|e r IH]; intros s; [reflexivity|].
  cbn [c_run]. destruct e; cbn [c_step pending].
  - specialize (IH s). destruct (c_run s r) as [s2 os]. exact IH.
  - specialize (IH (Some msg)). destruct (c_run (Some msg) r) as [s2 os]. exact IH.
  - specialize (IH None). destruct (c_run None r) as [s2 os]. exact IH.
Qed.
(* what a Take at the end of any history returns: the most recent failure not yet taken, nothing otherwise *)
Theorem take_returns_latest_untaken_failure h s :
  snd (c_step (fst (c_run s h)) Take) = Taken (pending s h).
Proof. rewrite c_run_slot. reflexivity. Qed.
(* return codes: 0 exactly for successful calls, -1 exactly for failing ones; a successful call never touches the slot *)
Lemma c_step_codes s e : match e with CallOk => c_step s e = (s, RetCode 0) | CallFail m => c_step s e = (Some m, RetCode (-1)) | Take => c_step s e = (None, Taken s) end.
Proof. destruct e; reflexivity. Qed.
