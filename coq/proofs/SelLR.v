(* C04, middle layer (2): the left-to-right reading of a complex selector along the chain of ancestors (what the AST / the
   VM follow, outermost element first) is the right-to-left matching of CssSem.complex_matches (subject first, then the
   ancestors, innermost first). *)
From LolModel Require Import Base Selectors.
From LolSpec Require Import CssSem.
From LolProofs Require Import AstSem.
From Coq Require Import Lia Bool List.
Import ListNotations.
Open Scope nat_scope.

Notation cm := compound_matches.
Definition SC c path s : Prop := sel_child c path s = true.
Definition SS c path s : Prop := sel_sfx c path s = true.

Lemma SS_iff c path s : SS c path s <-> exists s1 s2, s = s1 ++ s2 /\ SC c path s2.
Proof.
  unfold SS, SC. induction s as [|e r IH]; cbn [sel_sfx].
  - split; [discriminate|]. intros [s1 [s2 [E H]]]. symmetry in E. apply app_eq_nil in E. destruct E as [_ ->]. discriminate H.
  - rewrite orb_true_iff, IH. split.
    + intros [H|[s1 [s2 [E H]]]]; [exists [], (e :: r); auto | exists (e :: s1), s2; split; [rewrite E; reflexivity | exact H]].
    + intros [s1 [s2 [E H]]]. destruct s1 as [|a s1]; cbn in E.
      * left. rewrite E. exact H.
      * right. inversion E; subst. exists s1, s2. auto.
Qed.
Lemma SC_nil c path : ~ SC c path [].
Proof. unfold SC. cbn. discriminate. Qed.
Lemma SC_cons c path e rest : SC c path (e :: rest) <->
  cm e c = true /\ match path with [] => rest = [] | (Child, c') :: p' => SC c' p' rest | (Descendant, c') :: p' => SS c' p' rest end.
Proof.
  unfold SC, SS. cbn [sel_child]. rewrite andb_true_iff. destruct path as [|[[|] c'] p']; [|reflexivity|reflexivity].
  destruct rest; split; intros [H1 H2]; split; auto; discriminate.
Qed.

Lemma SC_single c t : SC c [] t <-> exists y, t = [y] /\ cm y c = true.
Proof.
  destruct t as [|y t]; [split; [intros H; exfalso; exact (SC_nil _ _ H) | intros [y [E _]]; discriminate]|].
  rewrite SC_cons. split; [intros [H ->]; exists y; auto | intros [z [E H]]; inversion E; subst; auto].
Qed.
(* appending one (combinator, compound) at the right end of the selector and one element at the end of the chain *)
Lemma SC_snoc k cl x : forall n s c path, length s <= n ->
  (SC c (path ++ [(k, cl)]) (s ++ [x]) <->
   cm x cl = true /\ match k with Child => SC c path s | Descendant => exists s1 s2, s = s1 ++ s2 /\ SC c path s1 end).
Proof.
  induction n as [|n IH]; intros s c path Hn.
  - destruct s; [|cbn in Hn; lia]. cbn [app]. rewrite SC_cons. destruct path as [|[[|] c'] p']; cbn [app].
    + destruct k; rewrite ?SC_cons; split.
      * intros [_ H]. exfalso. exact (SC_nil _ _ H).
      * intros [_ H]. exfalso. exact (SC_nil _ _ H).
      * intros [_ H]. apply SS_iff in H. destruct H as [s1 [s2 [E H]]]. symmetry in E. apply app_eq_nil in E. destruct E as [_ ->]. exfalso. exact (SC_nil _ _ H).
      * intros [_ [s1 [s2 [E H]]]]. symmetry in E. apply app_eq_nil in E. destruct E as [-> _]. exfalso. exact (SC_nil _ _ H).
    + split; [intros [_ H]; exfalso; exact (SC_nil _ _ H)|]. intros [_ H]. destruct k; [exfalso; exact (SC_nil _ _ H)|].
      destruct H as [s1 [s2 [E H]]]. symmetry in E. apply app_eq_nil in E. destruct E as [-> _]. exfalso. exact (SC_nil _ _ H).
    + split; [intros [_ H]; apply SS_iff in H; destruct H as [s1 [s2 [E H]]]; symmetry in E; apply app_eq_nil in E; destruct E as [_ ->]; exfalso; exact (SC_nil _ _ H)|].
      intros [_ H]. destruct k; [exfalso; exact (SC_nil _ _ H)|].
      destruct H as [s1 [s2 [E H]]]. symmetry in E. apply app_eq_nil in E. destruct E as [-> _]. exfalso. exact (SC_nil _ _ H).
  - destruct s as [|e r]; [apply (IH [] c path); cbn; lia|]. cbn [length] in Hn. cbn [app]. rewrite SC_cons.
    destruct path as [|[[|] c'] p']; cbn [app].
    + (* the new compound is the second one *)
      destruct k.
      * rewrite SC_single, SC_cons. split.
        -- intros [H1 [y [E H2]]]. destruct r as [|a r]; [cbn in E; inversion E; subst; auto|].
           cbn in E. inversion E as [[Ea Er]]. destruct r; discriminate.
        -- intros [H1 [H2 ->]]. split; [exact H2|]. exists x. auto.
      * rewrite SS_iff. split.
        -- intros [H1 [s1 [s2 [E H]]]]. apply SC_single in H. destruct H as [y [-> H2]].
           apply app_inj_tail in E. destruct E as [_ <-]. split; [exact H2|]. exists [e], r. split; [reflexivity|]. apply SC_cons. auto.
        -- intros [H1 [s1 [s2 [E H]]]]. apply SC_single in H. destruct H as [y [-> H2]].
           cbn in E. inversion E; subst. split; [exact H2|]. exists s2, [x]. split; [reflexivity|]. apply SC_single. exists x. auto.
    + (* child step first *)
      rewrite (IH r c' p' ltac:(lia)). destruct k.
      * rewrite SC_cons. tauto.
      * split.
        -- intros [H1 [H2 [s1 [s2 [E H]]]]]. split; [exact H2|]. exists (e :: s1), s2. split; [rewrite E; reflexivity|]. apply SC_cons. auto.
        -- intros [H2 [s1 [s2 [E H]]]]. destruct s1 as [|a s1]; [exfalso; exact (SC_nil _ _ H)|]. apply SC_cons in H. destruct H as [H1 H].
           cbn in E. inversion E; subst. split; [exact H1|]. split; [exact H2|]. exists s1, s2. auto.
    + (* descendant step first *)
      rewrite SS_iff. split.
      * intros [H1 [t1 [t2 [E H]]]]. destruct t2 as [|y t2] using rev_ind; [exfalso; exact (SC_nil _ _ H)|]. clear IHt2.
        rewrite app_assoc in E. apply app_inj_tail in E. destruct E as [E <-].
        assert (Hl : length t2 <= n) by (apply (f_equal (@length _)) in E; rewrite app_length in E; lia).
        apply (IH t2 c' p' Hl) in H. destruct H as [H2 H]. split; [exact H2|]. destruct k.
        -- apply SC_cons. split; [exact H1|]. apply SS_iff. exists t1, t2. auto.
        -- destruct H as [s1 [s2 [E2 H]]]. exists (e :: t1 ++ s1), s2. split; [rewrite E, E2; cbn [app]; rewrite app_assoc; reflexivity|].
           apply SC_cons. split; [exact H1|]. apply SS_iff. exists t1, s1. auto.
      * intros [H2 H]. destruct k.
        -- apply SC_cons in H. destruct H as [H1 H]. apply SS_iff in H. destruct H as [t1 [t2 [E H]]]. split; [exact H1|].
           exists t1, (t2 ++ [x]). split; [rewrite E, <- app_assoc; reflexivity|].
           assert (Hl : length t2 <= n) by (apply (f_equal (@length _)) in E; rewrite app_length in E; lia).
           apply (IH t2 c' p' Hl). auto.
        -- destruct H as [s1 [s2 [E H]]]. destruct s1 as [|a s1]; [exfalso; exact (SC_nil _ _ H)|]. apply SC_cons in H. destruct H as [H1 H].
           cbn in E. inversion E; subst. split; [exact H1|]. apply SS_iff in H. destruct H as [t1 [t2 [E2 H]]].
           exists t1, (t2 ++ s2 ++ [x]). split; [rewrite E2, <- !app_assoc; reflexivity|].
           assert (Hl : length (t2 ++ s2) <= n) by (rewrite E2, !app_length in Hn; rewrite app_length; lia).
           rewrite app_assoc. apply (IH (t2 ++ s2) c' p' Hl). split; [exact H2|]. exists t2, s2. auto.
Qed.

(* ---- the right-to-left matcher of the specification, without fuel ---- *)
Fixpoint ml (left : list (compound * comb)) (anc : list elem) : bool :=
  match left with
  | [] => true
  | (c, cb) :: more =>
      match cb with
      | Child => match anc with p :: up => cm p c && ml more up | [] => false end
      | Descendant => (fix scan (a : list elem) : bool := match a with [] => false | p :: up => (cm p c && ml more up) || scan up end) anc
      end
  end.
Lemma match_left_ml : forall left anc fuel, length left <= fuel -> match_left left anc fuel = ml left anc.
Proof.
  induction left as [|[c cb] more IH]; intros anc fuel Hf; [destruct fuel; reflexivity|].
  destruct fuel as [|f]; [cbn in Hf; lia|]. cbn [length] in Hf. cbn [match_left ml]. destruct cb.
  - destruct anc as [|p up]; [reflexivity|]. rewrite IH by lia. reflexivity.
  - induction anc as [|p up IHa]; [reflexivity|]. rewrite IH by lia. rewrite IHa. reflexivity.
Qed.
Lemma ml_desc c more : forall anc, ml ((c, Descendant) :: more) anc = true <->
  exists a1 p0 up, anc = a1 ++ p0 :: up /\ cm p0 c = true /\ ml more up = true.
Proof.
  induction anc as [|p up IH].
  - split; [discriminate|]. intros [a1 [p0 [up [E _]]]]. destruct a1; discriminate.
  - change (ml ((c, Descendant) :: more) (p :: up)) with ((cm p c && ml more up) || ml ((c, Descendant) :: more) up).
    rewrite orb_true_iff, andb_true_iff, IH. split.
    + intros [[H1 H2]|[a1 [p0 [up' [E H]]]]]; [exists [], p, up; auto | exists (p :: a1), p0, up'; split; [rewrite E; reflexivity | exact H]].
    + intros [a1 [p0 [up' [E H]]]]. destruct a1 as [|a a1]; cbn in E; inversion E; subst; [left; exact H | right; exists a1, p0, up'; auto].
Qed.
Lemma trl_snoc k cl : forall p first acc, to_right_left first (p ++ [(k, cl)]) acc =
  let (subj, left) := to_right_left first p acc in (cl, (subj, k) :: left).
Proof. induction p as [|[k' c'] p IH]; intros first acc; cbn [app to_right_left]; [reflexivity | apply IH]. Qed.

Lemma snoc_cases {A} (l : list A) : l = [] \/ exists l' x, l = l' ++ [x].
Proof. destruct l as [|a l] using rev_ind; [left; reflexivity | right; exists l, a; reflexivity]. Qed.

(* the two readings agree: chain = ancestors outermost first, then the element *)
Lemma lr_is_rl : forall path first x chain,
  SS first path (chain ++ [x]) <-> (let (subj, left) := to_right_left first path [] in cm x subj = true /\ ml left (rev chain) = true).
Proof.
  induction path as [|[k cl] p IH] using rev_ind; intros first x chain.
  - cbn [to_right_left ml]. rewrite SS_iff. split.
    + intros [s1 [s2 [E H]]]. apply SC_single in H. destruct H as [y [-> H]]. apply app_inj_tail in E. destruct E as [_ ->]. auto.
    + intros [H _]. exists chain, [x]. split; [reflexivity|]. apply SC_single. exists x. auto.
  - rewrite trl_snoc. specialize (IH first). destruct (to_right_left first p []) as [subj left] eqn:Et.
    rewrite SS_iff. split.
    + intros [s1 [s2 [E H]]]. destruct (snoc_cases s2) as [->|[t' [y ->]]]; [exfalso; exact (SC_nil _ _ H)|].
      rewrite app_assoc in E. apply app_inj_tail in E. destruct E as [E <-].
      apply (SC_snoc k cl x (length t') t' first p (le_n _)) in H. destruct H as [H1 H]. split; [exact H1|]. destruct k.
      * (* child: the parent is the last element of the chain *)
        destruct (snoc_cases t') as [->|[u [p0 ->]]]; [exfalso; exact (SC_nil _ _ H)|].
        rewrite E, app_assoc, rev_app_distr. cbn [rev app ml].
        assert (Hs : SS first p ((s1 ++ u) ++ [p0])) by (apply SS_iff; exists s1, (u ++ [p0]); split; [rewrite app_assoc; reflexivity | exact H]).
        apply IH in Hs. destruct Hs as [H2 H3]. rewrite H2, H3. reflexivity.
      * destruct H as [u1 [u2 [E2 H]]]. destruct (snoc_cases u1) as [->|[u [p0 ->]]]; [exfalso; exact (SC_nil _ _ H)|].
        apply ml_desc. exists (rev u2), p0, (rev (s1 ++ u)). split; [|].
        -- rewrite E, E2, !rev_app_distr. cbn [rev app]. rewrite <- !app_assoc. reflexivity.
        -- assert (Hs : SS first p ((s1 ++ u) ++ [p0])) by (apply SS_iff; exists s1, (u ++ [p0]); split; [rewrite app_assoc; reflexivity | exact H]).
           apply IH in Hs. exact Hs.
    + intros [H1 H]. destruct k.
      * destruct (snoc_cases chain) as [->|[ch' [p0 ->]]]; [discriminate H|].
        rewrite rev_app_distr in H. cbn [rev app ml] in H. apply andb_true_iff in H.
        apply IH in H. apply SS_iff in H. destruct H as [v1 [v2 [E H]]].
        exists v1, (v2 ++ [x]). split; [rewrite E, app_assoc; reflexivity|].
        apply (SC_snoc Child cl x (length v2) v2 first p (le_n _)). auto.
      * apply ml_desc in H. destruct H as [a1 [p0 [up [E [H2 H3]]]]].
        assert (Ec : chain = (rev up ++ [p0]) ++ rev a1).
        { rewrite <- (rev_involutive chain), E, rev_app_distr. cbn [rev]. reflexivity. }
        assert (Hs : SS first p (rev up ++ [p0])) by (apply IH; rewrite rev_involutive; auto).
        apply SS_iff in Hs. destruct Hs as [v1 [v2 [Ev H]]].
        exists v1, ((v2 ++ rev a1) ++ [x]). split; [rewrite Ec, Ev, <- !app_assoc; reflexivity|].
        apply (SC_snoc Descendant cl x (length (v2 ++ rev a1)) (v2 ++ rev a1) first p (le_n _)). split; [exact H1|]. exists v2, (rev a1). auto.
Qed.

Lemma complex_lr_is_css cx x anc : sel_sfx (cx_first cx) (cx_rest cx) (rev anc ++ [x]) = complex_matches cx x anc.
Proof.
  apply eq_true_iff_eq. unfold complex_matches.
  pose proof (lr_is_rl (cx_rest cx) (cx_first cx) x (rev anc)) as H. unfold SS in H. rewrite H.
  destruct (to_right_left (cx_first cx) (cx_rest cx) []) as [subj left].
  rewrite match_left_ml by (cbn; lia). rewrite rev_involutive, andb_true_iff. reflexivity.
Qed.
Theorem selector_lr_is_css sel x anc : sel_matches_lr sel (rev anc ++ [x]) = selector_matches sel x anc.
Proof.
  unfold sel_matches_lr, selector_matches. induction sel as [|cx sel IH]; [reflexivity|]. cbn [existsb]. rewrite IH, complex_lr_is_css. reflexivity.
Qed.

(* AST + CSS: adding a selector to the AST adds exactly its id at exactly the elements the CSS semantics selects *)
Theorem add_selector_is_css sel id root x anc i : sel_ok sel (rev anc ++ [x]) ->
  (In i (den_any (add_selector root sel id) (rev anc ++ [x])) <->
   In i (den_any root (rev anc ++ [x])) \/ (i = id /\ selector_matches sel x anc = true)).
Proof. intros H. rewrite (add_selector_denotes sel id root _ i H), selector_lr_is_css. reflexivity. Qed.
