(* Generic lifting device: an invariant J of the controller state that every controller operation preserves on its
   success outcomes holds after every successful write(), for any controller, configuration, input and chunking. *)
From LolModel Require Import Machine.
From LolProofs Require Import OkPath.
From Coq Require Import Lia.
Open Scope nat_scope.

Section OkWrite.
Context {C : Type} (ctl : controller C).
Variable J : C -> Prop.
Hypothesis J_start : forall c ext n h x c' r, J c -> c_start_tag ctl c ext n h x = (c', r) -> match r with SErr _ => True | _ => J c' end.
Hypothesis J_aux : forall c ext a sc c' f, J c -> c_aux_info ctl c ext a sc = (c', FOk f) -> J c'.
Hypothesis J_endtag : forall c n h c' f, J c -> c_end_tag ctl c n h = (c', f) -> J c'.
Hypothesis J_token : forall c t c' ps, J c -> c_token ctl c t = (c', OOk ps) -> J c'.

Definition Jd (d : @disp C) : Prop := J (d_ctl d).

Lemma parse_loop_J input base fuel p c last start :
  Jd (c_disp c) -> match parse_loop ctl input base fuel p c last start with POk _ c' _ => Jd (c_disp c') | _ => True end.
Proof.
  intro H. apply (parse_loop_ok ctl Jd); try exact H;
    try (intros d v Hd; exact Hd); try (intros d v w Hd; exact Hd).
  - intros d n h x c' r Hd Eq. pose proof (J_start _ _ _ _ _ _ _ Hd Eq) as Hr. destruct r; auto.
  - intros d a sc c' f Hd Eq. exact (J_aux _ _ _ _ _ _ Hd Eq).
  - intros d n h c' f Hd Eq. exact (J_endtag _ _ _ _ _ Hd Eq).
  - intros d t c' ps Hd Eq. exact (J_token _ _ _ _ Hd Eq).
Qed.

Lemma bail_err (s : @stream C) d e fl : snd (bail ctl s d e fl) = CErr e.
Proof. unfold bail. destruct (should_bail_out_for s e); reflexivity. Qed.
Lemma flush_remaining_ctl' (d : @disp C) ch n : d_ctl (flush_remaining_input d ch n) = d_ctl d.
Proof.
  unfold flush_remaining_input. destruct (d_emission d); [|reflexivity].
  unfold sink_push_nonempty. match goal with |- context [match ?x with [] => _ | _ :: _ => _ end] => destruct x end; reflexivity.
Qed.

Definition Js (s : @stream C) : Prop := J (d_ctl (c_disp (s_ctx s))).
Theorem write_J s data s' : Js s -> write ctl s data = (s', COk) -> Js s'.
Proof.
  intros Hj. unfold write.
  destruct (if s_has_buf s then _ else _) as [ar1 ok].
  destruct ok; cbn [negb]; [|intro Eq; match type of Eq with bail ctl ?a ?b ?c ?d = _ => pose proof (bail_err a b c d) as Hb end; rewrite Eq in Hb; discriminate Hb].
  match goal with |- context [parse_loop ctl ?ch ?b ?fu ?p ?c false None] =>
    pose proof (parse_loop_J ch b fu p c false None) as Hp;
    destruct (parse_loop ctl ch b fu p c false None) as [p' c' n|e c'|k c'|c'] end.
  2: { intro Eq. match type of Eq with bail ctl ?a ?b ?c ?d = _ => pose proof (bail_err a b c d) as Hb end. rewrite Eq in Hb; discriminate Hb. }
  2: { intro Eq; inversion Eq. }
  2: { intro Eq; inversion Eq. }
  assert (Hc' : Jd (c_disp c')) by (apply Hp; exact Hj).
  set (chunk := if s_has_buf s then ar_data ar1 else data) in *.
  destruct (n <? length chunk).
  - destruct (s_has_buf s).
    + intro Eq; inversion Eq; subst; clear Eq. unfold Js; cbn [s_ctx c_disp]. rewrite flush_remaining_ctl'. exact Hc'.
    + destruct (arena_init_with ar1 _ (s_max_mem s) (skipn n data)) as [ar2 ok2].
      destruct ok2.
      * intro Eq; inversion Eq; subst; clear Eq. unfold Js; cbn [s_ctx c_disp]. rewrite flush_remaining_ctl'. exact Hc'.
      * intro Eq. match type of Eq with bail ctl ?a ?b ?c ?d = _ => pose proof (bail_err a b c d) as Hb end. rewrite Eq in Hb; discriminate Hb.
  - intro Eq; inversion Eq; subst; clear Eq. unfold Js; cbn [s_ctx c_disp]. rewrite flush_remaining_ctl'. exact Hc'.
Qed.

(* every state reached through successful writes *)
Theorem J_after_successful_writes chunks : forall r0,
  Js (rw_stream r0) -> rw_poisoned r0 = false -> rw_ended r0 = false ->
  forall r res, api_run ctl r0 (map Write chunks) = (r, res) -> Forall (fun x => x = ROk) res -> Js (rw_stream r).
Proof.
  induction chunks as [|ch chs IH]; intros r0 Hj Hp He r res Eq Hall; cbn in Eq.
  - inversion Eq; subst. exact Hj.
  - unfold api_step in Eq. rewrite He, Hp in Eq.
    destruct (write ctl (rw_stream r0) ch) as [s' cr] eqn:Ew.
    destruct cr; cbn in Eq.
    + destruct (api_run ctl _ (map Write chs)) as [r2 xs] eqn:Er. inversion Eq; subst; clear Eq. inversion Hall; subst.
      eapply (IH (mkRw s' false false)); eauto. eapply write_J; eauto.
    + destruct (api_run ctl _ (map Write chs)) as [r2 xs]. inversion Eq; subst. inversion Hall; subst. discriminate.
    + destruct (api_run ctl _ (map Write chs)) as [r2 xs]. inversion Eq; subst. inversion Hall; subst. discriminate.
Qed.
End OkWrite.
