(* C04, middle layer (5): Compiler::compile_nodes lays the AST out so that every node is represented by its instruction
   (VmExec.rnode): siblings contiguous, jumps = the range of the children, hereditary jumps = the range of the
   descendant branches, for every AST. *)
From LolModel Require Import Base Selectors.
From LolProofs Require Import AstSem VmExec.
From Coq Require Import Lia Bool List.
Import ListNotations.
Open Scope nat_scope.

Definition go_nodes (cn : list ast_node -> nat -> list (nat * instr) * nat * range) :=
  fix go (ns : list ast_node) (pos : nat) (fr : nat) (acc : list (nat * instr)) : list (nat * instr) * nat :=
    match ns with
    | [] => (acc, fr)
    | Node p ch ds ids :: r =>
        let '(acc1, fr1, j) := match ch with [] => (acc, fr, None)
                               | _ => let '(m, f', rg) := cn ch fr in (acc ++ m, f', Some rg) end in
        let '(acc2, fr2, hj) := match ds with [] => (acc1, fr1, None)
                                | _ => let '(m, f', rg) := cn ds fr1 in (acc1 ++ m, f', Some rg) end in
        go r (S pos) fr2 (acc2 ++ [(pos, mkInstr p ids j hj)])
    end.
Lemma compile_nodes_S f nodes free : compile_nodes (S f) nodes free =
  let (m, fr) := go_nodes (compile_nodes f) nodes free (free + length nodes) [] in (m, fr, mkR free (free + length nodes)).
Proof. reflexivity. Qed.

Lemma lookup_in : forall m a i, lookup_instr m a = Some i -> In (a, i) m.
Proof.
  induction m as [|[k j] m IH]; intros a i E; cbn [lookup_instr] in E; [discriminate|].
  destruct (k =? a) eqn:Ek; [apply Nat.eqb_eq in Ek; injection E as <-; subst; left; reflexivity | right; apply IH; exact E].
Qed.
Lemma in_lookup : forall m a i, NoDup (map fst m) -> In (a, i) m -> lookup_instr m a = Some i.
Proof.
  induction m as [|[k j] m IH]; intros a i Hnd Hin; [destruct Hin|]. cbn [map fst] in Hnd. inversion Hnd as [|? ? Hk Hnd']; subst.
  cbn [lookup_instr]. destruct Hin as [E|Hin].
  - injection E as -> ->. rewrite Nat.eqb_refl. reflexivity.
  - destruct (k =? a) eqn:Ek; [|apply IH; assumption]. apply Nat.eqb_eq in Ek. subst. exfalso. apply Hk. apply (in_map fst) in Hin. exact Hin.
Qed.

Definition extends (prog : program) (m : list (nat * instr)) : Prop := forall a i, In (a, i) m -> lookup_instr (pr_instrs prog) a = Some i.
Lemma extends_app prog x y : extends prog (x ++ y) -> extends prog x /\ extends prog y.
Proof. intros H. split; intros a i Hin; apply H; apply in_or_app; auto. Qed.

Lemma depth_le_fold : forall l x acc, In x l -> ast_depth x <= fold_left (fun m y => max m (ast_depth y)) l acc.
Proof.
  assert (Hmono : forall l acc, acc <= fold_left (fun m y => max m (ast_depth y)) l acc).
  { induction l as [|y l IH]; intros acc; cbn [fold_left]; [lia|]. specialize (IH (max acc (ast_depth y))). lia. }
  induction l as [|y l IH]; intros x acc Hin; [destruct Hin|]. cbn [fold_left]. destruct Hin as [->|Hin]; [|apply IH; exact Hin].
  specialize (Hmono l (max acc (ast_depth x))). lia.
Qed.
Lemma depth_children p ch ds ids f : ast_depth (Node p ch ds ids) <= S f ->
  Forall (fun x => ast_depth x <= f) ch /\ Forall (fun x => ast_depth x <= f) ds.
Proof.
  cbn [ast_depth]. intros H. split; apply Forall_forall; intros x Hx.
  - pose proof (depth_le_fold ch x 0 Hx). lia.
  - pose proof (depth_le_fold ds x 0 Hx). lia.
Qed.

Definition cn_spec (f : nat) : Prop := forall nodes free m fr' r,
  Forall (fun x => ast_depth x <= f) nodes -> compile_nodes f nodes free = (m, fr', r) ->
  r = mkR free (free + length nodes) /\ free + length nodes <= fr' /\
  (forall a i, In (a, i) m -> free <= a < fr') /\ NoDup (map fst m) /\
  forall prog, extends prog m -> rlist prog nodes free.

Lemma rlist_cons prog b r pos : rlist prog (b :: r) pos <-> rnode prog b (instr_at prog pos) /\ rlist prog r (S pos).
Proof. reflexivity. Qed.

Lemma nodup_app_disjoint {A} (x y : list A) : NoDup x -> NoDup y -> (forall a, In a x -> In a y -> False) -> NoDup (x ++ y).
Proof.
  induction x as [|a x IH]; intros Hx Hy Hd; [exact Hy|]. inversion Hx as [|? ? Ha Hx']; subst. cbn [app]. constructor.
  - rewrite in_app_iff. intros [H|H]; [exact (Ha H) | exact (Hd a (or_introl eq_refl) H)].
  - apply IH; [exact Hx' | exact Hy | intros b Hb; apply Hd; right; exact Hb].
Qed.

Ltac triv := repeat split; try lia; try (constructor; fail); try (intros ? ? []); try match goal with H : In _ [] |- _ => destruct H end.
Lemma go_spec f : cn_spec f -> forall ns pos fr acc m' fr',
  Forall (fun x => ast_depth x <= S f) ns -> pos + length ns <= fr ->
  go_nodes (compile_nodes f) ns pos fr acc = (m', fr') ->
  fr <= fr' /\ exists mnew, m' = acc ++ mnew /\
  (forall a i, In (a, i) mnew -> (pos <= a < pos + length ns) \/ (fr <= a < fr')) /\ NoDup (map fst mnew) /\
  forall prog, extends prog mnew -> rlist prog ns pos.
Proof.
  intros IHf. induction ns as [|[p ch ds ids] r IH]; intros pos fr acc m' fr' Hd Hpos E.
  - cbn [go_nodes] in E. injection E as <- <-. split; [lia|]. exists []. rewrite app_nil_r. triv.
  - inversion Hd as [|? ? Hd1 Hd2]; subst. destruct (depth_children _ _ _ _ _ Hd1) as [Dch Dds]. cbn [length] in Hpos.
    cbn [go_nodes] in E.
    (* children *)
    assert (Hch : exists m1 f1 j, (match ch with [] => (acc, fr, None) | _ => let '(m, f', rg) := compile_nodes f ch fr in (acc ++ m, f', Some rg) end) = (acc ++ m1, f1, j)
              /\ fr <= f1 /\ (forall a i, In (a, i) m1 -> fr <= a < f1) /\ NoDup (map fst m1) /\ forall prog, extends prog m1 -> jrep prog ch j).
    { destruct ch as [|x ch'].
      - exists [], fr, None. rewrite app_nil_r. triv.
      - destruct (compile_nodes f (x :: ch') fr) as [[m1 f1] rg] eqn:E1. destruct (IHf _ _ _ _ _ Dch E1) as [Hr [Hf1 [Hk [Hn Hrep]]]].
        exists m1, f1, (Some rg). split; [reflexivity|]. split; [lia|]. split; [exact Hk|]. split; [exact Hn|].
        intros prog Hext. unfold jrep. exists rg. split; [reflexivity|]. split; [rewrite Hr; reflexivity | rewrite Hr; exact (Hrep prog Hext)]. }
    destruct Hch as [m1 [f1 [j [Ech [Hf1 [Hk1 [Hn1 Hrep1]]]]]]]. rewrite Ech in E.
    assert (Hds : exists m2 f2 hj, (match ds with [] => (acc ++ m1, f1, None) | _ => let '(m, f', rg) := compile_nodes f ds f1 in ((acc ++ m1) ++ m, f', Some rg) end) = ((acc ++ m1) ++ m2, f2, hj)
              /\ f1 <= f2 /\ (forall a i, In (a, i) m2 -> f1 <= a < f2) /\ NoDup (map fst m2) /\ forall prog, extends prog m2 -> jrep prog ds hj).
    { destruct ds as [|x ds'].
      - exists [], f1, None. rewrite app_nil_r. triv.
      - destruct (compile_nodes f (x :: ds') f1) as [[m2 f2] rg] eqn:E2. destruct (IHf _ _ _ _ _ Dds E2) as [Hr [Hf2 [Hk [Hn Hrep]]]].
        exists m2, f2, (Some rg). split; [reflexivity|]. split; [lia|]. split; [exact Hk|]. split; [exact Hn|].
        intros prog Hext. unfold jrep. exists rg. split; [reflexivity|]. split; [rewrite Hr; reflexivity | rewrite Hr; exact (Hrep prog Hext)]. }
    destruct Hds as [m2 [f2 [hj [Eds [Hf2 [Hk2 [Hn2 Hrep2]]]]]]]. rewrite Eds in E.
    apply IH in E; [|exact Hd2|lia]. destruct E as [Hfr [mrest [Em [Hkr [Hnr Hrepr]]]]].
    split; [lia|]. exists (m1 ++ m2 ++ [(pos, mkInstr p ids j hj)] ++ mrest). split; [rewrite Em, <- !app_assoc; reflexivity|].
    assert (Hkeys : forall a i, In (a, i) (m1 ++ m2 ++ [(pos, mkInstr p ids j hj)] ++ mrest) ->
                    (fr <= a < f1 /\ In (a, i) m1) \/ (f1 <= a < f2 /\ In (a, i) m2) \/ (a = pos /\ i = mkInstr p ids j hj) \/ (((S pos <= a < S pos + length r) \/ (f2 <= a < fr')) /\ In (a, i) mrest)).
    { intros a i Hin. rewrite !in_app_iff in Hin. destruct Hin as [H|[H|[H|H]]].
      - left. split; [exact (Hk1 a i H) | exact H].
      - right; left. split; [exact (Hk2 a i H) | exact H].
      - right; right; left. destruct H as [H|[]]. injection H as <- <-. auto.
      - right; right; right. split; [exact (Hkr a i H) | exact H]. }
    split; [|split].
    + intros a i Hin. apply Hkeys in Hin. cbn [length]. lia.
    + rewrite !map_app. cbn [map fst].
      apply nodup_app_disjoint; [exact Hn1| |].
      * apply nodup_app_disjoint; [exact Hn2| |].
        -- cbn [app]. constructor; [|exact Hnr]. intros Hin. apply in_map_iff in Hin. destruct Hin as [[a i] [Ea Hin]]. cbn in Ea. subst a. apply Hkr in Hin. lia.
        -- intros a Ha Hb. apply in_map_iff in Ha. destruct Ha as [[a' i] [Ea Ha]]. cbn in Ea. subst a'. apply Hk2 in Ha.
           cbn [app] in Hb. destruct Hb as [Hb|Hb]; [lia|]. apply in_map_iff in Hb. destruct Hb as [[a' i'] [Ea Hb]]. cbn in Ea. subst a'. apply Hkr in Hb. lia.
      * intros a Ha Hb. apply in_map_iff in Ha. destruct Ha as [[a' i] [Ea Ha]]. cbn in Ea. subst a'. apply Hk1 in Ha.
        rewrite in_app_iff in Hb. destruct Hb as [Hb|Hb].
        -- apply in_map_iff in Hb. destruct Hb as [[a' i'] [Ea Hb]]. cbn in Ea. subst a'. apply Hk2 in Hb. lia.
        -- cbn [app] in Hb. destruct Hb as [Hb|Hb]; [lia|]. apply in_map_iff in Hb. destruct Hb as [[a' i'] [Ea Hb]]. cbn in Ea. subst a'. apply Hkr in Hb. lia.
    + intros prog Hext. apply extends_app in Hext. destruct Hext as [X1 Hext]. apply extends_app in Hext. destruct Hext as [X2 Hext].
      apply extends_app in Hext. destruct Hext as [X3 X4]. apply rlist_cons. split; [|exact (Hrepr prog X4)].
      unfold instr_at. rewrite (X3 pos _ (or_introl eq_refl)). apply rnode_eq. cbn [i_pred i_ids i_jumps i_hjumps n_pred n_ids n_children n_desc].
      repeat split; [exact (Hrep1 prog X1) | exact (Hrep2 prog X2)].
Qed.

Theorem compile_nodes_spec : forall f, cn_spec f.
Proof.
  induction f as [|f IHf]; intros nodes free m fr' r Hd E.
  - cbn [compile_nodes] in E. injection E as <- <- <-. destruct nodes as [|x nodes]; [|inversion Hd as [|? ? Hx _]; subst; destruct x; cbn [ast_depth] in Hx; lia].
    cbn [length]. rewrite Nat.add_0_r. triv.
  - rewrite compile_nodes_S in E. destruct (go_nodes (compile_nodes f) nodes free (free + length nodes) []) as [m0 fr0] eqn:Eg. injection E as <- <- <-.
    apply (go_spec f IHf) in Eg; [|exact Hd|lia]. destruct Eg as [Hfr [mnew [Em [Hk [Hn Hrep]]]]]. cbn [app] in Em. subst m0.
    split; [reflexivity|]. split; [lia|]. split; [intros a i Hin; apply Hk in Hin; lia|]. split; [exact Hn | exact Hrep].
Qed.

(* the whole program: the entry range represents the roots of the AST *)
Theorem compile_represents_ast root : rrange (compile root) (pr_entry (compile root)) root.
Proof.
  unfold compile. set (d := S (fold_left (fun m x => max m (ast_depth x)) root 0)).
  destruct (compile_nodes d root 0) as [[m fr] entry] eqn:E. cbn [pr_entry].
  assert (Hd : Forall (fun x => ast_depth x <= d) root).
  { apply Forall_forall. intros x Hx. pose proof (depth_le_fold root x 0 Hx). unfold d. lia. }
  destruct (compile_nodes_spec d _ _ _ _ _ Hd E) as [Hr [_ [_ [Hn Hrep]]]].
  unfold rrange. rewrite Hr. cbn [rs re]. split; [reflexivity|]. apply Hrep. intros a i Hin. cbn [pr_instrs]. apply in_lookup; assumption.
Qed.
