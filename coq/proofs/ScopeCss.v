(* C05 + C04 at the controller: after ANY sequence of start/end tags through the rewriter's controller, a selector-scoped
   text / comment handler is active exactly when some open element of the tag-induced tree is matched (CSS semantics) by a
   selector that owns the handler. *)
From LolModel Require Import Base Selectors Machine Rewriter.
From LolSpec Require Import CssSem.
From LolProofs Require Import Css CssPred StackTree Bailout TypedCounters AstSem SelLR Frontier VmExec CompileRepr VmStack VmRun Scope.
From Coq Require Import Lia Bool List ZArith.
Import ListNotations.
Open Scope nat_scope.

(* ---------- the count invariant of Scope.v along a tag sequence ---------- *)
Section Counts.
Variable locs : list locator.
Variable ncm ntx : nat.
Hypothesis locs_cm : forall id l i, nth_error locs id = Some l -> lc_cm l = Some i -> i < ncm.
Hypothesis locs_tx : forall id l i, nth_error locs id = Some l -> lc_tx l = Some i -> i < ntx.
Variable bcm btx : nat -> nat.
Notation SI' := (SInv locs ncm ntx bcm btx).
Lemma vm_on_start_SInv c ext name n avs sc c' : SI' c -> vm_on_start c ext name n avs sc = Some c' -> SI' c'.
Proof.
  intros Hi. unfold vm_on_start. destruct (rw_start_tag c ext name (hash_of name) n) as [c1 r] eqn:E.
  pose proof (rw_start_tag_SInv locs ncm ntx locs_cm locs_tx bcm btx c ext name (hash_of name) n c1 r Hi E) as H1.
  destruct r as [f| |e]; [intros X; injection X as <-; exact H1 | | discriminate].
  destruct (rw_aux_info c1 ext avs sc) as [c2 fr] eqn:E2. destruct fr as [f|e]; [|discriminate].
  intros X; injection X as <-. exact (rw_aux_info_SInv locs ncm ntx locs_cm locs_tx bcm btx c1 ext avs sc c2 f H1 E2).
Qed.
Lemma vm_run_SInv ext : forall ops c c', SI' c -> vm_run c ext ops = Some c' -> SI' c'.
Proof.
  induction ops as [|[name n avs sc|name] r IH]; intros c c' Hi Hrun; cbn [vm_run] in Hrun.
  - injection Hrun as <-. exact Hi.
  - destruct (vm_on_start c ext name n avs sc) as [c1|] eqn:E; [|discriminate]. exact (IH _ _ (vm_on_start_SInv _ _ _ _ _ _ _ Hi E) Hrun).
  - destruct (rw_end_tag c name (hash_of name)) as [c1 f] eqn:E. cbn [fst] in Hrun.
    exact (IH _ _ (rw_end_tag_SInv locs ncm ntx locs_cm locs_tx bcm btx c name (hash_of name) c1 f Hi E) Hrun).
Qed.
End Counts.

(* ---------- what each open element's stack item holds ---------- *)
Lemma firstn_S_nth {A} (l : list A) : forall j e, nth_error l j = Some e -> firstn (S j) l = firstn j l ++ [e].
Proof. induction l as [|x l IH]; intros [|j] e E; cbn in *; try discriminate; [injection E as ->; reflexivity | rewrite (IH j e E); reflexivity]. Qed.
Lemma SI_nth prog : forall items anc JH j it e, SI prog items anc JH -> nth_error items j = Some it -> nth_error anc j = Some e ->
  forall x, In x (ed_matched (si_data it)) <-> In x (ids_at e (fold_left fstep (firstn j anc) JH)).
Proof.
  induction items as [|y items IH]; intros [|a anc] JH j it e H Ei Ea; cbn [SI] in H; try contradiction; [destruct j; discriminate|].
  destruct H as [[_ [_ Hm]] H2]. destruct j as [|j]; cbn [nth_error firstn fold_left] in *.
  - injection Ei as <-. injection Ea as <-. exact Hm.
  - exact (IH anc (fstep JH a) j it e H2 Ei Ea).
Qed.

Theorem scoped_handlers_follow_css sels docs bail fa isz mx ext ops c :
  sels <> [] ->
  never_wraps_a (mkTree [] []) ops ->
  vm_run (new_rwc sels docs bail fa isz mx) ext ops = Some c ->
  let c0 := new_rwc sels docs bail fa isz mx in
  let chain := chain_of (tree_run_a (mkTree [] []) ops) in
  (forall j, j < length chain -> Forall (fun sel => sel_ok sel (firstn (S j) chain)) (map sh_selector sels)) ->
  forall k l, nth_error (r_locators c0) k = Some l ->
  let opened (own : nat -> bool) := exists j e id sh, nth_error chain j = Some e /\ own id = true /\ nth_error sels id = Some sh /\
                                     selector_matches (sh_selector sh) e (rev (firstn j chain)) = true in
  (forall i, lc_cm l = Some i -> (0 < cnt (r_comment c) i <-> opened (owns (r_locators c0) lc_cm i))) /\
  (forall i, lc_tx l = Some i -> (0 < cnt (r_text c) i <-> opened (owns (r_locators c0) lc_tx i))).
Proof.
  intros Hne Hw Hrun c0 chain Hok k l El opened.
  destruct (new_rwc_SInv sels docs bail fa isz mx) as [H0 Hlok]. fold c0 in H0, Hlok.
  assert (Hcm : forall id l j, nth_error (r_locators c0) id = Some l -> lc_cm l = Some j -> j < length (r_comment c0)) by (intros id l0 j E Ej; exact (proj1 (Hlok id l0 E) j Ej)).
  assert (Htx : forall id l j, nth_error (r_locators c0) id = Some l -> lc_tx l = Some j -> j < length (r_text c0)) by (intros id l0 j E Ej; exact (proj2 (Hlok id l0 E) j Ej)).
  pose proof (vm_run_SInv _ _ _ Hcm Htx _ _ ext ops c0 c H0 Hrun) as [_ _ _ Hc Ht].
  destruct (new_rwc_selector_scoped_inactive sels docs bail fa isz mx k l El) as [Zc Zt]. fold c0 in Zc, Zt.
  pose proof (run_keeps_inv _ _ ext ops c0 (mkTree [] []) c (initial_state_inv sels docs bail fa isz mx Hne) Hw Hrun) as [_ _ _ Hsi _].
  fold chain in Hsi. set (root := build_ast (map sh_selector sels)) in *.
  (* an id is among the matched ids of the open elements iff its selector matches one of them *)
  assert (Hids : forall own, (exists id, In id (all_ids (vs_items (r_stack c))) /\ own id = true) <-> opened own).
  { intros own. unfold opened. split.
    - intros [id [Hin Ho]]. unfold all_ids in Hin. apply in_flat_map in Hin. destruct Hin as [it [Hit Hid]].
      apply In_nth_error in Hit. destruct Hit as [j Ej].
      assert (Hlen : j < length chain) by (rewrite <- (SI_length _ _ _ _ Hsi); apply nth_error_Some; rewrite Ej; discriminate).
      destruct (nth_error chain j) as [e|] eqn:Ee; [|apply nth_error_None in Ee; lia].
      apply (SI_nth _ _ _ _ j it e Hsi Ej Ee) in Hid. apply den_any_is_frontier in Hid.
      rewrite <- (firstn_S_nth _ _ _ Ee) in Hid.
      pose proof (Hok j Hlen) as Hk. rewrite (firstn_S_nth _ _ _ Ee) in Hk, Hid.
      rewrite <- (rev_involutive (firstn j chain)) in Hk, Hid.
      apply (build_ast_is_css _ _ _ id Hk) in Hid. destruct Hid as [sel [Es Hm]].
      rewrite nth_error_map in Es. destruct (nth_error sels id) as [sh|] eqn:Esh; [|discriminate]. injection Es as <-.
      exists j, e, id, sh. auto.
    - intros [j [e [id [sh [Ee [Ho [Esh Hm]]]]]]].
      assert (Hlen : j < length chain) by (apply nth_error_Some; rewrite Ee; discriminate).
      destruct (nth_error (vs_items (r_stack c)) j) as [it|] eqn:Ej; [|apply nth_error_None in Ej; rewrite (SI_length _ _ _ _ Hsi) in Ej; lia].
      exists id. split; [|exact Ho]. unfold all_ids. apply in_flat_map. exists it. split; [eapply nth_error_In; exact Ej|].
      apply (SI_nth _ _ _ _ j it e Hsi Ej Ee). apply den_any_is_frontier.
      pose proof (Hok j Hlen) as Hk. rewrite (firstn_S_nth _ _ _ Ee) in Hk.
      rewrite <- (rev_involutive (firstn j chain)) in Hk |- *.
      apply (build_ast_is_css _ _ _ id Hk). exists (sh_selector sh). rewrite nth_error_map, Esh. auto. }
  split; intros i Ei.
  - rewrite Hc, (Zc i Ei). cbn [Nat.add]. rewrite uses_pos. apply Hids.
  - rewrite Ht, (Zt i Ei). cbn [Nat.add]. rewrite uses_pos. apply Hids.
Qed.
