(* Decidable side conditions of the generic theorems, discharged on the table REGENERATED from
   /repo/src/parser/state_machine/syntax on every run.  A change to the syntax files re-checks them. *)
From LolModel Require Import Machine.
From LolProofs Require Import Tiling.

(* cursor discipline, validity of inclusive emits, neutral enter actions, eoc arms without transition,
   no goto from end-of-input arms, memchr states without sequence arms *)
Lemma table_ok_current : forall st, state_ok (table st) = true.
Proof. intro st; destruct st; vm_compute; reflexivity. Qed.
