(* Generic frame theorem: any pre-order on dispatcher states that is respected by the primitive
   updates (field setters, sink pushes of non-empty data, controller calls) relates the dispatcher
   state before and after EVERY function of the machine, for every controller, input, chunk and
   fuel.  Instantiated in SinkProtocol.v (C12), Memory.v (C10), ... *)
From LolModel Require Import Machine.
Open Scope nat_scope.

Section Frame.
Context {C : Type} (ctl : controller C).
Notation disp := (@disp C).
Variable R : disp -> disp -> Prop.
Hypothesis R_refl : forall d, R d d.
Hypothesis R_trans : forall a b c, R a b -> R b c -> R a c.
Hypothesis R_ctl : forall d v, R d (d_with_ctl d v).
Hypothesis R_rcs : forall d v, R d (d_with_rcs d v).
Hypothesis R_flags : forall d v, R d (d_with_flags d v).
Hypothesis R_emission : forall d v, R d (d_with_emission d v).
Hypothesis R_hint : forall d v, R d (d_with_hint d v).
Hypothesis R_req : forall d v, R d (d_with_req d v).
Hypothesis R_td : forall d p s, R d (d_with_td d p s).
Hypothesis R_tt : forall d v, R d (d_with_tt d v).
Hypothesis R_push : forall d b, b <> [] -> R d (sink_push d b).

Ltac rt := first [ apply R_refl | assumption
                 | apply R_ctl | apply R_rcs | apply R_flags | apply R_emission | apply R_hint
                 | apply R_req | apply R_td | apply R_tt ].
Ltac rchain := repeat first [ rt | (eapply R_trans; [ | rt ]) ].
Ltac dprod := match goal with |- context [match ?x with _ => _ end] => lazymatch type of x with (_ * _)%type => destruct x end end.

Lemma R_push_nonempty d b : R d (sink_push_nonempty d b).
Proof. destruct b; cbn; [apply R_refl | apply R_push; discriminate]. Qed.
Lemma R_pieces ps : forall d, R d (sink_pieces d ps).
Proof.
  unfold sink_pieces. induction ps as [|p ps IH]; intro d; cbn; [apply R_refl|].
  eapply R_trans; [apply R_push_nonempty | apply IH].
Qed.

Definition dR {A} (proj : A -> disp) (d : disp) (r : dres A) : Prop :=
  match r with DOk a => R d (proj a) | DErr _ d' => R d d' | DPanic _ d' => R d d' end.
Notation dR1 := (dR (fun x : disp => x)).
Notation dR2 := (dR (fun x : disp * directive => fst x)).

Lemma dR_weaken {A} (proj : A -> disp) d0 d r : R d0 d -> dR proj d r -> dR proj d0 r.
Proof. intros H; destruct r; cbn; intro H'; eapply R_trans; eauto. Qed.

Section Chunk.
Variable input : bytes.
Variable base : nat.

Lemma emit_chunk_before_R d raw : dR1 d (emit_chunk_before_lexeme input d raw).
Proof.
  unfold emit_chunk_before_lexeme. destruct (_ && _); cbn; [|apply R_refl].
  destruct (d_emission d); [eapply R_trans; [apply R_push_nonempty | apply R_rcs] | apply R_rcs].
Qed.
Lemma token_produced_R d t : dR1 d (token_produced ctl d t).
Proof.
  unfold token_produced. destruct (c_token ctl (d_ctl d) t) as [c' r]. destruct r; cbn.
  - destruct (d_emission _); [eapply R_trans; [apply R_ctl | apply R_pieces] | apply R_ctl].
  - apply R_ctl.
Qed.
Lemma flush_pending_text_R d : dR1 d (flush_pending_text ctl d).
Proof.
  unfold flush_pending_text. destruct (d_td_pending d); [|cbn; apply R_refl].
  pose proof (token_produced_R d (TText (d_last_tt d) [] true (mkR (d_td_start d) (d_td_start d)))) as H.
  destruct (token_produced _ _ _); cbn in *; auto. eapply R_trans; [exact H | apply R_td].
Qed.
Lemma feed_text_R d ty raw : dR1 d (feed_text ctl input base d ty raw).
Proof.
  unfold feed_text.
  match goal with |- context [token_produced ctl d ?t] => pose proof (token_produced_R d t) as H; destruct (token_produced ctl d t) end;
    cbn in *; auto. eapply R_trans; [exact H | apply R_td].
Qed.
Lemma apply_hint_flags_R d f : R d (fst (apply_hint_flags d f)).
Proof. unfold apply_hint_flags; cbn. eapply R_trans; [apply R_flags | apply R_hint]. Qed.
Lemma hint_start_R d name h n : dR2 d (hint_start ctl d name h n).
Proof.
  unfold hint_start. destruct (c_start_tag _ _ _ _ _ _) as [c' r]. destruct r; cbn.
  - eapply R_trans; [apply R_ctl | apply apply_hint_flags_R].
  - eapply R_trans; [apply R_ctl | ]. eapply R_trans; [apply R_hint | apply R_req].
  - apply R_ctl.
Qed.
Lemma hint_end_R d name h : dR2 d (hint_end ctl d name h).
Proof.
  unfold hint_end. pose proof (flush_pending_text_R d) as H. destruct (flush_pending_text ctl d) as [d0| |]; cbn in *; auto.
  destruct (c_end_tag _ _ _ _) as [c' f]. cbn.
  eapply R_trans; [exact H|]. eapply R_trans; [apply R_ctl | apply apply_hint_flags_R].
Qed.
Lemma adjust_capture_flags_R d t : dR1 d (adjust_capture_flags ctl input base d t).
Proof.
  unfold adjust_capture_flags. destruct (d_pending_req d).
  - destruct t; cbn; [|apply R_req].
    destruct (c_aux_info _ _ _ _ _) as [c' r]; destruct r; cbn.
    + eapply R_trans; [apply R_req|]. eapply R_trans; [apply R_ctl | apply R_flags].
    + eapply R_trans; [apply R_req | apply R_ctl].
  - destruct t.
    + destruct (c_start_tag _ _ _ _ _ _) as [c' r]; destruct r; cbn.
      * eapply R_trans; [apply R_ctl | apply R_flags].
      * destruct (c_aux_info _ _ _ _ _) as [c'' r2]; destruct r2; cbn.
        -- eapply R_trans; [apply R_ctl|]. eapply R_trans; [apply R_ctl | apply R_flags].
        -- eapply R_trans; [apply R_ctl | apply R_ctl].
      * apply R_ctl.
    + destruct (c_end_tag _ _ _ _) as [c' f]; cbn. eapply R_trans; [apply R_ctl | apply R_flags].
Qed.
Lemma produce_token_R d raw t : dR1 d (produce_token ctl input d raw t).
Proof.
  unfold produce_token. pose proof (emit_chunk_before_R d raw) as H.
  destruct (emit_chunk_before_lexeme input d raw) as [d1| |]; cbn in *; auto.
  pose proof (token_produced_R d1 t) as H2. destruct (token_produced ctl d1 t); cbn in *.
  - eapply R_trans; [exact H|]. eapply R_trans; [exact H2 | apply R_rcs].
  - eapply R_trans; eauto.
  - eapply R_trans; eauto.
Qed.
Lemma tag_to_token_R d raw t : R d (fst (tag_to_token input base d raw t)).
Proof. unfold tag_to_token. destruct t; destruct (has_flag _ _); cbn; rt. Qed.

Lemma handle_tag_R d raw t : dR2 d (handle_tag ctl input base d raw t).
Proof.
  unfold handle_tag. pose proof (flush_pending_text_R d) as H0.
  destruct (flush_pending_text ctl d) as [d0| |]; cbn in *; auto.
  assert (H1 : dR1 d0 (if d_hint d0 then DOk (d_with_hint d0 false) else adjust_capture_flags ctl input base d0 t)).
  { destruct (d_hint d0); [cbn; apply R_hint | apply adjust_capture_flags_R]. }
  destruct (if d_hint d0 then _ else _) as [d1| |]; cbn in *; try (eapply R_trans; eauto; fail).
  set (d2 := match t with EndTagO _ _ => _ | _ => d1 end).
  assert (H2 : R d1 d2).
  { subst d2. destruct t; [apply R_refl|]. destruct (should_stop_removing ctl d1); [|apply R_refl].
    eapply R_trans; [apply R_emission | apply R_rcs]. }
  pose proof (tag_to_token_R d2 raw t) as H3. destruct (tag_to_token input base d2 raw t) as [d3 tok]. cbn in H3.
  assert (H4 : dR1 d3 (match tok with Some tk => produce_token ctl input d3 raw tk | None => DOk d3 end)).
  { destruct tok; [apply produce_token_R | cbn; apply R_refl]. }
  assert (H03 : R d d3) by (eapply R_trans; [exact H0|]; eapply R_trans; [exact H1|]; eapply R_trans; eauto).
  destruct (match tok with Some tk => _ | None => _ end) as [d4| |]; cbn in *.
  - eapply R_trans; [exact H03|]. eapply R_trans; [exact H4 | apply R_emission].
  - eapply R_trans; eauto.
  - eapply R_trans; eauto.
Qed.

Lemma handle_non_tag_R d raw t : dR1 d (handle_non_tag ctl input base d raw t).
Proof.
  unfold handle_non_tag.
  assert (H0 : dR1 d (match t with Some (TextO _) => DOk d | _ => flush_pending_text ctl d end)).
  { destruct t as [[| | |]|]; try apply flush_pending_text_R. cbn; apply R_refl. }
  destruct (match t with Some (TextO _) => DOk d | _ => flush_pending_text ctl d end) as [d0| |]; cbn in *; auto.
  destruct t as [[ty|c|n p s f|]|]; cbn; auto.
  - destruct (has_flag _ _); cbn; auto.
    pose proof (emit_chunk_before_R d0 raw) as H1. destruct (emit_chunk_before_lexeme input d0 raw) as [d1| |]; cbn in *;
      try (eapply R_trans; eauto; fail).
    pose proof (feed_text_R (d_with_tt d1 ty) ty raw) as H2. destruct (feed_text _ _ _ _ _ _) as [d2| |]; cbn in *.
    + eapply R_trans; [exact H0|]. eapply R_trans; [exact H1|]. eapply R_trans; [apply R_tt|]. eapply R_trans; [exact H2 | apply R_rcs].
    + eapply R_trans; [exact H0|]. eapply R_trans; [exact H1|]. eapply R_trans; [apply R_tt | exact H2].
    + eapply R_trans; [exact H0|]. eapply R_trans; [exact H1|]. eapply R_trans; [apply R_tt | exact H2].
  - destruct (has_flag _ _); cbn; auto. eapply dR_weaken; [exact H0 | apply produce_token_R].
  - destruct (has_flag _ _); cbn; auto. eapply dR_weaken; [exact H0 | apply produce_token_R].
Qed.

(* ---- machine level ---- *)
Notation ctx := (@ctx C).
Definition cR (c c' : ctx) : Prop := R (c_disp c) (c_disp c').
Lemma cR_refl c : cR c c. Proof. apply R_refl. Qed.
Lemma cR_trans a b c : cR a b -> cR b c -> cR a c. Proof. unfold cR; eauto. Qed.
Ltac crefl := cbn; unfold cR; cbn; apply R_refl.

Definition aR (c : ctx) (r : act_res) : Prop :=
  match r with AOk _ c' | ASwitch _ _ _ c' | AErr _ c' | APanic _ c' => cR c c' end.
Lemma aR_weaken c0 c r : cR c0 c -> aR c r -> aR c0 r.
Proof. destruct r; cbn; intros; eapply cR_trans; eauto. Qed.

Lemma of_dres_ctx_R c m r : dR1 (c_disp c) r -> aR c (of_dres_ctx (c_sim c) m r).
Proof. destruct r; cbn; unfold cR; cbn; auto. Qed.
Lemma l_emit_nontag_R l c e t : aR c (l_emit_nontag ctl input base l c e t).
Proof. unfold l_emit_nontag. apply of_dres_ctx_R, handle_non_tag_R. Qed.
Lemma l_emit_text_R l c : aR c (l_emit_text ctl input base l c).
Proof. unfold l_emit_text. destruct (_ <? _); [apply l_emit_nontag_R | crefl]. Qed.
Lemma l_emit_eof_R l c : aR c (l_emit_eof ctl input base l c).
Proof. apply l_emit_nontag_R. Qed.
Lemma then_lexer_R c r k : aR c r -> (forall l c', aR c' (k l c')) -> aR c (then_lexer r k).
Proof.
  intros H Hk. destruct r as [m c'| | |]; cbn in *; auto. destruct m; cbn; auto.
  eapply aR_weaken; [exact H | apply Hk].
Qed.
Lemma l_emit_tag_R l c : aR c (l_emit_tag ctl input base l c).
Proof.
  unfold l_emit_tag. destruct (b_tag (l_build l)) as [t|]; [|crefl].
  match goal with |- aR c (match ?x with Some _ => _ | None => _ end) => destruct x as [[s1 fbo]|] end; [|crefl].
  repeat dprod.
  match goal with |- context [handle_tag ctl input base ?d ?raw ?tt] => pose proof (handle_tag_R d raw tt) as H; destruct (handle_tag ctl input base d raw tt) as [[d' dir]| |] end;
    cbn in *; unfold cR; cbn; auto.
  destruct dir; cbn; unfold cR; cbn; auto.
Qed.

Lemma lexer_action_R a l c : aR c (lexer_action ctl input base a l c).
Proof.
  destruct a; cbn;
    try (apply cR_refl);
    try apply l_emit_text_R; try apply l_emit_nontag_R; try apply l_emit_tag_R;
    try (apply then_lexer_R; [first [apply l_emit_text_R | apply l_emit_nontag_R] | intros; apply l_emit_eof_R]).
  all: try (destruct (b_tag (l_build l)) as [[| ]|]; crefl).
Qed.

Lemma s_finish_tag_name_R s c : aR c (s_finish_tag_name ctl input s c).
Proof.
  unfold s_finish_tag_name. destruct (tag_start (s_tag s)); [|crefl].
  match goal with |- aR c (match ?x with Some _ => _ | None => _ end) => destruct x as [[sim' fb]|] end; [|crefl].
  match goal with |- context [match ?x with _ => _ end] => lazymatch type of x with (_ * option feedback)%type => destruct x as [[t1 md1] unhandled] end end.
  destruct unhandled; [crefl|].
  destruct (is_in_end_tag (s_tag s)).
  - match goal with |- context [hint_end ctl ?d ?n ?h] => pose proof (hint_end_R d n h) as H; destruct (hint_end ctl d n h) as [[d' dir]| |] end;
      cbn in *; unfold cR; cbn; auto. destruct dir; cbn; unfold cR; cbn; auto.
  - match goal with |- context [hint_start ctl ?d ?n ?h ?x] => pose proof (hint_start_R d n h x) as H; destruct (hint_start ctl d n h x) as [[d' dir]| |] end;
      cbn in *; unfold cR; cbn; auto. destruct dir; cbn; unfold cR; cbn; auto.
Qed.
Lemma scanner_action_R a s c : aR c (scanner_action ctl input a s c).
Proof. destruct a; cbn; try apply cR_refl. apply s_finish_tag_name_R. Qed.
Lemma do_action_R a m c : aR c (do_action ctl input base a m c).
Proof. destruct m; [apply lexer_action_R | apply scanner_action_R]. Qed.
Lemma do_actions_R acts : forall m c, aR c (do_actions ctl input base acts m c).
Proof.
  induction acts as [|a r IH]; intros m c; cbn; [apply cR_refl|].
  pose proof (do_action_R a m c) as H. destruct (do_action ctl input base a m c); cbn in *; auto.
  eapply aR_weaken; [exact H | apply IH].
Qed.

Definition armR (c : ctx) (r : arm_out) : Prop :=
  match r with Continue _ c' | Return _ c' | Switch _ _ _ c' | ArmErr _ c' | ArmPanic _ c' => cR c c' end.
Lemma run_alist_R al : forall m c, armR c (run_alist ctl input base al m c).
Proof.
  induction al as [acts tr|cd t IHt e IHe]; intros m c; cbn.
  - pose proof (do_actions_R acts m c) as H. destruct (do_actions ctl input base acts m c); cbn in *; auto.
    destruct tr; cbn; auto.
  - destruct (eval_cond cd m); auto.
Qed.
Definition bR (c : ctx) (r : body_out) : Prop :=
  match r with BContinue _ c' | BBreak _ c' | BSwitch _ _ _ c' | BErr _ c' | BPanic _ c' => cR c c' end.
Lemma of_arm_R c r : armR c r -> bR c (of_arm r).
Proof. destruct r; cbn; auto. Qed.
Lemma try_seq_arms_R arms : forall ch m c, match snd (try_seq_arms ctl input base arms ch m c) with Some o => bR c o | None => True end.
Proof.
  induction arms as [|[p al] r IH]; intros ch m c; cbn; auto.
  destruct p; try apply IH.
  destruct (seq_match input bs ignore_case ch m); cbn; try apply IH; [|apply cR_refl].
  apply of_arm_R, run_alist_R.
Qed.
Lemma try_arms_R arms : forall ch m c, bR c (try_arms ctl input base arms ch m c).
Proof.
  induction arms as [|[p al] r IH]; intros ch m c; cbn; [apply cR_refl|].
  destruct p; try apply IH;
    (destruct (pat_matches _ ch m); [|apply IH]);
    try (apply of_arm_R, run_alist_R).
  - pose proof (run_alist_R al m c) as H. destruct (run_alist ctl input base al m c); cbn in *; auto.
  - destruct (is_last m); [|crefl].
    pose proof (run_alist_R al m c) as H. destruct (run_alist ctl input base al m c); cbn in *; auto.
Qed.
Lemma body_iter_R sd m c : bR c (body_iter ctl input base sd m c).
Proof.
  unfold body_iter. destruct (memchr_of (sd_arms sd)).
  - destruct (find_from _ _ _ _); apply try_arms_R.
  - pose proof (try_seq_arms_R (sd_arms sd) (getb input (next_pos m)) (set_pos m (S (next_pos m))) c) as H.
    destruct (try_seq_arms _ _ _ _ _ _ _) as [m'' [o|]]; cbn in *; auto. apply try_arms_R.
Qed.

Definition lR (c : ctx) (r : loop_res) : Prop :=
  match r with LEnd _ c' _ | LSwitch _ _ _ c' | LErr _ c' | LPanic _ c' | LFuel c' => cR c c' end.
Lemma run_loop_R fuel : forall m c, lR c (run_loop ctl input base fuel m c).
Proof.
  induction fuel as [|f IH]; intros m c; cbn [run_loop]; [apply cR_refl|].
  match goal with |- lR c (match ?r with AOk _ _ => _ | _ => _ end) => set (r1 := r) end.
  assert (H1 : aR c r1).
  { subst r1. destruct (m_entered (mode_of m)); [crefl|].
    destruct (sd_enter (table (m_st (mode_of m)))) as [|a acts] eqn:E; [crefl|]. cbv beta iota.
    pose proof (do_actions_R (a :: acts) (set_pos m (S (next_pos m))) c) as H.
    destruct (do_actions ctl input base (a :: acts) (set_pos m (S (next_pos m))) c); cbn in *; auto. }
  destruct r1 as [m1 c1| | |]; cbn [aR lR] in *; auto.
  pose proof (body_iter_R (table (m_st (mode_of m))) m1 c1) as H2.
  destruct (body_iter ctl input base (table (m_st (mode_of m))) m1 c1) as [m2 c2|m2 c2| | |]; cbn [bR lR] in *;
    try (eapply cR_trans; eauto; fail).
  - specialize (IH m2 c2). destruct (run_loop ctl input base f m2 c2); cbn [lR] in *;
      (eapply cR_trans; [eapply cR_trans; [exact H1|exact H2]|exact IH]).
  - destruct (_ <=? _); cbn [lR]; eapply cR_trans; eauto.
Qed.

Definition pR (c : ctx) (r : parse_res) : Prop :=
  match r with POk _ c' _ | PErr _ c' | PPanic _ c' | PFuel c' => cR c c' end.
Lemma parse_loop_R fuel : forall p c last start, pR c (parse_loop ctl input base fuel p c last start).
Proof.
  induction fuel as [|f IH]; intros p c last start; cbn; [apply cR_refl|].
  match goal with |- context [run_loop ctl input base ?fu ?m c] => pose proof (run_loop_R fu m c) as H; destruct (run_loop ctl input base fu m c) end;
    cbn in *; auto.
  match goal with |- pR c (parse_loop _ _ _ f ?p' ?c' last ?st) => specialize (IH p' c' last st); destruct (parse_loop ctl input base f p' c' last st) end;
    cbn in *; eapply cR_trans; eauto.
Qed.
End Chunk.

(* ---- stream level ---- *)
Hypothesis R_ext : forall d v, R d (d_with_ext d v).

Lemma flush_for_bail_out_R d i : R d (flush_for_bail_out d i).
Proof. unfold flush_for_bail_out. eapply R_trans; [apply R_push_nonempty | apply R_rcs]. Qed.
Lemma flush_remaining_input_R d ch n : R d (flush_remaining_input d ch n).
Proof. unfold flush_remaining_input. destruct (d_emission d); [eapply R_trans; [apply R_push_nonempty | apply R_rcs] | apply R_rcs]. Qed.
Lemma run_bail_out_handlers_R d e : R d (run_bail_out_handlers ctl d e).
Proof. unfold run_bail_out_handlers. destruct (c_bail_out _ _ _). eapply R_trans; [apply R_ctl | apply R_pieces]. Qed.
Lemma fold_flush_R l : forall d, R d (fold_left flush_for_bail_out l d).
Proof. induction l as [|x l IH]; intro d; cbn; [apply R_refl|]. eapply R_trans; [apply flush_for_bail_out_R | apply IH]. Qed.

Definition sdisp (s : @stream C) : disp := c_disp (s_ctx s).
Lemma bail_R s d e fl : R d (sdisp (fst (bail ctl s d e fl))).
Proof.
  unfold bail. destruct (should_bail_out_for s e); cbn; [|apply R_refl].
  eapply R_trans; [apply run_bail_out_handlers_R | apply fold_flush_R].
Qed.

Lemma write_R s data : R (sdisp s) (sdisp (fst (write ctl s data))).
Proof.
  unfold write.
  match goal with |- context [match ?x with _ => _ end] => lazymatch type of x with (arena * bool)%type => destruct x as [ar1 ok] end end.
  destruct (negb ok); [apply bail_R|].
  match goal with |- context [parse_loop ctl ?ch ?b ?fu ?p ?c false None] =>
    pose proof (parse_loop_R ch b fu p c false None) as H; destruct (parse_loop ctl ch b fu p c false None) as [p' c' n|e c'|k c'|c'] end;
    cbn in H; unfold cR in H; cbn in H.
  - assert (H' : R (sdisp s) (flush_remaining_input (c_disp c') (if s_has_buf s then ar_data ar1 else data) n)).
    { eapply R_trans; [apply R_ext|]. eapply R_trans; [exact H | apply flush_remaining_input_R]. }
    destruct (_ <? _); [|cbn; exact H'].
    destruct (s_has_buf s); [cbn; exact H'|].
    match goal with |- context [match ?x with _ => _ end] => lazymatch type of x with (arena * bool)%type => destruct x as [ar2 ok2] end end.
    destruct ok2; [cbn; exact H'|].
    eapply R_trans; [exact H' | apply bail_R].
  - eapply R_trans; [apply R_ext|]. eapply R_trans; [exact H | apply bail_R].
  - cbn. eapply R_trans; [apply R_ext | exact H].
  - cbn. eapply R_trans; [apply R_ext | exact H].
Qed.

(* finish pushes the single finalizing empty chunk; everything before it is related by R *)
Lemma finish_R s :
  match finish ctl s with
  | (s', COk) => exists d, R (sdisp s) d /\ sdisp s' = sink_push d []
  | (s', _) => R (sdisp s) (sdisp s')
  end.
Proof.
  unfold finish.
  match goal with |- context [parse_loop ctl ?ch ?b ?fu ?p ?c true None] =>
    pose proof (parse_loop_R ch b fu p c true None) as H; destruct (parse_loop ctl ch b fu p c true None) as [p' c' n|e c'|k c'|c'] end;
    cbn in H; unfold cR in H; cbn in H.
  - destruct (c_end _ _) as [[cc pieces] r] eqn:E. destruct r; cbn.
    + eapply R_trans; [apply R_ext|]. eapply R_trans; [exact H|]. eapply R_trans; [apply flush_remaining_input_R|].
      eapply R_trans; [apply R_ctl | apply R_pieces].
    + eexists; split; [|reflexivity].
      eapply R_trans; [apply R_ext|]. eapply R_trans; [exact H|]. eapply R_trans; [apply flush_remaining_input_R|].
      eapply R_trans; [apply R_ctl | apply R_pieces].
  - pose proof (bail_R s (c_disp c') e [if s_has_buf s then ar_data (s_arena s) else []]) as Hb.
    destruct (bail ctl s (c_disp c') e _) as [s' r] eqn:Eb. cbn in Hb.
    assert (Hr : r = CErr e) by (unfold bail in Eb; destruct (should_bail_out_for s e); inversion Eb; reflexivity).
    subst r. eapply R_trans; [apply R_ext|]. eapply R_trans; [exact H | exact Hb].
  - cbn. eapply R_trans; [apply R_ext | exact H].
  - cbn. eapply R_trans; [apply R_ext | exact H].
Qed.
End Frame.
