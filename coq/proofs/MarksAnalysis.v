(* C09: a may-analysis of the tag scanner's tag_start mark over the regenerated table.
   marked st = true  iff  some path through the table can enter state st with tag_start still set.
   The obligation: no state that emits text at the end of a chunk (an `eoc` arm) can be entered with the mark set,
   i.e. in ordinary text nothing is held back.  (Soundness of the analysis w.r.t. the interpreter is validated by the
   correspondence run on pending bytes, not proved.) *)
From LolGen Require Import StateTable.
From Coq Require Import List Bool Arith.
Import ListNotations.

Definition act_mark (a : action) (m : bool) : bool :=
  match a with A_mark_tag_start => true | A_unmark_tag_start => false | A_finish_tag_name => false | _ => m end.
Definition text_states : list state := [data_state; plaintext_state; rcdata_state; rawtext_state; script_data_state; cdata_section_state].
(* (target state, mark) pairs an action list can produce *)
Fixpoint al_targets (al : alist) (m : bool) (self : state) : list (state * bool) :=
  match al with
  | AL acts tr =>
      let m' := fold_left (fun x a => act_mark a x) acts m in
      match tr with
      | T_none => [(self, m')]
      | T_goto s _ | T_reconsume s => [(s, m')]
      | T_dyn_next_text_parsing_state => map (fun s => (s, m')) text_states
      end
  | AL_if _ t e => al_targets t m self ++ al_targets e m self
  end.
Definition step (cur : state -> bool) : list (state * bool) :=
  flat_map (fun st =>
    let m := cur st in
    let m1 := fold_left (fun x a => act_mark a x) (sd_enter (table st)) m in
    flat_map (fun pa => al_targets (snd pa) m1 st) (sd_arms (table st))) all_states.
Definition join (cur : state -> bool) (ups : list (state * bool)) : state -> bool :=
  fun st => cur st || existsb (fun u => state_eqb (fst u) st && snd u) ups.
Fixpoint iterate (n : nat) (cur : state -> bool) : state -> bool :=
  match n with O => cur | S k => iterate k (join cur (step cur)) end.
Definition marked : state -> bool := iterate 12 (fun _ => false).
Definition has_eoc (st : state) : bool := existsb (fun pa => match fst pa with P_eoc => true | _ => false end) (sd_arms (table st)).

(* the analysis has reached its fixpoint (so 12 rounds are enough for this table) *)
Lemma marks_fixpoint : forallb (fun st => Bool.eqb (marked st) (join marked (step marked) st)) all_states = true.
Proof. vm_compute. reflexivity. Qed.
(* in every text-emitting state the scanner holds no tag start *)
Lemma text_states_hold_nothing : forallb (fun st => negb (has_eoc st && marked st)) all_states = true.
Proof. vm_compute. reflexivity. Qed.
