(* C13 (content written by handlers): UTF-8 byte fragments written to a StreamingHandlerSink are stitched back together --
   for every way of cutting a valid UTF-8 string into fragments, every write succeeds and the output is the string. *)
From LolModel Require Import Base TextDecoder Selectors Machine Rewriter StreamSink.
From LolProofs Require Import TokenLaws.
From Coq Require Import Lia Bool List NArith.
Import ListNotations.
Open Scope nat_scope.

(* ---------- the UTF-8 machine without outputs ---------- *)
Fixpoint u8_adv (s : u8state) (inp : bytes) : option u8state :=
  match inp with
  | [] => Some s
  | b :: r => let '(s1, _, bad) := u8_step s b in if bad then None else u8_adv s1 r
  end.
Lemma adv_app : forall x y s, u8_adv s (x ++ y) = match u8_adv s x with Some t => u8_adv t y | None => None end.
Proof.
  induction x as [|b x IH]; intros y s; cbn [app u8_adv]; [reflexivity|].
  destruct (u8_step s b) as [[s1 o] bad]. destruct bad; [reflexivity | apply IH].
Qed.
Definition reach (s : u8state) : Prop := u8_adv [] s = Some s.

(* all 256 byte values *)
Definition all_bytes : list N := map N.of_nat (seq 0 256).
Lemma byte_forall (P : N -> bool) : forallb P all_bytes = true -> forall b, (b < 256)%N -> P b = true.
Proof.
  intros H b Hb. rewrite forallb_forall in H. apply H. unfold all_bytes. apply in_map_iff. exists (N.to_nat b).
  split; [apply N2Nat.id | apply in_seq; lia].
Qed.

(* a non-failing step either completes the character or appends the byte *)
Lemma step_shape s b s1 o : u8_step s b = (s1, o, false) -> s1 = [] \/ s1 = s ++ [b].
Proof.
  unfold u8_step, u8_start. destruct s as [|l tl].
  - destruct (b <? 128)%N; [intros E; injection E as <- _; auto|]. destruct (is_lead b); intros E; [injection E as <- _; auto | discriminate].
  - destruct (u8_need (l :: tl)) as [[[t lo] hi]|].
    + destruct ((lo <=? b) && (b <=? hi))%N.
      * destruct (S (length (l :: tl)) =? t); intros E; injection E as <- _; auto.
      * destruct (b <? 128)%N; [discriminate|]. destruct (is_lead b); discriminate.
    + destruct (b <? 128)%N; [discriminate|]. destruct (is_lead b); discriminate.
Qed.
(* at a character boundary a continuation byte is an error; inside a character only continuation bytes are accepted *)
Lemma start_not_cont b s1 o : u8_step [] b = (s1, o, false) -> is_cont b = false.
Proof.
  cbn [u8_step]. unfold u8_start, is_cont, is_lead. destruct (b <? 128)%N eqn:E1.
  - intros _. apply N.ltb_lt in E1. apply andb_false_iff. left. apply N.leb_gt. exact E1.
  - destruct ((194 <=? b) && (b <=? 244))%N eqn:E2; [|discriminate]. intros _. apply andb_true_iff in E2. destruct E2 as [E2 _].
    apply N.leb_le in E2. apply andb_false_iff. right. apply N.ltb_ge. lia.
Qed.

(* classification of lead bytes (checked over all byte values) *)
Definition lead_class (l : N) : bool :=
  match u8_need [l] with
  | Some (t, lo, hi) => (utf8_width l =? t) && (2 <=? t) && (t <=? 4) && (128 <=? lo)%N && (hi <=? 191)%N &&
                        (match t with 2 => true | 3 => ((224 <=? l) && (l <=? 239))%N | _ => (240 <=? l)%N end)
  | None => false
  end.
Lemma lead_class_ok l : is_lead l = true -> lead_class l = true.
Proof.
  intros H. assert (Hb : (l < 256)%N) by (unfold is_lead in H; apply andb_true_iff in H; destruct H as [_ H]; apply N.leb_le in H; lia).
  revert H. generalize l Hb. clear. intros l Hb.
  assert (Hall : forallb (fun l => implb (is_lead l) (lead_class l)) all_bytes = true) by (vm_compute; reflexivity).
  pose proof (byte_forall _ Hall l Hb) as H. cbn beta in H. intros Hl. rewrite Hl in H. exact H.
Qed.

Definition total_of (l : N) : nat := match u8_need [l] with Some (t, _, _) => t | None => 0 end.
Lemma need_long l x tl : u8_need (l :: x :: tl) = Some (if ((224 <=? l) && (l <=? 239))%N then 3 else 4, 128%N, 191%N).
Proof. cbn [u8_need]. destruct ((224 <=? l) && (l <=? 239))%N; reflexivity. Qed.
Lemma need_long_total l x tl : is_lead l = true -> 3 <= total_of l -> u8_need (l :: x :: tl) = Some (total_of l, 128%N, 191%N).
Proof.
  intros Hl Ht. rewrite need_long. pose proof (lead_class_ok l Hl) as Hc. unfold lead_class in Hc. unfold total_of in *.
  destruct (u8_need [l]) as [[[t lo] hi]|]; [|discriminate]. repeat (apply andb_true_iff in Hc; destruct Hc as [Hc ?]).
  destruct t as [|[|[|[|[|t]]]]]; try lia.
  - match goal with H : (_ && _)%N = true |- _ => rewrite H end. reflexivity.
  - match goal with H : (240 <=? l)%N = true |- _ => apply N.leb_le in H end.
    destruct ((224 <=? l) && (l <=? 239))%N eqn:E; [|reflexivity]. apply andb_true_iff in E. destruct E as [_ E]. apply N.leb_le in E. lia.
  - match goal with H : (_ <=? 4) = true |- _ => apply Nat.leb_le in H end. lia.
Qed.

(* what a reachable non-empty state looks like *)
Record st_facts (s : u8state) : Prop := {
  sf_lead : exists l tl, s = l :: tl /\ is_lead l = true /\ utf8_width l = total_of l /\
            exists lo hi, u8_need s = Some (total_of l, lo, hi) /\ (128 <= lo)%N /\ (hi <= 191)%N;
  sf_len : forall l tl, s = l :: tl -> length s < total_of l /\ total_of l <= 4 }.
Lemma reach_snoc s0 b : reach (s0 ++ [b]) -> reach s0 /\ exists o, u8_step s0 b = (s0 ++ [b], o, false).
Proof.
  unfold reach. rewrite adv_app. destruct (u8_adv [] s0) as [t0|] eqn:E0; [|discriminate]. cbn [u8_adv].
  destruct (u8_step t0 b) as [[s1 o] bad] eqn:Es. destruct bad; [discriminate|]. intros E. injection E as E.
  destruct (step_shape _ _ _ _ Es) as [E1|E1]; rewrite E1 in E; [destruct s0; discriminate|].
  apply app_inj_tail in E. destruct E as [E _]. subst t0. split; [reflexivity | exists o; rewrite <- E1; exact Es].
Qed.
Lemma reach_facts : forall s, reach s -> s <> [] -> st_facts s.
Proof.
  induction s as [|b s0 IH] using rev_ind; intros Hr Hne; [contradiction|].
  destruct (reach_snoc _ _ Hr) as [Hr0 [o Es]]. destruct s0 as [|l tl0].
  - (* the first byte: a lead *)
    cbn [app] in *. cbn [u8_step] in Es. unfold u8_start in Es. destruct (b <? 128)%N; [discriminate|].
    destruct (is_lead b) eqn:El; [|discriminate]. pose proof (lead_class_ok b El) as Hc. unfold lead_class in Hc.
    destruct (u8_need [b]) as [[[t lo] hi]|] eqn:En; [|discriminate]. repeat (apply andb_true_iff in Hc; destruct Hc as [Hc ?]).
    assert (Ht : total_of b = t) by (unfold total_of; rewrite En; reflexivity).
    constructor.
    + exists b, []. split; [reflexivity|]. split; [exact El|]. split; [rewrite Ht; apply Nat.eqb_eq; assumption|].
      exists lo, hi. rewrite Ht. split; [exact En|]. split; apply N.leb_le; assumption.
    + intros l tl E. injection E as <- <-. rewrite Ht. cbn [length].
      repeat match goal with H : (_ <=? _) = true |- _ => apply Nat.leb_le in H end. lia.
  - (* a continuation byte appended to an unfinished character *)
    specialize (IH Hr0 ltac:(discriminate)). destruct IH as [[l' [tl' [E0 [Hl [Hw [lo [hi [Hn [Hlo Hhi]]]]]]]]] Hlen].
    injection E0 as <- <-. destruct (Hlen l tl0 eq_refl) as [L1 L2].
    assert (Hstep : S (length (l :: tl0)) <> total_of l).
    { intro Eq. unfold u8_step in Es. rewrite Hn in Es. destruct ((lo <=? b) && (b <=? hi))%N.
      - rewrite (proj2 (Nat.eqb_eq _ _) Eq) in Es. injection Es as Es _. destruct tl0; discriminate.
      - unfold u8_start in Es. destruct (b <? 128)%N; [discriminate|]. destruct (is_lead b); discriminate. }
    assert (H3 : 3 <= total_of l) by (cbn [length] in *; lia).
    assert (Hnew : u8_need ((l :: tl0) ++ [b]) = Some (total_of l, 128%N, 191%N)).
    { cbn [app]. destruct tl0 as [|x tl0]; cbn [app]; apply need_long_total; assumption. }
    constructor.
    + exists l, (tl0 ++ [b]). split; [reflexivity|]. split; [exact Hl|]. split; [exact Hw|]. exists 128%N, 191%N. split; [exact Hnew|]. lia.
    + intros l2 tl2 E. cbn [app] in E. injection E as <- <-. rewrite app_length in *. cbn [length] in *. lia.
Qed.

(* inside a character only continuation bytes are accepted *)
Lemma inside_is_cont s b s1 o : reach s -> s <> [] -> u8_step s b = (s1, o, false) -> is_cont b = true /\ length s < 4.
Proof.
  intros Hr Hne Es. destruct (reach_facts s Hr Hne) as [[l [tl [E0 [Hl [Hw [lo [hi [Hn [Hlo Hhi]]]]]]]]] Hlen]. subst s.
  destruct (Hlen l tl eq_refl) as [L1 L2]. split; [|lia].
  unfold u8_step in Es. rewrite Hn in Es. destruct ((lo <=? b) && (b <=? hi))%N eqn:Er.
  - apply andb_true_iff in Er. destruct Er as [E1 E2]. apply N.leb_le in E1, E2. unfold is_cont. apply andb_true_iff. split; [apply N.leb_le | apply N.ltb_lt]; lia.
  - unfold u8_start in Es. destruct (b <? 128)%N; [discriminate|]. destruct (is_lead b); discriminate.
Qed.
(* a step that completes the character reaches exactly the width of the lead *)
Lemma completes_at_width s b o : reach s -> s <> [] -> u8_step s b = ([], o, false) ->
  exists l tl, s = l :: tl /\ utf8_width l = S (length s).
Proof.
  intros Hr Hne Es. destruct (reach_facts s Hr Hne) as [[l [tl [E0 [Hl [Hw [lo [hi [Hn [Hlo Hhi]]]]]]]]] Hlen]. subst s.
  exists l, tl. split; [reflexivity|]. rewrite Hw. unfold u8_step in Es. rewrite Hn in Es. destruct ((lo <=? b) && (b <=? hi))%N.
  - destruct (S (length (l :: tl)) =? total_of l) eqn:Eq; [apply Nat.eqb_eq in Eq; lia|]. injection Es as Es _. destruct tl; discriminate.
  - unfold u8_start in Es. destruct (b <? 128)%N; [discriminate|]. destruct (is_lead b); discriminate.
Qed.
Lemma not_yet_width s : reach s -> forall l tl, s = l :: tl -> length s < utf8_width l.
Proof.
  intros Hr l tl E. destruct (reach_facts s Hr ltac:(rewrite E; discriminate)) as [[l' [tl' [E0 [Hl [Hw _]]]]] Hlen].
  rewrite E in E0. injection E0 as <- <-. rewrite Hw. apply (Hlen l tl E).
Qed.

(* ---------- from_utf8 in terms of the machine ---------- *)
Lemma scan_spec : forall inp s pos ok s', ok + length s = pos -> u8_adv s inp = Some s' ->
  u8_scan s inp pos ok = match s' with [] => U8Ok | _ => U8Err (pos + length inp - length s') true end.
Proof.
  induction inp as [|b r IH]; intros s pos ok s' Hpos Ha; cbn [u8_adv u8_scan] in *.
  - injection Ha as <-. destruct s; [reflexivity|]. f_equal. cbn [length] in *. lia.
  - destruct (u8_step s b) as [[s1 o] bad] eqn:Es. destruct bad; [discriminate|].
    assert (Hok : (match s1 with [] => S pos | _ => ok end) + length s1 = S pos).
    { destruct (step_shape _ _ _ _ Es) as [E1|E1]; rewrite E1; [cbn; lia|]. destruct (s ++ [b]) eqn:E; [destruct s; discriminate|]. rewrite <- E, app_length. cbn. lia. }
    rewrite (IH s1 (S pos) (match s1 with [] => S pos | _ => ok end) s' Hok Ha).
    destruct s'; [reflexivity|]. f_equal. cbn [length]. lia.
Qed.
Lemma scan_bad : forall inp s pos ok, u8_adv s inp = None -> exists v, u8_scan s inp pos ok = U8Err v false.
Proof.
  induction inp as [|b r IH]; intros s pos ok Ha; cbn [u8_adv u8_scan] in *; [discriminate|].
  destruct (u8_step s b) as [[s1 o] bad]. destruct bad; [exists ok; reflexivity | apply IH; exact Ha].
Qed.
(* the bytes consumed split into complete characters and the unfinished tail, which is the state *)
Lemma adv_suffix : forall inp s s', reach s -> u8_adv s inp = Some s' ->
  reach s' /\ exists pre, s ++ inp = pre ++ s' /\ u8_adv [] pre = Some [].
Proof.
  induction inp as [|b r IH]; intros s s' Hr Ha; cbn [u8_adv] in Ha.
  - injection Ha as <-. split; [exact Hr|]. exists []. rewrite app_nil_r. split; reflexivity.
  - destruct (u8_step s b) as [[s1 o] bad] eqn:Es. destruct bad; [discriminate|].
    assert (Hs1 : u8_adv [] (s ++ [b]) = Some s1) by (rewrite adv_app, Hr; cbn [u8_adv]; rewrite Es; reflexivity).
    destruct (step_shape _ _ _ _ Es) as [E1|E1]; subst s1.
    + destruct (IH [] s' eq_refl Ha) as [Hr' [pre [E Hp]]]. split; [exact Hr'|]. exists ((s ++ [b]) ++ pre).
      split; [rewrite <- !app_assoc; cbn [app] in *; rewrite E; reflexivity | rewrite adv_app, Hs1; exact Hp].
    + destruct (IH (s ++ [b]) s' Hs1 Ha) as [Hr' [pre [E Hp]]]. split; [exact Hr'|]. exists pre. split; [rewrite <- E, <- app_assoc; reflexivity | exact Hp].
Qed.
Lemma adv_prefix x y s t : u8_adv s (x ++ y) = Some t -> exists u, u8_adv s x = Some u.
Proof. rewrite adv_app. destruct (u8_adv s x) as [u|]; [intros _; exists u; reflexivity | discriminate]. Qed.

(* ---------- the fast path: nothing buffered ---------- *)
Lemma slice_fast c s' : u8_adv [] c = Some s' ->
  exists valid, c = valid ++ s' /\ u8_adv [] valid = Some [] /\ slice_step [] c = Some (s', valid, []) /\ length s' < 4.
Proof.
  intros Ha. destruct (adv_suffix c [] s' eq_refl Ha) as [Hr [pre [E Hp]]]. cbn [app] in E.
  assert (Hl : length s' < 4).
  { destruct s' as [|l tl]; [cbn; lia|]. destruct (reach_facts _ Hr ltac:(discriminate)) as [_ Hlen]. destruct (Hlen l tl eq_refl). lia. }
  exists pre. split; [exact E|]. split; [exact Hp|]. split; [|exact Hl].
  unfold slice_step, from_utf8. rewrite (scan_spec c [] 0 0 s' eq_refl Ha). destruct s' as [|l tl].
  - rewrite app_nil_r in E. subst. reflexivity.
  - cbn [Nat.add]. assert (Hv : length c - length (l :: tl) = length pre) by (rewrite E, app_length; lia).
    rewrite Hv. clear Hv Ha. subst c. rewrite skipn_app, Nat.sub_diag, skipn_all. cbn [skipn app].
    rewrite firstn_app, Nat.sub_diag, firstn_all. cbn [firstn]. rewrite app_nil_r.
    destruct (4 <? length (l :: tl)) eqn:E4; [apply Nat.ltb_lt in E4; lia | reflexivity].
Qed.

(* ---------- the slow path: an unfinished character is buffered ---------- *)
Lemma absorb_spec : forall c st s', reach st -> st <> [] -> u8_adv st c = Some s' ->
  (exists c1 c2, c = c1 ++ c2 /\ c1 <> [] /\ u8_adv st c1 = Some [] /\ u8_adv [] c2 = Some s' /\
                 absorb st c = (st ++ c1, c2, match c2 with [] => false | _ => true end) /\
                 exists l tl, st = l :: tl /\ utf8_width l = length (st ++ c1))
  \/ (s' = st ++ c /\ absorb st c = (st ++ c, [], false)).
Proof.
  induction c as [|b r IH]; intros st s' Hr Hne Ha; cbn [u8_adv] in Ha.
  - right. injection Ha as <-. rewrite app_nil_r. auto.
  - destruct (u8_step st b) as [[s1 o] bad] eqn:Es. destruct bad; [discriminate|].
    destruct (inside_is_cont _ _ _ _ Hr Hne Es) as [Hc Hl4].
    assert (Hab : absorb st (b :: r) = absorb (st ++ [b]) r) by (cbn [absorb]; rewrite Hc, (proj2 (Nat.ltb_lt _ _) Hl4); reflexivity).
    destruct (step_shape _ _ _ _ Es) as [E1|E1]; subst s1.
    + (* the character is complete *)
      left. exists [b], r. destruct (completes_at_width _ _ _ Hr Hne Es) as [l [tl [E0 Hw]]].
      split; [reflexivity|]. split; [discriminate|]. split; [cbn [u8_adv]; rewrite Es; reflexivity|]. split; [exact Ha|].
      split; [|exists l, tl; split; [exact E0 | rewrite Hw, app_length; cbn; lia]].
      rewrite Hab. destruct r as [|b2 r2]; [reflexivity|]. cbn [absorb].
      cbn [u8_adv] in Ha. destruct (u8_step [] b2) as [[s2 o2] bad2] eqn:E2. destruct bad2; [discriminate|].
      rewrite (start_not_cont _ _ _ E2). reflexivity.
    + assert (Hr1 : reach (st ++ [b])) by (unfold reach; rewrite adv_app, Hr; cbn [u8_adv]; rewrite Es; reflexivity).
      destruct (IH (st ++ [b]) s' Hr1 ltac:(destruct st; discriminate) Ha) as [[c1 [c2 [E [Hn1 [A1 [A2 [A3 [l [tl [E0 Hw]]]]]]]]]]|[E A]].
      * left. exists (b :: c1), c2. split; [rewrite E; reflexivity|]. split; [discriminate|].
        split; [cbn [u8_adv]; rewrite Es; exact A1|]. split; [exact A2|].
        split; [rewrite Hab, A3, <- app_assoc; reflexivity|].
        destruct st as [|l0 tl0]; [contradiction|]. exists l0, tl0. split; [reflexivity|]. cbn [app] in E0. injection E0 as <- _.
        rewrite Hw, <- app_assoc. reflexivity.
      * right. split; [rewrite E, <- app_assoc; reflexivity | rewrite Hab, A, <- app_assoc; reflexivity].
Qed.

(* ---------- one write_utf8_chunk call ---------- *)
Lemma from_utf8_ok b : u8_adv [] b = Some [] -> from_utf8 b = U8Ok.
Proof. intros H. unfold from_utf8. rewrite (scan_spec b [] 0 0 [] eq_refl H). reflexivity. Qed.
Lemma write_spec st c s' : reach st -> u8_adv st c = Some s' ->
  exists ps, write_chunk 3 st c [] = (Some s', ps) /\ List.concat ps ++ s' = st ++ c /\ reach s'.
Proof.
  intros Hr Ha. destruct (adv_suffix c st s' Hr Ha) as [Hr' _].
  destruct c as [|b0 c0]; [injection Ha as <-; exists []; rewrite app_nil_r; auto|].
  set (c := b0 :: c0) in *. assert (Hc : c <> []) by discriminate.
  destruct st as [|l tl].
  - (* nothing buffered *)
    destruct (slice_fast c s' Ha) as [valid [E [Hv [Hs _]]]].
    exists (match valid with [] => [] | _ => [valid] end). split; [|split; [|exact Hr']].
    + unfold c at 1. cbn [write_chunk]. fold c. rewrite Hs. destruct valid; reflexivity.
    + cbn [app]. rewrite E. destruct valid; cbn [List.concat app]; rewrite ?app_nil_r; reflexivity.
  - destruct (absorb_spec c (l :: tl) s' Hr ltac:(discriminate) Ha) as [[c1 [c2 [E [Hn1 [A1 [A2 [A3 [l' [tl' [E0 Hw]]]]]]]]]]|[E A]].
    + injection E0 as <- <-. set (buf := (l :: tl) ++ c1) in *.
      assert (Hbuf : u8_adv [] buf = Some []) by (unfold buf; rewrite adv_app, Hr; exact A1).
      assert (Hs : slice_step (l :: tl) c = Some ([], buf, c2)).
      { unfold slice_step. rewrite A3. fold buf. rewrite Hw, Nat.leb_refl, orb_true_r, (from_utf8_ok _ Hbuf). reflexivity. }
      assert (Hbne : buf <> []) by (unfold buf; discriminate).
      destruct c2 as [|b2 r2].
      * cbn [u8_adv] in A2. injection A2 as <-. exists [buf]. split; [|split; [|exact Hr']].
        -- unfold c at 1. cbn [write_chunk]. fold c. rewrite Hs. destruct buf; [contradiction | reflexivity].
        -- cbn [List.concat]. rewrite !app_nil_r. unfold buf. rewrite E, app_nil_r. reflexivity.
      * destruct (slice_fast (b2 :: r2) s' A2) as [valid [E2 [Hv [Hs2 _]]]].
        exists ([buf] ++ match valid with [] => [] | _ => [valid] end). split; [|split; [|exact Hr']].
        -- unfold c at 1. cbn [write_chunk]. fold c. rewrite Hs. destruct buf as [|x y]; [contradiction|]. cbn [app]. rewrite Hs2. destruct valid; reflexivity.
        -- rewrite concat_app. cbn [List.concat]. rewrite app_nil_r, <- app_assoc. unfold buf. rewrite E, <- app_assoc. f_equal. f_equal.
           rewrite E2. destruct valid; cbn [List.concat app]; rewrite ?app_nil_r; reflexivity.
    + exists []. split; [|split; [cbn [List.concat app]; exact E | exact Hr']].
      assert (Hs : slice_step (l :: tl) c = Some (s', [], [])).
      { unfold slice_step. rewrite A. cbn [orb]. rewrite <- E.
        assert (Hlt : length s' < utf8_width l) by (apply (not_yet_width s' Hr' l (tl ++ c)); rewrite E; reflexivity).
        rewrite (proj2 (Nat.leb_gt _ _) Hlt). reflexivity. }
      unfold c at 1. cbn [write_chunk]. fold c. rewrite Hs. reflexivity.
Qed.
(* a write is refused only when its bytes do not continue the stream as valid UTF-8 *)
Lemma write_fails_only_on_invalid st c ps : reach st -> write_chunk 3 st c [] = (None, ps) -> u8_adv st c = None.
Proof.
  intros Hr Hw. destruct (u8_adv st c) as [s'|] eqn:Ha; [|reflexivity].
  destruct (write_spec st c s' Hr Ha) as [ps' [E _]]. rewrite E in Hw. discriminate.
Qed.

(* ---------- every way of cutting a valid string into fragments ---------- *)
Lemma emit_concat ct : forall ps, List.concat (map (sk_emit ct) ps) = sk_emit ct (List.concat ps).
Proof.
  unfold sk_emit, encode_chunk. cbn [fst snd]. destruct ct; induction ps as [|p ps IH]; cbn [map List.concat]; try reflexivity.
  - rewrite IH. reflexivity.
  - rewrite IH, escape_body_text_app. reflexivity.
Qed.
Lemma emit_app ct a b : sk_emit ct (a ++ b) = sk_emit ct a ++ sk_emit ct b.
Proof. unfold sk_emit, encode_chunk. cbn [fst snd]. destruct ct; [reflexivity | apply escape_body_text_app]. Qed.

Theorem fragments_are_stitched ct : forall frags st, reach st -> u8_adv st (List.concat frags) = Some [] ->
  exists outs, sink_run st (map (fun f => SkUtf8 f ct) frags) = map (fun o => (true, o)) outs /\
               exists raw, List.concat outs = sk_emit ct raw /\ raw = st ++ List.concat frags.
Proof.
  induction frags as [|f fs IH]; intros st Hr Ha; cbn [List.concat map sink_run] in *.
  - injection Ha as ->. exists []. split; [reflexivity|]. exists []. split; [destruct ct; reflexivity | reflexivity].
  - destruct (adv_prefix _ _ _ _ Ha) as [s1 H1]. rewrite adv_app, H1 in Ha.
    destruct (write_spec st f s1 Hr H1) as [ps [Hw [Hc Hr1]]].
    destruct (IH s1 Hr1 Ha) as [outs [Hrun [raw [Ho Hraw]]]].
    exists (List.concat (map (sk_emit ct) ps) :: outs). unfold sink_step. rewrite Hw. cbn [map]. rewrite Hrun. split; [reflexivity|].
    exists (st ++ f ++ List.concat fs). split; [|reflexivity]. cbn [List.concat]. rewrite Ho, Hraw, emit_concat, <- emit_app. f_equal.
    rewrite (app_assoc (List.concat ps)), Hc, <- app_assoc. reflexivity.
Qed.
(* the statement for a fresh sink *)
Theorem utf8_fragments_written_to_a_sink_are_the_string ct frags :
  from_utf8 (List.concat frags) = U8Ok ->
  exists outs, sink_run [] (map (fun f => SkUtf8 f ct) frags) = map (fun o => (true, o)) outs /\ List.concat outs = sk_emit ct (List.concat frags).
Proof.
  intros Hv. assert (Ha : u8_adv [] (List.concat frags) = Some []).
  { destruct (u8_adv [] (List.concat frags)) as [s|] eqn:E.
    - unfold from_utf8 in Hv. rewrite (scan_spec _ [] 0 0 s eq_refl E) in Hv. destruct s; [reflexivity | discriminate].
    - destruct (scan_bad _ [] 0 0 E) as [v Hb]. unfold from_utf8 in Hv. rewrite Hb in Hv. discriminate. }
  destruct (fragments_are_stitched ct frags [] eq_refl Ha) as [outs [Hr [raw [Ho ->]]]]. exists outs. auto.
Qed.
