(* C05: an end tag deactivates (stop_matching: scoped handlers off, end-tag handler armed) exactly the open elements it
   closes in the tag-induced tree -- the innermost open element of that name and everything inside it -- and an end tag
   that matches no open element deactivates nothing. *)
From LolModel Require Import Base Selectors Machine Rewriter.
From LolSpec Require Import CssSem.
From LolProofs Require Import Css CssPred StackTree TypedCounters.
From Coq Require Import Lia Bool List ZArith.
Import ListNotations.
Open Scope nat_scope.

Theorem end_tag_pops_exactly_the_closed_elements s t name s' popped :
  Rfull s t -> stack_pop_up_to s (K name) = (s', popped) ->
  let k := length (t_open (on_end t name)) in
  popped = map si_data (skipn k (vs_items s)) /\ vs_items s' = firstn k (vs_items s) /\ length popped = length (t_open t) - k /\
  (close_to name (t_open t) = None -> popped = [] /\ s' = s).
Proof.
  intros [Hsh _] Hp. pose proof (shape_length _ _ Hsh) as Hlen. rewrite shape_eq, tshape_eq in Hsh. injection Hsh as _ Ei.
  pose proof (pop_matches_close (vs_items s) (t_open t) (K name) name Ei eq_refl) as H.
  unfold stack_pop_up_to in Hp. unfold on_end. pose proof (close_to_suffix name (t_open t)) as Hsuf.
  destruct (close_to name (t_open t)) as [rest|]; cbn [t_open].
  - destruct H as [H1 _]. rewrite H1 in Hp. injection Hp as <- <-. cbn [vs_items]. destruct Hsuf as [pre [o Eo]].
    split; [reflexivity|]. split; [reflexivity|]. split; [|discriminate].
    rewrite map_length, skipn_length, Hlen. reflexivity.
  - rewrite H in Hp. injection Hp as <- <-. rewrite <- Hlen, skipn_all, firstn_all. cbn. repeat split; try reflexivity. lia.
Qed.
(* at the controller: the descriptors handed to stop_matching by an end tag *)
Theorem end_tag_stops_exactly_the_closed_elements c name t :
  r_prog c <> None -> Rfull (r_stack c) t ->
  let k := length (t_open (on_end t name)) in
  fst (rw_end_tag c name (hash_of name)) =
  fold_left stop_matching (map si_data (skipn k (vs_items (r_stack c))))
            (rset_vm c (fst (stack_pop_up_to (r_stack c) (K name))) (r_vm_charged c)).
Proof.
  intros Hp Hf k. unfold rw_end_tag. destruct (r_prog c); [|contradiction]. change (lname_of name (hash_of name)) with (K name).
  destruct (stack_pop_up_to (r_stack c) (K name)) as [s' popped] eqn:Ep. cbn [fst].
  destruct (end_tag_pops_exactly_the_closed_elements _ _ _ _ _ Hf Ep) as [-> _]. reflexivity.
Qed.
