(* C10: memory accounting of the level-2 model (arena + open-element stack share one limiter). *)
From LolModel Require Import Machine Selectors Rewriter.
From LolProofs Require Import OkPath.
From Coq Require Import Lia ZifyBool ZifyNat ZifyN.
Open Scope nat_scope.

Notation rc := rewrite_controller.

(* fields of the controller state that only the VM execution touches *)
Definition mem_sig (c : rwc) : N * N * N := (c.(r_vm_charged), c.(r_max), c.(r_item_size)).

Lemma rlog_sig c n e : mem_sig (rlog c n e) = mem_sig c. Proof. reflexivity. Qed.
Lemma rset_handlers_sig c a b d e f g h i : mem_sig (rset_handlers c a b d e f g h i) = mem_sig c. Proof. reflexivity. Qed.
Lemma rset_pending_sig c p : mem_sig (rset_pending c p) = mem_sig c. Proof. reflexivity. Qed.
Lemma invoke_sig c : mem_sig (fst (invoke c)) = mem_sig c. Proof. reflexivity. Qed.

Lemma start_matching_sig ids : forall c wc, mem_sig (start_matching c ids wc) = mem_sig c.
Proof.
  unfold start_matching. induction ids as [|i ids IH]; intros c wc; cbn; [reflexivity|].
  rewrite IH. destruct (nth_error (r_locators c) i); reflexivity.
Qed.
Lemma stop_matching_sig c d : mem_sig (stop_matching c d) = mem_sig c.
Proof.
  unfold stop_matching. cbn.
  assert (H : forall ids c0, mem_sig (fold_left (fun c id => match nth_error c.(r_locators) id with
    | None => c
    | Some l => rset_handlers c c.(r_doctype) (match l.(lc_cm) with Some i => hv_dec c.(r_comment) i | None => c.(r_comment) end)
                  (match l.(lc_tx) with Some i => hv_dec c.(r_text) i | None => c.(r_text) end) c.(r_endtag) c.(r_element) c.(r_end) c.(r_next_chc) c.(r_removed_count)
    end) ids c0) = mem_sig c0).
  { induction ids as [|i ids IH]; intros c0; cbn; [reflexivity|]. rewrite IH. destruct (nth_error (r_locators c0) i); reflexivity. }
  apply H.
Qed.
Lemma fold_stop_sig l : forall c, mem_sig (fold_left stop_matching l c) = mem_sig c.
Proof. induction l as [|d l IH]; intro c; cbn; [reflexivity|]. rewrite IH. apply stop_matching_sig. Qed.

Definition fails (c : rwc) : bool := match r_fail_at c with Some k0 => k0 =? S (r_invocations c) | None => false end.
Lemma invoke_eq c : invoke c = (rlog c (S (r_invocations c)) [], fails c). Proof. reflexivity. Qed.
Opaque invoke.

Lemma run_element_handlers_sig v : forall k e c tok,
  mem_sig (snd (fst (run_element_handlers v k e c tok))) = mem_sig c.
Proof.
  induction v as [|i r IH]; intros k e c tok; cbn [run_element_handlers]; [reflexivity|].
  destruct (0 <? hi_count i).
  - rewrite invoke_eq. destruct (fails c); [reflexivity|].
    destruct (run_el_ops e (hi_h i)) as [e' res].
    match goal with |- context [run_element_handlers r (S k) e' ?c2 tok] =>
      specialize (IH (S k) e' c2 tok); destruct (run_element_handlers r (S k) e' c2 tok) as [[[r' e''] c3] f] end.
    cbn in *. exact IH.
  - specialize (IH (S k) e c tok). destruct (run_element_handlers r (S k) e c tok) as [[[r' e'] c'] f]. cbn in *. exact IH.
Qed.
Lemma run_tok_handlers_sig kind v : forall last t c tok,
  mem_sig (snd (fst (run_tok_handlers kind v last t c tok))) = mem_sig c.
Proof.
  induction v as [|[k i] r IH]; intros last t c tok; cbn [run_tok_handlers]; [reflexivity|].
  destruct (0 <? hi_count i); [|apply IH].
  rewrite invoke_eq. destruct (fails c); [reflexivity|].
  match goal with |- context [if ?b then run_tok_ops ?x ?y ?z else ?w] => destruct (if b then run_tok_ops x y z else w) as [t' res] end.
  rewrite IH. reflexivity.
Qed.
Lemma run_user_endtag_sig k users : forall t c tok, mem_sig (snd (fst (run_user_endtag k users t c tok))) = mem_sig c.
Proof.
  induction users as [|ops r IH]; intros t c tok; cbn [run_user_endtag]; [reflexivity|].
  rewrite invoke_eq. destruct (fails c); [reflexivity|].
  rewrite IH. reflexivity.
Qed.
Lemma run_endtag_items_sig items : forall t c tok, mem_sig (snd (fst (run_endtag_items items t c tok))) = mem_sig c.
Proof.
  induction items as [|[k i] r IH]; intros t c tok; cbn [run_endtag_items]; [reflexivity|].
  destruct (0 <? hi_count i); [|apply IH].
  match goal with |- context [run_user_endtag ?a ?b ?t' c tok] => pose proof (run_user_endtag_sig a b t' c tok) as H; destruct (run_user_endtag a b t' c tok) as [[t3 c1] failed] end.
  cbn in H. destruct failed; [exact H|]. rewrite IH. exact H.
Qed.

Lemma rw_token_sig c tok : mem_sig (fst (rw_token c tok)) = mem_sig c.
Proof.
  destruct tok; cbn.
  - (* start tag *)
    unfold handle_start_tag.
    match goal with |- context [run_element_handlers ?v 0 ?e c ?tk] => pose proof (run_element_handlers_sig v 0 e c tk) as H; destruct (run_element_handlers v 0 e c tk) as [[[elv e1] c1] failed] end.
    cbn in H. destruct failed; cbn; [exact H|].
    destruct (r_next_chc c1); cbn; [|exact H].
    destruct (r_prog c1); cbn; [|exact H].
    destruct (vs_items (r_stack c1)); cbn; [exact H|].
    destruct (el_remove_content e1); cbn;
      (destruct (el_end_mut e1); [cbn; exact H|]; destruct (el_end_name e1); [cbn; exact H|]; destruct (el_end_handlers e1); cbn; exact H).
  - (* end tag *)
    unfold handle_end_tag_token. destruct (first_active (r_endtag c) 0); cbn; [|reflexivity].
    match goal with |- context [run_endtag_items ?it ?t ?c0 ?tk] => pose proof (run_endtag_items_sig it t c0 tk) as H; destruct (run_endtag_items it t c0 tk) as [[t1 c1] failed] end.
    cbn in H. destruct failed; cbn; exact H.
  - match goal with |- context [run_tok_handlers ?k ?v ?l ?t c ?tk] => pose proof (run_tok_handlers_sig k v l t c tk) as H; destruct (run_tok_handlers k v l t c tk) as [[t1 c1] failed] end.
    cbn in H. destruct failed; cbn; exact H.
  - match goal with |- context [run_tok_handlers ?k ?v ?l ?t c ?tk] => pose proof (run_tok_handlers_sig k v l t c tk) as H; destruct (run_tok_handlers k v l t c tk) as [[t1 c1] failed] end.
    cbn in H. destruct failed; cbn; exact H.
  - match goal with |- context [run_tok_handlers ?k ?v ?l ?t c ?tk] => pose proof (run_tok_handlers_sig k v l t c tk) as H; destruct (run_tok_handlers k v l t c tk) as [[t1 c1] failed] end.
    cbn in H. destruct failed; cbn; exact H.
Qed.
Lemma rw_end_tag_sig c n h : mem_sig (fst (rw_end_tag c n h)) = mem_sig c.
Proof.
  unfold rw_end_tag. destruct (r_prog c); [|reflexivity].
  destruct (stack_pop_up_to (r_stack c) (lname_of n h)) as [s' popped]. cbn. rewrite fold_stop_sig. reflexivity.
Qed.

(* the limiter: usage after a successful VM step stays within the limit *)
Definition within (ext : N) (c : rwc) (M : N) : Prop := (ext + r_vm_charged c <= M)%N /\ r_max c = M.

Lemma finish_exec_within c ext ec M c' f :
  within ext c M -> finish_exec c ext ec = (c', FOk f) -> within ext c' M.
Proof.
  intros [Hu Hm]. unfold finish_exec.
  pose proof (start_matching_sig (ed_matched (si_data (ec_item ec))) c (ec_with_content ec)) as Hs.
  set (c1 := start_matching c _ _) in *.
  assert (Hv : r_vm_charged c1 = r_vm_charged c /\ r_max c1 = r_max c) by (unfold mem_sig in Hs; inversion Hs; auto).
  destruct Hv as [Hv1 Hv2].
  destruct (ec_with_content ec).
  - unfold stack_push.
    destruct (length (vs_items (r_stack c1)) <? vs_cap (r_stack c1)).
    + cbn. intro Eq. injection Eq as Hc' _. rewrite <- Hc'. split; cbn; [rewrite Hv1; lia | congruence].
    + match goal with |- context [(?a <=? ?b)%N] => destruct (N.leb_spec a b) as [Hle|Hgt] end; cbn.
      * intro Eq. injection Eq as Hc' _. rewrite <- Hc'. split; cbn; [rewrite Hv2, Hm in Hle; lia | congruence].
      * intro Eq; discriminate Eq.
  - intro Eq. injection Eq as Hc' _. rewrite <- Hc'. split; [rewrite Hv1; exact Hu | congruence].
Qed.

Lemma rw_start_tag_within c ext n h x M c' r :
  within ext c M -> rw_start_tag c ext n h x = (c', r) ->
  match r with SErr _ => True | _ => within ext c' M end.
Proof.
  intros W. unfold rw_start_tag. destruct (r_prog c) as [prog|]; [|intro E; inversion E; subst; exact W].
  set (c1 := rset_vm c (stack_add_child (r_stack c) (lname_of n h)) (r_vm_charged c)).
  assert (W1 : within ext c1 M) by (destruct W; split; auto).
  destruct (get_stack_directive (lname_of n h) x).
  - (* push *)
    destruct (exec_without_attrs prog _ _) as [ec'|ec' a rcv|].
    + destruct (finish_exec c1 ext ec') as [c2 fr] eqn:Ef. intro E; inversion E; subst; clear E.
      destruct fr; [|exact I]. eapply finish_exec_within; eauto.
    + intro E; inversion E; subst. exact W1.
    + intro E; inversion E; subst. exact I.
  - intro E; inversion E; subst. exact W1.
  - destruct (exec_without_attrs prog _ _) as [ec'|ec' a rcv|].
    + destruct (finish_exec c1 ext ec') as [c2 fr] eqn:Ef. intro E; inversion E; subst; clear E.
      destruct fr; [|exact I]. eapply finish_exec_within; eauto.
    + intro E; inversion E; subst. exact W1.
    + intro E; inversion E; subst. exact I.
Qed.
Lemma rw_aux_info_within c ext a sc M c' f :
  within ext c M -> rw_aux_info c ext a sc = (c', FOk f) -> within ext c' M.
Proof.
  intros W. unfold rw_aux_info. destruct (r_prog c) as [prog|]; [|intro E; inversion E].
  destruct (r_pending c) as [[ec how]|]; [|intro E; inversion E].
  assert (W0 : within ext (rset_pending c None) M) by (destruct W; split; auto).
  match goal with |- context [match ?r with Some ec' => finish_exec _ ext ec' | None => _ end] => destruct r as [ec'|] end.
  - intro E. eapply finish_exec_within; eauto.
  - intro E; inversion E.
Qed.

(* ---- lifting through the whole machine with the success-path theorem ---- *)
Section Lift.
Variable M : N.
Variable E : N.    (* bytes charged by the arena: constant during Parser::parse *)
Definition Iw (d : @disp rwc) : Prop := d_ext_usage d = E /\ within E (d_ctl d) M.

Lemma parse_ok_within input base fuel p c last start :
  Iw (c_disp c) ->
  match parse_loop rc input base fuel p c last start with POk _ c' _ => Iw (c_disp c') | _ => True end.
Proof.
  intro H.
  apply (parse_loop_ok rc Iw); auto.
  - intros d n h x c' r [He Hd] Eq. rewrite He in Eq. pose proof (rw_start_tag_within _ _ _ _ _ M _ _ Hd Eq) as Hw.
    destruct r; auto; split; auto.
  - intros d a sc c' f [He Hd] Eq. rewrite He in Eq. split; [exact He|]. exact (rw_aux_info_within _ _ _ _ M _ _ Hd Eq).
  - intros d n h c' f [He [Hu Hm]] Eq. cbn in Eq.
    pose proof (rw_end_tag_sig (d_ctl d) n h) as Hs. rewrite Eq in Hs. cbn in Hs. unfold mem_sig in Hs. inversion Hs.
    split; [exact He|]. split; cbn; congruence.
  - intros d t c' ps [He [Hu Hm]] Eq. cbn in Eq.
    pose proof (rw_token_sig (d_ctl d) t) as Hs. rewrite Eq in Hs. cbn in Hs. unfold mem_sig in Hs. inversion Hs.
    split; [exact He|]. split; cbn; congruence.
Qed.
End Lift.

(* ---- stream level ---- *)
Definition arena_wf (a : arena) : Prop := length (ar_data a) <= ar_cap a /\ (N.of_nat (ar_cap a) <= ar_charged a)%N.
Definition Minv (s : @stream rwc) : Prop :=
  let c := d_ctl (c_disp (s_ctx s)) in
  arena_wf (s_arena s)
  /\ (ar_charged (s_arena s) + r_vm_charged c <= s_max_mem s)%N
  /\ r_max c = s_max_mem s.

Lemma arena_append_ok a other M slice a' :
  arena_wf a -> arena_append a other M slice = (a', true) ->
  arena_wf a' /\ ((ar_charged a' = ar_charged a) \/ (other + ar_charged a' <= M)%N) /\ (ar_charged a <= ar_charged a')%N.
Proof.
  intros [H1 H2]. unfold arena_append.
  destruct (Nat.ltb_spec (ar_cap a - length (ar_data a)) (length slice)).
  - match goal with |- context [limiter_ok M ?x] => unfold limiter_ok; destruct (N.leb_spec x M) end; intro E; inversion E; subst; clear E.
    unfold arena_wf; cbn. rewrite app_length. split; [split; lia | split; [right; lia | lia]].
  - intro E; inversion E; subst; clear E. unfold arena_wf; cbn. rewrite app_length. split; [split; [lia | exact H2] | split; [left; reflexivity | lia]].
Qed.
Lemma arena_shift_wf a n : arena_wf a -> arena_wf (arena_shift a n).
Proof. intros [H1 H2]. split; cbn; [rewrite skipn_length; lia | exact H2]. Qed.


Lemma bail_is_err (s : @stream rwc) d e fl : snd (bail rc s d e fl) = CErr e.
Proof. unfold bail. destruct (should_bail_out_for s e); reflexivity. Qed.
Lemma flush_remaining_ctl (d : @disp rwc) ch n : d_ctl (flush_remaining_input d ch n) = d_ctl d.
Proof.
  unfold flush_remaining_input. destruct (d_emission d); [|reflexivity].
  unfold sink_push_nonempty. match goal with |- context [match ?x with [] => _ | _ :: _ => _ end] => destruct x end; reflexivity.
Qed.
Lemma arena_clear_wf a : arena_wf a -> arena_wf (mkArena (ar_cap a) [] (ar_charged a)).
Proof. intros [H1 H2]. split; cbn; [lia | exact H2]. Qed.

Theorem write_keeps_limit s data s' :
  Minv s -> write rc s data = (s', COk) -> Minv s'.
Proof.
  intros (Hwf & Hu & Hm). unfold write.
  set (d0 := c_disp (s_ctx s)) in *.
  (* the arena after the optional append *)
  assert (Hap : forall ar1 ok,
     (if s_has_buf s then arena_append (s_arena s) (c_mem_usage rc (d_ctl d0)) (s_max_mem s) data else (s_arena s, true)) = (ar1, ok) ->
     ok = true -> arena_wf ar1 /\ (ar_charged ar1 + r_vm_charged (d_ctl d0) <= s_max_mem s)%N).
  { intros ar1 ok Eq Hok. subst ok. destruct (s_has_buf s).
    - destruct (arena_append_ok _ _ _ _ _ Hwf Eq) as (Hwf1 & Hch & _). split; [exact Hwf1|].
      destruct Hch as [Heq|Hle]; [rewrite Heq; exact Hu | cbn in Hle; lia].
    - inversion Eq; subst. split; assumption. }
  destruct (if s_has_buf s then _ else _) as [ar1 ok] eqn:Ea.
  destruct ok; cbn [negb]; [|intro Eq; match type of Eq with bail rc ?a ?b ?c ?d = _ => pose proof (bail_is_err a b c d) as Hb end; rewrite Eq in Hb; discriminate Hb].
  destruct (Hap ar1 true eq_refl eq_refl) as [Hwf1 Hu1]. clear Hap.
  match goal with |- context [parse_loop rc ?ch ?b ?fu ?p ?c false None] =>
    pose proof (parse_ok_within (s_max_mem s) (ar_charged ar1) ch b fu p c false None) as Hp;
    destruct (parse_loop rc ch b fu p c false None) as [p' c' n|e c'|k c'|c'] end.
  2: { intro Eq. match type of Eq with bail rc ?a ?b ?c ?d = _ => pose proof (bail_is_err a b c d) as Hb end. rewrite Eq in Hb; discriminate Hb. }
  2: { intro Eq; inversion Eq. }
  2: { intro Eq; inversion Eq. }
  assert (Hc' : Iw (s_max_mem s) (ar_charged ar1) (c_disp c')).
  { apply Hp. split; [reflexivity|]. split; [exact Hu1 | exact Hm]. }
  destruct Hc' as [He [Hc1 Hc2]].
  set (chunk := if s_has_buf s then ar_data ar1 else data) in *.
  destruct (n <? length chunk).
  - destruct (s_has_buf s).
    + intro Eq; inversion Eq; subst; clear Eq. unfold Minv; cbn [s_ctx c_disp s_arena s_max_mem]. rewrite flush_remaining_ctl.
      split; [apply arena_shift_wf; exact Hwf1|]. split; [exact Hc1 | exact Hc2].
    + destruct (arena_init_with ar1 _ (s_max_mem s) (skipn n data)) as [ar2 ok2] eqn:Ei.
      destruct ok2.
      * intro Eq; inversion Eq; subst; clear Eq. unfold Minv; cbn [s_ctx c_disp s_arena s_max_mem]. rewrite flush_remaining_ctl.
        unfold arena_init_with in Ei.
        destruct (arena_append_ok _ _ _ _ _ (arena_clear_wf _ Hwf1) Ei) as (Hwf2 & Hch & _).
        split; [exact Hwf2|]. split; [|exact Hc2].
        cbn [ar_charged c_mem_usage rc rewrite_controller] in Hch. rewrite ?flush_remaining_ctl in Hch.
        destruct Hch as [Heq|Hle]; [rewrite Heq; exact Hc1 | lia].
      * intro Eq. match type of Eq with bail rc ?a ?b ?c ?d = _ => pose proof (bail_is_err a b c d) as Hb end. rewrite Eq in Hb; discriminate Hb.
  - intro Eq; inversion Eq; subst; clear Eq. unfold Minv; cbn [s_ctx c_disp s_arena s_max_mem]. rewrite flush_remaining_ctl.
    split; [exact Hwf1|]. split; [exact Hc1 | exact Hc2].
Qed.

(* what Minv gives the user: accounted usage and retained input are within the limit *)
Definition accounted (s : @stream rwc) : N := (ar_charged (s_arena s) + r_vm_charged (d_ctl (c_disp (s_ctx s))))%N.
Definition retained (s : @stream rwc) : nat := if s_has_buf s then length (ar_data (s_arena s)) else 0.
Lemma Minv_bounds s : Minv s -> (accounted s <= s_max_mem s)%N /\ (N.of_nat (retained s) <= s_max_mem s)%N.
Proof.
  intros ([H1 H2] & Hu & _). split; [exact Hu|]. unfold retained. destruct (s_has_buf s); lia.
Qed.

Lemma new_stream_Minv cfg c0 :
  prealloc_fits rc cfg c0 = true -> r_max c0 = st_max_mem cfg -> Minv (new_stream rc cfg c0).
Proof.
  unfold prealloc_fits, limiter_ok. intros Hf Hm. apply N.leb_le in Hf. cbn in Hf.
  unfold Minv, new_stream. cbn. unfold prealloc_fits, limiter_ok. cbn.
  destruct (N.leb_spec (r_vm_charged c0 + N.of_nat (st_prealloc cfg)) (st_max_mem cfg)); [|lia].
  split; [split; cbn; lia|]. split; [lia | exact Hm].
Qed.
Lemma write_max_mem s data : s_max_mem (fst (write rc s data)) = s_max_mem s.
Proof.
  unfold write.
  destruct (if s_has_buf s then _ else _) as [ar1 ok]. destruct (negb ok); [unfold bail; destruct (should_bail_out_for _ _); reflexivity|].
  destruct (parse_loop _ _ _ _ _ _ _ _); try reflexivity; try (unfold bail; destruct (should_bail_out_for _ _); reflexivity).
  destruct (_ <? _); [|reflexivity]. destruct (s_has_buf s); [reflexivity|].
  destruct (arena_init_with _ _ _ _) as [ar2 ok2]. destruct ok2; [reflexivity|]. unfold bail; destruct (should_bail_out_for _ _); reflexivity.
Qed.

(* every state reached through successful writes only *)
Theorem limit_holds_after_successful_writes cfg c0 chunks :
  prealloc_fits rc cfg c0 = true -> r_max c0 = st_max_mem cfg ->
  forall r res,
    api_run rc (new_rewriter rc cfg c0) (map Write chunks) = (r, res) ->
    Forall (fun x => x = ROk) res ->
    (accounted (rw_stream r) <= st_max_mem cfg)%N /\ (N.of_nat (retained (rw_stream r)) <= st_max_mem cfg)%N.
Proof.
  intros Hf Hm.
  assert (G : forall chunks r0, Minv (rw_stream r0) -> s_max_mem (rw_stream r0) = st_max_mem cfg -> rw_poisoned r0 = false -> rw_ended r0 = false ->
              forall r res, api_run rc r0 (map Write chunks) = (r, res) -> Forall (fun x => x = ROk) res ->
              Minv (rw_stream r) /\ s_max_mem (rw_stream r) = st_max_mem cfg).
  { induction chunks0 as [|ch chs IH]; intros r0 Hi Hmm Hp He r res Eq Hall; cbn in Eq.
    - inversion Eq; subst. auto.
    - unfold api_step in Eq. rewrite He, Hp in Eq.
      destruct (write rc (rw_stream r0) ch) as [s' cr] eqn:Ew.
      destruct cr; cbn in Eq.
      + destruct (api_run rc _ (map Write chs)) as [r2 xs] eqn:Er. inversion Eq; subst; clear Eq. inversion Hall; subst.
        eapply (IH (mkRw s' false false)); eauto.
        * eapply write_keeps_limit; eauto.
        * cbn. pose proof (write_max_mem (rw_stream r0) ch) as Hx. rewrite Ew in Hx. cbn in Hx. congruence.
      + destruct (api_run rc _ (map Write chs)) as [r2 xs]. inversion Eq; subst. inversion Hall; subst. discriminate.
      + destruct (api_run rc _ (map Write chs)) as [r2 xs]. inversion Eq; subst. inversion Hall; subst. discriminate. }
  intros r res Eq Hall.
  destruct (G chunks (new_rewriter rc cfg c0)) with (r := r) (res := res) as [Hi Hmm]; auto.
  - apply new_stream_Minv; auto.
  - rewrite <- Hmm. apply Minv_bounds. exact Hi.
Qed.
