(* C04, middle layer (4): executing compiled instructions = one step of the AST frontier.
   Part 1: execution of address sets as a fold over instructions; the representation relation between AST nodes and
   instructions (what Compiler::compile_nodes lays out); the effect of one execution on the execution context. *)
From LolModel Require Import Base Selectors.
From LolSpec Require Import CssSem.
From LolProofs Require Import CssPred AstSem Frontier.
From Coq Require Import Lia Bool List.
Import ListNotations.
Open Scope nat_scope.

Lemma union_sorted_in a b i : In i (union_sorted a b) <-> In i a \/ In i b.
Proof.
  unfold union_sorted. revert b. induction a as [|x a IH]; intros b; cbn [fold_left]; [cbn; tauto|].
  rewrite IH, insert_sorted_in. cbn. intuition (subst; auto).
Qed.

Section VM.
Variable prog : program.
Variable stk : vstack.
Variable attrs : list attr_view.
Notation at_ := (instr_at prog).

(* the test of one instruction on the element being matched (None = the panic of expect()) *)
Definition ptest (c : ectx) (p : predicate) : option bool :=
  match all_tag (build_state stk c.(ec_item).(si_name)) c.(ec_item).(si_name) p.(p_tag) with
  | None => None
  | Some true => Some (all_attr attrs (ns_eqb c.(ec_ns) Html) p.(p_attr))
  | Some false => Some false
  end.
Definition itest (c : ectx) (i : instr) : option bool := ptest c (i_pred i).
Fixpoint exec_instrs (is : list instr) (c : ectx) : option ectx :=
  match is with
  | [] => Some c
  | i :: r => match itest c i with None => None | Some true => exec_instrs r (add_branch c i) | Some false => exec_instrs r c end
  end.
Lemma exec_set_is_fold : forall addrs c, exec_set prog stk addrs attrs c = exec_instrs (map at_ addrs) c.
Proof.
  induction addrs as [|a r IH]; intros c; cbn [exec_set map exec_instrs]; [reflexivity|]. unfold itest, ptest.
  destruct (all_tag _ _ _) as [[|]|]; [|apply IH|reflexivity].
  destruct (all_attr _ _ _); apply IH.
Qed.
Lemma exec_instrs_app : forall a b c, exec_instrs (a ++ b) c = match exec_instrs a c with Some c' => exec_instrs b c' | None => None end.
Proof.
  induction a as [|i a IH]; intros b c; cbn [app exec_instrs]; [reflexivity|].
  destruct (itest c i) as [[|]|]; [apply IH | apply IH | reflexivity].
Qed.
Definition instrs_of (r : range) : list instr := map at_ (addrs_of r 0).
Lemma exec_sets_is_fold : forall sets c, exec_sets prog stk sets 0 attrs c = exec_instrs (flat_map instrs_of sets) c.
Proof.
  induction sets as [|s r IH]; intros c; cbn [exec_sets flat_map]; [reflexivity|].
  rewrite exec_instrs_app, exec_set_is_fold. fold (instrs_of s). destruct (exec_instrs (instrs_of s) c); [apply IH | reflexivity].
Qed.
Definition all_sets : list range := prog.(pr_entry) :: parent_jumps stk ++ map fst stk.(vs_active_hj).
Lemma exec_all_is_fold c : exec_all_with_attrs prog stk c attrs = exec_instrs (flat_map instrs_of all_sets) c.
Proof.
  unfold exec_all_with_attrs, exec_jumps_with_attrs, exec_hjumps_with_attrs, all_sets. cbn [skipn flat_map].
  rewrite flat_map_app, exec_instrs_app, exec_set_is_fold. fold (instrs_of (pr_entry prog)).
  destruct (exec_instrs (instrs_of (pr_entry prog)) c) as [c1|]; [|reflexivity].
  rewrite exec_instrs_app, exec_sets_is_fold. destruct (exec_instrs (flat_map instrs_of (parent_jumps stk)) c1); [|reflexivity].
  apply exec_sets_is_fold.
Qed.

(* add_branch keeps what the tests look at *)
Lemma add_branch_name c i : si_name (ec_item (add_branch c i)) = si_name (ec_item c) /\ ec_ns (add_branch c i) = ec_ns c
  /\ ec_with_content (add_branch c i) = ec_with_content c /\ si_children (ec_item (add_branch c i)) = si_children (ec_item c).
Proof. unfold add_branch. destruct (ec_with_content c); cbn; auto. Qed.
Lemma itest_add_branch c i j : itest (add_branch c i) j = itest c j.
Proof. unfold itest, ptest. destruct (add_branch_name c i) as [-> [-> _]]. reflexivity. Qed.

Definition optr (o : option range) : list range := match o with Some r => [r] | None => [] end.
(* the effect of an execution: exactly the instructions whose test is true are added *)
Lemma exec_instrs_effect : forall is c c', exec_instrs is c = Some c' ->
  Forall (fun i => itest c i <> None) is /\
  let M := filter (fun i => match itest c i with Some true => true | _ => false end) is in
  si_name (ec_item c') = si_name (ec_item c) /\ ec_ns c' = ec_ns c /\ ec_with_content c' = ec_with_content c /\
  si_children (ec_item c') = si_children (ec_item c) /\
  (forall x, In x (ed_matched (si_data (ec_item c'))) <-> In x (ed_matched (si_data (ec_item c))) \/ In x (flat_map i_ids M)) /\
  si_jumps (ec_item c') = si_jumps (ec_item c) ++ (if ec_with_content c then flat_map (fun i => optr (i_jumps i)) M else []) /\
  si_hjumps (ec_item c') = si_hjumps (ec_item c) ++ (if ec_with_content c then flat_map (fun i => optr (i_hjumps i)) M else []).
Proof.
  induction is as [|i r IH]; intros c c' E; cbn [exec_instrs] in E.
  - injection E as <-. split; [constructor|]. cbn [filter flat_map]. repeat split; try tauto; try (intros [H|[]]; exact H); destruct (ec_with_content c); rewrite app_nil_r; reflexivity.
  - cbn [filter]. destruct (itest c i) as [[|]|] eqn:Et; [| |discriminate].
    + destruct (IH _ _ E) as [Hf [H1 [H2 [H3 [H4 [H5 [H6 H7]]]]]]].
      assert (Hext : forall j, itest (add_branch c i) j = itest c j) by (intros; apply itest_add_branch).
      split; [constructor; [rewrite Et; discriminate | eapply Forall_impl; [|exact Hf]; intros j Hj; rewrite <- Hext; exact Hj]|].
      rewrite (filter_ext _ _ (fun j => f_equal (fun t => match t with Some true => true | _ => false end) (Hext j))) in H5, H6, H7.
      destruct (add_branch_name c i) as [N1 [N2 [N3 N4]]]. rewrite N1 in H1. rewrite N2 in H2. rewrite N3 in H3, H6, H7. rewrite N4 in H4.
      cbn zeta. repeat split; try assumption.
      * rewrite H5. unfold add_branch. destruct (ec_with_content c); cbn; rewrite union_sorted_in, in_app_iff; tauto.
      * rewrite H5. intros [H|H]; [left; unfold add_branch; destruct (ec_with_content c); cbn; rewrite union_sorted_in; auto|].
        cbn [flat_map] in H. apply in_app_or in H. destruct H; [left; unfold add_branch; destruct (ec_with_content c); cbn; rewrite union_sorted_in; auto | right; exact H].
      * rewrite H6. unfold add_branch. destruct (ec_with_content c) eqn:Ew; cbn [ec_item si_jumps flat_map]; [|rewrite !app_nil_r; reflexivity].
        fold (optr (i_jumps i)). rewrite <- app_assoc. reflexivity.
      * rewrite H7. unfold add_branch. destruct (ec_with_content c) eqn:Ew; cbn [ec_item si_hjumps flat_map]; [|rewrite !app_nil_r; reflexivity].
        fold (optr (i_hjumps i)). rewrite <- app_assoc. reflexivity.
    + destruct (IH _ _ E) as [Hf H]. split; [constructor; [rewrite Et; discriminate | exact Hf] | exact H].
Qed.
End VM.

(* ---- Part 2: AST nodes represented by instructions ---- *)
Section Repr.
Variable prog : program.
Notation at_ := (instr_at prog).

Fixpoint rnode (n : ast_node) (i : instr) {struct n} : Prop :=
  match n with
  | Node p ch ds ids =>
      i_pred i = p /\ i_ids i = ids /\
      match ch with
      | [] => i_jumps i = None
      | _ => exists r, i_jumps i = Some r /\ re r = rs r + length ch /\
             (fix rl (l : list ast_node) (a : nat) : Prop := match l with [] => True | x :: l' => rnode x (at_ a) /\ rl l' (S a) end) ch (rs r)
      end /\
      match ds with
      | [] => i_hjumps i = None
      | _ => exists r, i_hjumps i = Some r /\ re r = rs r + length ds /\
             (fix rl (l : list ast_node) (a : nat) : Prop := match l with [] => True | x :: l' => rnode x (at_ a) /\ rl l' (S a) end) ds (rs r)
      end
  end.
Definition rlist : list ast_node -> nat -> Prop :=
  fix rl (l : list ast_node) (a : nat) : Prop := match l with [] => True | x :: l' => rnode x (at_ a) /\ rl l' (S a) end.
Definition rrange (r : range) (bs : list ast_node) : Prop := re r = rs r + length bs /\ rlist bs (rs r).
Definition jrep (ch : list ast_node) (oj : option range) : Prop :=
  match ch with [] => oj = None | _ => exists r, oj = Some r /\ rrange r ch end.
Lemma rnode_eq n i : rnode n i <-> i_pred i = n_pred n /\ i_ids i = n_ids n /\ jrep (n_children n) (i_jumps i) /\ jrep (n_desc n) (i_hjumps i).
Proof. destruct n as [p ch ds ids]. cbn [rnode n_pred n_ids n_children n_desc]. unfold jrep, rrange, rlist. destruct ch, ds; tauto. Qed.

Lemma rlist_forall2 : forall bs a, rlist bs a <-> Forall2 rnode bs (map at_ (seq a (length bs))).
Proof.
  induction bs as [|b bs IH]; intros a; cbn [rlist length seq map].
  - split; [constructor | exact (fun _ => I)].
  - change ((fix rl (l : list ast_node) (a : nat) : Prop := match l with [] => True | x :: l' => rnode x (at_ a) /\ rl l' (S a) end) bs (S a)) with (rlist bs (S a)).
    rewrite IH. split; [intros [H1 H2]; constructor; assumption | intros H; inversion H; subst; auto].
Qed.
Lemma rrange_instrs r bs : rrange r bs -> Forall2 rnode bs (instrs_of prog r).
Proof.
  intros [H1 H2]. unfold instrs_of, addrs_of. rewrite Nat.add_0_r. replace (re r - rs r) with (length bs) by lia. apply rlist_forall2. exact H2.
Qed.

Definition Reps (rl : list range) (ns : list ast_node) : Prop := exists nss, Forall2 rrange rl nss /\ forall b, In b ns <-> In b (concat nss).
Lemma forall2_app_concat : forall rl nss, Forall2 rrange rl nss -> Forall2 rnode (concat nss) (flat_map (instrs_of prog) rl).
Proof.
  induction 1 as [|r ns rl nss H1 H IH]; cbn [concat flat_map]; [constructor|]. apply Forall2_app; [apply rrange_instrs; exact H1 | exact IH].
Qed.
Lemma forall2_filter {A B} (R : A -> B -> Prop) f g : forall l l', Forall2 R l l' -> (forall a b, R a b -> f a = g b) -> Forall2 R (filter f l) (filter g l').
Proof.
  induction 1 as [|a b l l' H1 H IH]; intros Hfg; cbn [filter]; [constructor|]. rewrite (Hfg a b H1). destruct (g b); [constructor; [exact H1|] |]; apply IH; exact Hfg.
Qed.
Lemma jumps_reps : forall M Mi, Forall2 rnode M Mi ->
  (exists nss, Forall2 rrange (flat_map (fun i => optr (i_jumps i)) Mi) nss /\ concat nss = flat_map n_children M) /\
  (exists nss, Forall2 rrange (flat_map (fun i => optr (i_hjumps i)) Mi) nss /\ concat nss = flat_map n_desc M) /\
  flat_map i_ids Mi = flat_map n_ids M.
Proof.
  induction 1 as [|b i M Mi H1 H [[n1 [A1 A2]] [[n2 [B1 B2]] C]]]; cbn [flat_map]; [split; [exists []; split; [constructor | reflexivity] | split; [exists []; split; [constructor | reflexivity] | reflexivity]]|].
  apply rnode_eq in H1. destruct H1 as [_ [Hi [Hj Hh]]]. split; [|split].
  - unfold jrep in Hj. destruct (n_children b) as [|x ch] eqn:Ec.
    + rewrite Hj. exists n1. auto.
    + destruct Hj as [r [-> Hr]]. exists ((x :: ch) :: n1). split; [constructor; assumption | cbn [concat]; rewrite A2; reflexivity].
  - unfold jrep in Hh. destruct (n_desc b) as [|x ch] eqn:Ec.
    + rewrite Hh. exists n2. auto.
    + destruct Hh as [r [-> Hr]]. exists ((x :: ch) :: n2). split; [constructor; assumption | cbn [concat]; rewrite B2; reflexivity].
  - rewrite Hi, C. reflexivity.
Qed.

(* ---- one execution = one frontier step ---- *)
Variable stk : vstack.
Variable attrs : list attr_view.
Theorem exec_all_is_frontier_step c c' e root J H :
  rrange (pr_entry prog) root ->
  Reps (parent_jumps stk) J ->
  (exists nssH, Forall2 rrange (map fst (vs_active_hj stk)) nssH /\ forall b, In b H <-> In b root \/ In b (concat nssH)) ->
  (forall p b, ptest stk attrs c p = Some b -> holds e p = b) ->
  si_jumps (ec_item c) = [] -> si_hjumps (ec_item c) = [] ->
  exec_all_with_attrs prog stk c attrs = Some c' ->
  si_name (ec_item c') = si_name (ec_item c) /\ ec_ns c' = ec_ns c /\ ec_with_content c' = ec_with_content c /\
  si_children (ec_item c') = si_children (ec_item c) /\
  (forall x, In x (ed_matched (si_data (ec_item c'))) <-> In x (ed_matched (si_data (ec_item c))) \/ In x (ids_at e (J, H))) /\
  (if ec_with_content c then Reps (si_jumps (ec_item c')) (flat_map n_children (matched e J H)) /\ Reps (si_hjumps (ec_item c')) (flat_map n_desc (matched e J H))
   else si_jumps (ec_item c') = [] /\ si_hjumps (ec_item c') = []).
Proof.
  intros Hroot [nssJ [HJ1 HJ2]] [nssH [HH1 HH2]] Hview Hj0 Hh0 E.
  rewrite exec_all_is_fold in E. apply exec_instrs_effect in E. destruct E as [Hsome [N1 [N2 [N3 [N4 [Hm [Hjm Hhj]]]]]]].
  set (nodes := root ++ concat nssJ ++ concat nssH).
  set (is := flat_map (instrs_of prog) (all_sets prog stk)) in *.
  assert (HF : Forall2 rnode nodes is).
  { unfold nodes, is, all_sets. cbn [flat_map]. apply Forall2_app; [apply rrange_instrs; exact Hroot|]. rewrite flat_map_app. apply Forall2_app; apply forall2_app_concat; assumption. }
  set (g := fun i => match itest stk attrs c i with Some true => true | _ => false end) in *.
  assert (HFM : Forall2 rnode (filter (fun b => holds e (n_pred b)) nodes) (filter g is)).
  { assert (Hall : Forall (fun i => itest stk attrs c i <> None) is) by exact Hsome.
    clear - HF Hall Hview. induction HF as [|b i l l' H1 HF IH]; cbn [filter]; [constructor|].
    inversion Hall as [|? ? Hi Hall']; subst. apply rnode_eq in H1 as H1'. destruct H1' as [Hp _].
    unfold g at 1. unfold itest in *. rewrite Hp in *. destruct (ptest stk attrs c (n_pred b)) as [t|] eqn:Et; [|contradiction].
    rewrite (Hview _ _ Et). destruct t; [constructor; [exact H1|] |]; apply IH; exact Hall'. }
  destruct (jumps_reps _ _ HFM) as [[n1 [A1 A2]] [[n2 [B1 B2]] C]].
  assert (Hsame : forall b, In b (filter (fun b => holds e (n_pred b)) nodes) <-> In b (matched e J H)).
  { intros b. unfold matched, nodes. rewrite !filter_In, !in_app_iff, HJ2, HH2. tauto. }
  repeat split; try assumption.
  - intros Hx. apply Hm in Hx. destruct Hx as [Hx|Hx]; [left; exact Hx | right]. rewrite C in Hx. unfold ids_at. cbn [fst snd].
    apply in_flat_map in Hx. destruct Hx as [b [Hb Hx]]. apply in_flat_map. exists b. split; [apply Hsame; exact Hb | exact Hx].
  - intros Hx. apply Hm. destruct Hx as [Hx|Hx]; [left; exact Hx | right]. rewrite C. unfold ids_at in Hx. cbn [fst snd] in Hx.
    apply in_flat_map in Hx. destruct Hx as [b [Hb Hx]]. apply in_flat_map. exists b. split; [apply Hsame; exact Hb | exact Hx].
  - destruct (ec_with_content c).
    + rewrite Hjm, Hhj, Hj0, Hh0. cbn [app]. split.
      * exists n1. split; [exact A1|]. intros b. rewrite A2, !in_flat_map. split; intros [x [Hx Hb]]; exists x; (split; [apply Hsame; exact Hx | exact Hb]).
      * exists n2. split; [exact B1|]. intros b. rewrite B2, !in_flat_map. split; intros [x [Hx Hb]]; exists x; (split; [apply Hsame; exact Hx | exact Hb]).
    + rewrite Hjm, Hhj, Hj0, Hh0. auto.
Qed.
End Repr.
