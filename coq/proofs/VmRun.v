(* C04, middle layer (7): every start tag of every tag sequence hands start_matching exactly the ids the AST denotes at
   the new element (and, with SelLR/AstSem, exactly the selectors that match it in CSS); the stack invariant of
   VmStack.v is preserved by start and end tags. *)
From LolModel Require Import Base Selectors Machine Rewriter.
From LolSpec Require Import CssSem.
From LolProofs Require Import Css CssPred StackTree Bailout TypedCounters AstSem SelLR Frontier VmExec CompileRepr VmStack.
From Coq Require Import Lia Bool List ZArith.
Import ListNotations.
Open Scope nat_scope.

(* ---------- the element as the VM sees it ---------- *)
Definition pairs (avs : list attr_view) : list (bytes * bytes) := map (fun a => (av_name a, av_value a)) avs.
Definition norm (a : attr_view) : attr_view := mkAV (av_name a) (av_value a) [] None.
Lemma views_pairs avs : views_of (pairs avs) = map norm avs.
Proof. unfold views_of, pairs. rewrite map_map. reflexivity. Qed.
Lemma find_map_norm (f : attr_view -> bool) : (forall a, f (norm a) = f a) -> forall l, find f (map norm l) = option_map norm (find f l).
Proof. intros Hf. induction l as [|a l IH]; cbn [map find]; [reflexivity|]. rewrite Hf. destruct (f a); [reflexivity | exact IH]. Qed.
Lemma attr_find_norm avs n : attr_find (map norm avs) n = option_map norm (attr_find avs n).
Proof. unfold attr_find. apply find_map_norm. intros a. reflexivity. Qed.
Lemma attr_value_norm avs n : attr_value (map norm avs) n = attr_value avs n.
Proof. unfold attr_value. rewrite attr_find_norm. destruct (attr_find avs n); reflexivity. Qed.
Lemma eval_attr_norm avs html e : eval_attr_expr (map norm avs) html e = eval_attr_expr avs html e.
Proof. destruct e; cbn [eval_attr_expr]; rewrite ?attr_value_norm, ?attr_find_norm; try reflexivity. destruct (attr_find avs n); reflexivity. Qed.
Lemma all_attr_norm avs html l : all_attr (map norm avs) html l = all_attr avs html l.
Proof. unfold all_attr. induction l as [|[e neg] l IH]; cbn [forallb fst snd]; [reflexivity|]. rewrite eval_attr_norm, IH. reflexivity. Qed.

Lemma eval_tag_weaken st st' name e b : ss_cumulative st = ss_cumulative st' -> (forall z, ss_typed st = Some z -> ss_typed st' = Some z) ->
  eval_tag_expr st name e = Some b -> eval_tag_expr st' name e = Some b.
Proof.
  intros Hc Ht. destruct e; cbn [eval_tag_expr]; try (intros E; exact E).
  - rewrite Hc. intros E; exact E.
  - destruct (ss_typed st) as [z|] eqn:Ez; [|discriminate]. rewrite (Ht z eq_refl). intros E; exact E.
Qed.
Lemma all_tag_weaken st st' name : ss_cumulative st = ss_cumulative st' -> (forall z, ss_typed st = Some z -> ss_typed st' = Some z) ->
  forall l b, all_tag st name l = Some b -> all_tag st' name l = Some b.
Proof.
  intros Hc Ht. induction l as [|[e neg] l IH]; intros b E; cbn [all_tag] in *; [exact E|].
  destruct (eval_tag_expr st name e) as [v|] eqn:Ev; [|discriminate]. rewrite (eval_tag_weaken _ _ _ _ _ Hc Ht Ev).
  destruct (neg_if neg v); [apply IH; exact E | exact E].
Qed.

Lemma typed_none s ln : vs_typed s = None -> ss_typed (build_state (stack_add_child s ln) ln) = None.
Proof. intros H. destruct s as [rc ty items cap hj]. cbn [vs_typed] in H. subst ty. destruct items; reflexivity. Qed.

Lemma view_of_element s t name n avs sc c p b :
  Rfull s t -> small (length (siblings t)) ->
  si_name (ec_item c) = K name -> ec_ns c = n ->
  ptest (stack_add_child s (K name)) avs c p = Some b -> holds (fst (on_start t name n (pairs avs) sc)) p = b.
Proof.
  intros Hf Hs Hn Hns. unfold ptest, holds, vm_predicate. rewrite Hn, Hns.
  set (el := fst (on_start t name n (pairs avs) sc)). change (name_of el) with (K name).
  destruct (full_add_child s t name Hf Hs) as [_ [Hc Ht]].
  destruct (all_tag (build_state (stack_add_child s (K name)) (K name)) (K name) (p_tag p)) as [v|] eqn:Et; [|discriminate].
  assert (Et' : all_tag (st_of el) (K name) (p_tag p) = Some v).
  { apply (all_tag_weaken _ _ _) with (3 := Et); [exact Hc|].
    intros z Hz. destruct (vs_typed s) eqn:Ety; [rewrite Ht in Hz by discriminate; exact Hz | rewrite (typed_none s (K name) Ety) in Hz; discriminate]. }
  rewrite Et'. change (e_attrs el) with (pairs avs). rewrite views_pairs, all_attr_norm. change (html_of el) with (ns_eqb n Html).
  destruct v; intros E; injection E as <-; reflexivity.
Qed.

Lemma vm_on_start_exec c ext name n avs sc c' prog :
  r_prog c = Some prog -> vm_on_start c ext name n avs sc = Some c' ->
  exists c1 ec' f, r_stack c1 = stack_add_child (r_stack c) (K name) /\ r_prog c1 = Some prog /\ r_locators c1 = r_locators c /\
    exec_all_with_attrs prog (stack_add_child (r_stack c) (K name)) (mkEC (mkSI (K name) (mkED [] None false) [] [] 0%Z) (stays_open name n sc) n) avs = Some ec' /\
    finish_exec c1 ext ec' = (c', FOk f).
Proof.
  intros Eprog. unfold vm_on_start, rw_start_tag. rewrite Eprog.
  change (lname_of name (hash_of name)) with (K name). set (ln := K name). set (s1 := stack_add_child (r_stack c) ln). set (c1 := rset_vm c s1 (r_vm_charged c)).
  set (ec0 := mkEC (mkSI ln (mkED [] None false) [] [] 0%Z) true n).
  unfold get_stack_directive, stays_open. change (is_void ln) with (is_void (lname_of_str name)). rewrite is_void_is_void_name.
  assert (Hcases : forall ec, ec = mkEC (ec_item ec0) (negb (is_void_name name)) n ->
    (let (c2, r) := match exec_without_attrs prog s1 ec with
       | WoPanic => (c1, SErr (ContentHandlerError 900))
       | WoBail ec' a r => (rset_pending c1 (Some (ec', Some (a, r))), SInfoRequest)
       | WoDone ec' => let (c2, r) := finish_exec c1 ext ec' in (c2, match r with FOk f => SFlags f | FErr e => SErr e end)
       end in
     match r with SFlags _ => Some c2 | SInfoRequest => match rw_aux_info c2 ext avs sc with (c3, FOk _) => Some c3 | _ => None end | SErr _ => None end) = Some c' ->
    exists c1' ec' f, r_stack c1' = s1 /\ r_prog c1' = Some prog /\ r_locators c1' = r_locators c /\
      exec_all_with_attrs prog s1 (mkEC (ec_item ec0) (negb (is_void_name name)) n) avs = Some ec' /\ finish_exec c1' ext ec' = (c', FOk f)).
  { intros ec ->. pose proof (bailout_and_recovery_equal_one_phase_execution prog s1 avs (mkEC (ec_item ec0) (negb (is_void_name name)) n)) as Hb.
    destruct (exec_without_attrs prog s1 _) as [ec'|ec' a r|]; [| |discriminate].
    - destruct (finish_exec c1 ext ec') as [c2 fr] eqn:Ef. destruct fr as [f|e]; [|discriminate]. intros E. injection E as <-.
      exists c1, ec', f. repeat split; [exact Eprog | exact Hb | exact Ef].
    - unfold rw_aux_info. cbn [rset_pending r_prog r_pending r_stack]. change (r_prog c1) with (r_prog c). change (r_stack c1) with s1. rewrite Eprog. rewrite Hb.
      destruct (exec_all_with_attrs prog s1 _ avs) as [ec''|]; [|discriminate].
      destruct (finish_exec _ ext ec'') as [c2 fr] eqn:Ef. destruct fr as [f|e]; [|discriminate]. intros E. injection E as <-.
      eexists _, ec'', f. split; [|split; [|split; [|split; [reflexivity | exact Ef]]]]; [reflexivity | exact Eprog | reflexivity]. }
  destruct (ns_eqb n Html) eqn:Ens.
  - destruct (is_void_name name) eqn:Ev; cbn [negb] in *; intros E; apply (Hcases _ eq_refl E).
  - unfold rw_aux_info. cbn [rset_pending r_prog r_pending r_stack]. change (r_prog c1) with (r_prog c). change (r_stack c1) with s1. rewrite Eprog.
    cbv beta iota zeta. set (ecx := mkEC (mkSI ln (mkED [] None false) [] [] 0%Z) (negb sc) n).
    change (mkEC (ec_item ec0) (negb sc) (ec_ns ec0)) with ecx.
    destruct (exec_all_with_attrs prog s1 ecx avs) as [ec''|] eqn:Ee; [|intros E; cbv beta iota zeta in E; discriminate E].
    destruct (finish_exec _ ext ec'') as [c2 fr] eqn:Ef. destruct fr as [f|e]; [|discriminate]. intros E. injection E as <-.
    eexists _, ec'', f. split; [|split; [|split; [|split; [reflexivity | exact Ef]]]]; [reflexivity | exact Eprog | reflexivity].
Qed.

Lemma stack_push_ok s it isz mi o mx s' ch : stack_push s it isz mi o mx = (s', ch, true) ->
  vs_items s' = vs_items s ++ [it] /\ vs_active_hj s' = pushfold (vs_active_hj s) (si_hjumps it) (length (vs_items s)).
Proof.
  unfold stack_push. destruct (if length (vs_items s) <? vs_cap s then _ else _) as [[cap' charged] ok]. destruct ok; intros E; [|discriminate].
  injection E as <- _. split; reflexivity.
Qed.
Lemma finish_exec_stack c ext ec c' f : finish_exec c ext ec = (c', FOk f) ->
  r_prog c' = r_prog c /\
  if ec_with_content ec then
    exists isz mi other mx ch, stack_push (r_stack c) (ec_item ec) isz mi other mx = (r_stack c', ch, true)
  else r_stack c' = r_stack c.
Proof.
  unfold finish_exec. destruct (start_matching_stack (ed_matched (si_data (ec_item ec))) c (ec_with_content ec)) as [S1 S2].
  destruct (ec_with_content ec).
  - destruct (stack_push _ _ _ _ _ _) as [[s' charged] ok] eqn:Ep. destruct ok; intro E; [|discriminate E]. injection E as <- _.
    cbn [rset_vm r_stack r_prog]. split; [exact S2|]. rewrite S1 in Ep. eexists _, _, _, _, _. exact Ep.
  - intro E. injection E as <- _. split; [exact S2 | exact S1].
Qed.

(* ---------- the invariant ---------- *)
Definition chain_of (t : tree_state) : list elem := rev (map o_el (t_open t)).
Record Inv (prog : program) (root : list ast_node) (c : rwc) (t : tree_state) : Prop := mkInv {
  inv_prog : r_prog c = Some prog;
  inv_entry : rrange prog (pr_entry prog) root;
  inv_full : Rfull (r_stack c) t;
  inv_si : SI prog (vs_items (r_stack c)) (chain_of t) ([], root);
  inv_hj : vs_active_hj (r_stack c) = ahj (vs_items (r_stack c)) }.

Definition bump (it : stack_item) : stack_item := mkSI it.(si_name) it.(si_data) it.(si_jumps) it.(si_hjumps) (inc32 it.(si_children)).
Lemma sac_eq s ln : vs_items (stack_add_child s ln) = Selectors.map_last bump (vs_items s) /\ vs_active_hj (stack_add_child s ln) = vs_active_hj s.
Proof. destruct s as [rc ty items cap hj]. unfold stack_add_child. cbn [vs_items vs_typed vs_active_hj]. destruct items; destruct ty; split; reflexivity. Qed.
Definition same3 (a b : stack_item) : Prop := si_jumps a = si_jumps b /\ si_hjumps a = si_hjumps b /\ si_data a = si_data b.
Lemma same3_map_last items : Forall2 same3 items (Selectors.map_last bump items).
Proof.
  destruct items as [|x l _] using rev_ind; [constructor|]. rewrite map_last_snoc. apply Forall2_app.
  - induction l; constructor; [repeat split | assumption].
  - constructor; [repeat split | constructor].
Qed.
Lemma SI_same3 prog : forall items items', Forall2 same3 items items' -> forall anc JH, SI prog items anc JH -> SI prog items' anc JH.
Proof.
  induction 1 as [|a b l l' [H1 [H2 H3]] _ IH]; intros anc JH H; [exact H|].
  destruct anc as [|e anc]; cbn [SI] in *; [exact H|]. destruct H as [[A [B C]] D]. split; [|apply IH; exact D].
  unfold item_ok. rewrite <- H1, <- H2, <- H3. auto.
Qed.
Lemma ahj_same3 : forall items items', Forall2 same3 items items' -> ahj items = ahj items'.
Proof.
  unfold ahj. generalize ([] : list (range * nat)) 0. intros acc d items items' H. revert acc d.
  induction H as [|a b l l' [_ [H2 _]] _ IH]; intros acc d; cbn [ahj_from]; [reflexivity|]. rewrite H2. apply IH.
Qed.
Lemma pj_map_last items : pj (Selectors.map_last bump items) = pj items.
Proof. destruct items as [|x l _] using rev_ind; [reflexivity|]. rewrite map_last_snoc. unfold pj. rewrite !rev_app_distr. reflexivity. Qed.

Lemma on_start_eq t name n attrs sc : snd (on_start t name n attrs sc) =
  let t1 := add_child_tree t name in
  if stays_open name n sc then mkTree (mkOpen (fst (on_start t name n attrs sc)) [] :: t_open t1) (t_root_children t1) else t1.
Proof.
  unfold on_start, stays_open, add_child_tree. cbn [snd fst].
  destruct (if ns_eqb n Html then negb (is_void_name name) else negb sc); destruct (t_open t); reflexivity.
Qed.
Lemma chain_add_child t name : chain_of (add_child_tree t name) = chain_of t.
Proof. unfold chain_of, add_child_tree. destruct (t_open t); reflexivity. Qed.

(* ---------- a start tag ---------- *)
Theorem start_tag_step prog root c t ext name n avs sc c' :
  Inv prog root c t -> small (length (siblings t)) -> vm_on_start c ext name n avs sc = Some c' ->
  Inv prog root c' (snd (on_start t name n (pairs avs) sc)) /\
  exists c1 ec' f, finish_exec c1 ext ec' = (c', FOk f) /\ r_locators c1 = r_locators c /\ ec_with_content ec' = stays_open name n sc /\
    forall x, In x (ed_matched (si_data (ec_item ec'))) <-> In x (den_any root (chain_of t ++ [fst (on_start t name n (pairs avs) sc)])).
Proof.
  intros [Hp He Hf Hsi Hhj] Hsm Hrun.
  destruct (vm_on_start_exec _ _ _ _ _ _ _ _ Hp Hrun) as [c1 [ec' [f [Hs1 [Hp1 [Hl1 [Hex Hfin]]]]]]].
  set (el := fst (on_start t name n (pairs avs) sc)).
  set (s1 := stack_add_child (r_stack c) (K name)) in *.
  destruct (full_add_child (r_stack c) t name Hf Hsm) as [Hf1 _]. fold s1 in Hf1.
  destruct (sac_eq (r_stack c) (K name)) as [Hit Hah]. fold s1 in Hit, Hah.
  assert (Hsi1 : SI prog (vs_items s1) (chain_of t) ([], root)) by (rewrite Hit; apply (SI_same3 prog _ _ (same3_map_last _)); exact Hsi).
  assert (Hhj1 : vs_active_hj s1 = ahj (vs_items s1)) by (rewrite Hah, Hit, Hhj; apply ahj_same3, same3_map_last).
  set (JH := fold_left fstep (chain_of t) ([], root)).
  assert (HJ : Reps prog (parent_jumps s1) (fst JH)).
  { change (parent_jumps s1) with (pj (vs_items s1)). destruct (vs_items s1) as [|x l] eqn:Ei.
    - pose proof (SI_length _ _ _ _ Hsi1) as Hl. destruct (chain_of t) as [|a l'] eqn:Ec; [|discriminate].
      unfold JH. cbn. exists []. split; [constructor | cbn; tauto].
    - apply SI_parent; [exact Hsi1 | discriminate]. }
  destruct (SI_active prog _ _ _ Hsi1) as [nssH [HF HH]]. rewrite <- Hhj1 in HF.
  set (ec := mkEC (mkSI (K name) (mkED [] None false) [] [] 0%Z) (stays_open name n sc) n) in *.
  assert (Hview : forall p b, ptest s1 avs ec p = Some b -> holds el p = b).
  { intros p b. apply (view_of_element (r_stack c) t name n avs sc ec p b Hf Hsm eq_refl eq_refl). }
  destruct (exec_all_is_frontier_step prog s1 avs ec ec' el root (fst JH) (snd JH) He HJ (ex_intro _ nssH (conj HF HH)) Hview eq_refl eq_refl Hex)
    as [N1 [N2 [N3 [N4 [Hm Hjh]]]]].
  cbn [ec ec_item ec_with_content ec_ns si_name si_children si_data ed_matched] in N1, N2, N3, N4, Hm, Hjh.
  assert (Hids : forall x, In x (ed_matched (si_data (ec_item ec'))) <-> In x (ids_at el JH)).
  { intros x. rewrite Hm. replace (fst JH, snd JH) with JH by (destruct JH; reflexivity). cbn. tauto. }
  split.
  - destruct (finish_exec_stack _ _ _ _ _ Hfin) as [Hp' Hst]. rewrite N3 in Hst. rewrite on_start_eq. cbn zeta. fold el.
    destruct (stays_open name n sc) eqn:Eso.
    + destruct Hst as [isz [mi [other [mx [ch Hpush]]]]]. rewrite Hs1 in Hpush.
      destruct (stack_push_ok _ _ _ _ _ _ _ _ Hpush) as [Hi' Hh'].
      constructor.
      * rewrite Hp'. exact Hp1.
      * exact He.
      * exact (full_push s1 (add_child_tree t name) (ec_item ec') name el _ _ _ _ _ _ Hf1 N1 N4 eq_refl Hpush).
      * rewrite Hi'. unfold chain_of. cbn [t_open map rev]. fold (chain_of (add_child_tree t name)). rewrite chain_add_child.
        apply SI_snoc; [exact Hsi1|]. fold JH. unfold item_ok. destruct Hjh as [A B].
        replace (fst JH, snd JH) with JH in * by (destruct JH; reflexivity). split; [exact A|]. split; [exact B | exact Hids].
      * rewrite Hi', Hh', Hhj1, ahj_snoc. reflexivity.
    + rewrite Hs1 in Hst. constructor.
      * rewrite Hp'. exact Hp1.
      * exact He.
      * rewrite Hst. exact Hf1.
      * rewrite Hst, chain_add_child. exact Hsi1.
      * rewrite Hst. exact Hhj1.
  - exists c1, ec', f. split; [exact Hfin|]. split; [exact Hl1|]. split; [exact N3|].
    intros x. rewrite Hids. fold el. symmetry. apply den_any_is_frontier.
Qed.

(* ---------- an end tag ---------- *)
Theorem end_tag_step prog root c t name c' f :
  Inv prog root c t -> rw_end_tag c name (hash_of name) = (c', f) -> Inv prog root c' (on_end t name).
Proof.
  intros [Hp He Hf Hsi Hhj]. unfold rw_end_tag. rewrite Hp. change (lname_of name (hash_of name)) with (K name).
  destruct (stack_pop_up_to (r_stack c) (K name)) as [s' popped] eqn:Epop. intro E; inversion E; subst; clear E.
  assert (Hst : forall l c0, r_stack (fold_left stop_matching l c0) = r_stack c0 /\ r_prog (fold_left stop_matching l c0) = r_prog c0).
  { induction l as [|d l IH]; intros c0; cbn [fold_left]; [split; reflexivity|].
    destruct (IH (stop_matching c0 d)) as [A B]. destruct (stop_matching_stack c0 d) as [X Y]. rewrite A, B, X, Y. split; reflexivity. }
  destruct (Hst popped (rset_vm c s' (r_vm_charged c))) as [A B].
  pose proof (full_pop _ _ _ _ _ Hf Epop) as Hf'.
  destruct Hf as [Hsh _]. rewrite shape_eq, tshape_eq in Hsh. injection Hsh as _ Ei.
  pose proof (pop_matches_close (vs_items (r_stack c)) (t_open t) (K name) name Ei eq_refl) as H.
  unfold stack_pop_up_to in Epop. pose proof (close_to_suffix name (t_open t)) as Hsuf. unfold on_end in *.
  destruct (close_to name (t_open t)) as [rest|].
  - destruct H as [H1 _]. rewrite H1 in Epop. inversion Epop; subst s' popped; clear Epop.
    destruct Hsuf as [pre [o Eo]].
    assert (Hlen : length rest <= length (vs_items (r_stack c))).
    { rewrite (SI_length _ _ _ _ Hsi). unfold chain_of. rewrite rev_length, map_length, Eo, app_length. cbn [length]. lia. }
    assert (Hch : firstn (length rest) (chain_of t) = rev (map o_el rest)).
    { unfold chain_of. rewrite Eo, map_app, rev_app_distr. cbn [map rev]. rewrite <- app_assoc, firstn_app, rev_length, map_length, Nat.sub_diag. cbn [firstn].
      rewrite app_nil_r. apply firstn_all2. rewrite rev_length, map_length. apply le_n. }
    constructor; rewrite ?A, ?B; cbn [rset_vm r_stack r_prog vs_items vs_active_hj].
    + exact Hp.
    + exact He.
    + exact Hf'.
    + unfold chain_of at 1. cbn [t_open]. rewrite <- Hch. apply SI_firstn. exact Hsi.
    + rewrite Hhj. apply ahj_firstn. exact Hlen.
  - rewrite H in Epop. inversion Epop; subst s' popped; clear Epop.
    constructor; rewrite ?A, ?B; cbn [rset_vm r_stack r_prog]; assumption.
Qed.

(* ---------- every tag sequence ---------- *)
Fixpoint tree_run_a (t : tree_state) (ops : list tagop) : tree_state :=
  match ops with
  | [] => t
  | OpStart name n avs sc :: r => tree_run_a (snd (on_start t name n (pairs avs) sc)) r
  | OpEnd name :: r => tree_run_a (on_end t name) r
  end.
Fixpoint never_wraps_a (t : tree_state) (ops : list tagop) : Prop :=
  match ops with
  | [] => True
  | OpStart name n avs sc :: r => small (length (siblings t)) /\ never_wraps_a (snd (on_start t name n (pairs avs) sc)) r
  | OpEnd name :: r => never_wraps_a (on_end t name) r
  end.
Lemma never_wraps_a_app : forall ops1 t ops2, never_wraps_a t (ops1 ++ ops2) -> never_wraps_a t ops1 /\ never_wraps_a (tree_run_a t ops1) ops2.
Proof.
  induction ops1 as [|[name n avs sc|name] r IH]; intros t ops2 H; cbn [app never_wraps_a tree_run_a] in *; [auto| |apply IH; exact H].
  destruct H as [H1 H2]. destruct (IH _ _ H2) as [A B]. auto.
Qed.
Theorem run_keeps_inv prog root ext : forall ops c t c',
  Inv prog root c t -> never_wraps_a t ops -> vm_run c ext ops = Some c' -> Inv prog root c' (tree_run_a t ops).
Proof.
  induction ops as [|[name n avs sc|name] r IH]; intros c t c' Hi Hw Hrun; cbn [vm_run tree_run_a never_wraps_a] in *.
  - injection Hrun as <-. exact Hi.
  - destruct Hw as [Hs Hw]. destruct (vm_on_start c ext name n avs sc) as [c1|] eqn:E; [|discriminate].
    destruct (start_tag_step _ _ _ _ _ _ _ _ _ _ Hi Hs E) as [Hi1 _]. exact (IH _ _ _ Hi1 Hw Hrun).
  - destruct (rw_end_tag c name (hash_of name)) as [c1 f] eqn:E. cbn [fst] in Hrun.
    exact (IH _ _ _ (end_tag_step _ _ _ _ _ _ _ Hi E) Hw Hrun).
Qed.
(* at every start tag of every run, start_matching receives exactly the ids the AST denotes at the new element *)
Theorem every_start_tag_matches_the_ast prog root ext ops c0 t0 c name n avs sc c' :
  Inv prog root c0 t0 -> never_wraps_a t0 (ops ++ [OpStart name n avs sc]) ->
  vm_run c0 ext ops = Some c -> vm_on_start c ext name n avs sc = Some c' ->
  exists c1 ec' f, finish_exec c1 ext ec' = (c', FOk f) /\ r_locators c1 = r_locators c /\ ec_with_content ec' = stays_open name n sc /\
    forall x, In x (ed_matched (si_data (ec_item ec'))) <->
              In x (den_any root (chain_of (tree_run_a t0 ops) ++ [fst (on_start (tree_run_a t0 ops) name n (pairs avs) sc)])).
Proof.
  intros Hi Hw Hrun Hst. apply never_wraps_a_app in Hw. destruct Hw as [Hw1 [Hs _]].
  pose proof (run_keeps_inv _ _ _ _ _ _ _ Hi Hw1 Hrun) as Hi1.
  exact (proj2 (start_tag_step _ _ _ _ _ _ _ _ _ _ Hi1 Hs Hst)).
Qed.

(* ---------- the AST of a selector list denotes the CSS match set ---------- *)
Definition build_step (acc : list ast_node * nat) (sel : selector) : list ast_node * nat := (add_selector (fst acc) sel (snd acc), S (snd acc)).
Definition build_ast (sels : list selector) : list ast_node := fst (fold_left build_step sels ([], 0)).
Lemma build_ast_gen x anc i : forall sels root k, Forall (fun sel => sel_ok sel (rev anc ++ [x])) sels ->
  (In i (den_any (fst (fold_left build_step sels (root, k))) (rev anc ++ [x])) <->
   In i (den_any root (rev anc ++ [x])) \/ exists sel j, nth_error sels j = Some sel /\ i = k + j /\ selector_matches sel x anc = true).
Proof.
  induction sels as [|sel sels IH]; intros root k Hok; cbn [fold_left].
  - cbn [fst]. split; [auto | intros [H|[sel [j [E _]]]]; [exact H | destruct j; discriminate]].
  - inversion Hok as [|? ? H1 H2]; subst. unfold build_step at 2. cbn [fst snd]. rewrite (IH _ _ H2), (add_selector_is_css sel k root x anc i H1). split.
    + intros [[H|[-> Hm]]|[s [j [E [-> Hm]]]]]; [left; exact H | right; exists sel, 0; rewrite Nat.add_0_r; auto | right; exists s, (S j); cbn [nth_error]; split; [exact E | split; [lia | exact Hm]]].
    + intros [H|[s [j [E [-> Hm]]]]]; [left; left; exact H|]. destruct j as [|j]; cbn [nth_error] in E.
      * injection E as <-. left; right. rewrite Nat.add_0_r. auto.
      * right. exists s, j. split; [exact E | split; [lia | exact Hm]].
Qed.
Theorem build_ast_is_css sels x anc i : Forall (fun sel => sel_ok sel (rev anc ++ [x])) sels ->
  (In i (den_any (build_ast sels) (rev anc ++ [x])) <-> exists sel, nth_error sels i = Some sel /\ selector_matches sel x anc = true).
Proof.
  intros Hok. unfold build_ast. rewrite (build_ast_gen x anc i sels [] 0 Hok). unfold den_any. rewrite suffixes_den_nil. split.
  - intros [[]|[sel [j [E [-> Hm]]]]]. exists sel. auto.
  - intros [sel [E Hm]]. right. exists sel, i. auto.
Qed.

(* ---------- the initial state of the rewriter ---------- *)
Definition sel_fold_step (acc : list ast_node * hvec (list el_op) * hvec (list tok_op) * hvec (tx_when * list tok_op) * list locator) (sh : sel_handlers) :=
  let '(ast, el, cm, tx, locs) := acc in
  let id := length locs in
  let (el', li) := opt_push el sh.(sh_element) false in
  let (cm', lc) := opt_push cm sh.(sh_comments) false in
  let (tx', lt) := opt_push tx sh.(sh_text) false in
  (add_selector ast sh.(sh_selector) id, el', cm', tx', locs ++ [mkLoc li lc lt]).
Lemma fold_ast : forall sels ast0 el0 cm0 tx0 locs0,
  fst (fst (fst (fst (fold_left sel_fold_step sels (ast0, el0, cm0, tx0, locs0))))) = fst (fold_left build_step (map sh_selector sels) (ast0, length locs0)).
Proof.
  induction sels as [|sh sels IH]; intros ast0 el0 cm0 tx0 locs0; cbn [fold_left map]; [reflexivity|].
  unfold sel_fold_step at 2. destruct (opt_push el0 _ false) as [el' li]. destruct (opt_push cm0 _ false) as [cm' lc]. destruct (opt_push tx0 _ false) as [tx' lt].
  rewrite IH. unfold build_step at 2. cbn [fst snd]. rewrite app_length. cbn [length]. rewrite Nat.add_1_r. reflexivity.
Qed.
Theorem initial_state_inv sels docs bail fa isz mx : sels <> [] ->
  let root := build_ast (map sh_selector sels) in
  Inv (compile root) root (new_rwc sels docs bail fa isz mx) (mkTree [] []).
Proof.
  intros Hne root. unfold new_rwc. fold sel_fold_step.
  pose proof (fold_ast sels [] [] [] [] []) as Ha. cbn [length] in Ha. fold (build_ast (map sh_selector sels)) in Ha. fold root in Ha.
  destruct (fold_left sel_fold_step sels _) as [[[[ast el] cm] tx] locs]. cbn [fst] in Ha. subst ast.
  destruct (fold_left _ docs _) as [[[dt cm2] tx2] en].
  destruct sels as [|sh sels']; [contradiction|].
  constructor; cbn [r_prog r_stack].
  - reflexivity.
  - apply compile_represents_ast.
  - apply new_vstack_full.
  - exact I.
  - reflexivity.
Qed.

(* ---------- end to end: selectors -> AST -> program -> VM over any tag sequence = CSS matching over the induced tree ---------- *)
Theorem selector_vm_is_css sels docs bail fa isz mx ext ops c name n avs sc c' :
  sels <> [] ->
  never_wraps_a (mkTree [] []) (ops ++ [OpStart name n avs sc]) ->
  vm_run (new_rwc sels docs bail fa isz mx) ext ops = Some c -> vm_on_start c ext name n avs sc = Some c' ->
  let t := tree_run_a (mkTree [] []) ops in
  let el := fst (on_start t name n (pairs avs) sc) in
  let anc := map o_el (t_open t) in
  Forall (fun sel => sel_ok sel (rev anc ++ [el])) (map sh_selector sels) ->
  exists c1 ec' f, finish_exec c1 ext ec' = (c', FOk f) /\ r_locators c1 = r_locators c /\ ec_with_content ec' = stays_open name n sc /\
    forall i, In i (ed_matched (si_data (ec_item ec'))) <->
              exists sh, nth_error sels i = Some sh /\ selector_matches (sh_selector sh) el anc = true.
Proof.
  intros Hne Hw Hrun Hst t el anc Hok.
  destruct (every_start_tag_matches_the_ast _ _ ext ops _ _ c name n avs sc c' (initial_state_inv sels docs bail fa isz mx Hne) Hw Hrun Hst)
    as [c1 [ec' [f [A [B [C D]]]]]].
  exists c1, ec', f. split; [exact A|]. split; [exact B|]. split; [exact C|]. intros i. rewrite D.
  change (chain_of (tree_run_a (mkTree [] []) ops)) with (rev anc). fold t. fold el.
  rewrite (build_ast_is_css (map sh_selector sels) el anc i Hok). split.
  - intros [sel [E Hm]]. rewrite nth_error_map in E. destruct (nth_error sels i) as [sh|]; [|discriminate]. injection E as <-. exists sh. auto.
  - intros [sh [E Hm]]. exists (sh_selector sh). rewrite nth_error_map, E. auto.
Qed.
