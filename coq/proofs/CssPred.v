(* C04, predicate layer: for a compound selector whose negations flatten exactly, the predicate that Ast::add_selector
   builds and the VM evaluates (tag-name expressions first, attribute expressions after) decides exactly the CSS meaning of
   the compound on the element -- for every element, attribute list and sibling position. *)
From LolModel Require Import Base TreeBuilder Selectors.
From LolSpec Require Import CssSem.
From LolProofs Require Import Css.
From Coq Require Import ZArith Lia Bool List.
Import ListNotations.
Open Scope nat_scope.

(* ---- how the VM sees an element of the reference tree ---- *)
Definition views_of (attrs : list (bytes * bytes)) : list attr_view := map (fun kv => mkAV (fst kv) (snd kv) [] None) attrs.
Definition st_of (e : elem) : sel_state := mkSS e.(e_index) (Some e.(e_type_index)).
Definition name_of (e : elem) : lname := lname_of_str e.(e_name).
Definition html_of (e : elem) : bool := ns_eqb e.(e_ns) Html.

Definition tag_conj (e : elem) (c : tag_expr * bool) : bool :=
  neg_if (snd c) (match eval_tag_expr (st_of e) (name_of e) (fst c) with Some b => b | None => false end).
Definition attr_conj (e : elem) (c : attr_expr * bool) : bool := neg_if (snd c) (eval_attr_expr (views_of e.(e_attrs)) (html_of e) (fst c)).
Definition pred_b (e : elem) (p : predicate) : bool := forallb (tag_conj e) p.(p_tag) && forallb (attr_conj e) p.(p_attr).

(* with sibling counters available, the tag-name half never panics and is the conjunction *)
Lemma all_tag_is_conj e l : all_tag (st_of e) (name_of e) l = Some (forallb (tag_conj e) l).
Proof.
  induction l as [|[te neg] r IH]; [reflexivity|]. cbn [all_tag forallb]. unfold tag_conj at 1. cbn [fst snd].
  destruct te; cbn [eval_tag_expr st_of ss_typed ss_cumulative]; (destruct (neg_if neg _); [exact IH | reflexivity]).
Qed.
Lemma all_attr_is_conj e l : all_attr (views_of e.(e_attrs)) (html_of e) l = forallb (attr_conj e) l.
Proof. reflexivity. Qed.

(* ---- attribute lookup ---- *)
Lemma bytes_eqb_length a : forall b, bytes_eqb a b = true -> length a = length b.
Proof. induction a as [|x a IH]; intros [|y b] H; try discriminate; [reflexivity|]. cbn in H. apply andb_true_iff in H. cbn. f_equal. apply IH. apply H. Qed.
Lemma attr_find_views attrs n : attr_find (views_of attrs) n = option_map (fun kv => mkAV (fst kv) (snd kv) [] None) (find (fun kv => bytes_eqb (lower_bytes (fst kv)) n) attrs).
Proof.
  unfold attr_find. induction attrs as [|kv r IH]; [reflexivity|]. cbn [views_of map find av_name].
  destruct (bytes_eqb (lower_bytes (fst kv)) n) eqn:E.
  - apply bytes_eqb_length in E. unfold lower_bytes in E. rewrite map_length in E. rewrite E, Nat.eqb_refl. reflexivity.
  - rewrite andb_false_r. exact IH.
Qed.
Lemma attr_value_views attrs n : attr_value (views_of attrs) n = attr_lookup attrs n.
Proof. unfold attr_value, attr_lookup. rewrite attr_find_views. destruct (find _ attrs); reflexivity. Qed.
Lemma attr_exists_views attrs n : (match attr_find (views_of attrs) n with Some _ => true | None => false end) = match attr_lookup attrs n with Some _ => true | None => false end.
Proof. unfold attr_lookup. rewrite attr_find_views. destruct (find _ attrs); reflexivity. Qed.

(* class lists: the matcher splits on every whitespace byte (empty words included), CSS looks at the non-empty words *)
Lemma class_words v x : v <> [] -> existsb (fun c => bytes_eqb c v) (split_ws x) = existsb (fun c => bytes_eqb c v) (words [] x).
Proof.
  intros Hv. unfold split_ws. rewrite words_filter. symmetry. apply existsb_filter.
  intros [|c w] H; [destruct v; [contradiction|discriminate] | reflexivity].
Qed.

(* ---- side conditions under which an atom of the VM means its CSS atom on element e ---- *)
Fixpoint simple_wf (fuel : nat) (e : elem) (s : simple) : Prop :=
  match s with
  | SClass v => v <> []
  | SNot args => match fuel with O => True | S f => Forall (Forall (simple_wf f e)) args end
  | _ => True
  end.

(* what add_simple contributes to the predicate: every simple selector at any negation depth becomes one conjunct *)
Fixpoint flat_simple (fuel : nat) (e : elem) (s : simple) (neg : bool) : bool :=
  match s with
  | SNot args => match fuel with O => true | S f => forallb (forallb (fun s' => flat_simple f e s' (negb neg))) args end
  | _ => neg_if neg (simple_matches 1 e s)
  end.

Lemma pred_b_add_tag e p te neg : pred_b e (add_tag p te neg) = pred_b e p && tag_conj e (te, neg).
Proof. unfold pred_b, add_tag. cbn [p_tag p_attr]. rewrite forallb_app. cbn. rewrite andb_true_r. destruct (forallb (tag_conj e) (p_tag p)), (tag_conj e (te, neg)), (forallb (attr_conj e) (p_attr p)); reflexivity. Qed.
Lemma pred_b_add_attr e p ae neg : pred_b e (add_attr p ae neg) = pred_b e p && attr_conj e (ae, neg).
Proof. unfold pred_b, add_attr. cbn [p_tag p_attr]. rewrite forallb_app. cbn. rewrite andb_true_r. apply andb_assoc. Qed.

Lemma add_simple_sem : forall fuel e s neg p, simple_wf fuel e s ->
  pred_b e (add_simple fuel p s neg) = pred_b e p && flat_simple fuel e s neg.
Proof.
  induction fuel as [|f IH]; intros e s neg p Hwf.
  - destruct s; cbn [add_simple flat_simple simple_matches]; rewrite ?pred_b_add_tag, ?pred_b_add_attr; unfold tag_conj, attr_conj; cbn [fst snd eval_tag_expr eval_attr_expr st_of ss_cumulative ss_typed];
      try reflexivity.
    + unfold name_of. rewrite local_name_eq_is_case_insensitive_name_eq. reflexivity.
    + rewrite attr_value_views. reflexivity.
    + rewrite attr_value_views. destruct (attr_lookup (e_attrs e) (bs "class")); [|reflexivity]. rewrite (class_words v b) by exact Hwf. reflexivity.
    + rewrite attr_exists_views. reflexivity.
    + rewrite attr_value_views. destruct (attr_lookup (e_attrs e) (lower_bytes name)); [|reflexivity]. rewrite attribute_operators_are_css. reflexivity.
    + rewrite has_index_exact. reflexivity.
    + rewrite has_index_exact. reflexivity.
    + rewrite andb_true_r. reflexivity.
  - destruct s; cbn [add_simple flat_simple simple_matches]; rewrite ?pred_b_add_tag, ?pred_b_add_attr; unfold tag_conj, attr_conj; cbn [fst snd eval_tag_expr eval_attr_expr st_of ss_cumulative ss_typed];
      try reflexivity.
    + unfold name_of. rewrite local_name_eq_is_case_insensitive_name_eq. reflexivity.
    + rewrite attr_value_views. reflexivity.
    + rewrite attr_value_views. destruct (attr_lookup (e_attrs e) (bs "class")); [|reflexivity]. rewrite (class_words v b) by exact Hwf. reflexivity.
    + rewrite attr_exists_views. reflexivity.
    + rewrite attr_value_views. destruct (attr_lookup (e_attrs e) (lower_bytes name)); [|reflexivity]. rewrite attribute_operators_are_css. reflexivity.
    + rewrite has_index_exact. reflexivity.
    + rewrite has_index_exact. reflexivity.
    + (* SNot: two nested folds *)
      cbn [simple_wf] in Hwf. revert p. induction args as [|cmp args IHa]; intros p; cbn [fold_left forallb]; [rewrite andb_true_r; reflexivity|].
      inversion Hwf as [|? ? Hc Ha]; subst. rewrite (IHa Ha).
      assert (Hcmp : forall p0, pred_b e (fold_left (fun p2 s' => add_simple f p2 s' (negb neg)) cmp p0) = pred_b e p0 && forallb (fun s' => flat_simple f e s' (negb neg)) cmp).
      { clear IHa Ha Hwf. induction cmp as [|s' cmp IHc]; intros p0; cbn [fold_left forallb]; [rewrite andb_true_r; reflexivity|].
        inversion Hc as [|? ? Hs Hr]; subst. rewrite (IHc Hr), (IH e s' (negb neg) p0 Hs). symmetry. apply andb_assoc. }
      rewrite Hcmp. symmetry. apply andb_assoc.
Qed.

(* ---- exact flattening ---- *)
Fixpoint exact_simple (fuel : nat) (s : simple) (neg : bool) : bool :=
  match s with
  | SNot args =>
      match fuel with
      | O => true
      | S f => (if negb neg then forallb (fun cmp => length cmp =? 1) args else (length args =? 1))
               && forallb (forallb (fun s' => exact_simple f s' (negb neg))) args
      end
  | _ => true
  end.

Lemma atom_fuel e s f : (forall args, s <> SNot args) -> simple_matches f e s = simple_matches 1 e s.
Proof. intros H. destruct s; try (destruct f; reflexivity). exfalso. eapply H. reflexivity. Qed.

Lemma fold_max_ge (l : list simple) : forall m, m <= fold_left (fun m' s' => max m' (simple_depth s')) l m /\
  forall s', In s' l -> simple_depth s' <= fold_left (fun m' s' => max m' (simple_depth s')) l m.
Proof.
  induction l as [|x l IH]; intros m; cbn [fold_left]; [split; [lia | intros ? []]|].
  destruct (IH (max m (simple_depth x))) as [H1 H2]. split; [lia|]. intros s' [->|Hin]; [lia | apply H2; exact Hin].
Qed.
Lemma fold_fold_max_ge (args : list (list simple)) : forall m,
  m <= fold_left (fun m cmp => fold_left (fun m' s' => max m' (simple_depth s')) cmp m) args m /\
  forall cmp s', In cmp args -> In s' cmp -> simple_depth s' <= fold_left (fun m cmp => fold_left (fun m' s' => max m' (simple_depth s')) cmp m) args m.
Proof.
  induction args as [|c args IH]; intros m; cbn [fold_left]; [split; [lia | intros ? ? []]|].
  destruct (fold_max_ge c m) as [C1 C2].
  set (m1 := fold_left (fun m' s' => max m' (simple_depth s')) c m) in *.
  assert (G : forall m0, m0 <= fold_left (fun m cmp => fold_left (fun m' s' => max m' (simple_depth s')) cmp m) args m0) by (intros m0; apply (proj1 (IH m0))).
  assert (Mono : forall a b, a <= b -> fold_left (fun m cmp => fold_left (fun m' s' => max m' (simple_depth s')) cmp m) args a <= fold_left (fun m cmp => fold_left (fun m' s' => max m' (simple_depth s')) cmp m) args b).
  { clear. induction args as [|c args IH]; intros a b Hab; cbn [fold_left]; [exact Hab|]. apply IH.
    revert a b Hab. induction c as [|x c IHc]; intros a b Hab; cbn [fold_left]; [exact Hab | apply IHc; lia]. }
  split.
  - transitivity m1; [exact C1 | apply G].
  - intros cmp s' [->|Hin] Hs.
    + transitivity m1; [apply C2; exact Hs | apply G].
    + destruct (IH m1) as [_ H2]. apply (H2 cmp s' Hin Hs).
Qed.
Lemma depth_child args cmp s' : In cmp args -> In s' cmp -> simple_depth s' < simple_depth (SNot args).
Proof. intros H1 H2. cbn [simple_depth]. destruct (fold_fold_max_ge args 0) as [_ H]. specialize (H cmp s' H1 H2). lia. Qed.

Lemma forallb_negb_existsb {A} (f : A -> bool) l : forallb (fun x => negb (f x)) l = negb (existsb f l).
Proof. induction l as [|x l IH]; [reflexivity|]. cbn. rewrite IH, negb_orb. reflexivity. Qed.
Lemma forallb_ext_in {A} (f g : A -> bool) l : (forall x, In x l -> f x = g x) -> forallb f l = forallb g l.
Proof. intros H. induction l as [|x l IH]; [reflexivity|]. cbn. rewrite (H x (or_introl eq_refl)), IH; [reflexivity|]. intros y Hy. apply H. right. exact Hy. Qed.
Lemma existsb_ext_in {A} (f g : A -> bool) l : (forall x, In x l -> f x = g x) -> existsb f l = existsb g l.
Proof. intros H. induction l as [|x l IH]; [reflexivity|]. cbn. rewrite (H x (or_introl eq_refl)), IH; [reflexivity|]. intros y Hy. apply H. right. exact Hy. Qed.

Lemma flat_exact : forall f e s neg, simple_depth s < f -> exact_simple f s neg = true ->
  flat_simple f e s neg = neg_if neg (simple_matches f e s).
Proof.
  induction f as [|f IH]; intros e s neg Hd Hex; [lia|].
  destruct s; try (cbn [flat_simple]; rewrite (atom_fuel e _ (S f)) by (intros ? H; discriminate H); reflexivity).
  cbn [flat_simple simple_matches exact_simple] in *.
  apply andb_true_iff in Hex. destruct Hex as [Hshape Hrec].
  assert (Hchild : forall cmp s', In cmp args -> In s' cmp -> flat_simple f e s' (negb neg) = neg_if (negb neg) (simple_matches f e s')).
  { intros cmp s' H1 H2. apply IH.
    - pose proof (depth_child args cmp s' H1 H2). lia.
    - rewrite forallb_forall in Hrec. specialize (Hrec cmp H1). rewrite forallb_forall in Hrec. exact (Hrec s' H2). }
  destruct neg; cbn [negb neg_if] in *.
  - (* under a negation: not(not(C)) with a single compound argument *)
    destruct args as [|cmp [|c2 r]]; try discriminate. cbn [forallb existsb]. rewrite andb_true_r, orb_false_r, negb_involutive.
    apply forallb_ext_in. intros s' Hs. apply (Hchild cmp s' (or_introl eq_refl) Hs).
  - (* a negation of single simple selectors: not(s1, s2, ...) *)
    rewrite <- forallb_negb_existsb. apply forallb_ext_in. intros cmp Hc.
    rewrite forallb_forall in Hshape. specialize (Hshape cmp Hc). apply Nat.eqb_eq in Hshape.
    destruct cmp as [|s' [|x r]]; try discriminate. cbn [forallb]. rewrite !andb_true_r.
    apply (Hchild [s'] s' Hc (or_introl eq_refl)).
Qed.

(* ---- the statement for a compound ---- *)
Definition compound_ok (e : elem) (c : compound) : Prop :=
  Forall (fun s => simple_wf (S (simple_depth s)) e s /\ exact_simple (S (simple_depth s)) s false = true) c.
(* what the VM computes for an instruction's predicate on the element: all tag-name expressions, then all attribute ones *)
Definition vm_predicate (e : elem) (p : predicate) : bool :=
  match all_tag (st_of e) (name_of e) p.(p_tag) with
  | Some true => all_attr (views_of e.(e_attrs)) (html_of e) p.(p_attr)
  | _ => false
  end.
Lemma vm_predicate_is_pred_b e p : vm_predicate e p = pred_b e p.
Proof. unfold vm_predicate, pred_b. rewrite all_tag_is_conj, all_attr_is_conj. destruct (forallb (tag_conj e) (p_tag p)); reflexivity. Qed.

Theorem predicate_decides_compound e c : compound_ok e c -> vm_predicate e (compound_predicate c) = compound_matches e c.
Proof.
  intros Hok. rewrite vm_predicate_is_pred_b. unfold compound_predicate, compound_matches.
  assert (G : forall p, pred_b e (fold_left (fun p s => add_simple (S (simple_depth s)) p s false) c p) = pred_b e p && forallb (fun s => simple_matches (S (simple_depth s)) e s) c).
  { induction c as [|s c IH]; intros p; cbn [fold_left forallb]; [rewrite andb_true_r; reflexivity|].
    inversion Hok as [|? ? [Hwf Hex] Hr]; subst. rewrite (IH Hr), add_simple_sem by exact Hwf.
    rewrite flat_exact by (try lia; exact Hex). cbn [neg_if]. symmetry. apply andb_assoc. }
  rewrite G. reflexivity.
Qed.
