(* C04: attribute bail-out and recovery.  The VM first runs without attributes (tag-name expressions only); when an
   instruction needs attributes it bails out, and once the attributes are available it finishes that instruction and resumes
   from the recorded recovery point (entry points / the parent's jumps / hereditary jumps, at an offset).  Theorem: for every
   program, stack, element and attribute list this two-phase execution computes exactly what the one-phase execution with
   attributes (exec_all_with_attrs) computes. *)
From LolModel Require Import Base TreeBuilder Selectors.
From Coq Require Import Lia Bool List.
Import ListNotations.
Open Scope nat_scope.

Section Bailout.
Variable prog : program.
Variable stk : vstack.
Variable attrs : list attr_view.

Notation instr := (instr_at prog).
Definition T (c : ectx) (a : nat) : option bool :=
  all_tag (build_state stk c.(ec_item).(si_name)) c.(ec_item).(si_name) (instr a).(i_pred).(p_tag).
Definition A (c : ectx) (a : nat) : bool := all_attr attrs (ns_eqb c.(ec_ns) Html) (instr a).(i_pred).(p_attr).
(* finishing the instruction that bailed out *)
Definition finish_instr (c : ectx) (a : nat) : ectx := if A c a then add_branch c (instr a) else c.

Lemma exec_set_app l1 : forall l2 c, exec_set prog stk (l1 ++ l2) attrs c = match exec_set prog stk l1 attrs c with Some c' => exec_set prog stk l2 attrs c' | None => None end.
Proof.
  induction l1 as [|a r IH]; intros l2 c; cbn [app exec_set]; [reflexivity|].
  destruct (all_tag _ _ _) as [[|]|]; [|apply IH|reflexivity]. destruct (all_attr _ _ _); apply IH.
Qed.

Lemma try_set_spec addrs : forall start c,
  match try_set prog stk addrs start c with
  | TrOk c' => exec_set prog stk addrs attrs c = Some c'
  | TrBail c' a off => exists pre post, addrs = pre ++ a :: post /\ exec_set prog stk pre attrs c = Some c' /\ T c' a = Some true /\ off = a - start + 1
  | TrPanic => exec_set prog stk addrs attrs c = None
  end.
Proof.
  induction addrs as [|a r IH]; intros start c; cbn [try_set exec_set]; [reflexivity|].
  fold (T c a).
  destruct (T c a) as [[|]|] eqn:Et.
  - destruct (p_attr (i_pred (instr a))) eqn:Ea.
    + unfold all_attr at 1. cbn [forallb].
      specialize (IH start (add_branch c (instr a))). destruct (try_set prog stk r start (add_branch c (instr a))) as [c'|c' a' off|]; auto.
      destruct IH as [pre [post [E1 [E2 [E3 E4]]]]]. exists (a :: pre), post. subst r. cbn [app exec_set]. fold (T c a). rewrite Et, Ea.
      unfold all_attr at 1. cbn [forallb]. auto.
    + exists [], r. cbn. repeat split; auto.
  - specialize (IH start c). destruct (try_set prog stk r start c) as [c'|c' a' off|]; auto.
    destruct IH as [pre [post [E1 [E2 [E3 E4]]]]]. exists (a :: pre), post. subst r. cbn [app exec_set]. fold (T c a). rewrite Et. auto.
  - reflexivity.
Qed.
(* the successful prefix: instructions whose tag-name half holds have no attribute half, or we would have bailed out *)
Lemma try_set_spec_true addrs : forall start c,
  match try_set prog stk addrs start c with
  | TrBail c' a off => exists pre post, addrs = pre ++ a :: post /\ exec_set prog stk pre attrs c = Some c'
  | _ => True
  end.
Proof. intros start c. pose proof (try_set_spec addrs start c) as H. destruct (try_set prog stk addrs start c); auto. destruct H as [pre [post [E1 [E2 _]]]]. eauto. Qed.

Lemma try_set_bail_true addrs : forall start c c' a off, try_set prog stk addrs start c = TrBail c' a off ->
  exists pre post, addrs = pre ++ a :: post /\ exec_set prog stk pre attrs c = Some c' /\ T c' a = Some true /\ off = a - start + 1.
Proof. intros start c c' a off E. pose proof (try_set_spec addrs start c) as H. rewrite E in H. exact H. Qed.

Lemma seq_split pre : forall s n a post, seq s n = pre ++ a :: post -> a = s + length pre /\ post = seq (S a) (n - S (length pre)).
Proof.
  induction pre as [|x pre IH]; intros s n a post E.
  - destruct n; [discriminate|]. cbn in E. inversion E; subst. cbn. rewrite Nat.add_0_r, Nat.sub_0_r. split; reflexivity.
  - destruct n; [discriminate|]. cbn [seq app] in E. inversion E as [[Ex E']]. destruct (IH _ _ _ _ E') as [H1 H2]. cbn [length]. split; [lia|].
    rewrite H2. f_equal.
Qed.

(* resuming one instruction set after a bail-out inside it *)
Lemma set_resume R c c' a off : try_set prog stk (addrs_of R 0) (rs R) c = TrBail c' a off ->
  exec_set prog stk (addrs_of R 0) attrs c = exec_set prog stk (addrs_of R off) attrs (finish_instr c' a).
Proof.
  intros E. destruct (try_set_bail_true _ _ _ _ _ _ E) as [pre [post [E1 [E2 [E3 E4]]]]].
  rewrite E1, exec_set_app, E2. cbn [exec_set]. fold (T c' a). rewrite E3.
  unfold addrs_of in E1. destruct (seq_split _ _ _ _ _ E1) as [Ha Hp].
  assert (Hpost : addrs_of R off = post).
  { unfold addrs_of. rewrite Hp. subst off. replace (rs R + (a - rs R + 1)) with (S a) by lia. f_equal. lia. }
  rewrite Hpost. unfold finish_instr, A. destruct (all_attr _ _ _); reflexivity.
Qed.

Lemma try_sets_spec mk sets : forall idx c,
  match try_sets prog stk sets idx c mk with
  | WoDone c' => exec_sets prog stk sets 0 attrs c = Some c'
  | WoBail c' a rec => exists k off, rec = mk (idx + k) off /\ exec_sets prog stk sets 0 attrs c = exec_sets prog stk (skipn k sets) off attrs (finish_instr c' a)
  | WoPanic => exec_sets prog stk sets 0 attrs c = None
  end.
Proof.
  induction sets as [|s r IH]; intros idx c; cbn [try_sets exec_sets]; [reflexivity|].
  pose proof (try_set_spec (addrs_of s 0) (rs s) c) as H1.
  destruct (try_set prog stk (addrs_of s 0) (rs s) c) as [c1|c1 a off|] eqn:Et.
  - rewrite H1. specialize (IH (S idx) c1). destruct (try_sets prog stk r (S idx) c1 mk) as [c2|c2 a rec|]; auto.
    destruct IH as [k [off [Er Ee]]]. exists (S k), off. split; [rewrite Er; f_equal; lia | exact Ee].
  - exists 0, off. split; [f_equal; lia|]. cbn [skipn exec_sets]. rewrite (set_resume s c c1 a off Et). reflexivity.
  - rewrite H1. reflexivity.
Qed.

Theorem bailout_and_recovery_equal_one_phase_execution c :
  match exec_without_attrs prog stk c with
  | WoDone c' => exec_all_with_attrs prog stk c attrs = Some c'
  | WoBail c' a r => recover prog stk c' a r attrs = exec_all_with_attrs prog stk c attrs
  | WoPanic => exec_all_with_attrs prog stk c attrs = None
  end.
Proof.
  unfold exec_without_attrs, exec_all_with_attrs, recover, exec_jumps_with_attrs, exec_hjumps_with_attrs.
  pose proof (try_set_spec (addrs_of (pr_entry prog) 0) (rs (pr_entry prog)) c) as H1.
  destruct (try_set prog stk (addrs_of (pr_entry prog) 0) (rs (pr_entry prog)) c) as [c1|c1 a off|] eqn:Et.
  - rewrite H1. cbn [skipn].
    pose proof (try_sets_spec RecJumps (parent_jumps stk) 0 c1) as H2.
    destruct (try_sets prog stk (parent_jumps stk) 0 c1 RecJumps) as [c2|c2 a rec|].
    + rewrite H2.
      pose proof (try_sets_spec RecHJumps (map fst (vs_active_hj stk)) 0 c2) as H3.
      destruct (try_sets prog stk (map fst (vs_active_hj stk)) 0 c2 RecHJumps) as [c3|c3 a rec|].
      * exact H3.
      * destruct H3 as [k [off [Er Ee]]]. subst rec. cbn [Nat.add]. fold (finish_instr c3 a). rewrite Ee. reflexivity.
      * rewrite H3. reflexivity.
    + destruct H2 as [k [off [Er Ee]]]. subst rec. cbn [Nat.add]. fold (finish_instr c2 a). rewrite Ee. reflexivity.
    + rewrite H2. reflexivity.
  - fold (finish_instr c1 a). rewrite (set_resume _ c c1 a off Et). cbn [skipn]. reflexivity.
  - rewrite H1. reflexivity.
Qed.
End Bailout.
