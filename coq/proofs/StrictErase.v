(* C03: a strict-mode run that never reports a parsing ambiguity is, step for step, the non-strict run: erasing the guard
   and the strict flag from the tree-builder simulator commutes with every function of the machine. *)
From LolModel Require Import Base TreeBuilder Machine.
From Coq Require Import Lia Bool List.
Import ListNotations.
Open Scope nat_scope.

Definition us (s : sim) : sim := mkSim (ns_stack s) (cur_ns s) GDefault false.
Lemma us_us s : us (us s) = us s. Proof. reflexivity. Qed.
Lemma us_enter s n : enter_ns (us s) n = (us (fst (enter_ns s n)), snd (enter_ns s n)).
Proof. reflexivity. Qed.
Lemma us_leave s : leave_ns (us s) = (us (fst (leave_ns s)), snd (leave_ns s)).
Proof. unfold leave_ns. cbn [us ns_stack cur_ns guard strict]. destruct (tl (ns_stack s)); reflexivity. Qed.
Lemma us_leave_foreign s : leave_foreign (us s) = (us (fst (leave_foreign s)), snd (leave_foreign s)).
Proof. unfold leave_foreign, leave_ns. cbn [us ns_stack cur_ns guard strict]. destruct (tl (drop_foreign (ns_stack s))); reflexivity. Qed.
Lemma us_fb_start_foreign s h : fb_start_foreign (us s) h = (us (fst (fb_start_foreign s h)), snd (fb_start_foreign s h)).
Proof.
  unfold fb_start_foreign, is_ip_enter. cbn [us cur_ns]. destruct (causes_foreign_content_exit h); [apply us_leave_foreign|].
  repeat match goal with |- context [if ?b then _ else _] => destruct b end; reflexivity.
Qed.
Ltac brk := repeat match goal with
  | |- context [if ?b then _ else _] => destruct b
  | |- context [match tl ?l with _ => _ end] => destruct (tl l)
  end.
Lemma us_fb_start s h s' f : fb_start s h = Some (s', f) -> fb_start (us s) h = Some (us s', f).
Proof.
  destruct s as [st cur g0 str]. unfold fb_start, fb_start_foreign, is_ip_enter, enter_ns, leave_foreign, leave_ns, us. cbn [strict guard ns_stack cur_ns].
  destruct (if str then guard_track_start g0 h else Some g0) as [g|]; [|discriminate].
  brk; intros E; injection E as <- <-; reflexivity.
Qed.
Lemma us_fb_end s h : fb_end (us s) h = (us (fst (fb_end s h)), snd (fb_end s h)).
Proof.
  destruct s as [st cur g str]. unfold fb_end, check_ip_exit, should_leave_ns, leave_foreign, leave_ns, us. cbn [strict guard ns_stack cur_ns].
  destruct str; cbn [strict guard ns_stack cur_ns fst snd]; destruct st as [|a [|prev r]]; cbn [tl]; brk; reflexivity.
Qed.
Lemma us_run_request part k s t : run_request part k (us s) t = (us (fst (run_request part k s t)), snd (run_request part k s t)).
Proof.
  destruct s as [st cur g str]. unfold run_request, enter_ns, leave_foreign, leave_ns, us. cbn [strict guard ns_stack cur_ns].
  destruct k, t; brk; reflexivity.
Qed.

Section M.
Context {C : Type} (ctl : controller C).
Notation ctx := (@ctx C).
Notation act_res := (@act_res C).
Definition uc (c : ctx) : ctx := mkCtx (us (c_sim c)) (c_disp c).
Definition map_a (r : act_res) : act_res :=
  match r with AOk m c => AOk m (uc c) | ASwitch d b m c => ASwitch d b m (uc c) | AErr e c => AErr e (uc c) | APanic k c => APanic k (uc c) end.
Definition amb_a (r : act_res) : Prop := match r with AErr (ParsingAmbiguity _) _ => True | _ => False end.

Variable input : bytes.
Variable base : nat.
Notation l_emit_nontag := (l_emit_nontag ctl input base).
Notation l_emit_text := (l_emit_text ctl input base).
Notation l_emit_eof := (l_emit_eof ctl input base).
Notation l_emit_tag := (l_emit_tag ctl input base).
Notation lexer_action := (lexer_action ctl input base).

Lemma e_of_dres s m (r : @dres C (@disp C)) : of_dres_ctx (us s) m r = map_a (of_dres_ctx s m r).
Proof. destruct r; reflexivity. Qed.
Lemma e_nontag l c e t : l_emit_nontag l (uc c) e t = map_a (l_emit_nontag l c e t).
Proof. unfold Machine.l_emit_nontag. cbn [uc c_sim c_disp]. apply e_of_dres. Qed.
Lemma e_text l c : l_emit_text l (uc c) = map_a (l_emit_text l c).
Proof. unfold Machine.l_emit_text. destruct (_ <? _); [apply e_nontag | reflexivity]. Qed.
Lemma e_eof l c : l_emit_eof l (uc c) = map_a (l_emit_eof l c).
Proof. apply e_nontag. Qed.
Lemma e_then r k : (forall l c, k l (uc c) = map_a (k l c)) -> then_lexer (map_a r) k = map_a (then_lexer r k).
Proof. intros H. destruct r as [m c| | |]; try reflexivity. destruct m; [apply H | reflexivity]. Qed.
Lemma e_apply_feedback : forall fuel fb s t ltt cd,
  apply_feedback input fuel fb (us s) t ltt cd = (let '(s', a, b) := apply_feedback input fuel fb s t ltt cd in (us s', a, b)).
Proof.
  induction fuel as [|f IH]; intros fb s t ltt cd; destruct fb; cbn [apply_feedback]; try reflexivity.
  rewrite us_run_request. destruct (run_request _ k s t) as [s' fb']. cbn [fst snd]. apply IH.
Qed.
Lemma e_tag l c : l_emit_tag l (uc c) = map_a (l_emit_tag l c) \/ amb_a (l_emit_tag l c).
Proof.
  unfold Machine.l_emit_tag. destruct (b_tag (l_build l)) as [t|]; [|left; reflexivity].
  cbn [uc c_sim c_disp].
  set (fbr := match b_fd (l_build l) with FdApply f => Some (c_sim c, Some f) | FdSkip => Some (c_sim c, None)
              | FdNone => match t with StartTagO _ h _ _ _ => option_map (fun sf : sim * feedback => (fst sf, Some (snd sf))) (fb_start (c_sim c) h)
                                     | EndTagO _ h => let (s', f) := fb_end (c_sim c) h in Some (s', Some f) end end).
  assert (Hf : match fbr with
               | Some (s1, fbo) => match b_fd (l_build l) with FdApply f => Some (us (c_sim c), Some f) | FdSkip => Some (us (c_sim c), None)
                                   | FdNone => match t with StartTagO _ h _ _ _ => option_map (fun sf : sim * feedback => (fst sf, Some (snd sf))) (fb_start (us (c_sim c)) h)
                                                          | EndTagO _ h => let (s', f) := fb_end (us (c_sim c)) h in Some (s', Some f) end end = Some (us s1, fbo)
               | None => True end).
  { unfold fbr. destruct (b_fd (l_build l)); try reflexivity. destruct t as [n h x a sc|n h].
    - destruct (fb_start (c_sim c) h) as [[s' f]|] eqn:E; [|exact I]. cbn [option_map fst snd]. rewrite (us_fb_start _ _ _ _ E). reflexivity.
    - rewrite us_fb_end. destruct (fb_end (c_sim c) h) as [s' f]. reflexivity. }
  destruct fbr as [[s1 fbo]|]; [|right; exact I]. rewrite Hf. left.
  assert (Hfin : forall s2 ltt cd,
    (let '(t', lh) := match t with StartTagO n h _ a sc => (StartTagO n h (cur_ns (us s2)) a sc, h) | EndTagO _ _ => (t, m_lsth (l_mode l)) end in
     let md := md_lsth (md_cdata (md_ltt (l_mode l) ltt) cd) lh in
     let l1 := mkL (mkLC (lc_next (l_cur l)) (lc_last (l_cur l)) (lpos l + 1)) md (l_build (l_with_build l (b_set_fd (b_set_tag (l_build l) None) FdNone))) in
     match handle_tag ctl input base (c_disp c) (mkR (lc_lexeme_start (l_cur l)) (lpos l + 1)) t' with
     | DErr e d => AErr e (mkCtx (us s2) d) | DPanic k d => APanic k (mkCtx (us s2) d)
     | DOk (d', dir) => let c' := mkCtx (us s2) d' in
         match dir with Lex => AOk (ML l1) c' | Scan => ASwitch Scan (mkBm cd ltt lh (lpos l + 1) FdNone) (ML l1) c' end end)
    = map_a
    (let '(t', lh) := match t with StartTagO n h _ a sc => (StartTagO n h (cur_ns s2) a sc, h) | EndTagO _ _ => (t, m_lsth (l_mode l)) end in
     let md := md_lsth (md_cdata (md_ltt (l_mode l) ltt) cd) lh in
     let l1 := mkL (mkLC (lc_next (l_cur l)) (lc_last (l_cur l)) (lpos l + 1)) md (l_build (l_with_build l (b_set_fd (b_set_tag (l_build l) None) FdNone))) in
     match handle_tag ctl input base (c_disp c) (mkR (lc_lexeme_start (l_cur l)) (lpos l + 1)) t' with
     | DErr e d => AErr e (mkCtx s2 d) | DPanic k d => APanic k (mkCtx s2 d)
     | DOk (d', dir) => let c' := mkCtx s2 d' in
         match dir with Lex => AOk (ML l1) c' | Scan => ASwitch Scan (mkBm cd ltt lh (lpos l + 1) FdNone) (ML l1) c' end end)).
  { intros s2 ltt cd. destruct t as [n h x a sc|n h]; cbn [us cur_ns];
      match goal with |- context [handle_tag ctl input base ?d ?r ?t'] => destruct (handle_tag ctl input base d r t') as [[d' dir]|e d'|k d'] end;
      try reflexivity; destruct dir; reflexivity. }
  destruct fbo as [f|].
  - rewrite e_apply_feedback. destruct (apply_feedback input 2 f s1 t Data (m_cdata (l_mode l))) as [[s2 ltt] cd]. apply Hfin.
  - apply Hfin.
Qed.

Lemma e_lexer_action a l c : lexer_action a l (uc c) = map_a (lexer_action a l c) \/ amb_a (lexer_action a l c).
Proof.
  destruct a; unfold Machine.lexer_action;
    first [ left; reflexivity | left; apply e_text | left; apply e_nontag
          | left; rewrite e_text; apply e_then; exact e_eof | left; rewrite e_nontag; apply e_then; exact e_eof
          | apply e_tag | left; destruct (b_tag (l_build l)) as [[]|]; reflexivity ].
Qed.

Notation s_finish_tag_name := (s_finish_tag_name ctl input).
Notation scanner_action := (scanner_action ctl input).
Lemma e_finish_tag_name s c : s_finish_tag_name s (uc c) = map_a (s_finish_tag_name s c) \/ amb_a (s_finish_tag_name s c).
Proof.
  unfold Machine.s_finish_tag_name. destruct (tag_start (s_tag s)) as [tstart|]; [|left; reflexivity].
  cbn [uc c_sim c_disp].
  destruct (is_in_end_tag (s_tag s)) eqn:Ee.
  - rewrite us_fb_end. destruct (fb_end (c_sim c) (tag_name_hash (s_tag s))) as [sim' fb]. cbn [fst snd]. left.
    destruct fb; cbn [us cur_ns]; try reflexivity;
      match goal with |- context [hint_end ctl ?d ?n ?h] => destruct (hint_end ctl d n h) as [[d' dir]|e d'|k d'] end; try reflexivity; destruct dir; reflexivity.
  - destruct (fb_start (c_sim c) (tag_name_hash (s_tag s))) as [[sim' fb]|] eqn:E; [|right; exact I].
    rewrite (us_fb_start _ _ _ _ E). left.
    destruct fb; cbn [us cur_ns]; try reflexivity;
      match goal with |- context [hint_start ctl ?d ?n ?h ?x] => destruct (hint_start ctl d n h x) as [[d' dir]|e d'|k d'] end; try reflexivity; destruct dir; reflexivity.
Qed.
Lemma e_scanner_action a s c : scanner_action a s (uc c) = map_a (scanner_action a s c) \/ amb_a (scanner_action a s c).
Proof. destruct a; unfold Machine.scanner_action; try (left; reflexivity). apply e_finish_tag_name. Qed.

Notation do_action := (do_action ctl input base).
Notation do_actions := (do_actions ctl input base).
Lemma e_do_action a m c : do_action a m (uc c) = map_a (do_action a m c) \/ amb_a (do_action a m c).
Proof. destruct m; [apply e_lexer_action | apply e_scanner_action]. Qed.
Lemma e_do_actions : forall acts m c, do_actions acts m (uc c) = map_a (do_actions acts m c) \/ amb_a (do_actions acts m c).
Proof.
  induction acts as [|a r IH]; intros m c; cbn [Machine.do_actions]; [left; reflexivity|].
  destruct (e_do_action a m c) as [E|A].
  - rewrite E. destruct (do_action a m c) as [m' c'| | |]; cbn [map_a]; [apply IH | left; reflexivity | left; reflexivity | left; reflexivity].
  - right. destruct (do_action a m c) as [m' c'| |e c'|]; try contradiction. exact A.
Qed.

Notation arm_out := (@arm_out C).
Notation body_out := (@body_out C).
Notation loop_res := (@loop_res C).
Notation parse_res := (@parse_res C).
Definition map_r (r : arm_out) : arm_out :=
  match r with Continue m c => Continue m (uc c) | Return m c => Return m (uc c) | Switch d b m c => Switch d b m (uc c)
             | ArmErr e c => ArmErr e (uc c) | ArmPanic k c => ArmPanic k (uc c) end.
Definition amb_r (r : arm_out) : Prop := match r with ArmErr (ParsingAmbiguity _) _ => True | _ => False end.
Definition map_b (r : body_out) : body_out :=
  match r with BContinue m c => BContinue m (uc c) | BBreak m c => BBreak m (uc c) | BSwitch d b m c => BSwitch d b m (uc c)
             | BErr e c => BErr e (uc c) | BPanic k c => BPanic k (uc c) end.
Definition amb_b (r : body_out) : Prop := match r with BErr (ParsingAmbiguity _) _ => True | _ => False end.
Definition map_l (r : loop_res) : loop_res :=
  match r with LEnd m c n => LEnd m (uc c) n | LSwitch d b m c => LSwitch d b m (uc c) | LErr e c => LErr e (uc c)
             | LPanic k c => LPanic k (uc c) | LFuel c => LFuel (uc c) end.
Definition amb_l (r : loop_res) : Prop := match r with LErr (ParsingAmbiguity _) _ => True | _ => False end.
Definition map_p (r : parse_res) : parse_res :=
  match r with POk p c n => POk p (uc c) n | PErr e c => PErr e (uc c) | PPanic k c => PPanic k (uc c) | PFuel c => PFuel (uc c) end.
Definition amb_p (r : parse_res) : Prop := match r with PErr (ParsingAmbiguity _) _ => True | _ => False end.

Notation run_alist := (run_alist ctl input base).
Notation try_seq_arms := (try_seq_arms ctl input base).
Notation try_arms := (try_arms ctl input base).
Notation body_iter := (body_iter ctl input base).
Notation run_loop := (run_loop ctl input base).
Notation parse_loop := (parse_loop ctl input base).

Lemma e_transition tr m c : do_transition tr m (uc c) = map_r (do_transition tr m c).
Proof. destruct tr; reflexivity. Qed.
Lemma e_run_alist : forall al m c, run_alist al m (uc c) = map_r (run_alist al m c) \/ amb_r (run_alist al m c).
Proof.
  induction al as [acts tr|cd t IHt e IHe]; intros m c; cbn [Machine.run_alist].
  - destruct (e_do_actions acts m c) as [E|A].
    + rewrite E. left. destruct (do_actions acts m c); cbn [map_a]; [apply e_transition | reflexivity | reflexivity | reflexivity].
    + right. destruct (do_actions acts m c) as [| |e c'|]; try contradiction. exact A.
  - destruct (eval_cond cd m); [apply IHt | apply IHe].
Qed.
Lemma e_of_arm o : of_arm (map_r o) = map_b (of_arm o).
Proof. destruct o; reflexivity. Qed.
Lemma amb_of_arm o : amb_r o -> amb_b (of_arm o).
Proof. destruct o; cbn; auto. Qed.
Lemma e_try_seq_arms : forall arms ch m c,
  (try_seq_arms arms ch m (uc c) = (fst (try_seq_arms arms ch m c), option_map map_b (snd (try_seq_arms arms ch m c))))
  \/ match snd (try_seq_arms arms ch m c) with Some o => amb_b o | None => False end.
Proof.
  induction arms as [|[p al] r IH]; intros ch m c; cbn [Machine.try_seq_arms]; [left; reflexivity|].
  destruct p as [| | | | | | |bsq ic|]; try apply IH.
  destruct (seq_match input bsq ic ch m) as [m'|m'|m'].
  - destruct (e_run_alist al m' c) as [E|A].
    + left. rewrite E, e_of_arm. reflexivity.
    + right. cbn [snd]. apply amb_of_arm. exact A.
  - left. reflexivity.
  - apply IH.
Qed.
Lemma e_try_arms : forall arms ch m c, try_arms arms ch m (uc c) = map_b (try_arms arms ch m c) \/ amb_b (try_arms arms ch m c).
Proof.
  induction arms as [|[p al] r IH]; intros ch m c; cbn [Machine.try_arms]; [left; reflexivity|].
  destruct p; try apply IH;
    (destruct (pat_matches _ ch m); [|apply IH]);
    try (destruct (e_run_alist al m c) as [E|A]; [left; rewrite E, e_of_arm; reflexivity | right; apply amb_of_arm; exact A]).
  - destruct (e_run_alist al m c) as [E|A]; [left; rewrite E; destruct (run_alist al m c); reflexivity|].
    right. destruct (run_alist al m c) as [| | |e c'|]; try contradiction. exact A.
  - destruct (is_last m); [|left; reflexivity].
    destruct (e_run_alist al m c) as [E|A]; [left; rewrite E; destruct (run_alist al m c); reflexivity|].
    right. destruct (run_alist al m c) as [| | |e c'|]; try contradiction. exact A.
Qed.
Lemma e_body_iter sd m c : body_iter sd m (uc c) = map_b (body_iter sd m c) \/ amb_b (body_iter sd m c).
Proof.
  unfold Machine.body_iter. destruct (memchr_of (sd_arms sd)).
  - destruct (find_from input n (next_pos m) (S (length input))); apply e_try_arms.
  - destruct (e_try_seq_arms (sd_arms sd) (getb input (next_pos m)) (set_pos m (S (next_pos m))) c) as [E|A].
    + rewrite E. destruct (try_seq_arms (sd_arms sd) (getb input (next_pos m)) (set_pos m (S (next_pos m))) c) as [m'' [o|]]; cbn [fst snd option_map]; [left; reflexivity | apply e_try_arms].
    + right. destruct (try_seq_arms (sd_arms sd) (getb input (next_pos m)) (set_pos m (S (next_pos m))) c) as [m'' [o|]]; cbn [snd] in A; [exact A | contradiction].
Qed.

Lemma e_run_loop : forall fuel m c, run_loop fuel m (uc c) = map_l (run_loop fuel m c) \/ amb_l (run_loop fuel m c).
Proof.
  induction fuel as [|f IH]; intros m c; cbn [Machine.run_loop]; [left; reflexivity|].
  set (sd := table (m_st (mode_of m))).
  set (r1 := fun c0 : ctx => if m_entered (mode_of m) then AOk m c0 else
                  match sd_enter sd with
                  | [] => AOk (set_state m (m_st (mode_of m)) true) c0
                  | acts => match do_actions acts (set_pos m (S (next_pos m))) c0 with
                            | AOk x c' => AOk (set_state (set_pos x (next_pos x - 1)) (m_st (mode_of x)) true) c'
                            | y => y end
                  end).
  change (match r1 (uc c) with
          | APanic k c' => LPanic k c' | AErr e c' => LErr e c' | ASwitch d b m' c' => LSwitch d b m' c'
          | AOk m1 c1 => match body_iter sd m1 c1 with
              | BContinue m2 c2 => run_loop f m2 c2
              | BBreak m2 c2 => let consumed := consumed_count input m2 in let m3 := if is_last m2 then m2 else adjust_for_next_input m2 in
                                if consumed <=? pos m3 then LEnd (set_pos m3 (pos m3 - consumed)) c2 consumed else LPanic 5 c2
              | BSwitch d b m2 c2 => LSwitch d b m2 c2 | BErr e c2 => LErr e c2 | BPanic k c2 => LPanic k c2 end end
          = map_l (match r1 c with
          | APanic k c' => LPanic k c' | AErr e c' => LErr e c' | ASwitch d b m' c' => LSwitch d b m' c'
          | AOk m1 c1 => match body_iter sd m1 c1 with
              | BContinue m2 c2 => run_loop f m2 c2
              | BBreak m2 c2 => let consumed := consumed_count input m2 in let m3 := if is_last m2 then m2 else adjust_for_next_input m2 in
                                if consumed <=? pos m3 then LEnd (set_pos m3 (pos m3 - consumed)) c2 consumed else LPanic 5 c2
              | BSwitch d b m2 c2 => LSwitch d b m2 c2 | BErr e c2 => LErr e c2 | BPanic k c2 => LPanic k c2 end end)
          \/ amb_l (match r1 c with
          | APanic k c' => LPanic k c' | AErr e c' => LErr e c' | ASwitch d b m' c' => LSwitch d b m' c'
          | AOk m1 c1 => match body_iter sd m1 c1 with
              | BContinue m2 c2 => run_loop f m2 c2
              | BBreak m2 c2 => let consumed := consumed_count input m2 in let m3 := if is_last m2 then m2 else adjust_for_next_input m2 in
                                if consumed <=? pos m3 then LEnd (set_pos m3 (pos m3 - consumed)) c2 consumed else LPanic 5 c2
              | BSwitch d b m2 c2 => LSwitch d b m2 c2 | BErr e c2 => LErr e c2 | BPanic k c2 => LPanic k c2 end end)).
  assert (H1 : r1 (uc c) = map_a (r1 c) \/ amb_a (r1 c)).
  { unfold r1. destruct (m_entered (mode_of m)); [left; reflexivity|]. destruct (sd_enter sd) as [|a acts]; [left; reflexivity|].
    destruct (e_do_actions (a :: acts) (set_pos m (S (next_pos m))) c) as [E|A].
    - left. rewrite E. destruct (do_actions (a :: acts) (set_pos m (S (next_pos m))) c); reflexivity.
    - right. destruct (do_actions (a :: acts) (set_pos m (S (next_pos m))) c) as [| |e c'|]; try contradiction. exact A. }
  destruct H1 as [E|A].
  - rewrite E. destruct (r1 c) as [m1 c1|d b m' c'|e c'|k c']; cbn [map_a]; try (left; reflexivity).
    destruct (e_body_iter sd m1 c1) as [E2|A2].
    + rewrite E2. destruct (body_iter sd m1 c1) as [m2 c2|m2 c2|d b m2 c2|e c2|k c2]; cbn [map_b]; try (left; reflexivity).
      * apply IH.
      * left. cbn zeta. destruct (_ <=? _); reflexivity.
    + right. destruct (body_iter sd m1 c1) as [| | |e c2|]; try contradiction. exact A2.
  - right. destruct (r1 c) as [| |e c'|]; try contradiction. exact A.
Qed.
Lemma e_parse_loop : forall fuel p c last start, parse_loop fuel p (uc c) last start = map_p (parse_loop fuel p c last start) \/ amb_p (parse_loop fuel p c last start).
Proof.
  induction fuel as [|f IH]; intros p c last start; cbn [Machine.parse_loop]; [left; reflexivity|].
  match goal with |- context [run_loop ?fu ?m1 (uc c)] => destruct (e_run_loop fu m1 c) as [E|A]; [rewrite E; destruct (run_loop fu m1 c) as [m c' n|d b m c'|e c'|k c'|c']; cbn [map_l]; try (left; reflexivity); apply IH |
      right; destruct (run_loop fu m1 c) as [| |e c'| |]; try contradiction; exact A] end.
Qed.
End M.

Section S.
Context {C : Type} (ctl : controller C).
Notation stream := (@stream C).
Definition ust (s : stream) : stream :=
  mkS (s_parser s) (uc (s_ctx s)) (s_arena s) (s_has_buf s) (s_prev s) (s_max_mem s) (s_bail_mem s) (s_bail_handler s).
Definition amb_c (r : call_res) : Prop := match r with CErr (ParsingAmbiguity _) => True | _ => False end.

Lemma e_with_disp s d : with_disp (ust s) d = ust (with_disp s d).
Proof. reflexivity. Qed.
Lemma e_bail s d e fl : bail ctl (ust s) d e fl = (ust (fst (bail ctl s d e fl)), snd (bail ctl s d e fl)).
Proof. unfold bail. cbn [ust should_bail_out_for s_bail_mem s_bail_handler]. unfold should_bail_out_for. destruct e; cbn; try destruct (s_bail_mem s); try destruct (s_bail_handler s); reflexivity. Qed.

Lemma e_write s data : write ctl (ust s) data = (ust (fst (write ctl s data)), snd (write ctl s data)) \/ amb_c (snd (write ctl s data)).
Proof.
  unfold write. cbn [ust s_ctx s_has_buf s_arena s_max_mem s_parser s_prev s_bail_mem s_bail_handler uc c_disp c_sim].
  destruct (if s_has_buf s then arena_append (s_arena s) (c_mem_usage ctl (d_ctl (c_disp (s_ctx s)))) (s_max_mem s) data else (s_arena s, true)) as [ar1 ok].
  destruct ok; cbn [negb].
  2: { left. match goal with |- bail ctl ?xa ?xb ?xc ?xd = _ => change xa with (ust (mkS (s_parser s) (s_ctx s) ar1 (s_has_buf s) (s_prev s) (s_max_mem s) (s_bail_mem s) (s_bail_handler s))) end. apply e_bail. }
  set (chunk := if s_has_buf s then ar_data ar1 else data).
  set (c0 := mkCtx (c_sim (s_ctx s)) (d_with_ext (c_disp (s_ctx s)) (ar_charged ar1))).
  change (mkCtx (us (c_sim (s_ctx s))) (d_with_ext (c_disp (s_ctx s)) (ar_charged ar1))) with (uc c0).
  destruct (e_parse_loop ctl chunk (s_prev s) (parse_fuel chunk) (s_parser s) c0 false None) as [E|A].
  - rewrite E. destruct (parse_loop ctl chunk (s_prev s) (parse_fuel chunk) (s_parser s) c0 false None) as [p c n|e c|k c|c]; cbn [map_p uc c_disp c_sim].
    + left. destruct (n <? length chunk); [|reflexivity]. destruct (s_has_buf s); [reflexivity|].
      destruct (arena_init_with ar1 _ (s_max_mem s) (skipn n data)) as [ar2 ok2]. destruct ok2; [reflexivity|].
      match goal with |- bail ctl ?xa ?xb ?xc ?xd = _ => change xa with (ust (mkS p (mkCtx (c_sim c) (flush_remaining_input (c_disp c) chunk n)) ar2 false (s_prev s + n) (s_max_mem s) (s_bail_mem s) (s_bail_handler s))) end.
      apply e_bail.
    + left. match goal with |- bail ctl ?xa ?xb ?xc ?xd = _ => change xa with (ust (mkS (s_parser s) (s_ctx s) ar1 (s_has_buf s) (s_prev s) (s_max_mem s) (s_bail_mem s) (s_bail_handler s))) end. apply e_bail.
    + left. reflexivity.
    + left. reflexivity.
  - right. destruct (parse_loop ctl chunk (s_prev s) (parse_fuel chunk) (s_parser s) c0 false None) as [|e c| |]; try contradiction.
    destruct e; try contradiction. unfold bail. cbn [should_bail_out_for snd]. exact I.
Qed.
Lemma e_finish s : finish ctl (ust s) = (ust (fst (finish ctl s)), snd (finish ctl s)) \/ amb_c (snd (finish ctl s)).
Proof.
  unfold finish. cbn [ust s_ctx s_has_buf s_arena s_max_mem s_parser s_prev s_bail_mem s_bail_handler uc c_disp c_sim].
  set (chunk := if s_has_buf s then ar_data (s_arena s) else []).
  set (c0 := mkCtx (c_sim (s_ctx s)) (d_with_ext (c_disp (s_ctx s)) (ar_charged (s_arena s)))).
  change (mkCtx (us (c_sim (s_ctx s))) (d_with_ext (c_disp (s_ctx s)) (ar_charged (s_arena s)))) with (uc c0).
  destruct (e_parse_loop ctl chunk (s_prev s) (parse_fuel chunk) (s_parser s) c0 true None) as [E|A].
  - rewrite E. destruct (parse_loop ctl chunk (s_prev s) (parse_fuel chunk) (s_parser s) c0 true None) as [p c n|e c|k c|c]; cbn [map_p uc c_disp c_sim].
    + left. destruct (c_end ctl _) as [[c' pieces] r]. destruct r; reflexivity.
    + left. change (mkS (s_parser s) (mkCtx (us (c_sim (s_ctx s))) (c_disp (s_ctx s))) (s_arena s) (s_has_buf s) (s_prev s) (s_max_mem s) (s_bail_mem s) (s_bail_handler s)) with (ust s). apply e_bail.
    + left. reflexivity.
    + left. reflexivity.
  - right. destruct (parse_loop ctl chunk (s_prev s) (parse_fuel chunk) (s_parser s) c0 true None) as [|e c| |]; try contradiction.
    destruct e; try contradiction. unfold bail. cbn [should_bail_out_for snd]. exact I.
Qed.

Definition urw (r : @rewriter C) : @rewriter C := mkRw (ust (rw_stream r)) (rw_poisoned r) (rw_ended r).
Definition not_amb (x : api_res) : Prop := match x with RErr (ParsingAmbiguity _) => False | _ => True end.
Lemma e_api_step r op : not_amb (snd (api_step ctl r op)) -> api_step ctl (urw r) op = (urw (fst (api_step ctl r op)), snd (api_step ctl r op)).
Proof.
  unfold api_step. cbn [urw rw_ended rw_poisoned rw_stream]. destruct (rw_ended r); [reflexivity|]. destruct (rw_poisoned r); [reflexivity|].
  destruct op as [d|].
  - destruct (e_write (rw_stream r) d) as [E|A].
    + rewrite E. destruct (write ctl (rw_stream r) d) as [s' res]. cbn [fst snd]. destruct res; reflexivity.
    + destruct (write ctl (rw_stream r) d) as [s' res]. cbn [snd] in A. destruct res as [|e|]; try contradiction. destruct e; try contradiction.
  - destruct (e_finish (rw_stream r)) as [E|A].
    + rewrite E. destruct (finish ctl (rw_stream r)) as [s' res]. cbn [fst snd]. destruct res; reflexivity.
    + destruct (finish ctl (rw_stream r)) as [s' res]. cbn [snd] in A. destruct res as [|e|]; try contradiction. destruct e; try contradiction.
Qed.
Lemma e_api_run : forall ops r, Forall not_amb (snd (api_run ctl r ops)) ->
  api_run ctl (urw r) ops = (urw (fst (api_run ctl r ops)), snd (api_run ctl r ops)).
Proof.
  induction ops as [|o rest IH]; intros r H; cbn [api_run] in *; [reflexivity|].
  destruct (api_step ctl r o) as [r1 x] eqn:E1. destruct (api_run ctl r1 rest) as [r2 xs] eqn:E2. cbn [fst snd] in *.
  inversion H as [|? ? Hx Hxs]; subst.
  pose proof (e_api_step r o) as Hs. rewrite E1 in Hs. cbn [fst snd] in Hs. rewrite (Hs Hx).
  pose proof (IH r1) as Hr. rewrite E2 in Hr. cbn [fst snd] in Hr. rewrite (Hr Hxs). reflexivity.
Qed.

Definition unstrict_cfg (cfg : settings) : settings :=
  mkSettings false (st_max_mem cfg) (st_prealloc cfg) (st_bail_mem cfg) (st_bail_handler cfg) (st_encoding cfg).
Lemma e_new cfg c0 : new_rewriter ctl (unstrict_cfg cfg) c0 = urw (new_rewriter ctl cfg c0).
Proof. reflexivity. Qed.

(* a run that never reports ParsingAmbiguity -- in particular a successful strict run -- is the non-strict run:
   same results, same sink calls, same controller state, same parser state *)
Theorem strict_run_without_ambiguity_is_the_non_strict_run cfg c0 ops :
  Forall not_amb (snd (api_run ctl (new_rewriter ctl cfg c0) ops)) ->
  api_run ctl (new_rewriter ctl (unstrict_cfg cfg) c0) ops =
  (urw (fst (api_run ctl (new_rewriter ctl cfg c0) ops)), snd (api_run ctl (new_rewriter ctl cfg c0) ops)).
Proof. intros H. rewrite e_new. apply e_api_run. exact H. Qed.
Corollary strict_success_same_sink_and_controller cfg c0 ops r res r' res' :
  api_run ctl (new_rewriter ctl cfg c0) ops = (r, res) -> Forall (fun x => x = ROk) res ->
  api_run ctl (new_rewriter ctl (unstrict_cfg cfg) c0) ops = (r', res') ->
  res' = res /\ rw_sink r' = rw_sink r /\ d_ctl (c_disp (s_ctx (rw_stream r'))) = d_ctl (c_disp (s_ctx (rw_stream r))).
Proof.
  intros E Hok E'. pose proof (strict_run_without_ambiguity_is_the_non_strict_run cfg c0 ops) as H. rewrite E in H. cbn [fst snd] in H.
  rewrite H in E'; [|eapply Forall_impl; [|exact Hok]; intros x ->; exact I]. injection E' as <- <-. auto.
Qed.
End S.
