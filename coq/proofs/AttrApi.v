(* C16: the attribute API of a start tag as list algebra: lookups are "first ASCII-case-insensitive match",
   set_attribute rewrites that match in place (or appends), remove_attribute deletes every match and keeps the order. *)
From LolModel Require Import Base Machine Selectors Rewriter.
From LolProofs Require Import TokenLaws.
From Coq Require Import Lia Bool List.
Import ListNotations.
Open Scope nat_scope.

Lemma eq_ci_is_ignore_case : forall a n, eq_ci a (lower_bytes n) = eq_ignore_case a n.
Proof.
  unfold lower_bytes. induction a as [|x a IH]; intros [|y n]; cbn [map eq_ci eq_ignore_case]; try reflexivity.
  rewrite IH. reflexivity.
Qed.
Lemma attr_matches_is_name_equality n a : attr_matches (lower_bytes n) a = eq_ignore_case (at_name a) n.
Proof. apply eq_ci_is_ignore_case. Qed.

Lemma find_first {A} (f : A -> bool) l x : find f l = Some x <->
  exists pre post, l = pre ++ x :: post /\ Forall (fun y => f y = false) pre /\ f x = true.
Proof.
  induction l as [|y l IH]; cbn [find].
  - split; [discriminate | intros [pre [post [E _]]]; destruct pre; discriminate].
  - destruct (f y) eqn:Ey.
    + split.
      * intros E. injection E as <-. exists [], l. repeat split; [constructor | exact Ey].
      * intros [pre [post [E [Hp Hx]]]]. destruct pre as [|p pre]; cbn in E; injection E as <- _; [reflexivity|].
        inversion Hp; subst. congruence.
    + rewrite IH. split.
      * intros [pre [post [-> [Hp Hx]]]]. exists (y :: pre), post. repeat split; [constructor; assumption | exact Hx].
      * intros [pre [post [E [Hp Hx]]]]. destruct pre as [|p pre]; cbn in E; injection E as <- E; [congruence|].
        inversion Hp; subst. exists pre, post. auto.
Qed.
Theorem get_attribute_returns_the_first_match t n v : attr_name_check (lower_bytes n) = None ->
  (stt_get_attr t n = Some v <->
   exists pre a post, stt_attrs t = pre ++ a :: post /\ Forall (fun x => eq_ignore_case (at_name x) n = false) pre /\
                      eq_ignore_case (at_name a) n = true /\ at_value a = v).
Proof.
  intros Hc. unfold stt_get_attr. rewrite Hc. split.
  - destruct (find _ _) as [a|] eqn:Ef; [|discriminate]. cbn. intros E. injection E as <-.
    apply find_first in Ef. destruct Ef as [pre [post [E [Hp Ha]]]]. exists pre, a, post. rewrite attr_matches_is_name_equality in Ha.
    repeat split; try assumption. eapply Forall_impl; [|exact Hp]. intros x Hx. rewrite <- attr_matches_is_name_equality. exact Hx.
  - intros [pre [a [post [E [Hp [Ha Hv]]]]]].
    assert (Ef : find (attr_matches (lower_bytes n)) (stt_attrs t) = Some a).
    { apply find_first. exists pre, post. repeat split; [exact E | | rewrite attr_matches_is_name_equality; exact Ha].
      eapply Forall_impl; [|exact Hp]. intros x Hx. rewrite attr_matches_is_name_equality. exact Hx. }
    rewrite Ef. cbn. rewrite Hv. reflexivity.
Qed.
Theorem get_attribute_none_iff_no_match t n : attr_name_check (lower_bytes n) = None ->
  (stt_get_attr t n = None <-> Forall (fun x => eq_ignore_case (at_name x) n = false) (stt_attrs t)).
Proof.
  intros Hc. unfold stt_get_attr. rewrite Hc. induction (stt_attrs t) as [|x l IH]; cbn [find]; [split; [constructor | reflexivity]|].
  rewrite attr_matches_is_name_equality. destruct (eq_ignore_case (at_name x) n) eqn:Ex.
  - cbn. split; [discriminate | intros H; inversion H; congruence].
  - rewrite IH. split; [intros H; constructor; assumption | intros H; inversion H; assumption].
Qed.

(* set_attribute: the first match is rewritten in place (its spelling of the name is kept), otherwise the attribute is
   appended with the lower-cased name; nothing else moves *)
Theorem set_attribute_in_place_or_append t n v t' : stt_set_attr t n v = inl t' ->
  (exists pre a post, stt_attrs t = pre ++ a :: post /\ Forall (fun x => eq_ignore_case (at_name x) n = false) pre /\
                      eq_ignore_case (at_name a) n = true /\ stt_attrs t' = pre ++ mkAt (at_name a) v None None :: post) \/
  (Forall (fun x => eq_ignore_case (at_name x) n = false) (stt_attrs t) /\ stt_attrs t' = stt_attrs t ++ [mkAt (lower_bytes n) v None None]).
Proof.
  unfold stt_set_attr. destruct (attr_name_check (lower_bytes n)); [discriminate|].
  match goal with |- context [let (l', found) := ?f (stt_attrs t) in _] => set (upd := f) end.
  assert (H : forall l,
    (snd (upd l) = true /\ exists pre a post, l = pre ++ a :: post /\ Forall (fun x => eq_ignore_case (at_name x) n = false) pre /\
                           eq_ignore_case (at_name a) n = true /\ fst (upd l) = pre ++ mkAt (at_name a) v None None :: post) \/
    (snd (upd l) = false /\ Forall (fun x => eq_ignore_case (at_name x) n = false) l)).
  { induction l as [|x l IH]; [right; split; [reflexivity | constructor]|]. cbn.
    destruct (attr_matches (lower_bytes n) x) eqn:Ex; rewrite attr_matches_is_name_equality in Ex.
    - left. split; [reflexivity|]. exists [], x, l. repeat split; [constructor | exact Ex].
    - destruct (upd l) as [r' f]. cbn [fst snd] in *. destruct IH as [[Hf [pre [a [post [E [Hp [Ha Hr]]]]]]]|[Hf Hall]].
      + left. split; [exact Hf|]. exists (x :: pre), a, post. rewrite E, Hr. repeat split; [constructor; assumption | exact Ha].
      + right. split; [exact Hf | constructor; assumption]. }
  destruct (H (stt_attrs t)) as [[Hf Hex]|[Hf Hall]]; destruct (upd (stt_attrs t)) as [l' found]; cbn [fst snd] in *; subst found;
    intros E; injection E as <-; cbn [stt_attrs]; [left; exact Hex | right; auto].
Qed.
(* remove_attribute deletes every attribute of that name and keeps the others in order *)
Theorem remove_attribute_filters t n : attr_name_check (lower_bytes n) = None ->
  stt_attrs (stt_remove_attr t n) = filter (fun a => negb (eq_ignore_case (at_name a) n)) (stt_attrs t).
Proof.
  intros Hc. unfold stt_remove_attr. rewrite Hc.
  assert (Hf : filter (fun a => negb (attr_matches (lower_bytes n) a)) (stt_attrs t) = filter (fun a => negb (eq_ignore_case (at_name a) n)) (stt_attrs t)).
  { apply filter_ext. intros a. rewrite attr_matches_is_name_equality. reflexivity. }
  destruct (_ =? _) eqn:El; [|cbn [stt_attrs]; exact Hf].
  apply Nat.eqb_eq, filter_same_length in El. rewrite <- Hf, El. reflexivity.
Qed.
(* an invalid name is refused by all three and changes nothing *)
Theorem invalid_attribute_names_are_inert t n v e : attr_name_check (lower_bytes n) = Some e ->
  stt_get_attr t n = None /\ stt_set_attr t n v = inr e /\ stt_remove_attr t n = t.
Proof. intros Hc. unfold stt_get_attr, stt_set_attr, stt_remove_attr. rewrite Hc. auto. Qed.
