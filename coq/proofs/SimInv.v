(* The tree builder simulator's namespace stack: for EVERY sequence of simulator calls that follows the request protocol
   (start tag / end tag feedback; a RequestLexeme answered by the lexeme callback) the stack is never empty, its top is
   current_ns and its bottom is the HTML namespace -- so `leave_ns`'s
   debug_assert!(false, "Namespace stack should always have at least one item") is unreachable (C15), also through the
   breakout path that leaves all directly nested foreign roots (leave_foreign_content, fix F16). *)
From LolGen Require Import Constants TagTables.
From LolModel Require Import Base TreeBuilder.
From LolSpec Require Import Whatwg.
From Coq Require Import String.
From Coq Require Import List Bool NArith Lia.
Import ListNotations.

Definition SInv (s : sim) : Prop :=
  exists r, ns_stack s = cur_ns s :: r /\ last (ns_stack s) Html = Html.

Lemma SInv_init b : SInv (init_sim b).
Proof. exists []. split; reflexivity. Qed.

Lemma ns_eqb_eq a b : ns_eqb a b = true <-> a = b.
Proof. destruct a, b; cbn; split; intro H; try reflexivity; discriminate. Qed.

Lemma foreign_has_two s : SInv s -> cur_ns s <> Html -> exists b r, ns_stack s = cur_ns s :: b :: r.
Proof.
  intros [r [E L]] Hf. destruct r as [|b r]; [|exists b, r; exact E].
  rewrite E in L. cbn in L. contradiction.
Qed.

Lemma last_cons2 (a b : ns) r d : last (a :: b :: r) d = last (b :: r) d.
Proof. reflexivity. Qed.

Lemma drop_foreign_eq a b c r :
  drop_foreign (a :: b :: c :: r) = if ns_eqb b Html then a :: b :: c :: r else drop_foreign (b :: c :: r).
Proof. reflexivity. Qed.
Lemma drop_foreign_two : forall st a b r, st = a :: b :: r ->
  exists a' b' r', drop_foreign st = a' :: b' :: r' /\ last (drop_foreign st) Html = last st Html.
Proof.
  induction st as [|x st IH]; intros a b r E; [discriminate|].
  injection E as -> ->.
  destruct r as [|c r]; [exists a, b, []; split; reflexivity|].
  rewrite drop_foreign_eq. destruct (ns_eqb b Html).
  - exists a, b, (c :: r). split; reflexivity.
  - destruct (IH b c r eq_refl) as [a' [b' [r' [E1 E2]]]]. exists a', b', r'. split; [exact E1|].
    rewrite E2. reflexivity.
Qed.

Lemma SInv_enter s n : SInv s -> SInv (fst (enter_ns s n)).
Proof.
  intros [r [E L]]. unfold enter_ns. cbn [fst ns_stack cur_ns]. exists (ns_stack s). split; [reflexivity|].
  rewrite E in *. exact L.
Qed.

Lemma SInv_leave s b r : ns_stack s = cur_ns s :: b :: r -> last (ns_stack s) Html = Html -> SInv (fst (leave_ns s)).
Proof.
  intros E L. unfold leave_ns. rewrite E. cbn [tl fst]. exists r. cbn [ns_stack cur_ns]. split; [reflexivity|].
  rewrite E in L. exact L.
Qed.

Lemma SInv_leave_any s a b r : ns_stack s = a :: b :: r -> last (ns_stack s) Html = Html -> SInv (fst (leave_ns s)).
Proof.
  intros E L. unfold leave_ns. rewrite E. cbn [tl fst]. exists r. cbn [ns_stack cur_ns]. split; [reflexivity|].
  rewrite E in L. exact L.
Qed.

Lemma SInv_leave_foreign s : SInv s -> cur_ns s <> Html -> SInv (fst (leave_foreign s)).
Proof.
  intros Hs Hf. destruct (foreign_has_two s Hs Hf) as [b [r E]]. destruct Hs as [r0 [_ L]].
  destruct (drop_foreign_two _ _ _ _ E) as [a' [b' [r' [E1 E2]]]].
  unfold leave_foreign. eapply SInv_leave_any; cbn [ns_stack]; [exact E1|]. rewrite E2. exact L.
Qed.

(* which requests may be pending in which simulator state *)
Definition req_ok (k : req_kind) (s : sim) : Prop :=
  match k with
  | RqFont => cur_ns s <> Html
  | RqAnnotationEnd => exists a b r, ns_stack s = a :: b :: r
  | _ => True
  end.
Definition fb_ok (f : feedback) (s : sim) : Prop := match f with FbRequest k => req_ok k s | _ => True end.

Lemma neg_html s : negb (ns_eqb (cur_ns s) Html) = true -> cur_ns s <> Html.
Proof. intros H E. rewrite E in H. discriminate. Qed.

Lemma SInv_guard s g : SInv s -> SInv (mkSim (ns_stack s) (cur_ns s) g (strict s)).
Proof. intros [r [E L]]. exists r. split; assumption. Qed.

Lemma SInv_start_foreign s h : SInv s -> cur_ns s <> Html ->
  SInv (fst (fb_start_foreign s h)) /\ fb_ok (snd (fb_start_foreign s h)) (fst (fb_start_foreign s h)).
Proof.
  intros Hs Hf. unfold fb_start_foreign.
  destruct (causes_foreign_content_exit h).
  { split; [apply SInv_leave_foreign; assumption|]. unfold leave_foreign, leave_ns. destruct (tl _); exact I. }
  destruct (is_ip_enter s h); [split; [exact Hs|exact I]|].
  destruct (tt_at tt_get_feedback_for_start_tag_in_foreign_content 0 h); [split; [exact Hs|exact Hf]|].
  destruct (_ && _); split; try exact Hs; exact I.
Qed.

Lemma SInv_start s h s' f : SInv s -> fb_start s h = Some (s', f) -> SInv s' /\ fb_ok f s'.
Proof.
  intros Hs. unfold fb_start.
  destruct (if strict s then guard_track_start (guard s) h else Some (guard s)) as [g|]; [|discriminate].
  pose proof (SInv_guard s g Hs) as Hg. set (s1 := mkSim (ns_stack s) (cur_ns s) g (strict s)) in *.
  intro E. injection E as E.
  pose proof (f_equal fst E) as E1; pose proof (f_equal snd E) as E2; cbn [fst snd] in E1, E2; subst s' f. clear E.
  destruct (tt_at tt_get_feedback_for_start_tag 0 h); [split; [apply SInv_enter; exact Hg|exact I]|].
  destruct (tt_at tt_get_feedback_for_start_tag 1 h); [split; [apply SInv_enter; exact Hg|exact I]|].
  destruct (negb (ns_eqb (cur_ns s) Html)) eqn:Hn; [apply SInv_start_foreign; [exact Hg|exact (neg_html s Hn)]|].
  cbn [fst snd]. split; [exact Hg|].
  unfold text_type_adjust. repeat match goal with |- context [if ?b then _ else _] => destruct b end; exact I.
Qed.

Lemma SInv_end s h : SInv s -> SInv (fst (fb_end s h)) /\ fb_ok (snd (fb_end s h)) (fst (fb_end s h)).
Proof.
  intros Hs. unfold fb_end.
  set (s1 := if strict s then _ else s).
  assert (Hg : SInv s1). { unfold s1. destruct (strict s) eqn:Es; [|exact Hs]. rewrite <- Es. apply (SInv_guard s _ Hs). }
  clearbody s1. clear Hs s.
  destruct (ns_eqb (cur_ns s1) Html) eqn:Hh.
  - unfold check_ip_exit. destruct (ns_stack s1) as [|a [|prev r]] eqn:E; try (split; [exact Hg|exact I]).
    destruct (_ || _).
    { split; [|unfold leave_ns; destruct (tl _); exact I]. destruct Hg as [r0 [E0 L]]. eapply SInv_leave_any; [exact E|exact L]. }
    destruct (_ && _); split; try exact Hg; try exact I. exists a, prev, r. exact E.
  - assert (Hf : cur_ns s1 <> Html). { intro E. rewrite E in Hh. discriminate. }
    destruct (should_leave_ns s1 h); [|split; [exact Hg|exact I]].
    destruct (tt_at tt_should_leave_ns 2 h).
    { split; [apply SInv_leave_foreign; assumption|]. unfold leave_foreign, leave_ns. destruct (tl _); exact I. }
    destruct (foreign_has_two s1 Hg Hf) as [b [r E]]. destruct Hg as [r0 [_ L]].
    split; [eapply SInv_leave; eassumption|]. unfold leave_ns. destruct (tl _); exact I.
Qed.

Lemma SInv_request part k s t : SInv s -> req_ok k s ->
  SInv (fst (run_request part k s t)) /\ fb_ok (snd (run_request part k s t)) (fst (run_request part k s t)).
Proof.
  intros Hs Hk. unfold run_request.
  destruct k, t; try (split; [exact Hs|exact I]).
  - match goal with |- context [if ?b then _ else _] => destruct b end; split; try exact Hs; try exact I; apply SInv_enter; exact Hs.
  - match goal with |- context [if ?b then _ else _] => destruct b end; [|split; [exact Hs|exact I]].
    split; [apply SInv_leave_foreign; assumption|]. unfold leave_foreign, leave_ns. destruct (tl _); exact I.
  - repeat match goal with |- context [if ?b then _ else _] => destruct b end; split; try exact Hs; try exact I; apply SInv_enter; exact Hs.
  - match goal with |- context [if ?b then _ else _] => destruct b end; [|split; [exact Hs|exact I]].
    destruct Hk as [a [b [r E]]]. destruct Hs as [r0 [_ L]].
    split; [eapply SInv_leave_any; eassumption|]. unfold leave_ns. destruct (tl _); exact I.
Qed.

(* ---- every sequence of simulator calls that follows the request protocol ---- *)
Inductive sim_ev := EvStart (h : N) | EvEnd (h : N) | EvLexeme (t : tag_outline).
Definition pend (f : feedback) : option req_kind := match f with FbRequest k => Some k | _ => None end.
Definition sim_step (part : range -> bytes) (st : sim * option req_kind) (ev : sim_ev) : option (sim * option req_kind) :=
  match ev, snd st with
  | EvStart h, None => match fb_start (fst st) h with None => None | Some (s', f) => Some (s', pend f) end
  | EvEnd h, None => Some (fst (fb_end (fst st) h), pend (snd (fb_end (fst st) h)))
  | EvLexeme t, Some k => Some (fst (run_request part k (fst st) t), pend (snd (run_request part k (fst st) t)))
  | _, _ => None
  end.
Fixpoint sim_run part (st : sim * option req_kind) (evs : list sim_ev) : option (sim * option req_kind) :=
  match evs with
  | [] => Some st
  | ev :: r => match sim_step part st ev with None => None | Some st' => sim_run part st' r end
  end.
Definition J (st : sim * option req_kind) : Prop :=
  SInv (fst st) /\ match snd st with Some k => req_ok k (fst st) | None => True end.

Lemma pend_ok f s : fb_ok f s -> match pend f with Some k => req_ok k s | None => True end.
Proof. destruct f; cbn; auto. Qed.

Lemma J_step part st ev st' : J st -> sim_step part st ev = Some st' -> J st'.
Proof.
  intros [Hs Hp]. destruct st as [s p]. cbn [fst snd] in *. unfold sim_step. cbn [fst snd].
  destruct ev as [h|h|t], p as [k|]; try discriminate.
  - destruct (fb_start s h) as [[s1 f]|] eqn:E; [|discriminate]. intro X. injection X as <-.
    destruct (SInv_start s h s1 f Hs E) as [A B]. split; [exact A|apply pend_ok; exact B].
  - intro X. injection X as <-. destruct (SInv_end s h Hs) as [A B]. split; [exact A|apply pend_ok; exact B].
  - intro X. injection X as <-. destruct (SInv_request part k s t Hs Hp) as [A B]. split; [exact A|apply pend_ok; exact B].
Qed.

Theorem namespace_stack_invariant : forall part evs st st', J st -> sim_run part st evs = Some st' -> J st'.
Proof.
  intros part evs. induction evs as [|ev r IH]; intros st st' HJ; cbn [sim_run].
  - intro E. injection E as <-. exact HJ.
  - destruct (sim_step part st ev) as [st1|] eqn:E; [|discriminate]. intro R. exact (IH st1 st' (J_step part st ev st1 HJ E) R).
Qed.

Theorem namespace_stack_never_empty : forall part strict evs s p,
  sim_run part (init_sim strict, None) evs = Some (s, p) ->
  exists r, ns_stack s = cur_ns s :: r /\ last (ns_stack s) Html = Html.
Proof.
  intros part strict evs s p R.
  assert (HJ : J (init_sim strict, None)) by (split; [apply SInv_init|exact I]).
  destruct (namespace_stack_invariant part evs _ _ HJ R) as [A _]. exact A.
Qed.

Local Open Scope string_scope.
Definition h (s : string) : N := hash_of (bs s).
(* not vacuous: <svg><math><math><i> leaves both math roots and the svg root at once; </math> afterwards changes nothing *)
Example stack_example :
  match sim_run (fun _ => []) (init_sim false, None) [EvStart (h "svg"); EvStart (h "math"); EvStart (h "math")] with
  | Some (s, _) => ns_stack s = [MathML; MathML; Svg; Html] | None => False end /\
  match sim_run (fun _ => []) (init_sim false, None) [EvStart (h "svg"); EvStart (h "math"); EvStart (h "math"); EvStart (h "i"); EvEnd (h "math")] with
  | Some (s, _) => ns_stack s = [Html] | None => False end.
Proof. vm_compute. split; reflexivity. Qed.
