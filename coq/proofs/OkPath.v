(* Generic success-path invariant theorem: a predicate I on dispatcher states that is preserved by
   the primitive field updates and by every controller operation *when that operation succeeds*
   holds after every machine function that returns successfully -- for every input, chunk, fuel.
   Error outcomes are unconstrained (the rewriter is poisoned afterwards).  Used for the memory
   limit (C10) and for controller-level invariants. *)
From LolModel Require Import Machine.
Open Scope nat_scope.

Section OkPath.
Context {C : Type} (ctl : controller C).
Notation disp := (@disp C).
Variable I : disp -> Prop.
Hypothesis I_rcs : forall d v, I d -> I (d_with_rcs d v).
Hypothesis I_flags : forall d v, I d -> I (d_with_flags d v).
Hypothesis I_emission : forall d v, I d -> I (d_with_emission d v).
Hypothesis I_hint : forall d v, I d -> I (d_with_hint d v).
Hypothesis I_req : forall d v, I d -> I (d_with_req d v).
Hypothesis I_td : forall d p s, I d -> I (d_with_td d p s).
Hypothesis I_tt : forall d v, I d -> I (d_with_tt d v).
Hypothesis I_push : forall d b, I d -> I (sink_push d b).
(* controller operations, success outcomes only *)
Hypothesis I_start : forall d n h x c' r, I d -> c_start_tag ctl (d_ctl d) (d_ext_usage d) n h x = (c', r) ->
  match r with SErr _ => True | _ => I (d_with_ctl d c') end.
Hypothesis I_aux : forall d a sc c' f, I d -> c_aux_info ctl (d_ctl d) (d_ext_usage d) a sc = (c', FOk f) -> I (d_with_ctl d c').
Hypothesis I_endtag : forall d n h c' f, I d -> c_end_tag ctl (d_ctl d) n h = (c', f) -> I (d_with_ctl d c').
Hypothesis I_token : forall d t c' ps, I d -> c_token ctl (d_ctl d) t = (c', OOk ps) -> I (d_with_ctl d c').

Lemma I_push_nonempty d b : I d -> I (sink_push_nonempty d b).
Proof. destruct b; cbn; auto. Qed.
Lemma I_pieces ps : forall d, I d -> I (sink_pieces d ps).
Proof. unfold sink_pieces. induction ps as [|p ps IH]; intros d H; cbn; auto using I_push_nonempty. Qed.

Definition okd {A} (proj : A -> disp) (r : @dres C A) : Prop := match r with DOk a => I (proj a) | _ => True end.
Notation ok1 := (okd (fun x : disp => x)).
Notation ok2 := (okd (fun x : disp * directive => fst x)).

Section Chunk.
Variable input : bytes.
Variable base : nat.

Lemma emit_chunk_before_ok d raw : I d -> ok1 (emit_chunk_before_lexeme input d raw).
Proof.
  intro H. unfold emit_chunk_before_lexeme. destruct (_ && _); cbn; auto.
  destruct (d_emission d); auto using I_rcs, I_push_nonempty.
Qed.
Lemma token_produced_ok d t : I d -> ok1 (token_produced ctl d t).
Proof.
  intro H. unfold token_produced. destruct (c_token ctl (d_ctl d) t) as [c' r] eqn:E. destruct r; cbn; auto.
  pose proof (I_token _ _ _ _ H E) as H'. destruct (d_emission _); auto using I_pieces.
Qed.
Lemma flush_pending_text_ok d : I d -> ok1 (flush_pending_text ctl d).
Proof.
  intro H. unfold flush_pending_text. destruct (d_td_pending d); [|cbn; auto].
  pose proof (token_produced_ok d (TText (d_last_tt d) [] true (mkR (d_td_start d) (d_td_start d))) H) as H1.
  destruct (token_produced _ _ _); cbn in *; auto.
Qed.
Lemma feed_text_ok d ty raw : I d -> ok1 (feed_text ctl input base d ty raw).
Proof.
  intro H. unfold feed_text.
  match goal with |- context [token_produced ctl d ?t] => pose proof (token_produced_ok d t H) as H1; destruct (token_produced ctl d t) end;
    cbn in *; auto.
Qed.
Lemma apply_hint_flags_ok d f : I d -> I (fst (apply_hint_flags d f)).
Proof. intro H. unfold apply_hint_flags; cbn. auto. Qed.
Lemma hint_start_ok d name h n : I d -> ok2 (hint_start ctl d name h n).
Proof.
  intro H. unfold hint_start. destruct (c_start_tag _ _ _ _ _ _) as [c' r] eqn:E.
  pose proof (I_start _ _ _ _ _ _ H E) as H'. destruct r; cbn; auto using apply_hint_flags_ok.
Qed.
Lemma hint_end_ok d name h : I d -> ok2 (hint_end ctl d name h).
Proof.
  intro H. unfold hint_end. pose proof (flush_pending_text_ok d H) as H0.
  destruct (flush_pending_text ctl d) as [d0| |]; cbn in *; auto.
  destruct (c_end_tag _ _ _ _) as [c' f] eqn:E. cbn. apply apply_hint_flags_ok. eapply I_endtag; eauto.
Qed.
Lemma adjust_capture_flags_ok d t : I d -> ok1 (adjust_capture_flags ctl input base d t).
Proof.
  intro H. unfold adjust_capture_flags. destruct (d_pending_req d).
  - destruct t; cbn; auto.
    destruct (c_aux_info _ _ _ _ _) as [c' r] eqn:E; destruct r; cbn; auto.
    apply I_flags. eapply (I_aux (d_with_req d false)); eauto.
  - destruct t.
    + destruct (c_start_tag _ _ _ _ _ _) as [c' r] eqn:E. pose proof (I_start _ _ _ _ _ _ H E) as H'.
      destruct r; cbn; auto.
      destruct (c_aux_info _ _ _ _ _) as [c'' r2] eqn:E2; destruct r2; cbn; auto.
      apply I_flags. eapply (I_aux (d_with_ctl d c')); eauto.
    + destruct (c_end_tag _ _ _ _) as [c' f] eqn:E; cbn. apply I_flags. eapply I_endtag; eauto.
Qed.
Lemma produce_token_ok d raw t : I d -> ok1 (produce_token ctl input d raw t).
Proof.
  intro H. unfold produce_token. pose proof (emit_chunk_before_ok d raw H) as H1.
  destruct (emit_chunk_before_lexeme input d raw) as [d1| |]; cbn in *; auto.
  pose proof (token_produced_ok d1 t H1) as H2. destruct (token_produced ctl d1 t); cbn in *; auto.
  unfold consume_lexeme. auto.
Qed.
Lemma tag_to_token_ok d raw t : I d -> I (fst (tag_to_token input base d raw t)).
Proof. intro H. unfold tag_to_token. destruct t; destruct (has_flag _ _); cbn; auto. Qed.
Lemma handle_tag_ok d raw t : I d -> ok2 (handle_tag ctl input base d raw t).
Proof.
  intro H. unfold handle_tag. pose proof (flush_pending_text_ok d H) as H0.
  destruct (flush_pending_text ctl d) as [d0| |]; cbn in *; auto.
  assert (H1 : ok1 (if d_hint d0 then DOk (d_with_hint d0 false) else adjust_capture_flags ctl input base d0 t)).
  { destruct (d_hint d0); [cbn; auto | apply adjust_capture_flags_ok; auto]. }
  destruct (if d_hint d0 then _ else _) as [d1| |]; cbn in *; auto.
  set (d2 := match t with EndTagO _ _ => _ | _ => d1 end).
  assert (H2 : I d2).
  { subst d2. destruct t; auto. destruct (should_stop_removing ctl d1); auto. }
  pose proof (tag_to_token_ok d2 raw t H2) as H3. destruct (tag_to_token input base d2 raw t) as [d3 tok]. cbn in H3.
  assert (H4 : ok1 (match tok with Some tk => produce_token ctl input d3 raw tk | None => DOk d3 end)).
  { destruct tok; [apply produce_token_ok; auto | cbn; auto]. }
  destruct (match tok with Some tk => _ | None => _ end) as [d4| |]; cbn in *; auto.
Qed.
Lemma handle_non_tag_ok d raw t : I d -> ok1 (handle_non_tag ctl input base d raw t).
Proof.
  intro H. unfold handle_non_tag.
  assert (H0 : ok1 (match t with Some (TextO _) => DOk d | _ => flush_pending_text ctl d end)).
  { destruct t as [[| | |]|]; try (apply flush_pending_text_ok; auto). cbn; auto. }
  destruct (match t with Some (TextO _) => DOk d | _ => flush_pending_text ctl d end) as [d0| |]; cbn in *; auto.
  destruct t as [[ty|c|n p s f|]|]; cbn; auto.
  - destruct (has_flag _ _); cbn; auto.
    pose proof (emit_chunk_before_ok d0 raw H0) as H1. destruct (emit_chunk_before_lexeme input d0 raw) as [d1| |]; cbn in *; auto.
    pose proof (feed_text_ok (d_with_tt d1 ty) ty raw (I_tt _ _ H1)) as H2. destruct (feed_text _ _ _ _ _ _) as [d2| |]; cbn in *; auto.
    unfold consume_lexeme; auto.
  - destruct (has_flag _ _); cbn; auto. apply produce_token_ok; auto.
  - destruct (has_flag _ _); cbn; auto. apply produce_token_ok; auto.
Qed.

Notation ctx := (@ctx C).
Definition Ic (c : ctx) : Prop := I (c_disp c).
Definition oka (r : act_res) : Prop := match r with AOk _ c' | ASwitch _ _ _ c' => Ic c' | _ => True end.
Lemma of_dres_ctx_ok s m r : ok1 r -> oka (of_dres_ctx s m r).
Proof. destruct r; cbn; auto. Qed.
Lemma l_emit_nontag_ok l c e t : Ic c -> oka (l_emit_nontag ctl input base l c e t).
Proof. intro H. unfold l_emit_nontag. apply of_dres_ctx_ok, handle_non_tag_ok; auto. Qed.
Lemma l_emit_text_ok l c : Ic c -> oka (l_emit_text ctl input base l c).
Proof. intro H. unfold l_emit_text. destruct (_ <? _); [apply l_emit_nontag_ok; auto | cbn; auto]. Qed.
Lemma l_emit_eof_ok l c : Ic c -> oka (l_emit_eof ctl input base l c).
Proof. apply l_emit_nontag_ok. Qed.
Lemma then_lexer_ok r k : oka r -> (forall l c', Ic c' -> oka (k l c')) -> oka (then_lexer r k).
Proof. intros H Hk. destruct r as [m c'| | |]; cbn in *; auto. destruct m; cbn; auto. Qed.
Ltac dprod := match goal with |- context [match ?x with _ => _ end] => lazymatch type of x with (_ * _)%type => destruct x end end.
Lemma l_emit_tag_ok l c : Ic c -> oka (l_emit_tag ctl input base l c).
Proof.
  intro H. unfold l_emit_tag. destruct (b_tag (l_build l)) as [t|]; [|cbn; auto].
  match goal with |- oka (match ?x with Some _ => _ | None => _ end) => destruct x as [[s1 fbo]|] end; [|cbn; auto].
  repeat dprod.
  match goal with |- context [handle_tag ctl input base ?d ?raw ?tt] => pose proof (handle_tag_ok d raw tt H) as H1; destruct (handle_tag ctl input base d raw tt) as [[d' dir]| |] end;
    cbn in *; auto. destruct dir; cbn; auto.
Qed.
Lemma lexer_action_ok a l c : Ic c -> oka (lexer_action ctl input base a l c).
Proof.
  intro H. destruct a; cbn; auto;
    try (apply l_emit_text_ok; auto); try (apply l_emit_nontag_ok; auto); try (apply l_emit_tag_ok; auto);
    try (apply then_lexer_ok; [first [apply l_emit_text_ok; auto | apply l_emit_nontag_ok; auto] | intros; apply l_emit_eof_ok; auto]).
  all: try (destruct (b_tag (l_build l)) as [[| ]|]; cbn; auto).
Qed.
Lemma s_finish_tag_name_ok s c : Ic c -> oka (s_finish_tag_name ctl input s c).
Proof.
  intro H. unfold s_finish_tag_name. destruct (tag_start (s_tag s)); [|cbn; auto].
  match goal with |- oka (match ?x with Some _ => _ | None => _ end) => destruct x as [[sim' fb]|] end; [|cbn; auto].
  match goal with |- context [match ?x with _ => _ end] => lazymatch type of x with (_ * option feedback)%type => destruct x as [[t1 md1] unhandled] end end.
  destruct unhandled; [cbn; auto|].
  destruct (is_in_end_tag (s_tag s)).
  - match goal with |- context [hint_end ctl ?d ?n ?h] => pose proof (hint_end_ok d n h H) as H1; destruct (hint_end ctl d n h) as [[d' dir]| |] end;
      cbn in *; auto. destruct dir; cbn; auto.
  - match goal with |- context [hint_start ctl ?d ?n ?h ?x] => pose proof (hint_start_ok d n h x H) as H1; destruct (hint_start ctl d n h x) as [[d' dir]| |] end;
      cbn in *; auto. destruct dir; cbn; auto.
Qed.
Lemma scanner_action_ok a s c : Ic c -> oka (scanner_action ctl input a s c).
Proof. intro H. destruct a; cbn; auto. apply s_finish_tag_name_ok; auto. Qed.
Lemma do_action_ok a m c : Ic c -> oka (do_action ctl input base a m c).
Proof. destruct m; [apply lexer_action_ok | apply scanner_action_ok]. Qed.
Lemma do_actions_ok acts : forall m c, Ic c -> oka (do_actions ctl input base acts m c).
Proof.
  induction acts as [|a r IH]; intros m c H; cbn; auto.
  pose proof (do_action_ok a m c H) as H1. destruct (do_action ctl input base a m c); cbn in *; auto.
Qed.
Definition okarm (r : arm_out) : Prop := match r with Continue _ c' | Return _ c' | Switch _ _ _ c' => Ic c' | _ => True end.
Lemma run_alist_ok al : forall m c, Ic c -> okarm (run_alist ctl input base al m c).
Proof.
  induction al as [acts tr|cd t IHt e IHe]; intros m c H; cbn.
  - pose proof (do_actions_ok acts m c H) as H1. destruct (do_actions ctl input base acts m c); cbn in *; auto.
    destruct tr; cbn; auto.
  - destruct (eval_cond cd m); auto.
Qed.
Definition okb (r : body_out) : Prop := match r with BContinue _ c' | BBreak _ c' | BSwitch _ _ _ c' => Ic c' | _ => True end.
Lemma of_arm_ok r : okarm r -> okb (of_arm r).
Proof. destruct r; cbn; auto. Qed.
Lemma try_seq_arms_ok arms : forall ch m c, Ic c -> match snd (try_seq_arms ctl input base arms ch m c) with Some o => okb o | None => True end.
Proof.
  induction arms as [|[p al] r IH]; intros ch m c H; cbn; auto.
  destruct p; try (apply IH; auto).
  destruct (seq_match input bs ignore_case ch m); cbn; try (apply IH; auto); auto.
  apply of_arm_ok, run_alist_ok; auto.
Qed.
Lemma try_arms_ok arms : forall ch m c, Ic c -> okb (try_arms ctl input base arms ch m c).
Proof.
  induction arms as [|[p al] r IH]; intros ch m c H; cbn; auto.
  destruct p; try (apply IH; auto);
    (destruct (pat_matches _ ch m); [|apply IH; auto]);
    try (apply of_arm_ok, run_alist_ok; auto).
  - pose proof (run_alist_ok al m c H) as H1. destruct (run_alist ctl input base al m c); cbn in *; auto.
  - destruct (is_last m); [|cbn; auto].
    pose proof (run_alist_ok al m c H) as H1. destruct (run_alist ctl input base al m c); cbn in *; auto.
Qed.
Lemma body_iter_ok sd m c : Ic c -> okb (body_iter ctl input base sd m c).
Proof.
  intro H. unfold body_iter. destruct (memchr_of (sd_arms sd)).
  - destruct (find_from _ _ _ _); apply try_arms_ok; auto.
  - pose proof (try_seq_arms_ok (sd_arms sd) (getb input (next_pos m)) (set_pos m (S (next_pos m))) c H) as H1.
    destruct (try_seq_arms _ _ _ _ _ _ _) as [m'' [o|]]; cbn in *; auto. apply try_arms_ok; auto.
Qed.
Definition okl (r : loop_res) : Prop := match r with LEnd _ c' _ | LSwitch _ _ _ c' => Ic c' | _ => True end.
Lemma run_loop_ok fuel : forall m c, Ic c -> okl (run_loop ctl input base fuel m c).
Proof.
  induction fuel as [|f IH]; intros m c H; cbn [run_loop]; [cbn; auto|].
  match goal with |- okl (match ?r with AOk _ _ => _ | _ => _ end) => set (r1 := r) end.
  assert (H1 : oka r1).
  { subst r1. destruct (m_entered (mode_of m)); [cbn; auto|].
    destruct (sd_enter (table (m_st (mode_of m)))) as [|a acts] eqn:E; [cbn; auto|]. cbv beta iota.
    pose proof (do_actions_ok (a :: acts) (set_pos m (S (next_pos m))) c H) as H2.
    destruct (do_actions ctl input base (a :: acts) (set_pos m (S (next_pos m))) c); cbn in *; auto. }
  destruct r1 as [m1 c1| | |]; cbn [oka okl] in *; auto.
  pose proof (body_iter_ok (table (m_st (mode_of m))) m1 c1 H1) as H2.
  destruct (body_iter ctl input base (table (m_st (mode_of m))) m1 c1) as [m2 c2|m2 c2| | |]; cbn [okb okl] in *; auto.
  destruct (_ <=? _); cbn [okl]; auto.
Qed.
Definition okp (r : parse_res) : Prop := match r with POk _ c' _ => Ic c' | _ => True end.
Lemma parse_loop_ok fuel : forall p c last start, Ic c -> okp (parse_loop ctl input base fuel p c last start).
Proof.
  induction fuel as [|f IH]; intros p c last start H; cbn; auto.
  match goal with |- context [run_loop ctl input base ?fu ?m c] => pose proof (run_loop_ok fu m c H) as H1; destruct (run_loop ctl input base fu m c) end;
    cbn in *; auto.
Qed.
End Chunk.
End OkPath.
