(* C01 / C11 / C12(prefix) / C15(no slice panic): the bytes given to the sink during one Parser::parse
   call are exactly chunk[0 .. remaining_content_start), for EVERY observer controller (any capture-flag
   policy, any handler that does not mutate), every chunk, every interleaving of lexer and tag scanner.
   Generic in the transition table; the table-dependent side conditions are decided by vm_compute on the
   regenerated gen/StateTable.v (TableFacts below). *)
From LolModel Require Import Machine.
From Coq Require Import Lia.
Open Scope nat_scope.

Definition token_bytes (t : token) : bytes :=
  match t with
  | TStart _ _ _ _ _ raw _ | TEnd _ _ raw _ | TComment _ raw _ | TDoctype _ _ _ _ raw _ => raw
  | TText _ text _ _ => text
  end.

Section Tiling.
Context {C : Type} (ctl : controller C).
Notation disp := (@disp C).
(* observers: a handled token is re-emitted as its own bytes; content is never removed *)
Hypothesis obs_token : forall c t c' ps, c_token ctl c t = (c', OOk ps) -> List.concat ps = token_bytes t.
Hypothesis obs_emit : forall c, c_should_emit ctl c = true.

Definition sb (d : disp) : bytes := sink_bytes (rev (d_sink d)).
Lemma sb_push d b : sb (sink_push d b) = sb d ++ b.
Proof. unfold sb, sink_push, sink_bytes. cbn. rewrite flat_map_app. cbn. rewrite app_nil_r. reflexivity. Qed.
Lemma sb_push_nonempty d b : sb (sink_push_nonempty d b) = sb d ++ b.
Proof. destruct b; [cbn; rewrite app_nil_r; reflexivity | apply sb_push]. Qed.
Lemma sb_pieces ps : forall d, sb (sink_pieces d ps) = sb d ++ List.concat ps.
Proof.
  unfold sink_pieces. induction ps as [|p ps IH]; intro d; cbn; [rewrite app_nil_r; reflexivity|].
  rewrite IH, sb_push_nonempty, app_assoc. reflexivity.
Qed.

Lemma pn_emission (d : disp) b : d_emission (sink_push_nonempty d b) = d_emission d. Proof. destruct b; reflexivity. Qed.
Lemma pn_rcs (d : disp) b : d_rcs (sink_push_nonempty d b) = d_rcs d. Proof. destruct b; reflexivity. Qed.
Lemma pieces_emission ps : forall d : disp, d_emission (sink_pieces d ps) = d_emission d.
Proof. unfold sink_pieces. induction ps as [|p ps IH]; intro d; cbn; [reflexivity|]. rewrite IH. apply pn_emission. Qed.
Lemma pieces_rcs ps : forall d : disp, d_rcs (sink_pieces d ps) = d_rcs d.
Proof. unfold sink_pieces. induction ps as [|p ps IH]; intro d; cbn; [reflexivity|]. rewrite IH. apply pn_rcs. Qed.

Section Chunk.
Variable chunk : bytes.
Variable base : nat.
Variable S0 : bytes.     (* bytes in the sink when this parse call started *)

Definition T (d : disp) : Prop :=
  sb d = S0 ++ firstn (d_rcs d) chunk /\ d_rcs d <= length chunk /\ d_emission d = true.

Lemma firstn_split {A} (l : list A) : forall a b, a <= b -> firstn a l ++ firstn (b - a) (skipn a l) = firstn b l.
Proof.
  induction l as [|x l IH]; intros a b H.
  - rewrite !firstn_nil, skipn_nil, firstn_nil. reflexivity.
  - destruct a as [|a]; [cbn; rewrite Nat.sub_0_r; reflexivity|].
    destruct b as [|b]; [lia|]. cbn. rewrite IH by lia. reflexivity.
Qed.
Lemma firstn_sub a b : a <= b -> b <= length chunk -> firstn a chunk ++ sub chunk a b = firstn b chunk.
Proof. intros H1 _. unfold sub. apply firstn_split. exact H1. Qed.

(* ---- dispatcher ---- *)
Definition dT {A} (proj : A -> disp) (post : A -> Prop) (r : @dres C A) : Prop :=
  match r with DOk a => T (proj a) /\ post a | DErr _ d' => T d' | DPanic k _ => k = 11 end.

Lemma T_ctl d c : T d -> T (d_with_ctl d c). Proof. exact (fun H => H). Qed.

Lemma emit_chunk_before_T d raw :
  T d -> d_rcs d <= rs raw -> rs raw <= length chunk ->
  dT (fun x => x) (fun d' => d_rcs d' = rs raw) (emit_chunk_before_lexeme chunk d raw).
Proof.
  intros (Hs & Hr & He) H1 H2. unfold emit_chunk_before_lexeme.
  destruct (Nat.leb_spec (d_rcs d) (rs raw)); [|lia]. destruct (Nat.leb_spec (rs raw) (length chunk)); [|lia]. cbn.
  rewrite He. split; [|reflexivity]. split; [|split; [exact H2 | cbn; rewrite pn_emission; exact He]].
  cbn. change (sb (sink_push_nonempty d (sub chunk (d_rcs d) (rs raw))) = S0 ++ firstn (rs raw) chunk).
  rewrite sb_push_nonempty, Hs, <- app_assoc, firstn_sub by lia. reflexivity.
Qed.

(* a token whose bytes are chunk[rcs .. e) : after it the sink holds chunk[0 .. e) once rcs is moved to e *)
Lemma token_produced_T d t e :
  T d -> d_rcs d <= e -> e <= length chunk -> token_bytes t = sub chunk (d_rcs d) e ->
  match token_produced ctl d t with
  | DOk d' => T (d_with_rcs d' e)
  | DErr _ d' => T d'
  | DPanic k _ => k = 11
  end.
Proof.
  intros (Hs & Hr & He) H1 H2 Hb. unfold token_produced.
  destruct (c_token ctl (d_ctl d) t) as [c' r] eqn:E. destruct r; cbn.
  - change (d_emission (d_with_ctl d c')) with (d_emission d). rewrite He.
    split; [|split; [exact H2 | cbn; rewrite pieces_emission; exact He]]. cbn.
    change (sb (sink_pieces (d_with_ctl d c') pieces) = S0 ++ firstn e chunk).
    rewrite sb_pieces. change (sb (d_with_ctl d c')) with (sb d).
    rewrite Hs, (obs_token _ _ _ _ E), Hb, <- app_assoc, firstn_sub by lia. reflexivity.
  - split; [exact Hs | split; assumption].
Qed.
Lemma T_rcs_same (x : disp) r : d_rcs x = r -> T (d_with_rcs x r) -> T x.
Proof. intros E (H1 & H2 & H3). unfold T in *. cbn in *. rewrite E. auto. Qed.
Lemma token_produced_empty_T d t :
  T d -> token_bytes t = [] ->
  match token_produced ctl d t with DOk d' => T d' /\ d_rcs d' = d_rcs d | DErr _ d' => T d' | DPanic k _ => k = 11 end.
Proof.
  intros HT Hb. pose proof (token_produced_T d t (d_rcs d) HT (le_n _) (proj1 (proj2 HT))) as H.
  unfold sub in H. rewrite Nat.sub_diag in H. cbn in H. specialize (H Hb).
  unfold token_produced in *. destruct (c_token ctl (d_ctl d) t) as [c' r]. destruct r; cbn in *; [|exact H].
  destruct (d_emission d).
  - assert (E : d_rcs (sink_pieces (d_with_ctl d c') pieces) = d_rcs d) by (rewrite pieces_rcs; reflexivity).
    split; [apply (T_rcs_same _ _ E H) | exact E].
  - split; [apply (T_rcs_same _ (d_rcs d) eq_refl H) | reflexivity].
Qed.

Lemma flush_pending_text_T d :
  T d -> dT (fun x => x) (fun d' => d_rcs d' = d_rcs d) (flush_pending_text ctl d).
Proof.
  intro HT. unfold flush_pending_text. destruct (d_td_pending d); [|cbn; auto].
  pose proof (token_produced_empty_T d (TText (d_last_tt d) [] true (mkR (d_td_start d) (d_td_start d))) HT eq_refl) as H.
  destruct (token_produced _ _ _); cbn in *; auto.
Qed.

Lemma part_is_sub (r : range) : slice chunk r = sub chunk (rs r) (re r). Proof. reflexivity. Qed.

Lemma produce_token_T d raw t :
  T d -> d_rcs d <= rs raw -> rs raw <= re raw -> re raw <= length chunk -> token_bytes t = slice chunk raw ->
  dT (fun x => x) (fun d' => d_rcs d' = re raw) (produce_token ctl chunk d raw t).
Proof.
  intros HT H1 H2 H3 Hb. unfold produce_token.
  pose proof (emit_chunk_before_T d raw HT H1 ltac:(lia)) as H.
  destruct (emit_chunk_before_lexeme chunk d raw) as [d1| |]; cbn in *; auto.
  destruct H as [HT1 Hr1].
  pose proof (token_produced_T d1 t (re raw) HT1 ltac:(lia) H3) as H4. rewrite Hr1 in H4. specialize (H4 Hb).
  destruct (token_produced ctl d1 t); cbn in *; auto.
Qed.

Lemma feed_text_T d ty raw :
  T d -> d_rcs d = rs raw -> rs raw <= re raw -> re raw <= length chunk ->
  match feed_text ctl chunk base d ty raw with
  | DOk d' => T (d_with_rcs d' (re raw))
  | DErr _ d' => T d'
  | DPanic k _ => k = 11
  end.
Proof.
  intros HT H1 H2 H3. unfold feed_text.
  pose proof (token_produced_T d (TText ty (part chunk raw) false (abs_range base raw)) (re raw) HT ltac:(lia) H3) as H.
  rewrite H1 in H. specialize (H eq_refl).
  destruct (token_produced ctl d _); cbn in *; auto.
Qed.

Lemma hint_start_T d name h n : T d -> dT fst (fun x => d_rcs (fst x) = d_rcs d) (hint_start ctl d name h n).
Proof.
  intro HT. unfold hint_start. destruct (c_start_tag _ _ _ _ _ _) as [c' r]. destruct r; cbn; auto.
Qed.
Lemma hint_end_T d name h : T d -> dT fst (fun x => d_rcs (fst x) = d_rcs d) (hint_end ctl d name h).
Proof.
  intro HT. unfold hint_end. pose proof (flush_pending_text_T d HT) as H.
  destruct (flush_pending_text ctl d) as [d0| |]; cbn in *; auto. destruct H as [H0 Hr].
  destruct (c_end_tag _ _ _ _) as [c' f]. cbn. split; [exact H0 | exact Hr].
Qed.
Lemma adjust_capture_flags_T d t : T d -> dT (fun x => x) (fun d' => d_rcs d' = d_rcs d) (adjust_capture_flags ctl chunk base d t).
Proof.
  intro HT. unfold adjust_capture_flags. destruct (d_pending_req d).
  - destruct t; cbn.
    + destruct (c_aux_info _ _ _ _ _) as [c' r]; destruct r; cbn; auto.
    + (* an end tag while an info request is pending: ActionError::internal (code 11), not a slice panic *)
      reflexivity.
  - destruct t.
    + destruct (c_start_tag _ _ _ _ _ _) as [c' r]; destruct r; cbn; auto.
      destruct (c_aux_info _ _ _ _ _) as [c'' r2]; destruct r2; cbn; auto.
    + destruct (c_end_tag _ _ _ _) as [c' f]; cbn; auto.
Qed.

Lemma tag_to_token_T d raw t :
  T d -> T (fst (tag_to_token chunk base d raw t)) /\ d_rcs (fst (tag_to_token chunk base d raw t)) = d_rcs d
         /\ match snd (tag_to_token chunk base d raw t) with Some tk => token_bytes tk = slice chunk raw | None => True end.
Proof. intro HT. unfold tag_to_token. destruct t; destruct (has_flag _ _); cbn; auto. Qed.

Lemma handle_tag_T d raw t :
  T d -> d_rcs d <= rs raw -> rs raw <= re raw -> re raw <= length chunk ->
  dT fst (fun x => d_rcs (fst x) <= re raw) (handle_tag ctl chunk base d raw t).
Proof.
  intros HT H1 H2 H3. unfold handle_tag.
  pose proof (flush_pending_text_T d HT) as H0.
  destruct (flush_pending_text ctl d) as [d0| |]; cbn in *; auto. destruct H0 as [HT0 Hr0].
  assert (Ha : dT (fun x => x) (fun d' => d_rcs d' = d_rcs d0) (if d_hint d0 then DOk (d_with_hint d0 false) else adjust_capture_flags ctl chunk base d0 t)).
  { destruct (d_hint d0); [cbn; auto | apply adjust_capture_flags_T; exact HT0]. }
  destruct (if d_hint d0 then _ else _) as [d1| |]; cbn in *; auto. destruct Ha as [HT1 Hr1].
  assert (Hstop : should_stop_removing ctl d1 = false).
  { unfold should_stop_removing. destruct HT1 as (_ & _ & He). rewrite He. reflexivity. }
  assert (Hd2 : match t with EndTagO _ _ => if should_stop_removing ctl d1 then d_with_rcs (d_with_emission d1 true) (rs raw) else d1 | _ => d1 end = d1)
    by (destruct t; [reflexivity | rewrite Hstop; reflexivity]).
  rewrite Hd2.
  destruct (tag_to_token_T d1 raw t HT1) as (HT3 & Hr3 & Hb).
  destruct (tag_to_token chunk base d1 raw t) as [d3 tok]. cbn in HT3, Hr3, Hb.
  destruct tok as [tk|].
  - pose proof (produce_token_T d3 raw tk HT3 ltac:(lia) H2 H3 Hb) as Hp.
    destruct (produce_token ctl chunk d3 raw tk) as [d4| |]; cbn in *; auto. destruct Hp as [HT4 Hr4].
    split; [|lia]. destruct HT4 as (Hs & Hr & He). split; [exact Hs | split; [exact Hr | apply obs_emit]].
  - cbn. split; [|lia]. destruct HT3 as (Hs & Hr & He). split; [exact Hs | split; [exact Hr | apply obs_emit]].
Qed.

Lemma handle_non_tag_T d raw t :
  T d -> d_rcs d <= rs raw -> rs raw <= re raw -> re raw <= length chunk ->
  dT (fun x => x) (fun d' => d_rcs d' <= re raw) (handle_non_tag ctl chunk base d raw t).
Proof.
  intros HT H1 H2 H3. unfold handle_non_tag.
  assert (H0 : dT (fun x => x) (fun d' => d_rcs d' = d_rcs d) (match t with Some (TextO _) => DOk d | _ => flush_pending_text ctl d end)).
  { destruct t as [[| | |]|]; try (apply flush_pending_text_T; exact HT). cbn; auto. }
  destruct (match t with Some (TextO _) => DOk d | _ => flush_pending_text ctl d end) as [d0| |]; cbn in *; auto.
  destruct H0 as [HT0 Hr0].
  destruct t as [[ty|c|n p s f|]|]; cbn; try (split; [exact HT0 | lia]).
  - destruct (has_flag _ _); cbn; [|split; [exact HT0 | lia]].
    pose proof (emit_chunk_before_T d0 raw HT0 ltac:(lia) ltac:(lia)) as He.
    destruct (emit_chunk_before_lexeme chunk d0 raw) as [d1| |]; cbn in *; auto. destruct He as [HT1 Hr1].
    pose proof (feed_text_T (d_with_tt d1 ty) ty raw HT1 Hr1 H2 H3) as Hf.
    destruct (feed_text ctl chunk base (d_with_tt d1 ty) ty raw) as [d2| |]; cbn in *; auto.
  - destruct (has_flag _ _); cbn; [|split; [exact HT0 | lia]].
    pose proof (produce_token_T d0 raw (TComment (part chunk c) (part chunk raw) (abs_range base raw)) HT0 ltac:(lia) H2 H3 eq_refl) as Hp.
    destruct (produce_token ctl chunk d0 raw _) as [d4| |]; cbn in *; auto. destruct Hp; split; [assumption | lia].
  - destruct (has_flag _ _); cbn; [|split; [exact HT0 | lia]].
    match goal with |- context [produce_token ctl chunk d0 raw ?tk] => pose proof (produce_token_T d0 raw tk HT0 ltac:(lia) H2 H3 eq_refl) as Hp; destruct (produce_token ctl chunk d0 raw tk) as [d4| |] end;
      cbn in *; auto. destruct Hp; split; [assumption | lia].
Qed.

(* ------------------------------------------------------------------------------------------ *)
(* machine level                                                                               *)
Notation ctx := (@ctx C).
Notation len := (length chunk).
Definition rcs_of (c : ctx) : nat := d_rcs (c_disp c).
Definition Tc (c : ctx) : Prop := T (c_disp c).

Definition marks_ok (s : scanner) (r : nat) : Prop :=
  forall a, tag_start (s_tag s) = Some a -> r <= a /\ a <= len.
Definition seq_none (m : mach) : Prop := match m with MS s => ch_seq_start (s_tag s) = None | ML _ => True end.

(* after the byte (or end marker) of this iteration has been consumed *)
Definition Mid (valid strict : bool) (m : mach) (c : ctx) : Prop :=
  Tc c /\ 1 <= next_pos m /\ next_pos m <= len + 1 /\ (valid = true -> next_pos m <= len) /\ seq_none m /\
  match m with
  | ML l => rcs_of c <= lc_lexeme_start (l_cur l) /\
            (if strict then lc_lexeme_start (l_cur l) < lc_next (l_cur l) else lc_lexeme_start (l_cur l) <= lc_next (l_cur l))
  | MS s => rcs_of c < s_next s /\ marks_ok s (rcs_of c)
  end.
(* between iterations *)
Definition has_seq (sd : state_def) : bool := existsb (fun pa => match fst pa with P_seq _ _ => true | _ => false end) sd.(sd_arms).
Definition Bnd (m : mach) (c : ctx) : Prop :=
  Tc c /\ next_pos m <= len /\
  match m with
  | ML l => rcs_of c <= lc_lexeme_start (l_cur l) /\ lc_lexeme_start (l_cur l) <= lc_next (l_cur l)
  | MS s => rcs_of c <= s_next s /\ marks_ok s (rcs_of c) /\
            (ch_seq_start (s_tag s) = None \/ (m_entered (s_mode s) = true /\ has_seq (table (m_st (s_mode s))) = true))
  end.
Definition Bm_ok (b : bookmark) (c : ctx) : Prop := Tc c /\ rcs_of c <= bm_pos b /\ bm_pos b <= len.
(* a scanner that hands over to the lexer has no tag start and no sequence start recorded *)
Definition tags_none (s : scanner) : Prop := tag_start (s_tag s) = None /\ ch_seq_start (s_tag s) = None.
Definition sw_tags (d : directive) (m : mach) : Prop :=
  match m with MS s => tags_none s | ML _ => True end.
Definition seqst (m : mach) : Prop := m_entered (mode_of m) = true /\ has_seq (table (m_st (mode_of m))) = true.

Definition aT (valid strict' : bool) (r : act_res) : Prop :=
  match r with
  | AOk m' c' => Mid valid strict' m' c'
  | ASwitch d b m' c' => Bm_ok b c' /\ sw_tags d m'
  | AErr _ c' => Tc c'
  | APanic k _ => k <> 10 /\ k <> 5
  end.

Ltac split_mid := split; [|split; [|split; [|split; [|split]]]].
Lemma Mid_weaken valid m c : Mid valid true m c -> Mid valid false m c.
Proof.
  intros (H1 & H2 & H3 & H4 & H5 & H6). split_mid; auto. destruct m; auto. destruct H6; split; auto. lia.
Qed.

(* ---- lexer ---- *)
Lemma of_dres_ctx_T valid strict s (l : lexer) (c : ctx) e r :
  Mid valid strict (ML l) c ->
  e <= lc_next (l_cur l) -> (strict = true -> e < lc_next (l_cur l)) ->
  dT (fun x => x) (fun d' => d_rcs d' <= e) r ->
  aT valid strict (of_dres_ctx s (ML (l_with_ls l e)) r).
Proof.
  intros (H1 & H2 & H3 & H4 & H5 & H6 & H7) He Hs Hr.
  destruct r as [d'| |]; cbn in *; auto; [|subst; split; discriminate].
  destruct Hr as [HT Hle]. split_mid; auto. unfold rcs_of; cbn. split; [exact Hle|].
  destruct strict; [apply Hs; reflexivity | exact He].
Qed.

Inductive akind := KNeutral | KExcl | KIncl.
Definition kind_of (a : action) : akind :=
  match a with
  | A_emit_text | A_emit_text_and_eof | A_emit_current_token_and_eof | A_emit_raw_without_token_and_eof => KExcl
  | A_emit_current_token | A_emit_raw_without_token | A_emit_tag => KIncl
  | _ => KNeutral
  end.

Lemma Mid_build valid strict l b c : Mid valid strict (ML l) c -> Mid valid strict (ML (l_with_build l b)) c.
Proof. exact (fun H => H). Qed.

Lemma l_emit_excl_T valid l c t :
  Mid valid true (ML l) c -> aT valid true (l_emit_nontag ctl chunk base l c (lpos l) t).
Proof.
  intros HM. pose proof HM as (H1 & H2 & H3 & H4 & H5 & H6 & H7). cbn in H2, H3, H4, H7.
  unfold l_emit_nontag. apply (of_dres_ctx_T valid true _ l c (lpos l)); auto; unfold lpos; try lia.
  apply handle_non_tag_T; cbn; auto; unfold rcs_of in *; lia.
Qed.
Lemma l_emit_incl_T l c t :
  Mid true true (ML l) c -> aT true false (l_emit_nontag ctl chunk base l c (lpos l + 1) t).
Proof.
  intros HM. pose proof HM as (H1 & H2 & H3 & H4 & H5 & H6 & H7). cbn in H2, H3, H4, H7. specialize (H4 eq_refl).
  unfold l_emit_nontag. apply (of_dres_ctx_T true false _ l c (lpos l + 1)); auto using Mid_weaken; unfold lpos; try lia; try discriminate.
  apply handle_non_tag_T; cbn; auto; unfold rcs_of in *; lia.
Qed.
Lemma l_emit_text_T valid l c : Mid valid true (ML l) c -> aT valid true (l_emit_text ctl chunk base l c).
Proof. intro HM. unfold l_emit_text. destruct (_ <? _); [apply l_emit_excl_T; exact HM | exact HM]. Qed.
Lemma l_emit_eof_T valid l c : Mid valid true (ML l) c -> aT valid true (l_emit_eof ctl chunk base l c).
Proof. apply l_emit_excl_T. Qed.
Lemma then_lexer_T valid s1 s2 r k :
  aT valid s1 r -> (forall l c, Mid valid s1 (ML l) c -> aT valid s2 (k l c)) ->
  (forall m c, r = AOk m c -> exists l, m = ML l) ->
  aT valid s2 (then_lexer r k).
Proof.
  intros Hr Hk Hml. destruct r as [m c| | |]; cbn in *; auto.
  destruct (Hml m c eq_refl) as [l ->]. apply Hk. exact Hr.
Qed.
Lemma of_dres_is_lexer s l (r : @dres C disp) m (c : ctx) : of_dres_ctx s (ML l) r = AOk m c -> exists l', m = ML l'.
Proof. destruct r; cbn; intro E; inversion E; eauto. Qed.
Lemma l_emit_nontag_is_lexer l c e t m c' : l_emit_nontag ctl chunk base l c e t = AOk m c' -> exists l', m = ML l'.
Proof. unfold l_emit_nontag. apply of_dres_is_lexer. Qed.
Lemma l_emit_text_is_lexer l c m c' : l_emit_text ctl chunk base l c = AOk m c' -> exists l', m = ML l'.
Proof. unfold l_emit_text. destruct (_ <? _); [apply l_emit_nontag_is_lexer | intro E; inversion E; eauto]. Qed.

Lemma l_emit_tag_T l c : Mid true true (ML l) c -> aT true false (l_emit_tag ctl chunk base l c).
Proof.
  intros HM. pose proof HM as (H1 & H2 & H3 & H4 & H5 & H6 & H7). cbn in H2, H3, H4, H7. specialize (H4 eq_refl).
  unfold l_emit_tag. destruct (b_tag (l_build l)) as [t|]; [|cbn; split; discriminate].
  match goal with |- aT _ _ (match ?x with Some _ => _ | None => _ end) => destruct x as [[s1 fbo]|] end; [|cbn; exact H1].
  repeat match goal with |- context [match ?x with _ => _ end] => lazymatch type of x with (_ * _)%type => destruct x end end.
  match goal with |- context [handle_tag ctl chunk base ?d ?raw ?tt] =>
    pose proof (handle_tag_T d raw tt H1) as Hh; destruct (handle_tag ctl chunk base d raw tt) as [[d' dir]| |] end.
  - cbn in Hh. unfold lpos in *. destruct Hh as [HT' Hr']; unfold rcs_of in *; try lia.
    destruct dir; cbn.
    + split_mid; auto; cbn; try lia. unfold rcs_of; cbn. split; lia.
    + split; [|exact I]. split; [exact HT'|]. unfold rcs_of; cbn. lia.
  - cbn in *. unfold lpos in *. apply Hh; unfold rcs_of in *; lia.
  - cbn in *. unfold lpos in *. assert (code = 11) by (apply Hh; unfold rcs_of in *; lia). subst. split; discriminate.
Qed.

Lemma lexer_neutral_T valid strict a l c :
  kind_of a = KNeutral -> Mid valid strict (ML l) c -> aT valid strict (lexer_action ctl chunk base a l c).
Proof.
  intros Hk HM. destruct a; cbn in Hk; try discriminate; cbn; try exact HM.
  all: try (destruct (b_tag (l_build l)) as [[| ]|]; cbn; try exact HM; split; discriminate).
Qed.
Lemma lexer_excl_T valid a l c :
  kind_of a = KExcl -> Mid valid true (ML l) c -> aT valid true (lexer_action ctl chunk base a l c).
Proof.
  intros Hk HM. destruct a; cbn in Hk; try discriminate; cbn.
  - (* emit_current_token_and_eof *)
    eapply then_lexer_T; [apply (l_emit_excl_T valid (l_with_build l _) c); exact HM | intros; apply l_emit_eof_T; assumption | intros; eapply l_emit_nontag_is_lexer; eauto].
  - eapply then_lexer_T; [apply (l_emit_excl_T valid l c); exact HM | intros; apply l_emit_eof_T; assumption | intros; eapply l_emit_nontag_is_lexer; eauto].
  - apply l_emit_text_T; exact HM.
  - eapply then_lexer_T; [apply l_emit_text_T; exact HM | intros; apply l_emit_eof_T; assumption | intros; eapply l_emit_text_is_lexer; eauto].
Qed.
Lemma lexer_incl_T a l c :
  kind_of a = KIncl -> Mid true true (ML l) c -> aT true false (lexer_action ctl chunk base a l c).
Proof.
  intros Hk HM. destruct a; cbn in Hk; try discriminate; cbn.
  - apply (l_emit_incl_T (l_with_build l _) c); exact HM.
  - apply l_emit_incl_T; exact HM.
  - apply l_emit_tag_T; exact HM.
Qed.

(* ---- scanner: no action touches the sink or remaining_content_start, except through hints ---- *)
Lemma Mid_scanner_tag valid strict s t' c :
  Mid valid strict (MS s) c -> ch_seq_start t' = ch_seq_start (s_tag s) ->
  (forall a, tag_start t' = Some a -> rcs_of c <= a /\ a <= len) ->
  Mid valid strict (MS (s_with_tag s t')) c.
Proof.
  intros (H1 & H2 & H3 & H4 & H5 & H6 & H7) E Hm. split_mid; auto; cbn in *; try congruence; try (split; [exact H6 | exact Hm]).
Qed.
Lemma s_finish_tag_name_T valid strict s c :
  Mid valid strict (MS s) c -> aT valid strict (s_finish_tag_name ctl chunk s c).
Proof.
  intros HM. pose proof HM as (H1 & H2 & H3 & H4 & H5 & H6 & H7). cbn in H2, H3, H4, H5.
  unfold s_finish_tag_name. destruct (tag_start (s_tag s)) as [tstart|] eqn:Ets; [|cbn; split; discriminate].
  destruct (H7 tstart Ets) as [Hts1 Hts2].
  match goal with |- aT _ _ (match ?x with Some _ => _ | None => _ end) => destruct x as [[sim' fb]|] end; [|cbn; exact H1].
  match goal with |- context [match ?x with _ => _ end] => lazymatch type of x with (_ * option feedback)%type => destruct x as [[t1 md1] unhandled] eqn:Eu end end.
  assert (Ht1 : tag_start t1 = None /\ ch_seq_start t1 = ch_seq_start (s_tag s)).
  { destruct fb; inversion Eu; subst; cbn; auto. }
  destruct Ht1 as [Ht1a Ht1b].
  destruct unhandled.
  - cbn. split; [split; [exact H1|]; unfold rcs_of in *; cbn; lia|]. unfold tags_none; cbn. split; [exact Ht1a | rewrite Ht1b; exact H5].
  - 
    destruct (is_in_end_tag (s_tag s)).
    + match goal with |- context [hint_end ctl ?d ?n ?h] => pose proof (hint_end_T d n h H1) as Hh; destruct (hint_end ctl d n h) as [[d' dir]| |] end;
        cbn in Hh |- *; auto; [|subst; split; discriminate].
      destruct Hh as [HT' Hr']. destruct dir; cbn.
      * split; [split; [exact HT'|]; unfold rcs_of in *; cbn in *; lia|]. unfold tags_none; cbn. split; [exact Ht1a | rewrite Ht1b; exact H5].
      * split_mid; auto; cbn; [rewrite Ht1b; exact H5|]. unfold rcs_of in *; cbn in *. split; [lia|].
        intros a Ha. cbn in Ha. rewrite Ht1a in Ha. discriminate.
    + match goal with |- context [hint_start ctl ?d ?n ?h ?x] => pose proof (hint_start_T d n h x H1) as Hh; destruct (hint_start ctl d n h x) as [[d' dir]| |] end;
        cbn in Hh |- *; auto; [|subst; split; discriminate].
      destruct Hh as [HT' Hr']. destruct dir; cbn.
      * split; [split; [exact HT'|]; unfold rcs_of in *; cbn in *; lia|]. unfold tags_none; cbn. split; [exact Ht1a | rewrite Ht1b; exact H5].
      * split_mid; auto; cbn; [rewrite Ht1b; exact H5|]. unfold rcs_of in *; cbn in *. split; [lia|].
        intros a Ha. cbn in Ha. rewrite Ht1a in Ha. discriminate.
Qed.
Lemma scanner_action_T valid strict a s c :
  Mid valid strict (MS s) c -> aT valid strict (scanner_action ctl chunk a s c).
Proof.
  intros HM. pose proof HM as (H1 & H2 & H3 & H4 & H5 & H6 & H7). cbn in H2, H3, H4, H5.
  destruct a; cbn; try exact HM; try (apply s_finish_tag_name_T; exact HM);
    try (apply Mid_scanner_tag; [exact HM | reflexivity |
         cbn; first [exact H7 | intros a Ha; inversion Ha; subst; unfold spos, rcs_of in *; lia | intros a Ha; discriminate]]).
  destruct (getb chunk (spos s)); [apply Mid_scanner_tag; [exact HM | reflexivity | cbn; exact H7] | exact HM].
Qed.

Lemma scanner_action_is_scanner a s c m' c' : scanner_action ctl chunk a s c = AOk m' c' -> exists s', m' = MS s'.
Proof.
  destruct a; cbn; try (intro E; inversion E; eauto; fail);
    try (destruct (getb chunk (spos s)); intro E; inversion E; eauto; fail).
  unfold s_finish_tag_name. destruct (tag_start (s_tag s)); [|discriminate].
    match goal with |- (match ?x with Some _ => _ | None => _ end) = _ -> _ => destruct x as [[sim' fb]|] end; [|discriminate].
    match goal with |- context [match ?x with _ => _ end] => lazymatch type of x with (_ * option feedback)%type => destruct x as [[t1 md1] unhandled] end end.
    destruct unhandled; [discriminate|].
    destruct (is_in_end_tag (s_tag s)).
    - destruct (hint_end _ _ _ _) as [[d' dir]| |]; try discriminate. destruct dir; intro E; inversion E; eauto.
    - destruct (hint_start _ _ _ _ _) as [[d' dir]| |]; try discriminate. destruct dir; intro E; inversion E; eauto.
Qed.
Lemma Mid_scanner_any valid s1 s2 s c : Mid valid s1 (MS s) c -> Mid valid s2 (MS s) c.
Proof. exact (fun H => H). Qed.

Fixpoint acts_ok (valid : bool) (acts : list action) (strict : bool) : option bool :=
  match acts with
  | [] => Some strict
  | a :: r =>
      match kind_of a with
      | KNeutral => acts_ok valid r strict
      | KExcl => if strict then acts_ok valid r true else None
      | KIncl => if strict && valid then acts_ok valid r false else None
      end
  end.

Lemma do_actions_T valid acts : forall strict strict' m c,
  acts_ok valid acts strict = Some strict' -> Mid valid strict m c ->
  aT valid strict' (do_actions ctl chunk base acts m c).
Proof.
  induction acts as [|a r IH]; intros strict strict' m c Hok HM; cbn [do_actions acts_ok] in *.
  - inversion Hok; subst. exact HM.
  - destruct m as [l|s]; cbn [do_action].
    + (* lexer *)
      destruct (kind_of a) eqn:Ek.
      * pose proof (lexer_neutral_T valid strict a l c Ek HM) as H.
        destruct (lexer_action ctl chunk base a l c); cbn [aT] in H |- *; auto. eapply IH; eauto.
      * destruct strict; [|discriminate].
        pose proof (lexer_excl_T valid a l c Ek HM) as H.
        destruct (lexer_action ctl chunk base a l c); cbn [aT] in H |- *; auto. eapply IH; eauto.
      * destruct strict; [|discriminate]. destruct valid; [|discriminate]. cbn [andb] in Hok.
        pose proof (lexer_incl_T a l c Ek HM) as H.
        destruct (lexer_action ctl chunk base a l c); cbn [aT] in H |- *; auto. eapply IH; eauto.
    + (* scanner: strictness is irrelevant *)
      assert (Hs : exists s0, acts_ok valid r s0 = Some strict').
      { destruct (kind_of a); [eauto | destruct strict; [eauto|discriminate] | destruct (strict && valid); [eauto|discriminate]]. }
      destruct Hs as [s0 Hs0].
      pose proof (scanner_action_T valid strict a s c HM) as H.
      destruct (scanner_action ctl chunk a s c) as [m' c'| | |] eqn:Ea; cbn [aT] in H |- *; auto.
      destruct (scanner_action_is_scanner _ _ _ _ _ Ea) as [s' ->].
      eapply IH; [exact Hs0 | exact H].
Qed.

Definition tr_ok (valid : bool) (tr : transition) (strict : bool) : bool :=
  match tr with T_reconsume _ => strict | T_none => true | _ => valid end.
Fixpoint alist_ok (valid : bool) (al : alist) : bool :=
  match al with
  | AL acts tr => match acts_ok valid acts true with Some s' => tr_ok valid tr s' && (valid || s') | None => false end
  | AL_if _ t e => alist_ok valid t && alist_ok valid e
  end.

Definition armT (valid : bool) (r : arm_out) : Prop :=
  match r with
  | Continue m' c' => exists s', Mid valid s' m' c' /\ (valid = false -> s' = true)
  | Return m' c' => Bnd m' c'
  | Switch d b m' c' => Bm_ok b c' /\ sw_tags d m'
  | ArmErr _ c' => Tc c'
  | ArmPanic k _ => k <> 10 /\ k <> 5
  end.

Lemma Mid_set_state valid strict m st e c : Mid valid strict m c -> Mid valid strict (set_state m st e) c.
Proof. destruct m; exact (fun H => H). Qed.
Lemma Bnd_of_Mid_goto m st c strict : Mid true strict m c -> Bnd (set_state m st false) c.
Proof.
  intros (H1 & H2 & H3 & H4 & H5 & H6). specialize (H4 eq_refl). split; [exact H1|]. split; [destruct m; exact H4|].
  destruct m as [l|s]; cbn in *.
  - destruct H6 as [Ha Hb]. split; [exact Ha|]. destruct strict; lia.
  - destruct H6 as [Ha Hb]. split; [lia|]. split; [exact Hb | left; exact H5].
Qed.
Lemma Bnd_of_Mid_reconsume valid m st c : Mid valid true m c -> Bnd (set_state (set_pos m (next_pos m - 1)) st false) c.
Proof.
  intros (H1 & H2 & H3 & H4 & H5 & H6). split; [exact H1|]. split; [destruct m; cbn in *; lia|].
  destruct m as [l|s]; cbn in *.
  - destruct H6 as [Ha Hb]. split; [exact Ha | lia].
  - destruct H6 as [Ha Hb]. split; [lia|]. split; [exact Hb | left; exact H5].
Qed.

Lemma run_alist_T valid al : forall m c, alist_ok valid al = true -> Mid valid true m c -> armT valid (run_alist ctl chunk base al m c).
Proof.
  induction al as [acts tr|cd t IHt e IHe]; intros m c Hok HM; cbn in *.
  - destruct (acts_ok valid acts true) as [s'|] eqn:Ea; [|discriminate].
    apply andb_true_iff in Hok as [Htr Hvs].
    pose proof (do_actions_T valid acts true s' m c Ea HM) as H.
    destruct (do_actions ctl chunk base acts m c) as [m' c'| | |]; cbn in *; auto.
    destruct tr; cbn in *.
    + exists s'. split; [exact H|]. intro Hv. subst valid. cbn in Hvs. exact Hvs.
    + subst valid. eapply Bnd_of_Mid_goto; eauto.
    + subst s'. apply (Bnd_of_Mid_reconsume valid); exact H.
    + subst valid. eapply Bnd_of_Mid_goto; eauto.
  - apply andb_true_iff in Hok as [H1 H2]. destruct (eval_cond cd m); auto.
Qed.

(* ---- one iteration of a state body ---- *)
Definition Mid0 (valid strict : bool) (m : mach) (c : ctx) : Prop :=
  Tc c /\ 1 <= next_pos m /\ next_pos m <= len + 1 /\ (valid = true -> next_pos m <= len) /\
  match m with
  | ML l => rcs_of c <= lc_lexeme_start (l_cur l) /\
            (if strict then lc_lexeme_start (l_cur l) < lc_next (l_cur l) else lc_lexeme_start (l_cur l) <= lc_next (l_cur l))
  | MS s => rcs_of c < s_next s /\ marks_ok s (rcs_of c)
  end.
Lemma Mid_of_Mid0 valid strict m c : Mid0 valid strict m c -> seq_none m -> Mid valid strict m c.
Proof. intros (H1 & H2 & H3 & H4 & H5) H6. split_mid; auto. Qed.

Definition Brk (m : mach) (c : ctx) : Prop :=
  Tc c /\ 1 <= next_pos m /\ next_pos m <= len + 1 /\
  match m with
  | ML l => rcs_of c <= lc_lexeme_start (l_cur l) /\ lc_lexeme_start (l_cur l) < lc_next (l_cur l)
  | MS s => rcs_of c < s_next s /\ marks_ok s (rcs_of c) /\
            ((ch_seq_start (s_tag s) = None /\ len <= s_next s - 1)
             \/ (ch_seq_start (s_tag s) = Some (s_next s - 1) /\ s_next s - 1 <= len /\ seqst (MS s)))
  end.
Definition bT (r : body_out) : Prop :=
  match r with
  | BContinue m c => Bnd m c
  | BBreak m c => Brk m c
  | BSwitch d b m c => Bm_ok b c /\ sw_tags d m
  | BErr _ c => Tc c
  | BPanic k _ => k <> 10 /\ k <> 5
  end.

Definition clr (m : mach) : mach := leave_seq m.
Lemma clr_enter m : leave_seq (enter_seq m) = clr m. Proof. destruct m; reflexivity. Qed.
Lemma clr_clr m : clr (clr m) = clr m. Proof. destruct m; reflexivity. Qed.
Lemma next_pos_clr m : next_pos (clr m) = next_pos m. Proof. destruct m; reflexivity. Qed.
Lemma next_pos_enter m : next_pos (enter_seq m) = next_pos m. Proof. destruct m; reflexivity. Qed.
Lemma Mid0_clr valid strict m c : Mid0 valid strict m c -> Mid valid strict (clr m) c.
Proof. intros (H1 & H2 & H3 & H4 & H5). destruct m; split_mid; auto; cbn in *; auto. Qed.
Lemma Mid0_clr0 valid strict m c : Mid0 valid strict m c -> Mid0 valid strict (clr m) c.
Proof. intros (H1 & H2 & H3 & H4 & H5). destruct m; (split; [exact H1|]; split; [exact H2|]; split; [exact H3|]; split; [exact H4|]; exact H5). Qed.

Lemma seq_rest_spec bsq ic : forall m depth,
  1 <= depth -> next_pos m + (depth - 1) <= len ->
  match seq_rest chunk bsq ic m depth with
  | SeqMatched m' => exists k, m' = leave_seq (set_pos m (next_pos m + k)) /\ next_pos m + k <= len
  | SeqBreak m' => m' = m
  | SeqNo m' => m' = leave_seq m
  end.
Proof.
  induction bsq as [|b r IH]; intros m depth Hd Hb; cbn.
  - exists (depth - 1). split; [reflexivity | exact Hb].
  - destruct (getb chunk (next_pos m + depth - 1)) as [ch|] eqn:Eg.
    + destruct (ch_eq ic ch b); [|reflexivity].
      apply IH; [lia|]. assert (next_pos m + depth - 1 < len) by (apply nth_error_Some; unfold getb in Eg; congruence). lia.
    + destruct (is_last m); reflexivity.
Qed.

Lemma Mid0_advance valid m k c :
  Mid0 valid true m c -> next_pos m + k <= len -> Mid true true (leave_seq (set_pos m (next_pos m + k))) c.
Proof.
  intros (H1 & H2 & H3 & H4 & H5) Hk.
  destruct m as [l|s]; destruct H5 as [Ha Hb]; split_mid; auto; cbn in *; try lia; auto.
  all: split; [try lia; try exact Ha | try lia; try exact Hb].
Qed.
Definition seqst_s (m : mach) : Prop := match m with MS _ => seqst m | ML _ => True end.
Lemma Brk_enter valid m c : Mid0 valid true m c -> seqst_s m -> Brk (enter_seq m) c.
Proof.
  intros (H1 & H2 & H3 & H4 & H5) Hq. destruct m as [l|s]; cbn in *.
  - split; [exact H1|]. split; [exact H2|]. split; [exact H3 | exact H5].
  - split; [exact H1|]. split; [exact H2|]. split; [exact H3|]. destruct H5 as [Ha Hb]. split; [exact Ha|]. split; [exact Hb|].
    right. cbn. unfold spos. split; [reflexivity|]. split; [lia | exact Hq].
Qed.

Definition seq_arms_ok (arms : list (pat * alist)) : bool :=
  forallb (fun pa => match fst pa with P_seq _ _ => alist_ok true (snd pa) | _ => true end) arms.
Definition has_seq_l (arms : list (pat * alist)) : bool := existsb (fun pa => match fst pa with P_seq _ _ => true | _ => false end) arms.

Lemma try_seq_arms_T valid arms : forall ch m c,
  seq_arms_ok arms = true -> Mid0 valid true m c -> (ch <> None -> valid = true) -> (has_seq_l arms = true -> seqst_s m) ->
  match try_seq_arms ctl chunk base arms ch m c with
  | (_, Some o) => bT o
  | (m'', None) => m'' = if has_seq_l arms then clr m else m
  end.
Proof.
  induction arms as [|[p al] r IH]; intros ch m c Hok HM Hch Hq; cbn [try_seq_arms has_seq_l existsb seq_arms_ok forallb fst snd] in *; [reflexivity|].
  apply andb_true_iff in Hok as [Ha Hr].
  destruct p; try (apply IH; assumption).
  (* a sequence arm *)
  cbn [orb].
  assert (Hm : match seq_match chunk bs ignore_case ch m with
               | SeqMatched m' => exists k, m' = leave_seq (set_pos (enter_seq m) (next_pos m + k)) /\ next_pos m + k <= len
               | SeqBreak m' => m' = enter_seq m
               | SeqNo m' => m' = clr m end).
  { unfold seq_match. destruct bs as [|b bs']; [apply clr_enter|].
    destruct ch as [c0|].
    - destruct (ch_eq ignore_case c0 b); [|apply clr_enter].
      pose proof (seq_rest_spec bs' ignore_case (enter_seq m) 1 (le_n 1)) as Hs. rewrite next_pos_enter in Hs.
      destruct HM as (_ & _ & H3 & H4 & _). specialize (H4 (Hch ltac:(discriminate))).
      specialize (Hs ltac:(lia)).
      destruct (seq_rest chunk bs' ignore_case (enter_seq m) 1); [|exact Hs | rewrite Hs; apply clr_enter].
      destruct Hs as [k [E Hk]]. exists k. rewrite ?next_pos_enter in *. split; assumption.
    - destruct (is_last (enter_seq m)); [apply clr_enter | reflexivity]. }
  destruct (seq_match chunk bs ignore_case ch m) as [m'|m'|m'].
  - destruct Hm as [k [-> Hk]].
    assert (HM' : Mid true true (leave_seq (set_pos (enter_seq m) (next_pos m + k))) c).
    { replace (next_pos m) with (next_pos (enter_seq m)) by apply next_pos_enter.
      apply (Mid0_advance valid); [|rewrite next_pos_enter; exact Hk].
      destruct HM as (H1 & H2 & H3 & H4 & H5). destruct m; (split; [exact H1|]; split; [exact H2|]; split; [exact H3|]; split; [exact H4|]; exact H5). }
    pose proof (run_alist_T true al _ c Ha HM') as Hr'.
    destruct (run_alist ctl chunk base al _ c) as [m2 c2|m2 c2| | |]; cbn in *; auto.
    destruct Hr' as [s' [Hs' _]]. destruct Hs' as (H1 & H2 & H3 & H4 & H5 & H6). specialize (H4 eq_refl).
    split; [exact H1|]. split; [exact H4|]. destruct m2 as [l|s]; cbn in *.
    + destruct H6; split; [assumption|]. destruct s'; lia.
    + destruct H6; split; [lia|]. split; [assumption | left; assumption].
  - subst m'. cbn. apply (Brk_enter valid); [exact HM | apply Hq; reflexivity].
  - subst m'.
    assert (Hq' : has_seq_l r = true -> seqst_s (clr m)) by (intro Hx; destruct m; apply Hq; reflexivity).
    specialize (IH ch (clr m) c Hr (Mid0_clr0 _ _ _ _ HM) Hch Hq').
    destruct (try_seq_arms ctl chunk base r ch (clr m) c) as [m'' [o|]]; [exact IH|].
    rewrite IH. rewrite clr_clr. destruct (has_seq_l r); reflexivity.
Qed.

(* actions never move the cursor (only transitions do) *)
Lemma of_dres_ctx_np s l (r : @dres C disp) m (c : ctx) : of_dres_ctx s (ML l) r = AOk m c -> next_pos m = lc_next (l_cur l).
Proof. destruct r; cbn; intro E; inversion E; reflexivity. Qed.
Lemma l_emit_nontag_np l c e t m c' : l_emit_nontag ctl chunk base l c e t = AOk m c' -> next_pos m = lc_next (l_cur l).
Proof. unfold l_emit_nontag. intro E. apply of_dres_ctx_np in E. exact E. Qed.
Lemma l_emit_text_np l c m c' : l_emit_text ctl chunk base l c = AOk m c' -> next_pos m = lc_next (l_cur l).
Proof. unfold l_emit_text. destruct (_ <? _); [apply l_emit_nontag_np | intro E; inversion E; reflexivity]. Qed.
Lemma then_lexer_np (r : @act_res C) k m (c : ctx) n :
  (forall m1 c1, r = AOk m1 c1 -> next_pos m1 = n) ->
  (forall l1 c1 m2 c2, next_pos (ML l1) = n -> k l1 c1 = AOk m2 c2 -> next_pos m2 = n) ->
  then_lexer r k = AOk m c -> next_pos m = n.
Proof.
  intros Hr Hk. destruct r as [m1 c1| | |]; cbn; try discriminate. destruct m1 as [l1|s1].
  - intro E. eapply Hk; [|exact E]. apply (Hr _ _ eq_refl).
  - intro E; inversion E; subst. apply (Hr _ _ eq_refl).
Qed.
Lemma then_eof_np (r : @act_res C) n m (c : ctx) :
  (forall m1 c1, r = AOk m1 c1 -> next_pos m1 = n) ->
  then_lexer r (l_emit_eof ctl chunk base) = AOk m c -> next_pos m = n.
Proof.
  intros Hr. apply then_lexer_np; [exact Hr|].
  intros l1 c1 m2 c2 Hn E2. unfold l_emit_eof in E2. apply l_emit_nontag_np in E2. rewrite E2. exact Hn.
Qed.
Lemma lexer_action_np a l c m c' : lexer_action ctl chunk base a l c = AOk m c' -> next_pos m = lc_next (l_cur l).
Proof.
  destruct a; cbn; try (intro E; inversion E; reflexivity);
    try (intro E; apply l_emit_nontag_np in E; exact E);
    try (intro E; apply l_emit_text_np in E; exact E);
    try (intro E; apply (then_eof_np _ (lc_next (l_cur l))) in E; [exact E | intros m1 c1 E1; first [apply l_emit_nontag_np in E1 | apply l_emit_text_np in E1]; exact E1]).
  - (* emit_tag *)
    unfold l_emit_tag. destruct (b_tag (l_build l)); [|discriminate].
    match goal with |- (match ?x with Some _ => _ | None => _ end) = _ -> _ => destruct x as [[s1 fbo]|] end; [|discriminate].
    repeat match goal with |- context [match ?x with _ => _ end] => lazymatch type of x with (_ * _)%type => destruct x end end.
    destruct (handle_tag _ _ _ _ _ _) as [[d' dir]| |]; try discriminate. destruct dir; intro E; inversion E; reflexivity.
  - destruct (b_tag (l_build l)) as [[|]|]; intro E; inversion E; reflexivity.
Qed.
Lemma scanner_action_np a s c m c' : scanner_action ctl chunk a s c = AOk m c' -> next_pos m = s_next s.
Proof.
  destruct a; cbn; try (intro E; inversion E; reflexivity);
    try (destruct (getb chunk (spos s)); intro E; inversion E; reflexivity).
  unfold s_finish_tag_name. destruct (tag_start (s_tag s)); [|discriminate].
  match goal with |- (match ?x with Some _ => _ | None => _ end) = _ -> _ => destruct x as [[sim' fb]|] end; [|discriminate].
  match goal with |- context [match ?x with _ => _ end] => lazymatch type of x with (_ * option feedback)%type => destruct x as [[t1 md1] unhandled] end end.
  destruct unhandled; [discriminate|].
  destruct (is_in_end_tag (s_tag s)).
  - destruct (hint_end _ _ _ _) as [[d' dir]| |]; try discriminate. destruct dir; intro E; inversion E; reflexivity.
  - destruct (hint_start _ _ _ _ _) as [[d' dir]| |]; try discriminate. destruct dir; intro E; inversion E; reflexivity.
Qed.
Lemma do_actions_np acts : forall m c m' c', do_actions ctl chunk base acts m c = AOk m' c' -> next_pos m' = next_pos m.
Proof.
  induction acts as [|a r IH]; intros m c m' c'; cbn [do_actions]; [intro E; inversion E; reflexivity|].
  destruct (do_action ctl chunk base a m c) as [m1 c1| | |] eqn:Ea; try discriminate.
  intro E. rewrite (IH _ _ _ _ E). destruct m; cbn [do_action] in Ea; [apply lexer_action_np in Ea | apply scanner_action_np in Ea]; exact Ea.
Qed.
Lemma run_alist_np al : forall m c m' c', run_alist ctl chunk base al m c = Continue m' c' -> next_pos m' = next_pos m.
Proof.
  induction al as [acts tr|cd t IHt e IHe]; intros m c m' c'; cbn [run_alist].
  - destruct (do_actions ctl chunk base acts m c) as [m1 c1| | |] eqn:Ea; try discriminate.
    destruct tr; cbn; try discriminate. intro E; inversion E; subst. eapply do_actions_np; eauto.
  - destruct (eval_cond cd m); [apply IHt | apply IHe].
Qed.
Fixpoint al_no_trans (al : alist) : bool :=
  match al with AL _ T_none => true | AL _ _ => false | AL_if _ t e => al_no_trans t && al_no_trans e end.
Lemma run_alist_no_return al : forall m c m' c', al_no_trans al = true -> run_alist ctl chunk base al m c <> Return m' c'.
Proof.
  induction al as [acts tr|cd t IHt e IHe]; intros m c m' c' H; cbn [run_alist al_no_trans] in *.
  - destruct tr; try discriminate. destruct (do_actions ctl chunk base acts m c); cbn; discriminate.
  - apply andb_true_iff in H as [H1 H2]. destruct (eval_cond cd m); auto.
Qed.

Definition arm_ok (pa : pat * alist) : bool :=
  match fst pa with
  | P_eoc => alist_ok false (snd pa) && al_no_trans (snd pa)
  | P_eof => alist_ok false (snd pa)
  | _ => alist_ok true (snd pa)
  end.
Definition arms_ok (arms : list (pat * alist)) : bool := forallb arm_ok arms.

Lemma Bnd_of_Mid_continue m c strict : Mid true strict m c -> Bnd m c.
Proof.
  intros (H1 & H2 & H3 & H4 & H5 & H6). specialize (H4 eq_refl). split; [exact H1|]. split; [exact H4|].
  destruct m as [l|s]; cbn in *.
  - destruct H6 as [Ha Hb]. split; [exact Ha|]. destruct strict; lia.
  - destruct H6 as [Ha Hb]. split; [lia|]. split; [exact Hb | left; exact H5].
Qed.
Lemma Brk_of_Mid m c : Mid false true m c -> len <= next_pos m - 1 -> Brk m c.
Proof.
  intros (H1 & H2 & H3 & H4 & H5 & H6) Hl. split; [exact H1|]. split; [exact H2|]. split; [exact H3|].
  destruct m as [l|s]; cbn in *; [exact H6|]. destruct H6 as [Ha Hb]. split; [exact Ha|]. split; [exact Hb|]. left. split; [exact H5 | exact Hl].
Qed.

Lemma try_arms_T arms : forall ch m c,
  arms_ok arms = true ->
  Mid (match ch with Some _ => true | None => false end) true m c ->
  (ch = None -> len <= next_pos m - 1) ->
  bT (try_arms ctl chunk base arms ch m c).
Proof.
  induction arms as [|[p al] r IH]; intros ch m c Hok HM Hch; cbn [try_arms arms_ok forallb] in *; [cbn; split; discriminate|].
  apply andb_true_iff in Hok as [Ha Hr]. unfold arm_ok in Ha. cbn [fst snd] in Ha.
  destruct p; try (apply IH; assumption);
    (destruct (pat_matches _ ch m) eqn:Epm; [|apply IH; assumption]).
  (* patterns that need a byte *)
  all: try solve [destruct ch as [c0|]; [|cbn in Epm; discriminate];
        pose proof (run_alist_T true al m c Ha HM) as H;
        destruct (run_alist ctl chunk base al m c) as [m' c'|m' c'| | |]; cbn [armT of_arm bT] in *; auto;
        destruct H as [s' [Hs' _]]; eapply Bnd_of_Mid_continue; eauto].
  - (* eoc *)
    destruct ch as [c0|]; [cbn in Epm; discriminate|].
    apply andb_true_iff in Ha as [Ha Hnt].
    pose proof (run_alist_T false al m c Ha HM) as H.
    pose proof (run_alist_np al m c) as Hnp. pose proof (run_alist_no_return al m c) as Hnr.
    destruct (run_alist ctl chunk base al m c) as [m' c'|m' c'| | |]; cbn [armT bT] in *; auto.
    + destruct H as [s' [Hs' Hst]]. rewrite (Hst eq_refl) in Hs'. apply Brk_of_Mid; [exact Hs'|]. rewrite (Hnp _ _ eq_refl). auto.
    + exfalso. eapply Hnr; eauto.
  - (* eof *)
    destruct ch as [c0|]; [cbn in Epm; discriminate|].
    destruct (is_last m).
    + pose proof (run_alist_T false al m c Ha HM) as H. pose proof (run_alist_np al m c) as Hnp.
      destruct (run_alist ctl chunk base al m c) as [m' c'|m' c'| | |]; cbn [armT bT] in *; auto.
      destruct H as [s' [Hs' Hst]]. rewrite (Hst eq_refl) in Hs'. apply Brk_of_Mid; [exact Hs'|]. rewrite (Hnp _ _ eq_refl). auto.
    + cbn. apply Brk_of_Mid; auto.
Qed.

(* ---- a whole state body, the loop, the parser ---- *)
Definition neutral_acts (acts : list action) : bool := forallb (fun a => match kind_of a with KNeutral => true | _ => false end) acts.
Definition state_ok (sd : state_def) : bool :=
  arms_ok sd.(sd_arms) && seq_arms_ok sd.(sd_arms) && neutral_acts sd.(sd_enter)
  && match memchr_of sd.(sd_arms) with Some _ => negb (has_seq_l sd.(sd_arms)) | None => true end.
Hypothesis table_ok : forall st, state_ok (table st) = true.

Lemma find_from_spec b : forall fuel i j, find_from chunk b i fuel = Some j -> i <= j /\ j < len.
Proof.
  induction fuel as [|f IH]; intros i j; cbn; [discriminate|].
  destruct (getb chunk i) as [c0|] eqn:Eg; [|discriminate].
  assert (i < len) by (apply nth_error_Some; unfold getb in Eg; congruence).
  destruct (c0 =? b)%N; [intro E; inversion E; subst; lia|].
  intro E. apply IH in E. lia.
Qed.
Lemma neutral_acts_ok valid acts s : neutral_acts acts = true -> acts_ok valid acts s = Some s.
Proof.
  induction acts as [|a r IH]; cbn; [reflexivity|]. intro H. apply andb_true_iff in H as [H1 H2].
  destruct (kind_of a); try discriminate. apply IH; exact H2.
Qed.

(* boundary -> after consuming *)
Lemma Mid0_of_Bnd valid m c n :
  Bnd m c -> next_pos m <= n -> n <= len -> (valid = true -> n < len) ->
  Mid0 valid true (set_pos m (S n)) c.
Proof.
  intros (H1 & H2 & H3) Hn Hl Hv. split; [exact H1|]. split; [destruct m; cbn; lia|]. split; [destruct m; cbn; lia|].
  split; [intro Hx; specialize (Hv Hx); destruct m; cbn; lia|].
  destruct m as [l|s]; cbn in *.
  - destruct H3 as [Ha Hb]. split; [exact Ha | lia].
  - destruct H3 as (Ha & Hb & _). split; [lia | exact Hb].
Qed.

Lemma body_iter_T m c :
  Bnd m c -> m_entered (mode_of m) = true -> bT (body_iter ctl chunk base (table (m_st (mode_of m))) m c).
Proof.
  intros HB Hen. pose proof (table_ok (m_st (mode_of m))) as Hok. unfold state_ok in Hok.
  apply andb_true_iff in Hok as [Hok Hmc]. apply andb_true_iff in Hok as [Hok Hent]. apply andb_true_iff in Hok as [Harms Hseq].
  set (sd := table (m_st (mode_of m))) in *.
  pose proof HB as (HT & Hnp & Hpos).
  (* when the state has no sequence arm, no sequence start is pending *)
  assert (Hsn : has_seq_l (sd_arms sd) = false -> seq_none m).
  { intro Hf. destruct m as [l|s]; cbn; [exact I|]. cbn in Hpos. destruct Hpos as (_ & _ & [Hn|[_ Hh]]); [exact Hn|].
    unfold has_seq in Hh. subst sd. cbn in Hf. unfold has_seq_l in Hf. congruence. }
  unfold body_iter. destruct (memchr_of (sd_arms sd)) as [b|] eqn:Emc.
  - (* memchr state: no sequence arms *)
    apply negb_true_iff in Hmc. specialize (Hsn Hmc).
    destruct (find_from chunk b (next_pos m) (S len)) as [i|] eqn:Ef.
    + destruct (find_from_spec _ _ _ _ Ef) as [Hi1 Hi2].
      apply try_arms_T; [exact Harms | | discriminate].
      apply Mid_of_Mid0; [apply (Mid0_of_Bnd true m c i HB); auto; lia | destruct m; exact Hsn].
    + apply try_arms_T; [exact Harms | | ].
      * apply Mid_of_Mid0; [|destruct m; exact Hsn].
        replace (Nat.max (next_pos m) len) with len by lia.
        apply (Mid0_of_Bnd false m c len HB); auto; discriminate.
      * intros _. destruct m; cbn; lia.
  - (* ordinary state *)
    set (ch := getb chunk (next_pos m)).
    set (valid := match ch with Some _ => true | None => false end).
    assert (Hv : valid = true -> next_pos m < len).
    { subst valid ch. destruct (getb chunk (next_pos m)) eqn:Eg; [|discriminate]. intros _. apply nth_error_Some. unfold getb in Eg. congruence. }
    assert (HM0 : Mid0 valid true (set_pos m (S (next_pos m))) c) by (apply (Mid0_of_Bnd valid m c (next_pos m) HB); auto).
    assert (Hq : has_seq_l (sd_arms sd) = true -> seqst_s (set_pos m (S (next_pos m)))).
    { intro Hs. destruct m as [l|s]; cbn; [exact I|]. split; [exact Hen | exact Hs]. }
    assert (Hch : ch <> None -> valid = true) by (subst valid; destruct ch; [reflexivity | congruence]).
    pose proof (try_seq_arms_T valid (sd_arms sd) ch _ c Hseq HM0 Hch Hq) as Hts.
    destruct (try_seq_arms ctl chunk base (sd_arms sd) ch (set_pos m (S (next_pos m))) c) as [m'' [o|]]; [exact Hts|].
    subst m''.
    apply try_arms_T; [exact Harms | | ].
    + destruct (has_seq_l (sd_arms sd)) eqn:Ehs.
      * apply Mid0_clr. exact HM0.
      * apply Mid_of_Mid0; [exact HM0|]. specialize (Hsn eq_refl). destruct m; exact Hsn.
    + intro Hn. assert (len <= next_pos m) by (apply nth_error_None; exact Hn).
      destruct (has_seq_l (sd_arms sd)); [rewrite next_pos_clr|]; destruct m; cbn in *; lia.
Qed.

(* the lexer stays a lexer, the scanner a scanner, and is_last_input never changes inside a parse call *)
Definition isL (m : mach) : bool * bool := (match m with ML _ => true | MS _ => false end, is_last m).
Definition res_kind (r : @act_res C) (k : bool * bool) : Prop :=
  match r with AOk m _ | ASwitch _ _ m _ => isL m = k | _ => True end.
Lemma of_dres_ctx_kind s l (r : @dres C disp) : res_kind (of_dres_ctx s (ML l) r) (isL (ML l)).
Proof. destruct r; cbn; auto. Qed.
Lemma then_lexer_kind (r : @act_res C) k kk : res_kind r kk -> (forall l c, isL (ML l) = kk -> res_kind (k l c) kk) -> res_kind (then_lexer r k) kk.
Proof. intros Hr Hk. destruct r as [m c| | |]; cbn in *; auto. destruct m; [apply Hk; exact Hr | exact Hr]. Qed.
Lemma lexer_action_kind a l c : res_kind (lexer_action ctl chunk base a l c) (isL (ML l)).
Proof.
  assert (Hn : forall l c e t, res_kind (l_emit_nontag ctl chunk base l c e t) (isL (ML l))) by (intros l0 c0 e0 t0; unfold l_emit_nontag; exact (of_dres_ctx_kind _ (l_with_ls l0 e0) _)).
  assert (Ht : forall l c, res_kind (l_emit_text ctl chunk base l c) (isL (ML l))) by (intros; unfold l_emit_text; destruct (_ <? _); [apply Hn | reflexivity]).
  destruct a; cbn; auto; try (apply (Hn (l_with_build l _)));
    try (apply then_lexer_kind; [first [apply (Hn (l_with_build l _)) | apply Hn | apply Ht] | intros l1 c1 E1; rewrite <- E1; apply Hn]).
  - unfold l_emit_tag. destruct (b_tag (l_build l)); [|exact I].
    match goal with |- res_kind (match ?x with Some _ => _ | None => _ end) _ => destruct x as [[s1 fbo]|] end; [|exact I].
    repeat match goal with |- context [match ?x with _ => _ end] => lazymatch type of x with (_ * _)%type => destruct x end end.
    destruct (handle_tag _ _ _ _ _ _) as [[d' dir]| |]; cbn; auto. destruct dir; reflexivity.
  - destruct (b_tag (l_build l)) as [[|]|]; cbn; auto.
Qed.
Lemma scanner_action_kind a s c : res_kind (scanner_action ctl chunk a s c) (isL (MS s)).
Proof.
  destruct a; cbn; auto; try (destruct (getb chunk (spos s)); reflexivity).
  unfold s_finish_tag_name. destruct (tag_start (s_tag s)); [|exact I].
  match goal with |- res_kind (match ?x with Some _ => _ | None => _ end) _ => destruct x as [[sim' fb]|] end; [|exact I].
  match goal with |- context [match ?x with _ => _ end] => lazymatch type of x with (_ * option feedback)%type => destruct x as [[t1 md1] unhandled] end end.
  destruct unhandled; [reflexivity|].
  destruct (is_in_end_tag (s_tag s)).
  - destruct (hint_end _ _ _ _) as [[d' dir]| |]; cbn; auto. destruct dir; reflexivity.
  - destruct (hint_start _ _ _ _ _) as [[d' dir]| |]; cbn; auto. destruct dir; reflexivity.
Qed.
Lemma do_actions_kind acts : forall m c, res_kind (do_actions ctl chunk base acts m c) (isL m).
Proof.
  induction acts as [|a r IH]; intros m c; cbn [do_actions]; [reflexivity|].
  assert (H : res_kind (do_action ctl chunk base a m c) (isL m)) by (destruct m; [apply lexer_action_kind | apply scanner_action_kind]).
  destruct (do_action ctl chunk base a m c) as [m1 c1| | |]; cbn in *; auto. rewrite <- H. apply IH.
Qed.
Definition arm_kind (r : @arm_out C) (k : bool * bool) : Prop :=
  match r with Continue m _ | Return m _ | Switch _ _ m _ => isL m = k | _ => True end.
Lemma run_alist_kind al : forall m c, arm_kind (run_alist ctl chunk base al m c) (isL m).
Proof.
  induction al as [acts tr|cd t IHt e IHe]; intros m c; cbn [run_alist].
  - pose proof (do_actions_kind acts m c) as H. destruct (do_actions ctl chunk base acts m c) as [m1 c1| | |]; cbn in *; auto.
    destruct tr; cbn; destruct m1; cbn in *; auto.
  - destruct (eval_cond cd m); auto.
Qed.
Definition body_kind (r : @body_out C) (k : bool * bool) : Prop :=
  match r with BContinue m _ | BBreak m _ | BSwitch _ _ m _ => isL m = k | _ => True end.
Lemma of_arm_kind r k : arm_kind r k -> body_kind (of_arm r) k.
Proof. destruct r; cbn; auto. Qed.
Lemma isL_clr m : isL (clr m) = isL m. Proof. destruct m; reflexivity. Qed.
Lemma isL_enter m : isL (enter_seq m) = isL m. Proof. destruct m; reflexivity. Qed.
Lemma isL_set_pos m n : isL (set_pos m n) = isL m. Proof. destruct m; reflexivity. Qed.
Lemma isL_leave m : isL (leave_seq m) = isL m. Proof. destruct m; reflexivity. Qed.
Lemma seq_rest_kind bsq ic : forall m depth,
  match seq_rest chunk bsq ic m depth with SeqMatched m' | SeqBreak m' | SeqNo m' => isL m' = isL m end.
Proof.
  induction bsq as [|b r IH]; intros m depth; cbn; [rewrite isL_leave, isL_set_pos; reflexivity|].
  destruct (getb chunk _); [destruct (ch_eq ic _ b); [apply IH | apply isL_leave] | destruct (is_last m); [apply isL_leave | reflexivity]].
Qed.
Lemma seq_match_kind bsq ic ch m :
  match seq_match chunk bsq ic ch m with SeqMatched m' | SeqBreak m' | SeqNo m' => isL m' = isL m end.
Proof.
  unfold seq_match. destruct bsq as [|b r]; [rewrite isL_leave; apply isL_enter|].
  destruct ch as [c0|].
  - destruct (ch_eq ic c0 b); [|rewrite isL_leave; apply isL_enter].
    pose proof (seq_rest_kind r ic (enter_seq m) 1) as H. destruct (seq_rest chunk r ic (enter_seq m) 1); rewrite H; apply isL_enter.
  - destruct (is_last (enter_seq m)); [rewrite isL_leave|]; apply isL_enter.
Qed.
Lemma try_seq_arms_kind arms : forall ch m c,
  match try_seq_arms ctl chunk base arms ch m c with
  | (_, Some o) => body_kind o (isL m)
  | (m'', None) => isL m'' = isL m
  end.
Proof.
  induction arms as [|[p al] r IH]; intros ch m c; cbn [try_seq_arms]; [reflexivity|].
  destruct p; try apply IH.
  pose proof (seq_match_kind bs ignore_case ch m) as H.
  destruct (seq_match chunk bs ignore_case ch m) as [m'|m'|m'].
  - rewrite <- H. apply of_arm_kind, run_alist_kind.
  - cbn. exact H.
  - specialize (IH ch m' c). rewrite H in IH. exact IH.
Qed.
Lemma try_arms_kind arms : forall ch m c, body_kind (try_arms ctl chunk base arms ch m c) (isL m).
Proof.
  induction arms as [|[p al] r IH]; intros ch m c; cbn [try_arms]; [exact I|].
  destruct p; try apply IH; (destruct (pat_matches _ ch m); [|apply IH]); try (apply of_arm_kind, run_alist_kind).
  - pose proof (run_alist_kind al m c) as H. destruct (run_alist ctl chunk base al m c); cbn in *; auto.
  - destruct (is_last m); [|reflexivity].
    pose proof (run_alist_kind al m c) as H. destruct (run_alist ctl chunk base al m c); cbn in *; auto.
Qed.
Lemma body_iter_kind sd m c : body_kind (body_iter ctl chunk base sd m c) (isL m).
Proof.
  unfold body_iter. destruct (memchr_of (sd_arms sd)).
  - destruct (find_from _ _ _ _) as [i|]; [rewrite <- (isL_set_pos m (S i)) | rewrite <- (isL_set_pos m (S (Nat.max (next_pos m) len)))]; apply try_arms_kind.
  - pose proof (try_seq_arms_kind (sd_arms sd) (getb chunk (next_pos m)) (set_pos m (S (next_pos m))) c) as H.
    destruct (try_seq_arms _ _ _ _ _ _ _) as [m'' [o|]]; rewrite isL_set_pos in H; [exact H|].
    rewrite <- H. apply try_arms_kind.
Qed.

(* actions never change the current state (only transitions do) *)
Definition mst (m : mach) : state * bool := (m_st (mode_of m), m_entered (mode_of m)).
Lemma of_dres_ctx_st s l (r : @dres C disp) m (c : ctx) : of_dres_ctx s (ML l) r = AOk m c -> mst m = mst (ML l).
Proof. destruct r; cbn; intro E; inversion E; reflexivity. Qed.
Lemma l_emit_nontag_st l c e t m c' : l_emit_nontag ctl chunk base l c e t = AOk m c' -> mst m = mst (ML l).
Proof. unfold l_emit_nontag. intro E. apply of_dres_ctx_st in E. exact E. Qed.
Lemma l_emit_text_st l c m c' : l_emit_text ctl chunk base l c = AOk m c' -> mst m = mst (ML l).
Proof. unfold l_emit_text. destruct (_ <? _); [apply l_emit_nontag_st | intro E; inversion E; reflexivity]. Qed.
Lemma then_eof_st (r : @act_res C) n m (c : ctx) :
  (forall m1 c1, r = AOk m1 c1 -> mst m1 = n) ->
  then_lexer r (l_emit_eof ctl chunk base) = AOk m c -> mst m = n.
Proof.
  intros Hr. destruct r as [m1 c1| | |]; cbn; try discriminate. destruct m1 as [l1|s1].
  - intro E. unfold l_emit_eof in E. apply l_emit_nontag_st in E. rewrite E. apply (Hr _ _ eq_refl).
  - intro E; inversion E; subst. apply (Hr _ _ eq_refl).
Qed.
Lemma lexer_action_st a l c m c' : lexer_action ctl chunk base a l c = AOk m c' -> mst m = mst (ML l).
Proof.
  destruct a; cbn; try (intro E; inversion E; reflexivity);
    try (intro E; apply l_emit_nontag_st in E; exact E);
    try (intro E; apply l_emit_text_st in E; exact E);
    try (intro E; apply (then_eof_st _ (mst (ML l))) in E; [exact E | intros m1 c1 E1; first [apply l_emit_nontag_st in E1 | apply l_emit_text_st in E1]; exact E1]).
  - unfold l_emit_tag. destruct (b_tag (l_build l)); [|discriminate].
    match goal with |- (match ?x with Some _ => _ | None => _ end) = _ -> _ => destruct x as [[s1 fbo]|] end; [|discriminate].
    repeat match goal with |- context [match ?x with _ => _ end] => lazymatch type of x with (_ * _)%type => destruct x end end.
    destruct (handle_tag _ _ _ _ _ _) as [[d' dir]| |]; try discriminate. destruct dir; intro E; inversion E; reflexivity.
  - destruct (b_tag (l_build l)) as [[|]|]; intro E; inversion E; reflexivity.
Qed.
Lemma scanner_action_st a s c m c' : scanner_action ctl chunk a s c = AOk m c' -> mst m = mst (MS s).
Proof.
  destruct a; cbn; try (intro E; inversion E; reflexivity);
    try (destruct (getb chunk (spos s)); intro E; inversion E; reflexivity).
  unfold s_finish_tag_name. destruct (tag_start (s_tag s)); [|discriminate].
  match goal with |- (match ?x with Some _ => _ | None => _ end) = _ -> _ => destruct x as [[sim' fb]|] end; [|discriminate].
  match goal with |- context [match ?x with _ => _ end] => lazymatch type of x with (_ * option feedback)%type => destruct x as [[t1 md1] unhandled] eqn:Eu end end.
  assert (Hmd : m_st md1 = m_st (s_mode s) /\ m_entered md1 = m_entered (s_mode s)) by (destruct fb; inversion Eu; subst; auto).
  destruct Hmd as [Hm1 Hm2].
  destruct unhandled; [discriminate|].
  destruct (is_in_end_tag (s_tag s)).
  - destruct (hint_end _ _ _ _) as [[d' dir]| |]; try discriminate. destruct dir; intro E; inversion E; subst; unfold mst; cbn; congruence.
  - destruct (hint_start _ _ _ _ _) as [[d' dir]| |]; try discriminate. destruct dir; intro E; inversion E; subst; unfold mst; cbn; congruence.
Qed.
Lemma do_actions_st acts : forall m c m' c', do_actions ctl chunk base acts m c = AOk m' c' -> mst m' = mst m.
Proof.
  induction acts as [|a r IH]; intros m c m' c'; cbn [do_actions]; [intro E; inversion E; reflexivity|].
  destruct (do_action ctl chunk base a m c) as [m1 c1| | |] eqn:Ea; try discriminate.
  intro E. rewrite (IH _ _ _ _ E). destruct m; cbn [do_action] in Ea; [apply lexer_action_st in Ea | apply scanner_action_st in Ea]; exact Ea.
Qed.

(* what the next parse call (on the unconsumed tail, with remaining_content_start = 0) starts from *)
Definition Next (m : mach) (k : nat) : Prop :=
  next_pos m <= k /\
  match m with
  | ML l => lc_lexeme_start (l_cur l) = 0
  | MS s => (forall a, tag_start (s_tag s) = Some a -> a = 0) /\ (ch_seq_start (s_tag s) = None \/ seqst (MS s))
  end.
Definition lT (k0 : bool * bool) (r : loop_res) : Prop :=
  match r with
  | LEnd m c n => Tc c /\ rcs_of c <= n /\ n <= len /\ isL m = k0 /\ (is_last m = false -> Next m (len - n))
  | LSwitch d b m c => Bm_ok b c /\ sw_tags d m /\ isL m = k0
  | LErr _ c => Tc c
  | LPanic k _ => k <> 10 /\ k <> 5
  | LFuel _ => True
  end.

Lemma Bnd_set_entered m c : Bnd m c -> Bnd (set_state m (m_st (mode_of m)) true) c.
Proof.
  intros (H1 & H2 & H3). split; [exact H1|]. split; [destruct m; exact H2|]. destruct m as [l|s]; cbn in *; [exact H3|].
  destruct H3 as (Ha & Hb & Hc). split; [exact Ha|]. split; [exact Hb|]. destruct Hc as [Hn|[_ Hh]]; [left; exact Hn | right; split; [reflexivity | exact Hh]].
Qed.
Lemma Bnd_after_enter m st c : Mid false true m c -> Bnd (set_state (set_pos m (next_pos m - 1)) st true) c.
Proof.
  intros (H1 & H2 & H3 & H4 & H5 & H6). split; [exact H1|]. split; [destruct m; cbn in *; lia|].
  destruct m as [l|s]; cbn in *.
  - destruct H6 as [Ha Hb]. split; [exact Ha | lia].
  - destruct H6 as [Ha Hb]. split; [lia|]. split; [exact Hb | left; exact H5].
Qed.

Lemma Brk_end m c :
  Brk m c ->
  let consumed := consumed_count chunk m in
  consumed <= next_pos m - 1 /\ rcs_of c <= consumed /\ consumed <= len /\
  (is_last m = false -> Next (set_pos (adjust_for_next_input m) (next_pos m - 1 - consumed)) (len - consumed)).
Proof.
  intros (H1 & H2 & H3 & H4). destruct m as [l|s]; cbn in *.
  - destruct H4 as [Ha Hb]. split; [lia|]. split; [lia|]. split; [lia|]. intros _. split; cbn; [lia | reflexivity].
  - destruct H4 as (Ha & Hb & Hc).
    assert (Hr : rcs_of c <= len) by (destruct H1 as (_ & Hx & _); exact Hx).
    destruct (tag_start (s_tag s)) as [a|] eqn:Et; [destruct (Hb a Et) as [Hb1 Hb2]|];
      destruct Hc as [[Hn Hl]|(Hs & Hl & Hq)]; rewrite ?Hn, ?Hs; cbn;
      (split; [lia|]; split; [lia|]; split; [lia|]; intros _; unfold Next, next_pos; cbn; rewrite ?Et; cbn; split; [lia|]; split;
       [intros a0 E; first [inversion E; reflexivity | congruence] | first [left; cbn; exact Hn | right; exact Hq]]).
Qed.

Lemma run_loop_T fuel : forall m c, Bnd m c -> lT (isL m) (run_loop ctl chunk base fuel m c).
Proof.
  induction fuel as [|f IH]; intros m c HB; cbn [run_loop]; [exact I|].
  match goal with |- lT _ (match ?r with AOk _ _ => _ | _ => _ end) => set (r1 := r) end.
  (* the enter phase *)
  assert (H1 : match r1 with
               | AOk m1 c1 => Bnd m1 c1 /\ m_entered (mode_of m1) = true /\ m_st (mode_of m1) = m_st (mode_of m) /\ isL m1 = isL m
               | ASwitch d b m' c' => Bm_ok b c' /\ sw_tags d m' /\ isL m' = isL m
               | AErr _ c' => Tc c'
               | APanic k _ => k <> 10 /\ k <> 5 end).
  { subst r1. destruct (m_entered (mode_of m)) eqn:Een; [auto|].
    destruct (sd_enter (table (m_st (mode_of m)))) as [|a acts] eqn:Ee.
    - split; [apply Bnd_set_entered; exact HB|]. destruct m; cbn; auto.
    - cbv beta iota.
      pose proof (table_ok (m_st (mode_of m))) as Hok. unfold state_ok in Hok.
      apply andb_true_iff in Hok as [Hok _]. apply andb_true_iff in Hok as [_ Hne]. rewrite Ee in Hne.
      assert (HM : Mid false true (set_pos m (S (next_pos m))) c).
      { apply Mid_of_Mid0; [apply (Mid0_of_Bnd false m c (next_pos m) HB); auto; [destruct HB as (_ & ? & _); lia | discriminate]|].
        destruct m as [l|s]; cbn; [exact I|]. destruct HB as (_ & _ & _ & _ & [Hn|[He _]]); [exact Hn|]. cbn in Een. congruence. }
      pose proof (do_actions_T false (a :: acts) true true _ c (neutral_acts_ok false _ true Hne) HM) as Hd.
      pose proof (do_actions_kind (a :: acts) (set_pos m (S (next_pos m))) c) as Hk. rewrite isL_set_pos in Hk.
      pose proof (do_actions_st (a :: acts) (set_pos m (S (next_pos m))) c) as Hst.
      destruct (do_actions ctl chunk base (a :: acts) (set_pos m (S (next_pos m))) c) as [x c'| | |]; cbn [aT res_kind] in *; auto.
      + specialize (Hst _ _ eq_refl). unfold mst in Hst. inversion Hst as [[Hst1 Hst2]].
        split; [apply Bnd_after_enter; exact Hd|].
        split; [destruct x; reflexivity|].
        split; [destruct x, m; cbn in *; congruence | unfold isL in *; destruct x, m; cbn in *; inversion Hk; subst; try reflexivity; congruence].
      + destruct Hd; auto. }
  destruct r1 as [m1 c1| | |]; cbn [lT]; try exact H1.
  - destruct H1 as (HB1 & Hen1 & Hst1 & Hk1). rewrite <- Hst1.
    pose proof (body_iter_T m1 c1 HB1 Hen1) as H2. pose proof (body_iter_kind (table (m_st (mode_of m1))) m1 c1) as Hk2.
    destruct (body_iter ctl chunk base (table (m_st (mode_of m1))) m1 c1) as [m2 c2|m2 c2| | |]; cbn [bT body_kind lT] in *.
    + rewrite <- Hk1, <- Hk2. apply IH. exact H2.
    + pose proof (Brk_end m2 c2 H2) as (Hc1 & Hc2 & Hc3 & Hc4). cbv zeta in *.
      assert (Hp : pos (if is_last m2 then m2 else adjust_for_next_input m2) = next_pos m2 - 1).
      { destruct (is_last m2); [reflexivity|]. destruct m2 as [l2|s2]; cbn; [reflexivity|]. destruct (tag_start (s_tag s2)); reflexivity. }
      rewrite Hp. destruct (Nat.leb_spec (consumed_count chunk m2) (next_pos m2 - 1)); [|lia]. cbn [lT].
      destruct H2 as (HT2 & _).
      split; [exact HT2|]. split; [exact Hc2|]. split; [exact Hc3|].
      split; [rewrite <- Hk1, <- Hk2; unfold isL; destruct (is_last m2) eqn:El2; destruct m2 as [l2|s2]; cbn in *; rewrite ?El2; try reflexivity; destruct (tag_start (s_tag s2)); cbn; rewrite ?El2; reflexivity|].
      intro Hl. assert (Hl2 : is_last m2 = false).
      { destruct (is_last m2) eqn:El; [|reflexivity]. destruct m2; cbn in *; congruence. }
      rewrite Hl2. apply Hc4. exact Hl2.
    + destruct H2 as [Hb Hs]. split; [exact Hb|]. split; [exact Hs | congruence].
    + exact H2.
    + exact H2.
Qed.

(* ---- Parser::parse ---- *)
Definition active (p : parser) : mach := match p_dir p with Lex => ML (p_lexer p) | Scan => MS (p_scanner p) end.
Definition PI (p : parser) : Prop := p_dir p = Lex -> tags_none (p_scanner p).
Definition pT (last : bool) (r : parse_res) : Prop :=
  match r with
  | POk p' c' n => Tc c' /\ rcs_of c' <= n /\ n <= len /\ PI p' /\ (last = false -> Next (active p') (len - n))
  | PErr _ c' => Tc c'
  | PPanic k _ => k <> 10 /\ k <> 5
  | PFuel _ => True
  end.
Lemma Bnd_set_last m c b : Bnd m c -> Bnd (set_last m b) c.
Proof. destruct m; exact (fun H => H). Qed.
Lemma Bnd_bookmark m b c :
  Bm_ok b c -> (match m with MS s => tags_none s | ML _ => True end) -> Bnd (continue_from_bookmark m b) c.
Proof.
  intros (H1 & H2 & H3) Ht. split; [exact H1|]. split; [destruct m; exact H3|].
  destruct m as [l|s]; cbn.
  - split; [exact H2 | lia].
  - destruct Ht as [Ht1 Ht2]. split; [exact H2|]. split; [intros a Ha; cbn in Ha; congruence | left; exact Ht2].
Qed.

Lemma parse_loop_T fuel : forall p c last start,
  PI p ->
  match start with None => Bnd (active p) c | Some b => Bm_ok b c /\ tags_none (p_scanner p) end ->
  pT last (parse_loop ctl chunk base fuel p c last start).
Proof.
  induction fuel as [|f IH]; intros p c last start HPI Hst; cbn [parse_loop]; [exact I|].
  fold (active p).
  set (m1 := set_last (match start with Some b => continue_from_bookmark (active p) b | None => active p end) last).
  assert (HB : Bnd m1 c).
  { subst m1. apply Bnd_set_last. destruct start as [b|]; [|exact Hst]. destruct Hst as [Hb Ht].
    apply Bnd_bookmark; [exact Hb|]. unfold active. destruct (p_dir p); [exact I | exact Ht]. }
  assert (Hk : isL m1 = (match p_dir p with Lex => true | Scan => false end, last)).
  { subst m1. unfold active. destruct start, (p_dir p); reflexivity. }
  pose proof (run_loop_T (loop_fuel chunk) m1 c HB) as H. rewrite Hk in H.
  destruct (run_loop ctl chunk base (loop_fuel chunk) m1 c) as [m c' n|d b m c'|e c'|k c'|c']; cbn [lT pT] in *; auto.
  - (* end of input *)
    destruct H as (HT & Hr1 & Hr2 & Hkm & Hn).
    split; [exact HT|]. split; [exact Hr1|]. split; [exact Hr2|].
    unfold isL in Hkm. inversion Hkm as [[Hk1 Hk2]].
    destruct m as [l|s]; destruct (p_dir p) eqn:Ed; try discriminate; unfold PI, active; cbn.
    + split; [intros _; apply HPI; exact Ed|]. intro Hl. apply Hn. exact Hl.
    + split; [discriminate|]. intro Hl. apply Hn. exact Hl.
  - (* directive change *)
    destruct H as (Hb & Hsw & Hkm). unfold isL in Hkm. inversion Hkm as [[Hk1 Hk2]].
    apply IH.
    + unfold PI. destruct m as [l|s]; cbn; intro Hd.
      * apply HPI. destruct (p_dir p); [reflexivity | discriminate].
      * exact Hsw.
    + split; [exact Hb|]. destruct m as [l|s]; cbn.
      * apply HPI. destruct (p_dir p); [reflexivity | discriminate].
      * exact Hsw.
Qed.
End Chunk.

(* ------------------------------------------------------------------------------------------ *)
(* TransformStream: what the sink holds, plus what is buffered, is what was written           *)
Notation stream := (@stream C).
Definition buffered (s : stream) : bytes := if s_has_buf s then ar_data (s_arena s) else [].
Definition sd_ (s : stream) : disp := c_disp (s_ctx s).
Definition G (s : stream) (R : bytes) : Prop :=
  sb (sd_ s) ++ buffered s = R /\ d_rcs (sd_ s) = 0 /\ d_emission (sd_ s) = true /\ PI (s_parser s)
  /\ Next (active (s_parser s)) (length (buffered s)).

Lemma Bnd_of_Next chunk S0 m (c : @ctx C) k :
  Next m k -> k <= length chunk -> T chunk S0 (c_disp c) -> d_rcs (c_disp c) = 0 -> Bnd chunk S0 m c.
Proof.
  intros [Hn Hm] Hk HT Hr. split; [exact HT|]. split; [lia|]. unfold rcs_of. rewrite Hr.
  destruct m as [l|s]; cbn in *.
  - rewrite Hm. split; lia.
  - destruct Hm as [Ha Hb]. split; [lia|]. split; [|exact Hb]. intros a E. rewrite (Ha a E). lia.
Qed.

(* outcome of one call, in terms of the bytes written so far (R') *)
Definition call_post (s' : stream) (res : call_res) (R' : bytes) (bail_on : rw_error -> bool) : Prop :=
  match res with
  | COk => G s' R'
  | CErr e =>
      if bail_on e then exists pre B post, sb (sd_ s') = pre ++ B ++ post /\ pre ++ post = R'
      else exists post, sb (sd_ s') ++ post = R'
  | CPanic k => k <> 10 /\ k <> 5
  end.

Lemma sb_flush_for_bail_out (d : disp) input : sb (flush_for_bail_out d input) = sb d ++ skipn (d_rcs d) input.
Proof. unfold flush_for_bail_out. change (sb (d_with_rcs ?x 0)) with (sb x). apply sb_push_nonempty. Qed.
Lemma sb_run_bail (d : disp) e : exists B, sb (run_bail_out_handlers ctl d e) = sb d ++ B /\ d_rcs (run_bail_out_handlers ctl d e) = d_rcs d.
Proof.
  unfold run_bail_out_handlers. destruct (c_bail_out ctl (d_ctl d) e) as [c' ps]. exists (List.concat ps).
  rewrite sb_pieces, pieces_rcs. split; reflexivity.
Qed.

Hypothesis table_ok : forall st, state_ok (table st) = true.

Lemma arena_append_data a o M slice : ar_data (fst (arena_append a o M slice)) = ar_data a ++ slice \/ snd (arena_append a o M slice) = false.
Proof.
  unfold arena_append. destruct (_ <? _); [|left; reflexivity].
  destruct (limiter_ok _ _); [left; reflexivity | right; reflexivity].
Qed.
Definition flush_tail (r : nat) (fl : list bytes) : bytes :=
  match fl with [] => [] | x :: rest => skipn r x ++ List.concat rest end.
Lemma sb_fold_flush fl : forall d : disp, sb (fold_left flush_for_bail_out fl d) = sb d ++ flush_tail (d_rcs d) fl.
Proof.
  destruct fl as [|x rest]; intro d; cbn [fold_left flush_tail]; [rewrite app_nil_r; reflexivity|].
  assert (H : forall l (d1 : disp), d_rcs d1 = 0 -> sb (fold_left flush_for_bail_out l d1) = sb d1 ++ List.concat l).
  { induction l as [|y l IH]; intros d1 Hr; cbn; [rewrite app_nil_r; reflexivity|].
    rewrite IH by reflexivity. rewrite sb_flush_for_bail_out, Hr, <- app_assoc. reflexivity. }
  rewrite H by reflexivity. rewrite sb_flush_for_bail_out, <- app_assoc. reflexivity.
Qed.
Lemma bail_post (s1 : stream) (d : disp) e fl R' (f : rw_error -> bool) :
  f e = should_bail_out_for s1 e -> sb d ++ flush_tail (d_rcs d) fl = R' ->
  call_post (fst (bail ctl s1 d e fl)) (snd (bail ctl s1 d e fl)) R' f.
Proof.
  intros Hf HR. unfold bail. destruct (should_bail_out_for s1 e) eqn:Eb; cbn [fst snd call_post]; rewrite Hf.
  - destruct (sb_run_bail d e) as [B [HB1 HB2]].
    exists (sb d), B, (flush_tail (d_rcs d) fl). split; [|exact HR].
    unfold sd_, with_disp; cbn [s_ctx c_disp]. rewrite sb_fold_flush, HB1, HB2, <- app_assoc. reflexivity.
  - exists (flush_tail (d_rcs d) fl). exact HR.
Qed.

Lemma write_T s data R :
  G s R ->
  call_post (fst (write ctl s data)) (snd (write ctl s data)) (R ++ data) (should_bail_out_for s).
Proof.
  intros (Hsb & Hr0 & Hem & HPI & Hnx). unfold write. unfold sd_ in Hsb, Hr0, Hem.
  set (d0 := c_disp (s_ctx s)) in *.
  (* the chunk handed to the parser *)
  destruct (if s_has_buf s then arena_append (s_arena s) (c_mem_usage ctl (d_ctl d0)) (s_max_mem s) data else (s_arena s, true)) as [ar1 ok] eqn:Ea.
  destruct ok; cbn [negb].
  2: { (* the arena cannot take the new data *)
    destruct (s_has_buf s) eqn:Hb; [|inversion Ea].
    apply bail_post; [destruct MemoryLimitExceeded; reflexivity|].
    fold d0. rewrite Hr0. cbn [flush_tail skipn List.concat]. rewrite app_nil_r.
    unfold buffered in Hsb. rewrite Hb in Hsb. rewrite <- Hsb, <- app_assoc. reflexivity. }
  set (chunk := if s_has_buf s then ar_data ar1 else data).
  assert (Hchunk : chunk = buffered s ++ data).
  { subst chunk. unfold buffered. destruct (s_has_buf s); [|inversion Ea; reflexivity].
    pose proof (arena_append_data (s_arena s) (c_mem_usage ctl (d_ctl d0)) (s_max_mem s) data) as Had.
    rewrite Ea in Had. cbn in Had. destruct Had; [assumption | discriminate]. }
  set (c0 := mkCtx (c_sim (s_ctx s)) (d_with_ext d0 (ar_charged ar1))).
  assert (HT0 : T chunk (sb d0) (c_disp c0)).
  { split; [cbn; rewrite Hr0; cbn; rewrite app_nil_r; reflexivity|]. split; [cbn; rewrite Hr0; lia | exact Hem]. }
  assert (HB0 : Bnd chunk (sb d0) (active (s_parser s)) c0).
  { eapply Bnd_of_Next; [exact Hnx | rewrite Hchunk, app_length; lia | exact HT0 | exact Hr0]. }
  pose proof (parse_loop_T chunk (s_prev s) (sb d0) table_ok (parse_fuel chunk) (s_parser s) c0 false None HPI HB0) as Hp.
  assert (HR : sb d0 ++ chunk = R ++ data) by (rewrite Hchunk, app_assoc, Hsb; reflexivity).
  destruct (parse_loop ctl chunk (s_prev s) (parse_fuel chunk) (s_parser s) c0 false None) as [p' c' n|e c'|k c'|c'] eqn:Epl; cbn [pT] in Hp.
  - (* parsed *)
    destruct Hp as (HT' & Hn1 & Hn2 & HPI' & Hnx'). specialize (Hnx' eq_refl).
    destruct HT' as (Hs' & Hr' & He'). unfold rcs_of in Hn1.
    set (d := flush_remaining_input (c_disp c') chunk n).
    assert (Hd : sb d = sb d0 ++ firstn n chunk /\ d_rcs d = 0 /\ d_emission d = true).
    { subst d. unfold flush_remaining_input. rewrite He'.
      destruct (Nat.leb_spec (d_rcs (c_disp c')) n); [|lia]. destruct (Nat.leb_spec n (length chunk)); [|lia]. cbn [andb].
      split; [|split; [reflexivity | cbn; rewrite pn_emission; exact He']].
      change (sb (d_with_rcs ?x 0)) with (sb x). rewrite sb_push_nonempty, Hs', <- app_assoc, firstn_sub by lia. reflexivity. }
    destruct Hd as (Hd1 & Hd2 & Hd3).
    destruct (Nat.ltb_spec n (length chunk)).
    + destruct (s_has_buf s) eqn:Hb.
      * (* keep the tail in the arena *)
        cbn [fst snd call_post]. unfold G, sd_, buffered; cbn [s_ctx c_disp s_arena s_has_buf s_parser ar_data arena_shift].
        split; [fold d; rewrite Hd1, <- app_assoc; subst chunk; rewrite firstn_skipn; exact HR|].
        split; [exact Hd2|]. split; [exact Hd3|]. split; [exact HPI'|].
        rewrite skipn_length. subst chunk. exact Hnx'.
      * (* first buffering of a tail *)
        subst chunk.
        destruct (arena_init_with ar1 (c_mem_usage ctl (d_ctl d)) (s_max_mem s) (skipn n data)) as [ar2 ok2] eqn:Ei.
        destruct ok2; cbn [fst snd call_post].
        -- unfold G, sd_, buffered; cbn [s_ctx c_disp s_arena s_has_buf s_parser ar_data arena_shift].
           assert (Hd2' : ar_data ar2 = skipn n data).
           { unfold arena_init_with in Ei. pose proof (arena_append_data (mkArena (ar_cap ar1) [] (ar_charged ar1)) (c_mem_usage ctl (d_ctl d)) (s_max_mem s) (skipn n data)) as Had.
             rewrite Ei in Had. cbn in Had. destruct Had; [assumption | discriminate]. }
           split; [fold d; rewrite Hd1, Hd2', <- app_assoc, firstn_skipn; exact HR|].
           split; [exact Hd2|]. split; [exact Hd3|]. split; [exact HPI'|].
           rewrite Hd2', skipn_length. exact Hnx'.
        -- apply bail_post; [reflexivity|]. fold d. rewrite Hd2. cbn [flush_tail skipn List.concat]. rewrite app_nil_r.
           rewrite Hd1, <- app_assoc, firstn_skipn. exact HR.
    + (* everything consumed *)
      cbn [fst snd call_post]. unfold G, sd_, buffered; cbn [s_ctx c_disp s_arena s_has_buf s_parser ar_data arena_shift]. fold d.
      assert (n = length chunk) by lia. subst n.
      split; [rewrite app_nil_r, Hd1, firstn_all; exact HR|].
      split; [exact Hd2|]. split; [exact Hd3|]. split; [exact HPI'|].
      rewrite Nat.sub_diag in Hnx'. exact Hnx'.
  - (* error inside the parser *)
    destruct Hp as (Hs' & Hr' & He').
    apply bail_post; [destruct e; reflexivity|]. cbn [flush_tail List.concat]. rewrite app_nil_r.
    rewrite Hs', <- app_assoc, firstn_skipn. exact HR.
  - cbn. exact Hp.
  - cbn. split; discriminate.
Qed.

Definition finish_post (s' : stream) (res : call_res) (R : bytes) (bail_on : rw_error -> bool) : Prop :=
  match res with
  | COk => exists c, sb (sd_ s') = R ++ List.concat (snd (fst (c_end ctl c)))
  | CErr e => (exists c, sb (sd_ s') = R ++ List.concat (snd (fst (c_end ctl c)))) \/
              (if bail_on e then exists pre B post, sb (sd_ s') = pre ++ B ++ post /\ pre ++ post = R
               else exists post, sb (sd_ s') ++ post = R)
  | CPanic k => k <> 10 /\ k <> 5
  end.
Lemma finish_T s R :
  G s R -> finish_post (fst (finish ctl s)) (snd (finish ctl s)) R (should_bail_out_for s).
Proof.
  intros (Hsb & Hr0 & Hem & HPI & Hnx). unfold finish. unfold sd_ in Hsb, Hr0, Hem.
  set (d0 := c_disp (s_ctx s)) in *.
  set (chunk := if s_has_buf s then ar_data (s_arena s) else []).
  assert (Hchunk : chunk = buffered s) by reflexivity.
  set (c0 := mkCtx (c_sim (s_ctx s)) (d_with_ext d0 (ar_charged (s_arena s)))).
  assert (HT0 : T chunk (sb d0) (c_disp c0)).
  { split; [cbn; rewrite Hr0; cbn; rewrite app_nil_r; reflexivity|]. split; [cbn; rewrite Hr0; lia | exact Hem]. }
  assert (HB0 : Bnd chunk (sb d0) (active (s_parser s)) c0).
  { eapply Bnd_of_Next; [exact Hnx | rewrite Hchunk; lia | exact HT0 | exact Hr0]. }
  pose proof (parse_loop_T chunk (s_prev s) (sb d0) table_ok (parse_fuel chunk) (s_parser s) c0 true None HPI HB0) as Hp.
  assert (HR : sb d0 ++ chunk = R) by (rewrite Hchunk; exact Hsb).
  destruct (parse_loop ctl chunk (s_prev s) (parse_fuel chunk) (s_parser s) c0 true None) as [p' c' n|e c'|k c'|c'] eqn:Epl; cbn [pT] in Hp.
  - destruct Hp as (HT' & Hn1 & Hn2 & HPI' & _). destruct HT' as (Hs' & Hr' & He').
    set (d := flush_remaining_input (c_disp c') chunk (length chunk)).
    assert (Hd : sb d = R).
    { subst d. unfold flush_remaining_input. rewrite He'.
      destruct (Nat.leb_spec (d_rcs (c_disp c')) (length chunk)); [|lia]. rewrite Nat.leb_refl. cbn [andb].
      change (sb (d_with_rcs ?x 0)) with (sb x). rewrite sb_push_nonempty, Hs', <- app_assoc, firstn_sub, firstn_all by lia. exact HR. }
    destruct (c_end ctl (d_ctl d)) as [[cc pieces] r] eqn:Ee.
    destruct r as [e|]; cbn [fst snd finish_post]; unfold sd_; cbn [s_ctx c_disp].
    + left. exists (d_ctl d). rewrite Ee. cbn [fst snd]. rewrite sb_pieces. change (sb (d_with_ctl d cc)) with (sb d). rewrite Hd. reflexivity.
    + exists (d_ctl d). rewrite Ee. cbn [fst snd]. rewrite sb_push, app_nil_r, sb_pieces. change (sb (d_with_ctl d cc)) with (sb d). rewrite Hd. reflexivity.
  - destruct Hp as (Hs' & Hr' & He').
    pose proof (bail_post s (c_disp c') e [chunk] R (should_bail_out_for s) eq_refl) as Hb.
    cbn [flush_tail List.concat] in Hb. rewrite app_nil_r in Hb.
    specialize (Hb ltac:(rewrite Hs', <- app_assoc, firstn_skipn; exact HR)).
    destruct (bail ctl s (c_disp c') e [chunk]) as [s' res] eqn:Eb. cbn [fst snd] in *.
    assert (res = CErr e) by (unfold bail in Eb; destruct (should_bail_out_for s e); inversion Eb; reflexivity). subst res.
    cbn [call_post finish_post] in *. right. exact Hb.
  - exact Hp.
  - cbn. split; discriminate.
Qed.

(* ---- call histories ---- *)
Notation rewriter := (@rewriter C).
Lemma G_init cfg c0 : G (new_stream ctl cfg c0) [].
Proof.
  unfold G, new_stream, sd_, buffered, sb. cbn. split; [reflexivity|]. split; [reflexivity|]. split; [reflexivity|].
  split; [intros _; split; reflexivity|].
  unfold active. cbn. destruct (next_dir (c_initial_flags ctl c0)); cbn; split; auto. split; [intros a E; discriminate | left; reflexivity].
Qed.

Lemma writes_G : forall chunks (r0 : rewriter) R,
  G (rw_stream r0) R -> rw_poisoned r0 = false -> rw_ended r0 = false ->
  forall r res, api_run ctl r0 (map Write chunks) = (r, res) -> Forall (fun x => x = ROk) res ->
  G (rw_stream r) (R ++ List.concat chunks) /\ rw_poisoned r = false /\ rw_ended r = false.
Proof.
  induction chunks as [|ch chs IH]; intros r0 R HG Hp He r res Eq Hall; cbn in Eq.
  - inversion Eq; subst. cbn. rewrite app_nil_r. auto.
  - unfold api_step in Eq. rewrite He, Hp in Eq.
    pose proof (write_T (rw_stream r0) ch R HG) as Hw.
    destruct (write ctl (rw_stream r0) ch) as [s' cr]. cbn [fst snd] in Hw.
    destruct cr; cbn in Eq; destruct (api_run ctl _ (map Write chs)) as [r2 xs] eqn:Er; inversion Eq; subst; clear Eq;
      inversion Hall; subst; try discriminate.
    cbn [call_post] in Hw.
    destruct (IH (mkRw s' false false) (R ++ ch) Hw eq_refl eq_refl r xs Er H2) as (HG' & Hp' & He').
    cbn [List.concat]. rewrite app_assoc. auto.
Qed.

(* C01: observers that add nothing at the end of the document *)
Theorem pass_through cfg c0 chunks r res :
  (forall c, snd (fst (c_end ctl c)) = []) ->
  api_run ctl (new_rewriter ctl cfg c0) (map Write chunks ++ [End]) = (r, res) ->
  Forall (fun x => x = ROk) res ->
  sink_bytes (rw_sink r) = List.concat chunks.
Proof.
  intros Hend Eq Hall.
  assert (Hsplit : forall ops1 ops2 (r0 : rewriter), api_run ctl r0 (ops1 ++ ops2) =
            let (r1, x1) := api_run ctl r0 ops1 in let (r2, x2) := api_run ctl r1 ops2 in (r2, x1 ++ x2)).
  { induction ops1 as [|o ops1 IH1]; intros ops2 r0; cbn.
    - destruct (api_run ctl r0 ops2); reflexivity.
    - destruct (api_step ctl r0 o) as [r1 x]. rewrite IH1. destruct (api_run ctl r1 ops1) as [r2 xs]. destruct (api_run ctl r2 ops2). reflexivity. }
  rewrite Hsplit in Eq.
  destruct (api_run ctl (new_rewriter ctl cfg c0) (map Write chunks)) as [r1 x1] eqn:E1.
  destruct (api_run ctl r1 [End]) as [r2 x2] eqn:E2. inversion Eq; subst; clear Eq.
  apply Forall_app in Hall as [Hall1 Hall2].
  destruct (writes_G chunks (new_rewriter ctl cfg c0) [] (G_init cfg c0) eq_refl eq_refl r1 x1 E1 Hall1) as (HG & Hp & He).
  cbn in E2. unfold api_step in E2. rewrite He, Hp in E2.
  pose proof (finish_T (rw_stream r1) _ HG) as Hf.
  destruct (finish ctl (rw_stream r1)) as [s' cr]. cbn [fst snd] in Hf.
  destruct cr; inversion E2; subst; clear E2; inversion Hall2; subst; try discriminate.
  cbn [finish_post] in Hf. destruct Hf as [c Hc]. rewrite Hend, app_nil_r in Hc.
  unfold rw_sink. cbn [rw_stream]. exact Hc.
Qed.

(* C11 / C12: the first failing write.  With graceful bail-out the sink holds prefix ++ bail-out content ++ the
   rest of the received bytes; without it, a prefix of the received bytes. *)
Theorem first_failing_write cfg c0 chunks data r res r' e :
  api_run ctl (new_rewriter ctl cfg c0) (map Write chunks) = (r, res) ->
  Forall (fun x => x = ROk) res ->
  api_step ctl r (Write data) = (r', RErr e) ->
  let received := List.concat chunks ++ data in
  if should_bail_out_for (rw_stream r) e
  then exists pre B post, sink_bytes (rw_sink r') = pre ++ B ++ post /\ pre ++ post = received
  else exists post, sink_bytes (rw_sink r') ++ post = received.
Proof.
  intros E1 Hall Es.
  destruct (writes_G chunks (new_rewriter ctl cfg c0) [] (G_init cfg c0) eq_refl eq_refl r res E1 Hall) as (HG & Hp & He).
  unfold api_step in Es. rewrite He, Hp in Es.
  pose proof (write_T (rw_stream r) data _ HG) as Hw.
  destruct (write ctl (rw_stream r) data) as [s' cr]. cbn [fst snd] in Hw.
  destruct cr; inversion Es; subst; clear Es. cbn [call_post] in Hw. exact Hw.
Qed.

(* C15 (slice arithmetic): no call ever hits the slice / cursor-underflow panics of the model *)
Theorem no_slice_panic cfg c0 chunks r res k :
  api_run ctl (new_rewriter ctl cfg c0) (map Write chunks) = (r, res) ->
  In (RPanic k) res -> k <> 10 /\ k <> 5.
Proof.
  assert (H : forall chunks (r0 : rewriter) R, G (rw_stream r0) R -> rw_poisoned r0 = false -> rw_ended r0 = false ->
              forall r res, api_run ctl r0 (map Write chunks) = (r, res) -> In (RPanic k) res -> k <> 10 /\ k <> 5).
  { induction chunks0 as [|ch chs IH]; intros r0 R HG Hp He r1 res1 Eq Hin; cbn in Eq.
    - inversion Eq; subst. destruct Hin.
    - unfold api_step in Eq. rewrite He, Hp in Eq.
      pose proof (write_T (rw_stream r0) ch R HG) as Hw.
      destruct (write ctl (rw_stream r0) ch) as [s' cr]. cbn [fst snd] in Hw.
      destruct cr; cbn in Eq; destruct (api_run ctl _ (map Write chs)) as [r2 xs] eqn:Er; inversion Eq; subst; clear Eq.
      + destruct Hin as [Hx|Hin]; [discriminate|]. exact (IH (mkRw s' false false) (R ++ ch) Hw eq_refl eq_refl r1 xs Er Hin).
      + destruct Hin as [Hx|Hin]; [discriminate|].
        (* poisoned afterwards: only RPanicPoisoned follows *)
        assert (Hpo : forall ops (rp : rewriter) rq xs', rw_poisoned rp = true -> api_run ctl rp ops = (rq, xs') -> ~ In (RPanic k) xs').
        { induction ops as [|o ops IHo]; intros rp rq xs' Hpp Eq Hin'; cbn in Eq; [inversion Eq; subst; destruct Hin'|].
          unfold api_step in Eq. destruct (rw_ended rp).
          - destruct (api_run ctl rp ops) as [ra xa] eqn:Ea. inversion Eq; subst. destruct Hin' as [Hx|Hx]; [discriminate|]. eapply IHo; eauto.
          - rewrite Hpp in Eq. destruct (api_run ctl _ ops) as [ra xa] eqn:Ea. inversion Eq; subst. destruct Hin' as [Hx|Hx]; [discriminate|]. exact (IHo (mkRw (rw_stream rp) true (match o with Write _ => false | End => true end)) rq xa eq_refl Ea Hx). }
        exfalso. exact (Hpo (map Write chs) (mkRw s' true false) r1 xs eq_refl Er Hin).
      + destruct Hin as [Hx|Hin]; [inversion Hx; subst; exact Hw|].
        assert (Hpo : forall ops (rp : rewriter) rq xs', rw_poisoned rp = true -> api_run ctl rp ops = (rq, xs') -> ~ In (RPanic k) xs').
        { induction ops as [|o ops IHo]; intros rp rq xs' Hpp Eq Hin'; cbn in Eq; [inversion Eq; subst; destruct Hin'|].
          unfold api_step in Eq. destruct (rw_ended rp).
          - destruct (api_run ctl rp ops) as [ra xa] eqn:Ea. inversion Eq; subst. destruct Hin' as [Hx|Hx]; [discriminate|]. eapply IHo; eauto.
          - rewrite Hpp in Eq. destruct (api_run ctl _ ops) as [ra xa] eqn:Ea. inversion Eq; subst. destruct Hin' as [Hx|Hx]; [discriminate|]. exact (IHo (mkRw (rw_stream rp) true (match o with Write _ => false | End => true end)) rq xa eq_refl Ea Hx). }
        exfalso. exact (Hpo (map Write chs) (mkRw s' true false) r1 xs eq_refl Er Hin). }
  intros Eq Hin. exact (H chunks (new_rewriter ctl cfg c0) [] (G_init cfg c0) eq_refl eq_refl r res Eq Hin).
Qed.
End Tiling.
