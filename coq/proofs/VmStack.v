(* C04, middle layer (6): the stack of the selector VM holds, for every open element, the frontier of the AST:
   jumps = children of the nodes matched there, hereditary jumps = their descendant branches, matched ids = their ids;
   the active hereditary jumps are the de-duplicated union of the hereditary jumps of all open elements. *)
From LolModel Require Import Base Selectors.
From LolSpec Require Import CssSem.
From LolProofs Require Import CssPred AstSem Frontier VmExec CompileRepr.
From Coq Require Import Lia Bool List.
Import ListNotations.
Open Scope nat_scope.

(* ---------- the active hereditary jumps as a function of the items ---------- *)
Definition pushfold (acc : list (range * nat)) (hs : list range) (depth : nat) : list (range * nat) :=
  fold_left (fun acc r => if existsb (fun a => range_eqb (fst a) r) acc then acc else acc ++ [(r, depth)]) hs acc.
Fixpoint ahj_from (acc : list (range * nat)) (items : list stack_item) (d : nat) : list (range * nat) :=
  match items with [] => acc | it :: r => ahj_from (pushfold acc (si_hjumps it) d) r (S d) end.
Definition ahj (items : list stack_item) : list (range * nat) := ahj_from [] items 0.

Lemma range_eqb_eq a b : range_eqb a b = true <-> a = b.
Proof.
  unfold range_eqb. rewrite andb_true_iff, !Nat.eqb_eq. destruct a, b; cbn. split; [intros [-> ->]; reflexivity | intros E; injection E; auto].
Qed.
Lemma existsb_range acc r : existsb (fun a : range * nat => range_eqb (fst a) r) acc = true <-> In r (map fst acc).
Proof.
  rewrite existsb_exists, in_map_iff. split; intros [x [H1 H2]]; exists x.
  - apply range_eqb_eq in H2. auto.
  - split; [exact H2 | apply range_eqb_eq; exact H1].
Qed.
Lemma pushfold_spec d : forall hs acc, exists extra, pushfold acc hs d = acc ++ extra /\ Forall (fun a => snd a = d) extra /\
  forall r, In r (map fst (pushfold acc hs d)) <-> In r (map fst acc) \/ In r hs.
Proof.
  induction hs as [|h hs IH]; intros acc; cbn [pushfold fold_left].
  - exists []. rewrite app_nil_r. split; [reflexivity|]. split; [constructor|]. cbn. tauto.
  - fold (pushfold (if existsb (fun a => range_eqb (fst a) h) acc then acc else acc ++ [(h, d)]) hs d).
    destruct (existsb _ acc) eqn:Ex.
    + destruct (IH acc) as [extra [E [F M]]]. exists extra. split; [exact E|]. split; [exact F|]. intros r. rewrite M. apply existsb_range in Ex. cbn. intuition (subst; auto).
    + destruct (IH (acc ++ [(h, d)])) as [extra [E [F M]]]. exists ((h, d) :: extra). split; [rewrite E, <- app_assoc; reflexivity|].
      split; [constructor; [reflexivity | exact F]|]. intros r. rewrite M, map_app, in_app_iff. cbn. intuition (subst; auto).
Qed.
Lemma ahj_from_snoc it : forall items acc d, ahj_from acc (items ++ [it]) d = pushfold (ahj_from acc items d) (si_hjumps it) (d + length items).
Proof.
  induction items as [|x items IH]; intros acc d; cbn [app ahj_from length]; [rewrite Nat.add_0_r; reflexivity|].
  rewrite IH. f_equal. lia.
Qed.
Lemma ahj_snoc items it : ahj (items ++ [it]) = pushfold (ahj items) (si_hjumps it) (length items).
Proof. unfold ahj. rewrite ahj_from_snoc. reflexivity. Qed.
Lemma ahj_depths : forall items, Forall (fun a => snd a < length items) (ahj items).
Proof.
  induction items as [|it items IH] using rev_ind; [constructor|]. rewrite ahj_snoc, app_length. cbn [length].
  destruct (pushfold_spec (length items) (si_hjumps it) (ahj items)) as [extra [E [F _]]]. rewrite E. apply Forall_app. split.
  - eapply Forall_impl; [|exact IH]. cbn. intros a Ha. lia.
  - eapply Forall_impl; [|exact F]. cbn. intros a Ha. lia.
Qed.
Lemma ahj_mem r : forall items, In r (map fst (ahj items)) <-> exists it, In it items /\ In r (si_hjumps it).
Proof.
  induction items as [|it items IH] using rev_ind; [cbn; split; [tauto | intros [it [[] _]]]|].
  rewrite ahj_snoc. destruct (pushfold_spec (length items) (si_hjumps it) (ahj items)) as [extra [_ [_ M]]]. rewrite M, IH. split.
  - intros [[x [H1 H2]]|H]; [exists x; split; [apply in_or_app; auto | exact H2] | exists it; split; [apply in_or_app; right; left; reflexivity | exact H]].
  - intros [x [H1 H2]]. apply in_app_or in H1. destruct H1 as [H1|[<-|[]]]; [left; exists x; auto | right; exact H2].
Qed.
Lemma filter_all {A} (f : A -> bool) l : Forall (fun a => f a = true) l -> filter f l = l.
Proof. induction 1 as [|a l H _ IH]; cbn [filter]; [reflexivity | rewrite H, IH; reflexivity]. Qed.
Lemma filter_none {A} (f : A -> bool) l : Forall (fun a => f a = false) l -> filter f l = [].
Proof. induction 1 as [|a l H _ IH]; cbn [filter]; [reflexivity | rewrite H, IH; reflexivity]. Qed.
Lemma ahj_firstn index : forall items, index <= length items -> filter (fun a => snd a <? index) (ahj items) = ahj (firstn index items).
Proof.
  induction items as [|it items IH] using rev_ind; intros Hle.
  - cbn in Hle. replace index with 0 by lia. reflexivity.
  - rewrite app_length in Hle. cbn [length] in Hle. destruct (Nat.eq_dec index (length items + 1)) as [->|Hne].
    + rewrite firstn_all2 by (rewrite app_length; cbn; lia). apply filter_all. eapply Forall_impl; [|apply ahj_depths]. cbn. intros a Ha. apply Nat.ltb_lt. rewrite app_length in Ha. exact Ha.
    + rewrite firstn_app. replace (index - length items) with 0 by lia. cbn [firstn]. rewrite app_nil_r, <- IH by lia.
      rewrite ahj_snoc. destruct (pushfold_spec (length items) (si_hjumps it) (ahj items)) as [extra [E [F _]]]. rewrite E, filter_app.
      rewrite (filter_none _ extra); [apply app_nil_r|]. eapply Forall_impl; [|exact F]. cbn. intros a ->. apply Nat.ltb_ge. lia.
Qed.

(* ---------- an instruction represents at most one node ---------- *)
Fixpoint nsize (n : ast_node) : nat :=
  match n with Node _ ch ds _ => S (fold_right (fun x acc => nsize x + acc) 0 ch + fold_right (fun x acc => nsize x + acc) 0 ds) end.
Definition lsize (l : list ast_node) : nat := fold_right (fun x acc => nsize x + acc) 0 l.
Lemma nsize_eq n : nsize n = S (lsize (n_children n) + lsize (n_desc n)).
Proof. destruct n; reflexivity. Qed.
Lemma lsize_in x l : In x l -> nsize x <= lsize l.
Proof. induction l as [|y l IH]; [intros []|]. cbn [lsize fold_right]. fold (lsize l). intros [->|H]; [lia | specialize (IH H); lia]. Qed.

Section Unique.
Variable prog : program.
Lemma node_ext b b' : n_pred b = n_pred b' -> n_ids b = n_ids b' -> n_children b = n_children b' -> n_desc b = n_desc b' -> b = b'.
Proof. destruct b, b'; cbn. intros -> -> -> ->. reflexivity. Qed.
Lemma rnode_unique : forall k b b' i, nsize b <= k -> rnode prog b i -> rnode prog b' i -> b = b'.
Proof.
  induction k as [|k IH]; intros b b' i Hk H1 H2; [rewrite nsize_eq in Hk; lia|].
  apply rnode_eq in H1. apply rnode_eq in H2. destruct H1 as [P1 [I1 [J1 D1]]]. destruct H2 as [P2 [I2 [J2 D2]]].
  assert (Hl : forall l l' a, lsize l <= k -> length l = length l' -> rlist prog l a -> rlist prog l' a -> l = l').
  { induction l as [|x l IHl]; intros l' a Hs Hlen R1 R2; destruct l' as [|x' l']; try discriminate; [reflexivity|].
    apply rlist_cons in R1. apply rlist_cons in R2. destruct R1 as [A1 B1]. destruct R2 as [A2 B2]. cbn [lsize fold_right] in Hs. fold (lsize l) in Hs.
    f_equal; [apply (IH x x' (instr_at prog a)); [lia | exact A1 | exact A2] | apply (IHl l' (S a)); [lia | cbn in Hlen; lia | exact B1 | exact B2]]. }
  assert (Hj : forall ch ch' oj, lsize ch <= k -> jrep prog ch oj -> jrep prog ch' oj -> ch = ch').
  { intros ch ch' oj Hs A B. unfold jrep in A, B. destruct ch as [|x ch], ch' as [|x' ch']; [reflexivity | | |].
    - destruct B as [r [E _]]. rewrite A in E. discriminate.
    - destruct A as [r [E _]]. rewrite B in E. discriminate.
    - destruct A as [r [E [L R]]]. destruct B as [r' [E' [L' R']]]. rewrite E in E'. injection E' as <-.
      apply (Hl _ _ (rs r)); [exact Hs | apply (proj1 (Nat.add_cancel_l _ _ (rs r))); rewrite <- L, <- L'; reflexivity | exact R | exact R']. }
  rewrite nsize_eq in Hk. apply node_ext; [congruence | congruence | apply (Hj (n_children b) _ (i_jumps i)); [lia | exact J1 | exact J2] | apply (Hj (n_desc b) _ (i_hjumps i)); [lia | exact D1 | exact D2]].
Qed.
Lemma rrange_unique r bs bs' : rrange prog r bs -> rrange prog r bs' -> bs = bs'.
Proof.
  intros [L R] [L' R']. assert (Hlen : length bs = length bs') by lia. clear L L'. revert bs' Hlen R R'. generalize (rs r).
  induction bs as [|x l IHl]; intros a l' Hlen R1 R2; destruct l' as [|x' l']; try discriminate; [reflexivity|].
  apply rlist_cons in R1. apply rlist_cons in R2. destruct R1 as [A1 B1]. destruct R2 as [A2 B2].
  f_equal; [apply (rnode_unique (nsize x) x x' _ (le_n _) A1 A2) | apply (IHl (S a)); [cbn in Hlen; lia | exact B1 | exact B2]].
Qed.

(* ---------- facts about Reps ---------- *)
Lemma forall2_in_l {A B} (R : A -> B -> Prop) l l' x : Forall2 R l l' -> In x l -> exists y, In y l' /\ R x y.
Proof. induction 1 as [|a b l l' H _ IH]; [intros []|]. intros [<-|Hx]; [exists b; cbn; auto | destruct (IH Hx) as [y [H1 H2]]; exists y; cbn; auto]. Qed.
Lemma forall2_in_r {A B} (R : A -> B -> Prop) l l' y : Forall2 R l l' -> In y l' -> exists x, In x l /\ R x y.
Proof. induction 1 as [|a b l l' H _ IH]; [intros []|]. intros [<-|Hy]; [exists a; cbn; auto | destruct (IH Hy) as [x [H1 H2]]; exists x; cbn; auto]. Qed.
Lemma forall_exists_forall2 {A B} (R : A -> B -> Prop) l : Forall (fun x => exists y, R x y) l -> exists l', Forall2 R l l'.
Proof. induction 1 as [|a l [y Hy] _ [l' IH]]; [exists []; constructor | exists (y :: l'); constructor; assumption]. Qed.

Lemma reps_range rl ns r : Reps prog rl ns -> In r rl -> exists bs, rrange prog r bs /\ forall b, In b bs -> In b ns.
Proof.
  intros [nss [F M]] Hr. destruct (forall2_in_l _ _ _ _ F Hr) as [bs [H1 H2]]. exists bs. split; [exact H2|].
  intros b Hb. apply M. apply in_concat. exists bs. auto.
Qed.
Lemma reps_node rl ns b : Reps prog rl ns -> In b ns -> exists r bs, In r rl /\ rrange prog r bs /\ In b bs.
Proof.
  intros [nss [F M]] Hb. apply M in Hb. apply in_concat in Hb. destruct Hb as [bs [H1 H2]].
  destruct (forall2_in_r _ _ _ _ F H1) as [r [H3 H4]]. exists r, bs. auto.
Qed.

(* ---------- the stack invariant ---------- *)
Definition item_ok (it : stack_item) (e : elem) (JH : list ast_node * list ast_node) : Prop :=
  Reps prog (si_jumps it) (flat_map n_children (matched e (fst JH) (snd JH))) /\
  Reps prog (si_hjumps it) (flat_map n_desc (matched e (fst JH) (snd JH))) /\
  forall x, In x (ed_matched (si_data it)) <-> In x (ids_at e JH).
Fixpoint SI (items : list stack_item) (anc : list elem) (JH : list ast_node * list ast_node) : Prop :=
  match items, anc with
  | [], [] => True
  | it :: items', e :: anc' => item_ok it e JH /\ SI items' anc' (fstep JH e)
  | _, _ => False
  end.
Lemma SI_length : forall items anc JH, SI items anc JH -> length items = length anc.
Proof. induction items as [|it items IH]; intros [|e anc] JH H; cbn [SI] in H; try contradiction; [reflexivity|]. cbn [length]. f_equal. apply (IH _ _ (proj2 H)). Qed.
Lemma SI_snoc it e : forall items anc JH, SI items anc JH -> item_ok it e (fold_left fstep anc JH) -> SI (items ++ [it]) (anc ++ [e]) JH.
Proof.
  induction items as [|x items IH]; intros [|a anc] JH H Hok; cbn [SI] in H; try contradiction.
  - cbn [app SI fold_left] in *. auto.
  - cbn [app SI fold_left] in *. destruct H as [H1 H2]. split; [exact H1 | apply IH; assumption].
Qed.
Lemma SI_firstn k : forall items anc JH, SI items anc JH -> SI (firstn k items) (firstn k anc) JH.
Proof.
  induction k as [|k IH]; intros items anc JH H; [destruct items, anc; exact I|].
  destruct items as [|x items], anc as [|a anc]; cbn [SI] in H; try contradiction; [exact I|].
  cbn [firstn SI]. destruct H as [H1 H2]. split; [exact H1 | apply IH; exact H2].
Qed.
Definition pj (items : list stack_item) : list range := match rev items with p :: _ => si_jumps p | [] => [] end.
Lemma pj_cons x y items : pj (x :: y :: items) = pj (y :: items).
Proof. unfold pj. cbn [rev]. destruct (rev items) as [|z zs]; reflexivity. Qed.
Lemma SI_parent : forall items anc JH, SI items anc JH -> items <> [] -> Reps prog (pj items) (fst (fold_left fstep anc JH)).
Proof.
  induction items as [|x items IH]; intros [|a anc] JH H Hne; cbn [SI] in H; try contradiction.
  destruct H as [[H1 _] H2]. cbn [fold_left]. destruct items as [|y items].
  - destruct anc; [|contradiction]. cbn [fold_left]. exact H1.
  - rewrite pj_cons. apply IH; [exact H2 | discriminate].
Qed.
Lemma SI_H : forall items anc JH, SI items anc JH -> forall b,
  In b (snd (fold_left fstep anc JH)) <-> In b (snd JH) \/ exists it r bs, In it items /\ In r (si_hjumps it) /\ rrange prog r bs /\ In b bs.
Proof.
  induction items as [|x items IH]; intros [|a anc] JH H b; cbn [SI] in H; try contradiction.
  - cbn [fold_left]. split; [auto | intros [Hb|[it [_ [_ [[] _]]]]]; exact Hb].
  - destruct H as [[_ [H1 _]] H2]. cbn [fold_left]. rewrite (IH _ _ H2 b). unfold fstep. cbn [snd]. rewrite in_app_iff. split.
    + intros [[Hb|Hb]|[it [r [bs [A [B [C D]]]]]]].
      * left; exact Hb.
      * right. destruct (reps_node _ _ _ H1 Hb) as [r [bs [A [B C]]]]. exists x, r, bs. cbn; auto.
      * right. exists it, r, bs. cbn; auto.
    + intros [Hb|[it [r [bs [[<-|A] [B [C D]]]]]]].
      * left; left; exact Hb.
      * left; right. destruct (reps_range _ _ _ H1 B) as [bs' [C' D']]. rewrite (rrange_unique _ _ _ C C') in D. exact (D' _ D).
      * right. exists it, r, bs. auto.
Qed.
(* what one execution needs: the hereditary part of the frontier is the roots plus what the active hereditary jumps represent *)
Lemma SI_active items anc root : SI items anc ([], root) ->
  exists nssH, Forall2 (rrange prog) (map fst (ahj items)) nssH /\
  forall b, In b (snd (fold_left fstep anc ([], root))) <-> In b root \/ In b (concat nssH).
Proof.
  intros H.
  assert (Hhj : forall it r, In it items -> In r (si_hjumps it) -> exists bs, rrange prog r bs).
  { clear - H. revert anc H. generalize ([] : list ast_node, root). induction items as [|x items IH]; intros JH [|a anc] H it r Hi Hr; cbn [SI] in H; try contradiction.
    destruct H as [[_ [H1 _]] H2]. destruct Hi as [<-|Hi]; [destruct (reps_range _ _ _ H1 Hr) as [bs [Hb _]]; exists bs; exact Hb | exact (IH _ _ H2 it r Hi Hr)]. }
  assert (HF : Forall (fun r => exists bs, rrange prog r bs) (map fst (ahj items))).
  { apply Forall_forall. intros r Hr. apply ahj_mem in Hr. destruct Hr as [it [A B]]. exact (Hhj it r A B). }
  destruct (forall_exists_forall2 _ _ HF) as [nssH F]. exists nssH. split; [exact F|]. intros b. rewrite (SI_H _ _ _ H b). cbn [snd]. split.
  - intros [Hb|[it [r [bs [A [B [C D]]]]]]]; [left; exact Hb | right].
    assert (Hr : In r (map fst (ahj items))) by (apply ahj_mem; exists it; auto).
    destruct (forall2_in_l _ _ _ _ F Hr) as [bs' [A' C']]. rewrite (rrange_unique _ _ _ C C') in D. apply in_concat. exists bs'. auto.
  - intros [Hb|Hb]; [left; exact Hb | right]. apply in_concat in Hb. destruct Hb as [bs [A D]].
    destruct (forall2_in_r _ _ _ _ F A) as [r [Hr C]]. apply ahj_mem in Hr. destruct Hr as [it [A' B']]. exists it, r, bs. auto.
Qed.
End Unique.
