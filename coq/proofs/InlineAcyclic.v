(* C15 (no stack exhaustion from the tokenizer): a transition written `--> #[inline] state` is a direct call of the state
   function (src/parser/state_machine/syntax_dsl/action.rs: "the calls using #[inline] must never create a loop"); every
   other transition returns to the parsing loop first.  On the regenerated table the inline edges form no cycle, so the
   depth of nested state-function calls is bounded by the number of states, whatever the input. *)
From LolGen Require Import StateTable.
From Coq Require Import List Bool Arith.
Import ListNotations.

Fixpoint al_inline (al : alist) : list state :=
  match al with
  | AL _ (T_goto s true) => [s]
  | AL _ _ => []
  | AL_if _ t e => al_inline t ++ al_inline e
  end.
Definition inline_succ (st : state) : list state := flat_map (fun pa => al_inline (snd pa)) (sd_arms (table st)).
Definition mem (s : state) (l : list state) : bool := existsb (state_eqb s) l.
Fixpoint dedup (l acc : list state) : list state :=
  match l with [] => acc | x :: r => if mem x acc then dedup r acc else dedup r (acc ++ [x]) end.
(* the states reachable in exactly n inline steps *)
Fixpoint frontier (n : nat) (l : list state) : list state :=
  match n with O => l | S k => frontier k (dedup (flat_map inline_succ l) []) end.
Definition on_inline_cycle (st : state) : bool :=
  existsb (fun k => mem st (frontier (S k) [st])) (seq 0 (length all_states)).
Definition inline_edges : nat := length (flat_map inline_succ all_states).

Theorem inline_transitions_form_no_cycle : forallb (fun st => negb (on_inline_cycle st)) all_states = true.
Proof. vm_compute. reflexivity. Qed.
(* the check is not vacuous: there are inline transitions, some of them chained *)
Example inline_transitions_exist : 0 < inline_edges /\ existsb (fun st => negb (match frontier 2 [st] with [] => true | _ => false end)) all_states = true.
Proof. vm_compute. split; [repeat constructor | reflexivity]. Qed.
