(* C04: facts tying the executable pieces of selector matching (model of src/selectors_vm, src/html/local_name.rs)
   to the reference CSS semantics of spec/CssSem.v. *)
From LolModel Require Import Base TreeBuilder Selectors.
From LolSpec Require Import CssSem.
From LolGen Require Import Constants.
From Coq Require Import ZArith Lia Bool List.
Import ListNotations.
Open Scope Z_scope.

(* ---------- An+B ---------- *)
Lemma an_plus_b_spec a b i : an_plus_b a b i = true <-> exists n, 0 <= n /\ a * n + b = i.
Proof.
  unfold an_plus_b. destruct (Z.eqb_spec a 0) as [->|Ha].
  - rewrite Z.eqb_eq. split; [intros ->; exists 0; lia | intros [n [_ H]]; lia].
  - rewrite andb_true_iff, Z.eqb_eq, Z.leb_le. split.
    + intros [Hm Hq]. exists ((i - b) / a). split; [exact Hq|].
      pose proof (Z.div_mod (i - b) a Ha). lia.
    + intros [n [Hn H]]. assert (E : i - b = n * a) by lia. rewrite E.
      rewrite Z.mod_mul, Z.div_mul by exact Ha. split; [reflexivity | exact Hn].
Qed.

Definition in_i32 (z : Z) : Prop := -2147483648 <= z < 2147483648.
Lemma wrap32_id z : in_i32 z -> wrap32 z = z.
Proof. unfold in_i32, wrap32. intros H. rewrite Z.mod_small; lia. Qed.

(* NthChild::has_index decides An+B: the difference index - b is exact (i64) in the source today; were it computed with
   wrapping i32 arithmetic (HAS_INDEX_WIDE = false) the statement would need in_i32 (i - b) *)
Lemma has_index_correct_gen a b i : HAS_INDEX_WIDE = true \/ in_i32 (i - b) -> has_index a b i = an_plus_b a b i.
Proof.
  intros Hr. unfold has_index, an_plus_b.
  assert (Hd : (if HAS_INDEX_WIDE then i - b else wrap32 (i - b)) = i - b).
  { destruct HAS_INDEX_WIDE; [reflexivity|]. destruct Hr as [Hr|Hr]; [discriminate | exact (wrap32_id _ Hr)]. }
  rewrite Hd. clear Hd Hr.
  destruct (Z.eqb_spec a 0) as [->|Ha].
  - destruct (Z.eqb_spec (i - b) 0), (Z.eqb_spec i b); try reflexivity; lia.
  - set (d := i - b).
    destruct ((d <? 0) && (0 <? a) || (0 <? d) && (a <? 0)) eqn:Hs.
    + symmetry. apply andb_false_iff.
      destruct (Z.eqb_spec (d mod a) 0) as [Hm|Hm]; [right | left; reflexivity].
      apply Z.leb_gt.
      apply orb_true_iff in Hs. destruct Hs as [Hs|Hs]; apply andb_true_iff in Hs; destruct Hs as [H1 H2];
        apply Z.ltb_lt in H1; apply Z.ltb_lt in H2.
      * apply Z.div_lt_upper_bound; lia.
      * pose proof (Z.div_mod d a Ha). rewrite Hm in H.
        destruct (Z_lt_le_dec (d / a) 0) as [Hq|Hq]; [exact Hq | exfalso; nia].
    + assert (Hq : 0 <= d / a).
      { apply orb_false_iff in Hs. destruct Hs as [H1 H2].
        apply andb_false_iff in H1. apply andb_false_iff in H2.
        rewrite !Z.ltb_ge in H1, H2.
        destruct (Z_lt_le_dec 0 a) as [Hpos|Hneg].
        - apply Z.div_pos; lia.
        - assert (a < 0) by lia. assert (d <= 0) by lia.
          rewrite <- Z.div_opp_opp by exact Ha. apply Z.div_pos; lia. }
      apply Z.leb_le in Hq. rewrite Hq, andb_true_r.
      destruct (Z.eqb_spec (Z.rem d a) 0) as [Hr0|Hr0], (Z.eqb_spec (d mod a) 0) as [Hm|Hm]; try reflexivity; exfalso.
      * apply Hm. apply Z.mod_divide; [exact Ha|]. apply Z.rem_divide; assumption.
      * apply Hr0. apply Z.rem_divide; [exact Ha|]. apply Z.mod_divide; assumption.
Qed.
Lemma has_index_correct a b i : in_i32 (i - b) -> has_index a b i = an_plus_b a b i.
Proof. intros H. apply has_index_correct_gen. right. exact H. Qed.
(* with the exact difference (fix 9d5b935) no side condition is left *)
Theorem has_index_exact a b i : has_index a b i = an_plus_b a b i.
Proof. apply has_index_correct_gen. left. reflexivity. Qed.
(* the very edge of i32: `:nth-child(n - 2147483648)` matches the first child (it did not while the subtraction wrapped) *)
Example has_index_at_i32_edge : has_index 1 (-2147483648) 1 = true /\ an_plus_b 1 (-2147483648) 1 = true.
Proof. split; vm_compute; reflexivity. Qed.

(* ---------- LocalNameHash is faithful: comparing LocalNames is ASCII-case-insensitive name equality ---------- *)
Open Scope N_scope.
Require Import ZifyBool ZifyN.
Ltac Zify.zify_post_hook ::= Z.div_mod_to_equations.

(* the 5-bit digit of a representable character *)
Definition hdigit (first : bool) (c : N) : option N :=
  if is_alpha c then Some (c mod 32 + 5)
  else if (49 <=? c) && (c <=? 54) && negb first then Some (c mod 16 - 1)
  else None.

Lemma land_31 c : N.land c 31 = c mod 32.
Proof. change 31 with (N.ones 5). rewrite N.land_ones. reflexivity. Qed.
Lemma land_15 c : N.land c 15 = c mod 16.
Proof. change 15 with (N.ones 4). rewrite N.land_ones. reflexivity. Qed.
Lemma lor_shift5 h v : v < 32 -> N.lor (N.shiftl h 5) v = h * 32 + v.
Proof.
  intros Hv. rewrite N.shiftl_mul_pow2. change (2 ^ 5) with 32.
  rewrite <- N.lxor_lor, <- N.add_nocarry_lxor; try reflexivity.
  all: apply N.bits_inj; intros n; rewrite N.land_spec, N.bits_0;
    destruct (N.lt_ge_cases n 5) as [Hn|Hn].
  1,3: replace (h * 32) with (h * 2 ^ 5) by reflexivity; rewrite N.mul_pow2_bits_low by exact Hn; reflexivity.
  all: replace (N.testbit v n) with false; [apply andb_false_r|];
    symmetry; destruct (N.eq_dec v 0) as [->|Hz]; [apply N.bits_0|];
    apply N.bits_above_log2; apply N.lt_le_trans with 5; [|exact Hn];
    apply N.log2_lt_pow2; [lia | exact Hv].
Qed.
Lemma shiftr_59 h : (N.shiftr h 59 =? 0) = (h <? 2 ^ 59).
Proof.
  rewrite N.shiftr_div_pow2.
  destruct (N.ltb_spec h (2 ^ 59)) as [H|H].
  - apply N.eqb_eq. apply N.div_small. exact H.
  - apply N.eqb_neq. intros E. apply N.div_small_iff in E; [lia | discriminate].
Qed.

Lemma hdigit_bound f c d : hdigit f c = Some d -> d < 32.
Proof.
  unfold hdigit, is_alpha. intros H.
  destruct ((97 <=? c) && (c <=? 122) || (65 <=? c) && (c <=? 90)) eqn:Ea.
  - injection H as <-. lia.
  - destruct ((49 <=? c) && (c <=? 54) && negb f) eqn:Ed; [|discriminate]. injection H as <-. lia.
Qed.

(* one step of the hash in arithmetic form *)
Lemma hash_update_arith h c :
  hash_update h c =
  if h <? 2 ^ 59 then match hdigit (h =? 0) c with Some d => h * 32 + d | None => EMPTY_HASH end
  else EMPTY_HASH.
Proof.
  unfold hash_update. change (64 - HASH_BITS_PER_CHAR) with 59. rewrite shiftr_59.
  destruct (N.ltb_spec h (2 ^ 59)) as [Hh|Hh]; [|reflexivity].
  unfold hdigit. change HASH_BITS_PER_CHAR with 5. change HASH_ALPHA_OFFSET with 5. change HASH_DIGIT_NEEDS_PREFIX with true.
  cbn [negb orb].
  destruct (is_alpha c) eqn:Ea.
  - rewrite land_31. assert (Hd : c mod 32 + 5 < 32) by (unfold is_alpha in Ea; lia).
    rewrite lor_shift5 by exact Hd. apply N.mod_small.
    assert (h * 32 + (c mod 32 + 5) < 2 ^ 59 * 32) by lia. exact H.
  - destruct ((49 <=? c) && (c <=? 54)) eqn:Ed; cbn [andb]; [|reflexivity].
    destruct (h =? 0) eqn:Ez; cbn [negb]; [reflexivity|].
    rewrite land_15. assert (Hd : c mod 16 - 1 < 32) by lia.
    rewrite lor_shift5 by exact Hd. apply N.mod_small.
    assert (h * 32 + (c mod 16 - 1) < 2 ^ 59 * 32) by lia. exact H.
Qed.

Lemma hdigit_lower f c : hdigit f (lower c) = hdigit f c.
Proof.
  unfold lower. destruct (is_upper c) eqn:Eu; [|reflexivity].
  unfold is_upper in Eu. unfold hdigit, is_alpha.
  replace ((97 <=? c + 32) && (c + 32 <=? 122) || (65 <=? c + 32) && (c + 32 <=? 90)) with true by lia.
  replace ((97 <=? c) && (c <=? 122) || (65 <=? c) && (c <=? 90)) with true by lia.
  f_equal. lia.
Qed.
Lemma hash_update_lower h c : hash_update h (lower c) = hash_update h c.
Proof. rewrite !hash_update_arith, hdigit_lower. reflexivity. Qed.

Lemma hdigit_inj f f' c c' d : hdigit f c = Some d -> hdigit f' c' = Some d -> lower c = lower c'.
Proof.
  unfold hdigit, lower, is_upper, is_alpha. intros H H'.
  destruct ((97 <=? c) && (c <=? 122) || (65 <=? c) && (c <=? 90)) eqn:Ea;
  destruct ((97 <=? c') && (c' <=? 122) || (65 <=? c') && (c' <=? 90)) eqn:Ea'.
  - injection H as <-. injection H' as H'.
    destruct ((65 <=? c) && (c <=? 90)) eqn:Eu; destruct ((65 <=? c') && (c' <=? 90)) eqn:Eu'; lia.
  - destruct ((49 <=? c') && (c' <=? 54) && negb f') eqn:Ed; [|discriminate]. injection H as <-. injection H' as H'. lia.
  - destruct ((49 <=? c) && (c <=? 54) && negb f) eqn:Ed; [|discriminate]. injection H as <-. injection H' as H'. lia.
  - destruct ((49 <=? c) && (c <=? 54) && negb f) eqn:Ed; [|discriminate].
    destruct ((49 <=? c') && (c' <=? 54) && negb f') eqn:Ed'; [|discriminate].
    injection H as <-. injection H' as H'.
    replace ((65 <=? c) && (c <=? 90)) with false by lia. replace ((65 <=? c') && (c' <=? 90)) with false by lia. lia.
Qed.
Lemma hdigit_first_nonzero c d : hdigit true c = Some d -> 6 <= d.
Proof.
  unfold hdigit, is_alpha. rewrite andb_false_r.
  destruct ((97 <=? c) && (c <=? 122) || (65 <=? c) && (c <=? 90)) eqn:Ea; [|discriminate].
  intros H. injection H as <-. lia.
Qed.

Lemma hash_of_snoc s c : hash_of (s ++ [c]) = hash_update (hash_of s) c.
Proof. unfold hash_of. rewrite fold_left_app. reflexivity. Qed.
Lemma EMPTY_HASH_val : EMPTY_HASH = 18446744073709551615.
Proof. reflexivity. Qed.

(* a successful step: the previous hash was in range, the character representable, and the value is h*32+d *)
Lemma hash_update_ok h c : hash_update h c <> EMPTY_HASH ->
  h < 2 ^ 59 /\ exists d, hdigit (h =? 0) c = Some d /\ d < 32 /\ hash_update h c = h * 32 + d.
Proof.
  rewrite hash_update_arith. destruct (N.ltb_spec h (2 ^ 59)) as [Hh|Hh]; [|intros H; exfalso; apply H; reflexivity].
  destruct (hdigit (h =? 0) c) as [d|] eqn:Ed; [|intros H; exfalso; apply H; reflexivity].
  intros _. split; [exact Hh|]. exists d. split; [reflexivity|]. split; [eapply hdigit_bound; exact Ed | reflexivity].
Qed.
Lemma hash_update_nonzero h c : hash_update h c <> 0.
Proof.
  destruct (N.eq_dec (hash_update h c) EMPTY_HASH) as [E|E]; [rewrite E; discriminate|].
  destruct (hash_update_ok h c E) as [Hh [d [Hd [Hb ->]]]].
  destruct (N.eqb_spec h 0) as [->|Hz]; [apply hdigit_first_nonzero in Hd; lia | lia].
Qed.
Lemma hash_of_nonempty s c : hash_of (s ++ [c]) <> 0.
Proof. rewrite hash_of_snoc. apply hash_update_nonzero. Qed.

Lemma eq_ignore_case_snoc s t c c' : eq_ignore_case s t = true -> lower c = lower c' -> eq_ignore_case (s ++ [c]) (t ++ [c']) = true.
Proof.
  revert t. induction s as [|x s IH]; intros [|y t] H Hc; cbn in *; try discriminate.
  - rewrite Hc, N.eqb_refl. reflexivity.
  - apply andb_true_iff in H. destruct H as [H1 H2]. rewrite H1. cbn. apply IH; assumption.
Qed.
Lemma eq_ignore_case_hash s t h : eq_ignore_case s t = true -> fold_left hash_update s h = fold_left hash_update t h.
Proof.
  revert t h. induction s as [|x s IH]; intros [|y t] h H; cbn in *; try discriminate; [reflexivity|].
  apply andb_true_iff in H. destruct H as [H1 H2]. apply N.eqb_eq in H1.
  rewrite <- (hash_update_lower h x), <- (hash_update_lower h y), H1. apply IH. exact H2.
Qed.

Lemma hash_injective s : forall t, hash_of s = hash_of t -> hash_of s <> EMPTY_HASH -> eq_ignore_case s t = true.
Proof.
  induction s as [|c s IH] using rev_ind; intros t; destruct t as [|c' t] using rev_ind; intros He Hn.
  - reflexivity.
  - exfalso. symmetry in He. change (hash_of []) with 0 in He. exact (hash_of_nonempty _ _ He).
  - exfalso. change (hash_of []) with 0 in He. exact (hash_of_nonempty _ _ He).
  - clear IHt. rewrite !hash_of_snoc in *.
    destruct (hash_update_ok _ _ Hn) as [Hs [d [Hd [Hdb Es]]]].
    assert (Hn' : hash_update (hash_of t) c' <> EMPTY_HASH) by (rewrite <- He; exact Hn).
    destruct (hash_update_ok _ _ Hn') as [Ht [d' [Hd' [Hdb' Et]]]].
    rewrite Es, Et in He.
    assert (Hh : hash_of s = hash_of t) by lia. assert (Hdd : d = d') by lia. subst d'.
    apply eq_ignore_case_snoc.
    + apply IH; [exact Hh|]. rewrite EMPTY_HASH_val. lia.
    + eapply hdigit_inj; eassumption.
Qed.

(* LocalName equality (hash when representable, bytes otherwise) is exactly ASCII-case-insensitive equality of the names *)
Theorem local_name_eq_is_case_insensitive_name_eq s t :
  lname_eqb (lname_of_str s) (lname_of_str t) = eq_ignore_case s t.
Proof.
  unfold lname_of_str, lname_of.
  destruct (eq_ignore_case s t) eqn:E.
  - pose proof (eq_ignore_case_hash s t 0 E) as Hh. fold (hash_of s) in Hh. fold (hash_of t) in Hh.
    rewrite <- Hh. destruct (hash_of s =? EMPTY_HASH); cbn; [exact E | apply N.eqb_refl].
  - destruct (N.eqb_spec (hash_of s) EMPTY_HASH) as [Hs|Hs]; destruct (N.eqb_spec (hash_of t) EMPTY_HASH) as [Ht|Ht]; cbn; try reflexivity; [exact E|].
    destruct (N.eqb_spec (hash_of s) (hash_of t)) as [He|He]; [|reflexivity].
    rewrite (hash_injective s t He Hs) in E. discriminate.
Qed.

(* ---------- the attribute matcher decides the six CSS attribute operators ---------- *)
Open Scope nat_scope.
Definition eqc (ins : bool) (a b : N) : bool := if ins then (lower a =? lower b)%N else (a =? b)%N.

Lemma cs_eq_cons ins x a y b : cs_eq ins (x :: a) (y :: b) = eqc ins x y && cs_eq ins a b.
Proof. destruct ins; reflexivity. Qed.
Lemma cs_eq_nil_l ins b : cs_eq ins [] b = match b with [] => true | _ => false end.
Proof. destruct ins, b; reflexivity. Qed.
Lemma cs_eq_nil_r ins a : cs_eq ins a [] = match a with [] => true | _ => false end.
Proof. destruct ins, a; reflexivity. Qed.
Lemma cs_eq_length ins a b : cs_eq ins a b = true -> length a = length b.
Proof.
  revert b. induction a as [|x a IH]; intros [|y b]; rewrite ?cs_eq_nil_l, ?cs_eq_nil_r, ?cs_eq_cons; try discriminate; [reflexivity|].
  intros H. apply andb_true_iff in H. cbn. f_equal. apply IH. apply H.
Qed.
Lemma cs_eq_starts ins a b : cs_eq ins a b = (length a =? length b) && starts_with (eqc ins) a b.
Proof.
  revert b. induction a as [|x a IH]; intros [|y b]; rewrite ?cs_eq_nil_l, ?cs_eq_nil_r, ?cs_eq_cons; try reflexivity.
  cbn [length starts_with Nat.eqb]. rewrite IH. destruct (eqc ins x y), (length a =? length b); reflexivity.
Qed.
Lemma starts_with_firstn ins s p : starts_with (eqc ins) s p = (length p <=? length s) && cs_eq ins (firstn (length p) s) p.
Proof.
  revert s. induction p as [|y p IH]; intros s.
  - cbn. rewrite cs_eq_nil_r. destruct s; reflexivity.
  - destruct s as [|x s]; [reflexivity|]. cbn [starts_with length firstn Nat.leb]. rewrite cs_eq_cons, IH.
    destruct (eqc ins x y), (length p <=? length s); reflexivity.
Qed.
Lemma cs_eq_app ins a b c d : length a = length b -> cs_eq ins (a ++ c) (b ++ d) = cs_eq ins a b && cs_eq ins c d.
Proof.
  revert b. induction a as [|x a IH]; intros [|y b] H; try discriminate; [destruct ins; reflexivity|].
  cbn [app]. rewrite !cs_eq_cons, IH by (injection H as H; exact H). apply andb_assoc.
Qed.
Lemma cs_eq_rev ins a : forall b, cs_eq ins (rev a) (rev b) = cs_eq ins a b.
Proof.
  induction a as [|x a IH]; intros [|y b].
  - reflexivity.
  - cbn [rev]. rewrite !cs_eq_nil_l. destruct (rev b); reflexivity.
  - cbn [rev]. rewrite !cs_eq_nil_r. destruct (rev a); reflexivity.
  - cbn [rev]. rewrite cs_eq_cons.
    destruct (Nat.eq_dec (length a) (length b)) as [E|E].
    + rewrite cs_eq_app by (rewrite !rev_length; exact E). rewrite IH, cs_eq_cons, cs_eq_nil_l, andb_true_r. apply andb_comm.
    + replace (cs_eq ins a b) with false; [rewrite andb_false_r|symmetry; destruct (cs_eq ins a b) eqn:H; [apply cs_eq_length in H; contradiction|reflexivity]].
      destruct (cs_eq ins (rev a ++ [x]) (rev b ++ [y])) eqn:H; [|reflexivity].
      apply cs_eq_length in H. rewrite !app_length, !rev_length in H. cbn in H. lia.
Qed.
Lemma starts_with_app ins s p q : starts_with (eqc ins) s (p ++ q) = starts_with (eqc ins) s p && starts_with (eqc ins) (skipn (length p) s) q.
Proof.
  revert s. induction p as [|y p IH]; intros s; [destruct s; reflexivity|].
  destruct s as [|x s]; cbn [app starts_with length skipn].
  - destruct q; reflexivity.
  - rewrite IH. apply andb_assoc.
Qed.
Lemma lower_is_dash c : (lower c =? lower 45)%N = (c =? 45)%N.
Proof. unfold lower, is_upper. change ((65 <=? 45)%N && (45 <=? 90)%N) with false. cbv iota. destruct ((65 <=? c)%N && (c <=? 90)%N) eqn:E; lia. Qed.

Lemma attr_eq_correct ins a v : cs_eq ins a v = css_attr_cmp OpEq ins a v.
Proof. unfold css_attr_cmp. apply cs_eq_starts. Qed.

Lemma attr_prefix_correct ins a v : attr_cmp OpPrefix ins a v = css_attr_cmp OpPrefix ins a v.
Proof. unfold attr_cmp, css_attr_cmp. fold (eqc ins). rewrite starts_with_firstn, andb_assoc. reflexivity. Qed.

Lemma attr_suffix_correct ins a v : attr_cmp OpSuffix ins a v = css_attr_cmp OpSuffix ins a v.
Proof.
  unfold attr_cmp, css_attr_cmp. fold (eqc ins). rewrite starts_with_firstn, !rev_length.
  rewrite firstn_rev, cs_eq_rev, andb_assoc. reflexivity.
Qed.

Lemma attr_dash_correct ins a v : attr_cmp OpDash ins a v = css_attr_cmp OpDash ins a v.
Proof.
  unfold attr_cmp, css_attr_cmp. fold (eqc ins). rewrite <- cs_eq_starts. f_equal.
  rewrite starts_with_app, starts_with_firstn.
  assert (Hn : starts_with (eqc ins) (skipn (length v) a) [45%N] = match nth_error a (length v) with Some c => (c =? 45)%N | None => false end).
  { rewrite <- (firstn_skipn (length v) a) at 2.
    destruct (Nat.leb_spec (length v) (length a)) as [Hl|Hl].
    - rewrite nth_error_app2 by (rewrite firstn_length; lia). rewrite firstn_length, Nat.min_l by exact Hl. rewrite Nat.sub_diag.
      destruct (skipn (length v) a) as [|c r]; [reflexivity|]. cbn [starts_with nth_error]. replace (starts_with (eqc ins) r []) with true by (destruct r; reflexivity). rewrite andb_true_r.
      unfold eqc. destruct ins; [apply lower_is_dash | reflexivity].
    - rewrite skipn_all2 by lia. rewrite app_nil_r, firstn_all2 by lia.
      replace (nth_error a (length v)) with (@None N) by (symmetry; apply nth_error_None; lia). reflexivity. }
  rewrite Hn.
  destruct (nth_error a (length v)) as [c|] eqn:En.
  - assert (length v < length a) by (apply nth_error_Some; rewrite En; discriminate).
    replace (length v <=? length a) with true by (symmetry; apply Nat.leb_le; lia). cbn [andb]. apply andb_comm.
  - rewrite !andb_false_r. reflexivity.
Qed.

Lemma infix_short ins s p : length s < length p -> infix_of (eqc ins) s p = false.
Proof.
  induction s as [|x s IH]; intros H; cbn [infix_of]; rewrite starts_with_firstn.
  - replace (length p <=? length (@nil N)) with false by (symmetry; apply Nat.leb_gt; exact H). reflexivity.
  - replace (length p <=? length (x :: s)) with false by (symmetry; apply Nat.leb_gt; exact H). cbn [andb orb].
    apply IH. cbn in H. lia.
Qed.
Lemma has_substring_infix ins p : forall s fuel, length s < fuel -> has_substring ins s p fuel = infix_of (eqc ins) s p.
Proof.
  induction s as [|x s IH]; intros fuel Hf; (destruct fuel as [|f]; [lia|]); cbn [has_substring].
  - cbn [infix_of]. rewrite starts_with_firstn, orb_false_r.
    destruct (Nat.ltb_spec (length (@nil N)) (length p)) as [H|H].
    + replace (length p <=? length (@nil N)) with false by (symmetry; apply Nat.leb_gt; exact H). reflexivity.
    + replace (length p <=? length (@nil N)) with true by (symmetry; apply Nat.leb_le; exact H). cbn [andb].
      destruct (cs_eq ins (firstn (length p) []) p); reflexivity.
  - destruct (Nat.ltb_spec (length (x :: s)) (length p)) as [H|H].
    + symmetry. apply infix_short. exact H.
    + cbn [infix_of]. rewrite starts_with_firstn.
      replace (length p <=? length (x :: s)) with true by (symmetry; apply Nat.leb_le; exact H). cbn [andb].
      destruct (cs_eq ins (firstn (length p) (x :: s)) p); [reflexivity|]. cbn [orb]. apply IH. cbn in Hf. lia.
Qed.
Lemma attr_substring_correct ins a v : attr_cmp OpSubstring ins a v = css_attr_cmp OpSubstring ins a v.
Proof.
  unfold attr_cmp, css_attr_cmp. fold (eqc ins). destruct v as [|y v]; [reflexivity|].
  cbn [length Nat.eqb negb andb]. apply has_substring_infix. lia.
Qed.

Definition nonempty (w : bytes) : bool := match w with [] => false | _ => true end.
Lemma rev_nonempty (cur : bytes) : nonempty (rev cur) = nonempty cur.
Proof. destruct cur as [|c cur]; [reflexivity|]. cbn [rev]. destruct (rev cur); reflexivity. Qed.
Lemma words_filter s : forall cur, words cur s = filter nonempty (split_ws_aux cur s).
Proof.
  induction s as [|c r IH]; intros cur; cbn [words split_ws_aux filter].
  - rewrite rev_nonempty. destruct cur; reflexivity.
  - destruct (is_ws c); [|apply IH]. cbn [filter]. rewrite rev_nonempty, IH. destruct cur; reflexivity.
Qed.
Lemma existsb_filter {A} (f g : A -> bool) l : (forall x, f x = true -> g x = true) -> existsb f (filter g l) = existsb f l.
Proof.
  intros H. induction l as [|x l IH]; [reflexivity|]. cbn [filter existsb].
  destruct (g x) eqn:Eg; cbn [existsb]; rewrite IH; [reflexivity|].
  destruct (f x) eqn:Ef; [rewrite (H x Ef) in Eg; discriminate | reflexivity].
Qed.
Lemma existsb_ext' {A} (f g : A -> bool) l : (forall x, f x = g x) -> existsb f l = existsb g l.
Proof. intros H. induction l as [|x l IH]; [reflexivity|]. cbn. rewrite H, IH. reflexivity. Qed.
Lemma is_ws_lower c : is_ws (lower c) = is_ws c.
Proof. unfold lower, is_upper, is_ws. destruct ((65 <=? c)%N && (c <=? 90)%N) eqn:E; [|reflexivity]. lia. Qed.
Lemma eqc_ws ins x y : eqc ins x y = true -> is_ws x = is_ws y.
Proof.
  unfold eqc. destruct ins; intros H; apply N.eqb_eq in H; [|subst; reflexivity].
  rewrite <- (is_ws_lower x), <- (is_ws_lower y), H. reflexivity.
Qed.
Lemma cs_eq_ws ins w v : cs_eq ins w v = true -> existsb is_ws w = existsb is_ws v.
Proof.
  revert v. induction w as [|x w IH]; intros [|y v]; rewrite ?cs_eq_nil_l, ?cs_eq_nil_r, ?cs_eq_cons; try discriminate; [reflexivity|].
  intros H. apply andb_true_iff in H. destruct H as [H1 H2]. cbn [existsb]. rewrite (eqc_ws _ _ _ H1), (IH _ H2). reflexivity.
Qed.
Lemma existsb_rev {A} (f : A -> bool) l : existsb f (rev l) = existsb f l.
Proof. induction l as [|x l IH]; [reflexivity|]. cbn [rev]. rewrite existsb_app, IH. cbn. rewrite orb_false_r. apply orb_comm. Qed.
Lemma split_no_ws s : forall cur, existsb is_ws cur = false -> forallb (fun w => negb (existsb is_ws w)) (split_ws_aux cur s) = true.
Proof.
  induction s as [|c r IH]; intros cur Hc; cbn [split_ws_aux forallb].
  - rewrite existsb_rev, Hc. reflexivity.
  - destruct (is_ws c) eqn:Ec; cbn [forallb].
    + rewrite existsb_rev, Hc. cbn [negb andb]. apply IH. reflexivity.
    + apply IH. cbn [existsb]. rewrite Ec, Hc. reflexivity.
Qed.

Lemma attr_includes_correct ins a v : attr_cmp OpIncludes ins a v = css_attr_cmp OpIncludes ins a v.
Proof.
  unfold attr_cmp, css_attr_cmp. fold (eqc ins). unfold split_ws.
  destruct v as [|y v]; [reflexivity|]. cbn [length Nat.eqb negb andb].
  set (op := y :: v).
  rewrite words_filter.
  rewrite (existsb_ext' (fun w => (length w =? S (length v)) && starts_with (eqc ins) w op) (fun w => cs_eq ins w op)) by (intros w; symmetry; apply (cs_eq_starts ins w op)).
  rewrite existsb_filter by (intros [|x w] H; [rewrite cs_eq_nil_l in H; discriminate | reflexivity]).
  assert (Habs : forall b c : bool, (b = true -> c = true) -> b = c && b) by (intros [|] [|] H; try reflexivity; discriminate (H eq_refl)).
  apply Habs. intros E. apply negb_true_iff.
  apply existsb_exists in E. destruct E as [w [Hin Hw]].
  pose proof (split_no_ws a [] eq_refl) as Hall. rewrite forallb_forall in Hall. specialize (Hall w Hin).
  apply negb_true_iff in Hall. rewrite <- (cs_eq_ws _ _ _ Hw). exact Hall.
Qed.

(* AttributeMatcher's six operators are the six CSS attribute operators, for every value, operand and case flag *)
Theorem attribute_operators_are_css op ins actual operand : attr_cmp op ins actual operand = css_attr_cmp op ins actual operand.
Proof.
  destruct op.
  - unfold attr_cmp. apply attr_eq_correct.
  - apply attr_includes_correct.
  - apply attr_dash_correct.
  - apply attr_prefix_correct.
  - apply attr_substring_correct.
  - apply attr_suffix_correct.
Qed.
