(* C13: the executable UTF-8 decoder used in the correspondence run satisfies the decoder contract, hence for the UTF-8
   instance of the TextDecoder model the theorem holds unconditionally: any split of a text node = whole-buffer decode. *)
From LolModel Require Import Base TextDecoder.
From LolProofs Require Import TextDecoderProof.
From Coq Require Import Lia List Bool.
Import ListNotations.
Open Scope nat_scope.

Lemma u8_run_app s x : forall y, u8_run s (x ++ y) = let (o1, s1) := u8_run s x in let (o2, s2) := u8_run s1 y in (o1 ++ o2, s2).
Proof.
  revert s. induction x as [|b r IH]; intros s y; cbn [app u8_run].
  - destruct (u8_run s y); reflexivity.
  - destruct (u8_step s b) as [[s1 o1] bad]. rewrite IH. destruct (u8_run s1 r) as [o2 s2]. destruct (u8_run s2 y) as [o3 s3]. rewrite app_assoc. reflexivity.
Qed.

(* decode_to_str consumes a prefix and produces exactly the transducer's output for it *)
Lemma u8_go_spec inp : forall s cap read out f read' out' s',
  u8_go s inp cap read out = (f, read', out', s') ->
  exists k, read' = read + k /\ k <= length inp /\ out' = out ++ fst (u8_run s (firstn k inp)) /\ s' = snd (u8_run s (firstn k inp))
            /\ (f = true -> k = length inp) /\ (f = false -> cap < length out' + 4).
Proof.
  induction inp as [|b r IH]; intros s cap read out f read' out' s' E; cbn [u8_go] in E.
  - inversion E; subst. exists 0. cbn. rewrite app_nil_r, Nat.add_0_r. repeat split; auto; discriminate.
  - destruct (Nat.ltb_spec cap (length out + 4)) as [Hc|Hc].
    + inversion E; subst. exists 0. cbn. rewrite app_nil_r, Nat.add_0_r. repeat split; auto; try lia; discriminate.
    + destruct (u8_step s b) as [[s1 o1] bad] eqn:Es.
      destruct (IH _ _ _ _ _ _ _ _ E) as [k [H1 [H2 [H3 [H4 [H5 H6]]]]]].
      exists (S k). cbn [firstn u8_run length]. rewrite Es. destruct (u8_run s1 (firstn k r)) as [o2 s2]. cbn [fst snd] in *.
      repeat split; auto; try lia. rewrite H3, <- app_assoc. reflexivity.
Qed.

(* a step that is not malformed conserves the bytes *)
Lemma u8_step_clean s b s1 o : u8_step s b = (s1, o, false) -> s ++ [b] = o ++ s1.
Proof.
  unfold u8_step, u8_start. destruct s as [|l s'].
  - destruct (b <? 128)%N; [intro E; inversion E; reflexivity|]. destruct (is_lead b); intro E; inversion E. reflexivity.
  - destruct (u8_need (l :: s')) as [[[total lo] hi]|].
    + destruct ((lo <=? b)%N && (b <=? hi)%N).
      * destruct (S (length (l :: s')) =? total); intro E; inversion E; subst; rewrite ?app_nil_r; reflexivity.
      * destruct (b <? 128)%N; [intro E; inversion E|]. destruct (is_lead b); intro E; inversion E.
    + destruct (b <? 128)%N; [intro E; inversion E|]. destruct (is_lead b); intro E; inversion E.
Qed.

Lemma u8_vup_spec inp : forall pre s pos ok o,
  u8_run [] pre = (o, s) -> pre = o ++ s -> length pre = pos -> ok <= pos ->
  u8_run [] (firstn ok (pre ++ inp)) = (firstn ok (pre ++ inp), []) ->
  let r := u8_vup s inp pos ok in
  r <= length (pre ++ inp) /\ u8_run [] (firstn r (pre ++ inp)) = (firstn r (pre ++ inp), []).
Proof.
  induction inp as [|b rest IH]; intros pre s pos ok o Hrun Hcons Hlen Hok Hokrun; cbn [u8_vup].
  - split; [rewrite app_nil_r; lia | exact Hokrun].
  - destruct (u8_step s b) as [[s1 o1] bad] eqn:Es. destruct bad.
    + split; [rewrite app_length; cbn; lia | exact Hokrun].
    + pose proof (u8_step_clean s b s1 o1 Es) as Hc.
      assert (Hrun' : u8_run [] (pre ++ [b]) = (o ++ o1, s1)).
      { rewrite u8_run_app, Hrun. cbn [u8_run]. rewrite Es. rewrite app_nil_r. reflexivity. }
      assert (Hcons' : pre ++ [b] = (o ++ o1) ++ s1) by (rewrite Hcons, <- !app_assoc, Hc; reflexivity).
      replace (pre ++ b :: rest) with ((pre ++ [b]) ++ rest) by (rewrite <- app_assoc; reflexivity).
      apply (IH (pre ++ [b]) s1 (S pos) _ (o ++ o1) Hrun' Hcons'); [rewrite app_length; cbn; lia | destruct s1; lia |].
      destruct s1 as [|x s1'].
      * (* a clean point right after b *)
        rewrite <- Hlen. replace (S (length pre)) with (length (pre ++ [b])) by (rewrite app_length; cbn; lia).
        rewrite firstn_app, Nat.sub_diag, firstn_all. cbn [firstn]. rewrite app_nil_r, Hrun'. rewrite app_nil_r in Hcons'. rewrite <- Hcons'. reflexivity.
      * rewrite <- app_assoc. exact Hokrun.
Qed.

Theorem utf8_decoder_laws :
  @decoder_laws u8state u8state [] u8_decode u8_valid_up_to [] u8_run u8_fin (fun s => s).
Proof.
  constructor.
  - reflexivity.
  - intros a x y. apply u8_run_app.
  - reflexivity.
  - intros st inp last f read out st' E. unfold u8_decode in E.
    destruct (u8_go st inp BUF 0 []) as [[[f0 r0] o0] s0] eqn:Eg.
    destruct (u8_go_spec inp st BUF 0 [] f0 r0 o0 s0 Eg) as [k [H1 [H2 [H3 [H4 [H5 H6]]]]]]. cbn [Nat.add app] in H1, H3. subst r0.
    destruct (u8_run st (firstn k inp)) as [o a'] eqn:Er. cbn [fst snd] in *.
    assert (Hprog : f0 = false -> 0 < k).
    { intros Hf. specialize (H6 Hf). destruct k; [|lia]. cbn in Er. inversion Er; subst. cbn in H6. unfold BUF in H6. vm_compute in H6. lia. }
    destruct f0; destruct last; cbn [andb] in E; inversion E; subst; clear E; cbn [andb]; rewrite Er.
    + split; [exact H2|]. split; [auto|]. split; [discriminate|]. reflexivity.
    + split; [exact H2|]. split; [auto|]. split; [discriminate|]. split; reflexivity.
    + split; [exact H2|]. split; [discriminate|]. split; [auto|]. split; reflexivity.
    + split; [exact H2|]. split; [discriminate|]. split; [auto|]. split; reflexivity.
  - intros raw. unfold u8_valid_up_to.
    destruct (u8_vup_spec raw [] [] 0 0 [] eq_refl eq_refl eq_refl (le_n 0) eq_refl) as [A B]. cbn [app] in A, B. split; assumption.
Qed.

(* ---- the unconditional statement for the UTF-8 instance ---- *)
Theorem utf8_text_node_any_split_equals_whole_decode start p pieces :
  let cs := utf8_text_node (p :: pieces) start in
  texts cs = u8_whole (concat (p :: pieces))
  /\ tiles cs start (start + length (concat (p :: pieces)))
  /\ exists body final, cs = body ++ [final] /\ none_last body /\ tc_last final = true.
Proof. exact (text_node_correct [] u8_decode u8_valid_up_to [] u8_run u8_fin (fun s => s) utf8_decoder_laws start p pieces). Qed.
