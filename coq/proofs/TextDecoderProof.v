(* C13 / C14 (text clause): for ANY streaming decoder that behaves like a whole-buffer decoder cut into pieces
   (the laws below are the assumed behaviour of encoding_rs, recorded in the trusted base), lol-html's TextDecoder
   delivers, for every split of a text node into lexemes, chunks whose concatenation is the whole-buffer decode of the
   node's bytes, whose ranges tile the node, and of which exactly the final one is flagged last_in_text_node. *)
From LolModel Require Import Base TextDecoder.
From Coq Require Import Lia List Bool.
Import ListNotations.
Open Scope nat_scope.
Arguments td_pending {dstate}. Arguments td_start {dstate}. Arguments td_end {dstate}. Arguments mkTD {dstate}.

Section Laws.
Variable dstate : Type.
Variable dnew : dstate.
Variable ddecode : dstate -> bytes -> nat -> bool -> bool * nat * bytes * dstate.
Variable valid_up_to : bytes -> nat.

(* specification side: the decoder is a deterministic transducer over bytes *)
Variable A : Type.                          (* abstract decoder state *)
Variable a0 : A.                            (* a fresh decoder *)
Variable run : A -> bytes -> bytes * A.     (* text produced for these bytes, state afterwards *)
Variable fin_of : A -> bytes.                  (* what an unfinished sequence becomes at the end of the input (U+FFFD or nothing) *)
Variable abs : dstate -> A.                 (* the state a concrete decoder is in *)
Definition W (x : bytes) : bytes := let (o, a) := run a0 x in o ++ fin_of a.     (* whole-buffer decode *)

Hypothesis run_nil : forall a, run a [] = ([], a).
Hypothesis run_app : forall a x y, run a (x ++ y) = let (o1, a1) := run a x in let (o2, a2) := run a1 y in (o1 ++ o2, a2).
Hypothesis abs_new : abs dnew = a0.
Hypothesis decode_law : forall st inp last fin' read out st',
  ddecode st inp BUF last = (fin', read, out, st') ->
  read <= length inp /\ (fin' = true -> read = length inp) /\ (fin' = false -> 0 < read) /\
  (let (o, a') := run (abs st) (firstn read inp) in
   if last && fin' then out = o ++ fin_of a' else (out = o /\ abs st' = a')).
Hypothesis fast_path_law : forall raw, valid_up_to raw <= length raw /\
  run a0 (firstn (valid_up_to raw) raw) = (firstn (valid_up_to raw) raw, a0).

Notation feed := (feed_text dstate dnew ddecode valid_up_to).
Notation flush := (flush_pending dstate dnew ddecode valid_up_to).
Notation loop := (td_loop dstate ddecode).

Fixpoint tiles (cs : list tchunk) (a b : nat) : Prop :=
  match cs with [] => a = b | c :: r => tc_a c = a /\ a <= tc_b c /\ tiles r (tc_b c) b end.
Definition texts (cs : list tchunk) : bytes := concat (map tc_text cs).
Definition none_last (cs : list tchunk) : Prop := Forall (fun c => tc_last c = false) cs.

Lemma tiles_snoc cs a b c : tiles cs a b -> tc_a c = b -> b <= tc_b c -> tiles (cs ++ [c]) a (tc_b c).
Proof. revert a. induction cs as [|x r IH]; intros a H Ha Hb; cbn in *; [subst; auto | destruct H as [H1 [H2 H3]]; auto]. Qed.
Lemma tiles_le cs : forall a b, tiles cs a b -> a <= b.
Proof. induction cs as [|x r IH]; intros a b H; cbn in H; [lia | destruct H as [H1 [H2 H3]]; specialize (IH _ _ H3); lia]. Qed.
Lemma texts_snoc cs c : texts (cs ++ [c]) = texts cs ++ tc_text c.
Proof. unfold texts. rewrite map_app, concat_app. cbn. rewrite app_nil_r. reflexivity. Qed.

(* the state between two lexemes of a node whose bytes so far are Y *)
Definition Mid (start : nat) (t : td dstate) (cs : list tchunk) (Y : bytes) : Prop :=
  exists st, td_pending t = Some st /\ texts cs = fst (run a0 Y) /\ abs st = snd (run a0 Y) /\
             tiles cs start (td_start t) /\ td_start t <= td_end t /\ td_end t = start + length Y /\ none_last cs.

Lemma Wpart_step Y st x o a' : abs st = snd (run a0 Y) -> run (abs st) x = (o, a') -> run a0 (Y ++ x) = (fst (run a0 Y) ++ o, a').
Proof. intros Hp Hx. rewrite run_app. destruct (run a0 Y) as [o1 a1]. cbn in *. rewrite <- Hp, Hx. reflexivity. Qed.

(* the decode loop, not the last call *)
Lemma loop_mid start : forall fuel dec raw pos next acc Y,
  length raw < fuel ->
  texts acc = fst (run a0 Y) -> abs dec = snd (run a0 Y) -> tiles acc start next -> next <= pos -> pos = start + length Y -> none_last acc ->
  let (t', acc') := loop fuel dec raw pos next false acc in Mid start t' acc' (Y ++ raw).
Proof.
  induction fuel as [|f IH]; intros dec raw pos next acc Y Hf Ht Hp Hti Hn Hpos Hnl; [lia|].
  cbn [td_loop]. destruct (ddecode dec raw BUF false) as [[[fin read] out] dec'] eqn:Ed.
  destruct (decode_law _ _ _ _ _ _ _ Ed) as [Hr [Hfin [Hprog Hout]]].
  destruct (run (abs dec) (firstn read raw)) as [o t] eqn:Ew. cbn [andb] in Hout. destruct Hout as [-> Hp'].
  pose proof (Wpart_step Y dec _ _ _ Hp Ew) as Hstep.
  set (emit := negb (length o =? 0) || false).
  assert (Hacc : let acc' := if emit then acc ++ [mkTC o (false && fin) next (pos + read)] else acc in
                 let next' := if emit then pos + read else next in
                 texts acc' = fst (run a0 (Y ++ firstn read raw)) /\ tiles acc' start next' /\ next' <= pos + read /\ none_last acc').
  { rewrite Hstep. cbn [fst]. destruct emit eqn:Ee; cbn zeta.
    - rewrite texts_snoc, Ht. cbn. split; [reflexivity|]. split; [apply (tiles_snoc acc start next); cbn; auto; lia|]. split; [lia|].
      apply Forall_app. split; [exact Hnl | constructor; [reflexivity | constructor]].
    - unfold emit in Ee. rewrite orb_false_r in Ee. apply negb_false_iff, Nat.eqb_eq in Ee. destruct o; [|discriminate].
      rewrite app_nil_r. repeat split; auto; lia. }
  cbn zeta in Hacc. destruct Hacc as [A1 [A2 [A3 A4]]].
  destruct fin.
  - rewrite (Hfin eq_refl) in *. rewrite firstn_all in *. exists dec'. cbn [td_pending td_start td_end].
    rewrite Hstep in *. cbn [fst snd] in *. repeat split; auto. rewrite app_length. lia.
  - specialize (Hprog eq_refl).
    specialize (IH dec' (skipn read raw) (pos + read) (if emit then pos + read else next)
                   (if emit then acc ++ [mkTC o (false && false) next (pos + read)] else acc) (Y ++ firstn read raw)).
    rewrite <- app_assoc, firstn_skipn in IH. apply IH; auto.
    + rewrite skipn_length. lia.
    + rewrite Hstep. cbn. exact Hp'.
    + rewrite app_length, firstn_length. lia.
Qed.

(* feeding one lexeme (never the last call: the dispatcher only passes last = true through flush_pending) *)
Lemma feed_first start raw : let (t', cs) := feed (td0 dstate) raw start false in Mid start t' cs raw.
Proof.
  unfold feed_text, split_utf8_start. cbn [td_pending td0 andb].
  destruct (fast_path_law raw) as [Hv Hw].
  destruct (Nat.eqb_spec (valid_up_to raw) (length raw)) as [Hall|Hnot].
  - (* the whole lexeme is valid: one chunk, then an idle decoder *)
    rewrite Hall, firstn_all in Hw.
    pose proof (loop_mid start (S (length (@nil N))) dnew [] (start + length raw) (start + length raw) [mkTC raw false start (start + length raw)] raw) as H.
    rewrite app_nil_r in H. apply H; cbn; auto; try lia.
    + unfold texts. cbn. rewrite Hw, app_nil_r. reflexivity.
    + rewrite Hw. exact abs_new.
    + constructor; [reflexivity | constructor].
  - destruct (valid_up_to raw <? BUF).
    + pose proof (loop_mid start (S (length raw)) dnew raw start start [] []) as H. cbn [app] in H.
      apply H; rewrite ?run_nil; cbn; auto; try lia; try exact abs_new; constructor.
    + set (v := valid_up_to raw) in *.
      pose proof (loop_mid start (S (length (skipn v raw))) dnew (skipn v raw) (start + length (firstn v raw)) (start + length (firstn v raw))
                           [mkTC (firstn v raw) false start (start + length (firstn v raw))] (firstn v raw)) as H.
      rewrite firstn_skipn in H. apply H; cbn; auto; try lia.
      * unfold texts. cbn. rewrite Hw, app_nil_r. reflexivity.
      * rewrite Hw. exact abs_new.
      * constructor; [reflexivity | constructor].
Qed.
Lemma feed_next start t cs Y raw : Mid start t cs Y ->
  let (t', cs') := feed t raw (start + length Y) false in Mid start t' (cs ++ cs') (Y ++ raw).
Proof.
  intros [st [Hp [Ht [Hpe [Hti [Hle [He Hnl]]]]]]].
  unfold feed_text, split_utf8_start. rewrite Hp.
  pose proof (loop_mid start (S (length raw)) st raw (start + length Y) (td_start t) cs Y) as H.
  assert (Hacc : forall fuel dec r pos next acc,
            loop fuel dec r pos next false acc = (fst (loop fuel dec r pos next false []), acc ++ snd (loop fuel dec r pos next false []))).
  { induction fuel as [|f IHf]; intros dec r pos next acc; cbn [td_loop]; [rewrite app_nil_r; reflexivity|].
    destruct (ddecode dec r BUF false) as [[[fin read] out] dec']. cbn [andb orb].
    destruct (negb (length out =? 0) || false); destruct fin; cbn [fst snd]; rewrite ?app_nil_r; try reflexivity.
    - rewrite (IHf dec' (skipn read r) (pos + read) (pos + read) (acc ++ _)). rewrite (IHf dec' (skipn read r) (pos + read) (pos + read) ([] ++ _)).
      cbn [fst snd app]. rewrite <- app_assoc. reflexivity.
    - apply IHf. }
  rewrite (Hacc (S (length raw)) st raw (start + length Y) (td_start t) cs) in H.
  destruct (loop (S (length raw)) st raw (start + length Y) (td_start t) false []) as [t' extra] eqn:El. cbn [fst snd] in *.
  apply H; auto; lia.
Qed.

Lemma feed_all_mid start : forall pieces t cs Y, Mid start t cs Y ->
  let (t', cs') := feed_all dstate dnew ddecode valid_up_to t pieces (start + length Y) in Mid start t' (cs ++ cs') (Y ++ concat pieces).
Proof.
  induction pieces as [|p rest IH]; intros t cs Y Hm; cbn [feed_all concat].
  - rewrite !app_nil_r. exact Hm.
  - pose proof (feed_next start t cs Y p Hm) as H1.
    destruct (feed t p (start + length Y) false) as [t1 c1].
    specialize (IH t1 (cs ++ c1) (Y ++ p) H1). rewrite app_length, Nat.add_assoc in IH.
    destruct (feed_all dstate dnew ddecode valid_up_to t1 rest (start + length Y + length p)) as [t2 c2].
    rewrite <- !app_assoc in IH. exact IH.
Qed.

(* the final flush *)
Lemma flush_mid start t cs Y : Mid start t cs Y ->
  let (t', c2) := flush t in
  texts (cs ++ c2) = W Y /\ tiles (cs ++ c2) start (start + length Y) /\
  exists c, c2 = [c] /\ tc_last c = true.
Proof.
  intros [st [Hp [Ht [Hpe [Hti [Hle [He Hnl]]]]]]].
  unfold flush_pending. rewrite Hp. unfold feed_text, split_utf8_start. rewrite Hp. cbn [length td_loop].
  destruct (ddecode st [] BUF true) as [[[fin' read] out] dec'] eqn:Ed.
  destruct (decode_law _ _ _ _ _ _ _ Ed) as [Hr [Hfin [Hprog Hout]]]. cbn [length] in Hr.
  assert (read = 0) by lia. subst read.
  destruct fin'; [|specialize (Hprog eq_refl); lia].
  cbn [firstn] in Hout. rewrite run_nil in Hout. cbn [andb app] in Hout. rewrite Hpe in Hout.
  rewrite orb_true_r. cbn [andb app]. rewrite Nat.add_0_r.
  split; [|split].
  - rewrite texts_snoc, Ht. cbn [tc_text]. rewrite Hout. unfold W. destruct (run a0 Y); reflexivity.
  - rewrite <- He. apply (tiles_snoc cs start (td_start t) {| tc_text := out; tc_last := true; tc_a := td_start t; tc_b := td_end t |}); cbn; auto.
  - eexists. split; reflexivity.
Qed.

(* ---- the statement for a whole text node ---- *)
Theorem text_node_is_whole_buffer_decode start p pieces :
  let cs := text_node dstate dnew ddecode valid_up_to (p :: pieces) start in
  texts cs = W (concat (p :: pieces))
  /\ tiles cs start (start + length (concat (p :: pieces)))
  /\ exists body final, cs = body ++ [final] /\ none_last body /\ tc_last final = true.
Proof.
  unfold text_node. cbn [feed_all concat].
  pose proof (feed_first start p) as H1. destruct (feed (td0 dstate) p start false) as [t1 c1].
  pose proof (feed_all_mid start pieces t1 c1 p H1) as H2.
  destruct (feed_all dstate dnew ddecode valid_up_to t1 pieces (start + length p)) as [t2 c2].
  pose proof (flush_mid start t2 (c1 ++ c2) (p ++ concat pieces) H2) as H3.
  destruct (flush t2) as [t3 c3]. destruct H3 as [HA [HB [c [-> Hc]]]].
  split; [exact HA|]. split; [exact HB|].
  exists (c1 ++ c2), c. split; [reflexivity|]. split; [|exact Hc].
  destruct H2 as [st [_ [_ [_ [_ [_ [_ Hnl]]]]]]]. exact Hnl.
Qed.
End Laws.

(* the assumed behaviour of a streaming decoder, bundled *)
Record decoder_laws {dstate A : Type} (dnew : dstate) (ddecode : dstate -> bytes -> nat -> bool -> bool * nat * bytes * dstate)
       (valid_up_to : bytes -> nat) (a0 : A) (run : A -> bytes -> bytes * A) (fin : A -> bytes) (abs : dstate -> A) : Prop := {
  dl_nil : forall a, run a [] = ([], a);
  dl_app : forall a x y, run a (x ++ y) = let (o1, a1) := run a x in let (o2, a2) := run a1 y in (o1 ++ o2, a2);
  dl_new : abs dnew = a0;
  dl_decode : forall st inp last fin' read out st',
    ddecode st inp BUF last = (fin', read, out, st') ->
    read <= length inp /\ (fin' = true -> read = length inp) /\ (fin' = false -> 0 < read) /\
    (let (o, a') := run (abs st) (firstn read inp) in
     if last && fin' then out = o ++ fin a' else (out = o /\ abs st' = a'));
  dl_fast : forall raw, valid_up_to raw <= length raw /\ run a0 (firstn (valid_up_to raw) raw) = (firstn (valid_up_to raw) raw, a0)
}.
Theorem text_node_correct {dstate A} dnew ddecode valid_up_to (a0 : A) run fin abs :
  @decoder_laws dstate A dnew ddecode valid_up_to a0 run fin abs ->
  forall start p pieces,
  let cs := text_node dstate dnew ddecode valid_up_to (p :: pieces) start in
  texts cs = W A a0 run fin (concat (p :: pieces))
  /\ tiles cs start (start + length (concat (p :: pieces)))
  /\ exists body final, cs = body ++ [final] /\ none_last body /\ tc_last final = true.
Proof. intros [L1 L2 L3 L4 L5]. exact (text_node_is_whole_buffer_decode dstate dnew ddecode valid_up_to A a0 run fin abs L1 L2 L3 L4 L5). Qed.

(* the laws are satisfiable: the identity codec on ASCII (stateless) *)
Lemma identity_decoder_laws :
  @decoder_laws unit unit tt (fun _ inp _ _ => (true, length inp, inp, tt)) (fun raw => length raw) tt (fun _ x => (x, tt)) (fun _ => []) (fun _ => tt).
Proof.
  constructor; try reflexivity.
  - intros []. reflexivity.
  - intros st inp last fin' read out st' E. inversion E; subst. rewrite firstn_all. cbn.
    split; [lia|]. split; [reflexivity|]. split; [discriminate|]. rewrite andb_true_r. destruct last; [rewrite app_nil_r|]; auto.
  - intros raw. rewrite firstn_all. split; [lia | reflexivity].
Qed.
