(* C04, middle layer (1): what an AST of selectors denotes on a chain of elements, and that Ast::add_selector (with
   prefix sharing) makes it denote the selector that was added. *)
From LolModel Require Import Base TreeBuilder Selectors.
From LolSpec Require Import CssSem.
From LolProofs Require Import Css CssPred.
From Coq Require Import ZArith Lia Bool List.
Import ListNotations.
Open Scope nat_scope.

Definition holds (e : elem) (p : predicate) : bool := vm_predicate e p.
Definition n_pred (n : ast_node) := match n with Node p _ _ _ => p end.
Definition n_children (n : ast_node) := match n with Node _ c _ _ => c end.
Definition n_desc (n : ast_node) := match n with Node _ _ d _ => d end.
Definition n_ids (n : ast_node) := match n with Node _ _ _ i => i end.

(* chain: the ancestors of the element and the element itself, outermost first.
   den bs chain: ids reported at the LAST element when the nodes bs are candidates for the FIRST element of the chain. *)
Fixpoint den (bs : list ast_node) (chain : list elem) {struct chain} : list nat :=
  match chain with
  | [] => []
  | e :: rest =>
      flat_map (fun b =>
        if holds e (n_pred b) then
          match rest with
          | [] => n_ids b
          | _ => den (n_children b) rest ++
                 (fix suffixes (c : list elem) : list nat := match c with [] => [] | _ :: c' => den (n_desc b) c ++ suffixes c' end) rest
          end
        else []) bs
  end.

Definition suffixes_den (ds : list ast_node) : list elem -> list nat :=
  fix suffixes (c : list elem) : list nat := match c with [] => [] | _ :: c' => den ds c ++ suffixes c' end.
(* candidates at every element of the chain: the roots of the AST *)
Definition den_any (bs : list ast_node) (chain : list elem) : list nat := suffixes_den bs chain.

Lemma den_cons b bs e rest : den (b :: bs) (e :: rest) =
  (if holds e (n_pred b) then match rest with [] => n_ids b | _ => den (n_children b) rest ++ suffixes_den (n_desc b) rest end else []) ++ den bs (e :: rest).
Proof. reflexivity. Qed.
Lemma den_nil_chain bs : den bs [] = [].
Proof. destruct bs; reflexivity. Qed.
Lemma den_nil chain : den [] chain = [].
Proof. destruct chain; reflexivity. Qed.
Lemma den_app a b chain : den (a ++ b) chain = den a chain ++ den b chain.
Proof. destruct chain as [|e rest]; [rewrite !den_nil_chain; reflexivity|]. cbn [den]. apply flat_map_app. Qed.
Lemma suffixes_nil chain : suffixes_den [] chain = [].
Proof. induction chain as [|e r IH]; [reflexivity|]. cbn [suffixes_den]. rewrite den_nil. exact IH. Qed.

(* ---------- the selector side, left to right ---------- *)
Fixpoint sel_child (c : compound) (path : list (comb * compound)) (chain : list elem) {struct chain} : bool :=
  match chain with
  | [] => false
  | e :: rest =>
      compound_matches e c &&
      match path with
      | [] => match rest with [] => true | _ => false end
      | (Child, c') :: p' => sel_child c' p' rest
      | (Descendant, c') :: p' => (fix sfx (s : list elem) : bool := match s with [] => false | _ :: s' => sel_child c' p' s || sfx s' end) rest
      end
  end.
Definition sel_sfx (c : compound) (path : list (comb * compound)) : list elem -> bool :=
  fix sfx (s : list elem) : bool := match s with [] => false | _ :: s' => sel_child c path s || sfx s' end.

(* ---------- structural equality of predicates ---------- *)
Lemma bytes_eqb_eq a : forall b, bytes_eqb a b = true -> a = b.
Proof. induction a as [|x a IH]; intros [|y b] H; try discriminate; [reflexivity|]. cbn in H. apply andb_true_iff in H. destruct H as [H1 H2]. apply N.eqb_eq in H1. f_equal; [exact H1 | exact (IH _ H2)]. Qed.
Lemma list_eqb_eq {A} (f : A -> A -> bool) : (forall x y, f x y = true -> x = y) -> forall a b, list_eqb f a b = true -> a = b.
Proof. intros Hf. induction a as [|x a IH]; intros [|y b] H; try discriminate; [reflexivity|]. cbn in H. apply andb_true_iff in H. destruct H as [H1 H2]. f_equal; [exact (Hf _ _ H1) | exact (IH _ H2)]. Qed.
Lemma tag_pair_eq (x y : tag_expr * bool) : tag_expr_eqb (fst x) (fst y) && Bool.eqb (snd x) (snd y) = true -> x = y.
Proof.
  intros H. apply andb_true_iff in H. destruct H as [A B]. apply Bool.eqb_prop in B. destruct x as [x1 x2], y as [y1 y2]. cbn in *. subst. f_equal.
  destruct x1, y1; cbn in A; try discriminate; try reflexivity.
  - f_equal. apply bytes_eqb_eq. exact A.
  - apply andb_true_iff in A. destruct A as [A1 A2]. apply Z.eqb_eq in A1. apply Z.eqb_eq in A2. subst. reflexivity.
  - apply andb_true_iff in A. destruct A as [A1 A2]. apply Z.eqb_eq in A1. apply Z.eqb_eq in A2. subst. reflexivity.
Qed.
Lemma attr_pair_eq (x y : attr_expr * bool) : attr_expr_eqb (fst x) (fst y) && Bool.eqb (snd x) (snd y) = true -> x = y.
Proof.
  intros H. apply andb_true_iff in H. destruct H as [A B]. apply Bool.eqb_prop in B. destruct x as [x1 x2], y as [y1 y2]. cbn in *. subst. f_equal.
  destruct x1, y1; cbn in A; try discriminate; try (f_equal; apply bytes_eqb_eq; exact A).
  repeat (apply andb_true_iff in A; destruct A as [A ?]).
  apply bytes_eqb_eq in A. match goal with H : bytes_eqb _ _ = true |- _ => apply bytes_eqb_eq in H end. subst.
  destruct cs, cs0; try discriminate; destruct op, op0; try discriminate; reflexivity.
Qed.
Lemma pred_eqb_eq q p : pred_eqb q p = true -> q = p.
Proof.
  unfold pred_eqb. intros H. apply andb_true_iff in H. destruct H as [H1 H2].
  destruct q as [qt qa], p as [pt pa]. cbn [p_tag p_attr] in *. f_equal.
  - exact (list_eqb_eq _ tag_pair_eq _ _ H1).
  - exact (list_eqb_eq _ attr_pair_eq _ _ H2).
Qed.

(* ---------- Ast::add_selector: host_expressions with prefix sharing ---------- *)
Definition upd_node (f : nat) (path : list (comb * compound)) (id : nat) (q : predicate) ch ds ids : ast_node :=
  match path with
  | [] => Node q ch ds (insert_sorted id ids)
  | (Child, c) :: rest => Node q (host f (compound_predicate c) rest id ch) ds ids
  | (Descendant, c) :: rest => Node q ch (host f (compound_predicate c) rest id ds) ids
  end.
Fixpoint host_go (f : nat) (p : predicate) (path : list (comb * compound)) (id : nat) (bs : list ast_node) : list ast_node * bool :=
  match bs with
  | [] => ([], false)
  | Node q ch ds ids :: r =>
      if pred_eqb q p then (upd_node f path id q ch ds ids :: r, true)
      else let (r', found) := host_go f p path id r in (Node q ch ds ids :: r', found)
  end.
Lemma host_unfold f p path id bs :
  host (S f) p path id bs = let (bs', found) := host_go f p path id bs in if found then bs' else bs ++ [upd_node f path id p [] [] []].
Proof.
  cbn [host]. 
  assert (E : forall l, (fix go (bs0 : list ast_node) : list ast_node * bool :=
             match bs0 with
             | [] => ([], false)
             | Node q ch ds ids :: r =>
                 if pred_eqb q p
                 then (match path with
                       | [] => Node q ch ds (insert_sorted id ids)
                       | (Child, c) :: rest => Node q (host f (compound_predicate c) rest id ch) ds ids
                       | (Descendant, c) :: rest => Node q ch (host f (compound_predicate c) rest id ds) ids
                       end :: r, true)
                 else let (r', found) := go r in (Node q ch ds ids :: r', found)
             end) l = host_go f p path id l).
  { induction l as [|[q ch ds ids] r IH]; [reflexivity|]. cbn [host_go]. destruct (pred_eqb q p); [reflexivity|]. rewrite IH. reflexivity. }
  rewrite E. destruct (host_go f p path id bs) as [bs' found]. destruct found; [reflexivity|].
  unfold upd_node. destruct path as [|[[|] c] rest]; cbn; try reflexivity.
Qed.

Lemma insert_sorted_in x l i : In i (insert_sorted x l) <-> i = x \/ In i l.
Proof.
  induction l as [|y r IH]; cbn [insert_sorted]; [cbn; intuition (subst; auto)|].
  destruct (x <? y); [cbn; intuition (subst; auto)|]. destruct (Nat.eqb_spec x y) as [->|Hne]; [cbn; intuition (subst; auto)|]. cbn [In]. rewrite IH. intuition (subst; auto).
Qed.

(* every element of the chain satisfies the side conditions of every compound of the selector *)
Definition all_ok (c : compound) (path : list (comb * compound)) (chain : list elem) : Prop :=
  Forall (fun e => compound_ok e c /\ Forall (fun kc => compound_ok e (snd kc)) path) chain.
Lemma all_ok_tail c path e rest : all_ok c path (e :: rest) -> all_ok c path rest.
Proof. intros H. inversion H; assumption. Qed.
Lemma all_ok_step c k c' p' chain : all_ok c ((k, c') :: p') chain -> all_ok c' p' chain.
Proof. intros H. induction H as [|e r [H1 H2] Hr IH]; constructor; [|exact IH]. inversion H2; subst. split; assumption. Qed.

Definition host_ok (f : nat) : Prop :=
  forall c path id bs chain i, length path < f -> all_ok c path chain ->
  (In i (den (host f (compound_predicate c) path id bs) chain) <-> In i (den bs chain) \/ (i = id /\ sel_child c path chain = true)).

Lemma suffixes_host f c path id ds : host_ok f -> length path < f -> forall s i, all_ok c path s ->
  (In i (suffixes_den (host f (compound_predicate c) path id ds) s) <-> In i (suffixes_den ds s) \/ (i = id /\ sel_sfx c path s = true)).
Proof.
  intros Hf Hl. induction s as [|e r IH]; intros i Hok; cbn [suffixes_den sel_sfx]; [cbn; split; [tauto | intros [[]|[_ H]]; discriminate]|].
  rewrite !in_app_iff, (Hf c path id ds (e :: r) i Hl Hok), (IH i (all_ok_tail _ _ _ _ Hok)), orb_true_iff. tauto.
Qed.

Lemma upd_node_den f c path id ch ds ids chain i : host_ok f -> length path <= f -> all_ok c path chain ->
  (In i (den [upd_node f path id (compound_predicate c) ch ds ids] chain) <->
   In i (den [Node (compound_predicate c) ch ds ids] chain) \/ (i = id /\ sel_child c path chain = true)).
Proof.
  intros Hf Hl Hok. destruct chain as [|e rest]; [rewrite !den_nil_chain; cbn; split; [tauto | intros [[]|[_ H]]; discriminate]|].
  assert (Hh : holds e (compound_predicate c) = compound_matches e c).
  { inversion Hok as [|? ? [H1 _] _]; subst. unfold holds. apply predicate_decides_compound. exact H1. }
  assert (Hp : forall n, n_pred (upd_node f path id (compound_predicate c) ch ds n) = compound_predicate c) by (intros n; destruct path as [|[[|] c'] p']; reflexivity).
  rewrite !den_cons, !den_nil, !app_nil_r. cbn [sel_child]. rewrite Hp. cbn [n_pred]. rewrite Hh.
  destruct (compound_matches e c); cbn [andb]; [|cbn; split; [tauto | intros [[]|[_ H]]; discriminate]].
  destruct path as [|[[|] c'] p'].
  - (* the selector ends here *)
    cbn [upd_node n_ids n_children n_desc]. destruct rest; [rewrite insert_sorted_in; tauto | split; [tauto | intros [H|[_ H]]; [exact H | discriminate]]].
  - (* child combinator *)
    cbn [upd_node n_ids n_children n_desc]. destruct rest as [|e2 r2]; [cbn; split; [tauto | intros [H|[_ H]]; [exact H | discriminate]]|].
    rewrite !in_app_iff. cbn [length] in Hl.
    rewrite (Hf c' p' id ch (e2 :: r2) i ltac:(lia) (all_ok_step _ _ _ _ _ (all_ok_tail _ _ _ _ Hok))). tauto.
  - (* descendant combinator *)
    cbn [upd_node n_ids n_children n_desc]. destruct rest as [|e2 r2]; [cbn; split; [tauto | intros [H|[_ H]]; [exact H | discriminate]]|].
    rewrite !in_app_iff. cbn [length] in Hl. fold (sel_sfx c' p').
    rewrite (suffixes_host f c' p' id ds Hf ltac:(lia) (e2 :: r2) i (all_ok_step _ _ _ _ _ (all_ok_tail _ _ _ _ Hok))). tauto.
Qed.

Lemma host_go_den f c path id : host_ok f -> length path <= f -> forall bs chain i, all_ok c path chain ->
  let (bs', found) := host_go f (compound_predicate c) path id bs in
  if found then (In i (den bs' chain) <-> In i (den bs chain) \/ (i = id /\ sel_child c path chain = true))
  else bs' = bs.
Proof.
  intros Hf Hl. induction bs as [|[q ch ds ids] r IH]; intros chain i Hok; cbn [host_go]; [reflexivity|].
  destruct (pred_eqb q (compound_predicate c)) eqn:Eq.
  - apply pred_eqb_eq in Eq. subst q.
    change (upd_node f path id (compound_predicate c) ch ds ids :: r) with ([upd_node f path id (compound_predicate c) ch ds ids] ++ r).
    change (Node (compound_predicate c) ch ds ids :: r) with ([Node (compound_predicate c) ch ds ids] ++ r).
    rewrite !den_app, !in_app_iff, (upd_node_den f c path id ch ds ids chain i Hf Hl Hok). tauto.
  - specialize (IH chain i Hok). destruct (host_go f (compound_predicate c) path id r) as [r' found]. destruct found.
    + change (Node q ch ds ids :: r') with ([Node q ch ds ids] ++ r'). change (Node q ch ds ids :: r) with ([Node q ch ds ids] ++ r).
      rewrite !den_app, !in_app_iff, IH. tauto.
    + rewrite IH. reflexivity.
Qed.

Theorem host_denotes : forall f, host_ok f.
Proof.
  induction f as [|f IH]; intros c path id bs chain i Hl Hok; [lia|].
  rewrite host_unfold. pose proof (host_go_den f c path id IH ltac:(lia) bs chain i Hok) as H.
  destruct (host_go f (compound_predicate c) path id bs) as [bs' found]. destruct found; [exact H|].
  rewrite den_app, in_app_iff, (upd_node_den f c path id [] [] [] chain i IH ltac:(lia) Hok).
  assert (Hempty : ~ In i (den [Node (compound_predicate c) [] [] []] chain)).
  { destruct chain as [|e rest]; [rewrite den_nil_chain; intros []|]. rewrite den_cons, den_nil, app_nil_r. cbn [n_pred n_ids n_children n_desc].
    destruct (holds e (compound_predicate c)); [|intros []]. destruct rest; [intros []|]. rewrite suffixes_nil. intros []. }
  tauto.
Qed.

(* ---------- selector lists on the roots ---------- *)
Definition sel_ok (sel : selector) (chain : list elem) : Prop := Forall (fun cx => all_ok (cx_first cx) (cx_rest cx) chain) sel.
Definition sel_matches_lr (sel : selector) (chain : list elem) : bool := existsb (fun cx => sel_sfx (cx_first cx) (cx_rest cx) chain) sel.

Lemma all_ok_suffix c path : forall chain s, all_ok c path chain -> (exists pre, chain = pre ++ s) -> all_ok c path s.
Proof. intros chain s H [pre ->]. unfold all_ok in *. apply Forall_app in H. apply H. Qed.

Theorem add_selector_denotes sel id : forall root chain i, sel_ok sel chain ->
  (In i (den_any (add_selector root sel id) chain) <-> In i (den_any root chain) \/ (i = id /\ sel_matches_lr sel chain = true)).
Proof.
  unfold add_selector, den_any, sel_matches_lr. induction sel as [|cx sel IH]; intros root chain i Hok; cbn [fold_left existsb].
  - split; [tauto | intros [H|[_ H]]; [exact H | discriminate]].
  - inversion Hok as [|? ? H1 H2]; subst.
    rewrite (IH _ chain i H2).
    rewrite (suffixes_host (S (length (cx_rest cx))) (cx_first cx) (cx_rest cx) id root (host_denotes _) (Nat.lt_succ_diag_r _) chain i H1).
    rewrite orb_true_iff. tauto.
Qed.
