(* C04, middle layer (3): the AST denotation computed incrementally along the chain, the way the VM does it:
   J = nodes that are candidates for the next element only (children of the nodes matched at the parent: the parent's
   jumps), H = nodes that are candidates for the next and every deeper element (descendant branches of the nodes matched
   at any open element, and the roots: the hereditary jumps and the entry points). *)
From LolModel Require Import Base Selectors.
From LolSpec Require Import CssSem.
From LolProofs Require Import CssPred AstSem.
From Coq Require Import Lia Bool List.
Import ListNotations.
Open Scope nat_scope.

Definition matched (e : elem) (J H : list ast_node) : list ast_node := filter (fun b => holds e (n_pred b)) (J ++ H).
Definition fstep (JH : list ast_node * list ast_node) (e : elem) : list ast_node * list ast_node :=
  let M := matched e (fst JH) (snd JH) in (flat_map n_children M, snd JH ++ flat_map n_desc M).
Definition ids_at (e : elem) (JH : list ast_node * list ast_node) : list nat := flat_map n_ids (matched e (fst JH) (snd JH)).

Lemma den_flat_map {A} (f : A -> list ast_node) chain : forall l, den (flat_map f l) chain = flat_map (fun a => den (f a) chain) l.
Proof. induction l as [|a l IH]; cbn [flat_map]; [apply den_nil | rewrite den_app, IH; reflexivity]. Qed.
Lemma suffixes_den_app a b : forall chain i, In i (suffixes_den (a ++ b) chain) <-> In i (suffixes_den a chain) \/ In i (suffixes_den b chain).
Proof.
  induction chain as [|e r IH]; intros i; cbn [suffixes_den]; [cbn; tauto|].
  rewrite !in_app_iff, den_app, in_app_iff, IH. tauto.
Qed.
Lemma suffixes_den_nil chain : suffixes_den [] chain = [].
Proof. induction chain as [|e r IH]; cbn [suffixes_den]; [reflexivity | rewrite den_nil, IH; reflexivity]. Qed.
Lemma suffixes_den_flat_map {A} (f : A -> list ast_node) chain i : forall l,
  In i (suffixes_den (flat_map f l) chain) <-> exists a, In a l /\ In i (suffixes_den (f a) chain).
Proof.
  induction l as [|a l IH]; cbn [flat_map].
  - rewrite suffixes_den_nil. cbn. split; [tauto | intros [a [[] _]]].
  - rewrite suffixes_den_app, IH. split.
    + intros [H|[a' [H1 H2]]]; [exists a; cbn; auto | exists a'; cbn; auto].
    + intros [a' [[<-|H1] H2]]; [left; exact H2 | right; exists a'; auto].
Qed.

(* den of a non-final position, as a statement about membership *)
Lemma den_step bs e r x i : In i (den bs (e :: r ++ [x])) <->
  exists b, In b bs /\ holds e (n_pred b) = true /\ (In i (den (n_children b) (r ++ [x])) \/ In i (suffixes_den (n_desc b) (r ++ [x]))).
Proof.
  induction bs as [|b bs IH].
  - cbn. split; [tauto | intros [b [[] _]]].
  - rewrite den_cons, in_app_iff, IH. destruct (holds e (n_pred b)) eqn:Hb.
    + destruct (r ++ [x]) as [|y t] eqn:Ey; [destruct r; discriminate|]. rewrite <- Ey. rewrite in_app_iff. split.
      * intros [H|[b' [H1 H2]]]; [exists b; cbn; auto | exists b'; cbn; auto].
      * intros [b' [[<-|H1] [H2 H3]]]; [left; exact H3 | right; exists b'; auto].
    + split.
      * intros [[]|[b' [H1 H2]]]. exists b'; cbn; auto.
      * intros [b' [[<-|H1] [H2 H3]]]; [rewrite Hb in H2; discriminate | right; exists b'; auto].
Qed.
Lemma den_last bs x i : In i (den bs [x]) <-> exists b, In b bs /\ holds x (n_pred b) = true /\ In i (n_ids b).
Proof.
  induction bs as [|b bs IH].
  - cbn. split; [tauto | intros [b [[] _]]].
  - rewrite den_cons, in_app_iff, IH. destruct (holds x (n_pred b)) eqn:Hb; split.
    + intros [H|[b' [H1 H2]]]; [exists b; cbn; auto | exists b'; cbn; auto].
    + intros [b' [[<-|H1] [H2 H3]]]; [left; exact H3 | right; exists b'; auto].
    + intros [[]|[b' [H1 H2]]]. exists b'; cbn; auto.
    + intros [b' [[<-|H1] [H2 H3]]]; [rewrite Hb in H2; discriminate | right; exists b'; auto].
Qed.

Theorem frontier_is_denotation : forall s JH x i,
  (In i (den (fst JH) (s ++ [x])) \/ In i (suffixes_den (snd JH) (s ++ [x]))) <-> In i (ids_at x (fold_left fstep s JH)).
Proof.
  induction s as [|e r IH]; intros [J H] x i; cbn [fst snd].
  - cbn [app fold_left suffixes_den]. rewrite app_nil_r. unfold ids_at, matched. cbn [fst snd].
    rewrite !den_last, in_flat_map. split.
    + intros [[b [H1 [H2 H3]]]|[b [H1 [H2 H3]]]]; exists b; (split; [apply filter_In; split; [apply in_or_app; auto | exact H2] | exact H3]).
    + intros [b [H1 H3]]. apply filter_In in H1. destruct H1 as [H1 H2]. apply in_app_or in H1. destruct H1; [left | right]; exists b; auto.
  - cbn [app fold_left]. rewrite <- IH. unfold fstep, matched. cbn [fst snd suffixes_den].
    rewrite den_flat_map, in_flat_map, in_app_iff, suffixes_den_app, suffixes_den_flat_map, !den_step.
    split.
    + intros [[b [H1 [H2 H3]]]|[[b [H1 [H2 H3]]]|H3]].
      * assert (Hm : In b (filter (fun b => holds e (n_pred b)) (J ++ H))) by (apply filter_In; split; [apply in_or_app; auto | exact H2]).
        destruct H3; [left; exists b; auto | right; right; exists b; auto].
      * assert (Hm : In b (filter (fun b => holds e (n_pred b)) (J ++ H))) by (apply filter_In; split; [apply in_or_app; auto | exact H2]).
        destruct H3; [left; exists b; auto | right; right; exists b; auto].
      * right; left; exact H3.
    + intros [[b [Hm H3]]|[H3|[b [Hm H3]]]].
      * apply filter_In in Hm. destruct Hm as [H1 H2]. apply in_app_or in H1. destruct H1; [left | right; left]; exists b; auto.
      * right; right; exact H3.
      * apply filter_In in Hm. destruct Hm as [H1 H2]. apply in_app_or in H1. destruct H1; [left | right; left]; exists b; auto.
Qed.
(* the ids the AST reports at an element = those of the nodes matched there when the frontier starts as (no jumps, the roots) *)
Corollary den_any_is_frontier root anc x i :
  In i (den_any root (anc ++ [x])) <-> In i (ids_at x (fold_left fstep anc ([], root))).
Proof. unfold den_any. rewrite <- frontier_is_denotation. cbn [fst snd]. rewrite den_nil. cbn. tauto. Qed.
