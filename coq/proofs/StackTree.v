(* C04 / C05: the VM's open-element stack is the tree that explicit tags induce (spec/CssSem.v on_start / on_end):
   same open elements in the same order, same child counts, hence the :nth-child index the VM evaluates is the element's
   position among its siblings -- for every sequence of start / end tag operations, mis-nested or not. *)
From LolModel Require Import Base TreeBuilder Selectors.
From LolSpec Require Import CssSem Whatwg.
From LolProofs Require Import Css CssPred Strict.
From Coq Require Import ZArith Lia Bool List.
Import ListNotations.
Open Scope nat_scope.

(* ---------- the VM never changes the name / child count / content flag of the element being matched ---------- *)
Definition esig (c : ectx) := (si_name (ec_item c), si_children (ec_item c), ec_with_content c, ec_ns c).
Lemma add_branch_sig c i : esig (add_branch c i) = esig c.
Proof. unfold add_branch, esig. destruct (ec_with_content c); reflexivity. Qed.

Section Frames.
Variable prog : program.
Variable stk : vstack.
Lemma try_set_sig addrs : forall start c, match try_set prog stk addrs start c with TrOk c' | TrBail c' _ _ => esig c' = esig c | TrPanic => True end.
Proof.
  induction addrs as [|a r IH]; intros start c; cbn [try_set]; [reflexivity|].
  destruct (all_tag _ _ _) as [[|]|]; [|apply IH|exact I].
  destruct (p_attr _); [|reflexivity].
  specialize (IH start (add_branch c (instr_at prog a))). destruct (try_set prog stk r start _); try exact I; rewrite IH; apply add_branch_sig.
Qed.
Lemma exec_set_sig addrs attrs : forall c c', exec_set prog stk addrs attrs c = Some c' -> esig c' = esig c.
Proof.
  induction addrs as [|a r IH]; intros c c'; cbn [exec_set]; [intro E; inversion E; reflexivity|].
  destruct (all_tag _ _ _) as [[|]|]; [|apply IH|discriminate].
  destruct (all_attr _ _ _); [|apply IH]. intro E. rewrite (IH _ _ E). apply add_branch_sig.
Qed.
Lemma exec_sets_sig sets attrs : forall off c c', exec_sets prog stk sets off attrs c = Some c' -> esig c' = esig c.
Proof.
  induction sets as [|s r IH]; intros off c c'; cbn [exec_sets]; [intro E; inversion E; reflexivity|].
  destruct (exec_set prog stk _ attrs c) as [c1|] eqn:E1; [|discriminate]. intro E. rewrite (IH _ _ _ E). exact (exec_set_sig _ _ _ _ E1).
Qed.
Lemma try_sets_sig sets mk : forall idx c, match try_sets prog stk sets idx c mk with WoDone c' | WoBail c' _ _ => esig c' = esig c | WoPanic => True end.
Proof.
  induction sets as [|s r IH]; intros idx c; cbn [try_sets]; [reflexivity|].
  pose proof (try_set_sig (addrs_of s 0) (rs s) c) as H1. destruct (try_set prog stk _ _ c) as [c1|c1 a off|]; [|exact H1|exact I].
  specialize (IH (S idx) c1). destruct (try_sets prog stk r (S idx) c1 mk); try exact I; rewrite IH; exact H1.
Qed.
Lemma exec_without_attrs_sig c : match exec_without_attrs prog stk c with WoDone c' | WoBail c' _ _ => esig c' = esig c | WoPanic => True end.
Proof.
  unfold exec_without_attrs. pose proof (try_set_sig (addrs_of (pr_entry prog) 0) (rs (pr_entry prog)) c) as H1.
  destruct (try_set prog stk _ _ c) as [c1|c1 a off|]; [|exact H1|exact I].
  pose proof (try_sets_sig (parent_jumps stk) RecJumps 0 c1) as H2. destruct (try_sets prog stk (parent_jumps stk) 0 c1 RecJumps) as [c2|c2 a r|]; [|rewrite H2; exact H1|exact I].
  pose proof (try_sets_sig (map fst (vs_active_hj stk)) RecHJumps 0 c2) as H3. destruct (try_sets prog stk _ 0 c2 RecHJumps); try exact I; rewrite H3, H2; exact H1.
Qed.
Lemma recover_sig c a r attrs c' : recover prog stk c a r attrs = Some c' -> esig c' = esig c.
Proof.
  unfold recover, exec_jumps_with_attrs, exec_hjumps_with_attrs.
  set (c1 := if all_attr _ _ _ then add_branch c (instr_at prog a) else c).
  assert (H1 : esig c1 = esig c) by (unfold c1; destruct (all_attr _ _ _); [apply add_branch_sig | reflexivity]).
  destruct r as [off|idx off|idx off].
  - destruct (exec_set prog stk _ attrs c1) as [c2|] eqn:E2; [|discriminate].
    destruct (exec_sets prog stk _ 0 attrs c2) as [c3|] eqn:E3; [|discriminate].
    intro E4. rewrite (exec_sets_sig _ _ _ _ _ E4), (exec_sets_sig _ _ _ _ _ E3), (exec_set_sig _ _ _ _ E2). exact H1.
  - destruct (exec_sets prog stk _ off attrs c1) as [c2|] eqn:E2; [|discriminate].
    intro E3. rewrite (exec_sets_sig _ _ _ _ _ E3), (exec_sets_sig _ _ _ _ _ E2). exact H1.
  - intro E2. rewrite (exec_sets_sig _ _ _ _ _ E2). exact H1.
Qed.
Lemma exec_all_with_attrs_sig c attrs c' : exec_all_with_attrs prog stk c attrs = Some c' -> esig c' = esig c.
Proof.
  unfold exec_all_with_attrs, exec_jumps_with_attrs, exec_hjumps_with_attrs.
  destruct (exec_set prog stk _ attrs c) as [c1|] eqn:E1; [|discriminate].
  destruct (exec_sets prog stk _ 0 attrs c1) as [c2|] eqn:E2; [|discriminate].
  intro E3. rewrite (exec_sets_sig _ _ _ _ _ E3), (exec_sets_sig _ _ _ _ _ E2). exact (exec_set_sig _ _ _ _ E1).
Qed.
End Frames.

(* ---------- shapes ---------- *)
Definition shape (s : vstack) : Z * list (lname * Z) := (vs_root_children s, map (fun it => (si_name it, si_children it)) (vs_items s)).
Definition tshape (t : tree_state) : Z * list (lname * Z) :=
  (Z.of_nat (length (t_root_children t)), rev (map (fun o => (lname_of_str (e_name (o_el o)), Z.of_nat (length (o_children o)))) (t_open t))).
Definition small (n : nat) : Prop := (Z.of_nat n + 1 < 2147483648)%Z.
Lemma inc32_small n : small n -> inc32 (Z.of_nat n) = Z.of_nat (S n).
Proof. unfold small, inc32. intros H. rewrite wrap32_id by (unfold in_i32; lia). lia. Qed.

(* void elements: the hash tables against the names *)
Lemma name_eq_hash n v : hash_of v <> EMPTY_HASH -> name_eq n v = match lname_of_str n with LHash x => (x =? hash_of v)%N | LBytes _ => false end.
Proof.
  intros Hv. unfold name_eq. rewrite <- local_name_eq_is_case_insensitive_name_eq.
  unfold lname_of_str at 2, lname_of. destruct (N.eqb_spec (hash_of v) EMPTY_HASH) as [E|_]; [contradiction|].
  destruct (lname_of_str n); reflexivity.
Qed.
Lemma is_void_is_void_name n : is_void (lname_of_str n) = is_void_name n.
Proof.
  unfold is_void_name, void_names.
  assert (Hall : forall v, In v (map bs ["area"; "base"; "basefont"; "bgsound"; "br"; "col"; "embed"; "hr"; "img"; "input"; "keygen"; "link"; "meta"; "param"; "source"; "track"; "wbr"]%string) -> hash_of v <> EMPTY_HASH).
  { intros v Hin. cbn in Hin. repeat (destruct Hin as [<-|Hin]; [vm_compute; discriminate|]). destruct Hin. }
  rewrite (existsb_ext_in _ (fun v => match lname_of_str n with LHash x => (x =? hash_of v)%N | LBytes _ => false end)) by (intros v Hv; apply name_eq_hash; apply Hall; exact Hv).
  clear Hall. unfold is_void. destruct (lname_of_str n) as [x|b]; [|induction (map bs _) as [|? ? IH]; [reflexivity | cbn; exact IH]].
  (* x against the two tables *)
  unfold tt_at, tt_is_void_element. cbn [nth_error tt_holds].
  cbn [map existsb]. unfold one_of. cbn [existsb].
  repeat match goal with |- context [hash_of (bs ?s)] => let v := eval vm_compute in (hash_of (bs s)) in change (hash_of (bs s)) with v end.
  unfold Tag_Div, Tag_A, Tag_Span, Tag_Li, Tag_Area, Tag_Base, Tag_Basefont, Tag_Bgsound, Tag_Br, Tag_Col, Tag_Embed, Tag_Hr, Tag_Img, Tag_Input, Tag_Keygen, Tag_Link, Tag_Meta, Tag_Param, Tag_Source, Tag_Track, Tag_Wbr.
  repeat match goal with |- context [(x =? ?k)%N] => destruct (N.eqb_spec x k); [subst x; vm_compute; reflexivity|] end.
  reflexivity.
Qed.

