(* C04 / C05: the VM's open-element stack is the tree that explicit tags induce (spec/CssSem.v on_start / on_end):
   same open elements in the same order, same child counts, hence the :nth-child index the VM evaluates is the element's
   position among its siblings -- for every sequence of start / end tag operations, mis-nested or not. *)
From LolModel Require Import Base TreeBuilder Selectors.
From LolSpec Require Import CssSem Whatwg.
From LolProofs Require Import Css CssPred Strict.
From Coq Require Import ZArith Lia Bool List.
Import ListNotations.
Open Scope nat_scope.

(* ---------- the VM never changes the name / child count / content flag of the element being matched ---------- *)
Definition esig (c : ectx) := (si_name (ec_item c), si_children (ec_item c), ec_with_content c, ec_ns c).
Lemma add_branch_sig c i : esig (add_branch c i) = esig c.
Proof. unfold add_branch, esig. destruct (ec_with_content c); reflexivity. Qed.

Section Frames.
Variable prog : program.
Variable stk : vstack.
Lemma try_set_sig addrs : forall start c, match try_set prog stk addrs start c with TrOk c' | TrBail c' _ _ => esig c' = esig c | TrPanic => True end.
Proof.
  induction addrs as [|a r IH]; intros start c; cbn [try_set]; [reflexivity|].
  destruct (all_tag _ _ _) as [[|]|]; [|apply IH|exact I].
  destruct (p_attr _); [|reflexivity].
  specialize (IH start (add_branch c (instr_at prog a))). destruct (try_set prog stk r start _); try exact I; rewrite IH; apply add_branch_sig.
Qed.
Lemma exec_set_sig addrs attrs : forall c c', exec_set prog stk addrs attrs c = Some c' -> esig c' = esig c.
Proof.
  induction addrs as [|a r IH]; intros c c'; cbn [exec_set]; [intro E; inversion E; reflexivity|].
  destruct (all_tag _ _ _) as [[|]|]; [|apply IH|discriminate].
  destruct (all_attr _ _ _); [|apply IH]. intro E. rewrite (IH _ _ E). apply add_branch_sig.
Qed.
Lemma exec_sets_sig sets attrs : forall off c c', exec_sets prog stk sets off attrs c = Some c' -> esig c' = esig c.
Proof.
  induction sets as [|s r IH]; intros off c c'; cbn [exec_sets]; [intro E; inversion E; reflexivity|].
  destruct (exec_set prog stk _ attrs c) as [c1|] eqn:E1; [|discriminate]. intro E. rewrite (IH _ _ _ E). exact (exec_set_sig _ _ _ _ E1).
Qed.
Lemma try_sets_sig sets mk : forall idx c, match try_sets prog stk sets idx c mk with WoDone c' | WoBail c' _ _ => esig c' = esig c | WoPanic => True end.
Proof.
  induction sets as [|s r IH]; intros idx c; cbn [try_sets]; [reflexivity|].
  pose proof (try_set_sig (addrs_of s 0) (rs s) c) as H1. destruct (try_set prog stk _ _ c) as [c1|c1 a off|]; [|exact H1|exact I].
  specialize (IH (S idx) c1). destruct (try_sets prog stk r (S idx) c1 mk); try exact I; rewrite IH; exact H1.
Qed.
Lemma exec_without_attrs_sig c : match exec_without_attrs prog stk c with WoDone c' | WoBail c' _ _ => esig c' = esig c | WoPanic => True end.
Proof.
  unfold exec_without_attrs. pose proof (try_set_sig (addrs_of (pr_entry prog) 0) (rs (pr_entry prog)) c) as H1.
  destruct (try_set prog stk _ _ c) as [c1|c1 a off|]; [|exact H1|exact I].
  pose proof (try_sets_sig (parent_jumps stk) RecJumps 0 c1) as H2. destruct (try_sets prog stk (parent_jumps stk) 0 c1 RecJumps) as [c2|c2 a r|]; [|rewrite H2; exact H1|exact I].
  pose proof (try_sets_sig (map fst (vs_active_hj stk)) RecHJumps 0 c2) as H3. destruct (try_sets prog stk _ 0 c2 RecHJumps); try exact I; rewrite H3, H2; exact H1.
Qed.
Lemma recover_sig c a r attrs c' : recover prog stk c a r attrs = Some c' -> esig c' = esig c.
Proof.
  unfold recover, exec_jumps_with_attrs, exec_hjumps_with_attrs.
  set (c1 := if all_attr _ _ _ then add_branch c (instr_at prog a) else c).
  assert (H1 : esig c1 = esig c) by (unfold c1; destruct (all_attr _ _ _); [apply add_branch_sig | reflexivity]).
  destruct r as [off|idx off|idx off].
  - destruct (exec_set prog stk _ attrs c1) as [c2|] eqn:E2; [|discriminate].
    destruct (exec_sets prog stk _ 0 attrs c2) as [c3|] eqn:E3; [|discriminate].
    intro E4. rewrite (exec_sets_sig _ _ _ _ _ E4), (exec_sets_sig _ _ _ _ _ E3), (exec_set_sig _ _ _ _ E2). exact H1.
  - destruct (exec_sets prog stk _ off attrs c1) as [c2|] eqn:E2; [|discriminate].
    intro E3. rewrite (exec_sets_sig _ _ _ _ _ E3), (exec_sets_sig _ _ _ _ _ E2). exact H1.
  - intro E2. rewrite (exec_sets_sig _ _ _ _ _ E2). exact H1.
Qed.
Lemma exec_all_with_attrs_sig c attrs c' : exec_all_with_attrs prog stk c attrs = Some c' -> esig c' = esig c.
Proof.
  unfold exec_all_with_attrs, exec_jumps_with_attrs, exec_hjumps_with_attrs.
  destruct (exec_set prog stk _ attrs c) as [c1|] eqn:E1; [|discriminate].
  destruct (exec_sets prog stk _ 0 attrs c1) as [c2|] eqn:E2; [|discriminate].
  intro E3. rewrite (exec_sets_sig _ _ _ _ _ E3), (exec_sets_sig _ _ _ _ _ E2). exact (exec_set_sig _ _ _ _ E1).
Qed.
End Frames.

(* ---------- shapes ---------- *)
Definition shape (s : vstack) : Z * list (lname * Z) := (vs_root_children s, map (fun it => (si_name it, si_children it)) (vs_items s)).
Definition tshape (t : tree_state) : Z * list (lname * Z) :=
  (Z.of_nat (length (t_root_children t)), rev (map (fun o => (lname_of_str (e_name (o_el o)), Z.of_nat (length (o_children o)))) (t_open t))).
Definition small (n : nat) : Prop := (Z.of_nat n + 1 < 2147483648)%Z.
Lemma inc32_small n : small n -> inc32 (Z.of_nat n) = Z.of_nat (S n).
Proof. unfold small, inc32. intros H. rewrite wrap32_id by (unfold in_i32; lia). lia. Qed.

(* void elements: the hash tables against the names *)
Lemma name_eq_hash n v : hash_of v <> EMPTY_HASH -> name_eq n v = match lname_of_str n with LHash x => (x =? hash_of v)%N | LBytes _ => false end.
Proof.
  intros Hv. unfold name_eq. rewrite <- local_name_eq_is_case_insensitive_name_eq.
  unfold lname_of_str at 2, lname_of. destruct (N.eqb_spec (hash_of v) EMPTY_HASH) as [E|_]; [contradiction|].
  destruct (lname_of_str n); reflexivity.
Qed.
Lemma is_void_is_void_name n : is_void (lname_of_str n) = is_void_name n.
Proof.
  unfold is_void_name, void_names.
  assert (Hall : forall v, In v (map bs ["area"; "base"; "basefont"; "bgsound"; "br"; "col"; "embed"; "hr"; "img"; "input"; "keygen"; "link"; "meta"; "param"; "source"; "track"; "wbr"]%string) -> hash_of v <> EMPTY_HASH).
  { intros v Hin. cbn in Hin. repeat (destruct Hin as [<-|Hin]; [vm_compute; discriminate|]). destruct Hin. }
  rewrite (existsb_ext_in _ (fun v => match lname_of_str n with LHash x => (x =? hash_of v)%N | LBytes _ => false end)) by (intros v Hv; apply name_eq_hash; apply Hall; exact Hv).
  clear Hall. unfold is_void. destruct (lname_of_str n) as [x|b]; [|induction (map bs _) as [|? ? IH]; [reflexivity | cbn; exact IH]].
  (* x against the two tables *)
  unfold tt_at, tt_is_void_element. cbn [nth_error tt_holds].
  cbn [map existsb]. unfold one_of. cbn [existsb].
  repeat match goal with |- context [hash_of (bs ?s)] => let v := eval vm_compute in (hash_of (bs s)) in change (hash_of (bs s)) with v end.
  unfold Tag_Div, Tag_A, Tag_Span, Tag_Li, Tag_Area, Tag_Base, Tag_Basefont, Tag_Bgsound, Tag_Br, Tag_Col, Tag_Embed, Tag_Hr, Tag_Img, Tag_Input, Tag_Keygen, Tag_Link, Tag_Meta, Tag_Param, Tag_Source, Tag_Track, Tag_Wbr.
  repeat match goal with |- context [(x =? ?k)%N] => destruct (N.eqb_spec x k); [subst x; vm_compute; reflexivity|] end.
  reflexivity.
Qed.


(* ---------- stack operations on shapes ---------- *)
Definition fo (o : open_el) : lname * Z := (lname_of_str (e_name (o_el o)), Z.of_nat (length (o_children o))).
Definition fi (it : stack_item) : lname * Z := (si_name it, si_children it).
Lemma tshape_eq t : tshape t = (Z.of_nat (length (t_root_children t)), rev (map fo (t_open t))).
Proof. reflexivity. Qed.
Lemma shape_eq s : shape s = (vs_root_children s, map fi (vs_items s)).
Proof. reflexivity. Qed.

Lemma map_last_snoc {A} (h : A -> A) l x : Selectors.map_last h (l ++ [x]) = l ++ [h x].
Proof. unfold Selectors.map_last. rewrite rev_app_distr. cbn [rev app]. rewrite rev_involutive. reflexivity. Qed.

Definition bump (it : stack_item) : stack_item := mkSI (si_name it) (si_data it) (si_jumps it) (si_hjumps it) (inc32 (si_children it)).
Lemma add_child_items_nil s ln : vs_items s = [] ->
  vs_items (stack_add_child s ln) = [] /\ vs_root_children (stack_add_child s ln) = inc32 (vs_root_children s).
Proof. intros H. unfold stack_add_child. rewrite H. cbn [vs_typed vs_items vs_root_children]. destruct (vs_typed s); cbn; auto. Qed.
Lemma add_child_items_snoc s ln l x : vs_items s = l ++ [x] ->
  vs_items (stack_add_child s ln) = l ++ [bump x] /\ vs_root_children (stack_add_child s ln) = vs_root_children s.
Proof.
  intros H. unfold stack_add_child. rewrite H.
  destruct (l ++ [x]) as [|i0 rest] eqn:E; [destruct l; discriminate|]. rewrite <- E. clear E.
  cbn [vs_typed vs_items vs_root_children]. fold bump. rewrite map_last_snoc. destruct (vs_typed s); cbn; auto.
Qed.
Lemma build_state_cumulative s ln : ss_cumulative (build_state s ln) =
  match rev (vs_items s) with [] => vs_root_children s | it :: _ => si_children it end.
Proof.
  unfold build_state. cbn [ss_cumulative]. destruct (vs_items s) as [|i0 rest] eqn:E; [reflexivity|].
  rewrite <- E. destruct (vs_items s) as [|a l] using rev_ind; [discriminate|]. rewrite last_last, rev_app_distr. reflexivity.
Qed.

(* the parent's child list grows by one *)
Definition add_child_tree (t : tree_state) (name : bytes) : tree_state :=
  match t.(t_open) with
  | o :: r => mkTree (mkOpen o.(o_el) (o.(o_children) ++ [name]) :: r) t.(t_root_children)
  | [] => mkTree [] (t.(t_root_children) ++ [name]) end.
Definition siblings (t : tree_state) : list bytes := match t.(t_open) with o :: _ => o.(o_children) | [] => t.(t_root_children) end.

Lemma shape_add_child s t ln name : shape s = tshape t -> small (length (siblings t)) ->
  shape (stack_add_child s ln) = tshape (add_child_tree t name) /\
  ss_cumulative (build_state (stack_add_child s ln) ln) = Z.of_nat (S (length (siblings t))).
Proof.
  rewrite shape_eq, tshape_eq. intros E Hs. injection E as Er Ei.
  unfold add_child_tree, siblings in *. rewrite build_state_cumulative, shape_eq, tshape_eq.
  destruct (t_open t) as [|o r] eqn:Eo; cbn [map rev] in Ei.
  - destruct (vs_items s) eqn:Es; [|discriminate].
    destruct (add_child_items_nil s ln Es) as [H1 H2]. rewrite H1, H2, Er, inc32_small by exact Hs.
    cbn [t_open t_root_children map rev]. rewrite app_length. cbn [length]. rewrite Nat.add_1_r. split; reflexivity.
  - apply map_eq_app in Ei. destruct Ei as [l1 [l2 [Es [E1 E2]]]].
    destruct l2 as [|x [|y l2]]; try discriminate. cbn [map] in E2. unfold fi at 1, fo in E2. injection E2 as En Ec.
    destruct (add_child_items_snoc s ln l1 x Es) as [H1 H2]. rewrite H1, H2, Er.
    cbn [t_open t_root_children map rev o_el o_children]. rewrite map_app, rev_app_distr. cbn [map rev app].
    unfold fi at 2, fo at 2, bump. cbn [si_name si_children o_el o_children].
    rewrite En, Ec, inc32_small by exact Hs. rewrite app_length. cbn [length]. rewrite Nat.add_1_r, E1. split; reflexivity.
Qed.

(* pushing the element that stays open *)
Lemma shape_push s t it name el isz mi other mx s' ch :
  shape s = tshape t -> si_name it = lname_of_str name -> si_children it = 0%Z -> e_name el = name ->
  stack_push s it isz mi other mx = (s', ch, true) ->
  shape s' = tshape (mkTree (mkOpen el [] :: t_open t) (t_root_children t)).
Proof.
  rewrite !shape_eq, !tshape_eq. intros E Hn Hc He Hp. injection E as Er Ei.
  assert (Hi : vs_items s' = vs_items s ++ [it] /\ vs_root_children s' = vs_root_children s).
  { unfold stack_push in Hp. destruct (length (vs_items s) <? vs_cap s).
    - inversion Hp; subst; split; reflexivity.
    - destruct (_ <=? _)%N; inversion Hp; subst; split; reflexivity. }
  destruct Hi as [H1 H2]. rewrite H1, H2, Er, map_app, Ei. cbn [t_open t_root_children map rev]. unfold fi, fo.
  cbn [o_el o_children length map]. rewrite Hn, Hc, He. reflexivity.
Qed.

(* popping: the last item whose name matches = the innermost open element of that name *)
Lemma rposition_app items ln : forall x i acc,
  rposition (items ++ [x]) ln i acc = if lname_eqb (si_name x) ln then Some (i + length items) else rposition items ln i acc.
Proof.
  induction items as [|y r IH]; intros x i acc; cbn [app rposition length].
  - rewrite Nat.add_0_r. reflexivity.
  - rewrite IH. destruct (lname_eqb (si_name x) ln); [f_equal; lia | reflexivity].
Qed.
Lemma pop_matches_close items l ln name :
  map fi items = rev (map fo l) -> ln = lname_of_str name ->
  match close_to name l with
  | Some rest => rposition items ln 0 None = Some (length rest) /\ map fi (firstn (length rest) items) = rev (map fo rest)
  | None => rposition items ln 0 None = None
  end.
Proof.
  intros E ->. revert items E. induction l as [|o r IH]; intros items E; cbn [close_to].
  - cbn in E. destruct items; [reflexivity | discriminate].
  - cbn [map rev] in E. apply map_eq_app in E. destruct E as [l1 [l2 [Es [E1 E2]]]].
    destruct l2 as [|x [|y l2]]; try discriminate. cbn [map] in E2. unfold fi at 1, fo in E2. injection E2 as En Ec. subst items.
    rewrite rposition_app, En, local_name_eq_is_case_insensitive_name_eq. fold (name_eq (e_name (o_el o)) name).
    destruct (name_eq (e_name (o_el o)) name).
    + assert (Hl : length l1 = length r) by (rewrite <- (map_length fi l1), E1, rev_length, map_length; reflexivity).
      rewrite Hl. split; [reflexivity|]. rewrite <- Hl, firstn_app, Nat.sub_diag, firstn_all. cbn [firstn]. rewrite app_nil_r. exact E1.
    + specialize (IH l1 E1). destruct (close_to name r) as [rest|].
      * destruct IH as [I1 I2]. split; [exact I1|].
        assert (Hle : length rest <= length l1).
        { apply (f_equal (@length _)) in I2. rewrite map_length, rev_length, map_length, firstn_length in I2. lia. }
        rewrite firstn_app. replace (length rest - length l1) with 0 by lia. cbn [firstn]. rewrite app_nil_r. exact I2.
      * exact IH.
Qed.
Lemma shape_pop s t ln name s' popped : shape s = tshape t -> ln = lname_of_str name ->
  stack_pop_up_to s ln = (s', popped) -> shape s' = tshape (on_end t name).
Proof.
  rewrite !shape_eq. intros E Hl Hp. rewrite tshape_eq in E. injection E as Er Ei.
  pose proof (pop_matches_close (vs_items s) (t_open t) ln name Ei Hl) as H.
  unfold stack_pop_up_to in Hp. unfold on_end. destruct (close_to name (t_open t)) as [rest|].
  - destruct H as [H1 H2]. rewrite H1 in Hp. inversion Hp; subst s' popped; clear Hp.
    rewrite tshape_eq. cbn [vs_root_children vs_items t_open t_root_children]. rewrite Er, H2. reflexivity.
  - rewrite H in Hp. inversion Hp; subst s' popped. rewrite tshape_eq, Er, Ei. reflexivity.
Qed.

(* ---------- the controller level: one start tag (hint + optional attribute request), one end tag ---------- *)
From LolModel Require Import Machine Rewriter.
From LolProofs Require Import Scope.

Lemma sm_step_stack wc c i : r_stack (sm_step wc c i) = r_stack c /\ r_prog (sm_step wc c i) = r_prog c.
Proof. unfold sm_step. destruct (nth_error (r_locators c) i); split; reflexivity. Qed.
Lemma start_matching_stack ids : forall c wc, r_stack (start_matching c ids wc) = r_stack c /\ r_prog (start_matching c ids wc) = r_prog c.
Proof.
  intros c wc. rewrite start_matching_fold. revert c. induction ids as [|i ids IH]; intros c; cbn [fold_left]; [split; reflexivity|].
  destruct (IH (sm_step wc c i)) as [H1 H2]. destruct (sm_step_stack wc c i) as [H3 H4]. rewrite H1, H2, H3, H4. split; reflexivity.
Qed.
Lemma st_step_stack c i : r_stack (st_step c i) = r_stack c /\ r_prog (st_step c i) = r_prog c.
Proof. unfold st_step. destruct (nth_error (r_locators c) i); split; reflexivity. Qed.
Lemma stop_matching_stack c d : r_stack (stop_matching c d) = r_stack c /\ r_prog (stop_matching c d) = r_prog c.
Proof.
  unfold stop_matching. fold st_step. cbn [rset_handlers r_stack r_prog].
  generalize (ed_matched d). intros ids. revert c. induction ids as [|i ids IH]; intros c; cbn [fold_left]; [split; reflexivity|].
  destruct (IH (st_step c i)) as [H1 H2]. destruct (st_step_stack c i) as [H3 H4]. rewrite H1, H2, H3, H4. split; reflexivity.
Qed.

Definition stays_open (name : bytes) (n : ns) (sc : bool) : bool := if ns_eqb n Html then negb (is_void_name name) else negb sc.
Definition after_start (t : tree_state) (name : bytes) (n : ns) (sc : bool) : tree_state :=
  snd (on_start t name n [] sc).
Lemma after_start_eq t name n sc : after_start t name n sc =
  let t1 := add_child_tree t name in
  if stays_open name n sc then mkTree (mkOpen (fst (on_start t name n [] sc)) [] :: t_open t1) (t_root_children t1) else t1.
Proof.
  unfold after_start, on_start, stays_open, add_child_tree. cbn [snd fst].
  destruct (if ns_eqb n Html then negb (is_void_name name) else negb sc); destruct (t_open t); reflexivity.
Qed.
Lemma on_start_name t name n attrs sc : e_name (fst (on_start t name n attrs sc)) = name.
Proof. reflexivity. Qed.

Lemma finish_exec_shape c ext ec c' f t name el :
  shape (r_stack c) = tshape t -> si_name (ec_item ec) = lname_of_str name -> si_children (ec_item ec) = 0%Z -> e_name el = name ->
  finish_exec c ext ec = (c', FOk f) ->
  shape (r_stack c') = tshape (if ec_with_content ec then mkTree (mkOpen el [] :: t_open t) (t_root_children t) else t) /\ r_prog c' = r_prog c.
Proof.
  intros Hsh Hn Hc He. unfold finish_exec.
  destruct (start_matching_stack (ed_matched (si_data (ec_item ec))) c (ec_with_content ec)) as [S1 S2].
  destruct (ec_with_content ec).
  - destruct (stack_push _ _ _ _ _ _) as [[s' charged] ok] eqn:Ep. destruct ok; intro E; [|discriminate E]. injection E as <- _.
    cbn [rset_vm r_stack r_prog]. split; [|exact S2]. rewrite S1 in Ep. exact (shape_push _ _ _ name el _ _ _ _ _ _ Hsh Hn Hc He Ep).
  - intro E. injection E as <- _. rewrite S1. split; [exact Hsh | exact S2].
Qed.

Definition vm_on_start (c : rwc) (ext : N) (name : bytes) (n : ns) (attrs : list attr_view) (sc : bool) : option rwc :=
  let (c1, r) := rw_start_tag c ext name (hash_of name) n in
  match r with
  | SFlags _ => Some c1
  | SInfoRequest => match rw_aux_info c1 ext attrs sc with (c2, FOk _) => Some c2 | _ => None end
  | SErr _ => None
  end.

Theorem start_tag_keeps_the_stack_a_tree c ext name n attrs sc c' t :
  r_prog c <> None -> shape (r_stack c) = tshape t -> small (length (siblings t)) ->
  vm_on_start c ext name n attrs sc = Some c' ->
  shape (r_stack c') = tshape (after_start t name n sc) /\ r_prog c' <> None.
Proof.
  intros Hp Hsh Hsm. unfold vm_on_start, rw_start_tag.
  destruct (r_prog c) as [prog|] eqn:Eprog; [|contradiction].
  change (lname_of name (hash_of name)) with (lname_of_str name).
  set (ln := lname_of_str name).
  destruct (shape_add_child (r_stack c) t ln name Hsh Hsm) as [Hs1 _].
  set (s1 := stack_add_child (r_stack c) ln) in *.
  set (c1 := rset_vm c s1 (r_vm_charged c)).
  assert (Hc1 : shape (r_stack c1) = tshape (add_child_tree t name)) by exact Hs1.
  assert (Hp1 : r_prog c1 = Some prog) by exact Eprog.
  rewrite after_start_eq. cbn zeta.
  set (el := fst (on_start t name n [] sc)).
  set (ec0 := mkEC (mkSI ln (mkED [] None false) [] [] 0%Z) true n).
  unfold get_stack_directive, stays_open. change (is_void ln) with (is_void (lname_of_str name)). rewrite is_void_is_void_name.
  destruct (ns_eqb n Html) eqn:Ens.
  - (* HTML namespace: void elements are popped immediately *)
    set (wc := negb (is_void_name name)).
    assert (Hdir : forall (k : stack_directive -> option rwc), True) by (intros; exact I). clear Hdir.
    set (ec := mkEC (ec_item ec0) wc n).
    assert (Hgo : match exec_without_attrs prog s1 ec with
                  | WoPanic => True
                  | WoBail ec' a r =>
                      forall c'', (match rw_aux_info (rset_pending c1 (Some (ec', Some (a, r)))) ext attrs sc with (c2, FOk _) => Some c2 | _ => None end) = Some c'' ->
                      shape (r_stack c'') = tshape (if wc then mkTree (mkOpen el [] :: t_open (add_child_tree t name)) (t_root_children (add_child_tree t name)) else add_child_tree t name) /\ r_prog c'' <> None
                  | WoDone ec' =>
                      forall c'' f, finish_exec c1 ext ec' = (c'', FOk f) ->
                      shape (r_stack c'') = tshape (if wc then mkTree (mkOpen el [] :: t_open (add_child_tree t name)) (t_root_children (add_child_tree t name)) else add_child_tree t name) /\ r_prog c'' <> None
                  end).
    { pose proof (exec_without_attrs_sig prog s1 ec) as Hsig.
      destruct (exec_without_attrs prog s1 ec) as [ec'|ec' a r|]; [| |exact I].
      - intros c'' f Ef. unfold esig in Hsig. injection Hsig as H1 H2 H3 H4.
        destruct (finish_exec_shape c1 ext ec' c'' f (add_child_tree t name) name el Hc1 H1 H2 eq_refl Ef) as [A B].
        rewrite H3 in A. split; [exact A | rewrite B, Hp1; discriminate].
      - intros c''. unfold rw_aux_info. cbn [rset_pending r_prog r_pending]. rewrite Hp1.
        destruct (recover prog _ ec' a r attrs) as [ec''|] eqn:Er; [|discriminate].
        pose proof (recover_sig _ _ _ _ _ _ _ Er) as Hs2. unfold esig in Hsig, Hs2. rewrite Hsig in Hs2. injection Hs2 as H1 H2 H3 H4.
        destruct (finish_exec _ ext ec'') as [c2 fr] eqn:Ef. destruct fr; [|discriminate]. intro E; inversion E; subst c2.
        destruct (finish_exec_shape (rset_pending (rset_pending c1 (Some (ec', Some (a, r)))) None) ext ec'' c'' f (add_child_tree t name) name el Hc1 H1 H2 eq_refl Ef) as [A B].
        rewrite H3 in A. split; [exact A | rewrite B; cbn [rset_pending r_prog]; rewrite Hp1; discriminate]. }
    destruct (is_void_name name) eqn:Ev; cbn [negb] in *; unfold wc, ec in Hgo; rewrite ?Ev in Hgo; cbn [negb] in Hgo.
    + destruct (exec_without_attrs prog s1 _) as [ec'|ec' a r|]; [| |discriminate].
      * destruct (finish_exec c1 ext ec') as [c2 fr] eqn:Ef. destruct fr; [|discriminate]. intro E; inversion E; subst. exact (Hgo c' f eq_refl).
      * intro E. exact (Hgo c' E).
    + destruct (exec_without_attrs prog s1 _) as [ec'|ec' a r|]; [| |discriminate].
      * destruct (finish_exec c1 ext ec') as [c2 fr] eqn:Ef. destruct fr; [|discriminate]. intro E; inversion E; subst. exact (Hgo c' f eq_refl).
      * intro E. exact (Hgo c' E).
  - (* foreign content: the self-closing flag decides, known only with the attributes *)
    unfold rw_aux_info. cbn [rset_pending r_prog r_pending]. rewrite Hp1.
    destruct (exec_all_with_attrs prog _ _ attrs) as [ec'|] eqn:Ee; [|discriminate].
    pose proof (exec_all_with_attrs_sig _ _ _ _ _ Ee) as Hsig. unfold esig in Hsig. cbn [ec_item ec_with_content ec_ns ec0 si_name si_children] in Hsig. injection Hsig as H1 H2 H3 H4.
    destruct (finish_exec _ ext ec') as [c2 fr] eqn:Ef. destruct fr; [|discriminate]. intro E; inversion E; subst c2.
    destruct (finish_exec_shape (rset_pending (rset_pending c1 (Some (ec0, None))) None) ext ec' c' f (add_child_tree t name) name el Hc1 H1 H2 eq_refl Ef) as [A B].
    rewrite H3 in A. split; [exact A | rewrite B; cbn [rset_pending r_prog]; rewrite Hp1; discriminate].
Qed.

Theorem end_tag_keeps_the_stack_a_tree c name h c' f t :
  h = hash_of name -> r_prog c <> None -> shape (r_stack c) = tshape t -> rw_end_tag c name h = (c', f) ->
  shape (r_stack c') = tshape (on_end t name) /\ r_prog c' <> None.
Proof.
  intros -> Hp Hsh. unfold rw_end_tag. destruct (r_prog c) as [prog|] eqn:Eprog; [|contradiction].
  change (lname_of name (hash_of name)) with (lname_of_str name).
  destruct (stack_pop_up_to (r_stack c) (lname_of_str name)) as [s' popped] eqn:Epop. intro E; inversion E; subst; clear E.
  assert (Hst : forall l c0, r_stack (fold_left stop_matching l c0) = r_stack c0 /\ r_prog (fold_left stop_matching l c0) = r_prog c0).
  { induction l as [|d l IH]; intros c0; cbn [fold_left]; [split; reflexivity|].
    destruct (IH (stop_matching c0 d)) as [A B]. destruct (stop_matching_stack c0 d) as [X Y]. rewrite A, B, X, Y. split; reflexivity. }
  destruct (Hst popped (rset_vm c s' (r_vm_charged c))) as [A B]. rewrite A, B. cbn [rset_vm r_stack r_prog].
  split; [eapply shape_pop; [exact Hsh | reflexivity | exact Epop] | rewrite Eprog; discriminate].
Qed.

(* ---------- any sequence of tags ---------- *)
Inductive tagop := OpStart (name : bytes) (n : ns) (attrs : list attr_view) (sc : bool) | OpEnd (name : bytes).
Fixpoint vm_run (c : rwc) (ext : N) (ops : list tagop) : option rwc :=
  match ops with
  | [] => Some c
  | OpStart name n attrs sc :: r => match vm_on_start c ext name n attrs sc with Some c1 => vm_run c1 ext r | None => None end
  | OpEnd name :: r => vm_run (fst (rw_end_tag c name (hash_of name))) ext r
  end.
Fixpoint tree_run (t : tree_state) (ops : list tagop) : tree_state :=
  match ops with
  | [] => t
  | OpStart name n _ sc :: r => tree_run (after_start t name n sc) r
  | OpEnd name :: r => tree_run (on_end t name) r
  end.
(* no element ever gets 2^31 - 1 children (the i32 counters do not wrap) *)
Fixpoint never_wraps (t : tree_state) (ops : list tagop) : Prop :=
  match ops with
  | [] => True
  | OpStart name n _ sc :: r => small (length (siblings t)) /\ never_wraps (after_start t name n sc) r
  | OpEnd name :: r => never_wraps (on_end t name) r
  end.

Theorem vm_stack_is_the_tag_induced_tree ops : forall c ext t c',
  r_prog c <> None -> shape (r_stack c) = tshape t -> never_wraps t ops -> vm_run c ext ops = Some c' ->
  shape (r_stack c') = tshape (tree_run t ops).
Proof.
  induction ops as [|op r IH]; intros c ext t c' Hp Hsh Hw Hrun; cbn [vm_run tree_run never_wraps] in *.
  - inversion Hrun; subst. exact Hsh.
  - destruct op as [name n attrs sc|name].
    + destruct Hw as [Hs Hw]. destruct (vm_on_start c ext name n attrs sc) as [c1|] eqn:E; [|discriminate].
      destruct (start_tag_keeps_the_stack_a_tree c ext name n attrs sc c1 t Hp Hsh Hs E) as [A B].
      exact (IH c1 ext _ c' B A Hw Hrun).
    + destruct (rw_end_tag c name (hash_of name)) as [c1 f] eqn:E.
      destruct (end_tag_keeps_the_stack_a_tree c name _ c1 f t eq_refl Hp Hsh E) as [A B].
      exact (IH c1 ext _ c' B A Hw Hrun).
Qed.

(* the index :nth-child is evaluated with is the element's 1-based position among its siblings *)
Theorem nth_child_index_is_the_sibling_position s t name n attrs sc :
  shape s = tshape t -> small (length (siblings t)) ->
  ss_cumulative (build_state (stack_add_child s (lname_of_str name)) (lname_of_str name)) = e_index (fst (on_start t name n attrs sc)).
Proof.
  intros Hsh Hs. destruct (shape_add_child s t (lname_of_str name) name Hsh Hs) as [_ H]. rewrite H.
  unfold on_start, siblings. cbn [fst e_index]. destruct (t_open t); reflexivity.
Qed.
