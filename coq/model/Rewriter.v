(* Level-2 controller: HtmlRewriteController = selector VM + content-handler dispatcher + tokens,
   mutations and serialisation (src/rewriter/{rewrite_controller,handlers_dispatcher}.rs,
   src/rewritable_units/{element,mutations,tokens/*}.rs, src/html/mod.rs escaping).
   Handlers are data: scripts of API calls; the Rust harness interprets the same scripts against
   the real API. *)
From Coq Require Export ZArith.
From LolModel Require Export Machine Selectors.
Open Scope nat_scope.

(* ---------------- content, mutations, serialisation ---------------- *)
Inductive ctype := CtHtml | CtText.
Definition chunk := (bytes * ctype)%type.
Fixpoint escape_body_text (s : bytes) : bytes :=
  match s with
  | [] => []
  | c :: r => (if (c =? 60)%N then bs "&lt;" else if (c =? 62)%N then bs "&gt;" else if (c =? 38)%N then bs "&amp;" else [c]) ++ escape_body_text r
  end.
Fixpoint escape_double_quotes (s : bytes) : bytes :=
  match s with
  | [] => []
  | c :: r => (if (c =? 34)%N then bs "&quot;" else [c]) ++ escape_double_quotes r
  end.
Definition encode_chunk (c : chunk) : bytes := match snd c with CtHtml => fst c | CtText => escape_body_text (fst c) end.
Definition encode_chunks (l : list chunk) : list bytes := map encode_chunk l.

Record mutations := mkMut { mu_before : list chunk; mu_repl : list chunk; mu_after : list chunk; mu_removed : bool }.
Definition mut0 : mutations := mkMut [] [] [] false.
Definition mget (m : option mutations) : mutations := match m with Some x => x | None => mut0 end.
Definition m_before (m : option mutations) (c : chunk) := let x := mget m in Some (mkMut (x.(mu_before) ++ [c]) x.(mu_repl) x.(mu_after) x.(mu_removed)).
Definition m_after (m : option mutations) (c : chunk) := let x := mget m in Some (mkMut x.(mu_before) x.(mu_repl) (c :: x.(mu_after)) x.(mu_removed)).
Definition m_replace (m : option mutations) (c : chunk) := let x := mget m in Some (mkMut x.(mu_before) [c] x.(mu_after) true).
Definition m_remove (m : option mutations) := let x := mget m in Some (mkMut x.(mu_before) x.(mu_repl) x.(mu_after) true).
Definition m_clear_after (m : option mutations) := let x := mget m in Some (mkMut x.(mu_before) x.(mu_repl) [] x.(mu_removed)).
Definition m_removed (m : option mutations) : bool := match m with Some x => x.(mu_removed) | None => false end.
(* impl_serialize!: before ++ (self | replacement) ++ after *)
Definition serialize_with (m : option mutations) (self : list bytes) : list bytes :=
  match m with
  | None => self
  | Some x => encode_chunks x.(mu_before) ++ (if x.(mu_removed) then encode_chunks x.(mu_repl) else self) ++ encode_chunks x.(mu_after)
  end.

(* ---------------- attributes / start tag ---------------- *)
Record attr := mkAt { at_name : bytes; at_value : bytes; at_raw : option bytes; at_locs : option (range * range) }.
Definition attr_of_view (a : attr_view) : attr := mkAt a.(av_name) a.(av_value) (Some a.(av_raw)) a.(av_locs).
Definition serialize_attr (a : attr) : bytes :=
  match a.(at_raw) with
  | Some r => r
  | None => a.(at_name) ++ bs "=""" ++ escape_double_quotes a.(at_value) ++ bs """"
  end.
Inductive name_err := NeEmpty | NeForbidden (c : N) | NeInvalidFirst.
Definition attr_name_check (n : bytes) : option name_err :=
  match n with
  | [] => Some NeEmpty
  | _ => match find (fun c => existsb (N.eqb c) ATTR_NAME_FORBIDDEN) n with
         | Some c => Some (NeForbidden c) | None => None end
  end.
Definition tag_name_check (n : bytes) : option name_err :=
  match n with
  | [] => Some NeEmpty
  | c :: _ => if negb (is_alpha c) then Some NeInvalidFirst
              else match find (fun c => existsb (N.eqb c) TAG_NAME_FORBIDDEN) n with
                   | Some c => Some (NeForbidden c) | None => None end
  end.
Fixpoint has_infix (s needle : bytes) : bool :=
  match s with
  | [] => match needle with [] => true | _ => false end
  | _ :: r => bytes_eqb (firstn (length needle) s) needle && (length needle <=? length s) || has_infix r needle
  end.
Definition starts_with (s p : bytes) : bool := bytes_eqb (firstn (length p) s) p && (length p <=? length s).
(* the shapes are read from the source (gen/Constants.v) *)
Definition comment_text_bad (t : bytes) : bool :=
  existsb (has_infix t) COMMENT_BAD_INFIX || existsb (starts_with t) COMMENT_BAD_PREFIX.

Record start_tag := mkStT {
  stt_name : bytes; stt_attrs : list attr; stt_ns : ns; stt_sc : bool; stt_raw : option bytes (* None once modified *);
  stt_mut : option mutations; stt_loc : range; stt_hash : N }.
Definition stt_set_mut t m := mkStT t.(stt_name) t.(stt_attrs) t.(stt_ns) t.(stt_sc) t.(stt_raw) m t.(stt_loc) t.(stt_hash).
Definition serialize_start_tag (t : start_tag) : list bytes :=
  serialize_with t.(stt_mut)
    (match t.(stt_raw) with
     | Some r => [r]
     | None => [bs "<" ++ t.(stt_name) ++ flat_map (fun a => bs " " ++ serialize_attr a) t.(stt_attrs)
                ++ (match t.(stt_attrs) with [] => [] | _ => if t.(stt_sc) then bs " " else [] end)
                ++ (if t.(stt_sc) then bs "/>" else bs ">")]
     end).
Definition attr_matches (lowered : bytes) (a : attr) : bool := eq_ci a.(at_name) lowered.
Definition stt_get_attr (t : start_tag) (name : bytes) : option bytes :=
  match attr_name_check (lower_bytes name) with
  | Some _ => None
  | None => option_map at_value (find (attr_matches (lower_bytes name)) t.(stt_attrs))
  end.
Definition stt_set_attr (t : start_tag) (name value : bytes) : start_tag + name_err :=
  let n := lower_bytes name in
  match attr_name_check n with
  | Some e => inr e
  | None =>
      let fix upd (l : list attr) : list attr * bool :=
        match l with
        | [] => ([], false)
        | a :: r => if attr_matches n a then (mkAt a.(at_name) value None None :: r, true)
                    else let (r', f) := upd r in (a :: r', f)
        end in
      let (l', found) := upd t.(stt_attrs) in
      inl (mkStT t.(stt_name) (if found then l' else t.(stt_attrs) ++ [mkAt n value None None]) t.(stt_ns) t.(stt_sc) None t.(stt_mut) t.(stt_loc) t.(stt_hash))
  end.
Definition stt_remove_attr (t : start_tag) (name : bytes) : start_tag :=
  let n := lower_bytes name in
  match attr_name_check n with
  | Some _ => t
  | None =>
      let l' := filter (fun a => negb (attr_matches n a)) t.(stt_attrs) in
      if length l' =? length t.(stt_attrs) then t
      else mkStT t.(stt_name) l' t.(stt_ns) t.(stt_sc) None t.(stt_mut) t.(stt_loc) t.(stt_hash)
  end.

(* ---------------- handler scripts ---------------- *)
Inductive et_op := EtBefore (c : chunk) | EtAfter (c : chunk) | EtReplace (c : chunk) | EtRemove | EtSetName (n : bytes).
Inductive el_op :=
| ElBefore (c : chunk) | ElAfter (c : chunk) | ElPrepend (c : chunk) | ElAppend (c : chunk)
| ElSetInner (c : chunk) | ElReplace (c : chunk) | ElRemove | ElRemoveKeep
| ElSetAttr (n v : bytes) | ElRemoveAttr (n : bytes) | ElSetTagName (n : bytes)
| ElOnEndTag (ops : list et_op)
| ElStartBefore (c : chunk) | ElStartAfter (c : chunk) | ElStartReplace (c : chunk) | ElStartRemove.
Inductive tok_op := TkBefore (c : chunk) | TkAfter (c : chunk) | TkReplace (c : chunk) | TkRemove | TkSetText (t : bytes).
Inductive tx_when := TwAlways | TwLast | TwNotLast.
Record sel_handlers := mkSH {
  sh_selector : selector; sh_element : option (list el_op); sh_comments : option (list tok_op); sh_text : option (tx_when * list tok_op) }.
Record doc_handlers := mkDH {
  dh_doctype : option (list tok_op); dh_comments : option (list tok_op); dh_text : option (tx_when * list tok_op); dh_end : option (list chunk) }.

(* ---------------- element wrapper ---------------- *)
Record element := mkEl {
  el_tag : start_tag; el_end_mut : option (option mutations) (* Option<Mutations>; inner None = Mutations::new() unmutated *);
  el_end_name : option bytes; el_end_handlers : list (list et_op); el_can_have_content : bool; el_remove_content : bool }.
Definition el_with_tag e t := mkEl t e.(el_end_mut) e.(el_end_name) e.(el_end_handlers) e.(el_can_have_content) e.(el_remove_content).
Definition el_end_mutate (e : element) (f : option mutations -> option mutations) : element :=
  mkEl e.(el_tag) (Some (f (match e.(el_end_mut) with Some m => m | None => None end))) e.(el_end_name) e.(el_end_handlers)
       e.(el_can_have_content) e.(el_remove_content).
(* Element::remove_content *)
Definition el_remove_content_f (e : element) : element :=
  let t := stt_set_mut e.(el_tag) (m_clear_after e.(el_tag).(stt_mut)) in
  let em := match e.(el_end_mut) with
            | Some (Some x) => Some (Some (mkMut [] x.(mu_repl) x.(mu_after) x.(mu_removed)))
            | other => other end in
  mkEl t em e.(el_end_name) e.(el_end_handlers) e.(el_can_have_content) true.
Definition stt_no_slash (t : start_tag) := mkStT t.(stt_name) t.(stt_attrs) t.(stt_ns) false t.(stt_raw) t.(stt_mut) t.(stt_loc) t.(stt_hash).

Inductive op_result := OpOk | OpErr.   (* setters that return Result; errors are observed, not propagated *)
Definition apply_el_op (e : element) (o : el_op) : element * op_result :=
  let t := e.(el_tag) in
  let chc := e.(el_can_have_content) in
  match o with
  | ElBefore c | ElStartBefore c => (el_with_tag e (stt_set_mut t (m_before t.(stt_mut) c)), OpOk)
  | ElStartAfter c => (el_with_tag e (stt_set_mut t (m_after t.(stt_mut) c)), OpOk)
  | ElStartReplace c => (el_with_tag e (stt_set_mut t (m_replace t.(stt_mut) c)), OpOk)
  | ElStartRemove => (el_with_tag e (stt_set_mut t (m_remove t.(stt_mut))), OpOk)
  | ElAfter c =>
      (if chc then el_end_mutate e (fun m => m_after m c) else el_with_tag e (stt_set_mut t (m_after t.(stt_mut) c)), OpOk)
  | ElPrepend c =>
      (if chc then let t1 := stt_no_slash t in el_with_tag e (stt_set_mut t1 (m_after t1.(stt_mut) c)) else e, OpOk)
  | ElAppend c =>
      (if chc then el_end_mutate (el_with_tag e (stt_no_slash t)) (fun m => m_before m c) else e, OpOk)
  | ElSetInner c =>
      (if chc then let e1 := el_remove_content_f (el_with_tag e (stt_no_slash t)) in
                   el_with_tag e1 (stt_set_mut e1.(el_tag) (m_after e1.(el_tag).(stt_mut) c))
       else e, OpOk)
  | ElReplace c =>
      let e1 := el_with_tag e (stt_set_mut t (m_replace t.(stt_mut) c)) in
      (if chc then el_end_mutate (el_remove_content_f e1) m_remove else e1, OpOk)
  | ElRemove =>
      let e1 := el_with_tag e (stt_set_mut t (m_remove t.(stt_mut))) in
      (if chc then el_end_mutate (el_remove_content_f e1) m_remove else e1, OpOk)
  | ElRemoveKeep =>
      let e1 := el_with_tag e (stt_set_mut t (m_remove t.(stt_mut))) in
      (if chc then el_end_mutate e1 m_remove else e1, OpOk)
  | ElSetAttr n v => match stt_set_attr t n v with inl t' => (el_with_tag e t', OpOk) | inr _ => (e, OpErr) end
  | ElRemoveAttr n => (el_with_tag e (stt_remove_attr t n), OpOk)
  | ElSetTagName n =>
      match tag_name_check n with
      | Some _ => (e, OpErr)
      | None =>
          let t' := mkStT n t.(stt_attrs) t.(stt_ns) t.(stt_sc) None t.(stt_mut) t.(stt_loc) t.(stt_hash) in
          (mkEl t' e.(el_end_mut) (if chc then Some n else e.(el_end_name)) e.(el_end_handlers) chc e.(el_remove_content), OpOk)
      end
  | ElOnEndTag ops =>
      if chc then (mkEl t e.(el_end_mut) e.(el_end_name) (e.(el_end_handlers) ++ [ops]) chc e.(el_remove_content), OpOk)
      else (e, OpErr)
  end.

(* ---------------- other tokens ---------------- *)
Record end_tag := mkEtT { ett_name : bytes; ett_raw : option bytes; ett_mut : option mutations; ett_loc : range }.
Definition serialize_end_tag (t : end_tag) : list bytes :=
  serialize_with t.(ett_mut) (match t.(ett_raw) with Some r => [r] | None => [bs "</" ++ t.(ett_name) ++ bs ">"] end).
Definition apply_et_op (t : end_tag) (o : et_op) : end_tag :=
  match o with
  | EtBefore c => mkEtT t.(ett_name) t.(ett_raw) (m_before t.(ett_mut) c) t.(ett_loc)
  | EtAfter c => mkEtT t.(ett_name) t.(ett_raw) (m_after t.(ett_mut) c) t.(ett_loc)
  | EtReplace c => mkEtT t.(ett_name) t.(ett_raw) (m_replace t.(ett_mut) c) t.(ett_loc)
  | EtRemove => mkEtT t.(ett_name) t.(ett_raw) (m_remove t.(ett_mut)) t.(ett_loc)
  | EtSetName n => mkEtT n None t.(ett_mut) t.(ett_loc)
  end.
(* generic non-tag token: comment / text chunk / doctype *)
Record gtok := mkG { g_text : bytes; g_raw : option bytes; g_mut : option mutations }.
Definition apply_tok_op (is_comment : bool) (t : gtok) (o : tok_op) : gtok * op_result :=
  match o with
  | TkBefore c => (mkG t.(g_text) t.(g_raw) (m_before t.(g_mut) c), OpOk)
  | TkAfter c => (mkG t.(g_text) t.(g_raw) (m_after t.(g_mut) c), OpOk)
  | TkReplace c => (mkG t.(g_text) t.(g_raw) (m_replace t.(g_mut) c), OpOk)
  | TkRemove => (mkG t.(g_text) t.(g_raw) (m_remove t.(g_mut)), OpOk)
  | TkSetText x =>
      if is_comment then (if comment_text_bad x then (t, OpErr) else (mkG x None t.(g_mut), OpOk))
      else (t, OpOk)    (* not offered for other tokens in the scripts *)
  end.
Definition serialize_comment (t : gtok) : list bytes :=
  serialize_with t.(g_mut) (match t.(g_raw) with Some r => [r] | None => [bs "<!--"; t.(g_text); bs "-->"] end).
Definition serialize_text (t : gtok) : list bytes := serialize_with t.(g_mut) [t.(g_text)].
Definition serialize_doctype (t : gtok) : list bytes :=
  if m_removed t.(g_mut) then [] else match t.(g_raw) with Some r => [r] | None => [] end.

(* ---------------- handler vectors ---------------- *)
Record hitem (A : Type) := mkHI { hi_h : A; hi_count : nat }.
Arguments mkHI {A}. Arguments hi_h {A}. Arguments hi_count {A}.
Definition hvec (A : Type) := list (hitem A).
Definition hv_active {A} (v : hvec A) : bool := existsb (fun i => 0 <? i.(hi_count)) v.
Definition hv_inc {A} (v : hvec A) (idx : nat) : hvec A :=
  let fix go (l : hvec A) (k : nat) := match l with [] => [] | i :: r => if k =? idx then mkHI i.(hi_h) (S i.(hi_count)) :: r else i :: go r (S k) end in go v 0.
Definition hv_dec {A} (v : hvec A) (idx : nat) : hvec A :=
  let fix go (l : hvec A) (k : nat) := match l with [] => [] | i :: r => if k =? idx then mkHI i.(hi_h) (i.(hi_count) - 1) :: r else i :: go r (S k) end in go v 0.

(* ---------------- observation events ---------------- *)
Inductive hkind := HkElement | HkEndTag | HkComment | HkText | HkDoctype | HkEnd | HkBailOut.
Record event := mkEv { ev_kind : hkind; ev_handler : nat (* index in its handler vector / registration index *);
                       ev_token : option token; ev_results : list op_result; ev_after : option (bytes * list (bytes * bytes)) }.

(* ---------------- controller state ---------------- *)
Record endtag_item := mkETI { eti_name : option bytes; eti_mut : option (option mutations); eti_user : list (list et_op); eti_origin : nat (* start of the element's start tag *) }.
Record locator := mkLoc { lc_el : option nat; lc_cm : option nat; lc_tx : option nat }.
Record rwc := mkRwc {
  r_prog : option program; r_stack : vstack; r_vm_charged : N; r_item_size : N; r_max : N;
  r_doctype : hvec (list tok_op); r_comment : hvec (list tok_op); r_text : hvec (tx_when * list tok_op);
  r_endtag : hvec endtag_item; r_element : hvec (list el_op); r_end : hvec (list chunk);
  r_next_chc : bool; r_removed_count : nat; r_locators : list locator;
  r_pending : option (ectx * option (nat * recovery));   (* the InfoRequest closure *)
  r_invocations : nat; r_fail_at : option nat; r_bail : list (list chunk); r_events : list event }.

Definition rset_vm (c : rwc) (s : vstack) (ch : N) :=
  mkRwc c.(r_prog) s ch c.(r_item_size) c.(r_max) c.(r_doctype) c.(r_comment) c.(r_text) c.(r_endtag) c.(r_element) c.(r_end)
        c.(r_next_chc) c.(r_removed_count) c.(r_locators) c.(r_pending) c.(r_invocations) c.(r_fail_at) c.(r_bail) c.(r_events).
Definition rset_handlers (c : rwc) dt cm tx et el en chc rem :=
  mkRwc c.(r_prog) c.(r_stack) c.(r_vm_charged) c.(r_item_size) c.(r_max) dt cm tx et el en chc rem c.(r_locators)
        c.(r_pending) c.(r_invocations) c.(r_fail_at) c.(r_bail) c.(r_events).
Definition rset_pending (c : rwc) p :=
  mkRwc c.(r_prog) c.(r_stack) c.(r_vm_charged) c.(r_item_size) c.(r_max) c.(r_doctype) c.(r_comment) c.(r_text) c.(r_endtag) c.(r_element) c.(r_end)
        c.(r_next_chc) c.(r_removed_count) c.(r_locators) p c.(r_invocations) c.(r_fail_at) c.(r_bail) c.(r_events).
Definition rlog (c : rwc) (inv : nat) (e : list event) :=
  mkRwc c.(r_prog) c.(r_stack) c.(r_vm_charged) c.(r_item_size) c.(r_max) c.(r_doctype) c.(r_comment) c.(r_text) c.(r_endtag) c.(r_element) c.(r_end)
        c.(r_next_chc) c.(r_removed_count) c.(r_locators) c.(r_pending) inv c.(r_fail_at) c.(r_bail) (e ++ c.(r_events)).

Definition capture_flags (c : rwc) : N :=
  (if hv_active c.(r_doctype) then FLAG_DOCTYPES else 0)
  + (if hv_active c.(r_comment) then FLAG_COMMENTS else 0)
  + (if hv_active c.(r_text) then FLAG_TEXT else 0)
  + (if hv_active c.(r_endtag) then FLAG_NEXT_END_TAG else 0)
  + (if hv_active c.(r_element) then FLAG_NEXT_START_TAG else 0).

(* start_matching for every matched id, in ascending id order *)
Definition start_matching (c : rwc) (ids : list nat) (with_content : bool) : rwc :=
  fold_left (fun c id =>
    match nth_error c.(r_locators) id with
    | None => c
    | Some l =>
        let cm := if with_content then match l.(lc_cm) with Some i => hv_inc c.(r_comment) i | None => c.(r_comment) end else c.(r_comment) in
        let tx := if with_content then match l.(lc_tx) with Some i => hv_inc c.(r_text) i | None => c.(r_text) end else c.(r_text) in
        let el := match l.(lc_el) with Some i => hv_inc c.(r_element) i | None => c.(r_element) end in
        rset_handlers c c.(r_doctype) cm tx c.(r_endtag) el c.(r_end) with_content c.(r_removed_count)
    end) ids c.
Definition stop_matching (c : rwc) (d : elem_desc) : rwc :=
  let c1 := fold_left (fun c id =>
    match nth_error c.(r_locators) id with
    | None => c
    | Some l =>
        let cm := match l.(lc_cm) with Some i => hv_dec c.(r_comment) i | None => c.(r_comment) end in
        let tx := match l.(lc_tx) with Some i => hv_dec c.(r_text) i | None => c.(r_text) end in
        rset_handlers c c.(r_doctype) cm tx c.(r_endtag) c.(r_element) c.(r_end) c.(r_next_chc) c.(r_removed_count)
    end) d.(ed_matched) c in
  let et := match d.(ed_end_handler) with Some i => hv_inc c1.(r_endtag) i | None => c1.(r_endtag) end in
  rset_handlers c1 c1.(r_doctype) c1.(r_comment) c1.(r_text) et c1.(r_element) c1.(r_end) c1.(r_next_chc)
                (if d.(ed_remove_content) then c1.(r_removed_count) - 1 else c1.(r_removed_count)).

(* finishing a VM execution: handle_matched_ids, then push if with_content *)
Definition finish_exec (c : rwc) (ext : N) (ec : ectx) : rwc * flags_res :=
  let c1 := start_matching c ec.(ec_item).(si_data).(ed_matched) ec.(ec_with_content) in
  if ec.(ec_with_content) then
    let '(s', charged, ok) := stack_push c1.(r_stack) ec.(ec_item) c1.(r_item_size) (N.to_nat (N.max (LIMITED_VEC_MIN_BYTES / c1.(r_item_size)) LIMITED_VEC_MIN_ITEMS))
                                         (ext + c1.(r_vm_charged))%N c1.(r_max) in
    let c2 := rset_vm c1 s' (c1.(r_vm_charged) + charged)%N in
    if ok then (c2, FOk (capture_flags c2)) else (c2, FErr MemoryLimitExceeded)
  else (c1, FOk (capture_flags c1)).

Definition rw_start_tag (c : rwc) (ext : N) (name : bytes) (h : N) (n : ns) : rwc * start_res :=
  match c.(r_prog) with
  | None => (c, SFlags (capture_flags c))
  | Some prog =>
      let ln := lname_of name h in
      let s1 := stack_add_child c.(r_stack) ln in
      let c1 := rset_vm c s1 c.(r_vm_charged) in
      let ec0 := mkEC (mkSI ln (mkED [] None false) [] [] 0%Z) true n in
      match get_stack_directive ln n with
      | SdPushIfNotSelfClosing => (rset_pending c1 (Some (ec0, None)), SInfoRequest)
      | dir =>
          let ec := match dir with SdPopImmediately => mkEC ec0.(ec_item) false n | _ => ec0 end in
          match exec_without_attrs prog s1 ec with
          | WoPanic => (c1, SErr (ContentHandlerError 900))    (* expect() panic; proved unreachable *)
          | WoBail ec' a r => (rset_pending c1 (Some (ec', Some (a, r))), SInfoRequest)
          | WoDone ec' =>
              let (c2, r) := finish_exec c1 ext ec' in
              (c2, match r with FOk f => SFlags f | FErr e => SErr e end)
          end
      end
  end.
Definition rw_aux_info (c : rwc) (ext : N) (attrs : list attr_view) (sc : bool) : rwc * flags_res :=
  match c.(r_prog), c.(r_pending) with
  | Some prog, Some (ec, how) =>
      let c0 := rset_pending c None in
      let r := match how with
               | None => exec_all_with_attrs prog c0.(r_stack) (mkEC ec.(ec_item) (negb sc) ec.(ec_ns)) attrs
               | Some (a, rec) => recover prog c0.(r_stack) ec a rec attrs
               end in
      match r with
      | Some ec' => finish_exec c0 ext ec'
      | None => (c0, FErr (ContentHandlerError 900))
      end
  | _, _ => (c, FErr (ContentHandlerError 901))
  end.
Definition rw_end_tag (c : rwc) (name : bytes) (h : N) : rwc * N :=
  match c.(r_prog) with
  | None => (c, capture_flags c)
  | Some _ =>
      let (s', popped) := stack_pop_up_to c.(r_stack) (lname_of name h) in
      let c1 := fold_left stop_matching popped (rset_vm c s' c.(r_vm_charged)) in
      (c1, capture_flags c1)
  end.

(* ---------------- handle_token ---------------- *)
(* run handler k (global invocation counter); None = the injected failure *)
Definition invoke (c : rwc) : rwc * bool :=
  let n := S c.(r_invocations) in
  (rlog c n [], match c.(r_fail_at) with Some k => k =? n | None => false end).

Definition run_el_ops (e : element) (ops : list el_op) : element * list op_result :=
  fold_left (fun acc o => let (e', r) := apply_el_op (fst acc) o in (e', snd acc ++ [r])) ops (e, []).
Definition run_tok_ops (is_comment : bool) (t : gtok) (ops : list tok_op) : gtok * list op_result :=
  fold_left (fun acc o => let (t', r) := apply_tok_op is_comment (fst acc) o in (t', snd acc ++ [r])) ops (t, []).
Definition attrs_after (t : start_tag) : bytes * list (bytes * bytes) :=
  (t.(stt_name), map (fun a => (a.(at_name), a.(at_value))) t.(stt_attrs)).

(* element handlers: do_for_each_active_and_deactivate *)
(* what a handler reads at the moment it is invoked (earlier handlers on the same token may have edited it) *)
Definition view_of_element (e : element) : token :=
  let t := e.(el_tag) in
  TStart t.(stt_name) t.(stt_hash) t.(stt_ns)
         (map (fun a => mkAV a.(at_name) a.(at_value) (match a.(at_raw) with Some r => r | None => [] end) a.(at_locs)) t.(stt_attrs))
         t.(stt_sc) [] t.(stt_loc).
Fixpoint run_element_handlers (v : hvec (list el_op)) (k : nat) (e : element) (c : rwc) (tok0 : token) : hvec (list el_op) * element * rwc * bool :=
  match v with
  | [] => ([], e, c, false)
  | i :: r =>
      if 0 <? i.(hi_count) then
        let tok := view_of_element e in
        let (c1, fail) := invoke c in
        if fail then (i :: r, e, rlog c1 c1.(r_invocations) [mkEv HkElement k (Some tok) [] None], true)
        else
          let (e', res) := run_el_ops e i.(hi_h) in
          let c2 := rlog c1 c1.(r_invocations) [mkEv HkElement k (Some tok) res (Some (attrs_after e'.(el_tag)))] in
          let '(r', e'', c3, f) := run_element_handlers r (S k) e' c2 tok0 in
          (mkHI i.(hi_h) 0 :: r', e'', c3, f)
      else let '(r', e', c', f) := run_element_handlers r (S k) e c tok0 in (i :: r', e', c', f)
  end.

Definition set_top_data (s : vstack) (f : elem_desc -> elem_desc) : vstack :=
  mkVS s.(vs_root_children) s.(vs_typed) (map_last (fun it => mkSI it.(si_name) (f it.(si_data)) it.(si_jumps) it.(si_hjumps) it.(si_children)) s.(vs_items))
       s.(vs_cap) s.(vs_active_hj).

Definition handle_start_tag (c : rwc) (tok : token) (name : bytes) (h : N) (n : ns) (attrs : list attr_view) (sc : bool) (raw : bytes) (loc : range)
  : rwc * out_res :=
  let t0 := mkStT name (map attr_of_view attrs) n sc (Some raw) None loc h in
  let t1 := if 0 <? c.(r_removed_count) then stt_set_mut t0 (m_remove None) else t0 in
  let e0 := mkEl t1 None None [] c.(r_next_chc) false in
  let '(elv, e, c1, failed) := run_element_handlers c.(r_element) 0 e0 c tok in
  let c2 := rset_handlers c1 c1.(r_doctype) c1.(r_comment) c1.(r_text) c1.(r_endtag) elv c1.(r_end) c1.(r_next_chc) c1.(r_removed_count) in
  if failed then (c2, OErr (ContentHandlerError 1))
  else
    let c3 :=
      if c2.(r_next_chc) then
        match c2.(r_prog), c2.(r_stack).(vs_items) with
        | Some _, _ :: _ =>
            let '(s1, rem) := if e.(el_remove_content) then (set_top_data c2.(r_stack) (fun d => mkED d.(ed_matched) d.(ed_end_handler) true), S c2.(r_removed_count))
                              else (c2.(r_stack), c2.(r_removed_count)) in
            let needs := match e.(el_end_mut), e.(el_end_name), e.(el_end_handlers) with None, None, [] => false | _, _, _ => true end in
            if needs then
              let idx := length c2.(r_endtag) in
              let et := c2.(r_endtag) ++ [mkHI (mkETI e.(el_end_name) e.(el_end_mut) e.(el_end_handlers) loc.(rs)) 0] in
              let s2 := set_top_data s1 (fun d => mkED d.(ed_matched) (Some idx) d.(ed_remove_content)) in
              rset_handlers (rset_vm c2 s2 c2.(r_vm_charged)) c2.(r_doctype) c2.(r_comment) c2.(r_text) et c2.(r_element) c2.(r_end) c2.(r_next_chc) rem
            else rset_handlers (rset_vm c2 s1 c2.(r_vm_charged)) c2.(r_doctype) c2.(r_comment) c2.(r_text) c2.(r_endtag) c2.(r_element) c2.(r_end) c2.(r_next_chc) rem
        | _, _ => c2
        end
      else c2 in
    (c3, OOk (serialize_start_tag e.(el_tag))).

(* end tag handlers: do_for_each_active_and_remove_tail *)
Fixpoint first_active {A} (v : hvec A) (k : nat) : option nat :=
  match v with [] => None | i :: r => if 0 <? i.(hi_count) then Some k else first_active r (S k) end.
(* user end-tag handlers of one element (each is one invocation); stops at the first failure *)
Fixpoint run_user_endtag (k : nat) (users : list (list et_op)) (t : end_tag) (c : rwc) (tok : token) : end_tag * rwc * bool :=
  match users with
  | [] => (t, c, false)
  | ops :: r =>
      let (c1, fail) := invoke c in
      let view := match tok with TEnd _ h raw loc => TEnd t.(ett_name) h raw loc | x => x end in
      let c2 := rlog c1 c1.(r_invocations) [mkEv HkEndTag k (Some view) [] None] in
      if fail then (t, c2, true) else run_user_endtag k r (fold_left apply_et_op ops t) c2 tok
  end.
Fixpoint run_endtag_items (items : list (nat * hitem endtag_item)) (t : end_tag) (c : rwc) (tok : token) : end_tag * rwc * bool :=
  match items with
  | [] => (t, c, false)
  | (k, i) :: r =>
      if 0 <? i.(hi_count) then
        (* the synthesized handler (not user code), then the user handlers in order *)
        let t1 := match i.(hi_h).(eti_name) with Some n => mkEtT n None t.(ett_mut) t.(ett_loc) | None => t end in
        let t2 := match i.(hi_h).(eti_mut) with Some m => mkEtT t1.(ett_name) t1.(ett_raw) m t1.(ett_loc) | None => t1 end in
        let '(t3, c1, failed) := run_user_endtag i.(hi_h).(eti_origin) i.(hi_h).(eti_user) t2 c tok in
        if failed then (t3, c1, true) else run_endtag_items r t3 c1 tok
      else run_endtag_items r t c tok
  end.
Definition handle_end_tag_token (c : rwc) (tok : token) (name : bytes) (raw : bytes) (loc : range) : rwc * out_res :=
  let t0 := mkEtT name (Some raw) None loc in
  match first_active c.(r_endtag) 0 with
  | None => (c, OOk (serialize_end_tag t0))
  | Some first =>
      let kept := firstn first c.(r_endtag) in
      let drained := rev (combine (seq first (length c.(r_endtag) - first)) (skipn first c.(r_endtag))) in
      let c0 := rset_handlers c c.(r_doctype) c.(r_comment) c.(r_text) kept c.(r_element) c.(r_end) c.(r_next_chc) c.(r_removed_count) in
      let '(t, c1, failed) := run_endtag_items drained t0 c0 tok in
      if failed then (c1, OErr (ContentHandlerError 1)) else (c1, OOk (serialize_end_tag t))
  end.

(* for_each_active for comment / text / doctype handlers *)
Definition view_of_gtok (tok0 : token) (t : gtok) : token :=
  match tok0 with TComment _ raw loc => TComment t.(g_text) raw loc | x => x end.
Fixpoint run_tok_handlers (kind : hkind) (v : list (nat * (hitem (tx_when * list tok_op)))) (last : bool) (t : gtok) (c : rwc) (tok0 : token)
  : gtok * rwc * bool :=
  match v with
  | [] => (t, c, false)
  | (k, i) :: r =>
      if 0 <? i.(hi_count) then
        let tok := view_of_gtok tok0 t in
        let (c1, fail) := invoke c in
        if fail then (t, rlog c1 c1.(r_invocations) [mkEv kind k (Some tok) [] None], true)
        else
          let applies := match fst i.(hi_h) with TwAlways => true | TwLast => last | TwNotLast => negb last end in
          let (t', res) := if applies then run_tok_ops (match kind with HkComment => true | _ => false end) t (snd i.(hi_h)) else (t, []) in
          run_tok_handlers kind r last t' (rlog c1 c1.(r_invocations) [mkEv kind k (Some tok) res None]) tok0
      else run_tok_handlers kind r last t c tok0
  end.
Definition indexed {A} (l : list A) : list (nat * A) := combine (seq 0 (length l)) l.
Definition always {A} (v : hvec A) : hvec (tx_when * A) := map (fun i => mkHI (TwAlways, i.(hi_h)) i.(hi_count)) v.

Definition rw_token (c : rwc) (tok : token) : rwc * out_res :=
  match tok with
  | TStart name h n attrs sc raw loc => handle_start_tag c tok name h n attrs sc raw loc
  | TEnd name h raw loc => handle_end_tag_token c tok name raw loc
  | TComment text raw loc =>
      let '(t, c1, failed) := run_tok_handlers HkComment (indexed (always c.(r_comment))) false (mkG text (Some raw) None) c tok in
      if failed then (c1, OErr (ContentHandlerError 1)) else (c1, OOk (serialize_comment t))
  | TText ty text last loc =>
      let '(t, c1, failed) := run_tok_handlers HkText (indexed c.(r_text)) last (mkG text None None) c tok in
      if failed then (c1, OErr (ContentHandlerError 1)) else (c1, OOk (serialize_text t))
  | TDoctype n p s fq raw loc =>
      let '(t, c1, failed) := run_tok_handlers HkDoctype (indexed (always c.(r_doctype))) false (mkG [] (Some raw) None) c tok in
      if failed then (c1, OErr (ContentHandlerError 1)) else (c1, OOk (serialize_doctype t))
  end.

(* handle_end: do_for_each_active_and_remove_tail over the end handlers (reverse order) *)
Fixpoint run_end_handlers (items : list (nat * hitem (list chunk))) (c : rwc) (acc : list bytes) : rwc * list bytes * option rw_error :=
  match items with
  | [] => (c, acc, None)
  | (k, i) :: r =>
      let (c1, fail) := invoke c in
      let c2 := rlog c1 c1.(r_invocations) [mkEv HkEnd k None [] None] in
      if fail then (c2, acc, Some (ContentHandlerError 1))
      else run_end_handlers r c2 (acc ++ encode_chunks i.(hi_h))
  end.
Definition rw_end (c : rwc) : rwc * list bytes * option rw_error :=
  let c0 := rset_handlers c c.(r_doctype) c.(r_comment) c.(r_text) c.(r_endtag) c.(r_element) [] c.(r_next_chc) c.(r_removed_count) in
  run_end_handlers (rev (indexed c.(r_end))) c0 [].

Definition rw_bail_out (c : rwc) (e : rw_error) : rwc * list bytes :=
  (rlog c c.(r_invocations) (map (fun k => mkEv HkBailOut k None [] None) (rev (seq 0 (length c.(r_bail))))),
   flat_map encode_chunks c.(r_bail)).

Definition rewrite_controller : controller rwc := {|
  c_initial_flags := capture_flags;
  c_start_tag := rw_start_tag;
  c_aux_info := rw_aux_info;
  c_end_tag := rw_end_tag;
  c_token := rw_token;
  c_end := rw_end;
  c_should_emit := fun c => negb (0 <? c.(r_removed_count));
  c_bail_out := rw_bail_out;
  c_mem_usage := fun c => c.(r_vm_charged);
|}.

(* ---------------- HtmlRewriteController::from_settings ---------------- *)
Definition opt_push {A} (v : hvec A) (h : option A) (always_active : bool) : hvec A * option nat :=
  match h with Some x => (v ++ [mkHI x (if always_active then 1 else 0)], Some (length v)) | None => (v, None) end.
Definition new_rwc (sels : list sel_handlers) (docs : list doc_handlers) (bail : list (list chunk)) (fail_at : option nat)
                   (item_size max_mem : N) : rwc :=
  let '(ast, el, cm, tx, locs) :=
    fold_left (fun acc sh =>
      let '(ast, el, cm, tx, locs) := acc in
      let id := length locs in
      let (el', li) := opt_push el sh.(sh_element) false in
      let (cm', lc) := opt_push cm sh.(sh_comments) false in
      let (tx', lt) := opt_push tx sh.(sh_text) false in
      (add_selector ast sh.(sh_selector) id, el', cm', tx', locs ++ [mkLoc li lc lt])) sels ([], [], [], [], []) in
  let '(dt, cm2, tx2, en) :=
    fold_left (fun acc dh =>
      let '(dt, cm, tx, en) := acc in
      (fst (opt_push dt dh.(dh_doctype) true), fst (opt_push cm dh.(dh_comments) true), fst (opt_push tx dh.(dh_text) true), fst (opt_push en dh.(dh_end) true)))
      docs ([], cm, tx, []) in
  let prog := match sels with [] => None | _ => Some (compile ast) end in
  mkRwc prog (new_vstack (match prog with Some p => p.(pr_nth_of_type) | None => false end)) 0%N item_size max_mem
        dt cm2 tx2 [] el en false 0 locs None 0 fail_at bail [].

(* ---------------- running a level-2 case ---------------- *)
Record call_obs2 := mkObs2 { o2_res : api_res; o2_sink : list sink_call; o2_events : list event; o2_usage : N }.
Fixpoint l2_run (r : rewriter (C := rwc)) (ops : list api_call) (seen_sink seen_ev : nat) : list call_obs2 :=
  match ops with
  | [] => []
  | o :: rest =>
      let (r1, res) := api_step rewrite_controller r o in
      let sk := rev r1.(rw_stream).(s_ctx).(c_disp).(d_sink) in
      let ev := rev r1.(rw_stream).(s_ctx).(c_disp).(d_ctl).(r_events) in
      mkObs2 res (skipn seen_sink sk) (skipn seen_ev ev)
             (r1.(rw_stream).(s_arena).(ar_charged) + r1.(rw_stream).(s_ctx).(c_disp).(d_ctl).(r_vm_charged))%N
        :: l2_run r1 rest (length sk) (length ev)
  end.
Definition l2_case (cfg : settings) (sels : list sel_handlers) (docs : list doc_handlers) (bail : list (list chunk))
           (fail_at : option nat) (item_size : N) (ops : list api_call) : option (list call_obs2) :=
  let c0 := new_rwc sels docs bail fail_at item_size cfg.(st_max_mem) in
  if negb (prealloc_fits rewrite_controller cfg c0) then None
  else Some (l2_run (new_rewriter rewrite_controller cfg c0) ops 0 0).
