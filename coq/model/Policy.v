(* Level-1 controller: an arbitrary-looking but deterministic capture-flag policy, the same function
   on the Rust side (harness/src/l1.rs).  It exercises lexer/scanner hand-offs at every tag,
   content removal (should_emit_content), handler failures and bail-out handlers without any
   selector machinery. *)
From LolModel Require Export Machine.
Open Scope nat_scope.

Record pol := mkPol {
  pl_counter : nat; pl_seed : nat;
  pl_fail_at : option nat;      (* handle_token fails at this (1-based) invocation *)
  pl_remove : bool;             (* should_emit_content follows a counter-based pattern *)
  pl_bail_text : bytes;         (* what the bail-out handler appends (empty = nothing) *)
  pl_end_text : bytes;          (* what handle_end appends *)
  pl_tokens : nat;              (* handle_token invocations so far *)
  pl_events : list token        (* reversed *)
}.
(* seeds from 2000 on select the capture-everything policy (used for the C03 reference comparison) *)
Definition policy_flags (k : nat) : N := if (2000 <=? N.of_nat k)%N then 31%N else if k mod 3 =? 0 then 0%N else N.of_nat ((k * 37 + 11) mod 32).
Definition pol_bump (p : pol) : pol :=
  mkPol (S p.(pl_counter)) p.(pl_seed) p.(pl_fail_at) p.(pl_remove) p.(pl_bail_text) p.(pl_end_text) p.(pl_tokens) p.(pl_events).

Definition serialize_unmodified (t : token) : list bytes :=
  match t with
  | TStart _ _ _ _ _ raw _ | TEnd _ _ raw _ | TComment _ raw _ | TDoctype _ _ _ _ raw _ => [raw]
  | TText _ text _ _ => match text with [] => [] | _ => [text] end
  end.

Definition pol_token (p : pol) (t : token) : pol * out_res :=
  let n := S p.(pl_tokens) in
  let p' := mkPol p.(pl_counter) p.(pl_seed) p.(pl_fail_at) p.(pl_remove) p.(pl_bail_text) p.(pl_end_text) n (t :: p.(pl_events)) in
  match p.(pl_fail_at) with
  | Some k => if k =? n then (p', OErr (ContentHandlerError 1)) else (p', OOk (serialize_unmodified t))
  | None => (p', OOk (serialize_unmodified t))
  end.

Definition policy_controller : controller pol := {|
  c_initial_flags := fun p => policy_flags p.(pl_seed);
  c_start_tag := fun p _ _ _ _ => (pol_bump p, SFlags (policy_flags (p.(pl_counter) + p.(pl_seed))));
  c_aux_info := fun p _ _ _ => (p, FOk 0%N);
  c_end_tag := fun p _ _ => (pol_bump p, policy_flags (p.(pl_counter) + p.(pl_seed) + 2));
  c_token := pol_token;
  c_end := fun p => (p, match p.(pl_end_text) with [] => [] | x => [x] end, None);
  c_should_emit := fun p => if p.(pl_remove) then negb ((p.(pl_counter) / 3) mod 3 =? 1) else true;
  c_bail_out := fun p _ => (p, match p.(pl_bail_text) with [] => [] | x => [x] end);
  c_mem_usage := fun _ => 0%N;
|}.

(* One observation per API call: result, sink calls made during it, events delivered during it,
   total bytes in the sink afterwards. *)
Record call_obs := mkObs { o_res : api_res; o_sink : list sink_call; o_events : list token; o_usage : N }.

Fixpoint l1_run (r : rewriter (C := pol)) (ops : list api_call) (seen_sink seen_ev : nat) : list call_obs :=
  match ops with
  | [] => []
  | o :: rest =>
      let (r1, res) := api_step policy_controller r o in
      let sk := rev r1.(rw_stream).(s_ctx).(c_disp).(d_sink) in
      let ev := rev r1.(rw_stream).(s_ctx).(c_disp).(d_ctl).(pl_events) in
      mkObs res (skipn seen_sink sk) (skipn seen_ev ev) r1.(rw_stream).(s_arena).(ar_charged) :: l1_run r1 rest (length sk) (length ev)
  end.

Definition l1_case (cfg : settings) (seed : nat) (fail_at : option nat) (remove : bool) (bail_text end_text : bytes)
           (ops : list api_call) : option (list call_obs) :=
  let p0 := mkPol 0 seed fail_at remove bail_text end_text 0 [] in
  let r0 := new_rewriter policy_controller cfg p0 in
  (* None = construction trips the debug assertion of Arena::new (preallocation exceeds the limit) *)
  if negb (prealloc_fits policy_controller cfg p0) then None else Some (
  (* the set_encoding call made by Dispatcher::new is reported with the first call *)
  l1_run r0 ops 0 0).
