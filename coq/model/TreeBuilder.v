(* Tree-builder simulator and ambiguity guard (src/parser/tree_builder_simulator).
   The if/else skeleton is hand-written; every tag list and single-tag test comes from the
   regenerated gen/TagTables.v, addressed by (function, position in source order). *)
From LolModel Require Export Base.
From LolGen Require Export TagTables.
Open Scope nat_scope.

Definition tt_holds (t : tag_test) (h : N) : bool :=
  match t with
  | TT_list l => one_of h l
  | TT_eq l => one_of h l
  | TT_ne l => negb (one_of h l)
  end.
Definition tt_at (l : list tag_test) (k : nat) (h : N) : bool :=
  match nth_error l k with Some t => tt_holds t h | None => false end.

(* ---- ambiguity guard ---- *)
Inductive guard_state := GDefault | GInSelect | GInTemplateInSelect (depth : N) | GInOrAfterFrameset.

Definition assert_not_ambiguous (h : N) : bool (* true = ok *) := negb (one_of h tt_assert_not_ambiguous).

(* returns None on ParsingAmbiguity *)
Definition guard_track_start (g : guard_state) (h : N) : option guard_state :=
  let T := tt_at tt_track_start_tag in
  match g with
  | GDefault => Some (if T 0 h then GInSelect else if T 1 h then GInOrAfterFrameset else GDefault)
  | GInSelect =>
      if T 2 h then Some GDefault
      else if T 3 h then Some (GInTemplateInSelect 1)
      else if T 4 h (* != Script *) then (if assert_not_ambiguous h then Some g else None)
      else Some g
  | GInTemplateInSelect d =>
      if T 5 h then Some (GInTemplateInSelect ((d + 1) mod 2^64)%N)
      else if assert_not_ambiguous h then Some g else None
  | GInOrAfterFrameset =>
      if T 6 h (* != Noframes *) then (if assert_not_ambiguous h then Some g else None) else Some g
  end.
Definition guard_track_end (g : guard_state) (h : N) : guard_state :=
  let T := tt_at tt_track_end_tag in
  match g with
  | GInSelect => if T 0 h then GDefault else g
  | GInTemplateInSelect d => if T 1 h then (if (d =? 1)%N then GInSelect else GInTemplateInSelect (d - 1)%N) else g
  | _ => g
  end.

(* ---- simulator ---- *)
Inductive req_kind := RqIntegrationPoint | RqFont | RqAnnotationStart | RqAnnotationEnd.
Inductive feedback := FbSwitch (t : text_type) | FbCdata (b : bool) | FbRequest (k : req_kind) | FbNone.
Record sim := mkSim { ns_stack : list ns (* top first *); cur_ns : ns; guard : guard_state; strict : bool }.

Definition enter_ns (s : sim) (n : ns) : sim * feedback :=
  (mkSim (n :: s.(ns_stack)) n s.(guard) s.(strict), FbCdata (negb (ns_eqb n Html))).
Definition leave_ns (s : sim) : sim * feedback :=
  match tl s.(ns_stack) with
  | [] => (mkSim [] s.(cur_ns) s.(guard) s.(strict), FbNone)   (* debug_assert!(false) in the code; proved unreachable *)
  | n :: r => (mkSim (n :: r) n s.(guard) s.(strict), FbCdata (negb (ns_eqb n Html)))
  end.
(* breakout from foreign content (13.2.6.5): directly nested foreign roots are left at once -- entries are popped while
   the one below the top is not Html (and more than two remain), then the top *)
Fixpoint drop_foreign (st : list ns) : list ns :=
  match st with
  | top :: ((prev :: (_ :: _)) as r) => if ns_eqb prev Html then st else drop_foreign r
  | _ => st
  end.
Definition leave_foreign (s : sim) : sim * feedback :=
  leave_ns (mkSim (drop_foreign s.(ns_stack)) s.(cur_ns) s.(guard) s.(strict)).
Definition text_type_adjust (h : N) : feedback :=
  let T := tt_at tt_get_text_type_adjustment in
  if T 0 h then FbSwitch RCData else if T 1 h then FbSwitch PlainText
  else if T 2 h then FbSwitch ScriptData else if T 3 h then FbSwitch RawText else FbNone.
Definition causes_foreign_content_exit (h : N) := tt_at tt_causes_foreign_content_exit 0 h.
Definition is_text_ip_mathml (h : N) := tt_at tt_is_text_integration_point_in_math_ml 0 h.
Definition is_html_ip_svg (h : N) := tt_at tt_is_html_integration_point_in_svg 0 h.
Definition is_ip_enter (s : sim) (h : N) : bool :=
  ns_eqb s.(cur_ns) Svg && is_html_ip_svg h || ns_eqb s.(cur_ns) MathML && is_text_ip_mathml h.

Definition fb_start_foreign (s : sim) (h : N) : sim * feedback :=
  if causes_foreign_content_exit h then leave_foreign s
  else if is_ip_enter s h then (s, FbRequest RqIntegrationPoint)
  else if tt_at tt_get_feedback_for_start_tag_in_foreign_content 0 h then (s, FbRequest RqFont)
  else if (h =? EMPTY_HASH)%N && ns_eqb s.(cur_ns) MathML then (s, FbRequest RqAnnotationStart)
  else (s, FbNone).

(* None = ParsingAmbiguity *)
Definition fb_start (s : sim) (h : N) : option (sim * feedback) :=
  let g' := if s.(strict) then guard_track_start s.(guard) h else Some s.(guard) in
  match g' with
  | None => None
  | Some g =>
      let s := mkSim s.(ns_stack) s.(cur_ns) g s.(strict) in
      Some (if tt_at tt_get_feedback_for_start_tag 0 h then enter_ns s Svg
            else if tt_at tt_get_feedback_for_start_tag 1 h then enter_ns s MathML
            else if negb (ns_eqb s.(cur_ns) Html) then fb_start_foreign s h
            else (s, text_type_adjust h))
  end.

Definition should_leave_ns (s : sim) (h : N) : bool :=
  let T := tt_at tt_should_leave_ns in
  (ns_eqb s.(cur_ns) Svg && T 0 h || ns_eqb s.(cur_ns) MathML && T 1 h)
  || ((ns_eqb s.(cur_ns) Svg || ns_eqb s.(cur_ns) MathML) && T 2 h).

Definition check_ip_exit (s : sim) (h : N) : sim * feedback :=
  match s.(ns_stack) with
  | _ :: prev :: _ =>
      if ns_eqb prev MathML && is_text_ip_mathml h || ns_eqb prev Svg && is_html_ip_svg h then leave_ns s
      else if (h =? EMPTY_HASH)%N && ns_eqb prev MathML then (s, FbRequest RqAnnotationEnd)
      else (s, FbNone)
  | _ => (s, FbNone)
  end.

Definition fb_end (s : sim) (h : N) : sim * feedback :=
  let s := if s.(strict) then mkSim s.(ns_stack) s.(cur_ns) (guard_track_end s.(guard) h) s.(strict) else s in
  if ns_eqb s.(cur_ns) Html then check_ip_exit s h
  else if should_leave_ns s h then (if tt_at tt_should_leave_ns 2 h then leave_foreign s else leave_ns s) else (s, FbNone).

(* RequestLexeme callbacks; [part] slices the chunk *)
Definition run_request (part : range -> bytes) (k : req_kind) (s : sim) (t : tag_outline) : sim * feedback :=
  match k, t with
  | RqIntegrationPoint, StartTagO _ _ _ _ sc => if sc then (s, FbNone) else enter_ns s Html
  | RqFont, StartTagO _ _ _ attrs _ =>
      if existsb (fun a => let n := part a.(a_name) in
                           eq_ci n (bs "color") || eq_ci n (bs "size") || eq_ci n (bs "face")) attrs
      then leave_foreign s else (s, FbNone)
  | RqAnnotationStart, StartTagO n _ _ attrs sc =>
      if negb sc && eq_ci (part n) (bs "annotation-xml") then
        if existsb (fun a => eq_ci (part a.(a_name)) (bs "encoding") &&
                             (eq_ci (part a.(a_value)) (bs "text/html")
                              || eq_ci (part a.(a_value)) (bs "application/xhtml+xml"))) attrs
        then enter_ns s Html else (s, FbNone)
      else (s, FbNone)
  | RqAnnotationEnd, EndTagO n _ => if eq_ci (part n) (bs "annotation-xml") then leave_ns s else (s, FbNone)
  | _, _ => (s, FbNone)
  end.

Definition init_sim (strict : bool) : sim := mkSim [Html] Html GDefault strict.
