(* Base definitions of the executable model of lol-html.  NO proofs in model/ files. *)
From Coq Require Export List NArith Arith Bool String Ascii.
Export ListNotations.
From LolGen Require Export Constants.
Open Scope nat_scope.
Notation length := List.length.

(* ---- ranges, text types, namespaces ---- *)
Record range := mkR { rs : nat; re : nat }.
Inductive text_type := Data | PlainText | RCData | RawText | ScriptData | CDataSection.
Inductive ns := Html | Svg | MathML.
Definition ns_eqb (a b : ns) : bool :=
  match a, b with Html, Html | Svg, Svg | MathML, MathML => true | _, _ => false end.
Definition tt_eqb (a b : text_type) : bool :=
  match a, b with
  | Data, Data | PlainText, PlainText | RCData, RCData | RawText, RawText
  | ScriptData, ScriptData | CDataSection, CDataSection => true
  | _, _ => false end.

Definition bytes := list N.
Definition bs (s : string) : bytes := map N_of_ascii (list_ascii_of_string s).
Definition slice (input : bytes) (r : range) : bytes := firstn (r.(re) - r.(rs)) (skipn r.(rs) input).
Definition sub (input : bytes) (a b : nat) : bytes := firstn (b - a) (skipn a input).

Fixpoint bytes_eqb (a b : bytes) : bool :=
  match a, b with
  | [], [] => true
  | x :: r, y :: s => (x =? y)%N && bytes_eqb r s
  | _, _ => false
  end.

(* ---- character classes (src/parser/state_machine/syntax_dsl/arm_pattern) ---- *)
Definition is_alpha (b : N) : bool := ((97 <=? b) && (b <=? 122) || (65 <=? b) && (b <=? 90))%N.
Definition is_ws (b : N) : bool := ((b =? 32) || (b =? 10) || (b =? 13) || (b =? 9) || (b =? 12))%N.
Definition is_upper (b : N) : bool := ((65 <=? b) && (b <=? 90))%N.
Definition lower (b : N) : N := if is_upper b then (b + 32)%N else b.
Definition lower_bytes (s : bytes) : bytes := map lower s.
(* base::eq_case_insensitive(actual, expected_lowercased) *)
Fixpoint eq_ci (mixed lowered : bytes) : bool :=
  match mixed, lowered with
  | [], [] => true
  | a :: r, b :: s => (lower a =? b)%N && eq_ci r s
  | _, _ => false
  end.

(* ---- LocalNameHash (src/html/local_name.rs); u64 wrap written out ---- *)
Definition EMPTY_HASH : N := (2^64 - 1)%N.
Definition hash_update (h : N) (ch : N) : N :=
  if (N.shiftr h (64 - HASH_BITS_PER_CHAR) =? 0)%N then
    if is_alpha ch then (N.lor (N.shiftl h HASH_BITS_PER_CHAR) (N.land ch 31 + HASH_ALPHA_OFFSET)) mod 2^64
    else if ((49 <=? ch) && (ch <=? 54))%N && (negb HASH_DIGIT_NEEDS_PREFIX || negb (h =? 0)%N) then (N.lor (N.shiftl h HASH_BITS_PER_CHAR) (N.land ch 15 - 1)) mod 2^64
    else EMPTY_HASH
  else EMPTY_HASH.
Definition hash_of (s : bytes) : N := fold_left hash_update s 0%N.
Definition one_of (h : N) (l : list N) : bool := existsb (N.eqb h) l.

(* ---- capture flags (bit set as N) ---- *)
Definition has_flag (flags f : N) : bool := negb (N.land flags f =? 0)%N.
Definition clear_flag (flags f : N) : N := N.ldiff flags f.
Definition set_flag (flags f : N) : N := N.lor flags f.

(* ---- outlines produced by the lexer (src/parser/lexer/lexeme/token_outline.rs) ---- *)
Record attr_outline := mkA { a_name : range; a_value : range; a_raw : range }.
Inductive tag_outline :=
| StartTagO (name : range) (hash : N) (n : ns) (attrs : list attr_outline) (self_closing : bool)
| EndTagO (name : range) (hash : N).
Inductive nontag_outline :=
| TextO (t : text_type) | CommentO (r : range)
| DoctypeO (name pub sys : option range) (fq : bool) | EofO.

(* ---- errors ---- *)
Inductive rw_error := MemoryLimitExceeded | ParsingAmbiguity (on_hash : N) | ContentHandlerError (code : nat).
Definition err_kind_eqb (a b : rw_error) : bool :=
  match a, b with
  | MemoryLimitExceeded, MemoryLimitExceeded => true
  | ParsingAmbiguity _, ParsingAmbiguity _ => true
  | ContentHandlerError _, ContentHandlerError _ => true
  | _, _ => false end.

(* ---- tokens as handlers see them (absolute source ranges) ---- *)
(* av_locs: Attribute::name_value_start -- None when (base + value.start) = 0 (NonZero niche in the code) *)
Record attr_view := mkAV { av_name : bytes; av_value : bytes; av_raw : bytes; av_locs : option (range * range) }.
Inductive token :=
| TStart (name : bytes) (hash : N) (n : ns) (attrs : list attr_view) (sc : bool) (raw : bytes) (loc : range)
| TEnd (name : bytes) (hash : N) (raw : bytes) (loc : range)
| TText (t : text_type) (text : bytes) (last : bool) (loc : range)
| TComment (text : bytes) (raw : bytes) (loc : range)
| TDoctype (n p s : option bytes) (fq : bool) (raw : bytes) (loc : range).

(* ---- sink protocol ---- *)
Inductive sink_call := SkEncoding (e : nat) | SkChunk (b : bytes).
Definition sink_bytes (log : list sink_call) : bytes :=
  flat_map (fun c => match c with SkChunk b => b | SkEncoding _ => [] end) log.

Definition opt_default {A} (d : A) (o : option A) : A := match o with Some x => x | None => d end.
