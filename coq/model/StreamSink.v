(* StreamingHandlerSink (src/rewritable_units/streaming_sink.rs) with IncompleteUtf8Resync (src/rewritable_units/text_encoder.rs):
   content written by content handlers as strings or as UTF-8 byte fragments that may split a character anywhere.
   The document encoding is UTF-8 here (the TextEncoder for other encodings is encoding_rs plus an ASCII fast path). *)
From LolModel Require Import Base TextDecoder Selectors Machine Rewriter.
From Coq Require Import Lia.
Open Scope nat_scope.

Definition is_cont (b : N) : bool := ((128 <=? b) && (b <? 192))%N.                 (* (b >> 6) == 0b10 *)
Definition utf8_width (b : N) : nat :=                                              (* u8::leading_ones *)
  if (b <? 128)%N then 0 else if (b <? 192)%N then 1 else if (b <? 224)%N then 2 else if (b <? 240)%N then 3
  else if (b <? 248)%N then 4 else if (b <? 252)%N then 5 else if (b <? 254)%N then 6 else if (b <? 255)%N then 7 else 8.

(* std::str::from_utf8: Ok, or Err { valid_up_to, error_len }: error_len = None iff the input merely ends inside a character *)
Inductive u8res := U8Ok | U8Err (valid_up_to : nat) (incomplete_only : bool).
Fixpoint u8_scan (s : u8state) (inp : bytes) (pos ok : nat) : u8res :=
  match inp with
  | [] => match s with [] => U8Ok | _ => U8Err ok true end
  | b :: r => let '(s1, _, bad) := u8_step s b in
              if bad then U8Err ok false else u8_scan s1 r (S pos) (match s1 with [] => S pos | _ => ok end)
  end.
Definition from_utf8 (inp : bytes) : u8res := u8_scan [] inp 0 0.

(* IncompleteUtf8Resync: the buffered bytes of an unfinished character (char_bytes[..char_len], at most 4) *)
Fixpoint absorb (buf c : bytes) : bytes * bytes * bool :=
  match c with
  | [] => (buf, [], false)
  | b :: r => if is_cont b && (length buf <? 4) then absorb (buf ++ [b]) r else (buf, c, true)
  end.
(* utf8_bytes_to_slice: None = Utf8Error; Some (buffer afterwards, valid piece, unchecked rest) *)
Definition slice_step (st content : bytes) : option (bytes * bytes * bytes) :=
  match st with
  | [] =>
      match from_utf8 content with
      | U8Ok => Some ([], content, [])
      | U8Err _ false => None
      | U8Err v true => let inv := skipn v content in if 4 <? length inv then None else Some (inv, firstn v content, [])
      end
  | lead :: _ =>
      let '(buf, rest, must) := absorb st content in
      if must || (utf8_width lead <=? length buf) then
        match from_utf8 buf with U8Ok => Some ([], buf, rest) | _ => None end
      else Some (buf, [], [])
  end.
(* write_utf8_chunk: the pieces flushed so far are kept when a later part of the same fragment is refused (None = Utf8Error) *)
Fixpoint write_chunk (fuel : nat) (st content : bytes) (acc : list bytes) : option bytes * list bytes :=
  match content with
  | [] => (Some st, acc)
  | _ => match fuel with
         | O => (None, acc)                            (* unreachable: two rounds suffice *)
         | S f => match slice_step st content with
                  | None => (None, acc)
                  | Some (st', valid, rest) => write_chunk f st' rest (match valid with [] => acc | _ => acc ++ [valid] end)
                  end
         end
  end.

Inductive sink_op := SkStr (s : bytes) (ct : ctype) | SkUtf8 (b : bytes) (ct : ctype).
Definition sk_emit (ct : ctype) (piece : bytes) : bytes := encode_chunk (piece, ct).
(* one call on the sink: the buffer afterwards (None = Err(Utf8Error)) and the bytes handed to the output *)
Definition sink_step (st : bytes) (o : sink_op) : option bytes * bytes :=
  match o with
  | SkStr s ct => (Some [], (match st with [] => [] | _ => REPL end) ++ sk_emit ct s)       (* a dangling fragment becomes U+FFFD *)
  | SkUtf8 b ct => let (st', ps) := write_chunk 3 st b [] in (st', List.concat (map (sk_emit ct) ps))
  end.
(* a streaming handler: the calls up to and including the first failing one (its error ends the handler): ok?, output *)
Fixpoint sink_run (st : bytes) (ops : list sink_op) : list (bool * bytes) :=
  match ops with
  | [] => []
  | o :: r => match sink_step st o with
              | (None, out) => [(false, out)]
              | (Some st', out) => (true, out) :: sink_run st' r
              end
  end.
