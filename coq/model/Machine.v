(* Executable model of the tokenizer pipeline of lol-html:
     src/parser/state_machine/mod.rs + syntax_dsl/*   -> generic interpreter of gen/StateTable.v
     src/parser/lexer/*, src/parser/tag_scanner/*     -> the two action sets
     src/parser/mod.rs                                -> Parser::parse with bookmark hand-offs
     src/transform_stream/dispatcher.rs               -> Dispatcher
     src/transform_stream/mod.rs, src/memory/*        -> TransformStream, Arena, limiter
     src/rewriter/mod.rs (guarded!)                   -> poisoning
   The transform controller is a record of functions: executable instances are the policy
   controller (harness level 1) and the rewrite controller of Rewriter.v (level 2); theorems
   quantify over it. *)
From LolModel Require Export Base TreeBuilder.
From LolGen Require Export StateTable.
Open Scope nat_scope.

(* ------------------------------------------------------------------------------------------ *)
(* Controller interface (trait TransformController)                                            *)
Inductive start_res := SFlags (f : N) | SInfoRequest | SErr (e : rw_error).
Inductive flags_res := FOk (f : N) | FErr (e : rw_error).
Inductive out_res := OOk (pieces : list bytes) | OErr (e : rw_error).

Record controller (C : Type) := mkController {
  c_initial_flags : C -> N;
  (* ext = bytes charged to the shared limiter outside the controller (arena) *)
  c_start_tag : C -> N -> bytes -> N -> ns -> C * start_res;
  c_aux_info : C -> N -> list attr_view -> bool -> C * flags_res;
  c_end_tag : C -> bytes -> N -> C * N;
  c_token : C -> token -> C * out_res;
  (* handle_end: DocumentEnd::append writes to the sink at once, so pieces precede a possible error *)
  c_end : C -> C * list bytes * option rw_error;
  c_should_emit : C -> bool;
  c_bail_out : C -> rw_error -> C * list bytes;
  c_mem_usage : C -> N;
}.
Arguments c_initial_flags {C}. Arguments c_start_tag {C}. Arguments c_aux_info {C}.
Arguments c_end_tag {C}. Arguments c_token {C}. Arguments c_end {C}. Arguments c_should_emit {C}.
Arguments c_bail_out {C}. Arguments c_mem_usage {C}.

Inductive directive := Lex | Scan.
Definition next_dir (flags : N) : directive := if (flags =? 0)%N then Scan else Lex.

Section WithController.
Context {C : Type} (ctl : controller C).

(* ------------------------------------------------------------------------------------------ *)
(* Dispatcher                                                                                  *)
Record disp := mkD {
  d_ctl : C;
  d_rcs : nat;                 (* remaining_content_start *)
  d_flags : N;                 (* capture_flags *)
  d_emission : bool;           (* emission_enabled *)
  d_hint : bool;               (* got_flags_from_hint *)
  d_pending_req : bool;        (* pending_element_aux_info_req.is_some() *)
  d_td_pending : bool;         (* text_decoder.pending_text_streaming_decoder.is_some() *)
  d_td_start : nat;            (* pending_source_location_bytes_start *)
  d_last_tt : text_type;
  d_ext_usage : N;             (* bytes charged to the limiter by the arena *)
  d_sink : list sink_call      (* reversed *)
}.
Definition d_with_ctl d c := mkD c d.(d_rcs) d.(d_flags) d.(d_emission) d.(d_hint) d.(d_pending_req) d.(d_td_pending) d.(d_td_start) d.(d_last_tt) d.(d_ext_usage) d.(d_sink).
Definition d_with_rcs d x := mkD d.(d_ctl) x d.(d_flags) d.(d_emission) d.(d_hint) d.(d_pending_req) d.(d_td_pending) d.(d_td_start) d.(d_last_tt) d.(d_ext_usage) d.(d_sink).
Definition d_with_flags d x := mkD d.(d_ctl) d.(d_rcs) x d.(d_emission) d.(d_hint) d.(d_pending_req) d.(d_td_pending) d.(d_td_start) d.(d_last_tt) d.(d_ext_usage) d.(d_sink).
Definition d_with_emission d x := mkD d.(d_ctl) d.(d_rcs) d.(d_flags) x d.(d_hint) d.(d_pending_req) d.(d_td_pending) d.(d_td_start) d.(d_last_tt) d.(d_ext_usage) d.(d_sink).
Definition d_with_hint d x := mkD d.(d_ctl) d.(d_rcs) d.(d_flags) d.(d_emission) x d.(d_pending_req) d.(d_td_pending) d.(d_td_start) d.(d_last_tt) d.(d_ext_usage) d.(d_sink).
Definition d_with_req d x := mkD d.(d_ctl) d.(d_rcs) d.(d_flags) d.(d_emission) d.(d_hint) x d.(d_td_pending) d.(d_td_start) d.(d_last_tt) d.(d_ext_usage) d.(d_sink).
Definition d_with_td d p s := mkD d.(d_ctl) d.(d_rcs) d.(d_flags) d.(d_emission) d.(d_hint) d.(d_pending_req) p s d.(d_last_tt) d.(d_ext_usage) d.(d_sink).
Definition d_with_tt d x := mkD d.(d_ctl) d.(d_rcs) d.(d_flags) d.(d_emission) d.(d_hint) d.(d_pending_req) d.(d_td_pending) d.(d_td_start) x d.(d_ext_usage) d.(d_sink).
Definition d_with_ext d x := mkD d.(d_ctl) d.(d_rcs) d.(d_flags) d.(d_emission) d.(d_hint) d.(d_pending_req) d.(d_td_pending) d.(d_td_start) d.(d_last_tt) x d.(d_sink).
Definition d_with_sink d x := mkD d.(d_ctl) d.(d_rcs) d.(d_flags) d.(d_emission) d.(d_hint) d.(d_pending_req) d.(d_td_pending) d.(d_td_start) d.(d_last_tt) d.(d_ext_usage) x.

(* one call of OutputSink::handle_chunk *)
Definition sink_push (d : disp) (b : bytes) : disp := d_with_sink d (SkChunk b :: d.(d_sink)).
(* data chunks are only forwarded when non-empty *)
Definition sink_push_nonempty (d : disp) (b : bytes) : disp :=
  match b with [] => d | _ => sink_push d b end.
Definition sink_pieces (d : disp) (ps : list bytes) : disp := fold_left sink_push_nonempty ps d.

Inductive dres (A : Type) := DOk (a : A) | DErr (e : rw_error) (d : disp) | DPanic (code : nat) (d : disp).
Arguments DOk {A}. Arguments DErr {A}. Arguments DPanic {A}.

Section Chunk.
Variable input : bytes.     (* the chunk given to Parser::parse *)
Variable base : nat.        (* previously_consumed_byte_count *)
Definition getb (i : nat) : option N := nth_error input i.
Definition part (r : range) : bytes := slice input r.
Definition abs_range (r : range) : range := mkR (base + r.(rs)) (base + r.(re)).

(* Bytes::slice panics when start > end or end > len *)
Definition emit_chunk_before_lexeme (d : disp) (raw : range) : dres disp :=
  if (d.(d_rcs) <=? raw.(rs)) && (raw.(rs) <=? length input) then
    let chunk := sub input d.(d_rcs) raw.(rs) in
    let d1 := if d.(d_emission) then sink_push_nonempty d chunk else d in
    DOk (d_with_rcs d1 raw.(rs))
  else DPanic 10 d.
Definition consume_lexeme (d : disp) (raw : range) : disp := d_with_rcs d raw.(re).

Definition token_produced (d : disp) (t : token) : dres disp :=
  let (c', r) := ctl.(c_token) d.(d_ctl) t in
  let d1 := d_with_ctl d c' in
  match r with
  | OErr e => DErr e d1
  | OOk pieces => DOk (if d1.(d_emission) then sink_pieces d1 pieces else d1)
  end.

(* TextDecoder::flush_pending: one empty, last chunk iff a decoder is pending *)
Definition flush_pending_text (d : disp) : dres disp :=
  if d.(d_td_pending) then
    match token_produced d (TText d.(d_last_tt) [] true (mkR d.(d_td_start) d.(d_td_start))) with
    | DOk d1 => DOk (d_with_td d1 false d1.(d_td_start))
    | x => x
    end
  else DOk d.

(* TextDecoder::feed_text(lexeme, last = false), ASCII / valid-UTF-8 fast path and the slow path
   agree up to fragmentation; the model emits one chunk per lexeme (comparison merges chunks). *)
Definition feed_text (d : disp) (ty : text_type) (raw : range) : dres disp :=
  let a := abs_range raw in
  match token_produced d (TText ty (part raw) false a) with
  | DOk d1 => DOk (d_with_td d1 true a.(re))
  | x => x
  end.

Definition attr_views (attrs : list attr_outline) : list attr_view :=
  map (fun a => mkAV (part a.(a_name)) (part a.(a_value)) (part a.(a_raw))
                     (if base + a.(a_value).(rs) =? 0 then None
                      else Some (mkR (base + a.(a_name).(rs)) (base + a.(a_name).(rs) + length (part a.(a_name))),
                                 mkR (base + a.(a_value).(rs)) (base + a.(a_value).(rs) + length (part a.(a_value)))))) attrs.

(* handle_start_tag_hint / handle_end_tag_hint *)
Definition apply_hint_flags (d : disp) (f : N) : disp * directive :=
  let dir := next_dir f in
  (d_with_hint (d_with_flags d f) (match dir with Lex => true | Scan => false end), dir).
Definition should_stop_removing (d : disp) : bool := negb d.(d_emission) && ctl.(c_should_emit) d.(d_ctl).

Definition hint_start (d : disp) (name : bytes) (h : N) (n : ns) : dres (disp * directive) :=
  let (c', r) := ctl.(c_start_tag) d.(d_ctl) d.(d_ext_usage) name h n in
  let d1 := d_with_ctl d c' in
  match r with
  | SFlags f => DOk (apply_hint_flags d1 f)
  | SInfoRequest => DOk (d_with_req (d_with_hint d1 false) true, Lex)
  | SErr e => DErr e d1
  end.
Definition hint_end (d : disp) (name : bytes) (h : N) : dres (disp * directive) :=
  match flush_pending_text d with
  | DOk d0 =>
      let (c', f) := ctl.(c_end_tag) d0.(d_ctl) name h in
      let d1 := d_with_ctl d0 c' in
      let f' := if should_stop_removing d1 then set_flag f FLAG_NEXT_END_TAG else f in
      DOk (apply_hint_flags d1 f')
  | DErr e x => DErr e x
  | DPanic k x => DPanic k x
  end.

Definition adjust_capture_flags (d : disp) (t : tag_outline) : dres disp :=
  if d.(d_pending_req) then
    let d0 := d_with_req d false in
    match t with
    | StartTagO _ _ _ attrs sc =>
        let (c', r) := ctl.(c_aux_info) d0.(d_ctl) d0.(d_ext_usage) (attr_views attrs) sc in
        let d1 := d_with_ctl d0 c' in
        match r with FOk f => DOk (d_with_flags d1 f) | FErr e => DErr e d1 end
    | EndTagO _ _ => DPanic 11 d0    (* ActionError::internal("Tag should be a start tag at this point") *)
    end
  else
    match t with
    | StartTagO n h x attrs sc =>
        let (c', r) := ctl.(c_start_tag) d.(d_ctl) d.(d_ext_usage) (part n) h x in
        let d1 := d_with_ctl d c' in
        match r with
        | SFlags f => DOk (d_with_flags d1 f)
        | SInfoRequest =>
            let (c'', r2) := ctl.(c_aux_info) d1.(d_ctl) d1.(d_ext_usage) (attr_views attrs) sc in
            let d2 := d_with_ctl d1 c'' in
            match r2 with FOk f => DOk (d_with_flags d2 f) | FErr e => DErr e d2 end
        | SErr e => DErr e d1
        end
    | EndTagO n h =>
        let (c', f) := ctl.(c_end_tag) d.(d_ctl) (part n) h in
        DOk (d_with_flags (d_with_ctl d c') f)
    end.

Definition produce_token (d : disp) (raw : range) (t : token) : dres disp :=
  match emit_chunk_before_lexeme d raw with
  | DOk d1 => match token_produced d1 t with DOk d2 => DOk (consume_lexeme d2 raw) | x => x end
  | x => x
  end.

Definition tag_to_token (d : disp) (raw : range) (t : tag_outline) : disp * option token :=
  match t with
  | StartTagO n h x attrs sc =>
      if has_flag d.(d_flags) FLAG_NEXT_START_TAG then
        (d_with_flags d (clear_flag d.(d_flags) FLAG_NEXT_START_TAG),
         Some (TStart (part n) h x (attr_views attrs) sc (part raw) (abs_range raw)))
      else (d, None)
  | EndTagO n h =>
      if has_flag d.(d_flags) FLAG_NEXT_END_TAG then
        (d_with_flags d (clear_flag d.(d_flags) FLAG_NEXT_END_TAG),
         Some (TEnd (part n) h (part raw) (abs_range raw)))
      else (d, None)
  end.

Definition handle_tag (d : disp) (raw : range) (t : tag_outline) : dres (disp * directive) :=
  match flush_pending_text d with
  | DOk d0 =>
      let r1 := if d0.(d_hint) then DOk (d_with_hint d0 false) else adjust_capture_flags d0 t in
      match r1 with
      | DOk d1 =>
          let d2 := match t with
                    | EndTagO _ _ => if should_stop_removing d1 then d_with_rcs (d_with_emission d1 true) raw.(rs) else d1
                    | _ => d1 end in
          let (d3, tok) := tag_to_token d2 raw t in
          let r4 := match tok with Some tk => produce_token d3 raw tk | None => DOk d3 end in
          match r4 with
          | DOk d4 =>
              let d5 := d_with_emission d4 (ctl.(c_should_emit) d4.(d_ctl)) in
              DOk (d5, next_dir d5.(d_flags))
          | DErr e x => DErr e x
          | DPanic k x => DPanic k x
          end
      | DErr e x => DErr e x
      | DPanic k x => DPanic k x
      end
  | DErr e x => DErr e x
  | DPanic k x => DPanic k x
  end.

Definition handle_non_tag (d : disp) (raw : range) (t : option nontag_outline) : dres disp :=
  let r0 := match t with Some (TextO _) => DOk d | _ => flush_pending_text d end in
  match r0 with
  | DOk d0 =>
      match t with
      | Some (TextO ty) =>
          if has_flag d0.(d_flags) FLAG_TEXT then
            match emit_chunk_before_lexeme d0 raw with
            | DOk d1 => match feed_text (d_with_tt d1 ty) ty raw with DOk d2 => DOk (consume_lexeme d2 raw) | x => x end
            | x => x
            end
          else DOk d0
      | Some (CommentO c) =>
          if has_flag d0.(d_flags) FLAG_COMMENTS then produce_token d0 raw (TComment (part c) (part raw) (abs_range raw))
          else DOk d0
      | Some (DoctypeO n p s f) =>
          if has_flag d0.(d_flags) FLAG_DOCTYPES then
            produce_token d0 raw (TDoctype (option_map part n) (option_map part p) (option_map part s) f (part raw) (abs_range raw))
          else DOk d0
      | _ => DOk d0
      end
  | x => x
  end.

(* ------------------------------------------------------------------------------------------ *)
(* The two state machines                                                                      *)
Inductive fdir := FdApply (f : feedback) | FdSkip | FdNone.
Record mode := mkMode {
  m_st : state; m_entered : bool; m_ltt : text_type; m_cdata : bool; m_quote : N; m_lsth : N }.
Record lcursor := mkLC { lc_next : nat; lc_last : bool; lc_lexeme_start : nat }.
Record builder := mkB {
  b_tps : nat; b_tag : option tag_outline; b_nontag : option nontag_outline;
  b_attr : option attr_outline; b_fd : fdir }.
Record lexer := mkL { l_cur : lcursor; l_mode : mode; l_build : builder }.
Record stag := mkST {
  tag_start : option nat; ch_seq_start : option nat; tag_name_start : nat;
  is_in_end_tag : bool; tag_name_hash : N; pending_ttc : option text_type }.
Record scanner := mkSc { s_next : nat; s_last : bool; s_mode : mode; s_tag : stag }.
Inductive mach := ML (l : lexer) | MS (s : scanner).
Record ctx := mkCtx { c_sim : sim; c_disp : disp }.
Record bookmark := mkBm { bm_cdata : bool; bm_tt : text_type; bm_lsth : N; bm_pos : nat; bm_fd : fdir }.

Definition mode_of (m : mach) : mode := match m with ML l => l.(l_mode) | MS s => s.(s_mode) end.
Definition next_pos (m : mach) : nat := match m with ML l => l.(l_cur).(lc_next) | MS s => s.(s_next) end.
Definition is_last (m : mach) : bool := match m with ML l => l.(l_cur).(lc_last) | MS s => s.(s_last) end.
Definition pos (m : mach) : nat := next_pos m - 1.
Definition with_mode (m : mach) (x : mode) : mach :=
  match m with ML l => ML (mkL l.(l_cur) x l.(l_build)) | MS s => MS (mkSc s.(s_next) s.(s_last) x s.(s_tag)) end.
Definition set_pos (m : mach) (p : nat) : mach :=
  match m with
  | ML l => ML (mkL (mkLC p l.(l_cur).(lc_last) l.(l_cur).(lc_lexeme_start)) l.(l_mode) l.(l_build))
  | MS s => MS (mkSc p s.(s_last) s.(s_mode) s.(s_tag))
  end.
Definition set_last (m : mach) (b : bool) : mach :=
  match m with
  | ML l => ML (mkL (mkLC l.(l_cur).(lc_next) b l.(l_cur).(lc_lexeme_start)) l.(l_mode) l.(l_build))
  | MS s => MS (mkSc s.(s_next) b s.(s_mode) s.(s_tag))
  end.
Definition md_state (x : mode) (s : state) (e : bool) := mkMode s e x.(m_ltt) x.(m_cdata) x.(m_quote) x.(m_lsth).
Definition md_ltt (x : mode) (t : text_type) := mkMode x.(m_st) x.(m_entered) t x.(m_cdata) x.(m_quote) x.(m_lsth).
Definition md_cdata (x : mode) (b : bool) := mkMode x.(m_st) x.(m_entered) x.(m_ltt) b x.(m_quote) x.(m_lsth).
Definition md_quote (x : mode) (q : N) := mkMode x.(m_st) x.(m_entered) x.(m_ltt) x.(m_cdata) q x.(m_lsth).
Definition md_lsth (x : mode) (h : N) := mkMode x.(m_st) x.(m_entered) x.(m_ltt) x.(m_cdata) x.(m_quote) h.
Definition set_state (m : mach) (s : state) (e : bool) : mach := with_mode m (md_state (mode_of m) s e).
Definition set_ltt (m : mach) (t : text_type) : mach := with_mode m (md_ltt (mode_of m) t).
Definition set_quote (m : mach) (q : N) : mach := with_mode m (md_quote (mode_of m) q).
Definition text_state (t : text_type) : state :=
  match t with Data => data_state | PlainText => plaintext_state | RCData => rcdata_state
  | RawText => rawtext_state | ScriptData => script_data_state | CDataSection => cdata_section_state end.

Inductive act_res :=
| AOk (m : mach) (c : ctx)
| ASwitch (d : directive) (b : bookmark) (m : mach) (c : ctx)
| AErr (e : rw_error) (c : ctx)
| APanic (code : nat) (c : ctx).

(* ---------- lexer actions (src/parser/lexer/actions.rs) ---------- *)
Definition lpos (l : lexer) : nat := l.(l_cur).(lc_next) - 1.
Definition l_with_build (l : lexer) (b : builder) : lexer := mkL l.(l_cur) l.(l_mode) b.
Definition l_with_ls (l : lexer) (x : nat) : lexer := mkL (mkLC l.(l_cur).(lc_next) l.(l_cur).(lc_last) x) l.(l_mode) l.(l_build).
Definition b_set_tps b x := mkB x b.(b_tag) b.(b_nontag) b.(b_attr) b.(b_fd).
Definition b_set_tag b x := mkB b.(b_tps) x b.(b_nontag) b.(b_attr) b.(b_fd).
Definition b_set_nontag b x := mkB b.(b_tps) b.(b_tag) x b.(b_attr) b.(b_fd).
Definition b_set_attr b x := mkB b.(b_tps) b.(b_tag) b.(b_nontag) x b.(b_fd).
Definition b_set_fd b x := mkB b.(b_tps) b.(b_tag) b.(b_nontag) b.(b_attr) x.
Definition part_range (l : lexer) : range := mkR l.(l_build).(b_tps) (l.(l_cur).(lc_next) - 1).

Definition of_dres_ctx (s : sim) (m : mach) (r : dres disp) : act_res :=
  match r with DOk d => AOk m (mkCtx s d) | DErr e d => AErr e (mkCtx s d) | DPanic k d => APanic k (mkCtx s d) end.

(* emit_lexeme: lexeme_start moves first, then the sink is called *)
Definition l_emit_nontag (l : lexer) (c : ctx) (raw_end : nat) (t : option nontag_outline) : act_res :=
  let raw := mkR l.(l_cur).(lc_lexeme_start) raw_end in
  of_dres_ctx c.(c_sim) (ML (l_with_ls l raw_end)) (handle_non_tag c.(c_disp) raw t).
Definition l_emit_text (l : lexer) (c : ctx) : act_res :=
  if l.(l_cur).(lc_lexeme_start) <? lpos l then l_emit_nontag l c (lpos l) (Some (TextO l.(l_mode).(m_ltt)))
  else AOk (ML l) c.
Definition l_emit_eof (l : lexer) (c : ctx) : act_res := l_emit_nontag l c (lpos l) (Some EofO).
Definition then_lexer (r : act_res) (k : lexer -> ctx -> act_res) : act_res :=
  match r with AOk (ML l) c => k l c | x => x end.
Definition upd_hash (t : tag_outline) (ch : N) : tag_outline :=
  match t with
  | StartTagO n h x a s => StartTagO n (hash_update h ch) x a s
  | EndTagO n h => EndTagO n (hash_update h ch)
  end.

(* handle_tree_builder_feedback: returns (sim, last_text_type, cdata_allowed) *)
Fixpoint apply_feedback (fuel : nat) (fb : feedback) (s : sim) (t : tag_outline) (ltt : text_type) (cd : bool)
  : sim * text_type * bool :=
  match fb with
  | FbSwitch ty => (s, ty, cd)
  | FbCdata b => (s, ltt, b)
  | FbNone => (s, ltt, cd)
  | FbRequest k =>
      match fuel with
      | O => (s, ltt, cd)
      | S f => let (s', fb') := run_request part k s t in apply_feedback f fb' s' t ltt cd
      end
  end.

Definition l_emit_tag (l : lexer) (c : ctx) : act_res :=
  match l.(l_build).(b_tag) with
  | None => APanic 1 c
  | Some t =>
    let l0 := l_with_build l (b_set_fd (b_set_tag l.(l_build) None) FdNone) in
    let fbr : option (sim * option feedback) :=
      match l.(l_build).(b_fd) with
      | FdApply f => Some (c.(c_sim), Some f)
      | FdSkip => Some (c.(c_sim), None)
      | FdNone =>
          match t with
          | StartTagO _ h _ _ _ => option_map (fun sf : sim * feedback => (fst sf, Some (snd sf))) (fb_start c.(c_sim) h)
          | EndTagO _ h => let (s', f) := fb_end c.(c_sim) h in Some (s', Some f)
          end
      end in
    match fbr with
    | None => AErr (ParsingAmbiguity (match t with StartTagO _ h _ _ _ => h | EndTagO _ h => h end)) c
    | Some (s1, fbo) =>
      let raw := mkR l.(l_cur).(lc_lexeme_start) (lpos l + 1) in
      let '(s2, ltt, cd) :=
        match fbo with
        | Some f => apply_feedback 2 f s1 t Data l.(l_mode).(m_cdata)
        | None => (s1, Data, l.(l_mode).(m_cdata)) end in
      let '(t', lh) :=
        match t with
        | StartTagO n h _ a sc => (StartTagO n h s2.(cur_ns) a sc, h)
        | EndTagO _ _ => (t, l.(l_mode).(m_lsth)) end in
      let md := md_lsth (md_cdata (md_ltt l.(l_mode) ltt) cd) lh in
      let l1 := mkL (mkLC l.(l_cur).(lc_next) l.(l_cur).(lc_last) (lpos l + 1)) md l0.(l_build) in
      match handle_tag c.(c_disp) raw t' with
      | DErr e d => AErr e (mkCtx s2 d)
      | DPanic k d => APanic k (mkCtx s2 d)
      | DOk (d', dir) =>
          let c' := mkCtx s2 d' in
          match dir with
          | Lex => AOk (ML l1) c'
          | Scan => ASwitch Scan (mkBm cd ltt lh (lpos l + 1) FdNone) (ML l1) c'
          end
      end
    end
  end.

Definition lexer_action (a : action) (l : lexer) (c : ctx) : act_res :=
  let b := l.(l_build) in
  let ok b' := AOk (ML (l_with_build l b')) c in
  match a with
  | A_emit_text => l_emit_text l c
  | A_emit_text_and_eof => then_lexer (l_emit_text l c) l_emit_eof
  | A_emit_current_token =>
      l_emit_nontag (l_with_build l (b_set_nontag b None)) c (lpos l + 1) b.(b_nontag)
  | A_emit_current_token_and_eof =>
      then_lexer (l_emit_nontag (l_with_build l (b_set_nontag b None)) c (lpos l) b.(b_nontag)) l_emit_eof
  | A_emit_raw_without_token => l_emit_nontag l c (lpos l + 1) None
  | A_emit_raw_without_token_and_eof => then_lexer (l_emit_nontag l c (lpos l) None) l_emit_eof
  | A_emit_tag => l_emit_tag l c
  | A_create_start_tag => ok (b_set_tag b (Some (StartTagO (mkR 0 0) 0%N Html [] false)))
  | A_create_end_tag => ok (b_set_tag b (Some (EndTagO (mkR 0 0) 0%N)))
  | A_create_doctype => ok (b_set_nontag b (Some (DoctypeO None None None false)))
  | A_create_comment => ok (b_set_nontag b (Some (CommentO (mkR 0 0))))
  | A_start_token_part => ok (b_set_tps b (lpos l))
  | A_mark_comment_text_end =>
      ok (match b.(b_nontag) with Some (CommentO _) => b_set_nontag b (Some (CommentO (part_range l))) | _ => b end)
  | A_shift_comment_text_end_by n =>
      ok (match b.(b_nontag) with Some (CommentO r) => b_set_nontag b (Some (CommentO (mkR r.(rs) (r.(re) + n)))) | _ => b end)
  | A_set_force_quirks =>
      ok (match b.(b_nontag) with Some (DoctypeO n p s _) => b_set_nontag b (Some (DoctypeO n p s true)) | _ => b end)
  | A_finish_doctype_name =>
      ok (match b.(b_nontag) with Some (DoctypeO _ p s f) => b_set_nontag b (Some (DoctypeO (Some (part_range l)) p s f)) | _ => b end)
  | A_finish_doctype_public_id =>
      ok (match b.(b_nontag) with Some (DoctypeO n _ s f) => b_set_nontag b (Some (DoctypeO n (Some (part_range l)) s f)) | _ => b end)
  | A_finish_doctype_system_id =>
      ok (match b.(b_nontag) with Some (DoctypeO n p _ f) => b_set_nontag b (Some (DoctypeO n p (Some (part_range l)) f)) | _ => b end)
  | A_finish_tag_name =>
      match b.(b_tag) with
      | Some (StartTagO _ h x a s) => ok (b_set_tag b (Some (StartTagO (part_range l) h x a s)))
      | Some (EndTagO _ h) => ok (b_set_tag b (Some (EndTagO (part_range l) h)))
      | None => APanic 2 c
      end
  | A_update_tag_name_hash =>
      ok (match getb (lpos l), b.(b_tag) with
          | Some ch, Some t => b_set_tag b (Some (upd_hash t ch))
          | _, _ => b end)
  | A_mark_as_self_closing =>
      ok (match b.(b_tag) with Some (StartTagO n h x a _) => b_set_tag b (Some (StartTagO n h x a true)) | _ => b end)
  | A_start_attr =>
      ok (match b.(b_tag) with
          | Some (StartTagO _ _ _ _ _) => b_set_tps (b_set_attr b (Some (mkA (mkR 0 0) (mkR 0 0) (mkR 0 0)))) (lpos l)
          | _ => b end)
  | A_finish_attr_name =>
      (* the value of a (so far) valueless attribute is the empty range right after its name *)
      ok (match b.(b_attr) with
          | Some (mkA _ _ _) => let n := part_range l in b_set_attr b (Some (mkA n (mkR n.(re) n.(re)) n))
          | None => b end)
  | A_finish_attr_value =>
      ok (match b.(b_attr) with
          | Some (mkA n _ r) =>
              let v := part_range l in
              let rend := match getb (l.(l_cur).(lc_next) - 1) with
                          | Some ch => if (ch =? l.(l_mode).(m_quote))%N then v.(re) + 1 else v.(re)
                          | None => v.(re) end in
              b_set_attr b (Some (mkA n v (mkR r.(rs) rend)))
          | None => b end)
  | A_finish_attr =>
      ok (match b.(b_attr), b.(b_tag) with
          | Some a, Some (StartTagO n h x attrs s) => b_set_attr (b_set_tag b (Some (StartTagO n h x (attrs ++ [a]) s))) None
          | Some a, _ => b_set_attr b None
          | None, _ => b end)
  | A_set_closing_quote_to_double => AOk (set_quote (ML l) 34%N) c
  | A_set_closing_quote_to_single => AOk (set_quote (ML l) 39%N) c
  | A_mark_tag_start | A_unmark_tag_start => AOk (ML l) c
  | A_enter_cdata => AOk (set_ltt (ML l) CDataSection) c
  | A_leave_cdata => AOk (set_ltt (ML l) Data) c
  end.

(* ---------- tag scanner actions (src/parser/tag_scanner/actions.rs) ---------- *)
Definition spos (s : scanner) : nat := s.(s_next) - 1.
Definition s_with_tag (s : scanner) (t : stag) : scanner := mkSc s.(s_next) s.(s_last) s.(s_mode) t.
Definition st_set_tag_start t x := mkST x t.(ch_seq_start) t.(tag_name_start) t.(is_in_end_tag) t.(tag_name_hash) t.(pending_ttc).
Definition st_set_seq t x := mkST t.(tag_start) x t.(tag_name_start) t.(is_in_end_tag) t.(tag_name_hash) t.(pending_ttc).
Definition st_set_name_start t x := mkST t.(tag_start) t.(ch_seq_start) x t.(is_in_end_tag) t.(tag_name_hash) t.(pending_ttc).
Definition st_set_end t x := mkST t.(tag_start) t.(ch_seq_start) t.(tag_name_start) x t.(tag_name_hash) t.(pending_ttc).
Definition st_set_hash t x := mkST t.(tag_start) t.(ch_seq_start) t.(tag_name_start) t.(is_in_end_tag) x t.(pending_ttc).
Definition st_set_ttc t x := mkST t.(tag_start) t.(ch_seq_start) t.(tag_name_start) t.(is_in_end_tag) t.(tag_name_hash) x.

Definition s_finish_tag_name (s : scanner) (c : ctx) : act_res :=
  let t := s.(s_tag) in
  match t.(tag_start) with
  | None => APanic 3 c
  | Some tstart =>
    let t0 := st_set_tag_start t None in
    let fbr := if t.(is_in_end_tag) then Some (fb_end c.(c_sim) t.(tag_name_hash)) else fb_start c.(c_sim) t.(tag_name_hash) in
    match fbr with
    | None => AErr (ParsingAmbiguity t.(tag_name_hash)) c
    | Some (sim', fb) =>
      let '(t1, md1, unhandled) :=
        match fb with
        | FbSwitch ty => (st_set_ttc t0 (Some ty), s.(s_mode), None)
        | FbCdata b => (t0, md_cdata s.(s_mode) b, None)
        | FbRequest k => (t0, s.(s_mode), Some fb)
        | FbNone => (t0, s.(s_mode), None) end in
      let was_end := t.(is_in_end_tag) in
      let t2 := st_set_end t1 false in
      let s1 := mkSc s.(s_next) s.(s_last) md1 t2 in
      let c1 := mkCtx sim' c.(c_disp) in
      match unhandled with
      | Some u => ASwitch Lex (mkBm md1.(m_cdata) md1.(m_ltt) md1.(m_lsth) tstart (FdApply u)) (MS s1) c1
      | None =>
          let name := sub input t2.(tag_name_start) (spos s) in
          let '(s2, hr) :=
            if was_end then (s1, hint_end c1.(c_disp) name t2.(tag_name_hash))
            else (mkSc s1.(s_next) s1.(s_last) (md_lsth md1 t2.(tag_name_hash)) t2,
                  hint_start c1.(c_disp) name t2.(tag_name_hash) sim'.(cur_ns)) in
          match hr with
          | DErr e d => AErr e (mkCtx sim' d)
          | DPanic k d => APanic k (mkCtx sim' d)
          | DOk (d', dir) =>
              let c2 := mkCtx sim' d' in
              match dir with
              | Scan => AOk (MS s2) c2
              | Lex =>
                  let fd := match s2.(s_tag).(pending_ttc) with Some ty => FdApply (FbSwitch ty) | None => FdSkip end in
                  let s3 := s_with_tag s2 (st_set_ttc s2.(s_tag) None) in
                  ASwitch Lex (mkBm s3.(s_mode).(m_cdata) s3.(s_mode).(m_ltt) s3.(s_mode).(m_lsth) tstart fd) (MS s3) c2
              end
          end
      end
    end
  end.

Definition scanner_action (a : action) (s : scanner) (c : ctx) : act_res :=
  let t := s.(s_tag) in
  let ok t' := AOk (MS (s_with_tag s t')) c in
  match a with
  | A_create_start_tag => ok (st_set_hash (st_set_name_start t (spos s)) 0%N)
  | A_create_end_tag => ok (st_set_end (st_set_hash (st_set_name_start t (spos s)) 0%N) true)
  | A_mark_tag_start => ok (st_set_tag_start t (Some (spos s)))
  | A_unmark_tag_start => ok (st_set_tag_start t None)
  | A_update_tag_name_hash =>
      ok (match getb (spos s) with Some ch => st_set_hash t (hash_update t.(tag_name_hash) ch) | None => t end)
  | A_finish_tag_name => s_finish_tag_name s c
  | A_emit_tag =>
      let ty := match t.(pending_ttc) with Some x => x | None => Data end in
      AOk (set_ltt (MS (s_with_tag s (st_set_ttc t None))) ty) c
  | A_set_closing_quote_to_double => AOk (set_quote (MS s) 34%N) c
  | A_set_closing_quote_to_single => AOk (set_quote (MS s) 39%N) c
  | A_enter_cdata => AOk (set_ltt (MS s) CDataSection) c
  | A_leave_cdata => AOk (set_ltt (MS s) Data) c
  | _ => AOk (MS s) c
  end.

Definition do_action (a : action) (m : mach) (c : ctx) : act_res :=
  match m with ML l => lexer_action a l c | MS s => scanner_action a s c end.
Definition eval_cond (cd : cond) (m : mach) : bool :=
  match cd, m with
  | C_cdata_allowed, _ => (mode_of m).(m_cdata)
  | C_is_appropriate_end_tag, ML l =>
      match l.(l_build).(b_tag) with Some (EndTagO _ h) => (l.(l_mode).(m_lsth) =? h)%N | _ => false end
  | C_is_appropriate_end_tag, MS s => (s.(s_tag).(tag_name_hash) =? s.(s_mode).(m_lsth))%N
  end.
Definition enter_seq (m : mach) : mach :=
  match m with MS s => MS (s_with_tag s (st_set_seq s.(s_tag) (Some (spos s)))) | x => x end.
Definition leave_seq (m : mach) : mach :=
  match m with MS s => MS (s_with_tag s (st_set_seq s.(s_tag) None)) | x => x end.

(* ---------- generic interpreter of the DSL (syntax_dsl/*.rs) ---------- *)
Fixpoint do_actions (acts : list action) (m : mach) (c : ctx) : act_res :=
  match acts with
  | [] => AOk m c
  | a :: r => match do_action a m c with AOk m' c' => do_actions r m' c' | x => x end
  end.

Inductive arm_out :=
| Continue (m : mach) (c : ctx) | Return (m : mach) (c : ctx)
| Switch (d : directive) (b : bookmark) (m : mach) (c : ctx)
| ArmErr (e : rw_error) (c : ctx) | ArmPanic (k : nat) (c : ctx).
Definition do_transition (tr : transition) (m : mach) (c : ctx) : arm_out :=
  match tr with
  | T_none => Continue m c
  | T_goto s _ => Return (set_state m s false) c
  | T_reconsume s => Return (set_state (set_pos m (next_pos m - 1)) s false) c
  | T_dyn_next_text_parsing_state => Return (set_state m (text_state (mode_of m).(m_ltt)) false) c
  end.
Fixpoint run_alist (al : alist) (m : mach) (c : ctx) : arm_out :=
  match al with
  | AL acts tr =>
      match do_actions acts m c with
      | AOk m' c' => do_transition tr m' c'
      | ASwitch d b m' c' => Switch d b m' c'
      | AErr e c' => ArmErr e c'
      | APanic k c' => ArmPanic k c'
      end
  | AL_if cd t e => if eval_cond cd m then run_alist t m c else run_alist e m c
  end.

Definition ch_eq (ic : bool) (ch exp : N) : bool := ((ch =? exp) || (ic && (ch =? N.lxor exp 32)))%N.
Inductive seq_out := SeqMatched (m : mach) | SeqBreak (m : mach) | SeqNo (m : mach).
Fixpoint seq_rest (bsq : list N) (ic : bool) (m : mach) (depth : nat) : seq_out :=
  match bsq with
  | [] => SeqMatched (leave_seq (set_pos m (next_pos m + (depth - 1))))
  | b :: r =>
      match getb (next_pos m + depth - 1) with
      | Some ch => if ch_eq ic ch b then seq_rest r ic m (S depth) else SeqNo (leave_seq m)
      | None => if is_last m then SeqNo (leave_seq m) else SeqBreak m
      end
  end.
Definition seq_match (bsq : list N) (ic : bool) (ch : option N) (m0 : mach) : seq_out :=
  let m := enter_seq m0 in
  match bsq with
  | [] => SeqNo (leave_seq m)
  | b :: r =>
      match ch with
      | Some c => if ch_eq ic c b then seq_rest r ic m 1 else SeqNo (leave_seq m)
      | None => if is_last m then SeqNo (leave_seq m) else SeqBreak m
      end
  end.
Definition pat_matches (p : pat) (ch : option N) (m : mach) : bool :=
  match p, ch with
  | P_byte b, Some c => (c =? b)%N
  | P_alpha, Some c => is_alpha c
  | P_whitespace, Some c => is_ws c
  | P_closing_quote, Some c => (c =? (mode_of m).(m_quote))%N
  | P_any, Some _ => true
  | P_memchr _, Some _ => true
  | P_eoc, None => negb (is_last m)
  | P_eof, None => true
  | _, _ => false
  end.
Inductive body_out :=
| BContinue (m : mach) (c : ctx) | BBreak (m : mach) (c : ctx)
| BSwitch (d : directive) (b : bookmark) (m : mach) (c : ctx)
| BErr (e : rw_error) (c : ctx) | BPanic (k : nat) (c : ctx).
Definition of_arm (o : arm_out) : body_out :=
  match o with
  | Continue m c | Return m c => BContinue m c
  | Switch d b m c => BSwitch d b m c
  | ArmErr e c => BErr e c | ArmPanic k c => BPanic k c
  end.
Fixpoint try_seq_arms (arms : list (pat * alist)) (ch : option N) (m : mach) (c : ctx) : mach * option body_out :=
  match arms with
  | [] => (m, None)
  | (P_seq bsq ic, al) :: r =>
      match seq_match bsq ic ch m with
      | SeqMatched m' => (m', Some (of_arm (run_alist al m' c)))
      | SeqBreak m' => (m', Some (BBreak m' c))
      | SeqNo m' => try_seq_arms r ch m' c
      end
  | _ :: r => try_seq_arms r ch m c
  end.
Fixpoint try_arms (arms : list (pat * alist)) (ch : option N) (m : mach) (c : ctx) : body_out :=
  match arms with
  | [] => BPanic 4 c
  | (P_seq _ _, _) :: r => try_arms r ch m c
  | (p, al) :: r =>
      if pat_matches p ch m then
        match p with
        | P_eoc =>
            match run_alist al m c with
            | Continue m' c' | Return m' c' => BBreak m' c'
            | Switch d b m' c' => BSwitch d b m' c'
            | ArmErr e c' => BErr e c' | ArmPanic k c' => BPanic k c'
            end
        | P_eof =>
            if is_last m then
              match run_alist al m c with
              | Continue m' c' => BBreak m' c'
              | Return m' c' => BContinue m' c'
              | Switch d b m' c' => BSwitch d b m' c'
              | ArmErr e c' => BErr e c' | ArmPanic k c' => BPanic k c'
              end
            else BBreak m c
        | _ => of_arm (run_alist al m c)
        end
      else try_arms r ch m c
  end.
Definition memchr_of (arms : list (pat * alist)) : option N :=
  match arms with (P_memchr b, _) :: _ => Some b | _ => None end.
Fixpoint find_from (b : N) (i : nat) (fuel : nat) : option nat :=
  match fuel with
  | O => None
  | S f => match getb i with None => None | Some c => if (c =? b)%N then Some i else find_from b (S i) f end
  end.
Definition body_iter (sd : state_def) (m : mach) (c : ctx) : body_out :=
  match memchr_of sd.(sd_arms) with
  | Some b =>
      match find_from b (next_pos m) (S (length input)) with
      | Some i => try_arms sd.(sd_arms) (Some b) (set_pos m (S i)) c
      | None => try_arms sd.(sd_arms) None (set_pos m (S (max (next_pos m) (length input)))) c
      end
  | None =>
      let ch := getb (next_pos m) in
      let m' := set_pos m (S (next_pos m)) in
      match try_seq_arms sd.(sd_arms) ch m' c with
      | (_, Some o) => o
      | (m'', None) => try_arms sd.(sd_arms) ch m'' c
      end
  end.

(* ---------- end of input (break_on_end_of_input, Align) ---------- *)
Definition align (x off : nat) : nat := if off <=? x then x - off else x.
Definition align_r (r : range) (off : nat) : range := mkR (align r.(rs) off) (align r.(re) off).
Definition align_attr (a : attr_outline) off := mkA (align_r a.(a_name) off) (align_r a.(a_value) off) (align_r a.(a_raw) off).
Definition align_tag (t : tag_outline) off :=
  match t with
  | StartTagO n h x a s => StartTagO (align_r n off) h x (map (fun y => align_attr y off) a) s
  | EndTagO n h => EndTagO (align_r n off) h end.
Definition align_nontag (t : nontag_outline) off :=
  match t with
  | CommentO r => CommentO (align_r r off)
  | DoctypeO n p s f => DoctypeO (option_map (fun r => align_r r off) n) (option_map (fun r => align_r r off) p)
                                 (option_map (fun r => align_r r off) s) f
  | x => x end.
Definition consumed_count (m : mach) : nat :=
  match m with
  | ML l => l.(l_cur).(lc_lexeme_start)
  | MS s => match s.(s_tag).(tag_start), s.(s_tag).(ch_seq_start) with
            | Some a, Some b => min a b | Some a, None => a | None, Some b => b | None, None => length input end
  end.
Definition adjust_for_next_input (m : mach) : mach :=
  match m with
  | ML l =>
      let off := l.(l_cur).(lc_lexeme_start) in
      let b := l.(l_build) in
      ML (mkL (mkLC l.(l_cur).(lc_next) l.(l_cur).(lc_last) 0) l.(l_mode)
              (mkB (align b.(b_tps) off) (option_map (fun t => align_tag t off) b.(b_tag))
                   (option_map (fun t => align_nontag t off) b.(b_nontag))
                   (option_map (fun a => align_attr a off) b.(b_attr)) b.(b_fd)))
  | MS s =>
      match s.(s_tag).(tag_start) with
      | Some ts => MS (s_with_tag s (st_set_tag_start (st_set_name_start s.(s_tag) (align s.(s_tag).(tag_name_start) ts)) (Some 0)))
      | None => m end
  end.

Inductive loop_res :=
| LEnd (m : mach) (c : ctx) (consumed : nat)
| LSwitch (d : directive) (b : bookmark) (m : mach) (c : ctx)
| LErr (e : rw_error) (c : ctx)
| LPanic (k : nat) (c : ctx)
| LFuel (c : ctx).
Fixpoint run_loop (fuel : nat) (m : mach) (c : ctx) : loop_res :=
  match fuel with
  | O => LFuel c
  | S f =>
      let sd := table (mode_of m).(m_st) in
      let r1 := if (mode_of m).(m_entered) then AOk m c else
                  match sd.(sd_enter) with
                  | [] => AOk (set_state m (mode_of m).(m_st) true) c
                  | acts => match do_actions acts (set_pos m (S (next_pos m))) c with
                            | AOk x c' => AOk (set_state (set_pos x (next_pos x - 1)) (mode_of x).(m_st) true) c'
                            | y => y end
                  end in
      match r1 with
      | APanic k c' => LPanic k c'
      | AErr e c' => LErr e c'
      | ASwitch d b m' c' => LSwitch d b m' c'
      | AOk m1 c1 =>
        match body_iter sd m1 c1 with
        | BContinue m2 c2 => run_loop f m2 c2
        | BBreak m2 c2 =>
            let consumed := consumed_count m2 in
            let m3 := if is_last m2 then m2 else adjust_for_next_input m2 in
            (* usize subtraction: panics (debug) if pos < consumed *)
            if consumed <=? pos m3 then LEnd (set_pos m3 (pos m3 - consumed)) c2 consumed
            else LPanic 5 c2
        | BSwitch d b m2 c2 => LSwitch d b m2 c2
        | BErr e c2 => LErr e c2
        | BPanic k c2 => LPanic k c2
        end
      end
  end.

(* ---------- Parser::parse ---------- *)
Record parser := mkP { p_lexer : lexer; p_scanner : scanner; p_dir : directive }.
Definition continue_from_bookmark (m : mach) (b : bookmark) : mach :=
  match m with
  | ML l => ML (mkL (mkLC b.(bm_pos) l.(l_cur).(lc_last) b.(bm_pos))
                    (mkMode (text_state b.(bm_tt)) false b.(bm_tt) b.(bm_cdata) l.(l_mode).(m_quote) b.(bm_lsth))
                    (b_set_fd l.(l_build) b.(bm_fd)))
  | MS s => MS (mkSc b.(bm_pos) s.(s_last)
                     (mkMode (text_state b.(bm_tt)) false b.(bm_tt) b.(bm_cdata) s.(s_mode).(m_quote) b.(bm_lsth))
                     s.(s_tag))
  end.
Definition loop_fuel : nat := 4 * length input + 16.
Inductive parse_res :=
| POk (p : parser) (c : ctx) (consumed : nat)
| PErr (e : rw_error) (c : ctx)
| PPanic (k : nat) (c : ctx)
| PFuel (c : ctx).
Fixpoint parse_loop (fuel : nat) (p : parser) (c : ctx) (last : bool) (start : option bookmark) : parse_res :=
  match fuel with
  | O => PFuel c
  | S f =>
      let m0 := match p.(p_dir) with Lex => ML p.(p_lexer) | Scan => MS p.(p_scanner) end in
      let m1 := set_last (match start with Some b => continue_from_bookmark m0 b | None => m0 end) last in
      match run_loop loop_fuel m1 c with
      | LEnd m c' n =>
          POk (match m with ML l => mkP l p.(p_scanner) p.(p_dir) | MS s => mkP p.(p_lexer) s p.(p_dir) end) c' n
      | LSwitch d b m c' =>
          let p' := match m with ML l => mkP l p.(p_scanner) d | MS s => mkP p.(p_lexer) s d end in
          parse_loop f p' c' last (Some b)
      | LErr e c' => PErr e c'
      | LPanic k c' => PPanic k c'
      | LFuel c' => PFuel c'
      end
  end.
End Chunk.

Definition init_mode : mode := mkMode data_state false Data false 34%N 0%N.
Definition init_lexer : lexer := mkL (mkLC 0 false 0) init_mode (mkB 0 None None None FdNone).
Definition init_scanner : scanner := mkSc 0 false init_mode (mkST None None 0 false 0%N None).

(* ------------------------------------------------------------------------------------------ *)
(* Memory: SharedMemoryLimiter + Arena                                                          *)
Record arena := mkArena { ar_cap : nat; ar_data : bytes; ar_charged : N (* bytes this arena added to the limiter *) }.
(* limiter.increase_usage(n): usage grows even when the call fails *)
Definition limiter_ok (max : N) (total_after : N) : bool := (total_after <=? max)%N.

(* ------------------------------------------------------------------------------------------ *)
(* TransformStream                                                                             *)
Record stream := mkS {
  s_parser : parser; s_ctx : ctx; s_arena : arena; s_has_buf : bool; s_prev : nat;
  s_max_mem : N; s_bail_mem : bool; s_bail_handler : bool }.
Inductive call_res := COk | CErr (e : rw_error) | CPanic (k : nat).

Definition should_bail_out_for (s : stream) (e : rw_error) : bool :=
  match e with
  | MemoryLimitExceeded => s.(s_bail_mem)
  | ContentHandlerError _ => s.(s_bail_handler)
  | ParsingAmbiguity _ => false
  end.
Definition run_bail_out_handlers (d : disp) (e : rw_error) : disp :=
  let (c', pieces) := ctl.(c_bail_out) d.(d_ctl) e in
  sink_pieces (d_with_ctl d c') pieces.
Definition flush_for_bail_out (d : disp) (input : bytes) : disp :=
  d_with_rcs (sink_push_nonempty d (skipn d.(d_rcs) input)) 0.
Definition flush_remaining_input (d : disp) (chunk : bytes) (consumed : nat) : disp :=
  let out := if (d.(d_rcs) <=? consumed) && (consumed <=? length chunk) then sub chunk d.(d_rcs) consumed else [] in
  d_with_rcs (if d.(d_emission) then sink_push_nonempty d out else d) 0.
Definition with_disp (s : stream) (d : disp) : stream :=
  mkS s.(s_parser) (mkCtx s.(s_ctx).(c_sim) d) s.(s_arena) s.(s_has_buf) s.(s_prev) s.(s_max_mem) s.(s_bail_mem) s.(s_bail_handler).
Definition bail (s : stream) (d : disp) (e : rw_error) (flush : list bytes) : stream * call_res :=
  if should_bail_out_for s e then
    (with_disp s (fold_left flush_for_bail_out flush (run_bail_out_handlers d e)), CErr e)
  else (with_disp s d, CErr e).

(* Arena::append; returns None on MemoryLimitExceeded (usage has grown nevertheless) *)
Definition arena_append (a : arena) (other_usage max : N) (slice : bytes) : arena * bool :=
  if a.(ar_cap) - length a.(ar_data) <? length slice then
    let additional := length slice + length a.(ar_data) - a.(ar_cap) in
    let charged := (a.(ar_charged) + N.of_nat additional)%N in
    if limiter_ok max (other_usage + charged)%N then
      (* try_reserve_exact(slice.len()): capacity becomes at least len + slice.len() *)
      (mkArena (length a.(ar_data) + length slice) (a.(ar_data) ++ slice) charged, true)
    else (mkArena a.(ar_cap) a.(ar_data) charged, false)
  else (mkArena a.(ar_cap) (a.(ar_data) ++ slice) a.(ar_charged), true).
Definition arena_init_with (a : arena) (other_usage max : N) (slice : bytes) : arena * bool :=
  arena_append (mkArena a.(ar_cap) [] a.(ar_charged)) other_usage max slice.
Definition arena_shift (a : arena) (n : nat) : arena := mkArena a.(ar_cap) (skipn n a.(ar_data)) a.(ar_charged).

Definition parse_fuel (chunk : bytes) : nat := length chunk + 8.

Definition write (s : stream) (data : bytes) : stream * call_res :=
  let d0 := s.(s_ctx).(c_disp) in
  let other := ctl.(c_mem_usage) d0.(d_ctl) in
  let '(ar1, ok) := if s.(s_has_buf) then arena_append s.(s_arena) other s.(s_max_mem) data else (s.(s_arena), true) in
  let s1 := mkS s.(s_parser) s.(s_ctx) ar1 s.(s_has_buf) s.(s_prev) s.(s_max_mem) s.(s_bail_mem) s.(s_bail_handler) in
  if negb ok then bail s1 d0 MemoryLimitExceeded [s.(s_arena).(ar_data); data]
  else
    let chunk := if s.(s_has_buf) then ar1.(ar_data) else data in
    let c0 := mkCtx s.(s_ctx).(c_sim) (d_with_ext d0 ar1.(ar_charged)) in
    match parse_loop chunk s.(s_prev) (parse_fuel chunk) s.(s_parser) c0 false None with
    | PErr e c => bail s1 c.(c_disp) e [chunk]
    | PPanic k c => (with_disp s1 c.(c_disp), CPanic k)
    | PFuel c => (with_disp s1 c.(c_disp), CPanic 99)
    | POk p c n =>
        let d := flush_remaining_input c.(c_disp) chunk n in
        let c' := mkCtx c.(c_sim) d in
        let s2 := mkS p c' ar1 s.(s_has_buf) (s.(s_prev) + n) s.(s_max_mem) s.(s_bail_mem) s.(s_bail_handler) in
        if n <? length chunk then
          if s.(s_has_buf) then
            (mkS p c' (arena_shift ar1 n) true (s.(s_prev) + n) s.(s_max_mem) s.(s_bail_mem) s.(s_bail_handler), COk)
          else
            let unconsumed := skipn n data in
            let '(ar2, ok2) := arena_init_with ar1 (ctl.(c_mem_usage) d.(d_ctl)) s.(s_max_mem) unconsumed in
            let s3 := mkS p c' ar2 true (s.(s_prev) + n) s.(s_max_mem) s.(s_bail_mem) s.(s_bail_handler) in
            if ok2 then (s3, COk)
            else bail (mkS p c' ar2 false (s.(s_prev) + n) s.(s_max_mem) s.(s_bail_mem) s.(s_bail_handler)) d MemoryLimitExceeded [unconsumed]
        else (mkS p c' ar1 false (s.(s_prev) + n) s.(s_max_mem) s.(s_bail_mem) s.(s_bail_handler), COk)
    end.

Definition finish (s : stream) : stream * call_res :=
  let d0 := s.(s_ctx).(c_disp) in
  let chunk := if s.(s_has_buf) then s.(s_arena).(ar_data) else [] in
  let c0 := mkCtx s.(s_ctx).(c_sim) (d_with_ext d0 s.(s_arena).(ar_charged)) in
  match parse_loop chunk s.(s_prev) (parse_fuel chunk) s.(s_parser) c0 true None with
  | PErr e c => bail s c.(c_disp) e [chunk]
  | PPanic k c => (with_disp s c.(c_disp), CPanic k)
  | PFuel c => (with_disp s c.(c_disp), CPanic 99)
  | POk p c n =>
      (* Dispatcher::finish: flush, handle_end, finalizing empty chunk *)
      let d := flush_remaining_input c.(c_disp) chunk (length chunk) in
      let '(c', pieces, r) := ctl.(c_end) d.(d_ctl) in
      let d1 := sink_pieces (d_with_ctl d c') pieces in
      let s' := fun dd => mkS p (mkCtx c.(c_sim) dd) s.(s_arena) s.(s_has_buf) (s.(s_prev) + n) s.(s_max_mem) s.(s_bail_mem) s.(s_bail_handler) in
      match r with
      | Some e => (s' d1, CErr e)
      | None => (s' (sink_push d1 []), COk)
      end
  end.

(* TransformStream::new + Dispatcher::new + Arena::new *)
Record settings := mkSettings {
  st_strict : bool; st_max_mem : N; st_prealloc : nat; st_bail_mem : bool; st_bail_handler : bool; st_encoding : nat }.
(* Arena::new: the preallocation is charged even when it does not fit; debug builds assert it fits *)
Definition prealloc_fits (cfg : settings) (c0 : C) : bool :=
  limiter_ok cfg.(st_max_mem) (ctl.(c_mem_usage) c0 + N.of_nat cfg.(st_prealloc))%N.
Definition new_stream (cfg : settings) (c0 : C) : stream :=
  let f0 := ctl.(c_initial_flags) c0 in
  let d0 := mkD c0 0 f0 true false false false 0 Data (N.of_nat cfg.(st_prealloc)) [SkEncoding cfg.(st_encoding)] in
  mkS (mkP init_lexer init_scanner (next_dir f0)) (mkCtx (init_sim cfg.(st_strict)) d0)
      (mkArena (if prealloc_fits cfg c0 then cfg.(st_prealloc) else 0) [] (N.of_nat cfg.(st_prealloc))) false 0
      cfg.(st_max_mem) cfg.(st_bail_mem) cfg.(st_bail_handler).

(* ------------------------------------------------------------------------------------------ *)
(* HtmlRewriter (guarded!): poisoning                                                          *)
Record rewriter := mkRw { rw_stream : stream; rw_poisoned : bool; rw_ended : bool }.
Inductive api_call := Write (data : bytes) | End.
Inductive api_res := ROk | RErr (e : rw_error) | RPanicPoisoned | RPanic (k : nat) | RUseAfterEnd.
Definition api_step (r : rewriter) (op : api_call) : rewriter * api_res :=
  if r.(rw_ended) then (r, RUseAfterEnd)       (* end(self) consumes the rewriter: not expressible in Rust *)
  else if r.(rw_poisoned) then
    (* the documented panic; end(self) still consumes the rewriter *)
    (mkRw r.(rw_stream) true (match op with End => true | _ => false end), RPanicPoisoned)
  else
    let '(s', res) := match op with Write d => write r.(rw_stream) d | End => finish r.(rw_stream) end in
    let ended := match op with End => true | _ => false end in
    match res with
    | COk => (mkRw s' false ended, ROk)
    | CErr e => (mkRw s' true ended, RErr e)
    | CPanic k => (mkRw s' true ended, RPanic k)
    end.
Fixpoint api_run (r : rewriter) (ops : list api_call) : rewriter * list api_res :=
  match ops with
  | [] => (r, [])
  | o :: rest => let (r1, x) := api_step r o in let (r2, xs) := api_run r1 rest in (r2, x :: xs)
  end.
Definition new_rewriter (cfg : settings) (c0 : C) : rewriter := mkRw (new_stream cfg c0) false false.
Definition rw_sink (r : rewriter) : list sink_call := rev r.(rw_stream).(s_ctx).(c_disp).(d_sink).

End WithController.

Arguments DOk {C A}. Arguments DErr {C A}. Arguments DPanic {C A}.
