(* TextDecoder (src/rewritable_units/text_decoder.rs): turns the text lexemes of one text node into decoded chunks with
   source locations.  The streaming decoder of encoding_rs is a parameter (abstract in the proofs, a concrete UTF-8
   decoder for the correspondence run). *)
From LolModel Require Import Base.
From LolGen Require Import Constants.
From Coq Require Import Lia.
Open Scope nat_scope.

Record tchunk := mkTC { tc_text : bytes; tc_last : bool; tc_a : nat; tc_b : nat }.

Section TD.
Variable dstate : Type.
Variable dnew : dstate.                               (* Encoding::new_decoder_without_bom_handling *)
(* Decoder::decode_to_str(src, dst, last) -> (InputEmpty?, read, written text, decoder afterwards) *)
Variable ddecode : dstate -> bytes -> nat -> bool -> bool * nat * bytes * dstate.
(* length of the longest prefix usable by the fast path: valid UTF-8 for a UTF-8 document, ASCII otherwise *)
Variable valid_up_to : bytes -> nat.

Definition BUF : nat := N.to_nat TEXT_DECODER_BUFFER_LEN.

Record td := mkTD { td_pending : option dstate; td_start : nat; td_end : nat }.
Definition td0 : td := mkTD None 0 0.

Definition split_utf8_start (t : td) (raw : bytes) : option (bytes * bytes) :=
  match t.(td_pending) with
  | Some _ => None
  | None =>
      let v := valid_up_to raw in
      if v =? length raw then Some (raw, [])
      else if v <? BUF then None
      else Some (firstn v raw, skipn v raw)
  end.

(* the decode loop; [pos] = document offset of [raw], [next] = start of the bytes not yet reported *)
Fixpoint td_loop (fuel : nat) (dec : dstate) (raw : bytes) (pos next : nat) (last : bool) (acc : list tchunk) : td * list tchunk :=
  match fuel with
  | O => (mkTD (Some dec) next pos, acc)            (* unreachable: the decoder makes progress *)
  | S f =>
      let '(fin, read, written, dec') := ddecode dec raw BUF last in
      let pos' := pos + read in
      let emit := negb (length written =? 0) || last in
      let acc' := if emit then acc ++ [mkTC written (last && fin) next pos'] else acc in
      let next' := if emit then pos' else next in
      if fin then
        (if last then mkTD None next' pos' else mkTD (Some dec') next' pos', acc')
      else td_loop f dec' (skipn read raw) pos' next' last acc'
  end.

Definition feed_text (t : td) (raw : bytes) (start : nat) (last : bool) : td * list tchunk :=
  let next0 := match t.(td_pending) with Some _ => t.(td_start) | None => start end in
  let go (raw1 : bytes) (pos1 next1 : nat) (acc : list tchunk) :=
    let dec := match t.(td_pending) with Some d => d | None => dnew end in
    td_loop (S (length raw1)) dec raw1 pos1 next1 last acc in
  match split_utf8_start t raw with
  | Some (txt, rest) =>
      let really_last := last && (length rest =? 0) in
      let c := mkTC txt really_last next0 (next0 + length txt) in
      if really_last then (mkTD None (next0 + length txt) (next0 + length txt), [c])
      else go rest (next0 + length txt) (next0 + length txt) [c]
  | None => go raw start next0 []
  end.

Definition flush_pending (t : td) : td * list tchunk :=
  match t.(td_pending) with
  | Some _ => feed_text t [] t.(td_end) true
  | None => (t, [])
  end.

(* one text node: its lexemes (non-empty pieces as the lexer delivers them, one per write) starting at [start] *)
Fixpoint feed_all (t : td) (pieces : list bytes) (start : nat) : td * list tchunk :=
  match pieces with
  | [] => (t, [])
  | p :: rest =>
      let (t1, c1) := feed_text t p start false in
      let (t2, c2) := feed_all t1 rest (start + length p) in
      (t2, c1 ++ c2)
  end.
Definition text_node (pieces : list bytes) (start : nat) : list tchunk :=
  let (t1, c1) := feed_all td0 pieces start in
  let (_, c2) := flush_pending t1 in
  c1 ++ c2.
End TD.

(* ---------------- a concrete UTF-8 streaming decoder (WHATWG "UTF-8 decoder") for the correspondence run ---------------- *)
(* a Mealy machine over bytes; state = the bytes of an incomplete sequence seen so far (at most 3) *)
Definition u8state := bytes.
Definition REPL : bytes := [239; 191; 189]%N.     (* U+FFFD *)
(* expected continuation range of the next byte given the lead/seen bytes; None = no sequence in progress *)
Definition u8_need (seen : bytes) : option (nat * N * N) :=   (* total length, lower, upper bound for the next byte *)
  match seen with
  | [l] => if ((194 <=? l) && (l <=? 223))%N then Some (2, 128%N, 191%N)
           else if (l =? 224)%N then Some (3, 160%N, 191%N)
           else if (l =? 237)%N then Some (3, 128%N, 159%N)
           else if ((225 <=? l) && (l <=? 239))%N then Some (3, 128%N, 191%N)
           else if (l =? 240)%N then Some (4, 144%N, 191%N)
           else if (l =? 244)%N then Some (4, 128%N, 143%N)
           else if ((241 <=? l) && (l <=? 243))%N then Some (4, 128%N, 191%N)
           else None
  | l :: _ => if ((224 <=? l) && (l <=? 239))%N then Some (3, 128%N, 191%N) else Some (4, 128%N, 191%N)
  | [] => None
  end.
Definition is_lead (b : N) : bool := ((194 <=? b) && (b <=? 244))%N.
(* a byte met with nothing pending: (new state, output, malformed?) *)
Definition u8_start (b : N) : u8state * bytes * bool :=
  if (b <? 128)%N then ([], [b], false) else if is_lead b then ([b], [], false) else ([], REPL, true).
(* one byte: a malformed sequence in progress becomes one U+FFFD and the byte is looked at afresh *)
Definition u8_step (s : u8state) (b : N) : u8state * bytes * bool :=
  match s with
  | [] => u8_start b
  | _ =>
      match u8_need s with
      | Some (total, lo, hi) =>
          if ((lo <=? b) && (b <=? hi))%N then
            (if S (length s) =? total then ([], s ++ [b], false) else (s ++ [b], [], false))
          else let '(s', o, _) := u8_start b in (s', REPL ++ o, true)
      | None => let '(s', o, _) := u8_start b in (s', REPL ++ o, true)
      end
  end.
Fixpoint u8_run (s : u8state) (inp : bytes) : bytes * u8state :=
  match inp with
  | [] => ([], s)
  | b :: r => let '(s1, o1, _) := u8_step s b in let (o2, s2) := u8_run s1 r in (o1 ++ o2, s2)
  end.
Definition u8_fin (s : u8state) : bytes := match s with [] => [] | _ => REPL end.
(* whole-buffer decode *)
Definition u8_whole (x : bytes) : bytes := let (o, s) := u8_run [] x in o ++ u8_fin s.

(* decode_to_str: as much of the input as fits while the output buffer has room for the longest character *)
Fixpoint u8_go (s : u8state) (inp : bytes) (cap : nat) (read : nat) (out : bytes) : bool * nat * bytes * u8state :=
  match inp with
  | [] => (true, read, out, s)
  | b :: r => if cap <? length out + 4 then (false, read, out, s)
              else let '(s1, o1, _) := u8_step s b in u8_go s1 r cap (S read) (out ++ o1)
  end.
Definition u8_decode (st : u8state) (inp : bytes) (cap : nat) (last : bool) : bool * nat * bytes * u8state :=
  let '(fin, read, out, s') := u8_go st inp cap 0 [] in
  if fin && last then (true, read, out ++ u8_fin s', []) else (fin, read, out, s').
(* from_utf8(..).valid_up_to(): the end of the last complete, well-formed character before the first error *)
Fixpoint u8_vup (s : u8state) (inp : bytes) (pos ok : nat) : nat :=
  match inp with
  | [] => ok
  | b :: r => let '(s1, _, bad) := u8_step s b in
              if bad then ok else u8_vup s1 r (S pos) (match s1 with [] => S pos | _ => ok end)
  end.
Definition u8_valid_up_to (inp : bytes) : nat := u8_vup [] inp 0 0.

Definition utf8_text_node (pieces : list bytes) (start : nat) : list tchunk :=
  text_node u8state [] u8_decode u8_valid_up_to pieces start.

(* per write() call: the chunks produced while feeding that write's text lexeme (an empty write has none); the last
   entry holds the chunks of the final flush at end() *)
Fixpoint utf8_calls (t : td u8state) (pieces : list bytes) (start : nat) : list (list tchunk) :=
  match pieces with
  | [] => [snd (flush_pending u8state [] u8_decode u8_valid_up_to t)]
  | p :: rest =>
      match p with
      | [] => [] :: utf8_calls t rest start
      | _ => let (t1, c1) := feed_text u8state [] u8_decode u8_valid_up_to t p start false in
             c1 :: utf8_calls t1 rest (start + length p)
      end
  end.
Definition utf8_node_calls (pieces : list bytes) : list (list tchunk) := utf8_calls (td0 u8state) pieces 0.
