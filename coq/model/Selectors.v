(* Selector AST construction, compilation and the matching VM with its open-element stack
   (src/selectors_vm/{ast,compiler,program,mod,stack,attribute_matcher,match_info}.rs).
   Input is the structured selector the generator produced (cssparser / the `selectors` crate's
   parsing of the selector *string* is not modelled). *)
From LolModel Require Export Base TreeBuilder.
From Coq Require Export ZArith.
Open Scope nat_scope.

(* ---- structured selectors (what the `selectors` crate hands to Ast::add_selector) ---- *)
Inductive attr_op := OpEq | OpIncludes | OpDash | OpPrefix | OpSubstring | OpSuffix.
Inductive case_sens := CsSensitive | CsInsensitive | CsInsensitiveIfHtml.
Inductive simple :=
| SType (name : bytes) | SAny | SUnmatchable
| SId (v : bytes) | SClass (v : bytes) | SAttrExists (name_lower : bytes)
| SAttr (name value : bytes) (cs : case_sens) (op : attr_op)
| SNthChild (a b : Z) | SNthOfType (a b : Z)
| SNot (args : list (list simple)).
Definition compound := list simple.
Inductive comb := Child | Descendant.
(* parse order: first compound, then (combinator, compound)* *)
Record complex := mkComplex { cx_first : compound; cx_rest : list (comb * compound) }.
Definition selector := list complex.

(* ---- AST ---- *)
Inductive tag_expr := EAny | EUnmatchable | ELocalName (n : bytes) | ENthChild (a b : Z) | ENthOfType (a b : Z).
Inductive attr_expr := EId (v : bytes) | EClass (v : bytes) | EAttrExists (n : bytes) | EAttrCmp (n v : bytes) (cs : case_sens) (op : attr_op).
Record predicate := mkPred { p_tag : list (tag_expr * bool); p_attr : list (attr_expr * bool) }.
Inductive ast_node := Node (p : predicate) (children descendants : list ast_node) (ids : list nat).

Definition op_eqb (a b : attr_op) : bool :=
  match a, b with OpEq, OpEq | OpIncludes, OpIncludes | OpDash, OpDash | OpPrefix, OpPrefix
  | OpSubstring, OpSubstring | OpSuffix, OpSuffix => true | _, _ => false end.
Definition cs_eqb (a b : case_sens) : bool :=
  match a, b with CsSensitive, CsSensitive | CsInsensitive, CsInsensitive | CsInsensitiveIfHtml, CsInsensitiveIfHtml => true | _, _ => false end.
Definition tag_expr_eqb (a b : tag_expr) : bool :=
  match a, b with
  | EAny, EAny | EUnmatchable, EUnmatchable => true
  | ELocalName x, ELocalName y => bytes_eqb x y
  | ENthChild a1 b1, ENthChild a2 b2 | ENthOfType a1 b1, ENthOfType a2 b2 => (a1 =? a2)%Z && (b1 =? b2)%Z
  | _, _ => false end.
Definition attr_expr_eqb (a b : attr_expr) : bool :=
  match a, b with
  | EId x, EId y | EClass x, EClass y | EAttrExists x, EAttrExists y => bytes_eqb x y
  | EAttrCmp n1 v1 c1 o1, EAttrCmp n2 v2 c2 o2 => bytes_eqb n1 n2 && bytes_eqb v1 v2 && cs_eqb c1 c2 && op_eqb o1 o2
  | _, _ => false end.
Fixpoint list_eqb {A} (f : A -> A -> bool) (a b : list A) : bool :=
  match a, b with [], [] => true | x :: r, y :: s => f x y && list_eqb f r s | _, _ => false end.
Definition pred_eqb (a b : predicate) : bool :=
  list_eqb (fun x y => tag_expr_eqb (fst x) (fst y) && Bool.eqb (snd x) (snd y)) a.(p_tag) b.(p_tag)
  && list_eqb (fun x y => attr_expr_eqb (fst x) (fst y) && Bool.eqb (snd x) (snd y)) a.(p_attr) b.(p_attr).

(* Predicate::add_component / add_selector_components (negation flattening exactly as the code does) *)
Definition add_tag (p : predicate) (e : tag_expr) (neg : bool) := mkPred (p.(p_tag) ++ [(e, neg)]) p.(p_attr).
Definition add_attr (p : predicate) (e : attr_expr) (neg : bool) := mkPred p.(p_tag) (p.(p_attr) ++ [(e, neg)]).
Fixpoint add_simple (fuel : nat) (p : predicate) (s : simple) (neg : bool) : predicate :=
  match s with
  | SType n => add_tag p (ELocalName n) neg
  | SAny => add_tag p EAny neg
  | SUnmatchable => add_tag p EUnmatchable neg
  | SNthChild a b => add_tag p (ENthChild a b) neg
  | SNthOfType a b => add_tag p (ENthOfType a b) neg
  | SId v => add_attr p (EId v) neg
  | SClass v => add_attr p (EClass v) neg
  | SAttrExists n => add_attr p (EAttrExists n) neg
  | SAttr n v cs op => add_attr p (EAttrCmp n v cs op) neg
  | SNot args =>
      match fuel with
      | O => p
      | S f => fold_left (fun p1 cmp => fold_left (fun p2 s' => add_simple f p2 s' (negb neg)) cmp p1) args p
      end
  end.
Fixpoint simple_depth (s : simple) : nat :=
  match s with
  | SNot args => S (fold_left (fun m cmp => fold_left (fun m' s' => max m' (simple_depth s')) cmp m) args 0)
  | _ => 0
  end.
(* top level of Ast::add_selector: a Negation component adds its arguments with negation = true,
   which is what add_simple does starting from neg = false *)
Definition compound_predicate (c : compound) : predicate :=
  fold_left (fun p s => add_simple (S (simple_depth s)) p s false) c (mkPred [] []).

Definition node_pred (n : ast_node) := match n with Node p _ _ _ => p end.
Fixpoint insert_sorted (x : nat) (l : list nat) : list nat :=
  match l with
  | [] => [x]
  | y :: r => if x <? y then x :: l else if x =? y then l else y :: insert_sorted x r
  end.
Definition union_sorted (a b : list nat) : list nat := fold_left (fun acc x => insert_sorted x acc) a b.

(* host_expressions + descent; [path] = remaining (combinator, compound) pairs *)
Fixpoint host (fuel : nat) (p : predicate) (path : list (comb * compound)) (id : nat) (branches : list ast_node) : list ast_node :=
  match fuel with
  | O => branches
  | S f =>
      let fix go (bs : list ast_node) : list ast_node * bool :=
        match bs with
        | [] => ([], false)
        | Node q ch ds ids :: r =>
            if pred_eqb q p then
              (match path with
               | [] => Node q ch ds (insert_sorted id ids)
               | (Child, c) :: rest => Node q (host f (compound_predicate c) rest id ch) ds ids
               | (Descendant, c) :: rest => Node q ch (host f (compound_predicate c) rest id ds) ids
               end :: r, true)
            else let (r', found) := go r in (Node q ch ds ids :: r', found)
        end in
      let (bs', found) := go branches in
      if found then bs'
      else
        branches ++ [match path with
                     | [] => Node p [] [] [id]
                     | (Child, c) :: rest => Node p (host f (compound_predicate c) rest id []) [] []
                     | (Descendant, c) :: rest => Node p [] (host f (compound_predicate c) rest id []) []
                     end]
  end.
Definition add_selector (root : list ast_node) (sel : selector) (id : nat) : list ast_node :=
  fold_left (fun r cx => host (S (length cx.(cx_rest))) (compound_predicate cx.(cx_first)) cx.(cx_rest) id r) sel root.

(* ---- program ---- *)
Record instr := mkInstr { i_pred : predicate; i_ids : list nat; i_jumps : option range; i_hjumps : option range }.
(* Compiler::compile_nodes: siblings occupy a contiguous range reserved first; children are laid
   out after, depth first.  Returns the instruction map as (address, instr) pairs. *)
Fixpoint compile_nodes (fuel : nat) (nodes : list ast_node) (free : nat) : list (nat * instr) * nat * range :=
  match fuel with
  | O => ([], free, mkR free free)
  | S f =>
      let start := free in
      let free1 := free + length nodes in
      let fix go (ns : list ast_node) (pos : nat) (fr : nat) (acc : list (nat * instr)) : list (nat * instr) * nat :=
        match ns with
        | [] => (acc, fr)
        | Node p ch ds ids :: r =>
            let '(acc1, fr1, j) := match ch with [] => (acc, fr, None)
                                   | _ => let '(m, f', rg) := compile_nodes f ch fr in (acc ++ m, f', Some rg) end in
            let '(acc2, fr2, hj) := match ds with [] => (acc1, fr1, None)
                                    | _ => let '(m, f', rg) := compile_nodes f ds fr1 in (acc1 ++ m, f', Some rg) end in
            go r (S pos) fr2 (acc2 ++ [(pos, mkInstr p ids j hj)])
        end in
      let (m, fr) := go nodes start free1 [] in
      (m, fr, mkR start free1)
  end.
Fixpoint ast_depth (n : ast_node) : nat :=
  match n with Node _ ch ds _ => S (max (fold_left (fun m x => max m (ast_depth x)) ch 0) (fold_left (fun m x => max m (ast_depth x)) ds 0)) end.
Record program := mkProg { pr_instrs : list (nat * instr); pr_entry : range; pr_nth_of_type : bool }.
Fixpoint lookup_instr (m : list (nat * instr)) (a : nat) : option instr :=
  match m with [] => None | (k, i) :: r => if k =? a then Some i else lookup_instr r a end.
Definition uses_nth_of_type (p : predicate) : bool :=
  existsb (fun e => match fst e with ENthOfType _ _ => true | _ => false end) p.(p_tag).
Definition compile (root : list ast_node) : program :=
  let d := S (fold_left (fun m x => max m (ast_depth x)) root 0) in
  let '(m, _, entry) := compile_nodes d root 0 in
  mkProg m entry (existsb (fun ki => uses_nth_of_type (snd ki).(i_pred)) m).

(* ---- local names ---- *)
Inductive lname := LHash (h : N) | LBytes (b : bytes).
Definition lname_of (name : bytes) (h : N) : lname := if (h =? EMPTY_HASH)%N then LBytes name else LHash h.
Definition lname_of_str (name : bytes) : lname := lname_of name (hash_of name).
Fixpoint eq_ignore_case (a b : bytes) : bool :=
  match a, b with [], [] => true | x :: r, y :: s => (lower x =? lower y)%N && eq_ignore_case r s | _, _ => false end.
Definition lname_eqb (a b : lname) : bool :=
  match a, b with
  | LHash x, LHash y => (x =? y)%N
  | LBytes x, LBytes y => eq_ignore_case x y
  | _, _ => false end.

(* ---- NthChild::has_index over i32 with the wrapping operations written out ---- *)
Definition wrap32 (z : Z) : Z := ((z + 2147483648) mod 4294967296 - 2147483648)%Z.
(* the difference is exact (computed in i64) or wraps in i32, as the source says today (gen/Constants.v: HAS_INDEX_WIDE) *)
Definition has_index (a b : Z) (index : Z) : bool :=
  let offsetted := if HAS_INDEX_WIDE then (index - b)%Z else wrap32 (index - b) in
  if (a =? 0)%Z then (offsetted =? 0)%Z
  else if ((offsetted <? 0) && (0 <? a) || (0 <? offsetted) && (a <? 0))%Z then false
  else (* wrapping_rem: truncated remainder; i32::MIN rem -1 = 0 *)
       (Z.rem offsetted a =? 0)%Z.

(* ---- attribute matcher ---- *)
Definition attr_find (attrs : list attr_view) (lowered_name : bytes) : option attr_view :=
  find (fun a => (length a.(av_name) =? length lowered_name) && bytes_eqb (lower_bytes a.(av_name)) lowered_name) attrs.
Definition attr_value (attrs : list attr_view) (n : bytes) : option bytes := option_map av_value (attr_find attrs n).
Fixpoint split_ws_aux (cur : bytes) (s : bytes) : list bytes :=
  match s with
  | [] => [rev cur]
  | c :: r => if is_ws c then rev cur :: split_ws_aux [] r else split_ws_aux (c :: cur) r
  end.
Definition split_ws (s : bytes) : list bytes := split_ws_aux [] s.
Definition cs_eq (insens : bool) (a b : bytes) : bool := if insens then eq_ignore_case a b else bytes_eqb a b.
Definition insens_of (cs : case_sens) (is_html : bool) : bool :=
  match cs with CsSensitive => false | CsInsensitive => true | CsInsensitiveIfHtml => is_html end.
Fixpoint has_substring (ins : bool) (hay needle : bytes) (fuel : nat) : bool :=
  match fuel with
  | O => false
  | S f =>
      if length hay <? length needle then false
      else if cs_eq ins (firstn (length needle) hay) needle then true
      else match hay with [] => false | _ :: r => has_substring ins r needle f end
  end.
Definition attr_cmp (op : attr_op) (ins : bool) (actual operand : bytes) : bool :=
  let n := length operand in
  match op with
  | OpEq => cs_eq ins actual operand
  | OpIncludes => negb (n =? 0) && existsb (fun part => cs_eq ins part operand) (split_ws actual)
  | OpPrefix => negb (n =? 0) && (n <=? length actual) && cs_eq ins (firstn n actual) operand
  | OpDash => cs_eq ins actual operand
              || (match nth_error actual n with Some c => (c =? 45)%N | None => false end && cs_eq ins (firstn n actual) operand)
  | OpSuffix => negb (n =? 0) && (n <=? length actual) && cs_eq ins (skipn (length actual - n) actual) operand
  | OpSubstring => match operand with [] => false | _ => has_substring ins actual operand (S (length actual)) end
  end.
Definition eval_attr_expr (attrs : list attr_view) (is_html : bool) (e : attr_expr) : bool :=
  match e with
  | EId v => match attr_value attrs (bs "id") with Some x => bytes_eqb x v | None => false end
  | EClass v => match attr_value attrs (bs "class") with Some x => existsb (fun c => bytes_eqb c v) (split_ws x) | None => false end
  | EAttrExists n => match attr_find attrs n with Some _ => true | None => false end
  | EAttrCmp n v cs op =>
      match attr_value attrs (lower_bytes n) with
      | Some actual => attr_cmp op (insens_of cs is_html) actual v
      | None => false end
  end.

(* ---- stack ---- *)
Record elem_desc := mkED { ed_matched : list nat; ed_end_handler : option nat; ed_remove_content : bool }.
Record stack_item := mkSI {
  si_name : lname; si_data : elem_desc; si_jumps : list range; si_hjumps : list range; si_children : Z }.
Record counter_list := mkCL { cl_items : list (Z * nat); cl_cur : Z * nat }.
Record vstack := mkVS {
  vs_root_children : Z;
  vs_typed : option (list (lname * counter_list));
  vs_items : list stack_item;          (* bottom first *)
  vs_cap : nat;                        (* LimitedVec capacity, in items *)
  vs_active_hj : list (range * nat) }.
Definition range_eqb (a b : range) : bool := (a.(rs) =? b.(rs)) && (a.(re) =? b.(re)).

Definition inc32 (z : Z) : Z := wrap32 (z + 1).   (* i32 += 1: panics on overflow in debug; 2^31 siblings are out of scope *)
Fixpoint typed_add (m : list (lname * counter_list)) (name : lname) (index : nat) : list (lname * counter_list) :=
  match m with
  | [] => [(name, mkCL [] (1%Z, index))]
  | (n, cl) :: r =>
      if lname_eqb n name then
        (n, if snd cl.(cl_cur) =? index then mkCL cl.(cl_items) (inc32 (fst cl.(cl_cur)), index)
            else mkCL (cl.(cl_items) ++ [cl.(cl_cur)]) (1%Z, index)) :: r
      else (n, cl) :: typed_add r name index
  end.
Fixpoint cl_pop_to (fuel : nat) (cl : counter_list) (index : nat) : option counter_list :=
  match fuel with
  | O => Some cl
  | S f =>
      if index <? snd cl.(cl_cur) then
        match rev cl.(cl_items) with
        | [] => None
        | last :: rest_rev => cl_pop_to f (mkCL (rev rest_rev) last) index
        end
      else Some cl
  end.
Definition typed_pop_to (m : list (lname * counter_list)) (index : nat) : list (lname * counter_list) :=
  flat_map (fun e => match cl_pop_to (S (length (snd e).(cl_items))) (snd e) index with Some cl => [(fst e, cl)] | None => [] end) m.
Definition typed_get (m : list (lname * counter_list)) (name : lname) (index : nat) : option Z :=
  match find (fun e => lname_eqb (fst e) name) m with
  | Some (_, cl) => if snd cl.(cl_cur) =? index then Some (fst cl.(cl_cur)) else None
  | None => None end.

Definition map_last {A} (f : A -> A) (l : list A) : list A :=
  match rev l with [] => [] | x :: r => rev (f x :: r) end.
Definition stack_add_child (s : vstack) (name : lname) : vstack :=
  let s1 := match s.(vs_items) with
            | [] => mkVS (inc32 s.(vs_root_children)) s.(vs_typed) s.(vs_items) s.(vs_cap) s.(vs_active_hj)
            | _ => mkVS s.(vs_root_children) s.(vs_typed)
                        (map_last (fun it => mkSI it.(si_name) it.(si_data) it.(si_jumps) it.(si_hjumps) (inc32 it.(si_children))) s.(vs_items))
                        s.(vs_cap) s.(vs_active_hj) end in
  match s1.(vs_typed) with
  | Some m => mkVS s1.(vs_root_children) (Some (typed_add m name (length s1.(vs_items)))) s1.(vs_items) s1.(vs_cap) s1.(vs_active_hj)
  | None => s1 end.
Record sel_state := mkSS { ss_cumulative : Z; ss_typed : option Z }.
Definition build_state (s : vstack) (name : lname) : sel_state :=
  mkSS (match last s.(vs_items) (mkSI (LHash 0) (mkED [] None false) [] [] s.(vs_root_children)) with it =>
          match s.(vs_items) with [] => s.(vs_root_children) | _ => it.(si_children) end end)
       (match s.(vs_typed) with Some m => typed_get m name (length s.(vs_items)) | None => None end).

Definition eval_tag_expr (st : sel_state) (name : lname) (e : tag_expr) : option bool :=
  match e with
  | EAny => Some true
  | EUnmatchable => Some false
  | ELocalName n => Some (lname_eqb name (lname_of_str n))
  | ENthChild a b => Some (has_index a b st.(ss_cumulative))
  | ENthOfType a b => match st.(ss_typed) with Some c => Some (has_index a b c) | None => None (* expect() panics *) end
  end.
Definition neg_if (neg b : bool) := if neg then negb b else b.
(* None = panic ("Counter for type required at this point") *)
Fixpoint all_tag (st : sel_state) (name : lname) (l : list (tag_expr * bool)) : option bool :=
  match l with
  | [] => Some true
  | (e, neg) :: r =>
      match eval_tag_expr st name e with
      | None => None
      | Some b => if neg_if neg b then all_tag st name r else Some false
      end
  end.
Definition all_attr (attrs : list attr_view) (is_html : bool) (l : list (attr_expr * bool)) : bool :=
  forallb (fun en => neg_if (snd en) (eval_attr_expr attrs is_html (fst en))) l.

Definition is_void (name : lname) : bool :=
  match name with
  | LHash h => if tt_at tt_is_void_element 0 h then false else tt_at tt_is_void_element 1 h
  | LBytes _ => false   (* enable_esi_tags = false *)
  end.
Inductive stack_directive := SdPush | SdPushIfNotSelfClosing | SdPopImmediately.
Definition get_stack_directive (name : lname) (n : ns) : stack_directive :=
  if ns_eqb n Html then (if is_void name then SdPopImmediately else SdPush) else SdPushIfNotSelfClosing.

(* ---- execution context ---- *)
Record ectx := mkEC { ec_item : stack_item; ec_with_content : bool; ec_ns : ns }.
Definition add_branch (c : ectx) (i : instr) : ectx :=
  let it := c.(ec_item) in
  let d := it.(si_data) in
  let d' := mkED (union_sorted d.(ed_matched) i.(i_ids)) d.(ed_end_handler) d.(ed_remove_content) in
  if c.(ec_with_content) then
    mkEC (mkSI it.(si_name) d' (it.(si_jumps) ++ match i.(i_jumps) with Some r => [r] | None => [] end)
               (it.(si_hjumps) ++ match i.(i_hjumps) with Some r => [r] | None => [] end) it.(si_children))
         c.(ec_with_content) c.(ec_ns)
  else mkEC (mkSI it.(si_name) d' it.(si_jumps) it.(si_hjumps) it.(si_children)) c.(ec_with_content) c.(ec_ns).

Inductive try_res := TrOk (c : ectx) | TrBail (c : ectx) (at_addr : nat) (recovery : nat) | TrPanic.
Section VM.
Variable prog : program.
Variable stk : vstack.
Definition instr_at (a : nat) : instr :=
  match lookup_instr prog.(pr_instrs) a with Some i => i | None => mkInstr (mkPred [] []) [] None None end.

(* try_exec_instr_set_without_attrs *)
Fixpoint try_set (addrs : list nat) (start : nat) (c : ectx) : try_res :=
  match addrs with
  | [] => TrOk c
  | a :: r =>
      let i := instr_at a in
      match all_tag (build_state stk c.(ec_item).(si_name)) c.(ec_item).(si_name) i.(i_pred).(p_tag) with
      | None => TrPanic
      | Some true =>
          match i.(i_pred).(p_attr) with
          | [] => try_set r start (add_branch c i)
          | _ => TrBail c a (a - start + 1)
          end
      | Some false => try_set r start c
      end
  end.
Definition addrs_of (r : range) (offset : nat) : list nat := seq (r.(rs) + offset) (r.(re) - (r.(rs) + offset)).

(* exec_instr_set_with_attrs; None = panic *)
Fixpoint exec_set (addrs : list nat) (attrs : list attr_view) (c : ectx) : option ectx :=
  match addrs with
  | [] => Some c
  | a :: r =>
      let i := instr_at a in
      match all_tag (build_state stk c.(ec_item).(si_name)) c.(ec_item).(si_name) i.(i_pred).(p_tag) with
      | None => None
      | Some true => if all_attr attrs (ns_eqb c.(ec_ns) Html) i.(i_pred).(p_attr) then exec_set r attrs (add_branch c i) else exec_set r attrs c
      | Some false => exec_set r attrs c
      end
  end.
Definition parent_jumps : list range := match rev stk.(vs_items) with p :: _ => p.(si_jumps) | [] => [] end.

Fixpoint exec_sets (sets : list range) (first_offset : nat) (attrs : list attr_view) (c : ectx) : option ectx :=
  match sets with
  | [] => Some c
  | s :: r => match exec_set (addrs_of s first_offset) attrs c with Some c' => exec_sets r 0 attrs c' | None => None end
  end.
Definition exec_jumps_with_attrs (attrs : list attr_view) (c : ectx) (idx off : nat) : option ectx :=
  exec_sets (skipn idx parent_jumps) off attrs c.
Definition exec_hjumps_with_attrs (attrs : list attr_view) (c : ectx) (idx off : nat) : option ectx :=
  exec_sets (skipn idx (map fst stk.(vs_active_hj))) off attrs c.

(* where a bail-out happened *)
Inductive recovery := RecEntry (off : nat) | RecJumps (idx off : nat) | RecHJumps (idx off : nat).
Inductive wo_res := WoDone (c : ectx) | WoBail (c : ectx) (at_addr : nat) (r : recovery) | WoPanic.
Fixpoint try_sets (sets : list range) (idx : nat) (c : ectx) (mk : nat -> nat -> recovery) : wo_res :=
  match sets with
  | [] => WoDone c
  | s :: r =>
      match try_set (addrs_of s 0) s.(rs) c with
      | TrOk c' => try_sets r (S idx) c' mk
      | TrBail c' a off => WoBail c' a (mk idx off)
      | TrPanic => WoPanic
      end
  end.
Definition exec_without_attrs (c : ectx) : wo_res :=
  match try_set (addrs_of prog.(pr_entry) 0) prog.(pr_entry).(rs) c with
  | TrPanic => WoPanic
  | TrBail c' a off => WoBail c' a (RecEntry off)
  | TrOk c1 =>
      match try_sets parent_jumps 0 c1 RecJumps with
      | WoDone c2 => try_sets (map fst stk.(vs_active_hj)) 0 c2 RecHJumps
      | x => x
      end
  end.
(* the closure created by bailout(): complete the instruction, then run the recovery handler *)
Definition recover (c : ectx) (at_addr : nat) (r : recovery) (attrs : list attr_view) : option ectx :=
  let i := instr_at at_addr in
  let c1 := if all_attr attrs (ns_eqb c.(ec_ns) Html) i.(i_pred).(p_attr) then add_branch c i else c in
  match r with
  | RecEntry off =>
      match exec_set (addrs_of prog.(pr_entry) off) attrs c1 with
      | Some c2 => match exec_jumps_with_attrs attrs c2 0 0 with Some c3 => exec_hjumps_with_attrs attrs c3 0 0 | None => None end
      | None => None end
  | RecJumps idx off =>
      match exec_jumps_with_attrs attrs c1 idx off with Some c2 => exec_hjumps_with_attrs attrs c2 0 0 | None => None end
  | RecHJumps idx off => exec_hjumps_with_attrs attrs c1 idx off
  end.
(* exec_after_immediate_aux_info_request *)
Definition exec_all_with_attrs (c : ectx) (attrs : list attr_view) : option ectx :=
  match exec_set (addrs_of prog.(pr_entry) 0) attrs c with
  | Some c1 => match exec_jumps_with_attrs attrs c1 0 0 with Some c2 => exec_hjumps_with_attrs attrs c2 0 0 | None => None end
  | None => None end.
End VM.

(* Stack::push_item with LimitedVec accounting; [item_size] = size_of::<StackItem<ElementDescriptor>>().
   Returns (stack, bytes newly charged, ok). *)
Definition stack_push (s : vstack) (it : stack_item) (item_size : N) (min_items : nat) (other_usage max_mem : N) : vstack * N * bool :=
  let depth := length s.(vs_items) in
  let '(cap', charged, ok) :=
    if depth <? s.(vs_cap) then (s.(vs_cap), 0%N, true)
    else let additional := Nat.max s.(vs_cap) min_items in
         let bytes := (N.of_nat additional * item_size)%N in
         (* limiter.increase_usage grows the usage even when it fails *)
         if (other_usage + bytes <=? max_mem)%N then (s.(vs_cap) + additional, bytes, true) else (s.(vs_cap), bytes, false) in
  if ok then
    let hj := fold_left (fun acc r => if existsb (fun a => range_eqb (fst a) r) acc then acc else acc ++ [(r, depth)]) it.(si_hjumps) s.(vs_active_hj) in
    (mkVS s.(vs_root_children) s.(vs_typed) (s.(vs_items) ++ [it]) cap' hj, charged, true)
  else (s, charged, false).

(* Stack::pop_up_to: returns the popped element data, innermost LAST (drain order = bottom-up from index) *)
Fixpoint rposition (items : list stack_item) (name : lname) (i : nat) (acc : option nat) : option nat :=
  match items with
  | [] => acc
  | it :: r => rposition r name (S i) (if lname_eqb it.(si_name) name then Some i else acc)
  end.
Definition stack_pop_up_to (s : vstack) (name : lname) : vstack * list elem_desc :=
  match rposition s.(vs_items) name 0 None with
  | None => (s, [])
  | Some index =>
      (mkVS s.(vs_root_children) (option_map (fun m => typed_pop_to m index) s.(vs_typed)) (firstn index s.(vs_items)) s.(vs_cap)
            (filter (fun a => snd a <? index) s.(vs_active_hj)),
       map si_data (skipn index s.(vs_items)))
  end.
Definition new_vstack (nth_of_type : bool) : vstack := mkVS 0%Z (if nth_of_type then Some [] else None) [] 0 [].
