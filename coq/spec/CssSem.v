(* Reference semantics of the supported selector grammar over the tree that explicit tags induce (property C04),
   written directly from Selectors Level 4 / the property text -- independent of the VM model.
   Executable (extracted and used as the oracle) and the right-hand side of the C04 theorems. *)
From LolModel Require Import Base TreeBuilder Selectors Machine.
From Coq Require Import ZArith.
Open Scope nat_scope.

(* ---- elements of the induced tree ---- *)
Record elem := mkElem {
  e_name : bytes; e_ns : ns; e_attrs : list (bytes * bytes);
  e_index : Z;        (* 1-based position among the element children of its parent *)
  e_type_index : Z    (* 1-based position among the children with the same name *)
}.
(* an open element together with the names of the element children it has had so far *)
Record open_el := mkOpen { o_el : elem; o_children : list bytes }.
Record tree_state := mkTree { t_open : list open_el (* innermost first *); t_root_children : list bytes }.

Definition name_eq (a b : bytes) : bool := eq_ignore_case a b.
Definition void_names : list bytes :=
  map bs ["area"; "base"; "basefont"; "bgsound"; "br"; "col"; "embed"; "hr"; "img"; "input"; "keygen"; "link"; "meta"; "param"; "source"; "track"; "wbr"]%string.
Definition is_void_name (n : bytes) : bool := existsb (name_eq n) void_names.

Definition count_same (n : bytes) (l : list bytes) : nat := length (filter (name_eq n) l).
(* a start tag: the new element (with its sibling indices) and the new tree state *)
Definition on_start (t : tree_state) (name : bytes) (n : ns) (attrs : list (bytes * bytes)) (self_closing : bool) : elem * tree_state :=
  let siblings := match t.(t_open) with o :: _ => o.(o_children) | [] => t.(t_root_children) end in
  let el := mkElem name n attrs (Z.of_nat (S (length siblings))) (Z.of_nat (S (count_same name siblings))) in
  let t1 := match t.(t_open) with
            | o :: r => mkTree (mkOpen o.(o_el) (o.(o_children) ++ [name]) :: r) t.(t_root_children)
            | [] => mkTree [] (t.(t_root_children) ++ [name]) end in
  let stays_open := if ns_eqb n Html then negb (is_void_name name) else negb self_closing in
  (el, if stays_open then mkTree (mkOpen el [] :: t1.(t_open)) t1.(t_root_children) else t1).
(* an end tag closes the innermost open element of that name and everything inside it; otherwise it is ignored *)
Fixpoint close_to (name : bytes) (l : list open_el) : option (list open_el) :=
  match l with
  | [] => None
  | o :: r => if name_eq o.(o_el).(e_name) name then Some r else close_to name r
  end.
Definition on_end (t : tree_state) (name : bytes) : tree_state :=
  match close_to name t.(t_open) with Some r => mkTree r t.(t_root_children) | None => t end.

(* ---- matching ---- *)
Definition attr_lookup (attrs : list (bytes * bytes)) (lowered : bytes) : option bytes :=
  option_map snd (find (fun kv => bytes_eqb (lower_bytes (fst kv)) lowered) attrs).
Fixpoint starts_with (eqc : N -> N -> bool) (s p : bytes) : bool :=
  match p, s with
  | [], _ => true
  | x :: p', y :: s' => eqc y x && starts_with eqc s' p'
  | _ :: _, [] => false
  end.
Fixpoint infix_of (eqc : N -> N -> bool) (s p : bytes) : bool :=
  starts_with eqc s p || match s with [] => false | _ :: s' => infix_of eqc s' p end.
Fixpoint words (cur : bytes) (s : bytes) : list bytes :=
  match s with
  | [] => match cur with [] => [] | _ => [rev cur] end
  | c :: r => if is_ws c then match cur with [] => words [] r | _ => rev cur :: words [] r end else words (c :: cur) r
  end.
Definition css_attr_cmp (op : attr_op) (ins : bool) (actual operand : bytes) : bool :=
  let eqc (a b : N) := if ins then (lower a =? lower b)%N else (a =? b)%N in
  let eqv a b := (length a =? length b) && starts_with eqc a b in
  let n := length operand in
  match op with
  | OpEq => eqv actual operand
  | OpIncludes => (* whitespace-separated list containing the operand; an empty operand (or one with whitespace) represents nothing *)
      negb (n =? 0) && negb (existsb is_ws operand) && existsb (fun w => eqv w operand) (words [] actual)
  | OpDash => eqv actual operand || starts_with eqc actual (operand ++ [45%N])
  | OpPrefix => negb (n =? 0) && starts_with eqc actual operand
  | OpSuffix => negb (n =? 0) && starts_with eqc (rev actual) (rev operand)
  | OpSubstring => negb (n =? 0) && infix_of eqc actual operand
  end.
(* An+B: exists n >= 0 with a*n + b = index *)
Definition an_plus_b (a b index : Z) : bool :=
  if (a =? 0)%Z then (index =? b)%Z
  else let d := (index - b)%Z in ((d mod a =? 0) && (0 <=? d / a))%Z.

Fixpoint simple_matches (fuel : nat) (e : elem) (s : simple) : bool :=
  match s with
  | SType n => name_eq e.(e_name) n
  | SAny => true
  | SUnmatchable => false
  | SId v => match attr_lookup e.(e_attrs) (bs "id") with Some x => bytes_eqb x v | None => false end
  | SClass v => match attr_lookup e.(e_attrs) (bs "class") with Some x => existsb (fun c => bytes_eqb c v) (words [] x) | None => false end
  | SAttrExists n => match attr_lookup e.(e_attrs) n with Some _ => true | None => false end      (* n is the lower-cased name by construction *)
  | SAttr n v cs op =>
      match attr_lookup e.(e_attrs) (lower_bytes n) with
      | Some actual => css_attr_cmp op (insens_of cs (ns_eqb e.(e_ns) Html)) actual v
      | None => false end
  | SNthChild a b => an_plus_b a b e.(e_index)
  | SNthOfType a b => an_plus_b a b e.(e_type_index)
  | SNot args =>
      match fuel with
      | O => false
      | S f => negb (existsb (fun cmp => forallb (simple_matches f e) cmp) args)
      end
  end.
Definition compound_matches (e : elem) (c : compound) : bool :=
  forallb (fun s => simple_matches (S (simple_depth s)) e s) c.

(* a complex selector in parse order [c0; (comb1,c1); ...] is matched right to left against the element and its
   ancestors (innermost first) *)
Fixpoint match_left (rev_rest : list (compound * comb)) (ancestors : list elem) (fuel : nat) : bool :=
  match rev_rest with
  | [] => true
  | (c, cb) :: more =>
      match fuel with
      | O => false
      | S f =>
          match cb with
          | Child => match ancestors with
                     | p :: up => compound_matches p c && match_left more up f
                     | [] => false end
          | Descendant =>
              (fix scan (anc : list elem) : bool :=
                 match anc with
                 | [] => false
                 | p :: up => (compound_matches p c && match_left more up f) || scan up
                 end) ancestors
          end
      end
  end.
(* turn [c0; (k1,c1); ...; (kn,cn)] into the subject cn and the list [(c(n-1),kn); ...; (c0,k1)] *)
Fixpoint to_right_left (first : compound) (rest : list (comb * compound)) (acc : list (compound * comb)) : compound * list (compound * comb) :=
  match rest with
  | [] => (first, acc)
  | (k, c) :: more => to_right_left c more ((first, k) :: acc)
  end.
Definition complex_matches (cx : complex) (e : elem) (ancestors : list elem) : bool :=
  let (subject, left) := to_right_left cx.(cx_first) cx.(cx_rest) [] in
  compound_matches e subject && match_left left ancestors (S (length left) * S (length ancestors)).
Definition selector_matches (sel : selector) (e : elem) (ancestors : list elem) : bool :=
  existsb (fun cx => complex_matches cx e ancestors) sel.

(* ---- the expected match sets for a stream of tag events ---- *)
Inductive tag_event := EvStart (name : bytes) (n : ns) (attrs : list (bytes * bytes)) (sc : bool) (loc : nat) | EvEnd (name : bytes).
Fixpoint expected (sels : list selector) (evs : list tag_event) (t : tree_state) : list (nat * list nat) :=
  match evs with
  | [] => []
  | EvStart name n attrs sc loc :: rest =>
      let ancestors := map o_el t.(t_open) in
      let (el, t') := on_start t name n attrs sc in
      let ids := map fst (filter (fun ks => selector_matches (snd ks) el ancestors) (combine (seq 0 (length sels)) sels)) in
      (loc, ids) :: expected sels rest t'
  | EvEnd name :: rest => expected sels rest (on_end t name)
  end.

(* the tag stream of a document: the (correspondence-validated) tokenizer model with every tag captured *)
Record tagctl := mkTagCtl { tc_events : list tag_event (* reversed *) }.
Definition tags_controller : controller tagctl := {|
  c_initial_flags := fun _ => (FLAG_NEXT_START_TAG + FLAG_NEXT_END_TAG)%N;
  c_start_tag := fun c _ _ _ _ => (c, SFlags (FLAG_NEXT_START_TAG + FLAG_NEXT_END_TAG)%N);
  c_aux_info := fun c _ _ _ => (c, FOk (FLAG_NEXT_START_TAG + FLAG_NEXT_END_TAG)%N);
  c_end_tag := fun c _ _ => (c, (FLAG_NEXT_START_TAG + FLAG_NEXT_END_TAG)%N);
  c_token := fun c t =>
    (match t with
     | TStart name _ n attrs sc _ loc => mkTagCtl (EvStart name n (map (fun a => (a.(av_name), a.(av_value))) attrs) sc loc.(rs) :: c.(tc_events))
     | TEnd name _ _ _ => mkTagCtl (EvEnd name :: c.(tc_events))
     | _ => c end, OOk []);
  c_end := fun c => (c, [], None);
  c_should_emit := fun _ => true;
  c_bail_out := fun c _ => (c, []);
  c_mem_usage := fun _ => 0%N |}.
Definition tag_stream (doc : bytes) : list tag_event :=
  let cfg := mkSettings false (2^40)%N 0 false false 0 in
  let (r, _) := api_run tags_controller (new_rewriter tags_controller cfg (mkTagCtl [])) [Write doc; End] in
  rev r.(rw_stream).(s_ctx).(c_disp).(d_ctl).(tc_events).
Definition css_expected (sels : list selector) (doc : bytes) : list (nat * list nat) :=
  expected sels (tag_stream doc) (mkTree [] []).

(* ================= scoped dispatch (property C05): the reference handler-invocation sequence ================= *)
(* what is registered: per selector an optional element handler (with the number of end-tag handlers it attaches to the
   element each time it runs), a comment handler, a text handler; per document-handler block doctype/comment/text/end *)
Record sel_feat := mkSF { sf_sel : selector; sf_el : option nat; sf_cm : bool; sf_tx : bool }.
Record doc_feat := mkDF { df_dt : bool; df_cm : bool; df_tx : bool; df_end : bool }.
Inductive xkind := XEl | XEt | XCm | XTx | XDt | XEnd.
(* x_idx: registration index within the kind (selector-scoped handlers first, then document-level ones);
   for XEt the start offset of the element the handler was attached to.  x_loc: start offset of the token *)
Record xevent := mkX { x_kind : xkind; x_idx : nat; x_loc : nat; x_end : nat (* end offset, text tokens only *) }.

Inductive stream_event :=
| SeStart (name : bytes) (n : ns) (attrs : list (bytes * bytes)) (sc : bool) (loc : nat)
| SeEnd (name : bytes) (loc : nat)
| SeText (loc : nat) (e : nat) | SeComment (loc : nat) | SeDoctype (loc : nat).

Record sopen := mkSO { so_el : elem; so_children : list bytes; so_matched : list nat; so_start : nat; so_oe : nat }.
Record sstate := mkSS2 { ss_open : list sopen; ss_root_children : list bytes }.

Fixpoint split_closed (name : bytes) (l : list sopen) (acc : list sopen) : option (list sopen * list sopen) :=
  match l with
  | [] => None
  | o :: r => if name_eq o.(so_el).(e_name) name then Some (rev (o :: acc), r) else split_closed name r (o :: acc)
  end.
(* index of selector k's handler among the handlers of one kind *)
Definition kind_index (has : sel_feat -> bool) (sels : list sel_feat) (k : nat) : nat := length (filter has (firstn k sels)).
Definition has_el (s : sel_feat) := match s.(sf_el) with Some _ => true | None => false end.
Definition in_scope (st : sstate) (k : nat) : bool := existsb (fun o => existsb (Nat.eqb k) o.(so_matched)) st.(ss_open).
Definition scoped (kind : xkind) (has : sel_feat -> bool) (has_doc : doc_feat -> bool) (sels : list sel_feat) (docs : list doc_feat) (st : sstate) (loc e : nat) : list xevent :=
  let ks := filter (fun k => match nth_error sels k with Some s => has s && in_scope st k | None => false end) (seq 0 (length sels)) in
  map (fun k => mkX kind (kind_index has sels k) loc e) ks
  ++ map (fun j => mkX kind (length (filter has sels) + j) loc e) (seq 0 (length (filter has_doc docs))).

Fixpoint scope_events (sels : list sel_feat) (docs : list doc_feat) (evs : list stream_event) (st : sstate) : list xevent :=
  match evs with
  | [] => map (fun j => mkX XEnd j 0 0) (seq 0 (length (filter df_end docs)))
  | SeStart name n attrs sc loc :: rest =>
      let ancestors := map so_el st.(ss_open) in
      let siblings := match st.(ss_open) with o :: _ => o.(so_children) | [] => st.(ss_root_children) end in
      let el := mkElem name n attrs (Z.of_nat (S (length siblings))) (Z.of_nat (S (count_same name siblings))) in
      let ids := filter (fun k => match nth_error sels k with Some s => selector_matches s.(sf_sel) el ancestors | None => false end) (seq 0 (length sels)) in
      let st1 := match st.(ss_open) with
                 | o :: r => mkSS2 (mkSO o.(so_el) (o.(so_children) ++ [name]) o.(so_matched) o.(so_start) o.(so_oe) :: r) st.(ss_root_children)
                 | [] => mkSS2 [] (st.(ss_root_children) ++ [name]) end in
      let stays_open := if ns_eqb n Html then negb (is_void_name name) else negb sc in
      let oe := fold_left (fun acc k => match nth_error sels k with Some s => match s.(sf_el) with Some m => acc + m | None => acc end | None => acc end) ids 0 in
      let st2 := if stays_open then mkSS2 (mkSO el [] ids loc oe :: st1.(ss_open)) st1.(ss_root_children) else st1 in
      map (fun k => mkX XEl (kind_index has_el sels k) loc loc) (filter (fun k => match nth_error sels k with Some s => has_el s | None => false end) ids)
      ++ scope_events sels docs rest st2
  | SeEnd name loc :: rest =>
      match split_closed name st.(ss_open) [] with
      | None => scope_events sels docs rest st
      | Some (closed, remaining) =>
          flat_map (fun o => map (fun _ => mkX XEt o.(so_start) loc loc) (seq 0 o.(so_oe))) closed
          ++ scope_events sels docs rest (mkSS2 remaining st.(ss_root_children))
      end
  | SeText loc e :: rest => scoped XTx sf_tx df_tx sels docs st loc e ++ scope_events sels docs rest st
  | SeComment loc :: rest => scoped XCm sf_cm df_cm sels docs st loc loc ++ scope_events sels docs rest st
  | SeDoctype loc :: rest =>
      map (fun j => mkX XDt j loc loc) (seq 0 (length (filter df_dt docs))) ++ scope_events sels docs rest st
  end.

(* the full token stream of a document from the tokenizer model with everything captured *)
Record allctl := mkAllCtl { ac_events : list stream_event }.
Definition ALL_FLAGS : N := (FLAG_TEXT + FLAG_COMMENTS + FLAG_NEXT_START_TAG + FLAG_NEXT_END_TAG + FLAG_DOCTYPES)%N.
Definition all_controller : controller allctl := {|
  c_initial_flags := fun _ => ALL_FLAGS;
  c_start_tag := fun c _ _ _ _ => (c, SFlags ALL_FLAGS);
  c_aux_info := fun c _ _ _ => (c, FOk ALL_FLAGS);
  c_end_tag := fun c _ _ => (c, ALL_FLAGS);
  c_token := fun c t =>
    (mkAllCtl (match t with
     | TStart name _ n attrs sc _ loc => SeStart name n (map (fun a => (a.(av_name), a.(av_value))) attrs) sc loc.(rs)
     | TEnd name _ _ loc => SeEnd name loc.(rs)
     | TText _ _ _ loc => SeText loc.(rs) loc.(re)
     | TComment _ _ loc => SeComment loc.(rs)
     | TDoctype _ _ _ _ _ loc => SeDoctype loc.(rs)
     end :: c.(ac_events)), OOk []);
  c_end := fun c => (c, [], None);
  c_should_emit := fun _ => true;
  c_bail_out := fun c _ => (c, []);
  c_mem_usage := fun _ => 0%N |}.
Definition token_stream (doc : bytes) : list stream_event :=
  let cfg := mkSettings false (2^40)%N 0 false false 0 in
  let (r, _) := api_run all_controller (new_rewriter all_controller cfg (mkAllCtl [])) [Write doc; End] in
  rev r.(rw_stream).(s_ctx).(c_disp).(d_ctl).(ac_events).
Definition scope_expected (sels : list sel_feat) (docs : list doc_feat) (doc : bytes) : list xevent :=
  scope_events sels docs (token_stream doc) (mkSS2 [] []).
