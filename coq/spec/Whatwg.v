(* Names from the WHATWG HTML standard that the tree-builder simulator and the ambiguity guard of lol-html must agree with
   (written from the standard; compared with the tables regenerated from the source). *)
From Coq Require Import List String.
Import ListNotations.
Open Scope string_scope.

(* 13.2.6.4.4 / 13.2.6.4.7: start tags after which the tree builder switches the tokenizer *)
Definition whatwg_rcdata : list string := ["title"; "textarea"].
Definition whatwg_rawtext : list string := ["style"; "xmp"; "iframe"; "noembed"; "noframes"; "noscript"].   (* scripting enabled *)
Definition whatwg_script : list string := ["script"].
Definition whatwg_plaintext : list string := ["plaintext"].
(* 13.2.6.5: start tags that break out of foreign content (font only with color/face/size) *)
Definition whatwg_foreign_breakout : list string :=
  ["b"; "big"; "blockquote"; "body"; "br"; "center"; "code"; "dd"; "div"; "dl"; "dt"; "em"; "embed"; "h1"; "h2"; "h3"; "h4"; "h5"; "h6"; "head"; "hr"; "i";
   "img"; "li"; "listing"; "menu"; "meta"; "nobr"; "ol"; "p"; "pre"; "ruby"; "s"; "small"; "span"; "strong"; "strike"; "sub"; "sup"; "table"; "tt"; "u"; "ul"; "var"].
(* 13.2.6: MathML text integration points, SVG HTML integration points *)
Definition whatwg_mathml_text_ip : list string := ["mi"; "mo"; "mn"; "ms"; "mtext"].
Definition whatwg_svg_html_ip : list string := ["foreignobject"; "desc"; "title"].
(* 13.1.2: void elements (and the obsolete ones the parser treats alike) *)
Definition whatwg_void : list string :=
  ["area"; "base"; "basefont"; "bgsound"; "br"; "col"; "embed"; "hr"; "img"; "input"; "keygen"; "link"; "meta"; "param"; "source"; "track"; "wbr"].
