(* C01 -- pass-through identity.  Only statements, `exact` proofs and Print Assumptions. *)
From LolModel Require Import Machine Policy.
From LolProofs Require Import Tiling TableFacts.

(* An observer controller: every handled token is re-emitted as its own bytes (no mutation), content is
   never removed, nothing is appended at the end of the document.  The capture-flag policy, the answers to
   start/end tag hints, the info requests and the failures are arbitrary -- this covers every set of observing
   handlers (document-level, selector-scoped, any union), i.e. every way of switching between tag scanning and
   full lexing. *)
Definition observer {C} (ctl : controller C) : Prop :=
  (forall c t c' ps, c_token ctl c t = (c', OOk ps) -> List.concat ps = token_bytes t)
  /\ (forall c, c_should_emit ctl c = true)
  /\ (forall c, snd (fst (c_end ctl c)) = []).

(* For every observer, configuration (strict or not, any memory limit), input and split into write() calls:
   if every call succeeds, the bytes given to the sink are exactly the bytes written. *)
Theorem C01_pass_through :
  forall (C : Type) (ctl : controller C), observer ctl ->
  forall (cfg : settings) (c0 : C) (chunks : list bytes) r res,
    api_run ctl (new_rewriter ctl cfg c0) (map Write chunks ++ [End]) = (r, res) ->
    Forall (fun x => x = ROk) res ->
    sink_bytes (rw_sink r) = List.concat chunks.
Proof.
  intros C ctl (H1 & H2 & H3) cfg c0 chunks r res. exact (pass_through ctl H1 H2 table_ok_current cfg c0 chunks r res H3).
Qed.

(* ... and when a write fails (strict-mode ParsingAmbiguity, memory, a failing handler) without graceful bail-out,
   what was emitted is a prefix of what was written. *)
Theorem C01_prefix_on_failure :
  forall (C : Type) (ctl : controller C), observer ctl ->
  forall cfg c0 chunks data r res r' e,
    api_run ctl (new_rewriter ctl cfg c0) (map Write chunks) = (r, res) -> Forall (fun x => x = ROk) res ->
    api_step ctl r (Write data) = (r', RErr e) -> should_bail_out_for (rw_stream r) e = false ->
    exists post, sink_bytes (rw_sink r') ++ post = List.concat chunks ++ data.
Proof.
  intros C ctl (H1 & H2 & H3) cfg c0 chunks data r res r' e E1 Hall Es Hb.
  pose proof (first_failing_write ctl H1 H2 table_ok_current cfg c0 chunks data r res r' e E1 Hall Es) as H.
  cbv zeta in H. rewrite Hb in H. exact H.
Qed.

(* the side conditions on the regenerated tokenizer table *)
Theorem C01_table_side_conditions : forall st, state_ok (table st) = true.
Proof. exact table_ok_current. Qed.

(* non-vacuity: observers exist (a controller that captures everything and re-emits every token), and a concrete
   run of the level-1 policy controller goes through lexer and scanner *)
Definition capture_all : controller unit := {|
  c_initial_flags := fun _ => 31%N;
  c_start_tag := fun _ _ _ _ _ => (tt, SFlags 31%N);
  c_aux_info := fun _ _ _ _ => (tt, FOk 31%N);
  c_end_tag := fun _ _ _ => (tt, 31%N);
  c_token := fun _ t => (tt, OOk (serialize_unmodified t));
  c_end := fun _ => (tt, [], None);
  c_should_emit := fun _ => true;
  c_bail_out := fun _ _ => (tt, []);
  c_mem_usage := fun _ => 0%N |}.
Example C01_observers_exist : observer capture_all.
Proof.
  split; [|split; reflexivity]. intros c t c' ps E. cbn in E. inversion E; subst.
  destruct t; cbn; try (rewrite app_nil_r; reflexivity). destruct text; cbn; [reflexivity | rewrite app_nil_r; reflexivity].
Qed.
Example C01_nonvacuous :
  let cfg := mkSettings false 1000%N 0 false false 0 in
  let p0 := mkPol 0 1 None false [] [] 0 [] in
  let '(r, res) := api_run policy_controller (new_rewriter policy_controller cfg p0)
                     (map Write [bs "<a hr"; bs "ef=x>t<!--"; bs "c--></a"; bs ">"] ++ [End]) in
  res = [ROk; ROk; ROk; ROk; ROk] /\ sink_bytes (rw_sink r) = bs "<a href=x>t<!--c--></a>".
Proof. vm_compute. split; reflexivity. Qed.

Print Assumptions C01_pass_through.
Print Assumptions C01_prefix_on_failure.
Print Assumptions C01_table_side_conditions.
