(* C04 -- selector matching agrees with CSS semantics (partial).  Only statements, `exact` proofs and Print Assumptions.
   The reference semantics is spec/CssSem.v (independent of the VM model); the extracted reference is also the oracle
   the implementation's handler invocations are compared with on every run. *)
From LolModel Require Import Base Selectors.
From LolSpec Require Import CssSem.
From LolModel Require Import Machine Rewriter.
From LolProofs Require Import Css CssPred StackTree Bailout TypedCounters AstSem SelLR Frontier VmExec CompileRepr VmStack VmRun SelOkDec.
From Coq Require Import List.
Import ListNotations.
From Coq Require Import ZArith Lia.

(* Element and selector names: comparing LocalNames (64-bit hash when representable, bytes otherwise) is exactly ASCII
   case-insensitive equality of the names, for ALL byte strings.  (False for the code before the leading-digit fix:
   "1a" and "a" had the same hash; the proof reads the digit arm of LocalNameHash::update from the source.) *)
Theorem C04_local_names_compare_ascii_case_insensitively :
  forall s t : bytes, lname_eqb (lname_of_str s) (lname_of_str t) = name_eq s t.
Proof. exact local_name_eq_is_case_insensitive_name_eq. Qed.

(* Attribute values: the matcher's six operators are the six CSS operators for every value, operand and case flag
   (in particular ^= $= ~= *= with an empty operand match nothing). *)
Theorem C04_attribute_operators_are_css :
  forall op ins actual operand, attr_cmp op ins actual operand = css_attr_cmp op ins actual operand.
Proof. exact attribute_operators_are_css. Qed.

(* :nth-child / :nth-of-type: An+B membership for every step, offset and index (the difference is computed in i64 since
   fix 9d5b935; the translator reads which arithmetic the source uses) *)
Theorem C04_an_plus_b_meaning :
  forall a b i : Z, an_plus_b a b i = true <-> exists n : Z, (0 <= n /\ a * n + b = i)%Z.
Proof. exact an_plus_b_spec. Qed.
Theorem C04_nth_index_is_an_plus_b :
  forall a b i : Z, has_index a b i = an_plus_b a b i.
Proof. exact has_index_exact. Qed.

(* One selector compound against one element: the predicate built by Ast::add_selector (negations flattened into signed
   conjuncts) and evaluated by the VM (tag-name expressions, then attribute expressions) decides exactly the CSS meaning of
   the compound, for EVERY element (name, namespace, attributes incl. duplicates and case variants, sibling positions) and
   every compound whose negations flatten exactly (compound_ok: :not() arguments are single simple selectors under one
   negation, a single compound under a double negation; class names non-empty). *)
Theorem C04_predicate_decides_compound :
  forall (e : elem) (c : compound), compound_ok e c -> vm_predicate e (compound_predicate c) = compound_matches e c.
Proof. exact predicate_decides_compound. Qed.
(* ... and the restriction is necessary: :not(a.x) on <b class="x"> (known finding NotCompoundArg) *)
Example C04_not_with_compound_argument_refuted :
  let e := mkElem (bs "b") Html [(bs "class", bs "x")] 1 1 in
  let c := [SNot [[SType (bs "a"); SClass (bs "x")]]] in
  vm_predicate e (compound_predicate c) = false /\ compound_matches e c = true.
Proof. split; vm_compute; reflexivity. Qed.
Example C04_compound_ok_example :
  compound_ok (mkElem (bs "DIV") Html [(bs "Class", bs "a  b"); (bs "id", bs "k")] 3 2)
              [SType (bs "div"); SClass (bs "b"); SNot [[SId (bs "z")]; [SNthChild 2 0]]; SNot [[SNot [[SAny; SAttrExists (bs "id")]]]]].
Proof. repeat constructor; cbn; try discriminate; unfold in_i32; cbn; try lia. Qed.

(* The open-element stack of the matching VM is the tree that explicit tags induce: for EVERY sequence of start tags (with
   their namespace, attributes and self-closing flag) and end tags -- mis-nested, stray, void, foreign self-closing -- run
   through the controller (start-tag hint, attribute request when needed, end-tag hint; every selector program; every
   outcome of selector matching incl. attribute bail-out and recovery), the stack holds exactly the open elements of
   CssSem.on_start / on_end with their child counts, as long as no element gets 2^31-1 children. *)
Theorem C04_vm_stack_is_the_tag_induced_tree :
  forall ops c ext t c',
  r_prog c <> None -> shape (r_stack c) = tshape t -> never_wraps t ops -> vm_run c ext ops = Some c' ->
  shape (r_stack c') = tshape (tree_run t ops).
Proof. exact vm_stack_is_the_tag_induced_tree. Qed.
(* ... and the index that :nth-child is evaluated with is the element's position among its siblings in that tree *)
Theorem C04_nth_child_index_is_the_sibling_position :
  forall s t name n attrs sc, shape s = tshape t -> small (length (siblings t)) ->
  ss_cumulative (build_state (stack_add_child s (lname_of_str name)) (lname_of_str name)) = e_index (fst (on_start t name n attrs sc)).
Proof. exact nth_child_index_is_the_sibling_position. Qed.

(* ... including the per-type counters of :nth-of-type / :first-of-type (TypedChildCounterMap: per element name a stack of
   (count, depth) entries, popped when elements close): for every sequence of tags the stack, the child counters AND the
   typed counters follow the tree (Rfull), and at every start tag the two indices the VM evaluates selectors with are the
   element's position among all siblings and among the siblings of the same name. *)
Theorem C04_vm_stack_and_counters_follow_the_tree :
  forall ops c ext t c',
  r_prog c <> None -> Rfull (r_stack c) t -> never_wraps t ops -> vm_run c ext ops = Some c' -> Rfull (r_stack c') (tree_run t ops).
Proof. exact vm_stack_and_counters_follow_the_tree. Qed.
Theorem C04_sibling_indices_are_the_positions_in_the_tree :
  forall c ext name n attrs sc c' t,
  r_prog c <> None -> Rfull (r_stack c) t -> small (length (siblings t)) -> vm_on_start c ext name n attrs sc = Some c' ->
  Rfull (r_stack c') (after_start t name n sc) /\ r_prog c' <> None /\ indices_ok (r_stack c) t name.
Proof. exact start_tag_keeps_stack_and_counters. Qed.
Example C04_initial_stack_is_the_empty_tree : forall b, Rfull (new_vstack b) (mkTree [] []).
Proof. exact new_vstack_full. Qed.

(* The selector AST (Ast::add_selector: compounds hosted as nodes, shared prefixes merged, child and descendant branches)
   denotes the selector list: read along the chain of open elements (outermost first, the element last), adding a selector
   with handler id [id] to ANY AST adds exactly [id] at exactly the elements CssSem.selector_matches selects (right to left
   over the ancestors), and changes nothing else.  sel_ok = the side conditions of C04_predicate_decides_compound for every
   compound on every element of the chain. *)
Theorem C04_ast_denotes_the_selector_list :
  forall sel id root x anc i, sel_ok sel (rev anc ++ [x]) ->
  (In i (den_any (add_selector root sel id) (rev anc ++ [x])) <->
   In i (den_any root (rev anc ++ [x])) \/ (i = id /\ selector_matches sel x anc = true)).
Proof. exact add_selector_is_css. Qed.
(* the left-to-right reading (what the AST and the VM follow) is the right-to-left CSS matching, for every selector/chain *)
Theorem C04_left_to_right_matching_is_css_matching :
  forall sel x anc, sel_matches_lr sel (rev anc ++ [x]) = selector_matches sel x anc.
Proof. exact selector_lr_is_css. Qed.

(* Compiler::compile_nodes lays every AST out so that each node is represented by its instruction: siblings contiguous,
   jumps = the range of the children, hereditary jumps = the range of the descendant branches (every AST, any depth). *)
Theorem C04_compiled_program_represents_the_ast :
  forall root, rrange (compile root) (pr_entry (compile root)) root.
Proof. exact compile_represents_ast. Qed.

(* END TO END.  For every non-empty list of selectors with their handlers, every sequence of start tags (namespace,
   attributes, self-closing flag) and end tags -- mis-nested, stray, void, foreign self-closing -- run through the
   rewriter's controller from its initial state (AST built by Ast::add_selector, compiled by Compiler::compile_nodes,
   executed by the stack VM with entry points, jumps, hereditary jumps, attribute bail-out and recovery, sibling and typed
   counters), and every further start tag: the ids handed to start_matching (the finish_exec call that produces the
   next state) are exactly the indices of the selectors that CssSem.selector_matches selects for the new element in the tree
   induced by the explicit tags, with its ancestors innermost first.  Hypotheses: no element has 2^31-1 children; sel_ok =
   the side conditions of C04_predicate_decides_compound (excludes :not() with compound arguments: known finding). *)
Theorem C04_selector_vm_is_css_matching :
  forall sels docs bail fa isz mx ext ops c name n avs sc c',
  sels <> [] ->
  never_wraps_a (mkTree [] []) (ops ++ [OpStart name n avs sc]) ->
  vm_run (new_rwc sels docs bail fa isz mx) ext ops = Some c -> vm_on_start c ext name n avs sc = Some c' ->
  let t := tree_run_a (mkTree [] []) ops in
  let el := fst (on_start t name n (pairs avs) sc) in
  let anc := map o_el (t_open t) in
  Forall (fun sel => sel_ok sel (rev anc ++ [el])) (map sh_selector sels) ->
  exists c1 ec' f, finish_exec c1 ext ec' = (c', FOk f) /\ r_locators c1 = r_locators c /\ ec_with_content ec' = stays_open name n sc /\
    forall i, In i (ed_matched (si_data (ec_item ec'))) <->
              exists sh, nth_error sels i = Some sh /\ selector_matches (sh_selector sh) el anc = true.
Proof. exact selector_vm_is_css. Qed.
(* the invariant behind it, for every reachable state: each open element's stack item holds the AST frontier
   (jumps = children of the nodes matched there, hereditary jumps = their descendant branches, matched ids = their ids) *)
Theorem C04_stack_items_hold_the_ast_frontier :
  forall prog root ext ops c t c',
  Inv prog root c t -> never_wraps_a t ops -> vm_run c ext ops = Some c' -> Inv prog root c' (tree_run_a t ops).
Proof. exact run_keeps_inv. Qed.

(* non-vacuity: "div > p.x, [id]" and "section p:not(.y)" on <section><DIV><p class=x id=k>: the hypotheses hold, the run exists *)
Definition ex_s0 : selector := [mkComplex [SType (bs "div")] [(Child, [SType (bs "p"); SClass (bs "x")])]; mkComplex [SAttrExists (bs "id")] []].
Definition ex_s1 : selector := [mkComplex [SType (bs "section")] [(Descendant, [SType (bs "p"); SNot [[SClass (bs "y")]]])]].
Definition ex_sels := [mkSH ex_s0 (Some []) None None; mkSH ex_s1 (Some []) None None].
Definition ex_ops := [OpStart (bs "section") Html [] false; OpStart (bs "DIV") Html [] false].
Definition ex_avs := [mkAV (bs "class") (bs "x") [] None; mkAV (bs "id") (bs "k") [] None].
Definition ex_t := tree_run_a (mkTree [] []) ex_ops.
Definition ex_el := fst (on_start ex_t (bs "p") Html (pairs ex_avs) false).
Definition ex_runs : bool :=
  match vm_run (new_rwc ex_sels [] [] None 96 10000) 0 ex_ops with
  | Some c => match vm_on_start c 0 (bs "p") Html ex_avs false with Some _ => true | None => false end
  | None => false end.
Example C04_end_to_end_example :
  ex_sels <> [] /\ never_wraps_a (mkTree [] []) (ex_ops ++ [OpStart (bs "p") Html ex_avs false]) /\ ex_runs = true /\
  Forall (fun sel => sel_ok sel (rev (map o_el (t_open ex_t)) ++ [ex_el])) (map sh_selector ex_sels) /\
  selector_matches ex_s0 ex_el (map o_el (t_open ex_t)) = true /\ selector_matches ex_s1 ex_el (map o_el (t_open ex_t)) = true.
Proof.
  split; [discriminate|]. split; [vm_compute; repeat split|]. split; [vm_compute; reflexivity|]. split; [|split; vm_compute; reflexivity].
  let c := eval vm_compute in (rev (map o_el (t_open ex_t)) ++ [ex_el]) in change (rev (map o_el (t_open ex_t)) ++ [ex_el]) with c.
  repeat constructor. all: try (vm_compute; discriminate).
Qed.

(* The side condition is syntactic and decidable: sel_okb (non-empty class names; :not() arguments that flatten exactly) is a
   boolean function of the selector alone and implies sel_ok on every chain -- the end-to-end statement with it: *)
Theorem C04_selector_vm_is_css_matching_for_checked_selectors :
  forall sels docs bail fa isz mx ext ops c name n avs sc c',
  sels <> [] -> forallb (fun sh => sel_okb (sh_selector sh)) sels = true ->
  never_wraps_a (mkTree [] []) (ops ++ [OpStart name n avs sc]) ->
  vm_run (new_rwc sels docs bail fa isz mx) ext ops = Some c -> vm_on_start c ext name n avs sc = Some c' ->
  let t := tree_run_a (mkTree [] []) ops in
  let el := fst (on_start t name n (pairs avs) sc) in
  let anc := map o_el (t_open t) in
  exists c1 ec' f, finish_exec c1 ext ec' = (c', FOk f) /\ r_locators c1 = r_locators c /\ ec_with_content ec' = stays_open name n sc /\
    forall i, In i (ed_matched (si_data (ec_item ec'))) <->
              exists sh, nth_error sels i = Some sh /\ selector_matches (sh_selector sh) el anc = true.
Proof. exact selector_vm_is_css_dec. Qed.
Example C04_checked_selectors_example : forallb (fun sh => sel_okb (sh_selector sh)) ex_sels = true.
Proof. vm_compute. reflexivity. Qed.

(* Attribute bail-out and recovery (entry points, the parent's jumps, hereditary jumps, at any offset): running without
   attributes, bailing out, and resuming with attributes computes exactly what one execution with attributes computes,
   for every program, stack, element and attribute list. *)
Theorem C04_attribute_bailout_and_recovery_equal_one_phase_execution :
  forall prog stk attrs c,
  match exec_without_attrs prog stk c with
  | WoDone c' => exec_all_with_attrs prog stk c attrs = Some c'
  | WoBail c' a r => recover prog stk c' a r attrs = exec_all_with_attrs prog stk c attrs
  | WoPanic => exec_all_with_attrs prog stk c attrs = None
  end.
Proof. exact bailout_and_recovery_equal_one_phase_execution. Qed.

(* non-vacuity / edge *)
Example C04_names_example : lname_eqb (lname_of_str (bs "DIV")) (lname_of_str (bs "div")) = true
                         /\ lname_eqb (lname_of_str (bs "1a")) (lname_of_str (bs "a")) = false
                         /\ lname_eqb (lname_of_str (bs "my-el")) (lname_of_str (bs "MY-EL")) = true.
Proof. exact (conj eq_refl (conj eq_refl eq_refl)). Qed.
Example C04_empty_operand_example : attr_cmp OpPrefix false (bs "abc") [] = false /\ attr_cmp OpIncludes false (bs "a  b") [] = false.
Proof. exact (conj eq_refl eq_refl). Qed.
Example C04_nth_at_the_i32_edge : has_index 1 (-2147483648) 1 = true /\ an_plus_b 1 (-2147483648) 1 = true.
Proof. exact has_index_at_i32_edge. Qed.

Print Assumptions C04_local_names_compare_ascii_case_insensitively.
Print Assumptions C04_attribute_operators_are_css.
Print Assumptions C04_an_plus_b_meaning.
Print Assumptions C04_nth_index_is_an_plus_b.
Print Assumptions C04_predicate_decides_compound.
Print Assumptions C04_vm_stack_is_the_tag_induced_tree.
Print Assumptions C04_attribute_bailout_and_recovery_equal_one_phase_execution.
Print Assumptions C04_vm_stack_and_counters_follow_the_tree.
Print Assumptions C04_sibling_indices_are_the_positions_in_the_tree.
Print Assumptions C04_ast_denotes_the_selector_list.
Print Assumptions C04_left_to_right_matching_is_css_matching.
Print Assumptions C04_compiled_program_represents_the_ast.
Print Assumptions C04_selector_vm_is_css_matching.
Print Assumptions C04_stack_items_hold_the_ast_frontier.
Print Assumptions C04_selector_vm_is_css_matching_for_checked_selectors.
