(* C03 -- strict-mode tokenization (partial).  Only statements, `exact` proofs and Print Assumptions.
   The tag tables (LolGen.TagTables) are regenerated from the source on every run; LolSpec.Whatwg is written from the
   WHATWG standard. *)
From LolModel Require Import Base TreeBuilder Machine.
From LolSpec Require Import Whatwg.
From LolProofs Require Import StrictErase.
From LolProofs Require Import Strict.
From Coq Require Import List String Bool NArith.
Import ListNotations.

(* The simulator's tables are the standard's: text-mode switching start tags (RCDATA, RAWTEXT, script, PLAINTEXT), the tags
   that break out of foreign content, MathML text / SVG HTML integration points, void elements; the guard's list of
   text-mode tags is their union; every Tag constant is the hash of its name. *)
Theorem C03_tables_are_the_whatwg_lists :
  same_set (list_of tt_get_text_type_adjustment 0) (map h whatwg_rcdata) &&
  same_set (list_of tt_get_text_type_adjustment 1) (map h whatwg_plaintext) &&
  same_set (list_of tt_get_text_type_adjustment 2) (map h whatwg_script) &&
  same_set (list_of tt_get_text_type_adjustment 3) (map h whatwg_rawtext) &&
  same_set (list_of tt_causes_foreign_content_exit 0) (map h whatwg_foreign_breakout) &&
  same_set (list_of tt_is_text_integration_point_in_math_ml 0) (map h whatwg_mathml_text_ip) &&
  same_set (list_of tt_is_html_integration_point_in_svg 0) (map h whatwg_svg_html_ip) &&
  same_set (list_of tt_is_void_element 1) (map h whatwg_void) &&
  same_set tt_assert_not_ambiguous text_mode_tags = true.
Proof. exact tables_match_whatwg. Qed.
Theorem C03_tag_constants_are_name_hashes : forallb (fun p => (h (fst p) =? snd p)%N) all_tags = true.
Proof. exact tag_constants_are_hashes. Qed.

(* Strict mode fails ONLY for a text-mode-switching start tag inside select, template-in-select, or in/after frameset ... *)
Theorem C03_strict_fails_only_when_ambiguous :
  forall g t, guard_track_start g t = None ->
  one_of t tt_assert_not_ambiguous = true /\ (g = GInSelect \/ (exists d, g = GInTemplateInSelect d) \/ g = GInOrAfterFrameset).
Proof. exact guard_refuses_only. Qed.
(* ... and there it does refuse (ambiguity is never silently accepted): every text-mode tag in template-in-select, all but
   script/textarea in select (those two are handled like a real tree builder does), all but noframes in/after frameset *)
Theorem C03_ambiguity_is_refused_in_select :
  forall t, one_of t tt_assert_not_ambiguous = true -> t <> h "script" -> t <> h "textarea" -> guard_track_start GInSelect t = None.
Proof. exact guard_refuses_in_select. Qed.
Theorem C03_ambiguity_is_refused_in_template_in_select :
  forall t d, one_of t tt_assert_not_ambiguous = true -> guard_track_start (GInTemplateInSelect d) t = None.
Proof. exact guard_refuses_in_template_in_select. Qed.
Theorem C03_ambiguity_is_refused_in_frameset :
  forall t, one_of t tt_assert_not_ambiguous = true -> t <> h "noframes" -> guard_track_start GInOrAfterFrameset t = None.
Proof. exact guard_refuses_in_frameset. Qed.

(* Strictness changes no decision of the simulator: whenever the strict simulator answers, the non-strict one gives the same
   tokenizer feedback and namespace state (per start tag and per end tag; the whole-run statement is checked on pairs of runs) *)
Theorem C03_strict_and_non_strict_feedback_agree_on_start_tags :
  forall s s' t r, same_ns s s' -> strict s' = false -> fb_start s t = Some r ->
  exists r', fb_start s' t = Some r' /\ snd r' = snd r /\ same_ns (fst r) (fst r').
Proof. exact fb_start_strict_agrees. Qed.
Theorem C03_strict_and_non_strict_feedback_agree_on_end_tags :
  forall s s' t, same_ns s s' -> snd (fb_end s t) = snd (fb_end s' t) /\ same_ns (fst (fb_end s t)) (fst (fb_end s' t)).
Proof. exact fb_end_strict_agrees. Qed.
Example C03_guard_example :
  guard_track_start GInSelect (h "title") = None /\ guard_track_start GInSelect (h "script") = Some GInSelect /\
  guard_track_start GDefault (h "title") = Some GDefault /\ guard_track_start GInOrAfterFrameset (h "noframes") = Some GInOrAfterFrameset.
Proof. vm_compute. repeat split. Qed.

(* Strict mode only ever ADDS the refusal: for EVERY controller (every set of handlers), configuration, input and chunking, a run
   in which no call reports ParsingAmbiguity -- in particular every successful strict run -- is, call for call, the non-strict run:
   same results, same sink calls, same controller (handler) state, same parser state (urw only erases the guard and the flag). *)
Theorem C03_strict_run_without_ambiguity_is_the_non_strict_run :
  forall (C : Type) (ctl : controller C) cfg c0 ops,
  Forall not_amb (snd (api_run ctl (new_rewriter ctl cfg c0) ops)) ->
  api_run ctl (new_rewriter ctl (unstrict_cfg cfg) c0) ops =
  (urw (fst (api_run ctl (new_rewriter ctl cfg c0) ops)), snd (api_run ctl (new_rewriter ctl cfg c0) ops)).
Proof. exact (@strict_run_without_ambiguity_is_the_non_strict_run). Qed.
Theorem C03_successful_strict_run_equals_the_non_strict_run :
  forall (C : Type) (ctl : controller C) cfg c0 ops r res r' res',
  api_run ctl (new_rewriter ctl cfg c0) ops = (r, res) -> Forall (fun x => x = ROk) res ->
  api_run ctl (new_rewriter ctl (unstrict_cfg cfg) c0) ops = (r', res') ->
  res' = res /\ rw_sink r' = rw_sink r /\ d_ctl (c_disp (s_ctx (rw_stream r'))) = d_ctl (c_disp (s_ctx (rw_stream r))).
Proof. exact (@strict_success_same_sink_and_controller). Qed.

Print Assumptions C03_tables_are_the_whatwg_lists.
Print Assumptions C03_strict_fails_only_when_ambiguous.
Print Assumptions C03_ambiguity_is_refused_in_select.
Print Assumptions C03_strict_and_non_strict_feedback_agree_on_start_tags.
Print Assumptions C03_strict_run_without_ambiguity_is_the_non_strict_run.
Print Assumptions C03_successful_strict_run_equals_the_non_strict_run.
