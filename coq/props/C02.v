(* C02 -- chunk-boundary invariance (partial).  Only statements, `exact` proofs and Print Assumptions. *)
From LolModel Require Import Machine.
From LolProofs Require Import Tiling TableFacts Corollaries.
From LolProps Require Import C01.

(* For every observer controller and every two splits of the same bytes into write() calls (one-byte writes,
   empty writes, any cuts): if both runs succeed they emit the same bytes. *)
Theorem C02_output_is_chunking_invariant_for_observers :
  forall (C : Type) (ctl : controller C), observer ctl ->
  forall cfg c0 chunks1 chunks2 r1 res1 r2 res2,
    List.concat chunks1 = List.concat chunks2 ->
    api_run ctl (new_rewriter ctl cfg c0) (map Write chunks1 ++ [End]) = (r1, res1) -> Forall (fun x => x = ROk) res1 ->
    api_run ctl (new_rewriter ctl cfg c0) (map Write chunks2 ++ [End]) = (r2, res2) -> Forall (fun x => x = ROk) res2 ->
    sink_bytes (rw_sink r1) = sink_bytes (rw_sink r2).
Proof.
  intros C ctl (H1 & H2 & H3) cfg c0 ch1 ch2 r1 res1 r2 res2 Hc.
  exact (observers_agree ctl ctl cfg cfg c0 c0 ch1 ch2 r1 res1 r2 res2 H1 H2 H3 H1 H2 H3 Hc).
Qed.

(* The full statement (kept visible; NOT proved): events and output are chunking invariant for every controller whose
   handlers do not branch on text fragmentation.  It is exercised by the correspondence run on chunking groups and by
   the group oracle (tools/oracles.py: oracle_c02). *)
Definition C02_full_statement : Prop :=
  forall (C : Type) (ctl : controller C) cfg c0 chunks1 chunks2,
    List.concat chunks1 = List.concat chunks2 ->
    sink_bytes (rw_sink (fst (api_run ctl (new_rewriter ctl cfg c0) (map Write chunks1 ++ [End]))))
    = sink_bytes (rw_sink (fst (api_run ctl (new_rewriter ctl cfg c0) (map Write chunks2 ++ [End])))).

Print Assumptions C02_output_is_chunking_invariant_for_observers.
