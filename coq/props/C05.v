(* C05 -- scoped dispatch (partial).  Only statements, `exact` proofs and Print Assumptions. *)
From LolModel Require Import Machine Selectors Rewriter.
From LolProofs Require Import Memory Scope StackTree TypedCounters EndTags AstSem VmRun ScopeCss SelOkDec.
From LolSpec Require Import CssSem.
From Coq Require Import List.
Open Scope nat_scope.

(* For EVERY selector set, handler scripts (mutating or not), failure injection point, configuration, document and
   chunking: in every state reached through successful writes, the activation count of each comment / text handler is
   its initial count (1 for document-level handlers, 0 for selector-scoped ones) plus the number of (open element,
   matched selector) pairs on the open-element stack whose selector owns the handler. *)
Theorem C05_handler_counts_track_open_matched_elements :
  forall sels docs bail fail isz cfg chunks r res,
  let c0 := new_rwc sels docs bail fail isz (st_max_mem cfg) in
  api_run rc (new_rewriter rc cfg c0) (map Write chunks) = (r, res) -> Forall (fun x => x = ROk) res ->
  let c := d_ctl (c_disp (s_ctx (rw_stream r))) in
  forall i,
    cnt (r_comment c) i = cnt (r_comment c0) i + uses (r_locators c0) lc_cm i (all_ids (vs_items (r_stack c))) /\
    cnt (r_text c) i = cnt (r_text c0) i + uses (r_locators c0) lc_tx i (all_ids (vs_items (r_stack c))).
Proof. exact handler_counts_track_open_matched_elements. Qed.

(* Hence a selector-scoped handler receives tokens (is active) exactly while some element matched by its selector is on
   the open-element stack: never earlier, never after that element has been popped, at any nesting depth. *)
Theorem C05_scoped_handler_active_iff_matched_element_open :
  forall sels docs bail fail isz cfg chunks r res,
  let c0 := new_rwc sels docs bail fail isz (st_max_mem cfg) in
  api_run rc (new_rewriter rc cfg c0) (map Write chunks) = (r, res) -> Forall (fun x => x = ROk) res ->
  let c := d_ctl (c_disp (s_ctx (rw_stream r))) in
  forall k l, nth_error (r_locators c0) k = Some l ->
    (forall i, lc_cm l = Some i ->
       (0 < cnt (r_comment c) i <-> exists it id, In it (vs_items (r_stack c)) /\ In id (ed_matched (si_data it)) /\ owns (r_locators c0) lc_cm i id = true)) /\
    (forall i, lc_tx l = Some i ->
       (0 < cnt (r_text c) i <-> exists it id, In it (vs_items (r_stack c)) /\ In id (ed_matched (si_data it)) /\ owns (r_locators c0) lc_tx i id = true)).
Proof. exact scoped_handler_active_iff_matched_element_open. Qed.

(* End tags: for every stack that follows the tag-induced tree (C04_vm_stack_and_counters_follow_the_tree: every reachable
   one), an end tag deactivates -- scoped handlers off, end-tag handler armed, via stop_matching -- exactly the open
   elements that it closes in the tree: the innermost open element of that name and everything inside it, each once
   (they leave the stack), and an end tag matching no open element deactivates nothing. *)
Theorem C05_end_tag_pops_exactly_the_closed_elements :
  forall s t name s' popped,
  Rfull s t -> stack_pop_up_to s (K name) = (s', popped) ->
  let k := length (t_open (on_end t name)) in
  popped = map si_data (skipn k (vs_items s)) /\ vs_items s' = firstn k (vs_items s) /\ length popped = length (t_open t) - k /\
  (close_to name (t_open t) = None -> popped = nil /\ s' = s).
Proof. exact end_tag_pops_exactly_the_closed_elements. Qed.
Theorem C05_end_tag_stops_exactly_the_closed_elements :
  forall c name t, r_prog c <> None -> Rfull (r_stack c) t ->
  let k := length (t_open (on_end t name)) in
  fst (rw_end_tag c name (hash_of name)) =
  fold_left stop_matching (map si_data (skipn k (vs_items (r_stack c))))
            (rset_vm c (fst (stack_pop_up_to (r_stack c) (K name))) (r_vm_charged c)).
Proof. exact end_tag_stops_exactly_the_closed_elements. Qed.

(* C05 + C04 at the controller.  For every non-empty list of selectors with their handlers and EVERY sequence of start tags
   (namespace, attributes, self-closing flag) and end tags run through the rewriter's controller from its initial state: a
   selector-scoped comment / text handler is active (receives tokens) exactly when some OPEN element of the tree induced by
   the tags is matched -- CssSem.selector_matches, with its ancestors -- by a selector that owns the handler: never
   earlier, not after that element is closed, at any depth.  Side conditions as in C04_selector_vm_is_css_matching. *)
Theorem C05_scoped_handlers_follow_css_matching_on_the_tree :
  forall sels docs bail fa isz mx ext ops c,
  sels <> nil ->
  never_wraps_a (mkTree nil nil) ops ->
  vm_run (new_rwc sels docs bail fa isz mx) ext ops = Some c ->
  let c0 := new_rwc sels docs bail fa isz mx in
  let chain := chain_of (tree_run_a (mkTree nil nil) ops) in
  (forall j, j < length chain -> Forall (fun sel => sel_ok sel (firstn (S j) chain)) (map sh_selector sels)) ->
  forall k l, nth_error (r_locators c0) k = Some l ->
  let opened (own : nat -> bool) := exists j e id sh, nth_error chain j = Some e /\ own id = true /\ nth_error sels id = Some sh /\
                                     selector_matches (sh_selector sh) e (rev (firstn j chain)) = true in
  (forall i, lc_cm l = Some i -> (0 < cnt (r_comment c) i <-> opened (owns (r_locators c0) lc_cm i))) /\
  (forall i, lc_tx l = Some i -> (0 < cnt (r_text c) i <-> opened (owns (r_locators c0) lc_tx i))).
Proof. exact scoped_handlers_follow_css. Qed.

(* ... and with the decidable side condition on the selectors (sel_okb, see C04) in place of sel_ok *)
Theorem C05_scoped_handlers_follow_css_matching_for_checked_selectors :
  forall sels docs bail fa isz mx ext ops c,
  sels <> nil -> forallb (fun sh => sel_okb (sh_selector sh)) sels = true ->
  never_wraps_a (mkTree nil nil) ops ->
  vm_run (new_rwc sels docs bail fa isz mx) ext ops = Some c ->
  let c0 := new_rwc sels docs bail fa isz mx in
  let chain := chain_of (tree_run_a (mkTree nil nil) ops) in
  forall k l, nth_error (r_locators c0) k = Some l ->
  let opened (own : nat -> bool) := exists j e id sh, nth_error chain j = Some e /\ own id = true /\ nth_error sels id = Some sh /\
                                     selector_matches (sh_selector sh) e (rev (firstn j chain)) = true in
  (forall i, lc_cm l = Some i -> (0 < cnt (r_comment c) i <-> opened (owns (r_locators c0) lc_cm i))) /\
  (forall i, lc_tx l = Some i -> (0 < cnt (r_text c) i <-> opened (owns (r_locators c0) lc_tx i))).
Proof. exact scoped_handlers_follow_css_dec. Qed.

(* non-vacuity: `div` with a comment handler, after writing "<div><p><!--" the handler is active and exactly one
   (element, selector) pair owns it; after "</div>" it is inactive again *)
Definition ex_sels := [mkSH [mkComplex [SType (bs "div")] []] None (Some []) None].
Definition ex_cfg := mkSettings false 1000000%N 0 false false 0.
Definition ex_run (doc : bytes) :=
  let c0 := new_rwc ex_sels [] [] None 104%N 1000000%N in
  let (r, res) := api_run rc (new_rewriter rc ex_cfg c0) [Write doc] in
  let c := d_ctl (c_disp (s_ctx (rw_stream r))) in
  (res, cnt (r_comment c) 0, length (vs_items (r_stack c))).
Example C05_example_open : ex_run (bs "<div><p><!--c-->x") = ([ROk], 1, 2).
Proof. vm_compute. reflexivity. Qed.
Example C05_example_closed : ex_run (bs "<div><p><!--c-->x</div>y") = ([ROk], 0, 0).
Proof. vm_compute. reflexivity. Qed.

Print Assumptions C05_handler_counts_track_open_matched_elements.
Print Assumptions C05_scoped_handler_active_iff_matched_element_open.
Print Assumptions C05_end_tag_pops_exactly_the_closed_elements.
Print Assumptions C05_end_tag_stops_exactly_the_closed_elements.
Print Assumptions C05_scoped_handlers_follow_css_matching_on_the_tree.
Print Assumptions C05_scoped_handlers_follow_css_matching_for_checked_selectors.
