(* C12 -- fail-stop and sink protocol.  Only statements, `exact` proofs and Print Assumptions. *)
From LolModel Require Import Machine.
From LolProofs Require Import SinkProtocol.

(* For EVERY controller (= every set of handlers, observing or mutating, failing at any point),
   every configuration, and every history of write/end calls: the sink sees set_encoding first,
   then only non-empty data chunks, and a zero-length chunk exactly as the very last call, iff
   some end() returned Ok. *)
Theorem C12_sink_protocol :
  forall (C : Type) (ctl : controller C) (cfg : settings) (c0 : C) (ops : list api_call),
    let '(r, res) := api_run ctl (new_rewriter ctl cfg c0) ops in
    exists body,
      rw_sink r = SkEncoding (st_encoding cfg) :: body ++ (if fin_of false ops res then [SkChunk []] else [])
      /\ Forall data_chunk body.
Proof. exact @sink_protocol. Qed.

Theorem C12_finalizing_chunk_iff_successful_end :
  forall (ops : list api_call) (fin : bool) (res : list api_res), length res = length ops ->
    fin_of fin ops res = true <->
    fin = true \/ exists i, nth_error ops i = Some End /\ nth_error res i = Some ROk.
Proof. exact fin_of_true_iff. Qed.

(* After an error the rewriter is poisoned; a poisoned rewriter panics and changes nothing (no output). *)
Theorem C12_error_poisons :
  forall (C : Type) (ctl : controller C) r op r' e,
    rw_ended r = false -> rw_poisoned r = false -> api_step ctl r op = (r', RErr e) -> rw_poisoned r' = true.
Proof. exact @error_poisons. Qed.
Theorem C12_poisoned_is_inert :
  forall (C : Type) (ctl : controller C) r op,
    rw_poisoned r = true -> rw_ended r = false ->
    exists ended, api_step ctl r op = (mkRw (rw_stream r) true ended, RPanicPoisoned).
Proof. exact @poisoned_is_inert. Qed.

(* without graceful bail-out, what was emitted before a failure is a prefix of the bytes written (hence of what the
   complete run emits, by C01) -- for observer controllers *)
From LolProofs Require Import Tiling TableFacts.
From LolProps Require Import C01.
Theorem C12_prefix_before_failure :
  forall (C : Type) (ctl : controller C), observer ctl ->
  forall cfg c0 chunks data r res r' e,
    api_run ctl (new_rewriter ctl cfg c0) (map Write chunks) = (r, res) -> Forall (fun x => x = ROk) res ->
    api_step ctl r (Write data) = (r', RErr e) -> should_bail_out_for (rw_stream r) e = false ->
    exists post, sink_bytes (rw_sink r') ++ post = List.concat chunks ++ data.
Proof. exact C01_prefix_on_failure. Qed.

(* non-vacuity: a concrete run that ends successfully *)
From LolModel Require Import Policy.
Example C12_nonvacuous :
  let cfg := mkSettings false 1000%N 0 false false 0 in
  let p0 := mkPol 0 1 None false [] [] 0 [] in
  let '(r, res) := api_run policy_controller (new_rewriter policy_controller cfg p0) [Write (bs "<a>x</a>"); End] in
  res = [ROk; ROk] /\ fin_of false [Write (bs "<a>x</a>"); End] res = true /\ length (rw_sink r) = 4.
Proof. vm_compute. repeat split. Qed.

Print Assumptions C12_sink_protocol.
Print Assumptions C12_finalizing_chunk_iff_successful_end.
Print Assumptions C12_error_poisons.
Print Assumptions C12_poisoned_is_inert.
Print Assumptions C12_prefix_before_failure.
