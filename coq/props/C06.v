(* C06 -- handler independence (partial).  Only statements, `exact` proofs and Print Assumptions. *)
From LolModel Require Import Machine.
From LolProofs Require Import Tiling TableFacts Corollaries.
From LolProps Require Import C01.

(* Any two observer controllers -- e.g. a handler set H and H plus any observers O, which drive the parser through
   completely different sequences of tag-scanning and full lexing -- emit the same bytes for the same input, under any
   two chunkings. *)
Theorem C06_output_independent_of_observers :
  forall (C1 C2 : Type) (ctl1 : controller C1) (ctl2 : controller C2), observer ctl1 -> observer ctl2 ->
  forall cfg1 cfg2 c1 c2 chunks1 chunks2 r1 res1 r2 res2,
    List.concat chunks1 = List.concat chunks2 ->
    api_run ctl1 (new_rewriter ctl1 cfg1 c1) (map Write chunks1 ++ [End]) = (r1, res1) -> Forall (fun x => x = ROk) res1 ->
    api_run ctl2 (new_rewriter ctl2 cfg2 c2) (map Write chunks2 ++ [End]) = (r2, res2) -> Forall (fun x => x = ROk) res2 ->
    sink_bytes (rw_sink r1) = sink_bytes (rw_sink r2).
Proof.
  intros C1 C2 ctl1 ctl2 (A1 & A2 & A3) (B1 & B2 & B3) cfg1 cfg2 c1 c2 ch1 ch2 r1 res1 r2 res2.
  exact (observers_agree ctl1 ctl2 cfg1 cfg2 c1 c2 ch1 ch2 r1 res1 r2 res2 A1 A2 A3 B1 B2 B3).
Qed.
(* NOT proved here: equality of the events H itself observes (scanner/lexer simulation); exercised by the pairs family
   (H vs H u O) through correspondence and oracle_c06. *)
Print Assumptions C06_output_independent_of_observers.
