(* C16 -- element/attribute read API (partial).  Only statements, `exact` proofs and Print Assumptions. *)
From LolModel Require Import Machine Selectors Rewriter.
From LolProofs Require Import TokenLaws AttrApi Validators.
From Coq Require Import List.
Import ListNotations.

Theorem C16_get_after_set : forall t n v t', stt_set_attr t n v = inl t' -> stt_get_attr t' n = Some v.
Proof. exact get_after_set. Qed.
Theorem C16_get_after_remove : forall t n, attr_name_check (lower_bytes n) = None -> stt_get_attr (stt_remove_attr t n) n = None.
Proof. exact has_after_remove. Qed.
Theorem C16_set_keeps_other_attributes : forall t n v t',
  stt_set_attr t n v = inl t' -> forall a, In a (stt_attrs t) -> attr_matches (lower_bytes n) a = false -> In a (stt_attrs t').
Proof. exact set_attr_keeps_others_raw. Qed.
(* lookups are ASCII case-insensitive on the attribute name *)
Theorem C16_lookup_is_case_insensitive : forall n, eq_ci (lower_bytes n) (lower_bytes n) = true.
Proof. exact eq_ci_lower_refl. Qed.

(* get_attribute / has_attribute: the value of the FIRST attribute whose name equals the argument ASCII case-insensitively
   (duplicates later in the tag are ignored), None iff no attribute has that name -- for every attribute list *)
Theorem C16_get_attribute_returns_the_first_match :
  forall t n v, attr_name_check (lower_bytes n) = None ->
  (stt_get_attr t n = Some v <->
   exists pre a post, stt_attrs t = pre ++ a :: post /\ Forall (fun x => eq_ignore_case (at_name x) n = false) pre /\
                      eq_ignore_case (at_name a) n = true /\ at_value a = v).
Proof. exact get_attribute_returns_the_first_match. Qed.
Theorem C16_get_attribute_none_iff_no_match :
  forall t n, attr_name_check (lower_bytes n) = None ->
  (stt_get_attr t n = None <-> Forall (fun x => eq_ignore_case (at_name x) n = false) (stt_attrs t)).
Proof. exact get_attribute_none_iff_no_match. Qed.
(* set_attribute rewrites the first match in place (source order and the other attributes untouched) or appends;
   remove_attribute deletes every attribute of that name and keeps the order of the rest *)
Theorem C16_set_attribute_in_place_or_append :
  forall t n v t', stt_set_attr t n v = inl t' ->
  (exists pre a post, stt_attrs t = pre ++ a :: post /\ Forall (fun x => eq_ignore_case (at_name x) n = false) pre /\
                      eq_ignore_case (at_name a) n = true /\ stt_attrs t' = pre ++ mkAt (at_name a) v None None :: post) \/
  (Forall (fun x => eq_ignore_case (at_name x) n = false) (stt_attrs t) /\ stt_attrs t' = stt_attrs t ++ [mkAt (lower_bytes n) v None None]).
Proof. exact set_attribute_in_place_or_append. Qed.
Theorem C16_remove_attribute_filters :
  forall t n, attr_name_check (lower_bytes n) = None ->
  stt_attrs (stt_remove_attr t n) = filter (fun a => negb (eq_ignore_case (at_name a) n)) (stt_attrs t).
Proof. exact remove_attribute_filters. Qed.
Theorem C16_invalid_attribute_names_are_inert :
  forall t n v e, attr_name_check (lower_bytes n) = Some e -> stt_get_attr t n = None /\ stt_set_attr t n v = inr e /\ stt_remove_attr t n = t.
Proof. exact invalid_attribute_names_are_inert. Qed.
(* which names the by-name accessors accept: exactly the non-empty names without whitespace, '/', '>' or '=' (the byte set
   is regenerated from Attribute::name_from_string on every run), so every other attribute name can be looked up *)
Theorem C16_lookup_accepts_every_name_without_delimiters :
  forall c, existsb (N.eqb c) ATTR_NAME_FORBIDDEN = spec_attr_name_delimiter c.
Proof. exact attr_name_validator_is_the_delimiter_set. Qed.
Example C16_first_duplicate_example :
  let t := mkStT (bs "a") [mkAt (bs "ID") (bs "1") None None; mkAt (bs "x") (bs "") None None; mkAt (bs "id") (bs "2") None None] Html false None None (mkR 0 0) 0%N in
  stt_get_attr t (bs "iD") = Some (bs "1") /\ stt_get_attr t (bs "X") = Some [] /\ stt_get_attr t (bs "y") = None
  /\ map at_name (stt_attrs (stt_remove_attr t (bs "Id"))) = [bs "x"].
Proof. vm_compute. auto. Qed.
(* NOT proved here: agreement of the attribute outline with the WHATWG attribute grammar for every chunking;
   exercised by correspondence (every getter value) and oracle_c16 (independent reference attribute parser). *)
Print Assumptions C16_get_after_set.
Print Assumptions C16_get_after_remove.
Print Assumptions C16_set_keeps_other_attributes.
Print Assumptions C16_get_attribute_returns_the_first_match.
Print Assumptions C16_get_attribute_none_iff_no_match.
Print Assumptions C16_set_attribute_in_place_or_append.
Print Assumptions C16_remove_attribute_filters.
Print Assumptions C16_invalid_attribute_names_are_inert.
Print Assumptions C16_lookup_accepts_every_name_without_delimiters.
