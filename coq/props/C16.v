(* C16 -- element/attribute read API (partial).  Only statements, `exact` proofs and Print Assumptions. *)
From LolModel Require Import Machine Selectors Rewriter.
From LolProofs Require Import TokenLaws.

Theorem C16_get_after_set : forall t n v t', stt_set_attr t n v = inl t' -> stt_get_attr t' n = Some v.
Proof. exact get_after_set. Qed.
Theorem C16_get_after_remove : forall t n, attr_name_check (lower_bytes n) = None -> stt_get_attr (stt_remove_attr t n) n = None.
Proof. exact has_after_remove. Qed.
Theorem C16_set_keeps_other_attributes : forall t n v t',
  stt_set_attr t n v = inl t' -> forall a, In a (stt_attrs t) -> attr_matches (lower_bytes n) a = false -> In a (stt_attrs t').
Proof. exact set_attr_keeps_others_raw. Qed.
(* lookups are ASCII case-insensitive on the attribute name *)
Theorem C16_lookup_is_case_insensitive : forall n, eq_ci (lower_bytes n) (lower_bytes n) = true.
Proof. exact eq_ci_lower_refl. Qed.
(* NOT proved here: agreement of the attribute outline with the WHATWG attribute grammar for every chunking;
   exercised by correspondence (every getter value) and oracle_c16 (independent reference attribute parser). *)
Print Assumptions C16_get_after_set.
Print Assumptions C16_get_after_remove.
Print Assumptions C16_set_keeps_other_attributes.
