(* C15 -- robustness (partial): the arithmetic of the tokenizer / dispatcher / stream never goes wrong. *)
From LolModel Require Import Machine Selectors.
From LolProofs Require Import InlineAcyclic.
From LolModel Require Import Base TreeBuilder.
From LolProofs Require SimInv.
From Coq Require Import List.
From LolGen Require Import StateTable.
From LolProofs Require Import Tiling TableFacts.
From LolProps Require Import C01.
From Coq Require Import ZArith Lia.

(* In the model every Rust operation that can panic on bad offsets is a checked operation: slicing the chunk
   between remaining_content_start and a lexeme (code 10, debug_assert! in Bytes::slice) and the cursor rewind
   `pos - consumed_byte_count` at the end of a chunk (code 5, usize underflow).  For every observer controller,
   configuration, input and chunking neither can happen. *)
Theorem C15_no_offset_panic :
  forall (C : Type) (ctl : controller C), observer ctl ->
  forall cfg c0 chunks r res k,
    api_run ctl (new_rewriter ctl cfg c0) (map Write chunks) = (r, res) ->
    In (RPanic k) res -> k <> 10 /\ k <> 5.
Proof.
  intros C ctl (H1 & H2 & _). exact (no_slice_panic ctl H1 H2 table_ok_current).
Qed.

(* the wrapping i32 arithmetic of NthChild::has_index stays in range for every operand *)
Theorem C15_wrap32_in_range : forall z, (-2147483648 <= wrap32 z < 2147483648)%Z.
Proof. intro z. unfold wrap32. pose proof (Z.mod_pos_bound (z + 2147483648) 4294967296 ltac:(lia)). lia. Qed.

(* No stack exhaustion from the tokenizer: `--> #[inline] state` is a direct call of the state function, every other transition
   returns to the parsing loop first; on the regenerated table the inline transitions form no cycle, so the depth of nested
   state-function calls is bounded by the number of states for every input. *)
Theorem C15_inline_transitions_form_no_cycle : forallb (fun st => negb (on_inline_cycle st)) all_states = true.
Proof. exact inline_transitions_form_no_cycle. Qed.

(* The tree builder simulator's namespace stack is never empty: for every sequence of simulator calls that follows the request
   protocol (start / end tag feedback, RequestLexeme answered by the lexeme callback) its top is current_ns and its bottom is Html,
   so the debug_assert!(false, "Namespace stack should always have at least one item") of leave_ns is unreachable -- also through
   the breakout path that leaves all directly nested foreign roots at once. *)
Theorem C15_namespace_stack_never_empty : forall part strict evs s p,
  SimInv.sim_run part (init_sim strict, None) evs = Some (s, p) ->
  exists r, ns_stack s = cur_ns s :: r /\ last (ns_stack s) Html = Html.
Proof. exact SimInv.namespace_stack_never_empty. Qed.

Print Assumptions C15_no_offset_panic.
Print Assumptions C15_wrap32_in_range.
Print Assumptions C15_inline_transitions_form_no_cycle.
Print Assumptions C15_namespace_stack_never_empty.
