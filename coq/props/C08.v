(* C08 -- inserted text cannot change markup structure (partial).  Only statements, `exact` proofs, Print Assumptions. *)
From LolModel Require Import Machine Selectors Rewriter.
From LolProofs Require Import TokenLaws.
From Coq Require Import Lia.

(* Text content: for every byte string the escaped form contains no '<' and no '>', and decoding the three character
   references gives the original string back (so exactly the inserted text node re-parses). *)
Theorem C08_escaped_text_has_no_markup : forall s, forallb (fun c => negb (is_lt_gt c)) (escape_body_text s) = true.
Proof. exact escape_body_text_no_markup. Qed.
Theorem C08_escaped_text_roundtrips : forall s fuel, length s <= fuel -> unescape fuel (escape_body_text s) = s.
Proof. exact unescape_escape_body_text. Qed.
(* Attribute values: the serialised value contains no double quote, so it cannot end the quoted value early. *)
Theorem C08_escaped_attribute_value_has_no_quote : forall s, forallb (fun c => negb (c =? 34)%N) (escape_double_quotes s) = true.
Proof. exact escape_double_quotes_no_quote. Qed.
(* Comment text accepted by set_text contains none of the comment-closing shapes. *)
Theorem C08_accepted_comment_text : forall t, comment_text_bad t = false ->
  has_infix t (bs "-->") = false /\ has_infix t (bs "--!>") = false /\ starts_with t (bs ">") = false /\ starts_with t (bs "->") = false.
Proof.
  intros t H. unfold comment_text_bad in H. repeat (apply Bool.orb_false_iff in H as [H ?]). auto.
Qed.
(* Rejected setters leave the token unchanged. *)
Theorem C08_rejected_setters_change_nothing :
  (forall t x, comment_text_bad x = true -> apply_tok_op true t (TkSetText x) = (t, OpErr))
  /\ (forall e n, tag_name_check n <> None -> apply_el_op e (ElSetTagName n) = (e, OpErr))
  /\ (forall e n v, attr_name_check (lower_bytes n) <> None -> apply_el_op e (ElSetAttr n v) = (e, OpErr)).
Proof.
  split; [|split].
  - intros t x H. cbn. rewrite H. reflexivity.
  - intros e n H. cbn. destruct (tag_name_check n); [reflexivity | contradiction].
  - intros e n v H. cbn. unfold stt_set_attr. destruct (attr_name_check (lower_bytes n)); [reflexivity | contradiction].
Qed.
(* NOT proved here: re-tokenisation of the serialised output by the (regenerated) tokenizer table; the cross-encoding
   clause (encoding_rs is external).  Exercised by correspondence with biased strings in operation scripts. *)
Print Assumptions C08_escaped_text_has_no_markup.
Print Assumptions C08_escaped_text_roundtrips.
Print Assumptions C08_escaped_attribute_value_has_no_quote.
Print Assumptions C08_accepted_comment_text.
Print Assumptions C08_rejected_setters_change_nothing.
